(* C04 — the WebRTC substream (src/transport/webrtc/substream.rs), which has a framing of its own
   underneath substream::Substream: poll_write turns every call into ONE message of at most
   MAX_FRAME_SIZE bytes pushed through a bounded channel to the connection's SubstreamHandle;
   poll_read takes one message at a time from the inbound channel and keeps what the caller's
   buffer could not take. The writing half is a carrier (Carrier.v), the reading half a byte
   source for Model.poll_next. What the SubstreamHandle and the remote peer do is the
   environment. Definitions only. *)
From Coq Require Import List NArith Bool.
From V.gen Require Consts.
From V.C04 Require Import Model Carrier.
Import ListNotations.
Open Scope N_scope.

Definition RTC_MAX_FRAME : N := Consts.C19_WEBRTC_MAX_FRAME_SIZE.
Definition RTC_CAP : N := Consts.WEBRTC_MAX_INFLIGHT_MESSAGES.

(* what the connection side does while a writer waits / between two operations *)
Inductive renv :=
| HPoll (k : N)       (* the handle's outbound stream is polled k times *)
| HFinAck             (* the remote's FIN_ACK is handed to the handle *)
| HStop               (* STOP_SENDING *)
| HReset.             (* RESET_STREAM *)

(* writer state of the substream: 0 Open, 1 Fin (FIN sent), 2 FinAck, 3 StopSending *)
Record rtc := mkRtc {
  r_q : N;              (* messages in the outbound channel *)
  r_tx : bool;          (* the substream still holds its sender (poll_shutdown takes it) *)
  r_rxclosed : bool;    (* the handle closed the receiving end of the outbound channel *)
  r_reset : bool;       (* channel state Reset *)
  r_ws : N;             (* writer state *)
  r_wakes : list renv;
  r_out : list N;       (* lengths of the messages pushed into the channel, oldest first *)
  r_taken : N;          (* how many of them the handle has taken out *)
  r_finsent : bool;     (* the handle has emitted FIN *)
  r_pclosed : bool      (* the substream's PollSender has noticed that the channel is closed (a reserve failed) *)
}.

Definition rtc_init (wakes : list renv) : rtc := mkRtc 0 true false false 0 wakes [] 0 false false.

(* one poll of SubstreamHandle as a Stream (only the part that concerns the writing half) *)
Definition hpoll1 (s : rtc) : rtc :=
  if r_reset s then s else
  match r_ws s with
  | 0 => if 0 <? r_q s then mkRtc (r_q s - 1) (r_tx s) (r_rxclosed s) false 0 (r_wakes s) (r_out s) (r_taken s + 1) (r_finsent s) (r_pclosed s)
         else if negb (r_tx s) || r_rxclosed s
              then mkRtc 0 (r_tx s) (r_rxclosed s) false 1 (r_wakes s) (r_out s) (r_taken s) true (r_pclosed s)   (* half close: FIN *)
              else s
  | 3 => mkRtc (r_q s) (r_tx s) (r_rxclosed s) false 1 (r_wakes s) (r_out s) (r_taken s) true (r_pclosed s)   (* FIN after STOP_SENDING *)
  | _ => s
  end.

Definition rtc_apply (s : rtc) (e : renv) : rtc :=
  match e with
  | HPoll k => N.iter k hpoll1 s
  | HFinAck =>
      if r_reset s then s
      else if r_ws s =? 1 then mkRtc (r_q s) (r_tx s) (r_rxclosed s) false 2 (r_wakes s) (r_out s) (r_taken s) (r_finsent s) (r_pclosed s)
      else mkRtc (r_q s) (r_tx s) true true (r_ws s) (r_wakes s) (r_out s) (r_taken s) (r_finsent s) (r_pclosed s)       (* unexpected: torn down *)
  | HStop =>
      if r_reset s || (r_ws s =? 1) || (r_ws s =? 2) then s
      else mkRtc (r_q s) (r_tx s) true false 3 (r_wakes s) (r_out s) (r_taken s) (r_finsent s) (r_pclosed s)
  | HReset =>
      if r_reset s then s else mkRtc (r_q s) (r_tx s) true true (r_ws s) (r_wakes s) (r_out s) (r_taken s) (r_finsent s) (r_pclosed s)
  end.

Definition rtc_done (s : rtc) : bool := r_reset s || (r_ws s =? 2) || (r_ws s =? 3).

Definition rtc_write (s : rtc) (len : N) : cans * rtc :=
  if negb (r_tx s) then (CErr, s)                 (* BrokenPipe: shutdown already ran *)
  else if r_rxclosed s                            (* poll_reserve on a closed channel: the PollSender is closed for good *)
       then (CErr, mkRtc (r_q s) true true (r_reset s) (r_ws s) (r_wakes s) (r_out s) (r_taken s) (r_finsent s) true)
  else if RTC_CAP <=? r_q s then (CPend, s)       (* backpressure of the channel *)
  else let k := N.min RTC_MAX_FRAME len in
       (CAcc k, mkRtc (r_q s + 1) true false (r_reset s) (r_ws s) (r_wakes s) (r_out s ++ [k]) (r_taken s) (r_finsent s) (r_pclosed s)).

(* poll_flush looks at the PollSender, which learns of a closed channel only through a failed reserve:
   after STOP_SENDING / RESET_STREAM it keeps answering Ok until the next write *)
Definition rtc_flush (s : rtc) : cans * rtc :=
  if negb (r_tx s) || r_pclosed s then (CErr, s) else (CAcc 0, s).

Definition rtc_shut (s : rtc) : cans * rtc :=
  let s' := mkRtc (r_q s) false (r_rxclosed s) (r_reset s) (r_ws s) (r_wakes s) (r_out s) (r_taken s) (r_finsent s) (r_pclosed s) in
  if rtc_done s then (CAcc 0, s') else (CPend, s').

Definition rtc_wake (s : rtc) : option rtc :=
  match r_wakes s with
  | [] => None
  | e :: t => Some (rtc_apply (mkRtc (r_q s) (r_tx s) (r_rxclosed s) (r_reset s) (r_ws s) t (r_out s) (r_taken s) (r_finsent s) (r_pclosed s)) e)
  end.

Definition RK : carrier rtc := mkCar rtc rtc_write rtc_flush rtc_shut rtc_wake.

(* ---------------------------------------------------------------- the reading half *)

Record rtcr := mkRr {
  rr_left : list N;           (* read_buffer: the rest of a message the caller's buffer could not take *)
  rr_inq : list (list N);     (* inbound channel *)
  rr_eof : bool;              (* the handle dropped its sender (FIN received) *)
  rr_reset : bool             (* channel state Reset / InitReset *)
}.

Definition rr_init : rtcr := mkRr [] [] false false.

(* SubstreamHandle::on_message with a payload (flag = FIN when fin is set) *)
Definition rr_message (s : rtcr) (payload : list N) (fin : bool) : rtcr :=
  if rr_reset s then s else
  let s1 :=
    if is_nil payload || rr_eof s then s
    else if RTC_CAP <=? lenN (rr_inq s) then mkRr (rr_left s) (rr_inq s) (rr_eof s) true   (* treated as flooding *)
    else mkRr (rr_left s) (rr_inq s ++ [payload]) (rr_eof s) false in
  if fin && negb (rr_reset s1) then mkRr (rr_left s1) (rr_inq s1) true false else s1.

(* RESET_STREAM from the remote: both ends of the inbound channel go away *)
Definition rr_reset_stream (s : rtcr) : rtcr :=
  if rr_reset s then s else mkRr (rr_left s) (rr_inq s) true true.

Inductive rread := RdPend | RdEof | RdErr | RdData (chunk : list N).

(* webrtc::Substream::poll_read with a buffer of `cap` bytes *)
Definition rr_read (s : rtcr) (cap : N) : rread * rtcr :=
  if negb (is_nil (rr_left s)) then
    let k := N.min (lenN (rr_left s)) cap in
    (RdData (takeN k (rr_left s)), mkRr (dropN k (rr_left s)) (rr_inq s) (rr_eof s) (rr_reset s))
  else match rr_inq s with
       | m :: t =>
           if RTC_MAX_FRAME <? lenN m then (RdErr, mkRr [] t (rr_eof s) (rr_reset s))
           else let k := N.min cap (lenN m) in
                (RdData (takeN k m), mkRr (dropN k m) t (rr_eof s) (rr_reset s))
       | [] =>
           if rr_eof s then ((if rr_reset s then RdErr else RdEof), s) else (RdPend, s)
       end.

Definition rr_bytes (s : rtcr) : list N := rr_left s ++ concat (rr_inq s).

(* Substream::poll_next over it; a round either ends the poll or consumes a byte or a message *)
Fixpoint wpoll (fuel : nat) (c : codec) (st : rstate) (s : rtcr) : rout * rstate * rtcr :=
  match fuel with
  | O => (RPend, st, s)
  | S fu =>
      match want c st with
      | None => (RPanic, st, s)
      | Some cap =>
          let '(a, s') := rr_read s cap in
          match a with
          | RdPend => (RPend, st, s')
          | RdEof => (RClosed, st, s')
          | RdErr => (on_err c, st, s')
          | RdData chunk =>
              let '(st', o) := on_data c st chunk in
              match o with
              | Some r => (r, st', s')
              | None => wpoll fu c st' s'
              end
          end
      end
  end.

Definition wpoll_fuel (s : rtcr) : nat := S (length (rr_bytes s) + length (rr_inq s) + 1).

(* the script that makes Model.poll_next do the same on the bytes buffered at the reading half *)
Fixpoint rtc_script (fuel : nat) (c : codec) (st : rstate) (s : rtcr) : list rdev :=
  match fuel with
  | O => []
  | S fu =>
      match want c st with
      | None => []
      | Some cap =>
          let '(a, s') := rr_read s cap in
          match a with
          | RdPend => []
          | RdEof => [EvEof]
          | RdErr => [EvErr]
          | RdData chunk =>
              let n := if negb (is_nil (rr_left s)) then lenN (rr_left s)
                       else match rr_inq s with m :: _ => lenN m | [] => 0 end in
              let '(st', o) := on_data c st chunk in
              EvChunk n :: match o with Some _ => [] | None => rtc_script fu c st' s' end
          end
      end
  end.
