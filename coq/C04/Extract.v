From Coq Require Import ExtrOcamlBasic.
From V.C04 Require Import Glue.
Extraction Language OCaml.
Extraction "c04_model.ml" run_case prop_ok known_class.
