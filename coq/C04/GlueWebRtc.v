(* C04 — wire format, model runner and oracle for the WebRTC substream streams (kinds 50 and 51; only
   run by the harness crate built with litep2p's webrtc feature: tools/c04_extra_streams.sh).

   kind 50 (the writer: substream::Substream of the WebRTC type; the harness plays the connection
   side through the SubstreamHandle):
   case  := 50 tag arg nops op* nw renv*       op: 0 poll_ready | 1 b len start_send | 2 poll_flush | 3 b len send_framed |
                                               4 Sink::poll_close | 5 close(self) (last) | 6 renv = the connection side moves
                                               renv: 0 k = the handle's stream is polled k times | 1 = FIN_ACK | 2 = STOP_SENDING |
                                               3 = RESET_STREAM is handed to the handle
   trace := 7, per operation that ran: code [npend: 3, 5] [pbytes nframes len* cur+1: 0-4] taken   (op 6: taken only)
            taken = payload messages the handle has taken out of the channel so far
            then: stopped, nmsgs, length of every payload message taken, RLE(their bytes), fin_sent —
            after the handle was polled 1000 more times.

   kind 51 (the reader):
   case  := 51 tag arg nraw (byte count)* nsteps step*
            step: 0 k fin = on_message(payload = the next k bytes of the wire, flag FIN when fin = 1) |
                  2 = one poll_next | 3 = on_message(RESET_STREAM) | 4 n = n one-byte payloads of the wire, one message each
   trace := 8, per poll: code [RLE(frame)] buf_len offset cur+1 *)
From Coq Require Import List NArith Bool.
From V.common Require Import Wire.
From V.C04 Require Import Model Carrier Yamux GlueYamux WebRtc.
Import ListNotations.
Open Scope N_scope.

Definition p_renv : parser renv :=
  let* tag := pN in
  match tag with
  | 0 => let* k := pN in let* _ := yguard (k <=? 2000) in pret (HPoll k)
  | 1 => pret HFinAck
  | 2 => pret HStop
  | 3 => pret HReset
  | _ => pfail
  end.

Definition p_wop : parser (gop renv) :=
  let* tag := pN in
  match tag with
  | 0 => pret (GOp OReady)
  | 1 => let* m := p_ymsg in pret (GOp (OSend m))
  | 2 => pret (GOp OFlush)
  | 3 => let* m := p_ymsg in pret (GOp (OFramed m))
  | 4 => pret (GOp OClose)
  | 5 => pret (GOp OCloseAll)
  | 6 => let* e := p_renv in pret (GEnv e)
  | _ => pfail
  end.

Fixpoint wclose_last (ops : list (gop renv)) : bool :=
  match ops with
  | [] => true
  | [_] => true
  | GOp OCloseAll :: _ => false
  | _ :: t => wclose_last t
  end.

Record wcase := mkWcase { wc_codec : codec; wc_ops : list (gop renv); wc_wakes : list renv }.

Definition decode_wcase (l : list N) : option wcase :=
  pall (let* t := pN in let* _ := yguard (t =? 50) in
        let* c := p_ycodec in
        let* ops := plist p_wop in
        let* _ := yguard (wclose_last ops) in
        let* wakes := plist p_renv in
        pret (mkWcase c ops wakes)) l.

Fixpoint wrun_trace (c : codec) (g : @gsys rtc) (ops : list (gop renv)) : option (list N * @gsys rtc * bool) :=
  match ops with
  | [] => Some ([], g, false)
  | GEnv e :: t =>
      let g1 := mkG (g_ws g) (g_sent g) (rtc_apply (g_car g) e) (g_shut g) in
      match wrun_trace c g1 t with
      | Some (rest, g2, st) => Some (r_taken (g_car g1) :: rest, g2, st)
      | None => None
      end
  | GOp o :: t =>
      match gstep RK YFUEL YBP c g o with
      | None => None
      | Some ((r, np), g1, _, ab) =>
          let here := ywres_code r :: (if y_has_npend o then [np] else []) ++
                      (if y_has_state o then yenc_wstate (g_ws g1) else []) ++ [r_taken (g_car g1)] in
          if ab then Some (here, g1, true)
          else match wrun_trace c g1 t with
               | Some (rest, g2, st) => Some (here ++ rest, g2, st)
               | None => None
               end
      end
  end.

Definition run_wcase (w : wcase) : list N :=
  match wrun_trace (wc_codec w) (mkG init_w [] (rtc_init (wc_wakes w)) false) (wc_ops w) with
  | None => [7; 7; 7; 7]
  | Some (tr, g, st) =>
      let fin := rtc_apply (g_car g) (HPoll 1000) in
      let lens := firstn (N.to_nat (r_taken fin)) (r_out fin) in
      7 :: tr ++ [b2n st] ++ enc_list (fun k => [k]) lens ++
      yenc_rle (takeN (ysum lens) (g_sent g)) ++ [b2n (r_finsent fin)]
  end.

(* ---- kind 51 ---- *)
Inductive wrstep := WMsg (k : N) (fin : bool) | WPollNext | WResetStream | WBurst (n : N).

Definition p_wrstep : parser wrstep :=
  let* tag := pN in
  match tag with
  | 0 => let* k := pN in let* f := pN in let* _ := yguard ((k <=? 100000) && (f <=? 1)) in pret (WMsg k (f =? 1))
  | 2 => pret WPollNext
  | 3 => pret WResetStream
  | 4 => let* n := pN in let* _ := yguard (n <=? 600) in pret (WBurst n)
  | _ => pfail
  end.

Record wrcase := mkWrcase { wr_codec : codec; wr_wire : list N; wr_steps : list wrstep }.

Definition decode_wrcase (l : list N) : option wrcase :=
  pall (let* t := pN in let* _ := yguard (t =? 51) in
        let* c := p_ycodec in
        let* raw := plist p_yrun in
        let* _ := yguard (lenN (concat raw) <=? 200000) in
        let* steps := plist p_wrstep in
        pret (mkWrcase c (concat raw) steps)) l.

Fixpoint burst (n : nat) (s : rtcr) (wire : list N) : rtcr * list N :=
  match n with
  | O => (s, wire)
  | S n' => match wire with
            | [] => (s, wire)
            | b :: t => burst n' (rr_message s [b] false) t
            end
  end.

Fixpoint wrrun (c : codec) (st : rstate) (s : rtcr) (wire : list N) (steps : list wrstep) : list N :=
  match steps with
  | [] => []
  | WMsg k fin :: t => let k' := N.min k (lenN wire) in wrrun c st (rr_message s (takeN k' wire) fin) (dropN k' wire) t
  | WResetStream :: t => wrrun c st (rr_reset_stream s) wire t
  | WBurst n :: t => let '(s', wire') := burst (N.to_nat n) s wire in wrrun c st s' wire' t
  | WPollNext :: t =>
      let '(o, st', s') := wpoll (wpoll_fuel s) c st s in
      match o with
      | RPanic => [9]
      | _ => rout_enc o ++ [buf_len st'; lenN (filled st'); enc_opt (cur st')] ++ wrrun c st' s' wire t
      end
  end.

Definition run_wrcase (r : wrcase) : list N :=
  8 :: wrrun (wr_codec r) (init_r (wr_codec r)) rr_init (wr_wire r) (wr_steps r).

(* ---- the oracles ---- *)
Definition forget_env (o : gop renv) : gop yenv :=
  match o with GOp x => GOp x | GEnv _ => GEnv (mkYe 0 false) end.

Definition only_polls (l : list renv) : bool :=
  forallb (fun e => match e with HPoll _ => true | _ => false end) l.

Definition env_of (ops : list (gop renv)) : list renv :=
  flat_map (fun o => match o with GEnv e => [e] | GOp _ => [] end) ops.

Definition prop_ok_w (w : wcase) (trace : list N) : bool :=
  match trace with
  | 7 :: body =>
      let ops := map forget_env (wc_ops w) in
      match pall (let* obs := p_ytrace ops in
                  let* stopped := pN in
                  let* lens := plist pN in
                  let* data := yp_rle in
                  let* fin := pN in pret (obs, stopped, lens, data, fin)) body with
      | Some (obs, stopped, lens, data, fin) =>
          match ytrace_ok false (wc_codec w) ops obs zero_yobs [] false with
          | Some (acc, broken, last) =>
              let queue_empty := is_nil (yo_frames last) && (yo_cur last =? 0) && (yo_pbytes last =? 0) in
              let undisturbed := only_polls (env_of (wc_ops w)) && only_polls (wc_wakes w) in
              y_is_prefix data acc && (lenN data =? ysum lens) &&
              forallb (fun k => k <=? RTC_MAX_FRAME) lens &&
              (* nothing queued, the connection side only ever took messages out: everything handed
                 over is with it, message by message, without any further action by the sender *)
              (if queue_empty && negb broken && undisturbed then nlist_eqb data acc else true)
          | None => false
          end
      | None => false
      end
  | _ => false
  end.

Fixpoint count_wpolls (l : list wrstep) : nat :=
  match l with [] => O | WPollNext :: t => S (count_wpolls t) | _ :: t => count_wpolls t end.

(* what has been handed to the reading half, as long as it was neither flooded nor reset nor fed an
   over-long message: then the polls must return the leading well-formed messages of it, in order *)
Fixpoint handed_in (steps : list wrstep) (wire : list N) (inq : N) (acc : list N) : option (list N) :=
  match steps with
  | [] => Some acc
  | WMsg k fin :: t =>
      let k' := N.min k (lenN wire) in
      if RTC_MAX_FRAME <? k' then None
      else if fin then (if is_nil t || forallb (fun s => match s with WPollNext => true | _ => false end) t
                        then Some (acc ++ takeN k' wire) else None)
      else handed_in t (dropN k' wire) inq (acc ++ takeN k' wire)
  | WResetStream :: _ => None
  | WBurst n :: t =>
      (* a burst is accepted whole only when it surely fits the channel *)
      if RTC_CAP <? n then None
      else let k' := N.min n (lenN wire) in handed_in t (dropN k' wire) inq (acc ++ takeN k' wire)
  | WPollNext :: t => handed_in t wire inq acc
  end.

Definition wquiet_tail (rsteps : list wrstep) : bool :=
  match rsteps with
  | [] => true
  | WPollNext :: _ => true
  | _ :: _ => false
  end.

Definition few_messages (steps : list wrstep) : bool :=
  fold_right (fun s acc => match s with WMsg _ _ => 1 + acc | WBurst n => n + acc | _ => acc end) 0 steps <=? RTC_CAP.

Definition prop_ok_wr (r : wrcase) (trace : list N) : bool :=
  match trace with
  | 8 :: body =>
      match pall (prep (count_wpolls (wr_steps r)) p_yrobs) body with
      | Some obs =>
          let c := wr_codec r in
          forallb (fun x => negb (yr_code x =? 2) || yframe_fits c (yr_frame x)) obs && forallb (yalloc_ok c) obs &&
          match (if few_messages (wr_steps r) then handed_in (wr_steps r) (wr_wire r) 0 [] else None) with
          | Some arrived =>
              let spec := spec_frames (S (length arrived)) c arrived in
              let fr := before_failure obs in
              let wellformed := lenN (wire_of c spec) =? lenN arrived in
              yagree fr spec && (N.of_nat (length fr) <=? N.of_nat (length spec)) &&
              (if wellformed then forallb (fun x => negb (yr_code x =? 3) && negb (yr_code x =? 4)) obs else true) &&
              (* once a poll that follows the last message finds nothing more to do, all of them were returned *)
              (match rev obs with
               | x :: _ => if wellformed && ((yr_code x =? 0) || (yr_code x =? 1)) && wquiet_tail (rev (wr_steps r)) &&
                              negb (match c with Identity 0 => true | _ => false end)
                           then list_eqb nlist_eqb fr spec else true
               | [] => true
               end)
          | None => true
          end
      | None => false
      end
  | _ => false
  end.
