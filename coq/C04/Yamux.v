(* C04 — the yamux stream underneath a TCP / WebSocket substream, at the level the framing property
   needs: the sending half as a carrier (Carrier.v) with the window / credit discipline of
   yamux 0.13 `Stream::poll_write` (accept min(len, send window, split_send_size) bytes, Pending
   at zero credit, one data frame per call through a bounded command channel to the connection
   task), the receiving half as a byte buffer drained by `Stream::poll_read`, and the two put
   together with an arbitrary schedule of writer operations, window updates, deliveries and
   reader polls. The credit pattern is the environment's choice. Definitions only. *)
From Coq Require Import List NArith Bool.
From V.gen Require Consts.
From V.C04 Require Import Model Carrier.
Import ListNotations.
Open Scope N_scope.

(* yamux::Config::default().split_send_size *)
Definition Y_SPLIT : N := 16384.
(* the stream's command channel: futures mpsc::channel(10), one sender: the sender is parked by its
   11th queued message and stays parked until the connection task takes a message *)
Definition Y_PARK : N := 11.
Definition Y_INIT_CREDIT : N := Consts.YAMUX_DEFAULT_CREDIT.

(* one wake-up of a waiting writer: the connection task ran (the command channel is drained), a
   window update of `grant` bytes was processed (0 = none), the peer may have reset the stream *)
Record yenv := mkYe { ye_grant : N; ye_rst : bool }.

Record ystate := mkY {
  y_credit : N;            (* send window *)
  y_q : N;                 (* commands in the channel not yet taken by the connection task *)
  y_open : bool;           (* State::can_write(): not reset, write half not closed *)
  y_wakes : list yenv;     (* what will happen while callers wait, one entry per wake-up *)
  y_out : list N;          (* lengths of the data frames handed to the connection task, oldest first *)
  y_rstd : bool;           (* reset by the peer (State::Closed) *)
  y_closed : bool;         (* a CloseStream command was sent *)
  y_acc : N;               (* bytes accepted so far *)
  y_rx : N                 (* bytes in the frames the connection task has taken (they are with the peer) *)
}.

Definition y_init (wakes : list yenv) : ystate := mkY Y_INIT_CREDIT 0 true wakes [] false false 0 0.

(* the connection task runs and processes what the peer sent *)
Definition y_apply (s : ystate) (e : yenv) : ystate :=
  mkY (y_credit s + ye_grant e) 0 (y_open s && negb (ye_rst e)) (y_wakes s) (y_out s)
      (y_rstd s || ye_rst e) (y_closed s) (y_acc s) (y_acc s).

Definition y_write (s : ystate) (len : N) : cans * ystate :=
  if Y_PARK <=? y_q s then (CPend, s)                       (* sender.poll_ready *)
  else if negb (y_open s) then (CErr, s)                    (* WriteZero: can no longer write *)
  else if y_credit s =? 0 then (CPend, s)                   (* no more credit left *)
  else let k := N.min (y_credit s) (N.min len Y_SPLIT) in
       (CAcc k, mkY (y_credit s - k) (y_q s + 1) true (y_wakes s) (y_out s ++ [k])
                    (y_rstd s) (y_closed s) (y_acc s + k) (y_rx s)).

Definition y_flush (s : ystate) : cans * ystate :=
  if Y_PARK <=? y_q s then (CPend, s) else (CAcc 0, s).

(* Stream::poll_close: nothing to do on a reset stream; otherwise a CloseStream command, and the
   write half is closed afterwards *)
Definition y_shut (s : ystate) : cans * ystate :=
  if y_rstd s then (CAcc 0, s)
  else if Y_PARK <=? y_q s then (CPend, s)
  else (CAcc 0, mkY (y_credit s) (y_q s + 1) false (y_wakes s) (y_out s) false true (y_acc s) (y_rx s)).

Definition y_wake (s : ystate) : option ystate :=
  match y_wakes s with
  | [] => None
  | e :: t => Some (y_apply (mkY (y_credit s) (y_q s) (y_open s) t (y_out s) (y_rstd s) (y_closed s) (y_acc s) (y_rx s)) e)
  end.

Definition YK : carrier ystate := mkCar ystate y_write y_flush y_shut y_wake.

Definition sumN (l : list N) : N := fold_right N.add 0 l.

(* ---------------------------------------------------------------- the receiving half *)

(* Stream::poll_read under Substream::poll_next: what is buffered is copied out (as much as the
   caller's buffer takes); an empty buffer answers Pending, or end of stream once the peer's FIN
   arrived. Every round consumes a byte, so fuel = S (length rbuf) is never exhausted. *)
Fixpoint ypoll (fuel : nat) (c : codec) (st : rstate) (rbuf : list N) (fin : bool)
  : rout * rstate * list N :=
  match fuel with
  | O => (RPend, st, rbuf)
  | S fu =>
      match want c st with
      | None => (RPanic, st, rbuf)
      | Some cap =>
          if is_nil rbuf || (cap =? 0) then ((if fin then RClosed else RPend), st, rbuf)
          else
            let k := N.min cap (lenN rbuf) in
            let '(st', o) := on_data c st (takeN k rbuf) in
            match o with
            | Some r => (r, st', dropN k rbuf)
            | None => ypoll fu c st' (dropN k rbuf) fin
            end
      end
  end.

(* the script that makes Model.poll_next do the same *)
Fixpoint yscript (fuel : nat) (c : codec) (st : rstate) (rbuf : list N) (fin : bool) : list rdev :=
  match fuel with
  | O => []
  | S fu =>
      match want c st with
      | None => []
      | Some cap =>
          if is_nil rbuf || (cap =? 0) then (if fin then [EvEof] else [])
          else
            let k := N.min cap (lenN rbuf) in
            let '(st', o) := on_data c st (takeN k rbuf) in
            EvChunk (lenN rbuf) ::
            match o with
            | Some _ => []
            | None => yscript fu c st' (dropN k rbuf) fin
            end
      end
  end.

(* ---------------------------------------------------------------- both ends and a schedule *)

Inductive ystep :=
| SOp (o : op)        (* the writer calls an operation of the Substream *)
| SEnv (e : yenv)     (* at the sending end: the connection task runs / a window update arrives *)
| SArrive (k : N)     (* up to k more bytes reach the receiving end's buffer *)
| SFin                (* the FIN reaches the receiving end (after everything sent, once the writer shut down) *)
| SPoll.              (* the reader polls the Substream once *)

Record ysys := mkYS {
  ys_g : @gsys ystate;          (* the writer: Sink state, bytes accepted by the sending stream, the stream *)
  ys_arr : N;                   (* how many of those bytes have reached the receiving end *)
  ys_rbuf : list N;             (* receiving stream's buffer *)
  ys_fin : bool;
  ys_r : rstate;                (* the reader *)
  ys_outs : list rout;          (* what the reader's polls returned, oldest first *)
  ys_ops : list op;             (* writer operations that ran, with their results *)
  ys_res : list (wres * N);
  ys_stop : bool;               (* a writer future was dropped while pending: the writer does nothing more *)
  ys_bad : bool                 (* a send_framed call failed or was dropped midway (its caller was told) *)
}.

Definition goodb (o : op) (r : wres * N) : bool :=
  match o with
  | OFramed _ => match fst r with WOk | WDenied => true | _ => false end
  | _ => true
  end.

Definition ys_init (c : codec) (wakes : list yenv) : ysys :=
  mkYS (mkG init_w [] (y_init wakes) false) 0 [] false (init_r c) [] [] [] false false.

Definition ystep_run (fuel : nat) (bp : N) (c : codec) (y : ysys) (st : ystep) : option ysys :=
  match st with
  | SOp o =>
      if ys_stop y then Some y else
      match gstep YK fuel bp c (ys_g y) o with
      | None => None
      | Some (r, g1, _, ab) =>
          Some (mkYS g1 (ys_arr y) (ys_rbuf y) (ys_fin y) (ys_r y) (ys_outs y)
                     (ys_ops y ++ [o]) (ys_res y ++ [r]) ab (ys_bad y || negb (goodb o r)))
      end
  | SEnv e =>
      let g := ys_g y in
      Some (mkYS (mkG (g_ws g) (g_sent g) (y_apply (g_car g) e) (g_shut g))
                 (ys_arr y) (ys_rbuf y) (ys_fin y) (ys_r y) (ys_outs y) (ys_ops y) (ys_res y) (ys_stop y) (ys_bad y))
  | SArrive k =>
      let sent := g_sent (ys_g y) in
      let k' := N.min k (lenN sent - ys_arr y) in
      Some (mkYS (ys_g y) (ys_arr y + k') (ys_rbuf y ++ takeN k' (dropN (ys_arr y) sent)) (ys_fin y)
                 (ys_r y) (ys_outs y) (ys_ops y) (ys_res y) (ys_stop y) (ys_bad y))
  | SFin =>
      if g_shut (ys_g y) && (ys_arr y =? lenN (g_sent (ys_g y)))
      then Some (mkYS (ys_g y) (ys_arr y) (ys_rbuf y) true (ys_r y) (ys_outs y) (ys_ops y) (ys_res y) (ys_stop y) (ys_bad y))
      else Some y
  | SPoll =>
      let '(o, r', rbuf') := ypoll (S (length (ys_rbuf y))) c (ys_r y) (ys_rbuf y) (ys_fin y) in
      Some (mkYS (ys_g y) (ys_arr y) rbuf' (ys_fin y) r' (ys_outs y ++ [o]) (ys_ops y) (ys_res y) (ys_stop y) (ys_bad y))
  end.

Fixpoint yrun (fuel : nat) (bp : N) (c : codec) (y : ysys) (sched : list ystep) : option ysys :=
  match sched with
  | [] => Some y
  | st :: t => match ystep_run fuel bp c y st with
               | Some y1 => yrun fuel bp c y1 t
               | None => None
               end
  end.
