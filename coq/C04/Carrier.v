(* C04 — the writer of Model.v once more, over an ABSTRACT carrier (a state machine answering
   poll_write / poll_flush / poll_shutdown) instead of a script, together with the log of the
   carrier's answers. CarrierProofs.v shows that running the script-driven writer of Model.v on that
   log reproduces the run exactly, so every theorem quantified over all scripts holds over every
   carrier: in particular over the yamux stream (Yamux.v) and the WebRTC message channel
   (WebRtc.v), whose flow control is then no longer an assumption. Definitions only. *)
From Coq Require Import List NArith Bool.
From V.C04 Require Import Model.
Import ListNotations.
Open Scope N_scope.

Inductive cans :=
| CPend              (* Poll::Pending *)
| CAcc (k : N)       (* poll_write: Ready(Ok(k)) (at most the offered length counts); poll_flush / poll_shutdown: Ready(Ok(())) *)
| CErr.              (* Ready(Err(_)) *)

Record carrier (S : Type) := mkCar {
  c_write : S -> N -> cans * S;      (* poll_write with a buffer of that length *)
  c_flush : S -> cans * S;           (* poll_flush *)
  c_shut  : S -> cans * S;           (* poll_shutdown *)
  c_wake  : S -> option S            (* between a Pending answer and the next poll of the same future: what the
                                        environment did meanwhile; None = nothing will wake the task any more
                                        (the future is dropped and the run ends there) *)
}.
Arguments c_write {S}. Arguments c_flush {S}. Arguments c_shut {S}. Arguments c_wake {S}.

Definition ans_ev (a : cans) : wev := match a with CPend => WPending | CAcc k => WChunk k | CErr => WErr end.

Section Generic.
Context {S : Type} (K : carrier S).

(* Sink::poll_flush *)
Fixpoint gflush (fuel : nat) (s : S) (w : wstate) (sent : list N)
  : option (wres * wstate * list N * S * list wev) :=
  match fuel with
  | O => None
  | Datatypes.S fu =>
      match take_frame w with
      | None =>
          let '(a, s') := c_flush K s in
          Some (match a with CPend => WPend | CAcc _ => WOk | CErr => WIo end, w, sent, s', [ans_ev a])
      | Some (f, w0) =>
          let keep := mkW (frames w0) (Some f) (pbytes w0) in
          let '(a, s') := c_write K s (lenN f) in
          match a with
          | CPend => Some (WPend, keep, sent, s', [WPending])
          | CErr => Some (WIo, keep, sent, s', [WErr])
          | CAcc n =>
              let k := N.min n (lenN f) in
              if (k =? 0) && negb (is_nil f) then Some (WIo, keep, sent, s', [WChunk n]) else
              let f' := dropN k f in
              match gflush fu s' (mkW (frames w0) (if is_nil f' then None else Some f') (pbytes w0 - k))
                           (sent ++ takeN k f) with
              | Some (r, w', sn, s'', L) => Some (r, w', sn, s'', WChunk n :: L)
              | None => None
              end
          end
      end
  end.

(* enough for any queue: every carrier call either ends the flush or consumes a byte or a frame *)
Definition flush_fuel (w : wstate) : nat := Datatypes.S (length (qbytes w) + length (frames w) + 2).

Definition gpoll_ready (bp : N) (s : S) (w : wstate) (sent : list N)
  : option (wres * wstate * list N * S * list wev) :=
  if bp <=? pbytes w then gflush (flush_fuel w) s w sent else Some (WOk, w, sent, s, []).

(* SinkExt::flush(..).await; the boolean: the future was dropped while pending (no wake-up left) *)
Fixpoint gflush_all (fuel : nat) (s : S) (w : wstate) (sent : list N) (npend : N)
  : option (wres * N * wstate * list N * S * list wev * bool) :=
  match fuel with
  | O => None
  | Datatypes.S fu =>
      match gflush (flush_fuel w) s w sent with
      | None => None
      | Some (r, w1, s1, c1, L1) =>
          match r with
          | WPend =>
              match c_wake K c1 with
              | None => Some (WPend, npend + 1, w1, s1, c1, L1, true)
              | Some c2 =>
                  match gflush_all fu c2 w1 s1 (npend + 1) with
                  | Some (r', np', w', sn', c', L2, ab) => Some (r', np', w', sn', c', L1 ++ L2, ab)
                  | None => None
                  end
              end
          | _ => Some (r, npend, w1, s1, c1, L1, false)
          end
      end
  end.

(* write_all of each buffer, then flush *)
Fixpoint gsf_run (fuel : nat) (ident : bool) (s : S) (bufs : list (list N)) (sent : list N) (npend : N)
  : option (wres * N * list N * S * list wev * bool) :=
  match fuel with
  | O => None
  | Datatypes.S fu =>
      match bufs with
      | [] =>
          let '(a, s') := c_flush K s in
          match a with
          | CPend =>
              match c_wake K s' with
              | None => Some (WPend, npend + 1, sent, s', [WPending], true)
              | Some s2 =>
                  match gsf_run fu ident s2 [] sent (npend + 1) with
                  | Some (r, np, sn, c, L, ab) => Some (r, np, sn, c, WPending :: L, ab)
                  | None => None
                  end
              end
          | CErr => Some (WIo, npend, sent, s', [WErr], false)
          | CAcc k => Some (WOk, npend, sent, s', [WChunk k], false)
          end
      | b :: bufs' =>
          let '(a, s') := c_write K s (lenN b) in
          match a with
          | CPend =>
              match c_wake K s' with
              | None => Some (WPend, npend + 1, sent, s', [WPending], true)
              | Some s2 =>
                  match gsf_run fu ident s2 bufs sent (npend + 1) with
                  | Some (r, np, sn, c, L, ab) => Some (r, np, sn, c, WPending :: L, ab)
                  | None => None
                  end
              end
          | CErr => Some (if ident then WClosed else WIo, npend, sent, s', [WErr], false)
          | CAcc n =>
              let k := N.min n (lenN b) in
              if k =? 0 then Some (if ident then WClosed else WIo, npend, sent, s', [WChunk n], false)
              else
                let b' := dropN k b in
                match gsf_run fu ident s' (if is_nil b' then bufs' else b' :: bufs') (sent ++ takeN k b) npend with
                | Some (r, np, sn, c, L, ab) => Some (r, np, sn, c, WChunk n :: L, ab)
                | None => None
                end
          end
      end
  end.

Definition gsend_framed (fuel : nat) (c : codec) (s : S) (w : wstate) (m : list N) (sent : list N)
  : option (wres * N * wstate * list N * S * list wev * bool) :=
  match (if queue_nonempty w then gflush_all fuel s w sent 0
         else Some (WOk, 0, w, sent, s, [], false)) with
  | None => None
  | Some (r0, np, w1, s1, c1, L1, ab1) =>
      match r0 with
      | WOk =>
          if fitsb c m then
            let bufs := match c with
                        | Identity _ => filter (fun b => negb (is_nil b)) [m]
                        | Varint _ => filter (fun b => negb (is_nil b)) [varint_enc (lenN m); m]
                        end in
            match gsf_run fuel (match c with Identity _ => true | Varint _ => false end) c1 bufs s1 np with
            | Some (r, np', s2, c2, L2, ab2) => Some (r, np', w1, s2, c2, L1 ++ L2, ab2)
            | None => None
            end
          else Some (WDenied, np, w1, s1, c1, L1, false)
      | _ => Some (r0, np, w1, s1, c1, L1, ab1)
      end
  end.

(* Sink::poll_close: one poll_shutdown *)
Definition gpoll_close (s : S) (w : wstate) (sent : list N)
  : wres * wstate * list N * S * list wev * bool :=
  let '(a, s') := c_shut K s in
  (match a with CPend => WPend | CAcc _ => WOk | CErr => WIo end, w, sent, s', [ans_ev a],
   match a with CAcc _ => true | _ => false end).

(* substream.shutdown().await, errors ignored *)
Fixpoint gshutdown_all (fuel : nat) (s : S) (npend : N) : option (wres * N * bool * S * list wev * bool) :=
  match fuel with
  | O => None
  | Datatypes.S fu =>
      let '(a, s') := c_shut K s in
      match a with
      | CPend =>
          match c_wake K s' with
          | None => Some (WPend, npend + 1, false, s', [WPending], true)
          | Some s2 =>
              match gshutdown_all fu s2 (npend + 1) with
              | Some (r, np, sh, c, L, ab) => Some (r, np, sh, c, WPending :: L, ab)
              | None => None
              end
          end
      | CErr => Some (WOk, npend, false, s', [WErr], false)
      | CAcc k => Some (WOk, npend, true, s', [WChunk k], false)
      end
  end.

Record gsys := mkG { g_ws : wstate; g_sent : list N; g_car : S; g_shut : bool }.

(* one operation: result, new state, log of the carrier's answers, dropped-while-pending flag *)
Definition gstep (fuel : nat) (bp : N) (c : codec) (g : gsys) (o : op)
  : option ((wres * N) * gsys * list wev * bool) :=
  match o with
  | OReady =>
      match gpoll_ready bp (g_car g) (g_ws g) (g_sent g) with
      | Some (r, w, sn, s, L) => Some ((r, 0), mkG w sn s (g_shut g), L, false)
      | None => None
      end
  | OFlush =>
      match gflush (flush_fuel (g_ws g)) (g_car g) (g_ws g) (g_sent g) with
      | Some (r, w, sn, s, L) => Some ((r, 0), mkG w sn s (g_shut g), L, false)
      | None => None
      end
  | OSend m => let '(r, w) := start_send c (g_ws g) m in Some ((r, 0), mkG w (g_sent g) (g_car g) (g_shut g), [], false)
  | OFramed m =>
      match gsend_framed fuel c (g_car g) (g_ws g) m (g_sent g) with
      | Some (r, np, w, sn, s, L, ab) => Some ((r, np), mkG w sn s (g_shut g), L, ab)
      | None => None
      end
  | OClose =>
      let '(r, w, sn, s, L, sh) := gpoll_close (g_car g) (g_ws g) (g_sent g) in
      Some ((r, 0), mkG w sn s (g_shut g || sh), L, false)
  | OCloseAll =>
      match gshutdown_all fuel (g_car g) 0 with
      | Some (r, np, sh, s, L, ab) => Some ((r, np), mkG (g_ws g) (g_sent g) s (g_shut g || sh), L, ab)
      | None => None
      end
  end.

(* a history; `env` are things the environment does to the carrier between two operations. The run
   ends with the operation whose future was dropped while pending. Returns the results of the
   operations that ran, the final state, the log. *)
Inductive gop (E : Type) := GOp (o : op) | GEnv (e : E).
Arguments GOp {E}. Arguments GEnv {E}.

Fixpoint grun {E : Type} (env : S -> E -> S) (fuel : nat) (bp : N) (c : codec) (g : gsys) (ops : list (gop E))
  : option (list (wres * N) * gsys * list wev * bool) :=
  match ops with
  | [] => Some ([], g, [], false)
  | GEnv e :: t => grun env fuel bp c (mkG (g_ws g) (g_sent g) (env (g_car g) e) (g_shut g)) t
  | GOp o :: t =>
      match gstep fuel bp c g o with
      | None => None
      | Some (r, g1, L1, ab) =>
          if ab then Some ([r], g1, L1, true)
          else match grun env fuel bp c g1 t with
               | Some (rs, g2, L2, ab2) => Some (r :: rs, g2, L1 ++ L2, ab2)
               | None => None
               end
      end
  end.

(* the operations of a history, without the environment's moves *)
Fixpoint gops {E : Type} (ops : list (gop E)) : list op :=
  match ops with
  | [] => []
  | GOp o :: t => o :: gops t
  | GEnv _ :: t => gops t
  end.

End Generic.
Arguments GOp {E}.
Arguments GEnv {E}.
