(* C04 — proofs about the tokio-util codec model (Codec.v). *)
From Coq Require Import List NArith Bool Lia ZifyBool ZifyNat ZifyN.
From V.C04 Require Import Model Proofs Codec.
Import ListNotations.
Open Scope N_scope.
Arguments N.add : simpl never.
Arguments N.sub : simpl never.
Arguments N.mul : simpl never.
Arguments N.div : simpl never.
Arguments N.modulo : simpl never.
Arguments N.eqb : simpl never.
Arguments N.ltb : simpl never.
Arguments N.leb : simpl never.
Arguments N.of_nat : simpl never.
Arguments N.to_nat : simpl never.
Arguments N.min : simpl never.
Arguments N.max : simpl never.

(* ------------------------------------------------------------------ varint: a terminated prefix *)
Lemma scan_ext : forall g first l x v k,
  scan g first l = RpsOk v k -> scan g first (l ++ x) = RpsOk v k.
Proof.
  induction g as [|g IH]; intros first l x v k H; [discriminate|].
  destruct l as [|b t]; [discriminate|]. cbn [app scan] in *.
  destruct (b <? 128); [exact H|].
  destruct (scan g false t) as [v' k'| | |] eqn:E; try discriminate.
  rewrite (IH _ _ x _ _ E). exact H.
Qed.

Lemma rps_ext l x v k :
  read_payload_size l = RpsOk v k -> read_payload_size (l ++ x) = RpsOk v k.
Proof.
  unfold read_payload_size. intros H.
  destruct (scan 10 true l) as [v' k'| | |] eqn:E; try discriminate.
  rewrite (scan_ext _ _ _ x _ _ E). exact H.
Qed.

Lemma rps_enc_ext n x :
  n < USIZE_MOD -> read_payload_size (varint_enc n ++ x) = RpsOk n (lenN (varint_enc n)).
Proof. intros H. apply rps_ext. apply rps_enc. exact H. Qed.

(* ------------------------------------------------------------------ encoding *)
Definition cd_ok (cd : tcodec) : Prop := match cd with TIdentity n => 0 < n | TUvi _ => True end.

Definition CFits (cd : tcodec) (msgs : list (list N)) : Prop :=
  Forall (fun m => tfits cd m = true /\ lenN m < USIZE_MOD) msgs.

Lemma tfits_enc cd m : tfits cd m = true -> tencode cd m = (EOk, frame (codec_of cd) m).
Proof.
  unfold tfits, tencode. destruct cd as [n|mx]; cbn [codec_of frame].
  - destruct ((lenN m =? n) && negb (is_nil m)); [reflexivity|discriminate].
  - destruct (mx <? lenN m); [discriminate|reflexivity].
Qed.

Lemma tfits_fitsb cd m : cd_ok cd -> tfits cd m = fitsb (codec_of cd) m.
Proof.
  unfold tfits, tencode, cd_ok. destruct cd as [n|mx]; cbn [codec_of fitsb]; intros Hok.
  - destruct (lenN m =? n) eqn:E; cbn [andb]; [|reflexivity].
    destruct m as [|x t]; [rewrite lenN_nil in E; lia|reflexivity].
  - destruct (mx <? lenN m) eqn:E; [symmetry; lia|symmetry; lia].
Qed.

Lemma tencode_refused cd m r out : tencode cd m = (r, out) -> r <> EOk -> out = [].
Proof.
  unfold tencode. destruct cd as [n|mx].
  - destruct ((lenN m =? n) && negb (is_nil m)); intros H; injection H as <- <-; congruence.
  - destruct (mx <? lenN m); intros H; injection H as <- <-; congruence.
Qed.

Lemma tencode_oversized mx m : mx < lenN m -> tencode (TUvi mx) m = (EDenied, []).
Proof. intros H. unfold tencode. replace (mx <? lenN m) with true by lia. reflexivity. Qed.

Lemma tencode_wrong_size n m : lenN m <> n -> tencode (TIdentity n) m = (EInvalid, []).
Proof. intros H. unfold tencode. replace (lenN m =? n) with false by lia. reflexivity. Qed.

Lemma twire_nil cd : twire cd [] = [].
Proof. reflexivity. Qed.

Lemma twire_cons cd m t : tfits cd m = true -> twire cd (m :: t) = frame (codec_of cd) m ++ twire cd t.
Proof. intros H. unfold twire. cbn [map concat]. rewrite (tfits_enc _ _ H). reflexivity. Qed.

Lemma twire_wire_of cd msgs : CFits cd msgs -> twire cd msgs = wire_of (codec_of cd) msgs.
Proof.
  induction msgs as [|m t IH]; intros H; [reflexivity|].
  inversion H as [|x y (Hx & _) Hy]; subst. rewrite twire_cons by exact Hx.
  rewrite wire_of_cons, IH by exact Hy. reflexivity.
Qed.

(* refused items leave no trace in dst *)
Lemma twire_filter cd msgs : twire cd msgs = twire cd (filter (tfits cd) msgs).
Proof.
  induction msgs as [|m t IH]; [reflexivity|]. cbn [filter]. unfold twire in *. cbn [map concat].
  destruct (tfits cd m) eqn:E.
  - cbn [map concat]. rewrite IH. reflexivity.
  - rewrite IH. unfold tfits in E. destruct (tencode cd m) as [r out] eqn:E2. cbn [snd].
    rewrite (tencode_refused _ _ _ _ E2); [reflexivity|]. destruct r; congruence.
Qed.

(* ------------------------------------------------------------------ decoding: the invariant *)
(* src = what is buffered, tail = the part of the encoding of `rest` that has not arrived yet *)
Definition KInv (cd : tcodec) (dl : option N) (src tail : list N) (rest : list (list N)) : Prop :=
  match cd with
  | TIdentity _ => src ++ tail = twire cd rest
  | TUvi _ =>
      match dl with
      | None => src ++ tail = twire cd rest
      | Some k => exists m rest', rest = m :: rest' /\ k = lenN m /\ 0 < k /\ src ++ tail = m ++ twire cd rest'
      end
  end.

Lemma kinv_arrive cd dl src ch tail rest :
  KInv cd dl src (ch ++ tail) rest -> KInv cd dl (src ++ ch) tail rest.
Proof.
  unfold KInv. destruct cd as [n|mx]; [rewrite <- app_assoc; auto|].
  destruct dl as [k|]; [|rewrite <- app_assoc; auto].
  intros (m & rest' & H1 & H2 & H3 & H4). exists m, rest'. rewrite <- app_assoc. auto.
Qed.

Lemma prefix_take {A} (a b c d : list A) :
  a ++ b = c ++ d -> lenN c <= lenN a -> takeN (lenN c) a = c /\ dropN (lenN c) a ++ b = d.
Proof.
  intros H Hl. pose proof (takeN_dropN (lenN c) a) as Hs.
  rewrite <- Hs, <- app_assoc in H.
  apply app_eq_len in H.
  - destruct H as (H1 & H2). auto.
  - apply lenN_inj. rewrite lenN_takeN. lia.
Qed.

Lemma cfits_head cd m rest : CFits cd (m :: rest) -> tfits cd m = true /\ lenN m < USIZE_MOD /\ CFits cd rest.
Proof. intros H. inversion H as [|x y (H1 & H2) H3]; subst. auto. Qed.

Lemma tfits_identity n m : tfits (TIdentity n) m = true -> lenN m = n /\ m <> [].
Proof.
  unfold tfits, tencode. destruct (lenN m =? n) eqn:E; cbn [andb]; [|discriminate].
  destruct m; cbn [is_nil negb]; [discriminate|]. intros _. split; [lia|discriminate].
Qed.

Lemma tfits_uvi mx m : tfits (TUvi mx) m = true -> lenN m <= mx.
Proof. unfold tfits, tencode. destruct (mx <? lenN m) eqn:E; [discriminate|]. intros _. lia. Qed.

(* what one decode call must establish *)
Definition dpost (cd : tcodec) (src tail : list N) (rest : list (list N)) (r : dres) (dl' : option N) (src' : list N) : Prop :=
  match r with
  | DFrame f => exists rest', rest = f :: rest' /\ KInv cd dl' src' tail rest' /\ (length src' < length src)%nat
  | DNone => KInv cd dl' src' tail rest /\ tdecode cd dl' src' = (DNone, dl', src') /\
             (tail = [] -> rest = [] /\ src' = [])
  | _ => False
  end.

(* UviBytes::deserialise once the length n = lenN m is known and s1 is what follows it *)
Definition uvi_body (mx k : N) (s1 : list N) : dres * option N * list N :=
  if mx <? k then (DDenied, None, s1)
  else if k <=? lenN s1 then (DFrame (takeN k s1), None, dropN k s1)
  else (DNone, Some k, s1).

Lemma uvi_body_post mx m rest0 src s1 tail r dl' src' :
  tfits (TUvi mx) m = true ->
  s1 ++ tail = m ++ twire (TUvi mx) rest0 ->
  (length s1 <= length src)%nat -> (0 < lenN m \/ (length s1 < length src)%nat) ->
  uvi_body mx (lenN m) s1 = (r, dl', src') ->
  dpost (TUvi mx) src tail (m :: rest0) r dl' src'.
Proof.
  intros Hf Hs1 Hlen Hstrict Hb. pose proof (tfits_uvi _ _ Hf) as Hmx. unfold uvi_body in Hb.
  replace (mx <? lenN m) with false in Hb by lia.
  destruct (lenN m <=? lenN s1) eqn:E; injection Hb as <- <- <-; cbn [dpost].
  - destruct (prefix_take _ _ _ _ Hs1 ltac:(lia)) as (Ht & Hd).
    exists rest0. split; [rewrite Ht; reflexivity|]. split; [exact Hd|].
    pose proof (lenN_dropN (lenN m) s1) as Hdl. unfold lenN in *. lia.
  - split.
    + cbn [KInv]. exists m, rest0. repeat split; auto. lia.
    + split.
      * unfold tdecode. fold (uvi_body mx (lenN m) s1). unfold uvi_body.
        replace (mx <? lenN m) with false by lia. rewrite E. reflexivity.
      * intros ->. exfalso. rewrite app_nil_r in Hs1.
        assert (lenN s1 = lenN m + lenN (twire (TUvi mx) rest0)) by (rewrite Hs1, lenN_app; reflexivity). lia.
Qed.

(* one decode call under the invariant *)
Lemma tdecode_kinv cd dl src tail rest r dl' src' :
  cd_ok cd -> CFits cd rest -> KInv cd dl src tail rest ->
  tdecode cd dl src = (r, dl', src') -> dpost cd src tail rest r dl' src'.
Proof.
  intros Hok Hfit Hinv H. destruct cd as [n|mx]; cbn [cd_ok] in Hok.
  - (* Identity *)
    cbn [KInv] in *. unfold tdecode in H.
    destruct (is_nil src || (lenN src <? n)) eqn:E.
    + injection H as <- <- <-. cbn [dpost KInv]. split; [exact Hinv|]. split.
      { unfold tdecode. rewrite E. reflexivity. }
      intros ->. rewrite app_nil_r in Hinv.
      destruct rest as [|m rest']; [split; [reflexivity|]; rewrite Hinv; reflexivity|exfalso].
      destruct (cfits_head _ _ _ Hfit) as (Hf & _ & _). rewrite twire_cons in Hinv by exact Hf.
      cbn [codec_of frame] in Hinv. destruct (tfits_identity _ _ Hf) as (Hl & Hne).
      assert (lenN src = lenN m + lenN (twire (TIdentity n) rest')) by (rewrite Hinv, lenN_app; reflexivity).
      apply orb_true_iff in E. destruct E as [E|E]; [apply is_nil_true in E; rewrite E, lenN_nil in H; lia|lia].
    + apply orb_false_iff in E. destruct E as (E1 & E2). apply is_nil_false in E1.
      injection H as <- <- <-. cbn [dpost KInv].
      destruct rest as [|m rest'].
      { exfalso. rewrite twire_nil in Hinv. apply app_eq_nil in Hinv. tauto. }
      destruct (cfits_head _ _ _ Hfit) as (Hf & _ & Hfr). rewrite twire_cons in Hinv by exact Hf.
      cbn [codec_of frame] in Hinv. destruct (tfits_identity _ _ Hf) as (Hl & Hne).
      destruct (prefix_take _ _ _ _ Hinv ltac:(lia)) as (Ht & Hd). rewrite Hl in Ht, Hd.
      exists rest'. split; [rewrite Ht; reflexivity|]. split; [exact Hd|].
      pose proof (lenN_dropN n src) as Hdl. unfold lenN in *. lia.
  - (* UviBytes *)
    cbn [KInv] in Hinv. unfold tdecode in H. destruct dl as [k|].
    + destruct Hinv as (m & rest0 & -> & -> & Hk & Hs).
      destruct (cfits_head _ _ _ Hfit) as (Hf & _ & _).
      eapply uvi_body_post; eauto.
    + destruct rest as [|m rest0].
      * rewrite twire_nil in Hinv. apply app_eq_nil in Hinv. destruct Hinv as (-> & ->).
        change (read_payload_size []) with RpsNotEnough in H. injection H as <- <- <-.
        cbn [dpost KInv]. repeat split; reflexivity.
      * destruct (cfits_head _ _ _ Hfit) as (Hf & Hsz & _). rewrite twire_cons in Hinv by exact Hf.
        cbn [codec_of frame] in Hinv. rewrite <- app_assoc in Hinv.
        apply app_eq_app in Hinv. destruct Hinv as (l & [(Hsrc & Hrest)|(Henc & Htail)]).
        -- (* the whole length prefix is buffered *)
           rewrite Hsrc in H. rewrite (rps_enc_ext _ l Hsz) in H.
           replace (dropN (lenN (varint_enc (lenN m))) (varint_enc (lenN m) ++ l)) with l in H.
           2:{ rewrite dropN_app_le by lia. rewrite dropN_all by lia. reflexivity. }
           apply (uvi_body_post mx m rest0 src l tail r dl' src' Hf); [symmetry; exact Hrest| | |exact H].
           ++ rewrite Hsrc, app_length. lia.
           ++ right. rewrite Hsrc, app_length. pose proof (enc_fuel_nonnil 9 (lenN m)) as Hn.
              unfold varint_enc. destruct (enc_fuel 9 (lenN m)); [congruence|cbn [length]; lia].
        -- destruct l as [|x l'].
           ++ (* exactly the prefix *)
              rewrite app_nil_r in Henc. cbn [app] in Htail. subst src.
              rewrite (rps_enc _ Hsz) in H. rewrite dropN_all in H by lia.
              apply (uvi_body_post mx m rest0 (varint_enc (lenN m)) [] tail r dl' src' Hf).
              ** cbn [app]. exact Htail.
              ** cbn [length]. lia.
              ** right. pose proof (enc_fuel_nonnil 9 (lenN m)) as Hn. unfold varint_enc.
                 destruct (enc_fuel 9 (lenN m)); [congruence|cbn [length]; lia].
              ** exact H.
           ++ (* a strict prefix of the length: wait *)
              rewrite (rps_prefix _ _ _ Henc ltac:(discriminate)) in H. injection H as <- <- <-.
              cbn [dpost KInv]. split.
              { rewrite twire_cons by exact Hf. cbn [codec_of frame]. rewrite Henc, Htail, <- !app_assoc. reflexivity. }
              split.
              { unfold tdecode. rewrite (rps_prefix _ _ _ Henc ltac:(discriminate)). reflexivity. }
              intros ->. discriminate.
Qed.

(* decode until None: the frames are the next messages, in order; the loop ends in a state that
   waits for more bytes, which with nothing outstanding means that everything was delivered *)
Lemma drain_spec cd tail : forall fuel dl src rest rs dl' src',
  cd_ok cd -> CFits cd rest -> KInv cd dl src tail rest -> (length src < fuel)%nat ->
  drain fuel cd dl src = (rs, dl', src') ->
  exists fs rest', rest = fs ++ rest' /\ rs = map DFrame fs ++ [DNone] /\ KInv cd dl' src' tail rest' /\
                   CFits cd rest' /\ (tail = [] -> rest' = [] /\ src' = []).
Proof.
  induction fuel as [|fu IH]; intros dl src rest rs dl' src' Hok Hfit Hinv Hlen H; [lia|].
  cbn [drain] in H. destruct (tdecode cd dl src) as [[r dl1] src1] eqn:E.
  pose proof (tdecode_kinv _ _ _ _ _ _ _ _ Hok Hfit Hinv E) as Hp.
  destruct r as [|f| | |]; cbn [dpost] in Hp; try contradiction.
  - injection H as <- <- <-. destruct Hp as (Hk & _ & Hdone).
    exists [], rest. repeat split; auto; apply Hdone; assumption.
  - destruct Hp as (rest1 & -> & Hk & Hl).
    destruct (drain fu cd dl1 src1) as [[rs2 dl2] src2] eqn:E2. injection H as <- <- <-.
    destruct (cfits_head _ _ _ Hfit) as (_ & _ & Hfit1).
    destruct (IH _ _ _ _ _ _ Hok Hfit1 Hk ltac:(lia) E2) as (fs & rest' & -> & -> & Hk2 & Hf2 & Hd).
    exists (f :: fs), rest'. repeat split; auto; apply Hd; assumption.
Qed.

Lemma existsb_derr_frames fs : existsb is_derr (map DFrame fs ++ [DNone]) = false.
Proof. induction fs as [|f t IH]; [reflexivity|exact IH]. Qed.

Lemma dframes_app a b : dframes (a ++ b) = dframes a ++ dframes b.
Proof. unfold dframes. apply flat_map_app. Qed.

Lemma dframes_map fs : dframes (map DFrame fs ++ [DNone]) = fs.
Proof. induction fs as [|f t IH]; [reflexivity|]. cbn [map app]. unfold dframes in *. cbn [flat_map app]. rewrite IH. reflexivity. Qed.

Lemma feed_spec cd : forall chunks tail dl src rest rs dl' src',
  cd_ok cd -> CFits cd rest -> KInv cd dl src (concat chunks ++ tail) rest ->
  feed cd dl src chunks = (rs, dl', src') ->
  existsb is_derr rs = false /\
  exists rest', rest = dframes rs ++ rest' /\ KInv cd dl' src' tail rest' /\ CFits cd rest' /\
                (chunks <> [] -> tail = [] -> rest' = [] /\ src' = []).
Proof.
  induction chunks as [|ch t IH]; intros tail dl src rest rs dl' src' Hok Hfit Hinv H.
  - cbn [feed] in H. injection H as <- <- <-. split; [reflexivity|]. exists rest.
    cbn [concat app] in Hinv. repeat split; auto; congruence.
  - cbn [feed] in H. cbn [concat] in Hinv. rewrite <- app_assoc in Hinv. apply kinv_arrive in Hinv.
    destruct (drain (S (length (src ++ ch))) cd dl (src ++ ch)) as [[rs1 dl1] src1] eqn:E.
    destruct (drain_spec _ _ _ _ _ _ _ _ _ Hok Hfit Hinv (le_n _) E) as (fs & rest1 & -> & -> & Hk1 & Hf1 & Hd1).
    rewrite existsb_derr_frames in H.
    destruct (feed cd dl1 src1 t) as [[rs2 dl2] src2] eqn:E2. injection H as <- <- <-.
    destruct t as [|ch2 t2].
    + cbn [feed] in E2. injection E2 as <- <- <-. rewrite app_nil_r.
      split; [apply existsb_derr_frames|]. exists rest1. rewrite dframes_map.
      cbn [concat app] in Hk1, Hd1. split; [reflexivity|]. split; [exact Hk1|]. split; [exact Hf1|]. intros _ Ht. exact (Hd1 Ht).
    + destruct (IH tail _ _ _ _ _ _ Hok Hf1 Hk1 E2) as (He & rest' & -> & Hk2 & Hf2 & Hd2).
      split; [rewrite existsb_app, existsb_derr_frames, He; reflexivity|].
      exists rest'. rewrite dframes_app, dframes_map, <- app_assoc.
      split; [reflexivity|]. split; [exact Hk2|]. split; [exact Hf2|]. intros _ Ht. apply Hd2; [discriminate|exact Ht].
Qed.

(* ------------------------------------------------------------------ assembled statements *)

(* encode every message, cut the byte stream anywhere, run the Framed loop: exactly the messages
   come out, in order, without an error, and nothing is left over *)
Lemma codec_roundtrip cd msgs chunks tail rs dl' src' :
  cd_ok cd -> CFits cd msgs -> concat chunks ++ tail = twire cd msgs ->
  feed cd None [] chunks = (rs, dl', src') ->
  existsb is_derr rs = false /\
  exists rest, msgs = dframes rs ++ rest /\ (chunks <> [] -> tail = [] -> rest = [] /\ src' = []).
Proof.
  intros Hok Hfit Hw H.
  assert (Hinv : KInv cd None [] (concat chunks ++ tail) msgs).
  { destruct cd; cbn [KInv app]; exact Hw. }
  destruct (feed_spec _ _ _ _ _ _ _ _ _ Hok Hfit Hinv H) as (He & rest & Hr & _ & _ & Hd).
  split; [exact He|]. exists rest. auto.
Qed.

(* an announced length above the maximum is refused as soon as the prefix is complete: nothing is
   reserved or delivered, whatever follows *)
Lemma decode_rejects_oversized mx n x :
  mx < n -> n < USIZE_MOD -> tdecode (TUvi mx) None (varint_enc n ++ x) = (DDenied, None, x).
Proof.
  intros Hmx Hn. unfold tdecode. rewrite (rps_enc_ext _ x Hn).
  replace (mx <? n) with true by lia.
  rewrite dropN_app_le by lia. rewrite dropN_all by lia. reflexivity.
Qed.

(* a malformed length (not minimal, or ten continuation bytes) is an error and the state is unchanged *)
Lemma decode_rejects_malformed mx src :
  match read_payload_size src with
  | RpsDecodeErr | RpsOverflow => tdecode (TUvi mx) None src = (DOther, None, src)
  | _ => True
  end.
Proof. unfold tdecode. destruct (read_payload_size src); auto. Qed.

(* the decoder never buffers a frame larger than its maximum: a pending length is within it *)
Lemma decode_pending_bounded mx dl src r dl' src' k :
  (forall k0, dl = Some k0 -> k0 <= mx) ->
  tdecode (TUvi mx) dl src = (r, dl', src') -> dl' = Some k -> k <= mx.
Proof.
  intros Hdl H ->. unfold tdecode in H.
  destruct dl as [k0|].
  - specialize (Hdl k0 eq_refl).
    destruct (mx <? k0) eqn:E1; [discriminate|]. destruct (k0 <=? lenN src); [discriminate|].
    injection H as _ <- _. lia.
  - destruct (read_payload_size src) as [v kk| | |]; try discriminate.
    destruct (mx <? v) eqn:E1; [discriminate|]. destruct (v <=? lenN (dropN kk src)); [discriminate|].
    injection H as _ <- _. lia.
Qed.

(* decode_eof at a frame boundary is a clean end; inside a frame it is an error, never a frame *)
Lemma decode_eof_clean cd : tdecode_eof cd None [] = (DNone, None, []).
Proof. destruct cd as [n|mx]; reflexivity. Qed.

(* ------------------------------------------------------------------ the two framings are one *)

Lemma cfits_of_fits cd msgs : cd_ok cd -> Fits (codec_of cd) msgs -> CFits cd msgs.
Proof.
  intros Hok H. induction H as [|m t (H1 & H2) Ht IH]; constructor; auto.
  split; [rewrite tfits_fitsb by exact Hok; exact H1|exact H2].
Qed.

Lemma fits_of_cfits cd msgs : cd_ok cd -> CFits cd msgs -> Fits (codec_of cd) msgs.
Proof.
  intros Hok H. induction H as [|m t (H1 & H2) Ht IH]; constructor; auto.
  split; [rewrite <- tfits_fitsb by exact Hok; exact H1|exact H2].
Qed.

(* what a Substream writes (Sink or send_framed, any history, any carrier behaviour), read by the
   tokio-util decoder of the same configuration under any fragmentation *)
Lemma substream_to_codec bp cd script ops rs s' chunks rs' dl src :
  cd_ok cd -> Forall small_op ops ->
  run_ops bp (codec_of cd) (init_sys script) ops = (rs, s') -> Forall2 good ops rs ->
  concat chunks = sent s' ->
  feed cd None [] chunks = (rs', dl, src) ->
  existsb is_derr rs' = false /\
  exists rest, accepted (codec_of cd) ops = dframes rs' ++ rest /\
               (chunks <> [] -> qbytes (ws s') = [] -> rest = [] /\ src = []).
Proof.
  intros Hok Hsm Hrun Hg Hc Hfeed.
  destruct (mixed_stream _ _ _ _ _ _ Hrun Hg) as (_ & Hq).
  pose proof (cfits_of_fits _ _ Hok (accepted_fits (codec_of cd) ops Hsm)) as Hfit.
  rewrite <- (twire_wire_of _ _ Hfit), <- Hc in Hq.
  exact (codec_roundtrip _ _ _ _ _ _ _ Hok Hfit Hq Hfeed).
Qed.

(* what the tokio-util encoder produces, read by the Substream of the same configuration *)
Lemma codec_to_substream cd msgs wire tail script polls outs st' wire' script' :
  cd_ok cd -> CFits cd msgs -> wire ++ tail = twire cd msgs ->
  run_reader polls (codec_of cd) (init_r (codec_of cd)) wire script = (outs, st', wire', script') ->
  ~ In RPanic outs /\ ~ In RFail outs /\
  exists rest, msgs = frames_of outs ++ rest /\ (tail = [] -> wire' = [] -> rest = []).
Proof.
  intros Hok Hfit Hw Hrun. rewrite (twire_wire_of _ _ Hfit) in Hw.
  destruct (reader_roundtrip _ _ _ _ _ _ _ _ _ _ (fits_of_cfits _ _ Hok Hfit) Hw Hrun) as (H1 & H2 & rest & Hr & Hd).
  split; [exact H1|]. split; [exact H2|]. exists rest. split; [exact Hr|]. apply Hd.
  destruct cd as [n|mx]; cbn [codec_of cd_ok] in *; [|discriminate]. intros Heq. injection Heq as ->. lia.
Qed.
