(* C04 — proofs about the model in Model.v. *)
From Coq Require Import List NArith Bool Lia ZifyBool ZifyNat ZifyN.
From V.C04 Require Import Model.
Import ListNotations.
Open Scope N_scope.
Arguments N.add : simpl never.
Arguments N.sub : simpl never.
Arguments N.mul : simpl never.
Arguments N.div : simpl never.
Arguments N.modulo : simpl never.
Arguments N.eqb : simpl never.
Arguments N.ltb : simpl never.
Arguments N.leb : simpl never.
Arguments N.of_nat : simpl never.
Arguments N.to_nat : simpl never.
Arguments N.min : simpl never.
Arguments N.max : simpl never.

(* ------------------------------------------------------------------ lists *)
Section Lists.
Context {A : Type}.
Implicit Types l a b : list A.

Lemma lenN_nil : lenN (@nil A) = 0.
Proof. reflexivity. Qed.
Lemma lenN_cons x l : lenN (x :: l) = 1 + lenN l.
Proof. unfold lenN. cbn [length]. lia. Qed.
Lemma lenN_app a b : lenN (a ++ b) = lenN a + lenN b.
Proof. unfold lenN. rewrite app_length. lia. Qed.
Lemma lenN_zero l : lenN l = 0 -> l = [].
Proof. destruct l; [reflexivity|]. rewrite lenN_cons. lia. Qed.
Lemma is_nil_true l : is_nil l = true -> l = [].
Proof. destruct l; [reflexivity|discriminate]. Qed.
Lemma is_nil_false l : is_nil l = false -> l <> [].
Proof. destruct l; [discriminate|congruence]. Qed.
Lemma takeN_dropN k l : takeN k l ++ dropN k l = l.
Proof. apply firstn_skipn. Qed.
Lemma lenN_takeN k l : lenN (takeN k l) = N.min k (lenN l).
Proof. unfold lenN, takeN. rewrite firstn_length. lia. Qed.
Lemma lenN_dropN k l : lenN (dropN k l) = lenN l - k.
Proof. unfold lenN, dropN. rewrite skipn_length. lia. Qed.
Lemma takeN_app_le k a b : k <= lenN a -> takeN k (a ++ b) = takeN k a.
Proof.
  unfold lenN, takeN. intros H. rewrite firstn_app.
  replace (N.to_nat k - length a)%nat with O by lia. cbn [firstn]. apply app_nil_r.
Qed.
Lemma dropN_app_le k a b : k <= lenN a -> dropN k (a ++ b) = dropN k a ++ b.
Proof.
  unfold lenN, dropN. intros H. rewrite skipn_app.
  replace (N.to_nat k - length a)%nat with O by lia. reflexivity.
Qed.
Lemma takeN_all k l : lenN l <= k -> takeN k l = l.
Proof. unfold lenN, takeN. intros H. apply firstn_all2. lia. Qed.
Lemma dropN_all k l : lenN l <= k -> dropN k l = [].
Proof. unfold lenN, dropN. intros H. apply skipn_all2. lia. Qed.
Lemma takeN_0 l : takeN 0 l = [].
Proof. reflexivity. Qed.
Lemma dropN_0 l : dropN 0 l = l.
Proof. reflexivity. Qed.
End Lists.

Lemma concat_filter_nonnil {A} (l : list (list A)) :
  concat (filter (fun b => negb (is_nil b)) l) = concat l.
Proof.
  induction l as [|x l IH]; [reflexivity|]. cbn [filter concat].
  destruct x as [|y x]; cbn [is_nil negb]; [exact IH|]. cbn [concat]. now rewrite IH.
Qed.

(* ------------------------------------------------------------------ writer *)
Definition WInv (w : wstate) : Prop := pbytes w = lenN (qbytes w).

Lemma WInv_init : WInv init_w.
Proof. reflexivity. Qed.

Lemma take_frame_none w : take_frame w = None -> curf w = None /\ frames w = [] /\ qbytes w = [].
Proof.
  unfold take_frame, qbytes. destruct (curf w); [discriminate|].
  destruct (frames w); [auto|discriminate].
Qed.

Lemma take_frame_some w f w0 :
  take_frame w = Some (f, w0) ->
  qbytes w = f ++ concat (frames w0) /\ curf w0 = None /\ pbytes w0 = pbytes w.
Proof.
  unfold take_frame, qbytes. destruct (curf w) as [g|].
  - intros H. injection H as <- <-. cbn. auto.
  - destruct (frames w) as [|g t]; [discriminate|]. intros H. injection H as <- <-. cbn. auto.
Qed.

Lemma queue_nonempty_false w : queue_nonempty w = false -> qbytes w = [] /\ frames w = [] /\ curf w = None.
Proof.
  unfold queue_nonempty, qbytes. destruct (curf w); [discriminate|].
  destruct (frames w); [auto|discriminate].
Qed.

(* the state in which a frame that could not be written (completely) is kept *)
Lemma keep_state w f w0 :
  take_frame w = Some (f, w0) -> WInv w ->
  WInv (mkW (frames w0) (Some f) (pbytes w0)) /\ qbytes (mkW (frames w0) (Some f) (pbytes w0)) = qbytes w.
Proof.
  intros Ht Hinv. apply take_frame_some in Ht. destruct Ht as (Hq & Hc & Hp).
  unfold WInv, qbytes in *. cbn [curf frames pbytes]. rewrite Hp, Hinv, Hq. auto.
Qed.

(* poll_flush, whatever the carrier does (stalls, errors, zero-length accepts): bytes only move
   from the head of the queue to the carrier; Ready(Ok) only with nothing queued. *)
Lemma flush_spec : forall script w sent r w' sent' script',
  flush script w sent = (r, w', sent', script') ->
  WInv w ->
  (exists d, sent' = sent ++ d) /\
  WInv w' /\ sent' ++ qbytes w' = sent ++ qbytes w /\
  (r = WOk -> frames w' = [] /\ curf w' = None /\ pbytes w' = 0).
Proof.
  induction script as [|ev s IH]; intros w sent r w' sent' script' H Hinv.
  - cbn [flush] in H. destruct (take_frame w) as [[f w0]|] eqn:Ht.
    + injection H as <- <- <- <-. destruct (keep_state _ _ _ Ht Hinv) as (Hk1 & Hk2).
      split; [exists []; now rewrite app_nil_r|]. split; [exact Hk1|]. split; [now rewrite Hk2|discriminate].
    + injection H as <- <- <- <-. split; [exists []; now rewrite app_nil_r|]. repeat split; auto; discriminate.
  - cbn [flush] in H. destruct (take_frame w) as [[f w0]|] eqn:Ht.
    + destruct (keep_state _ _ _ Ht Hinv) as (Hk1 & Hk2).
      destruct ev as [|n|].
      * injection H as <- <- <- <-. split; [exists []; now rewrite app_nil_r|]. split; [exact Hk1|].
        split; [now rewrite Hk2|discriminate].
      * destruct ((N.min n (lenN f) =? 0) && negb (is_nil f)) eqn:Hz.
        { injection H as <- <- <- <-. split; [exists []; now rewrite app_nil_r|]. split; [exact Hk1|].
          split; [now rewrite Hk2|discriminate]. }
        apply take_frame_some in Ht. destruct Ht as (Hq & Hc & Hp).
        assert (Hf : (match (if is_nil (dropN (N.min n (lenN f)) f) then None else Some (dropN (N.min n (lenN f)) f)) with
                      | Some g => g | None => [] end) = dropN (N.min n (lenN f)) f).
        { destruct (dropN (N.min n (lenN f)) f) eqn:E; reflexivity. }
        apply IH in H.
        -- destruct H as ((d & Hd) & Hi & Hs & Hok). split.
           ++ exists (takeN (N.min n (lenN f)) f ++ d). now rewrite Hd, app_assoc.
           ++ split; [exact Hi|]. split; [|exact Hok].
              rewrite Hs, Hq. unfold qbytes at 1. cbn [curf frames].
              rewrite Hf, <- !app_assoc. f_equal. rewrite app_assoc, takeN_dropN. reflexivity.
        -- unfold WInv, qbytes in *. cbn [curf frames pbytes].
           rewrite Hf, Hp, Hinv, Hq, !lenN_app, lenN_dropN. lia.
      * injection H as <- <- <- <-. split; [exists []; now rewrite app_nil_r|]. split; [exact Hk1|].
        split; [now rewrite Hk2|discriminate].
    + apply take_frame_none in Ht. destruct Ht as (Hc & Hf & Hq).
      assert (Hz : pbytes w = 0) by (unfold WInv in Hinv; rewrite Hinv, Hq; reflexivity).
      destruct ev as [|n|]; injection H as <- <- <- <-;
        (split; [exists []; now rewrite app_nil_r|]); repeat split; auto; discriminate.
Qed.

Lemma start_send_spec c w m r w' :
  start_send c w m = (r, w') ->
  (fitsb c m = true -> r = WOk /\ qbytes w' = qbytes w ++ frame c m /\ (WInv w -> WInv w')) /\
  (fitsb c m = false -> r = WDenied /\ w' = w).
Proof.
  unfold start_send. destruct (fitsb c m) eqn:Hf; intros H.
  - split; [intros _|discriminate]. destruct c as [n|mx]; injection H as <- <-.
    + assert (Hq : qbytes (mkW (frames w ++ [m]) (curf w) (pbytes w + lenN m)) = qbytes w ++ frame (Identity n) m).
      { unfold qbytes, frame. cbn [curf frames]. rewrite concat_app. cbn [concat]. now rewrite app_nil_r, app_assoc. }
      split; [reflexivity|]. split; [exact Hq|]. unfold WInv. intros Hi. rewrite Hq. cbn [pbytes frame].
      rewrite lenN_app, Hi. reflexivity.
    + assert (Hq : qbytes (mkW (frames w ++ [varint_enc (lenN m); m]) (curf w)
                               (pbytes w + (lenN (varint_enc (lenN m)) + lenN m))) = qbytes w ++ frame (Varint mx) m).
      { unfold qbytes, frame. cbn [curf frames]. rewrite concat_app. cbn [concat]. now rewrite app_nil_r, !app_assoc. }
      split; [reflexivity|]. split; [exact Hq|]. unfold WInv. intros Hi. rewrite Hq. cbn [pbytes frame].
      rewrite !lenN_app, Hi. reflexivity.
  - injection H as <- <-. split; [discriminate|auto].
Qed.

Lemma poll_ready_spec bp script w sent r w' sent' script' :
  poll_ready bp script w sent = (r, w', sent', script') ->
  WInv w ->
  (exists d, sent' = sent ++ d) /\
  WInv w' /\ sent' ++ qbytes w' = sent ++ qbytes w /\
  (r = WOk -> 0 < bp -> pbytes w' < bp).
Proof.
  unfold poll_ready. destruct (bp <=? pbytes w) eqn:Hb; intros H Hinv.
  - apply flush_spec in H; [|exact Hinv]. destruct H as (Hd & Hi & Hk & Hok).
    split; [exact Hd|]. split; [exact Hi|]. split; [exact Hk|].
    intros Hr Hpos. destruct (Hok Hr) as (_ & _ & Hz). lia.
  - injection H as <- <- <- <-. split; [exists []; now rewrite app_nil_r|]. repeat split; auto. intros _ _. lia.
Qed.

Lemma flush_res : forall script w sent r w' sent' script',
  flush script w sent = (r, w', sent', script') -> r = WPend \/ r = WOk \/ r = WIo.
Proof.
  induction script as [|ev s IH]; intros w sent r w' sent' script' H; cbn [flush] in H.
  - destruct (take_frame w) as [[f w0]|]; injection H as <- <- <- <-; auto.
  - destruct (take_frame w) as [[f w0]|].
    + destruct ev as [|n|]; try (injection H as <- <- <- <-; auto).
      destruct ((N.min n (lenN f) =? 0) && negb (is_nil f)); [injection H as <- <- <- <-; auto|eapply IH; eauto].
    + destruct ev as [|n|]; injection H as <- <- <- <-; auto.
Qed.

Lemma flush_all_res : forall fuel script w sent np r np' w' sent' script',
  flush_all fuel script w sent np = (r, np', w', sent', script') -> r = WPend \/ r = WOk \/ r = WIo.
Proof.
  induction fuel as [|fu IH]; intros script w sent np r np' w' sent' script' H; cbn [flush_all] in H.
  - injection H as <- <- <- <- <-. auto.
  - destruct (flush script w sent) as [[[r1 w1] s1] sc1] eqn:E. apply flush_res in E.
    destruct r1; try (injection H as <- <- <- <- <-; exact E).
    destruct (is_nil sc1); [injection H as <- <- <- <- <-; auto|eapply IH; eauto].
Qed.

(* SinkExt::flush(..).await *)
Lemma flush_all_spec : forall fuel script w sent np r np' w' sent' script',
  flush_all fuel script w sent np = (r, np', w', sent', script') ->
  WInv w ->
  WInv w' /\ sent' ++ qbytes w' = sent ++ qbytes w /\
  (r = WOk -> frames w' = [] /\ curf w' = None /\ pbytes w' = 0).
Proof.
  induction fuel as [|fu IH]; intros script w sent np r np' w' sent' script' H Hinv.
  - cbn [flush_all] in H. injection H as <- <- <- <- <-. repeat split; auto; discriminate.
  - cbn [flush_all] in H. destruct (flush script w sent) as [[[r1 w1] s1] sc1] eqn:E.
    apply flush_spec in E; [|exact Hinv]. destruct E as (_ & Hi1 & Hq1 & Hok1).
    destruct r1.
    + destruct (is_nil sc1).
      * injection H as <- <- <- <- <-. repeat split; auto; discriminate.
      * apply IH in H; [|exact Hi1]. destruct H as (Hi & Hq & Hok). split; [exact Hi|]. split; [now rewrite Hq, Hq1|exact Hok].
    + injection H as <- <- <- <- <-. auto.
    + injection H as <- <- <- <- <-. repeat split; auto; discriminate.
    + injection H as <- <- <- <- <-. repeat split; auto; discriminate.
    + injection H as <- <- <- <- <-. repeat split; auto; discriminate.
Qed.

(* ---- send_framed ---- *)
Lemma sf_run_spec : forall ident script bufs sent np r np' sent' script',
  sf_run ident script bufs sent np = (r, np', sent', script') ->
  r <> WDenied /\ exists d e, sent' = sent ++ d /\ concat bufs = d ++ e /\ (r = WOk -> e = []).
Proof.
  induction script as [|ev s IH]; intros bufs sent np r np' sent' script' H.
  - cbn [sf_run] in H. injection H as <- <- <- <-. split; [discriminate|]. exists [], (concat bufs).
    rewrite app_nil_r. repeat split. discriminate.
  - cbn [sf_run] in H. destruct bufs as [|b bufs'].
    + destruct ev as [|n|].
      * destruct (is_nil s).
        -- injection H as <- <- <- <-. split; [discriminate|]. exists [], []. rewrite app_nil_r. repeat split.
        -- apply IH in H. exact H.
      * injection H as <- <- <- <-. split; [discriminate|]. exists [], []. rewrite app_nil_r. repeat split.
      * injection H as <- <- <- <-. split; [discriminate|]. exists [], []. rewrite app_nil_r. repeat split.
    + destruct ev as [|n|].
      * destruct (is_nil s).
        -- injection H as <- <- <- <-. split; [discriminate|]. exists [], (concat (b :: bufs')). rewrite app_nil_r. repeat split. discriminate.
        -- apply IH in H. exact H.
      * destruct (N.min n (lenN b) =? 0) eqn:Hk.
        -- injection H as <- <- <- <-. split; [destruct ident; discriminate|].
           exists [], (concat (b :: bufs')). rewrite app_nil_r. repeat split.
           destruct ident; discriminate.
        -- apply IH in H. destruct H as (Hnd & d & e & Hs & Hc & Hok). split; [exact Hnd|].
           exists (takeN (N.min n (lenN b)) b ++ d), e. split; [now rewrite Hs, app_assoc|]. split; [|exact Hok].
           cbn [concat]. rewrite <- (takeN_dropN (N.min n (lenN b)) b) at 1. rewrite <- !app_assoc. f_equal.
           rewrite <- Hc. destruct (dropN (N.min n (lenN b)) b) eqn:E; cbn [is_nil concat]; reflexivity.
      * injection H as <- <- <- <-. split; [destruct ident; discriminate|].
        exists [], (concat (b :: bufs')). rewrite app_nil_r. repeat split.
        destruct ident; discriminate.
Qed.

(* send_framed from any sink state: queued frames go out first, then a prefix of the frame (all
   of it iff Ok); a message that does not fit contributes no byte. *)
Lemma send_framed_spec c script w m sent r np w' sent' script' :
  send_framed c script w m sent = (r, np, w', sent', script') ->
  WInv w ->
  WInv w' /\
  (exists d e, sent' ++ qbytes w' = sent ++ qbytes w ++ d /\ frame c m = d ++ e /\
               (r = WOk -> e = [] /\ qbytes w' = []) /\ (fitsb c m = false -> d = [])) /\
  (r = WOk -> fitsb c m = true) /\ (r = WDenied -> fitsb c m = false).
Proof.
  unfold send_framed. intros H Hinv.
  set (pre := if queue_nonempty w then flush_all (S (length script)) script w sent 0 else (WOk, 0, w, sent, script)) in *.
  destruct pre as [[[[r0 np0] w1] s1] sc1] eqn:Epre.
  assert (Hpre : WInv w1 /\ s1 ++ qbytes w1 = sent ++ qbytes w /\ (r0 = WOk -> qbytes w1 = [])).
  { unfold pre in Epre. destruct (queue_nonempty w) eqn:Hq.
    - apply flush_all_spec in Epre; [|exact Hinv]. destruct Epre as (Hi & Hs & Hok).
      repeat split; auto. intros Hr. destruct (Hok Hr) as (Hf1 & Hf2 & _). unfold qbytes. now rewrite Hf1, Hf2.
    - injection Epre as <- <- <- <- <-. apply queue_nonempty_false in Hq. repeat split; auto. tauto. }
  destruct Hpre as (Hi1 & Hs1 & Hq1).
  assert (Hr0 : r0 = WPend \/ r0 = WOk \/ r0 = WIo).
  { unfold pre in Epre. destruct (queue_nonempty w); [eapply flush_all_res; eauto|injection Epre as <- _ _ _ _; auto]. }
  assert (Hnofit : forall (x : wres), x <> WOk -> x <> WDenied ->
     WInv w1 /\ (exists d e, s1 ++ qbytes w1 = sent ++ qbytes w ++ d /\ frame c m = d ++ e /\
                  (x = WOk -> e = [] /\ qbytes w1 = []) /\ (fitsb c m = false -> d = [])) /\
     (x = WOk -> fitsb c m = true) /\ (x = WDenied -> fitsb c m = false)).
  { intros x Hx1 Hx2. split; [exact Hi1|]. split; [|split; congruence].
    exists [], (frame c m). rewrite app_nil_r. repeat split; auto; congruence. }
  destruct r0; try (injection H as <- <- <- <- <-; apply Hnofit; discriminate); try (exfalso; destruct Hr0 as [Hr0|[Hr0|Hr0]]; discriminate).
  specialize (Hq1 eq_refl). rewrite Hq1, app_nil_r in Hs1.
  destruct (fitsb c m) eqn:Hfit.
  - assert (Hrun : forall ident bufs, concat bufs = frame c m ->
              sf_run ident sc1 bufs s1 np0 = (r, np, sent', script') -> w' = w1 ->
              WInv w' /\ (exists d e, sent' ++ qbytes w' = sent ++ qbytes w ++ d /\ frame c m = d ++ e /\
                          (r = WOk -> e = [] /\ qbytes w' = []) /\ (true = false -> d = [])) /\
              (r = WOk -> true = true) /\ (r = WDenied -> true = false)).
    { intros ident bufs Hb Hr ->. apply sf_run_spec in Hr. destruct Hr as (Hnd & d & e & Hs & Hc & Hok).
      split; [exact Hi1|]. split; [|split; [auto|congruence]].
      exists d, e. rewrite Hq1, app_nil_r, Hs, Hs1, <- Hb, <- app_assoc. repeat split; auto. discriminate. }
    destruct c as [n|mx].
    + destruct (sf_run true sc1 (filter (fun b => negb (is_nil b)) [m]) s1 np0) as [[[r2 np2] s2] sc2] eqn:E.
      injection H as <- <- <- <- <-. eapply Hrun; eauto.
      rewrite concat_filter_nonnil. cbn [concat frame]. now rewrite app_nil_r.
    + destruct (sf_run false sc1 (filter (fun b => negb (is_nil b)) [varint_enc (lenN m); m]) s1 np0) as [[[r2 np2] s2] sc2] eqn:E.
      injection H as <- <- <- <- <-. eapply Hrun; eauto.
      rewrite concat_filter_nonnil. cbn [concat frame]. now rewrite app_nil_r.
  - injection H as <- <- <- <- <-. split; [exact Hi1|]. split; [|split; [discriminate|auto]].
    exists [], (frame c m). rewrite Hq1, !app_nil_r. repeat split; auto; discriminate.
Qed.

(* ---- close ---- *)
(* one poll_close call: nothing is written, the queue is untouched; the carrier completed a
   shutdown exactly when Ok is reported *)
Lemma poll_close_spec script w sent r w' sent' script' sh :
  poll_close script w sent = (r, w', sent', script', sh) ->
  w' = w /\ sent' = sent /\ (r = WOk <-> sh = true).
Proof.
  unfold poll_close, shutdown1. intros H.
  destruct script as [|[|n|] t]; injection H as <- <- <- <- <-; repeat split; congruence.
Qed.

Definition clean_ev (e : wev) : Prop := match e with WErr => False | WChunk n => n <> 0 | WPending => True end.

Lemma flush_clean : forall script w sent r w' sent' script',
  flush script w sent = (r, w', sent', script') -> Forall clean_ev script ->
  r <> WIo /\ Forall clean_ev script'.
Proof.
  induction script as [|ev s IH]; intros w sent r w' sent' script' H Hc.
  - cbn [flush] in H. destruct (take_frame w) as [[f w0]|]; injection H as <- <- <- <-; split; auto; discriminate.
  - inversion Hc as [|x y Hx Hy]; subst. cbn [flush] in H.
    destruct (take_frame w) as [[f w0]|].
    + destruct ev as [|n|]; cbn [clean_ev] in Hx.
      * injection H as <- <- <- <-. split; [discriminate|auto].
      * replace ((N.min n (lenN f) =? 0) && negb (is_nil f)) with false in H.
        -- eapply IH; eauto.
        -- destruct f; cbn [is_nil negb]; [now rewrite andb_false_r|]. rewrite lenN_cons. symmetry.
           apply andb_false_intro1. lia.
      * contradiction.
    + destruct ev as [|n|]; cbn [clean_ev] in Hx; try contradiction; injection H as <- <- <- <-; split; auto; discriminate.
Qed.

Lemma flush_all_clean : forall fuel script w sent np r np' w' sent' script',
  flush_all fuel script w sent np = (r, np', w', sent', script') -> Forall clean_ev script ->
  r <> WIo /\ Forall clean_ev script'.
Proof.
  induction fuel as [|fu IH]; intros script w sent np r np' w' sent' script' H Hc.
  - cbn [flush_all] in H. injection H as <- <- <- <- <-. split; [discriminate|auto].
  - cbn [flush_all] in H. destruct (flush script w sent) as [[[r1 w1] s1] sc1] eqn:E.
    apply flush_clean in E; [|exact Hc]. destruct E as (Hn & Hc1).
    destruct r1; try (injection H as <- <- <- <- <-; split; [congruence|auto]).
    destruct (is_nil sc1); [injection H as <- <- <- <- <-; split; [discriminate|auto]|eapply IH; eauto].
Qed.
Lemma shutdown_all_clean : forall script np r np' sh script',
  shutdown_all script np = (r, np', sh, script') -> Forall clean_ev script -> r = WOk -> sh = true.
Proof.
  induction script as [|ev s IH]; intros np r np' sh script' H Hc Hr; cbn [shutdown_all] in H.
  - injection H as <- _ _ _. discriminate.
  - inversion Hc as [|x y Hx Hy]; subst x y. destruct ev as [|n|]; cbn [clean_ev] in Hx; try contradiction.
    + destruct (is_nil s); [injection H as H _ _ _; congruence|eapply IH; eauto].
    + injection H as _ _ <- _. reflexivity.
Qed.

(* Substream::close(self): nothing is written; over a carrier that does not fail a completed
   close has shut the carrier down *)
Lemma close_all_spec script w sent r np w' sent' script' sh :
  close_all script w sent = (r, np, w', sent', script', sh) ->
  w' = w /\ sent' = sent /\ (r = WOk -> Forall clean_ev script -> sh = true).
Proof.
  unfold close_all. intros H. destruct (shutdown_all script 0) as [[[r2 np2] sh2] sc2] eqn:E.
  injection H as <- <- <- <- <- <-. repeat split. intros Hr Hc. eapply shutdown_all_clean; eauto.
Qed.

(* ---- operation histories ---- *)
Lemma wire_of_app c a b : wire_of c (a ++ b) = wire_of c a ++ wire_of c b.
Proof. unfold wire_of. now rewrite map_app, concat_app. Qed.
Lemma wire_of_cons c m t : wire_of c (m :: t) = frame c m ++ wire_of c t.
Proof. reflexivity. Qed.
Lemma accepted_cons c o t : accepted c (o :: t) = accepted c [o] ++ accepted c t.
Proof. unfold accepted. cbn [flat_map]. now rewrite app_nil_r. Qed.

(* a send_framed call is `good` when it ran to completion: Ok or PermissionDenied. (A call that
   failed or was abandoned may leave part of its frame on the wire; the caller has been told.) *)
Definition good (o : op) (r : wres * N) : Prop :=
  match o with OFramed _ => fst r = WOk \/ fst r = WDenied | _ => True end.

Lemma step_inv bp c s o r s' :
  step bp c s o = (r, s') -> WInv (ws s) -> good o r ->
  WInv (ws s') /\ sent s' ++ qbytes (ws s') = sent s ++ qbytes (ws s) ++ wire_of c (accepted c [o]).
Proof.
  assert (Hnil : forall (l : list N), l ++ wire_of c [] = l) by (intros; unfold wire_of; cbn; apply app_nil_r).
  destruct o as [|m| |m| |]; cbn [step good]; intros H Hi Hg.
  - destruct (poll_ready bp (wscript s) (ws s) (sent s)) as [[[r0 w] sn] sc] eqn:E.
    injection H as <- <-. apply poll_ready_spec in E; [|exact Hi].
    destruct E as (_ & Hi' & Hq & _). cbn [ws sent]. split; [exact Hi'|]. rewrite Hq. cbn [accepted flat_map].
    now rewrite Hnil.
  - destruct (start_send c (ws s) m) as [r0 w] eqn:E. injection H as <- <-. cbn [ws sent].
    apply start_send_spec in E. destruct E as (Ht & Hf). unfold accepted. cbn [flat_map].
    destruct (fitsb c m) eqn:Hfit.
    + destruct (Ht eq_refl) as (_ & Hq & Hw). split; [auto|]. rewrite Hq. unfold wire_of. cbn [map concat app].
      now rewrite !app_nil_r.
    + destruct (Hf eq_refl) as (_ & ->). split; [exact Hi|]. now rewrite Hnil.
  - destruct (flush (wscript s) (ws s) (sent s)) as [[[r0 w] sn] sc] eqn:E.
    injection H as <- <-. apply flush_spec in E; [|exact Hi].
    destruct E as (_ & Hi' & Hq & _). cbn [ws sent]. split; [exact Hi'|]. rewrite Hq. cbn [accepted flat_map].
    now rewrite Hnil.
  - destruct (send_framed c (wscript s) (ws s) m (sent s)) as [[[[r0 np] w] sn] sc] eqn:E.
    injection H as <- <-. cbn [fst] in Hg. apply send_framed_spec in E; [|exact Hi].
    destruct E as (Hi' & (d & e & Hq & Hfr & Hok & Hno) & Hr1 & Hr2). cbn [ws sent]. split; [exact Hi'|].
    rewrite Hq. unfold accepted. cbn [flat_map]. destruct Hg as [Hg|Hg].
    + rewrite (Hr1 Hg). destruct (Hok Hg) as (-> & _). rewrite app_nil_r in Hfr. unfold wire_of. cbn [map concat app].
      now rewrite !app_nil_r, Hfr.
    + rewrite (Hr2 Hg). rewrite (Hno (Hr2 Hg)). unfold wire_of. cbn [app map concat]. reflexivity.
  - destruct (poll_close (wscript s) (ws s) (sent s)) as [[[[r0 w] sn] sc] sh] eqn:E.
    injection H as <- <-. apply poll_close_spec in E. destruct E as (-> & -> & _). cbn [ws sent].
    split; [exact Hi|]. cbn [accepted flat_map]. now rewrite Hnil.
  - destruct (close_all (wscript s) (ws s) (sent s)) as [[[[[r0 np] w] sn] sc] sh] eqn:E.
    injection H as <- <-. apply close_all_spec in E. destruct E as (-> & -> & _). cbn [ws sent].
    split; [exact Hi|]. cbn [accepted flat_map]. now rewrite Hnil.
Qed.

Lemma run_ops_inv bp c : forall ops s rs s',
  run_ops bp c s ops = (rs, s') -> WInv (ws s) -> Forall2 good ops rs ->
  WInv (ws s') /\ sent s' ++ qbytes (ws s') = sent s ++ qbytes (ws s) ++ wire_of c (accepted c ops).
Proof.
  induction ops as [|o t IH]; intros s rs s' H Hi Hg.
  - injection H as <- <-. split; [exact Hi|]. unfold accepted, wire_of. cbn. now rewrite app_nil_r.
  - cbn [run_ops] in H. destruct (step bp c s o) as [r s1] eqn:E1.
    destruct (run_ops bp c s1 t) as [rs1 s2] eqn:E2. injection H as <- <-.
    inversion Hg as [|x y l l' Hx Hy]; subst.
    destruct (step_inv _ _ _ _ _ _ E1 Hi Hx) as (Hi1 & Hq1).
    destruct (IH _ _ _ E2 Hi1 Hy) as (Hi2 & Hq2). split; [exact Hi2|].
    rewrite Hq2, accepted_cons, wire_of_app, app_assoc, Hq1, <- !app_assoc. reflexivity.
Qed.

Lemma run_ops_app bp c : forall a b s,
  run_ops bp c s (a ++ b) =
  let '(ra, s1) := run_ops bp c s a in let '(rb, s2) := run_ops bp c s1 b in (ra ++ rb, s2).
Proof.
  induction a as [|o a IH]; intros b s.
  - cbn [app run_ops]. destruct (run_ops bp c s b). reflexivity.
  - cbn [app run_ops]. destruct (step bp c s o) as [r s1]. rewrite IH.
    destruct (run_ops bp c s1 a) as [ra s2]. destruct (run_ops bp c s2 b) as [rb s3]. reflexivity.
Qed.

Lemma run_ops_length bp c : forall ops s rs s', run_ops bp c s ops = (rs, s') -> length rs = length ops.
Proof.
  induction ops as [|o t IH]; intros s rs s' H.
  - injection H as <- <-. reflexivity.
  - cbn [run_ops] in H. destruct (step bp c s o) as [x s2]. destruct (run_ops bp c s2 t) as [rs2 s3] eqn:E.
    injection H as <- <-. cbn [length]. f_equal. eapply IH. exact E.
Qed.

(* ------------------------------------------------------------------ varint *)
Fixpoint pow128 (f : nat) : N := match f with O => 128 | S f' => 128 * pow128 f' end.

Lemma enc_fuel_nonnil f n : enc_fuel f n <> [].
Proof. destruct f; cbn [enc_fuel]; [discriminate|]. destruct (n <? 128); discriminate. Qed.

Lemma enc_fuel_len : forall f n, (length (enc_fuel f n) <= S f)%nat.
Proof.
  induction f as [|f IH]; intros n; cbn [enc_fuel]; [cbn; lia|].
  destruct (n <? 128); cbn [length]; [lia|]. specialize (IH (n / 128)). lia.
Qed.

Lemma scan_enc : forall f g n first,
  (f < g)%nat -> n < pow128 f -> (first = false -> n <> 0) ->
  scan g first (enc_fuel f n) = RpsOk n (lenN (enc_fuel f n)).
Proof.
  induction f as [|f IH]; intros g n first Hg Hn Hz; (destruct g as [|g]; [lia|]).
  - cbn [pow128] in Hn. cbn [enc_fuel]. rewrite N.mod_small by lia. cbn [scan].
    replace (n <? 128) with true by lia.
    destruct first; cbn [negb]; [rewrite andb_false_r; reflexivity|].
    replace (n =? 0) with false by (specialize (Hz eq_refl); lia). reflexivity.
  - cbn [enc_fuel]. destruct (n <? 128) eqn:Hs.
    + cbn [scan]. rewrite Hs. destruct first; cbn [negb]; [rewrite andb_false_r; reflexivity|].
      replace (n =? 0) with false by (specialize (Hz eq_refl); lia). reflexivity.
    + cbn [scan]. cbn [pow128] in Hn.
      assert (Hd : n / 128 < pow128 f) by (apply N.div_lt_upper_bound; lia).
      assert (Hq : n / 128 <> 0).
      { intros E. apply N.div_small_iff in E; lia. }
      assert (Hm := N.mod_lt n 128 ltac:(lia)).
      replace (128 + n mod 128 <? 128) with false by lia.
      rewrite (IH g (n / 128) false) by (try lia; auto).
      f_equal.
      * replace (128 + n mod 128) with (n mod 128 + 1 * 128) by lia.
        rewrite N.mod_add by lia. rewrite N.mod_mod by lia.
        rewrite (N.div_mod' n 128) at 3. lia.
      * rewrite lenN_cons. lia.
Qed.

Lemma scan_strict_prefix : forall f g n first p q,
  enc_fuel f n = p ++ q -> q <> [] -> (length p < g)%nat -> scan g first p = RpsNotEnough.
Proof.
  assert (Hsingle : forall (x : N) p q g first, [x] = p ++ q -> q <> [] -> (length p < g)%nat ->
                                           scan g first p = RpsNotEnough).
  { intros x p q g first He Hq Hg. destruct p as [|y p].
    - destruct g; [cbn in Hg; lia|reflexivity].
    - cbn [app] in He. injection He as _ He. symmetry in He. apply app_eq_nil in He. tauto. }
  induction f as [|f IH]; intros g n first p q He Hq Hg.
  - cbn [enc_fuel] in He. eapply Hsingle; eauto.
  - cbn [enc_fuel] in He. destruct (n <? 128).
    + eapply Hsingle; eauto.
    + destruct p as [|y p].
      * destruct g; [cbn in Hg; lia|reflexivity].
      * cbn [app] in He. injection He as <- He. destruct g as [|g]; [cbn in Hg; lia|].
        cbn [scan]. assert (Hm := N.mod_lt n 128 ltac:(lia)).
        replace (128 + n mod 128 <? 128) with false by lia.
        rewrite (IH g (n / 128) false p q He Hq) by (cbn [length] in Hg; lia). reflexivity.
Qed.

Lemma USIZE_lt_pow : USIZE_MOD < pow128 9.
Proof. vm_compute. reflexivity. Qed.

Lemma rps_enc n : n < USIZE_MOD -> read_payload_size (varint_enc n) = RpsOk n (lenN (varint_enc n)).
Proof.
  intros Hn. unfold read_payload_size, varint_enc.
  assert (Hp : n < pow128 9) by (pose proof USIZE_lt_pow; lia).
  rewrite (scan_enc 9 10 n true ltac:(lia) Hp ltac:(discriminate)).
  rewrite N.mod_small by exact Hn. reflexivity.
Qed.

Lemma rps_prefix n p q : varint_enc n = p ++ q -> q <> [] -> read_payload_size p = RpsNotEnough.
Proof.
  intros He Hq. unfold read_payload_size. unfold varint_enc in He.
  rewrite (scan_strict_prefix 9 10 n true p q He Hq); [reflexivity|].
  pose proof (enc_fuel_len 9 n) as Hl. rewrite He, app_length in Hl.
  destruct q; [congruence|]. cbn [length] in Hl. lia.
Qed.

Lemma scan_snoc_ok : forall l g first b v k,
  Forall (fun x => 128 <= x) l -> scan g first (l ++ [b]) = RpsOk v k -> k = lenN (l ++ [b]).
Proof.
  induction l as [|a l IH]; intros g first b v k Hl H; (destruct g as [|g]; [discriminate|]).
  - cbn [app scan] in H. destruct (b <? 128).
    + destruct ((b =? 0) && negb first); [discriminate|]. injection H as _ <-. reflexivity.
    + destruct g; discriminate.
  - inversion Hl as [|x y Hx Hy]; subst. cbn [app scan] in H.
    replace (a <? 128) with false in H by lia.
    destruct (scan g false (l ++ [b])) as [v' k'| | |] eqn:E; try discriminate.
    injection H as _ <-. apply IH in E; [|exact Hy]. rewrite E. cbn [app]. rewrite (lenN_cons a). lia.
Qed.

Lemma scan_snoc_ne : forall l g first b,
  scan g first (l ++ [b]) = RpsNotEnough -> 128 <= b /\ (S (length l) < g)%nat.
Proof.
  induction l as [|a l IH]; intros g first b H; (destruct g as [|g]; [discriminate|]).
  - cbn [app scan] in H. destruct (b <? 128) eqn:Hb.
    + destruct ((b =? 0) && negb first); discriminate.
    + destruct g; [discriminate|]. cbn [length]. split; lia.
  - cbn [app scan] in H. destruct (a <? 128).
    + destruct ((a =? 0) && negb first); discriminate.
    + destruct (scan g false (l ++ [b])) eqn:E; try discriminate.
      apply IH in E. cbn [length]. destruct E. split; lia.
Qed.

(* ------------------------------------------------------------------ reader: totality *)
Definition Safe (c : codec) (st : rstate) : Prop :=
  match c with
  | Identity n => cur st = None /\ n <= buf_len st /\ (lenN (filled st) < n \/ filled st = [])
  | Varint _ =>
      match cur st with
      | Some fs => buf_len st = fs /\ lenN (filled st) < fs
      | None => (length (filled st) <= 9)%nat /\ Forall (fun b => 128 <= b) (filled st)
      end
  end.

(* the read buffer never exceeds max(configured size, 1024) *)
Definition Alloc (c : codec) (st : rstate) : Prop :=
  match c with
  | Identity n => buf_len st <= N.max n 1024
  | Varint (Some mx) => buf_len st <= N.max mx 1024
  | Varint None => True
  end.

Lemma safe_init c : Safe c (init_r c) /\ Alloc c (init_r c).
Proof.
  destruct c as [n|[mx|]]; cbn; repeat split; try lia; auto.
Qed.

Lemma safe_want c st : Safe c st -> exists cap, want c st = Some cap.
Proof.
  unfold Safe, want. destruct c as [n|mx].
  - intros (Hc & Hb & Hf).
    assert (lenN (filled st) <= n) by (destruct Hf as [Hf|Hf]; [lia|rewrite Hf, lenN_nil; lia]).
    replace ((lenN (filled st) <=? n) && (n <=? buf_len st)) with true by lia. eauto.
  - destruct (cur st) as [fs|].
    + intros (Hb & Hf). replace (lenN (filled st) <=? buf_len st) with true by lia. eauto.
    + intros (Hl & _). replace (lenN (filled st) + 1 <=? 10) with true by (unfold lenN; lia). eauto.
Qed.

Lemma chunk_one (chunk : list N) : chunk <> [] -> lenN chunk <= 1 -> exists b, chunk = [b].
Proof.
  destruct chunk as [|b [|b' t]]; intros Hn Hl; [congruence|eauto|].
  rewrite !lenN_cons in Hl. lia.
Qed.

Lemma on_data_safe c st chunk cap st' o :
  Safe c st -> Alloc c st -> want c st = Some cap -> lenN chunk <= cap ->
  on_data c st chunk = (st', o) ->
  o <> Some RPanic /\ Safe c st' /\ Alloc c st'.
Proof.
  intros Hs Ha Hw Hl H. unfold on_data in H. destruct (is_nil chunk) eqn:Hnil.
  { injection H as <- <-. repeat split; auto. discriminate. }
  apply is_nil_false in Hnil.
  assert (Hpos : 0 < lenN chunk).
  { destruct chunk; [congruence|]. rewrite lenN_cons. lia. }
  destruct c as [n|mx].
  - unfold Safe in Hs. destruct Hs as (Hc & Hb & Hf). unfold want in Hw.
    assert (Hoff : lenN (filled st) <= n) by (destruct Hf as [Hf|Hf]; [lia|rewrite Hf, lenN_nil; lia]).
    replace ((lenN (filled st) <=? n) && (n <=? buf_len st)) with true in Hw by lia.
    injection Hw as <-. destruct (lenN (filled st ++ chunk) =? n) eqn:E; injection H as <- <-.
    + split; [discriminate|]. cbn. repeat split; auto; lia.
    + split; [discriminate|]. rewrite lenN_app in E. cbn [Safe Alloc buf_len filled cur].
      repeat split; auto. left. rewrite lenN_app. lia.
  - unfold Safe in Hs. unfold want in Hw. destruct (cur st) as [fs|] eqn:Hcur.
    + destruct Hs as (Hb & Hf).
      replace (lenN (filled st) <=? buf_len st) with true in Hw by lia. injection Hw as <-.
      destruct (lenN (filled st ++ chunk) =? fs) eqn:E; injection H as <- <-.
      * split; [discriminate|]. cbn. repeat split; auto; try lia. destruct mx; [lia|exact I].
      * split; [discriminate|]. rewrite lenN_app in E. cbn [Safe Alloc buf_len filled cur].
        repeat split; auto. rewrite lenN_app. lia.
    + destruct Hs as (Hlen & Hall).
      replace (lenN (filled st) + 1 <=? 10) with true in Hw by (unfold lenN; lia). injection Hw as <-.
      destruct (chunk_one chunk Hnil Hl) as (b & ->).
      unfold read_payload_size in H.
      destruct (scan 10 true (filled st ++ [b])) as [v k| | |] eqn:E.
      * apply scan_snoc_ok in E; [|exact Hall]. subst k. rewrite N.eqb_refl in H. cbn [negb] in H.
        destruct (match mx with Some mx0 => mx0 <? v mod USIZE_MOD | None => false end) eqn:Hmx.
        { injection H as <- <-. split; [discriminate|]. cbn [Safe Alloc buf_len filled cur]. cbn [length].
          repeat split; auto; try lia. }
        destruct (v mod USIZE_MOD =? 0) eqn:Hz; injection H as <- <-.
        { split; [discriminate|]. cbn [Safe Alloc buf_len filled cur]. cbn [length]. repeat split; auto; lia. }
        split; [discriminate|]. cbn [Safe Alloc buf_len filled cur]. rewrite lenN_nil.
        split; [split; [reflexivity|lia]|]. destruct mx as [mx0|]; [lia|exact I].
      * apply scan_snoc_ne in E. destruct E as (Hb & Hlt). injection H as <- <-.
        split; [discriminate|]. cbn [Safe Alloc buf_len filled cur]. rewrite app_length. cbn [length].
        repeat split; auto; try lia. apply Forall_app. split; [exact Hall|]. constructor; [exact Hb|constructor].
      * injection H as <- <-. split; [discriminate|]. cbn [Safe Alloc buf_len filled cur]. cbn [length].
        repeat split; auto; lia.
      * injection H as <- <-. split; [discriminate|]. cbn [Safe Alloc buf_len filled cur]. cbn [length].
        repeat split; auto; lia.
Qed.

Lemma poll_next_safe c : forall script st wire o st' wire' script',
  Safe c st -> Alloc c st ->
  poll_next c st wire script = (o, st', wire', script') ->
  o <> RPanic /\ Safe c st' /\ Alloc c st'.
Proof.
  induction script as [|ev s IH]; intros st wire o st' wire' script' Hs Ha H;
    destruct (safe_want c st Hs) as (cap & Hw); cbn [poll_next] in H; rewrite Hw in H.
  - injection H as <- <- <- <-. repeat split; auto. discriminate.
  - destruct ev as [|n| |].
    + injection H as <- <- <- <-. repeat split; auto. discriminate.
    + destruct (on_data c st (takeN (N.min n (N.min cap (lenN wire))) wire)) as [st1 o1] eqn:E.
      assert (Hl : lenN (takeN (N.min n (N.min cap (lenN wire))) wire) <= cap) by (rewrite lenN_takeN; lia).
      destruct (on_data_safe _ _ _ _ _ _ Hs Ha Hw Hl E) as (Hp & Hs1 & Ha1).
      destruct o1 as [r|].
      * injection H as <- <- <- <-. repeat split; auto. congruence.
      * eapply IH; eauto.
    + injection H as <- <- <- <-. repeat split; auto. discriminate.
    + injection H as <- <- <- <-. repeat split; auto. destruct c; discriminate.
Qed.

Lemma run_reader_safe c : forall polls st wire script outs st' wire' script',
  Safe c st -> Alloc c st ->
  run_reader polls c st wire script = (outs, st', wire', script') ->
  ~ In RPanic outs /\ Safe c st' /\ Alloc c st'.
Proof.
  induction polls as [|p IH]; intros st wire script outs st' wire' script' Hs Ha H.
  - injection H as <- <- <- <-. auto.
  - cbn [run_reader] in H. destruct (poll_next c st wire script) as [[[o st1] w1] s1] eqn:E.
    destruct (poll_next_safe _ _ _ _ _ _ _ _ Hs Ha E) as (Hp & Hs1 & Ha1).
    destruct (run_reader p c st1 w1 s1) as [[[os st2] w2] s2] eqn:E2.
    destruct (IH _ _ _ _ _ _ _ Hs1 Ha1 E2) as (Hn & Hs2 & Ha2).
    destruct o; try congruence; injection H as <- <- <- <-; (split; [|auto]);
      cbn [In]; intros [Hc|Hc]; try discriminate; auto.
Qed.

(* ------------------------------------------------------------------ reader: round trip *)
Lemma lenN_inj {A} (a b : list A) : lenN a = lenN b -> length a = length b.
Proof. unfold lenN. lia. Qed.

Lemma app_eq_len {A} : forall (a b c d : list A),
  a ++ b = c ++ d -> length a = length c -> a = c /\ b = d.
Proof.
  induction a as [|x a IH]; intros b c d H Hl; destruct c as [|y c]; try discriminate.
  - auto.
  - cbn [app] in H. injection H as <- H. cbn [length] in Hl. destruct (IH b c d H ltac:(lia)) as (-> & ->). auto.
Qed.

Lemma app_prefix {A} : forall (a b c d : list A),
  a ++ b = c ++ d -> (length a <= length c)%nat -> exists x, c = a ++ x /\ b = x ++ d.
Proof.
  induction a as [|y a IH]; intros b c d H Hl.
  - exists c. auto.
  - destruct c as [|z c]; [cbn in Hl; lia|]. cbn [app] in H. injection H as <- H.
    cbn [length] in Hl. destruct (IH b c d H ltac:(lia)) as (x & -> & ->). exists x. auto.
Qed.

Definition Fits (c : codec) (msgs : list (list N)) : Prop :=
  Forall (fun m => fitsb c m = true /\ lenN m < USIZE_MOD) msgs.

(* st has consumed everything before `wire`; `rest` are the messages not yet returned;
   tail = the part of their encoding that is not (yet) on the wire *)
Definition RInv (c : codec) (tail : list N) (st : rstate) (wire : list N) (rest : list (list N)) : Prop :=
  Safe c st /\ Alloc c st /\
  match c with
  | Identity n => filled st ++ wire ++ tail = wire_of c rest
  | Varint mx =>
      match cur st with
      | None => filled st ++ wire ++ tail = wire_of c rest /\
                (filled st = [] \/
                 exists m rest' e, rest = m :: rest' /\ e <> [] /\ varint_enc (lenN m) = filled st ++ e)
      | Some fs => exists m rest' e, rest = m :: rest' /\ e <> [] /\ m = filled st ++ e /\ fs = lenN m /\
                                     wire ++ tail = e ++ wire_of c rest'
      end
  end.

Lemma rinv_init c tail wire msgs :
  wire ++ tail = wire_of c msgs -> RInv c tail (init_r c) wire msgs.
Proof.
  intros H. destruct (safe_init c) as (Hs & Ha). split; [exact Hs|]. split; [exact Ha|].
  destruct c as [n|mx]; cbn [init_r cur filled app]; auto.
Qed.

Lemma on_data_rinv c tail st chunk wire' rest cap st' o :
  Fits c rest -> RInv c tail st (chunk ++ wire') rest -> want c st = Some cap -> lenN chunk <= cap ->
  on_data c st chunk = (st', o) ->
  match o with
  | None => RInv c tail st' wire' rest
  | Some RClosed => st' = st /\ chunk = []
  | Some (RFrame m) => exists rest', rest = m :: rest' /\ RInv c tail st' wire' rest'
  | Some _ => False
  end.
Proof.
  intros Hfit (Hs & Ha & Hc) Hw Hl H.
  destruct (on_data_safe _ _ _ _ _ _ Hs Ha Hw Hl H) as (Hnp & Hs' & Ha').
  unfold on_data in H. destruct (is_nil chunk) eqn:Hnil.
  { injection H as <- <-. split; [reflexivity|]. now apply is_nil_true. }
  apply is_nil_false in Hnil.
  destruct c as [n|mx].
  - (* Identity *)
    destruct (lenN (filled st ++ chunk) =? n) eqn:E; injection H as <- <-.
    + assert (E' : lenN (filled st ++ chunk) = n) by lia.
      rewrite takeN_all by lia.
      destruct rest as [|m rest'].
      * exfalso. unfold wire_of in Hc. cbn [map concat] in Hc.
        apply app_eq_nil in Hc. destruct Hc as (_ & Hc). apply app_eq_nil in Hc. destruct Hc as (Hc & _).
        apply app_eq_nil in Hc. tauto.
      * exists rest'. inversion Hfit as [|x y (Hx1 & Hx2) Hy]; subst x y. cbn [fitsb] in Hx1.
        rewrite wire_of_cons in Hc. cbn [frame] in Hc.
        assert (Hc2 : (filled st ++ chunk) ++ (wire' ++ tail) = m ++ wire_of (Identity n) rest')
          by (rewrite <- Hc, <- !app_assoc; reflexivity).
        apply app_eq_len in Hc2; [|apply lenN_inj; lia]. destruct Hc2 as (Hm & Hw').
        split; [now rewrite Hm|]. split; [exact Hs'|]. split; [exact Ha'|]. cbn [filled app]. exact Hw'.
    + split; [exact Hs'|]. split; [exact Ha'|]. cbn [filled]. rewrite <- Hc, <- !app_assoc. reflexivity.
  - (* Varint *)
    destruct (cur st) as [fs|] eqn:Hcur.
    + destruct Hc as (m & rest' & e & -> & He & Hm & Hfs & Hwire).
      unfold Safe in Hs. rewrite Hcur in Hs. destruct Hs as (Hb & Hf).
      unfold want in Hw. rewrite Hcur in Hw.
      replace (lenN (filled st) <=? buf_len st) with true in Hw by lia. injection Hw as <-.
      assert (Hme : lenN m = lenN (filled st) + lenN e) by (rewrite Hm, lenN_app; reflexivity).
      assert (Hpre : exists x, e = chunk ++ x /\ wire' ++ tail = x ++ wire_of (Varint mx) rest').
      { rewrite <- app_assoc in Hwire. apply app_prefix in Hwire; [exact Hwire|]. unfold lenN in *. lia. }
      destruct Hpre as (x & Hex & Hw').
      assert (Hel : lenN e = lenN chunk + lenN x) by (rewrite Hex, lenN_app; reflexivity).
      destruct (lenN (filled st ++ chunk) =? fs) eqn:E; injection H as <- <-.
      * rewrite lenN_app in E. assert (Hx : x = []) by (apply lenN_zero; lia). subst x.
        rewrite app_nil_r in Hex. subst e.
        exists rest'. replace (buf_len st - lenN (filled st ++ chunk)) with 0 by (rewrite lenN_app; lia).
        cbn [N.to_nat repeat]. change (N.to_nat 0) with O. cbn [repeat]. rewrite app_nil_r.
        split; [now rewrite Hm|]. split; [exact Hs'|]. split; [exact Ha'|].
        cbn [cur filled app]. split; [exact Hw'|]. left. reflexivity.
      * rewrite lenN_app in E. split; [exact Hs'|]. split; [exact Ha'|]. cbn [cur filled].
        exists m, rest', x. split; [reflexivity|]. split.
        { intros ->. rewrite lenN_nil in Hel. lia. }
        split; [rewrite Hm, Hex, app_assoc; reflexivity|]. split; [exact Hfs|exact Hw'].
    + destruct Hc as (Hc & Hprog).
      unfold Safe in Hs. rewrite Hcur in Hs. destruct Hs as (Hlen & Hall).
      unfold want in Hw. rewrite Hcur in Hw.
      replace (lenN (filled st) + 1 <=? 10) with true in Hw by (unfold lenN; lia). injection Hw as <-.
      destruct (chunk_one chunk Hnil Hl) as (b & ->).
      assert (Hex : exists m rest' e, rest = m :: rest' /\ e <> [] /\ varint_enc (lenN m) = filled st ++ e).
      { destruct Hprog as [Hnilf|Hex]; [|exact Hex]. rewrite Hnilf in *. cbn [app] in Hc.
        destruct rest as [|m rest']; [discriminate|]. exists m, rest', (varint_enc (lenN m)).
        split; [reflexivity|]. split; [apply enc_fuel_nonnil|reflexivity]. }
      destruct Hex as (m & rest' & e & -> & Hne & He).
      inversion Hfit as [|x y (Hx1 & Hx2) Hy]; subst x y.
      rewrite wire_of_cons in Hc. cbn [frame] in Hc. rewrite He, <- !app_assoc in Hc.
      apply app_inv_head in Hc. destruct e as [|b' e']; [congruence|]. cbn [app] in Hc.
      injection Hc as <- Hc.
      destruct e' as [|x e''].
      * (* the length prefix is complete *)
        rewrite <- He in H. rewrite rps_enc in H by exact Hx2. rewrite N.eqb_refl in H. cbn [negb] in H.
        assert (Hmx : match mx with Some mx0 => mx0 <? lenN m | None => false end = false).
        { cbn [fitsb] in Hx1. destruct mx as [mx0|]; [lia|reflexivity]. }
        rewrite Hmx in H. cbn [app] in Hc.
        destruct (lenN m =? 0) eqn:Hz; injection H as <- <-.
        -- assert (Hm0 : m = []) by (apply lenN_zero; lia). subst m. exists rest'. split; [reflexivity|].
           split; [exact Hs'|]. split; [exact Ha'|]. cbn [cur filled app]. split; [exact Hc|]. left. reflexivity.
        -- split; [exact Hs'|]. split; [exact Ha'|]. cbn [cur filled].
           exists m, rest', m. split; [reflexivity|]. split; [intros ->; rewrite lenN_nil in Hz; lia|].
           split; [reflexivity|]. split; [reflexivity|exact Hc].
      * (* more length bytes to come *)
        assert (Hsp : varint_enc (lenN m) = (filled st ++ [b]) ++ x :: e'') by (rewrite He, <- app_assoc; reflexivity).
        rewrite (rps_prefix _ _ _ Hsp ltac:(discriminate)) in H. injection H as <- <-.
        split; [exact Hs'|]. split; [exact Ha'|]. cbn [cur filled]. split.
        -- rewrite wire_of_cons. cbn [frame]. rewrite Hsp, <- !app_assoc. cbn [app]. do 2 f_equal. exact Hc.
        -- right. exists m, rest', (x :: e''). split; [reflexivity|]. split; [discriminate|exact Hsp].
Qed.

Lemma fits_tail c m rest : Fits c (m :: rest) -> Fits c rest.
Proof. intros H. inversion H; assumption. Qed.

Lemma poll_next_rinv c tail : forall script st wire rest o st' wire' script',
  Fits c rest -> RInv c tail st wire rest ->
  poll_next c st wire script = (o, st', wire', script') ->
  match o with
  | RFrame m => exists rest', rest = m :: rest' /\ RInv c tail st' wire' rest'
  | RPend | RClosed | RIoErr => RInv c tail st' wire' rest
  | RFail | RPanic => False
  end.
Proof.
  induction script as [|ev s IH]; intros st wire rest o st' wire' script' Hfit Hinv H;
    destruct (safe_want c st (proj1 Hinv)) as (cap & Hw); cbn [poll_next] in H; rewrite Hw in H.
  - injection H as <- <- <- <-. exact Hinv.
  - destruct ev as [|n| |].
    + injection H as <- <- <- <-. exact Hinv.
    + set (k := N.min n (N.min cap (lenN wire))) in *.
      destruct (on_data c st (takeN k wire)) as [st1 o1] eqn:E.
      assert (Hinv2 : RInv c tail st (takeN k wire ++ dropN k wire) rest) by (rewrite takeN_dropN; exact Hinv).
      assert (Hl : lenN (takeN k wire) <= cap) by (rewrite lenN_takeN; unfold k; lia).
      pose proof (on_data_rinv _ _ _ _ _ _ _ _ _ Hfit Hinv2 Hw Hl E) as Hstep.
      destruct o1 as [r|].
      * injection H as <- <- <- <-. destruct r; try exact Hstep; try contradiction.
        destruct Hstep as (-> & Hnil). pose proof (takeN_dropN k wire) as Hsp. rewrite Hnil in Hsp.
        cbn [app] in Hsp. rewrite Hsp. exact Hinv.
      * eapply IH; eauto.
    + injection H as <- <- <- <-. exact Hinv.
    + injection H as <- <- <- <-. destruct c; exact Hinv.
Qed.

Lemma run_reader_rinv c tail : forall polls st wire rest script outs st' wire' script',
  Fits c rest -> RInv c tail st wire rest ->
  run_reader polls c st wire script = (outs, st', wire', script') ->
  ~ In RPanic outs /\ ~ In RFail outs /\
  exists rest', rest = frames_of outs ++ rest' /\ RInv c tail st' wire' rest'.
Proof.
  induction polls as [|p IH]; intros st wire rest script outs st' wire' script' Hfit Hinv H.
  - injection H as <- <- <- <-. repeat split; auto. exists rest. auto.
  - cbn [run_reader] in H. destruct (poll_next c st wire script) as [[[o st1] w1] s1] eqn:E.
    pose proof (poll_next_rinv _ _ _ _ _ _ _ _ _ _ Hfit Hinv E) as Hstep.
    destruct (run_reader p c st1 w1 s1) as [[[os st2] w2] s2] eqn:E2.
    destruct o as [| |f| | |]; try contradiction.
    + destruct (IH _ _ _ _ _ _ _ _ Hfit Hstep E2) as (Hn1 & Hn2 & rest' & Hr & Hi).
      injection H as <- <- <- <-. cbn [In frames_of flat_map app].
      repeat split; try (intros [Hc|Hc]; [discriminate|auto]). exists rest'. auto.
    + destruct (IH _ _ _ _ _ _ _ _ Hfit Hstep E2) as (Hn1 & Hn2 & rest' & Hr & Hi).
      injection H as <- <- <- <-. cbn [In frames_of flat_map app].
      repeat split; try (intros [Hc|Hc]; [discriminate|auto]). exists rest'. auto.
    + destruct Hstep as (rest1 & -> & Hi1).
      destruct (IH _ _ _ _ _ _ _ _ (fits_tail _ _ _ Hfit) Hi1 E2) as (Hn1 & Hn2 & rest' & Hr & Hi).
      injection H as <- <- <- <-. cbn [In frames_of flat_map app].
      repeat split; try (intros [Hc|Hc]; [discriminate|auto]). exists rest'. split; [|exact Hi].
      change (frames_of os) with (flat_map (fun o => match o with RFrame f => [f] | _ => [] end) os) in Hr.
      rewrite Hr. reflexivity.
    + destruct (IH _ _ _ _ _ _ _ _ Hfit Hstep E2) as (Hn1 & Hn2 & rest' & Hr & Hi).
      injection H as <- <- <- <-. cbn [In frames_of flat_map app].
      repeat split; try (intros [Hc|Hc]; [discriminate|auto]). exists rest'. auto.
Qed.

(* nothing left on the wire and nothing withheld: every message has been returned *)
Lemma rinv_done c st rest :
  c <> Identity 0 -> Fits c rest -> RInv c [] st [] rest -> rest = [].
Proof.
  intros Hc0 Hfit (Hs & _ & Hc). destruct rest as [|m rest']; [reflexivity|exfalso].
  inversion Hfit as [|x y (Hx1 & Hx2) Hy]; subst x y.
  destruct c as [n|mx].
  - cbn [app] in Hc. rewrite app_nil_r, wire_of_cons in Hc. cbn [frame fitsb] in Hc, Hx1.
    unfold Safe in Hs. destruct Hs as (_ & _ & Hf).
    assert (Hl : lenN (filled st) = lenN m + lenN (wire_of (Identity n) rest')) by (rewrite Hc, lenN_app; reflexivity).
    destruct Hf as [Hf|Hf].
    + lia.
    + rewrite Hf, lenN_nil in Hl. apply Hc0. f_equal. lia.
  - destruct (cur st) as [fs|].
    + destruct Hc as (m0 & r0 & e & _ & He & _ & _ & Hw). cbn [app] in Hw. destruct e; [congruence|discriminate].
    + destruct Hc as (Hc & Hprog). cbn [app] in Hc. rewrite app_nil_r, wire_of_cons in Hc. cbn [frame] in Hc.
      destruct Hprog as [Hf|(m0 & r0 & e & Hr & He & Henc)].
      * rewrite Hf in Hc. pose proof (enc_fuel_nonnil 9 (lenN m)) as Hn. unfold varint_enc in Hc.
        destruct (enc_fuel 9 (lenN m)); [congruence|discriminate].
      * injection Hr as <- <-.
        assert (Hl1 : lenN (filled st) = lenN (varint_enc (lenN m)) + lenN (m ++ wire_of (Varint mx) rest'))
          by (rewrite Hc, <- app_assoc, lenN_app; reflexivity).
        assert (Hl2 : lenN (varint_enc (lenN m)) = lenN (filled st) + lenN e) by (rewrite Henc, lenN_app; reflexivity).
        assert (0 < lenN e) by (destruct e; [congruence|rewrite lenN_cons; lia]). lia.
Qed.

(* ------------------------------------------------------------------ assembled statements *)
Lemma receiver_total c wire script polls :
  let '(outs, st', _, _) := run_reader polls c (init_r c) wire script in
  ~ In RPanic outs /\ Alloc c st'.
Proof.
  destruct (run_reader polls c (init_r c) wire script) as [[[outs st'] w'] s'] eqn:E.
  destruct (safe_init c) as (Hs & Ha).
  destruct (run_reader_safe _ _ _ _ _ _ _ _ _ Hs Ha E) as (H1 & _ & H3). auto.
Qed.

Lemma receiver_rejects mx st b :
  cur st = None ->
  match read_payload_size (filled st ++ [b]) with
  | RpsDecodeErr | RpsOverflow =>
      on_data (Varint mx) st [b] = (mkR (buf_len st) [] None, Some RFail)
  | RpsOk size nb =>
      nb = lenN (filled st ++ [b]) -> (exists m, mx = Some m /\ m < size) ->
      on_data (Varint mx) st [b] = (mkR (buf_len st) [] None, Some RFail)
  | RpsNotEnough => True
  end.
Proof.
  intros Hc. unfold on_data. cbn [is_nil]. rewrite Hc.
  destruct (read_payload_size (filled st ++ [b])) as [size nb| | |]; auto.
  intros -> (m & -> & Hm). rewrite N.eqb_refl. cbn [negb].
  replace (m <? size) with true by lia. reflexivity.
Qed.

Lemma reader_roundtrip c msgs wire tail script polls outs st' wire' script' :
  Fits c msgs -> wire ++ tail = wire_of c msgs ->
  run_reader polls c (init_r c) wire script = (outs, st', wire', script') ->
  ~ In RPanic outs /\ ~ In RFail outs /\
  exists rest, msgs = frames_of outs ++ rest /\
               (c <> Identity 0 -> tail = [] -> wire' = [] -> rest = []).
Proof.
  intros Hfit Hw H.
  destruct (run_reader_rinv c tail _ _ _ _ _ _ _ _ _ Hfit (rinv_init c tail wire msgs Hw) H)
    as (H1 & H2 & rest & Hr & Hi).
  repeat split; auto. exists rest. split; [exact Hr|]. intros Hc0 -> ->.
  eapply rinv_done; eauto. rewrite Hr in Hfit. apply Forall_app in Hfit. tauto.
Qed.

Definition small_op (o : op) : Prop :=
  match o with OSend m | OFramed m => lenN m < USIZE_MOD | _ => True end.

Lemma accepted_fits c ops : Forall small_op ops -> Fits c (accepted c ops).
Proof.
  induction ops as [|o t IH]; intros H; [constructor|]. inversion H as [|x y Hx Hy]; subst.
  rewrite accepted_cons. apply Forall_app. split; [|apply IH; exact Hy].
  unfold accepted. cbn [flat_map]. rewrite app_nil_r.
  destruct o as [|m| |m| |]; try constructor; cbn [small_op] in Hx;
    (destruct (fitsb c m) eqn:Hf; [constructor; [auto|constructor]|constructor]).
Qed.

(* every history of the six operations, whatever the carrier does *)
Lemma mixed_stream bp c script ops rs s' :
  run_ops bp c (init_sys script) ops = (rs, s') ->
  Forall2 good ops rs ->
  pbytes (ws s') = lenN (qbytes (ws s')) /\
  sent s' ++ qbytes (ws s') = wire_of c (accepted c ops).
Proof.
  intros Hrun Hg. destruct (run_ops_inv _ _ _ _ _ _ Hrun WInv_init Hg) as (Hi & Hq).
  split; [exact Hi|exact Hq].
Qed.

Lemma hist_flush_complete bp c script ops rs r s' :
  run_ops bp c (init_sys script) (ops ++ [OFlush]) = (rs ++ [r], s') ->
  Forall2 good ops rs -> fst r = WOk ->
  sent s' = wire_of c (accepted c ops) /\ frames (ws s') = [] /\ curf (ws s') = None /\ pbytes (ws s') = 0.
Proof.
  intros H Hg Hok. rewrite run_ops_app in H.
  destruct (run_ops bp c (init_sys script) ops) as [ra s1] eqn:E1.
  cbn [run_ops step] in H. destruct (flush (wscript s1) (ws s1) (sent s1)) as [[[r0 w] sn] sc] eqn:E2.
  injection H as H1 H2. subst s'.
  apply app_inj_tail in H1. destruct H1 as (-> & <-). cbn [fst] in Hok. subst r0.
  destruct (run_ops_inv _ _ _ _ _ _ E1 WInv_init Hg) as (Hi1 & Hq1).
  apply flush_spec in E2; [|exact Hi1]. destruct E2 as (_ & Hi2 & Hq2 & Hf).
  destruct (Hf eq_refl) as (Hf1 & Hf2 & Hf3). cbn [ws sent]. repeat split; try assumption.
  assert (Hqe : qbytes w = []) by (unfold qbytes; now rewrite Hf1, Hf2).
  rewrite Hqe, app_nil_r in Hq2. rewrite Hq2, Hq1. reflexivity.
Qed.

(* a history whose last flush completed, followed by a poll_close that reports completion:
   everything handed over is with the carrier, nothing is queued, the carrier is shut down *)
Lemma hist_close_after_flush bp c script ops rs rf rc s' :
  run_ops bp c (init_sys script) (ops ++ [OFlush; OClose]) = (rs ++ [rf; rc], s') ->
  Forall2 good ops rs -> fst rf = WOk -> fst rc = WOk ->
  sent s' = wire_of c (accepted c ops) /\ qbytes (ws s') = [] /\ shut s' = true.
Proof.
  intros H Hg Hf Hc. rewrite run_ops_app in H.
  destruct (run_ops bp c (init_sys script) ops) as [ra s1] eqn:E1.
  cbn [run_ops step] in H. destruct (flush (wscript s1) (ws s1) (sent s1)) as [[[r0 w] sn] sc] eqn:E2.
  cbn [wscript ws sent shut] in H.
  destruct (poll_close sc w sn) as [[[[r1 w2] sn2] sc2] sh] eqn:E3.
  injection H as H1 H2. subst s'.
  pose proof (run_ops_length _ _ _ _ _ _ E1) as Hl1.
  assert (Hl2 : length ops = length rs).
  { clear -Hg. induction Hg; cbn [length]; congruence. }
  assert (Hra : ra = rs /\ [(r0, 0); (r1, 0)] = [rf; rc]).
  { apply app_eq_len; [exact H1|]. lia. }
  destruct Hra as (-> & Hrr). injection Hrr as <- <-. cbn [fst] in Hf, Hc. subst r0 r1.
  destruct (run_ops_inv _ _ _ _ _ _ E1 WInv_init Hg) as (Hi1 & Hq1).
  apply flush_spec in E2; [|exact Hi1]. destruct E2 as (_ & Hi2 & Hq2 & Hok).
  destruct (Hok eq_refl) as (Hf1 & Hf2 & _).
  apply poll_close_spec in E3. destruct E3 as (-> & -> & Hsh). cbn [ws sent shut].
  assert (Hqe : qbytes w = []) by (unfold qbytes; now rewrite Hf1, Hf2).
  rewrite (proj1 Hsh eq_refl), orb_true_r. repeat split; auto.
  rewrite Hqe, app_nil_r in Hq2. rewrite Hq2, Hq1. reflexivity.
Qed.

(* the same for Substream::close(self), which ignores errors: over a carrier that does not fail *)
Lemma hist_close_all_after_flush bp c script ops rs rf s1 np w' sent' script' sh :
  run_ops bp c (init_sys script) (ops ++ [OFlush]) = (rs ++ [rf], s1) ->
  Forall2 good ops rs -> fst rf = WOk ->
  close_all (wscript s1) (ws s1) (sent s1) = (WOk, np, w', sent', script', sh) ->
  Forall clean_ev (wscript s1) ->
  sent' = wire_of c (accepted c ops) /\ qbytes w' = [] /\ sh = true.
Proof.
  intros E1 Hg Hf E2 Hc.
  destruct (hist_flush_complete _ _ _ _ _ _ _ E1 Hg Hf) as (Hs & Hf1 & Hf2 & _).
  apply close_all_spec in E2. destruct E2 as (-> & -> & Hsh).
  repeat split; auto. unfold qbytes. now rewrite Hf1, Hf2.
Qed.

Lemma roundtrip_mixed bp c wscript ops rs s' rscript polls outs st' wire' script' :
  Forall small_op ops ->
  run_ops bp c (init_sys wscript) ops = (rs, s') ->
  Forall2 good ops rs ->
  run_reader polls c (init_r c) (sent s') rscript = (outs, st', wire', script') ->
  ~ In RPanic outs /\ ~ In RFail outs /\
  exists rest, accepted c ops = frames_of outs ++ rest /\
               (c <> Identity 0 -> qbytes (ws s') = [] -> wire' = [] -> rest = []).
Proof.
  intros Hsm Hrun Hg Hrd.
  destruct (run_ops_inv _ _ _ _ _ _ Hrun WInv_init Hg) as (_ & Hq).
  cbn [init_sys sent ws qbytes init_w curf frames app concat] in Hq.
  eapply reader_roundtrip; eauto. apply accepted_fits. exact Hsm.
Qed.

Lemma sender_refuses c w m script sent0 r np w' sent' script' :
  fitsb c m = false ->
  start_send c w m = (WDenied, w) /\
  (send_framed c script w m sent0 = (r, np, w', sent', script') -> pbytes w = lenN (qbytes w) ->
   r <> WOk /\ sent' ++ qbytes w' = sent0 ++ qbytes w /\
   (queue_nonempty w = false -> r = WDenied /\ sent' = sent0 /\ script' = script /\ w' = w)).
Proof.
  intros Hf. split; [unfold start_send; now rewrite Hf|]. intros H Hinv.
  pose proof H as H0. apply send_framed_spec in H; [|exact Hinv].
  destruct H as (_ & (d & e & Hq & _ & _ & Hno) & Hr1 & _).
  split; [intros Hr; specialize (Hr1 Hr); congruence|]. split; [now rewrite Hq, (Hno Hf), app_nil_r|].
  intros Hqn. unfold send_framed in H0. rewrite Hqn, Hf in H0. injection H0 as <- _ <- <- <-. auto.
Qed.

Lemma backpressure bp script w sent0 w' sent' script' :
  0 < bp -> WInv w -> poll_ready bp script w sent0 = (WOk, w', sent', script') -> pbytes w' < bp.
Proof.
  intros Hb Hi H. apply poll_ready_spec in H; [|exact Hi]. destruct H as (_ & _ & _ & Hok). auto.
Qed.

(* ---- what the carrier did is what the caller is told ---- *)
(* a carrier error met by poll_flush is reported by that very call: a call that answers Ok or
   Pending consumed no error event *)
Lemma flush_err_reported : forall script w sent r w' sent' script',
  flush script w sent = (r, w', sent', script') -> r <> WIo ->
  exists pre, script = pre ++ script' /\ Forall (fun e => e <> WErr) pre.
Proof.
  induction script as [|ev s IH]; intros w sent r w' sent' script' H Hr; cbn [flush] in H.
  - destruct (take_frame w) as [[f w0]|]; injection H as <- <- <- <-; exists []; auto.
  - destruct (take_frame w) as [[f w0]|].
    + destruct ev as [|n|].
      * injection H as <- <- <- <-. exists [WPending]. split; [reflexivity|]. constructor; [discriminate|constructor].
      * destruct ((N.min n (lenN f) =? 0) && negb (is_nil f)); [injection H as <- _ _ _; congruence|].
        apply IH in H; [|exact Hr]. destruct H as (pre & -> & Hp). exists (WChunk n :: pre).
        split; [reflexivity|]. constructor; [discriminate|exact Hp].
      * injection H as <- _ _ _. congruence.
    + destruct ev as [|n|]; injection H as <- <- <- <-; try congruence.
      * exists [WPending]. split; [reflexivity|]. constructor; [discriminate|constructor].
      * exists [WChunk n]. split; [reflexivity|]. constructor; [discriminate|constructor].
Qed.

Lemma sf_run_err_reported : forall ident script bufs sent np r np' sent' script',
  sf_run ident script bufs sent np = (r, np', sent', script') -> r = WOk \/ r = WPend ->
  exists pre, script = pre ++ script' /\ Forall (fun e => e <> WErr) pre.
Proof.
  induction script as [|ev s IH]; intros bufs sent np r np' sent' script' H Hr; cbn [sf_run] in H.
  - injection H as <- <- <- <-. exists []. auto.
  - assert (Hcons : forall e0, e0 <> WErr -> (exists pre, s = pre ++ script' /\ Forall (fun e => e <> WErr) pre) ->
                      exists pre, e0 :: s = pre ++ script' /\ Forall (fun e => e <> WErr) pre).
    { intros e0 He (pre & -> & Hp). exists (e0 :: pre). split; [reflexivity|]. constructor; assumption. }
    destruct bufs as [|b bufs'].
    + destruct ev as [|n|].
      * apply Hcons; [discriminate|]. destruct (is_nil s) eqn:Hs.
        -- injection H as <- <- <- <-. apply is_nil_true in Hs. subst s. exists []. auto.
        -- eapply IH; eauto.
      * injection H as <- <- <- <-. apply Hcons; [discriminate|]. exists []. auto.
      * injection H as <- _ _ _. destruct Hr; discriminate.
    + destruct ev as [|n|].
      * apply Hcons; [discriminate|]. destruct (is_nil s) eqn:Hs.
        -- injection H as <- <- <- <-. apply is_nil_true in Hs. subst s. exists []. auto.
        -- eapply IH; eauto.
      * destruct (N.min n (lenN b) =? 0).
        -- injection H as <- _ _ _. destruct ident; destruct Hr; discriminate.
        -- apply Hcons; [discriminate|]. eapply IH; eauto.
      * injection H as <- _ _ _. destruct ident; destruct Hr; discriminate.
Qed.

(* ---- wake-ups: a call answers Pending only when its last carrier call answered Pending (the
   event consumed last is a Pending event, or the script was exhausted, which the carrier answers
   with Pending), so the carrier holds the caller's waker ---- *)
Lemma flush_pending : forall script w sent w' sent' script',
  flush script w sent = (WPend, w', sent', script') ->
  (exists pre, script = pre ++ WPending :: script') \/ script' = [].
Proof.
  induction script as [|ev s IH]; intros w sent w' sent' script' H; cbn [flush] in H.
  - destruct (take_frame w) as [[f w0]|]; injection H as _ _ <-; auto.
  - destruct (take_frame w) as [[f w0]|].
    + destruct ev as [|n|]; try (injection H as H _ _ _; discriminate).
      * injection H as _ _ <-. left. exists []. reflexivity.
      * destruct ((N.min n (lenN f) =? 0) && negb (is_nil f)); [injection H as H _ _ _; discriminate|].
        apply IH in H. destruct H as [(pre & ->)|H]; [left; exists (WChunk n :: pre); reflexivity|auto].
    + destruct ev as [|n|]; try (injection H as H _ _ _; discriminate).
      injection H as _ _ <-. left. exists []. reflexivity.
Qed.

Lemma poll_next_pending c : forall script st wire st' wire' script',
  poll_next c st wire script = (RPend, st', wire', script') ->
  (exists pre, script = pre ++ EvPending :: script') \/ script' = [].
Proof.
  induction script as [|ev s IH]; intros st wire st' wire' script' H; cbn [poll_next] in H.
  - destruct (want c st); [injection H as _ _ <-; auto|discriminate].
  - destruct (want c st) as [cap|]; [|injection H as H _ _ _; discriminate].
    destruct ev as [|n| |].
    + injection H as _ _ <-. left. exists []. reflexivity.
    + destruct (on_data c st (takeN (N.min n (N.min cap (lenN wire))) wire)) as [st1 [r|]] eqn:E.
      * injection H as -> _ _ <-. exfalso. unfold on_data in E.
        destruct (is_nil (takeN (N.min n (N.min cap (lenN wire))) wire)); [discriminate|].
        destruct c as [n0|mx].
        -- destruct (lenN _ =? n0); discriminate.
        -- destruct (cur st).
           ++ destruct (lenN _ =? _); discriminate.
           ++ destruct (read_payload_size _) as [sz nb| | |]; try discriminate.
              destruct (negb (nb =? _)); [discriminate|].
              destruct (match mx with Some mx0 => mx0 <? sz | None => false end); [discriminate|].
              destruct (sz =? 0); discriminate.
      * apply IH in H. destruct H as [(pre & ->)|H]; [left; exists (EvChunk n :: pre); reflexivity|auto].
    + injection H as H _ _ _. discriminate.
    + injection H as H _ _ _. destruct c; discriminate.
Qed.

(* ---- degenerate configurations, as the code behaves ---- *)
(* Identity(0): the reader hands a zero-length buffer to the carrier and takes the resulting
   "0 bytes read" for end of stream: no frame is ever delivered (and the sender's frames are empty) *)
Lemma want_id0 : want (Identity 0) (init_r (Identity 0)) = Some 0.
Proof. reflexivity. Qed.

Lemma identity_zero_poll : forall script wire o st' wire' script',
  poll_next (Identity 0) (init_r (Identity 0)) wire script = (o, st', wire', script') ->
  (o = RPend \/ o = RClosed \/ o = RIoErr) /\ st' = init_r (Identity 0) /\ wire' = wire.
Proof.
  intros script wire o st' wire' script' H. destruct script as [|ev s]; cbn [poll_next] in H; rewrite want_id0 in H.
  - injection H as <- <- <- _. auto.
  - destruct ev as [|n| |].
    + injection H as <- <- <- _. auto.
    + replace (N.min n (N.min 0 (lenN wire))) with 0 in H by lia.
      change (takeN 0 wire) with (@nil N) in H. change (dropN 0 wire) with wire in H.
      unfold on_data in H. cbn [is_nil] in H. injection H as <- <- <- _. auto.
    + injection H as <- <- <- _. auto.
    + cbn [on_err] in H. injection H as <- <- <- _. auto.
Qed.

Lemma identity_zero : forall polls wire script outs st' wire' script',
  run_reader polls (Identity 0) (init_r (Identity 0)) wire script = (outs, st', wire', script') ->
  frames_of outs = [] /\ Forall (fun o => o = RPend \/ o = RClosed \/ o = RIoErr) outs /\ wire' = wire.
Proof.
  induction polls as [|p IH]; intros wire script outs st' wire' script' H.
  - injection H as <- _ <- _. auto.
  - cbn [run_reader] in H.
    destruct (poll_next (Identity 0) (init_r (Identity 0)) wire script) as [[[o st1] w1] s1] eqn:E.
    apply identity_zero_poll in E. destruct E as (Ho & -> & ->).
    destruct (run_reader p (Identity 0) (init_r (Identity 0)) wire s1) as [[[os st2] w2] s2] eqn:E2.
    apply IH in E2. destruct E2 as (Hf & Ha & Hw).
    destruct Ho as [ -> | [ -> | -> ] ]; injection H as <- _ <- _; cbn [frames_of flat_map app];
      (split; [exact Hf|]); (split; [constructor; auto|exact Hw]).
Qed.

(* UnsignedVarint(None): whatever non-zero length the wire announces becomes the size of the
   read buffer at once, before any payload byte has arrived *)
Lemma none_allocates st b n :
  cur st = None -> read_payload_size (filled st ++ [b]) = RpsOk n (lenN (filled st ++ [b])) -> n <> 0 ->
  on_data (Varint None) st [b] = (mkR n [] (Some n), None).
Proof.
  intros Hc Hr Hn. unfold on_data. cbn [is_nil]. rewrite Hc, Hr, N.eqb_refl. cbn [negb].
  replace (n =? 0) with false by lia. reflexivity.
Qed.

Lemma read_len_alloc n : 0 < n -> n < USIZE_MOD ->
  forall e pre buf, varint_enc n = pre ++ e -> e <> [] ->
  poll_next (Varint None) (mkR buf pre None) e (repeat (EvChunk 1) (length e)) =
  (RPend, mkR n [] (Some n), [], []).
Proof.
  intros Hn0 Hn. induction e as [|b e IH]; intros pre buf He Hne; [congruence|].
  assert (Hlen : (length pre + S (length e) <= 10)%nat).
  { pose proof (enc_fuel_len 9 n) as Hl. unfold varint_enc in He. rewrite He, app_length in Hl. cbn [length] in Hl. lia. }
  cbn [length repeat poll_next]. unfold want. cbn [cur filled].
  replace (lenN pre + 1 <=? 10) with true by (unfold lenN; lia).
  replace (N.min 1 (N.min 1 (lenN (b :: e)))) with 1 by (rewrite lenN_cons; lia).
  change (takeN 1 (b :: e)) with [b]. change (dropN 1 (b :: e)) with e.
  destruct e as [|b' e'].
  - rewrite (none_allocates (mkR buf pre None) b n eq_refl); [| |lia].
    + cbn [repeat length poll_next]. unfold want. cbn [cur filled buf_len]. rewrite lenN_nil.
      replace (0 <=? n) with true by lia. reflexivity.
    + cbn [filled]. rewrite <- He. apply rps_enc. exact Hn.
  - assert (Hsp : varint_enc n = (pre ++ [b]) ++ b' :: e') by (rewrite He, <- app_assoc; reflexivity).
    unfold on_data. cbn [is_nil cur filled]. rewrite (rps_prefix _ _ _ Hsp ltac:(discriminate)).
    cbn [buf_len]. apply IH; [exact Hsp|discriminate].
Qed.

Lemma none_unbounded_alloc n : 0 < n -> n < USIZE_MOD ->
  let e := varint_enc n in
  let '(outs, st', _, _) := run_reader 1 (Varint None) (init_r (Varint None)) e (repeat (EvChunk 1) (length e)) in
  outs = [RPend] /\ buf_len st' = n /\ filled st' = [].
Proof.
  intros Hn0 Hn e. subst e. cbn [run_reader]. unfold init_r.
  rewrite (read_len_alloc n Hn0 Hn (varint_enc n) [] 1024 eq_refl (enc_fuel_nonnil 9 n)).
  cbn. auto.
Qed.

(* ---- the fuel of flush_all (a modelling device) is never exhausted ---- *)
Lemma flush_consumes : forall script w sent r w' sent' script',
  flush script w sent = (r, w', sent', script') ->
  (script = [] /\ script' = []) \/ (length script' < length script)%nat.
Proof.
  induction script as [|ev s IH]; intros w sent r w' sent' script' H; cbn [flush] in H.
  - left. destruct (take_frame w) as [[f w0]|]; injection H as _ _ _ <-; auto.
  - right. destruct (take_frame w) as [[f w0]|].
    + destruct ev as [|n|]; try (injection H as _ _ _ <-; cbn [length]; lia).
      destruct ((N.min n (lenN f) =? 0) && negb (is_nil f)); [injection H as _ _ _ <-; cbn [length]; lia|].
      apply IH in H. cbn [length]. destruct H as [(-> & ->)|H]; cbn [length]; lia.
    + destruct ev as [|n|]; injection H as _ _ _ <-; cbn [length]; lia.
Qed.

Lemma flush_all_fuel : forall fuel fuel' script w sent np,
  (length script < fuel)%nat -> (length script < fuel')%nat ->
  flush_all fuel script w sent np = flush_all fuel' script w sent np.
Proof.
  induction fuel as [|fu IH]; intros fuel' script w sent np H1 H2; [lia|].
  destruct fuel' as [|fu']; [lia|]. cbn [flush_all].
  destruct (flush script w sent) as [[[r w1] s1] sc1] eqn:E.
  destruct r; try reflexivity. destruct (is_nil sc1) eqn:Hn; [reflexivity|].
  apply flush_consumes in E. destruct E as [(_ & ->)|E]; [discriminate|]. apply IH; lia.
Qed.

(* ------------------------------------------------------------------ poll_ready and the boundary *)
Lemma poll_ready_below bp script w sent :
  pbytes w < bp -> poll_ready bp script w sent = (WOk, w, sent, script).
Proof. intros H. unfold poll_ready. replace (bp <=? pbytes w) with false by lia. reflexivity. Qed.

Lemma poll_ready_at bp script w sent :
  bp <= pbytes w -> poll_ready bp script w sent = flush script w sent.
Proof. intros H. unfold poll_ready. replace (bp <=? pbytes w) with true by lia. reflexivity. Qed.

Lemma poll_ready_to_boundary bp script w sent r w' sent' script' :
  0 < bp -> pbytes w = lenN (qbytes w) ->
  poll_ready bp script w sent = (r, w', sent', script') ->
  (r = WOk -> pbytes w' < bp) /\
  (pbytes w' < bp -> forall script2, poll_ready bp script2 w' sent' = (WOk, w', sent', script2)).
Proof.
  intros Hbp Hi H. split.
  - intros ->. eapply backpressure; eauto.
  - intros Hlt script2. apply poll_ready_below. exact Hlt.
Qed.

(* end of stream inside a frame *)
Lemma poll_next_eof c st wire s :
  Safe c st -> poll_next c st wire (EvEof :: s) = (RClosed, st, wire, s).
Proof.
  intros Hs. destruct (safe_want c st Hs) as (cap & Hw). cbn [poll_next]. rewrite Hw. reflexivity.
Qed.
