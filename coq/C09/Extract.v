From Coq Require Import ExtrOcamlBasic.
From V.C09 Require Import Glue.
Extraction Language OCaml.
Extraction "c09_model.ml" run_case prop_ok known_class.
