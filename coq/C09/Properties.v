(* C09 — pinned property theorems about the keep-alive part of the shared TransportService model
   (coq/Ts), in logical time. This file contains statements, `exact`, and Print Assumptions only. *)
From Coq Require Import List NArith Bool.
From V.Ts Require Import Model Proofs.
Import ListNotations.
Open Scope N_scope.

(* Reachable states (any history, any timeout, any mix of inputs, no environment assumption):
   every tracked key's recorded time is the time of its last keep-alive activity as defined by
   the independent specification ka_activity_of (ghost log s_act), lies in the past, and has an
   armed sleep due no later than that time + T. *)
Theorem C09_tracker_invariant :
  forall ka T n0 tr, inv_t (final (init ka T n0) tr).
Proof. intros ka T n0 tr. apply inv_t_final. apply inv_t_init. Qed.
Print Assumptions C09_tracker_invariant.

(* not before: whenever the keep-alive mechanism downgrades a connection handle, the last
   keep-alive activity on that connection is at least T old *)
Theorem C09_not_before :
  forall ka T n0 tr dt e p c,
  let s := final (init ka T n0) tr in
  In (ODown p c) (snd (step s dt e)) ->
  exists t, kfind (p, c) (s_act (fst (step s dt e))) = Some t /\
            t + s_T (fst (step s dt e)) <= s_now (fst (step s dt e)).
Proof.
  intros ka T n0 tr dt e p c s. apply not_before_step. apply inv_t_final. apply inv_t_init.
Qed.
Print Assumptions C09_not_before.

(* closes: if the service is polled at any time at or after last activity + T (in particular
   when the armed sleep fires at its due time, which is <= last + T by the invariant), the key
   is untracked and its handle is Inactive afterwards *)
Theorem C09_closes :
  forall ka T n0 tr dt k t,
  let s := final (init ka T n0) tr in
  kfind k (s_last s) = Some t -> t + s_T s <= s_now s + dt ->
  kfind k (s_last (fst (step s dt ENone))) = None /\
  handle_active (s_ctxs (fst (step s dt ENone))) k = false.
Proof.
  intros ka T n0 tr dt k t s. apply closes_step. apply inv_t_final. apply inv_t_init.
Qed.
Print Assumptions C09_closes.

(* substreams of a protocol that is not keep-alive (ping, identify) are no activity: they move
   no recorded time, log nothing and never re-activate a handle *)
Theorem C09_non_keepalive_ignored :
  forall s dt e,
  s_ka s = false -> (forall p c, e <> EEst p c) -> (forall p c, e <> EClosed p c) ->
  let s' := fst (step s dt e) in
  s_act s' = s_act s /\
  (forall k t, kfind k (s_last s') = Some t -> kfind k (s_last s) = Some t) /\
  (forall k, handle_active (s_ctxs s') k = true -> handle_active (s_ctxs s) k = true).
Proof. exact non_keepalive_step. Qed.
Print Assumptions C09_non_keepalive_ignored.

(* reference counting of the command channel (tokio mpsc strong senders) *)
Theorem C09_busy_keeps_alive :
  forall s c, 0 < pend_on c (s_pend s) \/ 0 < ch_held_of c (s_chans s) -> 0 < strong s c.
Proof. exact busy_strong. Qed.
Print Assumptions C09_busy_keeps_alive.

Theorem C09_idle_closes :
  forall s c,
  svc_strong (s_ctxs s) c = false -> pend_on c (s_pend s) = 0 -> ch_held_of c (s_chans s) = 0 ->
  ch_other_of c (s_chans s) = 0 -> strong s c = 0.
Proof. exact idle_strong. Qed.
Print Assumptions C09_idle_closes.

(* non-vacuity: T = 300; established at 0, an open at 200 (keep-alive protocol) moves the close
   from 300 to 500: polls at 400 (re-arm) and 600 (downgrade); the permit in flight keeps the
   channel alive, the failure answer releases it *)
Example C09_nonvacuous :
  let tr := [(0, EEst 0 1); (200, EOpen 0); (200, ENone); (200, ENone); (0, ESubFail 0)] in
  concat (run (init true 300 0) tr) = [OEst 0; ORet 0 0; OCmd 1 0; ODown 0 1; OFail 0 (Some 0)] /\
  strong (final (init true 300 0) (firstn 4 tr)) 1 = 1 /\
  strong (final (init true 300 0) tr) 1 = 0.
Proof. vm_compute. repeat split; reflexivity. Qed.

Example C09_nonvacuous_ping :
  let tr := [(0, EEst 0 1); (200, EOpen 0); (200, ENone)] in
  concat (run (init false 300 0) tr) = [OEst 0; ORet 0 0; OCmd 1 0; ODown 0 1].
Proof. vm_compute. reflexivity. Qed.
