(* C09 — pinned property theorems about the keep-alive part of the shared TransportService model
   (coq/Ts), in logical time. This file contains statements, `exact`, and Print Assumptions only. *)
From Coq Require Import List NArith Bool.
From V.Ts Require Import Model Proofs Rearm Timing Extra Exact Names Multi MultiProofs.
From V.Mgr Require Model.
From V.C06 Require Compose08.
From V.Link Require C06_C08.
Import ListNotations.
Open Scope N_scope.

(* Reachable states (any history, any timeout, any mix of inputs, no environment assumption):
   every tracked key's recorded time is the time of its last keep-alive activity as defined by
   the independent specification ka_activity_of (ghost log s_act), lies in the past, and has an
   armed sleep due no later than that time + T. *)
Theorem C09_tracker_invariant :
  forall ka T n0 tr, inv_t (final (init ka T n0) tr).
Proof. intros ka T n0 tr. apply inv_t_final. apply inv_t_init. Qed.
Print Assumptions C09_tracker_invariant.

(* not before: whenever the keep-alive mechanism downgrades a connection handle, the last
   keep-alive activity on that connection is at least T old *)
Theorem C09_not_before :
  forall ka T n0 tr dt e p c,
  let s := final (init ka T n0) tr in
  In (ODown p c) (snd (step s dt e)) ->
  exists t, kfind (p, c) (s_act (fst (step s dt e))) = Some t /\
            t + s_T (fst (step s dt e)) <= s_now (fst (step s dt e)).
Proof.
  intros ka T n0 tr dt e p c s. apply not_before_step. apply inv_t_final. apply inv_t_init.
Qed.
Print Assumptions C09_not_before.

(* closes: if the service is polled at any time at or after last activity + T (in particular
   when the armed sleep fires at its due time, which is <= last + T by the invariant), the key
   is untracked and its handle is Inactive afterwards *)
Theorem C09_closes :
  forall ka T n0 tr dt k t,
  let s := final (init ka T n0) tr in
  kfind k (s_last s) = Some t -> t + s_T s <= s_now s + dt ->
  kfind k (s_last (fst (step s dt ENone))) = None /\
  handle_active (s_ctxs (fst (step s dt ENone))) k = false.
Proof.
  intros ka T n0 tr dt k t s. apply closes_step. apply inv_t_final. apply inv_t_init.
Qed.
Print Assumptions C09_closes.

(* substreams of a protocol that is not keep-alive (ping, identify) are no activity: they move
   no recorded time, log nothing and never re-activate a handle *)
Theorem C09_non_keepalive_ignored :
  forall s dt e,
  s_ka s = false -> (forall p c, e <> EEst p c) -> (forall p c, e <> EClosed p c) ->
  let s' := fst (step s dt e) in
  s_act s' = s_act s /\
  (forall k t, kfind k (s_last s') = Some t -> kfind k (s_last s) = Some t) /\
  (forall k, handle_active (s_ctxs s') k = true -> handle_active (s_ctxs s) k = true).
Proof. exact non_keepalive_step. Qed.
Print Assumptions C09_non_keepalive_ignored.

(* reference counting of the command channel (tokio mpsc strong senders) *)
Theorem C09_busy_keeps_alive :
  forall s c, 0 < pend_on c (s_pend s) \/ 0 < ch_held_of c (s_chans s) -> 0 < strong s c.
Proof. exact busy_strong. Qed.
Print Assumptions C09_busy_keeps_alive.

(* a held keep-alive substream keeps the connection alive whether or not its write half has been
   shut down: half-closing (close()/shutdown() while still reading) changes neither the permits
   held nor the opens in flight, and the channel still has a strong sender afterwards — also after
   any later keep-alive downgrade of the handle, by C09_busy_keeps_alive *)
Theorem C09_half_closed_keeps_alive :
  forall s dt c,
  0 < ch_held_of c (s_chans s) ->
  s_chans (fst (step s dt (EShutSub c))) = s_chans s /\
  s_pend (fst (step s dt (EShutSub c))) = s_pend s /\
  0 < strong (fst (step s dt (EShutSub c))) c.
Proof. exact shut_keeps. Qed.
Print Assumptions C09_half_closed_keeps_alive.

Theorem C09_idle_closes :
  forall s c,
  svc_strong (s_ctxs s) c = false -> pend_on c (s_pend s) = 0 -> ch_held_of c (s_chans s) = 0 ->
  ch_other_of c (s_chans s) = 0 -> strong s c = 0.
Proof. exact idle_strong. Qed.
Print Assumptions C09_idle_closes.

(* the `insert(..).is_none()` guard: for every feasible history (fresh connection ids, at most
   two open connections per peer, notifications only for open connections, answers only for open
   requests) no (peer, connection) key ever has more than one armed sleep, and a tracked key has
   exactly one *)
Theorem C09_rearm_single :
  forall tr ka T n0 k,
  feasible 2 env0 (init ka T n0) tr = true ->
  (cnt k (s_timers (final (init ka T n0) tr)) <= 1)%nat.
Proof. exact rearm_single. Qed.
Print Assumptions C09_rearm_single.

Theorem C09_rearm_tracked_one :
  forall tr ka T n0 k t,
  feasible 2 env0 (init ka T n0) tr = true ->
  kfind k (s_last (final (init ka T n0) tr)) = Some t ->
  cnt k (s_timers (final (init ka T n0) tr)) = 1%nat.
Proof. exact rearm_tracked_one. Qed.
Print Assumptions C09_rearm_tracked_one.

(* without the per-connection FIFO assumption the guard is not enough: activity reported for a
   connection after its closed notification arms a second sleep next to the stale one *)
Theorem C09_rearm_needs_fifo :
  exists tr k, cnt k (s_timers (final (init true 300 0) tr)) = 2%nat.
Proof.
  exists [(0, EEst 0 1); (0, ESubIn 0 1 true); (0, EClosed 0 1); (0, ESubIn 0 1 true)], (0, 1).
  vm_compute. reflexivity.
Qed.
Print Assumptions C09_rearm_needs_fifo.

(* after every step every armed sleep is due strictly in the future, so a schedule that polls no
   later than the earliest due time (on_time) always exists *)
Theorem C09_sleeps_in_future :
  forall s dt e k d,
  In (k, d) (s_timers (fst (step s dt e))) -> s_now (fst (step s dt e)) < d.
Proof. exact sleeps_future. Qed.
Print Assumptions C09_sleeps_in_future.

(* exactly at last + T: in any reachable state, if the next step does not jump over the due time
   of an armed sleep (timers fire at their due time) and T > 0, a downgrade in that step happens
   at precisely (time of the last keep-alive activity) + T *)
Theorem C09_downgrade_exactly :
  forall ka T n0 tr dt e p c,
  let s := final (init ka T n0) tr in
  on_time s dt -> 0 < s_T s ->
  In (ODown p c) (snd (step s dt e)) ->
  exists t, kfind (p, c) (s_act (fst (step s dt e))) = Some t /\
            s_now (fst (step s dt e)) = t + s_T (fst (step s dt e)).
Proof.
  intros ka T n0 tr dt e p c s. apply downgrade_exact_step. apply inv_t_final. apply inv_t_init.
Qed.
Print Assumptions C09_downgrade_exactly.

(* nothing tracked is ever overdue once the service has been polled: at every reachable state
   each tracked connection's last activity is less than T ago (any history, any schedule) *)
Theorem C09_never_overdue :
  forall ka T n0 tr k t,
  let s := final (init ka T n0) tr in
  kfind k (s_last s) = Some t -> s_now s < t + s_T s.
Proof.
  intros ka T n0 tr k t s. apply (fresh_final tr (init ka T n0) (inv_t_init ka T n0) (fresh_inv_init ka T n0)).
Qed.
Print Assumptions C09_never_overdue.

(* THE COMPOSED STATEMENT. For every feasible history, at every point:
   (1) a handle that is Active has a keep-alive activity (per the independent specification)
       that lies less than T in the past — so a handle is Inactive from last + T on;
   (2) if the next step is on time and T > 0, any downgrade in it happens at exactly last + T
       (never earlier — C09_not_before needs no schedule assumption at all —, never later);
   (3) independently of the handle, while an open is in flight or a keep-alive substream lives
       on connection c the channel keeps a strong sender: the idle mechanism cannot close it. *)
Theorem C09_idle_close_exact :
  forall tr ka T n0,
  feasible 2 env0 (init ka T n0) tr = true ->
  let s := final (init ka T n0) tr in
  (forall k, handle_active (s_ctxs s) k = true ->
     exists t, kfind k (s_last s) = Some t /\ kfind k (s_act s) = Some t /\
               t <= s_now s /\ s_now s < t + s_T s) /\
  (forall dt e p c, on_time s dt -> 0 < s_T s -> In (ODown p c) (snd (step s dt e)) ->
     exists t, kfind (p, c) (s_act (fst (step s dt e))) = Some t /\
               s_now (fst (step s dt e)) = t + s_T (fst (step s dt e))) /\
  (forall c, 0 < pend_on c (s_pend s) \/ 0 < ch_held_of c (s_chans s) -> 0 < strong s c).
Proof.
  intros tr ka T n0 F s. split; [|split].
  - intros k H. exact (active_within_T tr ka T n0 k F H).
  - intros dt e p c. apply downgrade_exact_step. apply inv_t_final. apply inv_t_init.
  - intros c. apply busy_strong.
Qed.
Print Assumptions C09_idle_close_exact.

(* ---- per connection, both connections of a peer, across promotion ----
   EXACT characterisation: at the end of every feasible history, for EVERY open connection k of a
   peer — primary or secondary, also a former secondary that was promoted — the service's handle
   of k is Active if and only if the last keep-alive activity on k (independent specification,
   ghost log) is less than T old. (efinal = the set of open connections after the history.) *)
Theorem C09_active_iff_recent :
  forall tr ka T n0 k,
  feasible 2 env0 (init ka T n0) tr = true ->
  In k (e_live (efinal env0 tr)) ->
  let s := final (init ka T n0) tr in
  exists t, kfind k (s_act s) = Some t /\ t <= s_now s /\
            (handle_active (s_ctxs s) k = true <-> s_now s < t + s_T s).
Proof. exact active_iff_recent. Qed.
Print Assumptions C09_active_iff_recent.

(* a tracked connection always has an Active handle (feasible histories) *)
Theorem C09_tracked_is_active :
  forall tr ka T n0 k t,
  feasible 2 env0 (init ka T n0) tr = true ->
  kfind k (s_last (final (init ka T n0) tr)) = Some t ->
  handle_active (s_ctxs (final (init ka T n0) tr)) k = true.
Proof.
  intros tr ka T n0 k t F. apply (ex_trk _ _ (exact_final tr env0 (init ka T n0) (exact_init ka T n0) F)).
Qed.
Print Assumptions C09_tracked_is_active.

(* the view lists exactly the open connections in establishment order (primary = oldest), and an
   open_substream of a keep-alive protocol counts as activity for the oldest open connection —
   after the primary has closed that is the former secondary: its timeout is re-armed by opens
   from then on *)
Theorem C09_view_is_live :
  forall tr ka T n0 p,
  feasible 2 env0 (init ka T n0) tr = true ->
  conn_ids (s_ctxs (final (init ka T n0) tr)) p = live_of p (e_live (efinal env0 tr)).
Proof. exact view_final. Qed.
Print Assumptions C09_view_is_live.

Theorem C09_open_counts_for_primary :
  forall e s p k,
  conn_inv e (s_ctxs s) (s_pend s) -> ka_activity_of s (EOpen p) = Some k ->
  fst k = p /\ hd_error (live_of p (e_live e)) = Some (snd k) /\ s_ka s = true.
Proof. exact open_counts_for_primary. Qed.
Print Assumptions C09_open_counts_for_primary.

(* activity on one connection (or no activity at all) leaves the recorded time, the ghost log and
   an Active handle of every other connection untouched — in particular those of the peer's other
   connection, and those of the secondary while the primary is being closed (promotion) *)
Theorem C09_other_connection_untouched :
  forall e s dt i k,
  conn_inv e (s_ctxs s) (s_pend s) -> ev_ok 2 e s i = true ->
  ka_activity_of (with_now s (s_now s + dt)) i <> Some k -> (forall p c, i = EClosed p c -> k <> (p, c)) ->
  kfind k (s_last (fst (mid s dt i))) = kfind k (s_last s) /\
  kfind k (s_act (fst (mid s dt i))) = kfind k (s_act s) /\
  (handle_active (s_ctxs s) k = true -> handle_active (s_ctxs (fst (mid s dt i))) k = true).
Proof. exact other_connection_untouched. Qed.
Print Assumptions C09_other_connection_untouched.

(* non-vacuity of the promotion statement: T = 300; connections 1 and 2 of peer 0 at time 0; the
   primary closes at 100; an open at 200 goes to connection 2 and re-arms it: polls at 400 (re-arm)
   and 600 (downgrade at 200 + 300 = 500 <= 600) *)
Example C09_nonvacuous_promotion :
  let tr := [(0, EEst 0 1); (0, EEst 0 2); (100, EClosed 0 1); (100, EOpen 0); (200, ENone); (200, ENone)] in
  feasible 2 env0 (init true 300 0) tr = true /\
  concat (run (init true 300 0) tr) = [OEst 0; ORet 0 0; OCmd 2 0; ODown 0 2] /\
  concat (run (init true 300 0) (firstn 5 tr)) = [OEst 0; ORet 0 0; OCmd 2 0].
Proof. vm_compute. repeat split; reflexivity. Qed.

(* ---- several protocols with their own keep-alive timeouts on one connection (Multi.v) ----
   THE CONNECTION CLOSES ONLY WHEN ALL HAVE LET GO, AND THEN IT DOES. At the end of every feasible
   history of the composition (any number of services, any keep-alive flags, any timeouts T_j),
   for every open connection (p, c): the command channel of c has no strong sender left — the
   connection task's next() returns None and the connection closes — if and only if EVERY
   service has let go of it: its own last keep-alive activity on (p, c) (independent
   specification) is at least its own T_j old, none of its keep-alive substreams lives on c and
   none of its opens is queued or in flight on c. Each service keeps its configured (flag, T_j),
   and all clocks agree. *)
Theorem C09_multi_closed_iff_all_let_go :
  forall tr cap cfg n0 p c,
  mfeasible 2 env0 (minit cap cfg n0) tr = true -> In (p, c) (e_live (mefinal env0 tr)) ->
  let m := mfinal (minit cap cfg n0) tr in
  (mstrong (m_svcs m) c = 0 <-> Forall (fun s => let_go s (p, c)) (m_svcs m)) /\
  map (fun s => (s_ka s, s_T s)) (m_svcs m) = cfg /\
  Forall (fun s => s_now s = elapsed tr) (m_svcs m).
Proof. exact multi_closed_iff. Qed.
Print Assumptions C09_multi_closed_iff_all_let_go.

(* each service inside the composition: for every open connection its handle is Active exactly
   while ITS last keep-alive activity is less than ITS timeout old *)
Theorem C09_multi_active_iff_recent :
  forall tr cap cfg n0 s k,
  mfeasible 2 env0 (minit cap cfg n0) tr = true ->
  In s (m_svcs (mfinal (minit cap cfg n0) tr)) -> In k (e_live (mefinal env0 tr)) ->
  exists t, kfind k (s_act s) = Some t /\ t <= s_now s /\
            (handle_active (s_ctxs s) k = true <-> s_now s < t + s_T s).
Proof. exact multi_active_iff. Qed.
Print Assumptions C09_multi_active_iff_recent.

(* next() of the connection task: None exactly when the queue is empty and no strong sender is left *)
Theorem C09_multi_next_none_iff :
  forall m dt c,
  In c (m_sets m) ->
  (snd (snd (mstep m dt (MNext c))) = NEnd <->
   qfind c (push_all 0 (m_q m) (fst (snd (mstep m dt (MNext c))))) = [] /\
   mstrong (m_svcs (fst (mstep m dt (MNext c)))) c = 0).
Proof. exact next_none_iff. Qed.
Print Assumptions C09_multi_next_none_iff.

(* non-vacuity: a keep-alive protocol with T = 300 and one with T = 500 on connection 1; polled at
   400 the first lets go (downgrade), the channel keeps the second one's strong sender (next() is
   Pending); polled at 600 the second lets go too: no strong sender, next() returns None *)
Example C09_multi_nonvacuous :
  let tr := [(0, MAll (EEst 0 1)); (400, MNext 1); (200, MNext 1)] in
  let m0 := minit 4 [(true, 300); (true, 500)] 0 in
  mfeasible 2 env0 m0 tr = true /\
  mrun m0 tr = [([[OEst 0]; [OEst 0]], NNo); ([[ODown 0 1]; []], NPending); ([[]; [ODown 0 1]], NEnd)] /\
  mstrong (m_svcs (mfinal m0 (firstn 2 tr))) 1 = 1 /\ mstrong (m_svcs (mfinal m0 tr)) 1 = 0.
Proof. vm_compute. repeat split; reflexivity. Qed.

(* ---- which substreams hold the connection: the name tables of ProtocolSet::new (Names.v) ----
   The connection decides whether an ACCEPTED INBOUND substream stores a lifetime permit by looking
   the negotiated name up in `keep_alives`. For every table of installed protocols with pairwise
   distinct names: every negotiable name — the main name and EVERY fallback name of a protocol —
   is classified with the keep-alive flag of the protocol it belongs to; a fallback name is
   reported to the protocol under its main name (so the TransportService counts it as activity);
   names outside the table are not offered. *)
Theorem C09_name_table_main :
  forall tbl pr,
  NoDup (all_names tbl) -> In pr tbl ->
  classify tbl (p_main pr) = Some (p_ka pr) /\ resolve tbl (p_main pr) = (p_main pr, None).
Proof. intros tbl pr ND HIn. split; [apply classify_main | apply resolve_main]; assumption. Qed.
Print Assumptions C09_name_table_main.

Theorem C09_name_table_fallback :
  forall tbl pr f,
  NoDup (all_names tbl) -> In pr tbl -> In f (p_fbs pr) ->
  classify tbl f = Some (p_ka pr) /\ resolve tbl f = (p_main pr, Some f).
Proof. exact classify_fallback. Qed.
Print Assumptions C09_name_table_fallback.

Theorem C09_name_table_nothing_else :
  forall tbl nm, NoDup (map p_main tbl) -> ~ In nm (all_names tbl) -> classify tbl nm = None.
Proof. exact classify_none. Qed.
Print Assumptions C09_name_table_nothing_else.

(* pinning the table: looking the flag up under the negotiated name itself (instead of resolving a
   fallback name to its protocol first) classifies the fallback names of a keep-alive protocol as
   "does not hold the connection" — a substream accepted over such a name would lose its permit *)
Theorem C09_name_table_own_name_lookup_refuted :
  exists tbl pr f,
  NoDup (all_names tbl) /\ In pr tbl /\ In f (p_fbs pr) /\
  classify tbl f = Some true /\ classify_by_own_name tbl f = Some false.
Proof.
  exists [mkP 2 [1] true; mkP 5 [] false], (mkP 2 [1] true), 1.
  vm_compute. repeat split; try (left; reflexivity); repeat constructor; cbn; intuition discriminate.
Qed.
Print Assumptions C09_name_table_own_name_lookup_refuted.

(* non-vacuity: T = 300; established at 0, an open at 200 (keep-alive protocol) moves the close
   from 300 to 500: polls at 400 (re-arm) and 600 (downgrade); the permit in flight keeps the
   channel alive, the failure answer releases it *)
Example C09_nonvacuous :
  let tr := [(0, EEst 0 1); (200, EOpen 0); (200, ENone); (200, ENone); (0, ESubFail 0)] in
  concat (run (init true 300 0) tr) = [OEst 0; ORet 0 0; OCmd 1 0; ODown 0 1; OFail 0 (Some 0)] /\
  strong (final (init true 300 0) (firstn 4 tr)) 1 = 1 /\
  strong (final (init true 300 0) tr) 1 = 0.
Proof. vm_compute. repeat split; reflexivity. Qed.

Example C09_nonvacuous_ping :
  let tr := [(0, EEst 0 1); (200, EOpen 0); (200, ENone)] in
  concat (run (init false 300 0) tr) = [OEst 0; ORet 0 0; OCmd 1 0; ODown 0 1].
Proof. vm_compute. reflexivity. Qed.

(* non-vacuity of the half-close statement: T = 300, inbound keep-alive substream at 0, write half
   shut at 200, handle downgraded at 400: the channel keeps exactly the substream's permit until
   the substream is dropped *)
Example C09_nonvacuous_half_close :
  let tr := [(0, EEst 0 1); (0, ESubIn 0 1 true); (200, EShutSub 1); (200, ENone)] in
  concat (run (init true 300 0) tr) = [OEst 0; OSub 0 None; ODown 0 1] /\
  strong (final (init true 300 0) tr) 1 = 1 /\
  strong (final (init true 300 0) (tr ++ [(0, EDropSub 1)])) 1 = 0.
Proof. vm_compute. repeat split; reflexivity. Qed.

(* ---- under the manager (coq/Link/C06_C08.v): the `feasible 2` hypothesis of the theorems above is
   discharged for a service whose connection events are the reports of a history of the composed
   system manager + protocol reports of coq/C06/Compose08.v (C06_provides_C08_feasible); left are
   `xtrace` (the manager's environment) and `feasible_rest` (the connection task's side: substream
   notifications for open connections, answers for opens in flight). ---- *)
Theorem C09_idle_close_exact_under_manager :
  forall (L : V.Mgr.Model.limits) (xs : list V.C06.Compose08.xev) tr ka T n0,
  V.C06.Compose08.xtrace L V.C06.Compose08.x0 xs ->
  filter V.C06.Compose08.is_conn (map snd tr) = V.C06.Compose08.xproj xs ->
  V.C06.Compose08.feasible_rest env0 (init ka T n0) tr = true ->
  let s := final (init ka T n0) tr in
  (forall k, handle_active (s_ctxs s) k = true ->
     exists t, kfind k (s_last s) = Some t /\ kfind k (s_act s) = Some t /\
               t <= s_now s /\ s_now s < t + s_T s) /\
  (forall dt e p c, on_time s dt -> 0 < s_T s -> In (ODown p c) (snd (step s dt e)) ->
     exists t, kfind (p, c) (s_act (fst (step s dt e))) = Some t /\
               s_now (fst (step s dt e)) = t + s_T (fst (step s dt e))) /\
  (forall c, 0 < pend_on c (s_pend s) \/ 0 < ch_held_of c (s_chans s) -> 0 < strong s c).
Proof.
  intros L xs tr ka T n0 HX HP HR.
  exact (C09_idle_close_exact tr ka T n0 (V.Link.C06_C08.feasible_under_manager L xs tr ka T n0 HX HP HR)).
Qed.
Print Assumptions C09_idle_close_exact_under_manager.

Theorem C09_rearm_single_under_manager :
  forall (L : V.Mgr.Model.limits) (xs : list V.C06.Compose08.xev) tr ka T n0 k,
  V.C06.Compose08.xtrace L V.C06.Compose08.x0 xs ->
  filter V.C06.Compose08.is_conn (map snd tr) = V.C06.Compose08.xproj xs ->
  V.C06.Compose08.feasible_rest env0 (init ka T n0) tr = true ->
  (cnt k (s_timers (final (init ka T n0) tr)) <= 1)%nat.
Proof.
  intros L xs tr ka T n0 k HX HP HR.
  exact (C09_rearm_single tr ka T n0 k (V.Link.C06_C08.feasible_under_manager L xs tr ka T n0 HX HP HR)).
Qed.
Print Assumptions C09_rearm_single_under_manager.

Theorem C09_tracked_is_active_under_manager :
  forall (L : V.Mgr.Model.limits) (xs : list V.C06.Compose08.xev) tr ka T n0 k t,
  V.C06.Compose08.xtrace L V.C06.Compose08.x0 xs ->
  filter V.C06.Compose08.is_conn (map snd tr) = V.C06.Compose08.xproj xs ->
  V.C06.Compose08.feasible_rest env0 (init ka T n0) tr = true ->
  kfind k (s_last (final (init ka T n0) tr)) = Some t ->
  handle_active (s_ctxs (final (init ka T n0) tr)) k = true.
Proof.
  intros L xs tr ka T n0 k t HX HP HR.
  exact (C09_tracked_is_active tr ka T n0 k t (V.Link.C06_C08.feasible_under_manager L xs tr ka T n0 HX HP HR)).
Qed.
Print Assumptions C09_tracked_is_active_under_manager.

Theorem C09_view_is_live_under_manager :
  forall (L : V.Mgr.Model.limits) (xs : list V.C06.Compose08.xev) tr ka T n0 p,
  V.C06.Compose08.xtrace L V.C06.Compose08.x0 xs ->
  filter V.C06.Compose08.is_conn (map snd tr) = V.C06.Compose08.xproj xs ->
  V.C06.Compose08.feasible_rest env0 (init ka T n0) tr = true ->
  conn_ids (s_ctxs (final (init ka T n0) tr)) p = live_of p (e_live (efinal env0 tr)).
Proof.
  intros L xs tr ka T n0 p HX HP HR.
  exact (C09_view_is_live tr ka T n0 p (V.Link.C06_C08.feasible_under_manager L xs tr ka T n0 HX HP HR)).
Qed.
Print Assumptions C09_view_is_live_under_manager.
