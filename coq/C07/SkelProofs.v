(* C07 — the extracted skeleton means what the behaviour model says (see Skel.v). *)
From Coq Require Import List Arith NArith Bool Lia.
From V.gen Require Import ConnSkel.
From V.Ts Require Names.
From V.C07 Require Import Model Proofs Skel.
Import ListNotations.
Open Scope N_scope.

(* ------------------------------------------------------------------------------------------ *)
(* the loops                                                                                   *)

(* what `skel_step` must say for `cstep t e` *)
Definition agrees (r : list note * option res) (t : task) (e : cev) : Prop :=
  let c := cstep t e in
  fst r = snd c /\
  (snd r = None <-> gone (fst c) = None) /\
  (snd r = Some RErr <-> gone (fst c) <> None /\ snd (report_closed (alive t) (mgr_up t)) = false) /\
  (snd r = Some (RVal 0) <-> gone (fst c) <> None /\ snd (report_closed (alive t) (mgr_up t)) = true).

Ltac split_report t :=
  let ns := fresh "ns" in let ok := fresh "ok" in
  destruct (report_closed (alive t) (mgr_up t)) as [ns ok] eqn:?; destruct ok.

Ltac finish_agree :=
  repeat split; cbn [fst snd gone]; try reflexivity; try congruence;
  try (intros [? ?]; congruence); try (intros ?; split; congruence);
  try (intros ?; discriminate); try (intros [? ?]; discriminate).

Lemma range_nth {A} (l : list A) i d : (i <? length l)%nat = false -> nth i l d = d.
Proof. intro H. apply Nat.ltb_ge in H. now apply nth_overflow. Qed.

Lemma agrees_common start hs t e :
  gone t = None -> in_range t e = true ->
  (* the three select! branches, whatever they are called in the transport *)
  forall r, skel_step start hs t e = r ->
  (match e with
   | EYamux (YSub true) | ECmd COpen | ENeg NegFailAnon => r = ([], None)
   | EYamux _ | ECmd _ =>
       let '(ns, ok) := report_closed (alive t) (mgr_up t) in
       r = (ns, Some (if ok then RVal 0 else RErr))
   | ENeg (NegOk i ob) => r = (fst (report_sub_open (alive t) i ob), None)
   | ENeg (NegFail i) => r = (fst (report_sub_fail (alive t) i), None)
   | _ => True
   end) ->
  agrees r t e.
Proof.
  intros G R r _ H. unfold agrees, cstep. rewrite G.
  destruct e as [[[|]| |]|[i ob|i|]|[| |]|i|]; try discriminate R;
    cbn [finish h_yamux h_neg h_cmd closing] in *;
    try (subst r; cbn [fst snd]; finish_agree; fail).
  all: try (unfold closing; split_report t; subst r; cbn [fst snd finish gone]; finish_agree; fail).
Qed.

Ltac skel_case t R :=
  cbv -[report_closed report_sub_open report_sub_fail Nat.ltb length alive mgr_up app];
  try (cbv -[Nat.ltb length alive] in R; rewrite R);
  repeat match goal with
         | |- context [report_closed ?a ?b] => destruct (report_closed a b) as [? [|]]
         | |- context [report_sub_open ?a ?b ?c] => destruct (report_sub_open a b c) as [? [|]]
         | |- context [report_sub_fail ?a ?b] => destruct (report_sub_fail a b) as [? [|]]
         end;
  cbn [app]; rewrite ?app_nil_r; reflexivity.

Ltac skel_all t e R :=
  destruct e as [[[|]| |]|[i ob|i|]|[| |]|i|]; try discriminate R; try exact I; skel_case t R.

(* TCP: start + the three handler functions *)
Theorem tcp_skel_is_cstep t e :
  gone t = None -> in_range t e = true ->
  agrees (skel_step tcp_start tcp_handlers t e) t e.
Proof. intros G R. eapply agrees_common; eauto. skel_all t e R. Qed.

Theorem ws_skel_is_cstep t e :
  gone t = None -> in_range t e = true ->
  agrees (skel_step ws_start [] t e) t e.
Proof. intros G R. eapply agrees_common; eauto. skel_all t e R. Qed.

Theorem quic_skel_is_cstep t e :
  gone t = None -> in_range t e = true ->
  agrees (skel_step quic_start [] t e) t e.
Proof. intros G R. eapply agrees_common; eauto. skel_all t e R. Qed.

(* the `.expect("protocol to exist")` of protocol_codec: a substream negotiated for a protocol that is not
   in the set would kill the task without any report — in all three loops *)
Lemma skel_panics_out_of_range t i ob :
  (i <? length (alive t))%nat = false ->
  snd (skel_step tcp_start tcp_handlers t (ENeg (NegOk i ob))) = Some RPanic /\
  snd (skel_step ws_start [] t (ENeg (NegOk i ob))) = Some RPanic /\
  snd (skel_step quic_start [] t (ENeg (NegOk i ob))) = Some RPanic.
Proof.
  intro H. repeat split; cbv -[Nat.ltb length alive mgr_up app]; rewrite H; reflexivity.
Qed.

Lemma guards_on_negotiation_branch_only :
  guards_ok tcp_start = true /\ guards_ok ws_start = true /\ guards_ok quic_start = true /\
  map fst tcp_start = [1; 2; 3] /\ map fst ws_start = [1; 2; 3] /\ map fst quic_start = [1; 2; 3] /\
  tcp_skel_complete = true /\ ws_skel_complete = true /\ quic_skel_complete = true.
Proof. repeat split; reflexivity. Qed.

(* ------------------------------------------------------------------------------------------ *)
(* the name tables (coq/Ts/Names.v, tied to ProtocolSet::new by C08's kind-6 stream): every name the *)
(* set advertises for negotiation belongs to a protocol of the set                             *)

Import Names.

Fixpoint index_of (m : N) (tbl : list proto) : option nat :=
  match tbl with
  | [] => None
  | pr :: r => if p_main pr =? m then Some 0%nat else option_map S (index_of m r)
  end.

(* the protocol (index in the set) a negotiated name belongs to *)
Definition proto_index (tbl : list proto) (nm : N) : option nat := index_of (fst (resolve tbl nm)) tbl.

Lemma index_of_find m tbl pr : find_main tbl m = Some pr -> exists i, index_of m tbl = Some i /\ (i < length tbl)%nat.
Proof.
  unfold find_main. induction tbl as [|h r IH]; cbn [find index_of length]; [discriminate|].
  destruct (p_main h =? m); [intros _; exists 0%nat; split; [reflexivity|lia]|].
  intro H. destruct (IH H) as [i [E L]]. exists (S i). rewrite E. split; [reflexivity|lia].
Qed.

Lemma codec_total tbl nm :
  NoDup (all_names tbl) -> classify tbl nm <> None ->
  exists i, proto_index tbl nm = Some i /\ (i < length tbl)%nat.
Proof.
  intros ND C. pose proof (NoDup_app_l _ _ ND) as NDM.
  destruct (in_dec N.eq_dec nm (all_names tbl)) as [HIn|HN]; [|exfalso; apply C; now apply classify_none].
  unfold proto_index. unfold all_names in HIn. apply in_app_or in HIn. destruct HIn as [HIn|HIn].
  - apply in_map_iff in HIn. destruct HIn as [pr [<- HIn]].
    rewrite (resolve_main tbl pr ND HIn). cbn [fst].
    apply (index_of_find _ _ pr). now apply find_main_in.
  - apply in_map_iff in HIn. destruct HIn as [fm [<- HIn]].
    destruct (fallback_resolves tbl NDM fm HIn) as [pr [E [HP HF]]].
    destruct (classify_fallback tbl pr (fst fm) ND HP HF) as [_ R]. rewrite R. cbn [fst].
    apply (index_of_find _ _ pr). now apply find_main_in.
Qed.

(* ... so a substream negotiated under an advertised name is an event the loops handle without panic *)
Lemma advertised_in_range tbl nm t ob :
  NoDup (all_names tbl) -> classify tbl nm <> None -> length (alive t) = length tbl ->
  exists i, proto_index tbl nm = Some i /\ in_range t (ENeg (NegOk i ob)) = true.
Proof.
  intros ND C L. destruct (codec_total tbl nm ND C) as [i [E Hi]]. exists i. split; [exact E|].
  cbn [in_range]. apply Nat.ltb_lt. lia.
Qed.

(* ------------------------------------------------------------------------------------------ *)
(* accept futures of the four transports                                                       *)

Lemma accept_skel_is_accept a al mup :
  a = tcp_accept \/ a = ws_accept \/ a = quic_accept \/ a = webrtc_accept ->
  accept_skel a al = (snd (accept al mup), Some true) /\
  fst (accept al mup) = Some (mkTask al mup None).
Proof.
  intros H. unfold accept. rewrite report_established_spec.
  destruct H as [->|[->|[->| ->]]]; cbv -[report_established alive_idx map];
    rewrite report_established_spec; split; reflexivity.
Qed.

(* ------------------------------------------------------------------------------------------ *)
(* the reports of ProtocolSet                                                                  *)

Lemma pset_closed_is_report_closed al mup :
  pset_result al mup pset_report_connection_closed = Some (report_closed al mup).
Proof.
  unfold pset_result, pset_report_connection_closed, report_closed.
  cbn -[send_all]. destruct (send_all NClosed al) as [ns ok]. cbn [fst snd].
  destruct mup; cbn; [|reflexivity].
  destruct ok; reflexivity.
Qed.

Lemma pset_established_is_report_established al mup :
  pset_result al mup pset_report_connection_established = Some (report_established al).
Proof.
  unfold pset_result, pset_report_connection_established, report_established.
  cbn -[send_all]. destruct (send_all NEst al) as [ns ok]. reflexivity.
Qed.

(* what the semantics would say of the seeded variant that tells the manager while the sends to the
   protocols are still pending: the manager's notice comes first (so the tie is not vacuous) *)
Lemma pset_manager_first_differs :
  pset_result [true] true (ACons (AFanout 2) (ACons (AMgr HTry) (ACons (ADrain true) (ACons ATailErr ANil))))
  = Some ([NMgrClosed; NClosed 0], true).
Proof. reflexivity. Qed.

(* ------------------------------------------------------------------------------------------ *)
(* WebRTC                                                                                      *)

Lemma webrtc_exits_report :
  webrtc_loop_found = true /\ webrtc_loop_exits <> [] /\
  forallb webrtc_exit_ok webrtc_loop_exits = true /\
  ends_with_closed_report webrtc_on_connection_closed = true.
Proof. repeat split; try reflexivity. discriminate. Qed.

(* ------------------------------------------------------------------------------------------ *)
(* Litep2p::next_event                                                                         *)

Lemma app_map_closed_established :
  app_map TEV_CLOSED = Some APP_CLOSED /\ app_map TEV_ESTABLISHED = Some APP_ESTABLISHED /\
  (forall v, In v transport_event_variants -> app_map v = Some APP_CLOSED -> v = TEV_CLOSED) /\
  (forall v, In v transport_event_variants -> app_map v = Some APP_ESTABLISHED -> v = TEV_ESTABLISHED) /\
  In TEV_CLOSED transport_event_variants /\ In TEV_ESTABLISHED transport_event_variants /\
  In APP_CLOSED app_event_variants /\ In APP_ESTABLISHED app_event_variants /\
  NoDup (map fst app_map_arms).
Proof.
  repeat split; try reflexivity.
  - intros v H. cbn in H. repeat (destruct H as [<-|H]; [cbv; intro E; (reflexivity || discriminate E)|]). destruct H.
  - intros v H. cbn in H. repeat (destruct H as [<-|H]; [cbv; intro E; (reflexivity || discriminate E)|]). destruct H.
  - cbv; tauto.
  - cbv; tauto.
  - cbv; tauto.
  - cbv; tauto.
  - cbn. repeat constructor; cbn; intuition discriminate.
Qed.
