(* C07 — the statement-level skeleton of the connection event loops, read from the Rust source on
   every check (coq/gen/ConnSkel.v, tools/gen_c07_skel.py), and its meaning.

   The generated file says, for every `tokio::select!` branch and every match arm of the loops of
   the TCP, WebSocket and QUIC transports, which of the functions the property depends on are called,
   in which order, and what is done with their result (`?`, returned, logged, dropped).  This file
   gives these terms a semantics over the task model of coq/C07/Model.v (`skel_step`): one event is
   handled by the branch whose head matches its kind, by the first arm whose pattern matches it.
   SkelProofs.v proves that `skel_step` of the EXTRACTED terms is `cstep` — for each of the three
   transports — so the behaviour model is no longer a separate transcription of the loops: a report
   call added to or removed from an arm, an error that is propagated instead of logged, a changed
   order, a new arm, make the proof fail.

   Likewise for the accept futures of the four transports (`accept_skel` against Model.accept), for
   the two reports of ProtocolSet (`pset_run` against report_established / report_closed: the
   manager is told after the sends to the protocols have been awaited), for the one place through
   which the WebRTC loop ends, and for the mapping of the manager's events to the application's.
   Definitions only. *)
From Coq Require Import List NArith Bool PeanoNat.
From V.gen Require Import ConnSkel.
From V.C07 Require Import Model.
Import ListNotations.
Open Scope N_scope.

(* what a function / a loop iteration ends with *)
Inductive res :=
| RVal (v : N)      (* returned Ok(v): 0 false or (), 1 true, 2 () as a tail expression *)
| RErr              (* returned Err *)
| RPanic            (* `.expect` on a missing protocol: the task dies without a word *)
| RStuck.           (* the skeleton contains something this semantics does not know *)

(* which data an event carries into its arm *)
Definition ev_permit (e : cev) : bool := match e with EYamux (YSub b) => b | _ => true end.
Definition ev_named (e : cev) : option nat := match e with ENeg (NegFail i) => Some i | _ => None end.
Definition ev_opened (e : cev) : option (nat * bool) :=
  match e with ENeg (NegOk i ob) => Some (i, ob) | _ => None end.

(* select! branch head of an event: 1 the connection, 2 pending_substreams, 3 commands *)
Definition head_of (e : cev) : N :=
  match e with EYamux _ => 1 | ENeg _ => 2 | ECmd _ => 3 | _ => 0 end.

(* does the event match the arm pattern (codes of tools/gen_c07_skel.py: 1 Some(Ok(stream))
   2 Some(Err(error)) 3 None 4 Err(error) 5 Ok(substream) 6 Some(OpenSubstream{..}) 7 Some(ForceClose)
   8 (Some(protocol), Some(substream_id)) 9 _ 10 Ok((send_stream, receive_stream))
   11 None | Some(ForceClose)) *)
Definition pat_matches (e : cev) (p : N) : bool :=
  match e with
  | EYamux (YSub _) => (p =? 1) || (p =? 10) || (p =? 9)
  | EYamux YErr => (p =? 2) || (p =? 4) || (p =? 9)
  | EYamux YEof => (p =? 3) || (p =? 4) || (p =? 9)
  | ENeg (NegOk _ _) => (p =? 5) || (p =? 9)
  | ENeg (NegFail _) => (p =? 4) || (p =? 8) || (p =? 9)
  | ENeg NegFailAnon => (p =? 4) || (p =? 9)
  | ECmd COpen => (p =? 6) || (p =? 9)
  | ECmd CForce => (p =? 7) || (p =? 11) || (p =? 9)
  | ECmd CNone => (p =? 3) || (p =? 11) || (p =? 9)
  | _ => false
  end.

Definition handled (h : handling) (ns : list note) (ok : bool) : list note * option res :=
  match h with
  | HTry => (ns, if ok then None else Some RErr)
  | HRet => (ns, Some (if ok then RVal 0 else RErr))
  | HLog | HDrop | HBare => (ns, None)
  end.

Section Interp.
  (* `self.handle_..(..).await` from `start`: the handler runs on the same event *)
  Variable call_handler : N -> list note * res.
  Variable t : task.
  Variable e : cev.

  Fixpoint run_act (a : act) : list note * option res :=
    match a with
    | ACall f h =>
        if f =? 1 then
          let '(ns, ok) := report_closed (alive t) (mgr_up t) in handled h ns ok
        else if f =? 3 then
          match ev_opened e with
          | Some (i, ob) => let '(ns, ok) := report_sub_open (alive t) i ob in handled h ns ok
          | None => ([], Some RStuck)
          end
        else if f =? 4 then
          match ev_named e with
          | Some i => let '(ns, ok) := report_sub_fail (alive t) i in handled h ns ok
          | None => ([], Some RStuck)
          end
        else if f =? 8 then
          (* protocol_codec(&protocol): `.expect("protocol to exist")` *)
          match ev_opened e with
          | Some (i, _) => if (i <? length (alive t))%nat then ([], None) else ([], Some RPanic)
          | None => ([], Some RStuck)
          end
        else if (5 <=? f) && (f <=? 7) then
          let '(ns, r) := call_handler f in
          match h, r with
          | HTry, RVal _ => (ns, None)
          | HTry, x => (ns, Some x)
          | _, _ => (ns, Some RStuck)
          end
        else ([], Some RStuck)
    | AElse f body =>
        if f =? 2 then
          if ev_permit e then ([], None)
          else match run_acts body with
               | (ns, None) => (ns, Some RStuck)     (* an else block must diverge *)
               | x => x
               end
        else ([], Some RStuck)
    | AIfNamed body => match ev_named e with Some _ => run_acts body | None => ([], None) end
    | AIfStop f =>
        let '(ns, r) := call_handler f in
        match r with
        | RVal 1 => (ns, Some (RVal 0))      (* the handler asked to stop: return Ok(()) *)
        | RVal _ => (ns, None)
        | x => (ns, Some x)                  (* `?` *)
        end
    | APush => ([], None)
    | ARet v => ([], Some (RVal v))
    | ATail v => ([], Some (RVal v))
    | AMatch _ arms => run_arms arms
    | _ => ([], Some RStuck)
    end
  with run_acts (l : acts) : list note * option res :=
    match l with
    | ANil => ([], None)
    | ACons a r =>
        let '(n1, o1) := run_act a in
        match o1 with
        | Some x => (n1, Some x)
        | None => let '(n2, o2) := run_acts r in (n1 ++ n2, o2)
        end
    end
  with run_arms (m : marms) : list note * option res :=
    match m with
    | MNil => ([], Some RStuck)
    | MCons p body r => if pat_matches e p then run_acts body else run_arms r
    end.
End Interp.

Fixpoint assoc_n {A} (k : N) (l : list (N * A)) : option A :=
  match l with [] => None | (k', v) :: r => if k' =? k then Some v else assoc_n k r end.

Definition no_handler (_ : N) : list note * res := ([], RStuck).

(* a handler function: its body on the event; it must end in a return value *)
Definition run_handler (hs : list (N * acts)) (t : task) (e : cev) (f : N) : list note * res :=
  match assoc_n f hs with
  | None => ([], RStuck)
  | Some body =>
      match run_acts no_handler t e body with
      | (ns, Some r) => (ns, r)
      | (ns, None) => (ns, RStuck)
      end
  end.

(* one iteration of `loop { tokio::select! { .. } }`: None = the loop goes on *)
Definition skel_step (start : list branch) (hs : list (N * acts)) (t : task) (e : cev)
  : list note * option res :=
  match assoc_n (head_of e) start with
  | None => ([], Some RStuck)
  | Some (_, body) => run_acts (run_handler hs t e) t e body
  end.

(* the event is one the real loop can see: a negotiated substream belongs to a protocol of the set
   (multistream-select only picks names the set offered; composition with the name tables:
   SkelProofs.codec_total) *)
Definition in_range (t : task) (e : cev) : bool :=
  match e with
  | ENeg (NegOk i _) => (i <? length (alive t))%nat
  | EDie _ | EMgrDie => false
  | _ => true
  end.

(* the guard of a branch (`, if !self.pending_substreams.is_empty()`) is on the branch of negotiation
   results and on no other *)
Definition guards_ok (start : list branch) : bool :=
  forallb (fun b : branch => Bool.eqb (fst (snd b)) (fst b =? 2)) start.

(* ------------------------------------------------------------------------------------------ *)
(* accept futures                                                                              *)

(* `report_connection_established(..).await?`, then the loop is spawned and its result, if any, is
   not looked at, then Ok(()): (notes, Some spawned | None = Err) *)
Definition spawn_ok (body : acts) : bool :=
  match body with
  | ACons (ACall 11 (HLog | HDrop | HBare)) ANil => true
  | _ => false
  end.

Definition accept_skel (a : acts) (al : list bool) : list note * option bool :=
  match a with
  | ACons (ACall 10 HTry) (ACons (ASpawn body) (ACons (ATail 2) ANil)) =>
      let '(ns, ok) := report_established al in
      if ok then (ns, Some (spawn_ok body)) else (ns, None)
  | _ => ([], None)
  end.

(* ------------------------------------------------------------------------------------------ *)
(* the two reports of ProtocolSet                                                              *)

Record pst := mkPst {
  p_queued : list note * bool;    (* sends created by the fan-out and not awaited yet *)
  p_out : list note;              (* what has been sent, in order *)
  p_err : bool                    (* a protocol error was remembered *)
}.

Fixpoint pset_run (al : list bool) (mup : bool) (l : acts) (s : pst) : list note * option bool :=
  match l with
  | ANil => (p_out s, None)
  | ACons a r =>
      match a with
      | AFanout v =>
          if v =? 1 then pset_run al mup r (mkPst (send_all NEst al) (p_out s) (p_err s))
          else if v =? 2 then pset_run al mup r (mkPst (send_all NClosed al) (p_out s) (p_err s))
          else (p_out s, None)
      | ADrain rem =>
          pset_run al mup r (mkPst ([], true) (p_out s ++ fst (p_queued s))
                                   (p_err s || (rem && negb (snd (p_queued s)))))
      | AMgr HTry =>
          if mup then pset_run al mup r (mkPst (p_queued s) (p_out s ++ [NMgrClosed]) (p_err s))
          else (p_out s, Some false)
      | ATailErr => (p_out s, Some (negb (p_err s)))
      | ATail 2 => (p_out s, Some true)
      | _ => (p_out s, None)
      end
  end.

Definition pset_result (al : list bool) (mup : bool) (l : acts) : option (list note * bool) :=
  match pset_run al mup l (mkPst ([], true) [] false) with
  | (ns, Some ok) => Some (ns, ok)
  | (_, None) => None
  end.

(* ------------------------------------------------------------------------------------------ *)
(* WebRTC: the loop ends only through on_connection_closed                                     *)

Definition webrtc_exit_ok (s : N * (N * bool)) : bool := (fst s =? 1) && (fst (snd s) =? 9) && snd (snd s).

(* the body of on_connection_closed: whatever comes first cannot leave the function (no AUnknown,
   no return, no `?`), and the last statement is the closed report, whose result is dropped *)
Fixpoint harmless (l : acts) : bool :=
  match l with
  | ANil => true
  | ACons a r =>
      (match a with
       | ACall 4 (HDrop | HLog) => true
       | AClosure b => harmless b
       | AFor b => harmless b
       | ACond b1 b2 => harmless b1 && harmless b2
       | AAwait => true
       | _ => false
       end) && harmless r
  end.

Fixpoint ends_with_closed_report (l : acts) : bool :=
  match l with
  | ANil => false
  | ACons (ACall 1 HDrop) ANil => true
  | ACons a r =>
      (match a with
       | ACall 4 (HDrop | HLog) => true
       | AClosure b => harmless b
       | AFor b => harmless b
       | ACond b1 b2 => harmless b1 && harmless b2
       | AAwait => true
       | _ => false
       end) && ends_with_closed_report r
  end.

(* ------------------------------------------------------------------------------------------ *)
(* Litep2p::next_event                                                                         *)

Definition app_map (tev : N) : option N :=
  match assoc_n tev app_map_arms with
  | Some r => r
  | None => None        (* the `_ => {}` arm *)
  end.
