(* C07 — theorems about loop-level runs (coq/C07/Loop.v). *)
From Coq Require Import List Arith NArith Bool Lia.
From V.gen Require Import ConnSkel.
From V.Ts Require Names.
From V.C07 Require Import Model Proofs Skel SkelProofs Loop.
Import ListNotations.
Open Scope N_scope.

Lemma crun_app t a b :
  crun t (a ++ b) = let '(t1, n1) := crun t a in let '(t2, n2) := crun t1 b in (t2, n1 ++ n2).
Proof.
  revert t. induction a as [|e r IH]; intro t; cbn [crun app].
  - destruct (crun t b); reflexivity.
  - destruct (cstep t e) as [t1 n1]. rewrite IH.
    destruct (crun t1 r) as [t2 n2]. destruct (crun t2 b) as [t3 n3]. now rewrite app_assoc.
Qed.

(* ------------------------------------------------------------------------------------------ *)
(* a loop-level run IS a run of the loop model: all theorems about crun apply                  *)

Fixpoint all_events (s : lst) (ops : list lop) : list cev :=
  match ops with
  | [] => []
  | o :: r => events_of s o ++ all_events (fst (lstep s o)) r
  end.

Lemma lrun_is_crun ops : forall s,
  l_task (fst (lrun s ops)) = fst (crun (l_task s) (all_events s ops)) /\
  snd (lrun s ops) = snd (crun (l_task s) (all_events s ops)).
Proof.
  induction ops as [|o r IH]; intro s; cbn [lrun all_events crun]; [split; reflexivity|].
  rewrite crun_app. unfold lstep at 1 3.
  destruct (crun (l_task s) (events_of s o)) as [t1 n1] eqn:E1. cbn [fst].
  specialize (IH (mkL t1 (handles_after s o) (l_tbl s) (pend_after s o))). cbn [l_task] in IH.
  unfold lstep. rewrite E1.
  destruct (lrun (mkL t1 (handles_after s o) (l_tbl s) (pend_after s o)) r) as [s2 n2]. cbn [fst snd] in *.
  destruct IH as [IH1 IH2].
  destruct (crun t1 (all_events (mkL t1 (handles_after s o) (l_tbl s) (pend_after s o)) r)) as [t3 n3]. cbn [fst snd] in *.
  split; congruence.
Qed.

(* from accept on: the notes of accept, of the first polls and of all operations are the notes of one
   connection run of Proofs.conn_run *)
Definition whole_run (al : list bool) (fb : N) (ops : list lop) : lst * list note :=
  let '(s0, n0) := linit al fb in
  let '(s1, n1) := lsettle s0 in
  let '(s2, n2) := lrun s1 ops in
  (s2, n0 ++ n1 ++ n2).

Lemma whole_run_is_conn_run al fb ops :
  exists es, conn_run al true es = (Some (l_task (fst (whole_run al fb ops))), snd (whole_run al fb ops)).
Proof.
  unfold whole_run, linit, conn_run. rewrite accept_spec.
  set (s0 := mkL (mkTask al true None) al (mk_tbl (length al) fb) 0).
  unfold lsettle.
  destruct (crun (l_task s0) (settle_events s0)) as [t1 n1] eqn:E1.
  set (s1 := mkL t1 (l_handle s0) (l_tbl s0) (l_pend s0)).
  destruct (lrun_is_crun ops s1) as [H1 H2].
  destruct (lrun s1 ops) as [s2 n2]. cbn [fst snd] in *.
  exists (settle_events s0 ++ all_events s1 ops).
  rewrite crun_app. change (l_task s0) with (mkTask al true None) in E1. rewrite E1.
  change (l_task s1) with t1 in H1, H2.
  destruct (crun t1 (all_events s1 ops)) as [t3 n3]. cbn [fst snd] in *. subst. reflexivity.
Qed.

(* exactly once, for every script of operations: if the loop has ended, everyone was told *)
Theorem loop_lifecycle al fb ops :
  let r := whole_run al fb ops in
  let t' := l_task (fst r) in
  gone t' <> None ->
  (forall i, cnt (is_est_of i) (snd r) = if nth i al false then 1%nat else 0%nat) /\
  cnt is_mgr_closed (snd r) = (if mgr_up t' then 1%nat else 0%nat) /\
  (forall i, cnt (is_closed_of i) (snd r) = if nth i (alive t') false then 1%nat else 0%nat) /\
  (forall i, nth i (alive t') false = true -> nth i al false = true).
Proof.
  intros r t' G. destruct (whole_run_is_conn_run al fb ops) as [es E].
  destruct (lifecycle al true es _ _ E G) as [_ [A [B [C D]]]]. auto.
Qed.

(* ... and while it runs nobody has been told closed *)
Theorem loop_silent_while_running al fb ops :
  let r := whole_run al fb ops in
  gone (l_task (fst r)) = None -> cnt is_close_note (snd r) = 0%nat.
Proof.
  intros r G. destruct (whole_run_is_conn_run al fb ops) as [es E].
  unfold conn_run in E. rewrite accept_spec in E.
  destruct (crun (mkTask al true None) es) as [t1 n1] eqn:E1. inversion E as [[Ht Hn]].
  fold r in Ht, Hn. rewrite <- Hn, cnt_app.
  destruct (at_most_once (mkTask al true None) es eq_refl) as [_ [_ H]].
  rewrite E1 in H. cbn [fst snd] in H. rewrite H; [|now rewrite Ht].
  rewrite cnt_zero; [reflexivity|]. intros x Hx. apply in_map_iff in Hx. destruct Hx as [i [<- _]]. reflexivity.
Qed.

(* ------------------------------------------------------------------------------------------ *)
(* the command channel: a running connection is held by someone; when the last strong sender  *)
(* goes, the connection is closed (idle expiry / every protocol released it)                   *)

Definition LInv (s : lst) : Prop := running s = true -> any_strong (l_handle s) (l_pend s) = true.

Lemma running_crun_nil s : crun (l_task s) [] = (l_task s, []).
Proof. reflexivity. Qed.

Lemma cause_ends t e : gone t = None -> is_cause e = true -> gone (fst (crun t [e])) <> None.
Proof.
  intros G C. cbn [crun]. destruct (cstep t e) as [t1 n1] eqn:E. cbn [fst].
  pose proof (cause_exits t e G C) as H. rewrite E in H. exact H.
Qed.

Lemma crun_running_mono t es : gone (fst (crun t es)) = None -> gone t = None.
Proof.
  intro H. destruct (gone t) eqn:G; [|reflexivity].
  rewrite crun_gone in H by congruence. cbn [fst] in H. congruence.
Qed.

Lemma any_held_all_false (h : list bool) : any_held (map (fun _ => false) h) = false.
Proof. induction h as [|a r IH]; [reflexivity|exact IH]. Qed.

Lemma crun_no_cause t es :
  gone t = None -> forallb (fun e => negb (is_cause e)) es = true -> gone (fst (crun t es)) = None.
Proof.
  revert t. induction es as [|e r IH]; intros t G H; cbn [crun]; [exact G|].
  cbn [forallb] in H. apply andb_prop in H. destruct H as [H1 H2].
  destruct (cstep t e) as [t1 n1] eqn:E.
  assert (G1 : gone t1 = None).
  { destruct (gone t1) eqn:G1; [|reflexivity]. exfalso.
    pose proof (exit_only_on_cause t e G) as X. rewrite E in X. cbn [fst] in X.
    rewrite G1 in X. rewrite X in H1 by discriminate. discriminate. }
  specialize (IH t1 G1 H2). destruct (crun t1 r) as [t2 n2]. exact IH.
Qed.

Lemma pend_after_mono s o : (l_pend s <= pend_after s o)%nat.
Proof.
  unfold pend_after. destruct (negb (rc_of s o =? 0)); [lia|].
  destruct o; try lia; match goal with |- context [if ?c then _ else _] => destruct c end; lia.
Qed.

Lemma any_strong_mono h p q : (p <= q)%nat -> any_strong h p = true -> any_strong h q = true.
Proof.
  unfold any_strong. intros L H. destruct (any_held h); [reflexivity|]. cbn [orb] in *.
  destruct p; [discriminate|]. destruct q; [lia|reflexivity].
Qed.

Lemma linv_step s o : LInv s -> LInv (fst (lstep s o)).
Proof.
  intros I. unfold lstep. destruct (crun (l_task s) (events_of s o)) as [t1 n1] eqn:E. cbn [fst].
  unfold LInv, running. cbn [l_task l_handle l_pend]. intro R.
  assert (G1 : gone t1 = None) by (destruct (gone t1); [discriminate|reflexivity]).
  assert (G0 : gone (l_task s) = None).
  { apply (crun_running_mono _ (events_of s o)). now rewrite E. }
  assert (R0 : running s = true) by (unfold running; now rewrite G0).
  specialize (I R0). pose proof (pend_after_mono s o) as PM.
  destruct o as [i a|nm k|i|i|i| |arm|nm mask arm]; cbn [handles_after];
    try (exact (any_strong_mono _ _ _ PM I)).
  - (* LDrop: if it was the last strong sender, the loop has seen `None` and ended *)
    assert (PE : pend_after s (LDrop i) = l_pend s) by (unfold pend_after; destruct (negb _); reflexivity).
    rewrite PE. destruct (i <? nprot s)%nat eqn:Hi; [|exact I].
    destruct (any_strong (set_nth i false (l_handle s)) (l_pend s)) eqn:H; [reflexivity|exfalso].
    unfold events_of in E. cbn [rc_of] in E. rewrite Hi, N.eqb_refl in E. cbn [negb] in E.
    rewrite R0, H in E. cbn [andb negb] in E.
    pose proof (cause_ends (l_task s) (ECmd CNone) G0 eq_refl) as C. rewrite E in C. cbn [fst] in C. congruence.
  - (* LRace *)
    assert (PE : pend_after s (LRace nm mask arm) = l_pend s) by (unfold pend_after; destruct (negb _); reflexivity).
    rewrite PE, R0. cbn [andb].
    (* no termination cause was among the ready branches, else the loop would have ended *)
    assert (A0 : race_arms (l_handle s) (l_pend s) mask = []).
    { destruct (race_arms (l_handle s) (l_pend s) mask) as [|d rest] eqn:A; [reflexivity|exfalso].
      unfold events_of in E. cbn [rc_of] in E. rewrite R0, N.eqb_refl in E. cbn [negb] in E. rewrite A in E.
      cbn [pick_arm] in E. rewrite crun_app in E.
      set (pre := if race_served (l_pend s) mask then [EYamux (YSub true); ENeg (neg_result (l_tbl s) nm)] else []) in E.
      assert (NP : forallb (fun e => negb (is_cause e)) pre = true).
      { unfold pre. destruct (race_served (l_pend s) mask); [|reflexivity]. unfold neg_result.
        destruct (negotiated (l_tbl s) nm); reflexivity. }
      pose proof (crun_no_cause (l_task s) pre G0 NP) as G2.
      destruct (crun (l_task s) pre) as [t2 n2]. cbn [fst] in G2.
      set (a := if existsb (N.eqb arm) (d :: rest) then arm else d) in E.
      assert (C : is_cause (ev_of_arm a) = true).
      { unfold ev_of_arm. destruct (a =? 1); [reflexivity|]. destruct (a =? 2); [reflexivity|].
        destruct (a =? 3); [reflexivity|]. destruct (a =? 4); reflexivity. }
      pose proof (cause_ends t2 _ G2 C) as C1.
      destruct (crun t2 [ev_of_arm a]) as [t3 n3]. cbn [fst] in C1. inversion E. subst. congruence. }
    destruct (N.testbit mask 2) eqn:B2; [|exact I].
    unfold any_strong. rewrite any_held_all_false. cbn [orb].
    destruct (l_pend s =? 0)%nat eqn:P; [exfalso|reflexivity].
    unfold race_arms in A0. rewrite B2, P in A0. cbn [andb] in A0.
    destruct (N.testbit mask 0 && any_held (l_handle s)); cbn [negb app] in A0; [discriminate A0|].
    destruct (N.testbit mask 1); discriminate A0.
Qed.

Lemma linv_run ops : forall s, LInv s -> LInv (fst (lrun s ops)).
Proof.
  induction ops as [|o r IH]; intros s I; cbn [lrun]; [exact I|].
  pose proof (linv_step s o I) as I1. destruct (lstep s o) as [s1 n1]. cbn [fst] in I1.
  specialize (IH s1 I1). destruct (lrun s1 r) as [s2 n2]. exact IH.
Qed.

Lemma linv_settle s : l_pend s = 0%nat -> LInv (fst (lsettle s)).
Proof.
  intro P0. unfold lsettle, settle_events, LInv.
  destruct (running s) eqn:R; cbn [andb].
  - destruct (any_held (l_handle s)) eqn:H; cbn [negb].
    + cbn [crun fst l_handle l_pend]. unfold any_strong. rewrite H. auto.
    + assert (G : gone (l_task s) = None) by (unfold running in R; destruct (gone (l_task s)); [discriminate|reflexivity]).
      pose proof (cause_ends (l_task s) (ECmd CNone) G eq_refl) as C.
      destruct (crun (l_task s) [ECmd CNone]) as [t1 n1]. cbn [fst] in *.
      unfold running. cbn [l_task]. destruct (gone t1); [discriminate|congruence].
  - cbn [crun fst]. unfold running in *. cbn [l_task]. rewrite R. discriminate.
Qed.

(* a connection that is still running after any script is held by some protocol: as soon as the last
   handle is dropped the loop has ended (and, by loop_lifecycle, everyone was told) *)
Theorem loop_running_is_held al fb ops :
  let s := fst (whole_run al fb ops) in running s = true -> any_strong (l_handle s) (l_pend s) = true.
Proof.
  unfold whole_run.
  assert (P0 : l_pend (fst (linit al fb)) = 0%nat) by (unfold linit; destruct (accept al true) as [[t|] ns]; reflexivity).
  destruct (linit al fb) as [s0 n0]. cbn [fst] in P0. pose proof (linv_settle s0 P0) as I.
  destruct (lsettle s0) as [s1 n1]. cbn [fst] in I. pose proof (linv_run ops s1 I) as I2.
  destruct (lrun s1 ops) as [s2 n2]. exact I2.
Qed.

(* which operations end the connection: force-close by a protocol that holds a handle, the remote
   closing, the last handle being dropped (alone or racing with an inbound substream). The exit of a
   protocol, of the manager's receiver, a substream that opens or fails — never. *)
Definition ends_conn (s : lst) (o : lop) : bool :=
  running s &&
  match o with
  | LForce i => rc_of s o =? 0
  | LRemoteClose _ => true
  | LRace _ mask _ => match race_arms (l_handle s) (l_pend s) mask with [] => false | _ => true end
  | LDrop i => (i <? nprot s)%nat && negb (any_strong (set_nth i false (l_handle s)) (l_pend s))
  | _ => false
  end.


Theorem loop_ends_iff_cause s o :
  running s = true -> (running (fst (lstep s o)) = false <-> ends_conn s o = true).
Proof.
  intro R.
  assert (G : gone (l_task s) = None) by (unfold running in R; destruct (gone (l_task s)); [discriminate|reflexivity]).
  unfold lstep, ends_conn. rewrite R. cbn [andb].
  destruct (crun (l_task s) (events_of s o)) as [t1 n1] eqn:E. cbn [fst]. unfold running at 1. cbn [l_task].
  assert (NC : forall es, events_of s o = es -> forallb (fun e => negb (is_cause e)) es = true -> gone t1 = None).
  { intros es Hes H. pose proof (crun_no_cause (l_task s) es G H) as X. rewrite <- Hes, E in X. exact X. }
  assert (YC : forall e, events_of s o = [e] -> is_cause e = true -> gone t1 <> None).
  { intros e Hes H. pose proof (cause_ends (l_task s) e G H) as X. rewrite <- Hes, E in X. exact X. }
  unfold events_of in NC, YC.
  destruct o as [i a|nm k|i|i|i| |arm|nm mask arm]; cbn [rc_of] in *; rewrite ?R in *; cbn [andb negb] in *.
  - (* LOpen *) rewrite (NC _ eq_refl); [split; discriminate|].
    destruct (i <? nprot s)%nat; [|reflexivity]. destruct (held s i); cbn; [|reflexivity].
    destruct (a =? 4); [reflexivity|]. destruct (a =? 0); reflexivity.
  - rewrite N.eqb_refl in NC. cbn [negb] in NC. rewrite (NC _ eq_refl); [split; discriminate|].
    destruct (k =? 4); [reflexivity|]. unfold neg_result.
    destruct (k =? 0); [destruct (negotiated (l_tbl s) nm)|]; reflexivity.
  - (* LForce *)
    destruct (i <? nprot s)%nat; cbn [negb] in *.
    + destruct (held s i); cbn [andb] in *.
      * rewrite N.eqb_refl in *. cbn [negb] in *. pose proof (YC _ eq_refl eq_refl) as X.
        destruct (gone t1); [tauto|congruence].
      * change (1 =? 0) with false in *. cbn [negb] in *. rewrite (NC _ eq_refl eq_refl). split; discriminate.
    + change (2 =? 0) with false in *. cbn [negb] in *. rewrite (NC _ eq_refl eq_refl). split; discriminate.
  - (* LDrop *)
    destruct (i <? nprot s)%nat; cbn [negb andb] in *.
    + rewrite N.eqb_refl in *. cbn [negb] in *.
      destruct (any_strong (set_nth i false (l_handle s)) (l_pend s)); cbn [negb] in *.
      * rewrite (NC _ eq_refl eq_refl). split; discriminate.
      * pose proof (YC _ eq_refl eq_refl) as X. destruct (gone t1); [tauto|congruence].
    + change (2 =? 0) with false in *. cbn [negb] in *. rewrite (NC _ eq_refl eq_refl). split; discriminate.
  - destruct (i <? nprot s)%nat.
    + rewrite N.eqb_refl in NC. cbn [negb] in NC. rewrite (NC _ eq_refl eq_refl). split; discriminate.
    + change (2 =? 0) with false in NC. cbn [negb] in NC. rewrite (NC _ eq_refl eq_refl). split; discriminate.
  - rewrite N.eqb_refl in NC. cbn [negb] in NC. rewrite (NC _ eq_refl eq_refl). split; discriminate.
  - rewrite N.eqb_refl in YC. cbn [negb] in YC.
    assert (C : is_cause (EYamux (if arm =? 2 then YErr else YEof)) = true) by (destruct (arm =? 2); reflexivity).
    pose proof (YC _ eq_refl C) as X. destruct (gone t1); [tauto|congruence].
  - (* LRace *)
    clear NC YC. unfold events_of in E. cbn [rc_of] in E. rewrite R, N.eqb_refl in E. cbn [negb] in E.
    rewrite crun_app in E.
    set (pre := if race_served (l_pend s) mask then [EYamux (YSub true); ENeg (neg_result (l_tbl s) nm)] else []) in E.
    assert (NP : forallb (fun e => negb (is_cause e)) pre = true).
    { unfold pre. destruct (race_served (l_pend s) mask); [|reflexivity]. unfold neg_result.
      destruct (negotiated (l_tbl s) nm); reflexivity. }
    pose proof (crun_no_cause (l_task s) pre G NP) as G2.
    destruct (crun (l_task s) pre) as [t2 n2]. cbn [fst] in G2.
    destruct (race_arms (l_handle s) (l_pend s) mask) as [|d rest]; cbn [pick_arm] in E.
    + cbn [crun] in E. inversion E. subst. rewrite G2. split; discriminate.
    + set (a := if existsb (N.eqb arm) (d :: rest) then arm else d) in E.
      assert (C : is_cause (ev_of_arm a) = true).
      { unfold ev_of_arm. destruct (a =? 1); [reflexivity|]. destruct (a =? 2); [reflexivity|].
        destruct (a =? 3); [reflexivity|]. destruct (a =? 4); reflexivity. }
      pose proof (cause_ends t2 _ G2 C) as C1.
      destruct (crun t2 [ev_of_arm a]) as [t3 n3]. cbn [fst] in C1. inversion E. subst.
      destruct (gone t1); [tauto|congruence].
Qed.

(* ------------------------------------------------------------------------------------------ *)
(* names: a substream is negotiated only for a protocol of the set, so the loop never meets the *)
(* `.expect("protocol to exist")` of protocol_codec                                              *)

Import Names.

Lemma assoc_some_in {A} x (v : A) l : assoc x l = Some v -> In (x, v) l.
Proof.
  induction l as [|[k w] r IH]; cbn [assoc]; [discriminate|].
  destruct (k =? x) eqn:E; [apply N.eqb_eq in E; intro H; inversion H; subst; now left|].
  intro H. right. now apply IH.
Qed.

Lemma assoc_none_notin {A} x (l : list (N * A)) : assoc x l = None -> ~ In x (map fst l).
Proof.
  induction l as [|[k w] r IH]; cbn [assoc map fst]; [tauto|].
  destruct (k =? x) eqn:E; [discriminate|]. intros H [C|C]; [subst; rewrite N.eqb_refl in E; discriminate|].
  now apply IH.
Qed.

Lemma mk_tbl_main n fb pr : In pr (mk_tbl n fb) -> exists i, (i < n)%nat /\ p_main pr = 2 * N.of_nat i.
Proof.
  unfold mk_tbl. intro H. apply in_map_iff in H. destruct H as [i [<- H]]. apply in_seq in H.
  exists i. split; [lia|reflexivity].
Qed.

Lemma mk_tbl_fallback n fb fm : In fm (fallback_map (mk_tbl n fb)) -> exists i, (i < n)%nat /\ snd fm = 2 * N.of_nat i.
Proof.
  unfold fallback_map. intro H. apply in_flat_map in H. destruct H as [pr [H1 H2]].
  apply in_map_iff in H2. destruct H2 as [f [<- _]]. cbn [snd]. now apply mk_tbl_main in H1.
Qed.

Lemma half_double i : N.to_nat (2 * N.of_nat i / 2) = i.
Proof. rewrite N.mul_comm, N.div_mul by discriminate. apply Nnat.Nat2N.id. Qed.

Lemma negotiated_in_range n fb nm i : negotiated (mk_tbl n fb) nm = Some i -> (i < n)%nat.
Proof.
  unfold negotiated. destruct (classify (mk_tbl n fb) nm) as [ka|] eqn:C; [|discriminate].
  intro H. inversion H as [H1]. clear H. unfold resolve.
  destruct (assoc nm (fallback_map (mk_tbl n fb))) as [m|] eqn:A; cbn [fst].
  - apply assoc_some_in in A. destruct (mk_tbl_fallback n fb _ A) as [j [Hj E]]. cbn [snd] in E. subst m.
    rewrite half_double. exact Hj.
  - (* not a fallback name: it is advertised, so it is a main name *)
    unfold classify, keep_alives in C. apply assoc_some_in in C. apply in_app_or in C. destruct C as [C|C].
    + apply in_map_iff in C. destruct C as [pr [E HP]]. inversion E as [[E1 E2]].
      destruct (mk_tbl_main n fb pr HP) as [j [Hj Ej]]. rewrite Ej. rewrite half_double. exact Hj.
    + exfalso. apply in_flat_map in C. destruct C as [fm [HF C]].
      apply (assoc_none_notin _ _ A). destruct (find_main (mk_tbl n fb) (snd fm)); [|destruct C].
      destruct C as [C|[]]. inversion C. subst. now apply in_map.
Qed.

(* every event a loop-level operation feeds to the loop is one the extracted skeleton handles without
   panic (Skel.in_range), given that the table has one entry per protocol channel *)
Theorem loop_events_in_range s o e fb :
  l_tbl s = mk_tbl (nprot s) fb -> In e (events_of s o) -> is_loop_event e = true ->
  forall t, length (alive t) = nprot s -> in_range t e = true.
Proof.
  intros T HIn L t Hl. unfold events_of in HIn.
  destruct (negb (rc_of s o =? 0)) eqn:RC; [destruct HIn|].
  destruct o as [i a|nm k|i|i|i| |arm|nm mask arm]; cbn [In] in HIn.
  - destruct HIn as [<-|HIn]; [reflexivity|]. destruct (a =? 4); [destruct HIn|]. destruct HIn as [<-|[]].
    destruct (a =? 0); [|reflexivity]. cbn [in_range]. rewrite Hl.
    cbn [rc_of] in RC. destruct (i <? nprot s)%nat eqn:Hi; [reflexivity|]. discriminate RC.
  - destruct HIn as [<-|HIn]; [reflexivity|]. destruct (k =? 4); [destruct HIn|]. destruct HIn as [<-|[]].
    destruct (k =? 0); [|reflexivity]. unfold neg_result.
    destruct (negotiated (l_tbl s) nm) as [i|] eqn:Ng; [|reflexivity].
    cbn [in_range]. rewrite Hl. rewrite T in Ng. apply negotiated_in_range in Ng. now apply Nat.ltb_lt.
  - destruct HIn as [<-|[]]. reflexivity.
  - destruct (running s && negb (any_strong (set_nth i false (l_handle s)) (l_pend s))); [|destruct HIn].
    destruct HIn as [<-|[]]. reflexivity.
  - destruct HIn as [<-|[]]. discriminate L.
  - destruct HIn as [<-|[]]. discriminate L.
  - destruct HIn as [<-|[]]. destruct (arm =? 2); reflexivity.
  - apply in_app_or in HIn. destruct HIn as [HIn|HIn].
    + destruct (race_served (l_pend s) mask); [|destruct HIn].
      destruct HIn as [<-|[<-|[]]]; [reflexivity|]. unfold neg_result.
      destruct (negotiated (l_tbl s) nm) as [i|] eqn:Ng; [|reflexivity].
      cbn [in_range]. rewrite Hl. rewrite T in Ng. apply negotiated_in_range in Ng. now apply Nat.ltb_lt.
    + destruct (pick_arm (race_arms (l_handle s) (l_pend s) mask) arm) as [a|]; [|destruct HIn].
      destruct HIn as [<-|[]]. unfold ev_of_arm.
      destruct (a =? 1); [reflexivity|]. destruct (a =? 2); [reflexivity|].
      destruct (a =? 3); [reflexivity|]. destruct (a =? 4); reflexivity.
Qed.

(* ------------------------------------------------------------------------------------------ *)
(* the exit arm the harness reads from the log identifies the exit site of the TCP table       *)

Lemma tcp_arm_site t e i o :
  gone t = None -> gone (fst (cstep t e)) = Some (i, o) ->
  let ok := all_alive (alive t) && mgr_up t in
  (1 <= arm_of e)%N /\ i = (2 * (N.to_nat (arm_of e) - 1) + (if ok then 1 else 0))%nat /\
  state_code (fst (cstep t e)) = (if ok then 1 else 2).
Proof.
  intros G H ok. unfold state_code. rewrite H. revert H. unfold cstep. rewrite G.
  destruct e as [[[|]| |]|[j ob|j|]|[| |]|j|]; cbn [finish h_yamux h_neg h_cmd fst snd gone];
    first [ rewrite closing_spec; fold ok; destruct ok; cbn [finish fst snd gone]; intro H; inversion H; subst;
            cbn; repeat split; lia
          | intro H; cbn [finish fst snd gone] in H; congruence ].
Qed.
