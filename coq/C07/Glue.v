(* C07 — wire format, model runner and the trace oracle prop_ok. Definitions only.
   Two kinds of cases (see harness/src/c07.rs): 0 = report level (ProtocolSet), 1 = end to end
   (two nodes, fault script). *)
From Coq Require Import List NArith Bool PeanoNat.
From V.common Require Import Wire.
From V.Mgr Require Model.
From V.Ts Require Import Report.
From V.C07 Require Import Model Block Loop.
Import ListNotations.
Open Scope N_scope.



(* events of one operation as (protocol, kind): 1 established 2 closed 3 inbound substream
   4 outbound substream 5 substream open failure *)
Definition pe_of_note (x : note) : list (nat * N) :=
  match x with
  | NEst i => [(i, 1)]
  | NClosed i => [(i, 2)]
  | NSubOpen i ob => [(i, if ob then 4 else 3)]
  | NSubFail i => [(i, 5)]
  | NMgrClosed => []
  end.
Definition mgr_count (ns : list note) : N :=
  N.of_nat (length (filter (fun x => match x with NMgrClosed => true | _ => false end) ns)).

(* ------------------------------------------------------------------------------------------ *)
(* kind 0: report level                                                                        *)

Record ustate := mkU { u_alive : list bool; u_mgr : bool }.

(* cnt (proto kind)* mgr_cnt *)
Definition enc_notes (ns : list note) : list N :=
  let pe := flat_map pe_of_note ns in
  N.of_nat (length pe) :: flat_map (fun p => [N.of_nat (fst p); snd p]) pe ++ [mgr_count ns].

Definition NA : list N := [2; 0; 0; 0].
(* report-level protocols with an odd index have a fallback name *)
Definition UNIT_FB : N := 170.

Definition ustep (n : nat) (u : ustate) (o : N * (N * N)) : ustate * list N :=
  let '(op, (a, b)) := o in
  let ai := N.to_nat a in
  match op with
  | 1 => (mkU (set_nth ai false (u_alive u)) (u_mgr u), NA)
  | 5 => (mkU (u_alive u) false, NA)
  | 2 => let '(ns, ok) := report_established (u_alive u) in
         (u, b2n (negb ok) :: enc_notes ns ++ [0])
  | 3 => let '(ns, ok) := report_closed (u_alive u) (u_mgr u) in
         (u, b2n (negb ok) :: enc_notes ns ++ [0])
  | 4 => if (ai <? n)%nat then
           let '(ns, ok) := report_sub_fail (u_alive u) ai in (u, b2n (negb ok) :: enc_notes ns ++ [0])
         else (u, NA)
  | 7 => (* what accept does, then protocol_codec under every advertised name: no panic; the set offers
            the main names and the fallback names of the protocols with an odd index *)
         let '(ns, _) := report_established (u_alive u) in
         (u, 0 :: enc_notes ns ++ [N.of_nat (length (Names.keep_alives (mk_tbl n UNIT_FB)))])
  | 8 => (* report_substream_open under name code a *)
         let '(ns, ok) := match negotiated (mk_tbl n UNIT_FB) a with
                          | Some i => report_sub_open (u_alive u) i false
                          | None => ([], false)
                          end in
         (u, b2n (negb ok) :: enc_notes ns ++ [0])
  | _ => (* 6: report_connection_closed while the channel of protocol a is full: the manager must
            not have been told when the report is parked on that channel *)
         if (ai <? n)%nat then
           let '(ns, ok) := report_closed (u_alive u) (u_mgr u) in
           (u, b2n (negb ok) :: enc_notes ns ++ [if nth ai (u_alive u) false then 0 else mgr_count ns])
         else (u, NA)
  end.

Fixpoint urun (n : nat) (u : ustate) (ops : list (N * (N * N))) : list N :=
  match ops with
  | [] => []
  | o :: r => let '(u1, t) := ustep n u o in t ++ urun n u1 r
  end.

Definition p_uop : parser (N * (N * N)) :=
  let* op := pN in let* a := pN in let* b := pN in
  if (1 <=? op) && (op <=? 8) then pret (op, (a, b)) else pfail.

Definition decode_unit (l : list N) : option (nat * list (N * (N * N))) :=
  pall (let* n := pN in let* ops := plist p_uop in
        if (1 <=? n) && (n <=? 8) then pret (N.to_nat n, ops) else pfail) l.

(* ------------------------------------------------------------------------------------------ *)
(* kind 1: end to end. Two nodes A (peer 1, dials) and B (peer 2); every node has n common user
   protocols (0..n-1), one user protocol only it has (n), a notification protocol (n+1) and a
   request-response protocol (n+2). Observers of a node: 0 = application, S i = user protocol i. *)

Definition PA : N := 1.
Definition PB : N := 2.
Definition L0 : V.Mgr.Model.limits := V.Mgr.Model.mkLimits None None [V.Mgr.Model.TCP].

Definition obs := (nat * N)%type.

Record wnode := mkW {
  w_nd : node;
  w_pconn : list bool;     (* user protocol i's TransportService has a connection to the peer *)
  w_up : bool
}.
Record world := mkWorld { wa : wnode; wb : wnode }.

Definition nuser (n : nat) : nat := S n.

Fixpoint alive_users (k : nat) (nu : nat) (al : list bool) : list nat :=
  match nu, al with
  | S m, a :: t => (if a then [k] else []) ++ alive_users (S k) m t
  | _, _ => []
  end.

Definition obs_of_out (n : nat) (al : list bool) (o : nout) : list obs :=
  match o with
  | OMgr (V.Mgr.Model.EvEstablished _ _) => [(O, 1)]
  | OMgr (V.Mgr.Model.EvClosed _ _) => [(O, 2)]
  | OMgr (V.Mgr.Model.EvDialFailure _ _) => [(O, 6)]
  | OMgr (V.Mgr.Model.EvOpenFailure _ _) => [(O, 6)]
  | OMgr (V.Mgr.Model.ProtoDialFailure _) => map (fun i => (S i, 6)) (alive_users 0 (nuser n) al)
  | OMgr _ => []
  | ONote _ x => flat_map (fun p => if (fst p <? nuser n)%nat then [(S (fst p), snd p)] else []) (pe_of_note x)
  end.

Definition pconn_of_out (pc : list bool) (o : nout) : list bool :=
  match o with
  | ONote _ (NEst i) => set_nth i true pc
  | ONote _ (NClosed i) => set_nth i false pc
  | _ => pc
  end.

(* one node event; observer events of this node *)
Definition wstep (n : nat) (w : wnode) (e : nev) : wnode * (list nout * list obs) :=
  let '(nd1, (os, _)) := node_step L0 (w_nd w) e in
  (mkW nd1 (fold_left pconn_of_out os (w_pconn w)) (w_up w),
   (os, flat_map (obs_of_out n (nd_alive (w_nd w))) os)).

Fixpoint wsteps (n : nat) (w : wnode) (es : list nev) : wnode * list obs :=
  match es with
  | [] => (w, [])
  | e :: r => let '(w1, (_, o1)) := wstep n w e in let '(w2, o2) := wsteps n w1 r in (w2, o1 ++ o2)
  end.

Fixpoint running_conn (l : list (V.Mgr.Model.conn * (V.Mgr.Model.peer * task))) : option V.Mgr.Model.conn :=
  match l with
  | [] => None
  | (c, pt) :: r => match gone (snd pt) with None => Some c | Some _ => running_conn r end
  end.
Definition w_running (w : wnode) : option V.Mgr.Model.conn :=
  if w_up w then running_conn (nd_tasks (w_nd w)) else None.

Definition ev2 := (list obs * list obs)%type.
Definition app2 (x y : ev2) : ev2 := (fst x ++ fst y, snd x ++ snd y).

(* nobody keeps the connection open any more: every protocol of the node has exited *)
Definition all_dead_check (n : nat) (w : wnode) : wnode * list obs :=
  match w_running w with
  | Some c => if existsb (fun b => b) (nd_alive (w_nd w)) then (w, [])
              else wsteps n w [NTask c (ECmd CNone)]
  | None => (w, [])
  end.

(* a connection whose other end is gone reads end-of-stream *)
Definition propagate (n : nat) (w : world) : world * ev2 :=
  match w_running (wa w), w_running (wb w) with
  | Some c, None => let '(a1, o) := wsteps n (wa w) [NTask c (EYamux YEof)] in (mkWorld a1 (wb w), (o, []))
  | None, Some c => let '(b1, o) := wsteps n (wb w) [NTask c (EYamux YEof)] in (mkWorld (wa w) b1, ([], o))
  | _, _ => (w, ([], []))
  end.

Definition after (n : nat) (w : world) : world * ev2 :=
  let '(a1, oa) := all_dead_check n (wa w) in
  let '(b1, ob) := all_dead_check n (wb w) in
  let '(w2, o2) := propagate n (mkWorld a1 b1) in
  (w2, app2 (oa, ob) o2).

Definition sel (x : N) (w : world) : wnode := if x =? 0 then wa w else wb w.
Definition put (x : N) (w : world) (v : wnode) : world :=
  if x =? 0 then mkWorld v (wb w) else mkWorld (wa w) v.
Definition on (x : N) (o : list obs) : ev2 := if x =? 0 then (o, []) else ([], o).

Definition find_ret (os : list nout) : N :=
  fold_right (fun o acc => match o with OMgr (V.Mgr.Model.Ret c) => c | _ => acc end) 99 os.
Definition find_dial (os : list nout) : option V.Mgr.Model.conn :=
  fold_right (fun o acc => match o with OMgr (V.Mgr.Model.CallDial c _) => Some c | _ => acc end) None os.
Definition has_accept (c : V.Mgr.Model.conn) (os : list nout) : bool :=
  existsb (fun o => match o with OMgr (V.Mgr.Model.CallAccept d _) => d =? c | _ => false end) os.
Definition dial_code (ret : N) : N :=
  if ret =? V.Mgr.Model.RET_OK then 0 else if ret =? V.Mgr.Model.RET_CONNECTED then 3 else 9.

(* a connection reaches the manager of node w (peer `p`, id `c`) and is accepted *)
Definition establish (n : nat) (w : wnode) (p : V.Mgr.Model.peer) (c : V.Mgr.Model.conn) (listener : bool)
  : wnode * list obs :=
  let '(w1, (os, o1)) := wstep n w (NMgr (V.Mgr.Model.TrEstablished p c V.Mgr.Model.TCP listener false)) in
  if has_accept c os then
    let '(w2, o2) := wsteps n w1 [NAccept c] in (w2, o1 ++ o2)
  else (w1, o1).

Definition do_connect (n : nat) (w : world) : world * (N * ev2) :=
  if negb (w_up (wa w)) then (w, (2, ([], []))) else
  let '(a1, (os, oa1)) := wstep n (wa w) (NMgr (V.Mgr.Model.CmdDialAddr PB V.Mgr.Model.TCP false)) in
  let rc := dial_code (find_ret os) in
  match find_dial os with
  | None => (mkWorld a1 (wb w), (rc, (oa1, [])))
  | Some c =>
      if w_up (wb w) then
        let '(a2, oa2) := establish n a1 PB c false in
        let cb := V.Mgr.Model.next_conn (nd_mgr (w_nd (wb w))) in
        let '(b1, ob1) := wsteps n (wb w) [NMgr V.Mgr.Model.AllocConn; NMgr (V.Mgr.Model.TrPendingInbound cb V.Mgr.Model.TCP)] in
        let '(b2, ob2) := establish n b1 PA cb true in
        let '(w3, o3) := after n (mkWorld a2 b2) in
        (w3, (rc, app2 (oa1 ++ oa2, ob1 ++ ob2) o3))
      else
        let '(a2, oa2) := wsteps n a1 [NMgr (V.Mgr.Model.TrDialFailure c V.Mgr.Model.TCP PB)] in
        (mkWorld a2 (wb w), (rc, (oa1 ++ oa2, [])))
  end.

(* may user protocol y of node x act, and on which connection? rc 2: it cannot be asked *)
Definition actor_rc (n : nat) (w : wnode) (y : nat) : N :=
  if negb (w_up w) || negb (y <=? n)%nat || negb (nth y (nd_alive (w_nd w)) false) then 2
  else match w_running w with
       | Some _ => if nth y (w_pconn w) false then 0 else 1
       | None => 1
       end.

Definition do_open (n : nat) (x : N) (y : nat) (die : bool) (w : world) : world * (N * ev2) :=
  let me := sel x w in
  let rc := actor_rc n me y in
  if rc =? 2 then (w, (2, ([], []))) else
  let dies := if die then [NProtoDie y] else [] in
  if rc =? 1 then
    let '(me1, o) := wsteps n me dies in
    let '(w2, o2) := after n (put x w me1) in (w2, (1, app2 (on x o) o2))
  else
    match w_running me, w_running (sel (1 - x) w) with
    | Some c, Some c' =>
        let common := (y <? n)%nat in
        let '(me1, o1) := wsteps n me ([NTask c (ECmd COpen)] ++ dies) in
        let '(ot1, o2) := wsteps n (sel (1 - x) w)
                            [NTask c' (EYamux (YSub true));
                             NTask c' (ENeg (if common then NegOk y false else NegFailAnon))] in
        let '(me2, o3) := wsteps n me1 [NTask c (ENeg (if common then NegOk y true else NegFail y))] in
        let '(w2, o4) := after n (put (1 - x) (put x w me2) ot1) in
        (w2, (0, app2 (app2 (on x (o1 ++ o3)) (on (1 - x) o2)) o4))
    | _, _ => (w, (0, ([], [])))
    end.

Definition do_force (n : nat) (x : N) (y : nat) (w : world) : world * (N * ev2) :=
  let me := sel x w in
  let rc := actor_rc n me y in
  if negb (rc =? 0) then (w, (rc, ([], []))) else
  match w_running me with
  | Some c =>
      let '(me1, o1) := wsteps n me [NTask c (ECmd CForce)] in
      let '(w2, o2) := after n (put x w me1) in (w2, (0, app2 (on x o1) o2))
  | None => (w, (0, ([], [])))
  end.

Definition do_drop (n : nat) (x : N) (y : nat) (w : world) : world * (N * ev2) :=
  let me := sel x w in
  if negb (w_up me) || negb (y <? n + 3)%nat || negb (nth y (nd_alive (w_nd me)) false) then (w, (2, ([], [])))
  else
    let '(me1, o1) := wsteps n me [NProtoDie y] in
    let '(w2, o2) := after n (put x w me1) in (w2, (0, app2 (on x o1) o2)).

Definition do_cut (n : nat) (w : world) : world * (N * ev2) :=
  let '(a1, oa) := match w_running (wa w) with
                   | Some c => wsteps n (wa w) [NTask c (EYamux YErr)] | None => (wa w, []) end in
  let '(b1, ob) := match w_running (wb w) with
                   | Some c => wsteps n (wb w) [NTask c (EYamux YErr)] | None => (wb w, []) end in
  (mkWorld a1 b1, (0, (oa, ob))).

Definition do_idle (n : nat) (w : world) : world * (N * ev2) :=
  match w_running (wa w) with
  | Some c =>
      let '(a1, oa) := wsteps n (wa w) [NTask c (ECmd CNone)] in
      let '(w2, o2) := after n (mkWorld a1 (wb w)) in (w2, (0, app2 (oa, []) o2))
  | None => (w, (0, ([], [])))
  end.

Definition do_shutdown (n : nat) (w : world) : world * (N * ev2) :=
  if w_up (wb w) then
    let '(w2, o2) := after n (mkWorld (wa w) (mkW (w_nd (wb w)) (w_pconn (wb w)) false)) in (w2, (0, o2))
  else (w, (2, ([], []))).

(* A dials B while protocol y of node x exits. Whichever comes first, the connection is accepted
   (a protocol that has exited is skipped) and everybody else sees the same; only the racing
   protocol's own observer differs (it may or may not read its last events before it exits), so it
   is not printed. *)
Definition drop_obs (x : N) (y : nat) (o : ev2) : ev2 :=
  let f := filter (fun p : obs => negb (fst p =? S y)%nat) in
  if x =? 0 then (f (fst o), snd o) else (fst o, f (snd o)).

Definition do_race (n : nat) (x : N) (y : nat) (w : world) : world * (N * ev2) :=
  let '(w1, (rc, o1)) := do_connect n w in
  let '(w2, (_, o2)) := do_drop n x y w1 in
  (w2, (rc, drop_obs x y (app2 o1 o2))).

(* bounce: user protocol y of node x force-closes the connection the moment it is told about it, A dials B
   (the applications poll sparsely; the model is the same). rc 2: the step cannot be run. *)
Definition do_bounce (n : nat) (x : N) (y : nat) (w : world) : world * (N * ev2) :=
  if negb (w_up (wa w)) || negb (w_up (wb w)) || negb (x <=? 1) || negb (y <=? n)%nat ||
     negb (nth y (nd_alive (w_nd (sel x w))) false) then (w, (2, ([], [])))
  else
    let '(w1, (rc, o1)) := do_connect n w in
    if rc =? 0 then
      let '(w2, (_, o2)) := do_force n x y w1 in (w2, (rc, app2 o1 o2))
    else (w1, (rc, o1)).

Definition estep (n : nat) (w : world) (s : N * (N * (N * N))) : world * (N * ev2) :=
  let '(op, (a, (b, c))) := s in
  match op with
  | 10 => do_drop n a (N.to_nat b) w
  | 11 => do_connect n w
  | 12 => do_open n a (N.to_nat b) false w
  | 13 => do_open n a (N.to_nat b) true w
  | 14 => do_race n a (N.to_nat b) w
  | 15 => do_force n a (N.to_nat b) w
  | 16 => do_cut n w
  | 17 => do_idle n w
  | 20 => do_idle n w      (* idle expiry while the other side keeps opening refused substreams *)
  | 18 => do_shutdown n w
  | 21 => do_bounce n a (N.to_nat b) w
  | _ => (w, (2, ([], [])))
  end.

(* (cnt ev* ) for observers 0..nobs-1 *)
Definition render (nobs : nat) (evs : list obs) : list N :=
  flat_map (fun k => let l := filter (fun p => (fst p =? k)%nat) evs in
                     N.of_nat (length l) :: map snd l) (seq 0 nobs).

Fixpoint erun (n : nat) (w : world) (steps : list (N * (N * (N * N)))) : world * list N :=
  match steps with
  | [] => (w, [])
  | s :: r =>
      let '(w1, (rc, (oa, ob))) := estep n w s in
      let '(w2, t) := erun n w1 r in
      (w2, rc :: render (n + 2) oa ++ render (n + 2) ob ++ t)
  end.

Definition final_dial (n : nat) (w : wnode) (p : V.Mgr.Model.peer) : N :=
  if w_up w then
    let '(_, (os, _)) := wstep n w (NMgr (V.Mgr.Model.CmdDialPeer p [V.Mgr.Model.TCP] [])) in dial_code (find_ret os)
  else 7.

Definition wnode_init (n : nat) (other : V.Mgr.Model.peer) : wnode :=
  let nd := node_init (n + 3) in
  let '(m1, _) := V.Mgr.Model.step L0 (nd_mgr nd) (V.Mgr.Model.CmdAddAddr other V.Mgr.Model.TCP) in
  mkW (mkNode m1 (nd_alive nd) []) (repeat false (n + 1)) true.

Definition world_init (n : nat) : world := mkWorld (wnode_init n PB) (wnode_init n PA).

Definition p_estep : parser (N * (N * (N * N))) :=
  let* op := pN in let* a := pN in let* b := pN in let* c := pN in
  pret (op, (a, (b, c))).

Definition decode_e2e (l : list N) : option (nat * (N * list (N * (N * (N * N))))) :=
  pall (let* n := pN in let* ka := pN in let* steps := plist p_estep in
        (* ka: bit 0 = short keep-alive, bits 1-2 = transport (0 TCP, 1 WebSocket, 2 QUIC), bit 3 =
           TCP_NODELAY, bit 4 = two worker threads per node; the model is the same for all of them *)
        if (1 <=? n) && (n <=? 4) && (ka <? 32) && ((ka / 2) mod 4 <? 3) then pret (N.to_nat n, (ka, steps)) else pfail) l.

(* ------------------------------------------------------------------------------------------ *)
(* kind 2: back-pressure. Real ProtocolSets (one per connection) report into protocol channels of
   a small capacity that are drained only when the case says so; a report that finds no room
   waits, and with it its connection. After every operation every parked report that can proceed
   does (the harness runs its runtime until idle): BResume for every connection.
   case  = 2 n cap nops (op a b)*     op: 1 accept connection a | 2 the loop of a handles an event:
           b = 0 the connection ended, b = i+1 an outbound substream of protocol i failed | 4 protocol
           a receives b events | 5 protocol a exits
   trace = 1 (rc  nout (kind conn)*  ngot (kind conn)*  (qlen)*n  nconn (conn phase)* )*
           out kind: 1 accept future resolved, 2 manager told closed; got kind: 1 established 2 closed
           5 substream open failure; phase: 0 accept waits 1 running 2 substream report waits
           3 closed report waits 4 gone *)

Definition phase_code (p : phase) : N :=
  match p with PWaitEst => 0 | PRun => 1 | PWaitSub => 2 | PWaitClosed => 3 | PDone => 4 end.

Definition enc_item (it : item) : list N :=
  match it with
  | IEst c => [1; c] | IClosed c => [2; c] | IOpened c _ => [3; c] | IFailure c _ => [5; c]
  end.
Definition enc_bout (o : bout) : list N :=
  match o with OAccepted c => [1; c] | OMgrClosed c => [2; c] end.

Definition conn_ids (s : bsys) : list N := sort_by (fun x => x) (map fst (s_conns s)).

Definition resume_all (s : bsys) : bsys * list bout :=
  fold_left (fun acc c => let '(s1, o1) := bstep (fst acc) (BResume c) in (s1, snd acc ++ o1))
            (conn_ids s) (s, []).

Definition bout_key (o : bout) : N := match o with OAccepted c => 2 * c | OMgrClosed c => 2 * c + 1 end.

Definition block_dump (s : bsys) : list N :=
  map (fun ch => N.of_nat (length (rq ch))) (s_ch s) ++
  N.of_nat (length (s_conns s)) ::
  flat_map (fun c => match find_c c (s_conns s) with
                     | Some b => [c; phase_code (b_ph b)] | None => [] end) (conn_ids s).

Definition all_del (s : bsys) : list nat := map (fun ch => length (rdel ch)) (s_ch s).

Definition bop_ev (o : N * (N * N)) : option bev :=
  let '(op, (a, b)) := o in
  match op with
  | 1 => Some (BAccept a)
  | 2 => Some (BLoop a (if b =? 0 then EYamux YEof else ENeg (NegFail (N.to_nat (b - 1)))))
  | 4 => Some (BRecv (N.to_nat a) (N.to_nat b))
  | 5 => Some (BDie (N.to_nat a))
  | _ => None
  end.

(* was the operation applicable? (the harness cannot start a report on a connection that is
   parked, gone or unknown, nor accept a known connection) *)
Definition bop_rc (s : bsys) (o : N * (N * N)) : N :=
  let '(op, (a, b)) := o in
  match op with
  | 1 => match find_c a (s_conns s) with Some _ => 2 | None => 0 end
  | 2 => match find_c a (s_conns s) with
         | Some bc => match b_ph bc with PRun => 0 | _ => 2 end
         | None => 2
         end
  | _ => 0
  end.

Definition bstep_trace (s : bsys) (o : N * (N * N)) : bsys * list N :=
  match bop_ev o with
  | None => (s, [2])
  | Some e =>
      let rc := bop_rc s o in
      let '(s1, o1) := bstep s e in
      let '(s2, o2) := resume_all s1 in
      let outs := sort_by bout_key (o1 ++ o2) in
      let got := match e with
                 | BRecv p _ => skipn (nth p (all_del s) O) (rdel (nth p (s_ch s2) (mkRc [] [] [] [])))
                 | _ => []
                 end in
      (s2, rc :: N.of_nat (length outs) :: flat_map enc_bout outs ++
           N.of_nat (length got) :: flat_map enc_item got ++ block_dump s2)
  end.

Fixpoint brun_trace (s : bsys) (ops : list (N * (N * N))) : list N :=
  match ops with
  | [] => []
  | o :: r => let '(s1, t) := bstep_trace s o in t ++ brun_trace s1 r
  end.

Definition p_bop (n : nat) : parser (N * (N * N)) :=
  let* op := pN in let* a := pN in let* b := pN in
  if ((op =? 1) && (a <? 1000)) ||
     ((op =? 2) && (a <? 1000) && (b <=? N.of_nat n)) ||
     ((op =? 4) && (a <? N.of_nat n) && (b <? 1000)) ||
     ((op =? 5) && (a <? N.of_nat n))
  then pret (op, (a, b)) else pfail.

Definition decode_block (l : list N) : option (nat * (nat * list (N * (N * N)))) :=
  match l with
  | n :: cap :: r =>
      if (1 <=? n) && (n <=? 6) && (1 <=? cap) && (cap <=? 8) then
        match pall (plist (p_bop (N.to_nat n))) r with
        | Some ops => Some (N.to_nat n, (N.to_nat cap, ops))
        | None => None
        end
      else None
  | _ => None
  end.

(* ------------------------------------------------------------------------------------------ *)
(* kind 3: loop level (harness/src/c07_loop.rs; model coq/C07/Loop.v). The real `start()` future of a
   TCP / WebSocket connection is polled by hand against a bare yamux peer.
   case  = 3 tr n fbmask dead0 cap nops (op a b f c)*     (tr: transport + 4 * hold)
   trace = 1 (cnt kind* ){n}  record0  record*      record = rc early_done early_mgr (cnt kind* ){n} mgr state arm
   (record0: what happens when the loop is polled for the first time) *)

Definition lcase := (N * (N * (N * (N * N))))%type.

Definition lop_of (o : lcase) : option lop :=
  let '(op, (a, (b, (f, c)))) := o in
  match op with
  | 1 => Some (LOpen (N.to_nat a) b)
  | 2 => Some (LRemoteOpen a b)
  | 3 => Some (LForce (N.to_nat a))
  | 4 => Some (LDrop (N.to_nat a))
  | 5 => Some (LDie (N.to_nat a))
  | 6 => Some LMgrDie
  | 7 => Some (LRemoteClose c)
  | 9 => Some (LRace a (if b =? 0 then 12 else b) c)
  | _ => None
  end.

Definition kinds_of (n : nat) (ns : list note) : list N :=
  let pe := flat_map pe_of_note ns in
  flat_map (fun i => let ks := sort_by (fun x => x) (map snd (filter (fun p => (fst p =? i)%nat) pe)) in
                     N.of_nat (length ks) :: ks) (seq 0 n).

Definition lrecord (n : nat) (rc : N) (early : N * N) (ns : list note) (t : task) (arm : N) : list N :=
  rc :: fst early :: snd early :: kinds_of n ns ++ [mgr_count ns; state_code t; arm].

(* with the channel of protocol f-1 full: has the loop ended / has the manager been told before that
   channel is drained? Only if the protocol has exited (its channel is closed, nothing waits on it). *)
Definition early_obs (n : nat) (s s1 : lst) (f : N) : N * N :=
  if (1 <=? f) && (f <=? N.of_nat n) && running s && negb (running s1) then
    if nth (N.to_nat (f - 1)) (alive (l_task s1)) false then (0, 0)
    else (1, b2n (mgr_up (l_task s1)))
  else (0, 0).

Definition lstep_trace (n : nat) (s : lst) (o : lcase) : lst * list N :=
  match lop_of o with
  | None => (s, [2])
  | Some lo =>
      let rc := rc_of s lo in
      let f := fst (snd (snd (snd o))) in
      let '(s1, ns) := lstep s lo in
      let arm := if (rc =? 0) && negb (arm_allowed s lo) then 999
                 else exit_arm (l_task s) (events_of s lo) in
      (s1, lrecord n rc (early_obs n s s1 f) ns (l_task s1) arm)
  end.

Fixpoint lrun_trace (n : nat) (s : lst) (ops : list lcase) : list N :=
  match ops with
  | [] => []
  | o :: r => let '(s1, t) := lstep_trace n s o in t ++ lrun_trace n s1 r
  end.

Definition mask_alive (n : nat) (dead0 : N) : list bool :=
  map (fun i => negb (N.testbit dead0 (N.of_nat i))) (seq 0 n).

Definition loop_trace (n : nat) (fbmask dead0 : N) (ops : list lcase) : list N :=
  let '(s0, ns0) := linit (mask_alive n dead0) fbmask in
  let '(s1, ns1) := lsettle s0 in
  kinds_of n ns0 ++
  lrecord n 0 (0, 0) ns1 (l_task s1) (exit_arm (l_task s0) (settle_events s0)) ++
  lrun_trace n s1 ops.

(* `hold`: the case runs with a long substream-open timeout, b = 4 (the remote never answers and nobody
   waits for the timeout) is allowed and b = 3 (wait for the timeout) is not *)
Definition p_lop (hold quic : bool) : parser lcase :=
  let* op := pN in let* a := pN in let* b := pN in let* f := pN in let* c := pN in
  if (((1 <=? op) && (op <=? 7)) || (op =? 9)) &&
     (if (op =? 1) || (op =? 2) then if hold then negb (b =? 3) else negb (b =? 4) else true) &&
     (* QUIC: whether an outbound open that times out is answered is C08's business (F-C08a) *)
     negb ((op =? 1) && (b =? 3) && quic) &&
     (* races: an inbound substream only together with "every handle dropped" (else it would be served
        while the connection ends: the notes would depend on the schedule); with pending negotiations
        possible (hold cases) only that combination *)
     (if op =? 9 then (b <? 16) && (if hold then b =? 0 else negb (N.testbit b 3) || N.testbit b 2) else true)
  then pret (op, (a, (b, (f, c)))) else pfail.

Definition decode_loop (l : list N) : option (nat * (N * (N * list lcase))) :=
  pall (let* tr := pN in let* n := pN in let* fb := pN in let* d0 := pN in let* cap := pN in
        (* tr: bits 0-1 transport (0 TCP, 1 WebSocket, 2 QUIC), bit 2 hold *)
        let* ops := plist (p_lop (N.testbit tr 2) (tr mod 4 =? 2)) in
        if (tr <? 8) && (tr mod 4 <? 3) && negb (tr =? 6) && (1 <=? n) && (n <=? 4) && (fb <? 16) && (d0 <? 16) && (1 <=? cap) && (cap <=? 64) &&
           (N.of_nat (length ops) <=? 40)
        then pret (N.to_nat n, (fb, (d0, ops))) else pfail) l.

(* ------------------------------------------------------------------------------------------ *)

Definition run_case (l : list N) : list N :=
  match l with
  | 0 :: r =>
      match decode_unit r with
      | Some (n, ops) => 1 :: urun n (mkU (repeat true n) true) ops
      | None => [0]
      end
  | 1 :: r =>
      match decode_e2e r with
      | Some (n, (_, steps)) =>
          let '(w, t) := erun n (world_init n) steps in
          1 :: t ++ [final_dial n (wa w) PB; final_dial n (wb w) PA]
      | None => [0]
      end
  | 2 :: r =>
      match decode_block r with
      | Some (n, (cap, ops)) => 1 :: brun_trace (binit n cap) ops
      | None => [0]
      end
  | 3 :: r =>
      match decode_loop r with
      | Some (n, (fb, (d0, ops))) => 1 :: loop_trace n fb d0 ops
      | None => [0]
      end
  | _ => [0]
  end.

(* ------------------------------------------------------------------------------------------ *)
(* the oracle: what the property text demands of a trace                                       *)

(* -- kind 0 -- *)
Definition p_pe : parser (nat * N) := let* i := pNat in let* k := pN in pret (i, k).
(* rc, events, manager count, manager-told-early flag *)
Definition p_ures : parser (N * (list (nat * N) * (N * N))) :=
  let* rc := pN in let* evs := plist p_pe in let* m := pN in let* e := pN in pret (rc, (evs, (m, e))).

Definition count_pe (i : nat) (k : N) (evs : list (nat * N)) : nat :=
  length (filter (fun p => (fst p =? i)%nat && (snd p =? k)) evs).

(* every live protocol got exactly one event of kind k, nobody got anything else *)
Definition told_exactly (al : list bool) (k : N) (evs : list (nat * N)) : bool :=
  forallb (fun i => (count_pe i k evs =? (if nth i al false then 1 else 0))%nat) (seq 0 (length al)) &&
  (length evs =? length (filter (fun b => b) al))%nat.

Definition ustep_ok (n : nat) (u : ustate) (o : N * (N * N)) (r : N * (list (nat * N) * (N * N))) : bool :=
  let '(op, (a, _)) := o in
  let '(rc, (evs, (m, early))) := r in
  let ai := N.to_nat a in
  match op with
  | 2 => (* the remaining protocols are told about the new connection, and it is not refused *)
         told_exactly (u_alive u) 1 evs && (rc =? 0) && (m =? 0)
  | 3 => told_exactly (u_alive u) 2 evs && (m =? b2n (u_mgr u)) && (early =? 0)
  | 6 => if (ai <? n)%nat then
           told_exactly (u_alive u) 2 evs && (m =? b2n (u_mgr u)) &&
           (* protocols before the manager *)
           (if nth ai (u_alive u) false then early =? 0 else true)
         else true
  | 4 => if (ai <? n)%nat then
           (if nth ai (u_alive u) false
            then (match evs with [(i, 5)] => (i =? ai)%nat | _ => false end) && (rc =? 0)
            else match evs with [] => true | _ => false end) && (m =? 0)
         else true
  | 7 => (* no name is offered for negotiation without a protocol behind it (rc = number of panics of
            protocol_codec), whichever protocols have exited *)
         told_exactly (u_alive u) 1 evs && (rc =? 0) && (m =? 0)
  | 8 => (* a substream negotiated under a main or fallback name reaches the protocol it belongs to, if it
            still runs; nobody else *)
         match negotiated (mk_tbl n UNIT_FB) a with
         | Some i => if nth i (u_alive u) false
                     then (match evs with [(j, 3)] => (j =? i)%nat | _ => false end) && (rc =? 0)
                     else match evs with [] => true | _ => false end
         | None => match evs with [] => negb (rc =? 0) | _ => false end
         end && (m =? 0)
  | _ => match evs with [] => m =? 0 | _ => false end
  end.

Fixpoint urun_ok (n : nat) (u : ustate) (ops : list (N * (N * N)))
         (rs : list (N * (list (nat * N) * (N * N)))) : bool :=
  match ops, rs with
  | [], [] => true
  | o :: ops', r :: rs' => ustep_ok n u o r && urun_ok n (fst (ustep n u o)) ops' rs'
  | _, _ => false
  end.

(* -- kind 1 -- *)
Record pst := mkP {
  p_conn : list bool * list bool;    (* per observer: currently established, as seen by it *)
  p_al : list bool * list bool;      (* protocol alive flags (n+3) per node, from the script *)
  p_bup : bool
}.

(* one observer's new events: established and closed alternate starting with established;
   substream events only while established *)
Fixpoint seq_ok (c : bool) (evs : list N) : option bool :=
  match evs with
  | [] => Some c
  | e :: r =>
      if e =? 1 then (if c then None else seq_ok true r)
      else if e =? 2 then (if c then seq_ok false r else None)
      else if (e =? 3) || (e =? 4) || (e =? 5) then (if c then seq_ok c r else None)
      else if e =? 6 then seq_ok c r
      else None
  end.

Fixpoint seqs_ok (cs : list bool) (ls : list (list N)) : option (list bool) :=
  match cs, ls with
  | [], [] => Some []
  | c :: cs', l :: ls' =>
      match seq_ok c l, seqs_ok cs' ls' with
      | Some c1, Some r => Some (c1 :: r)
      | _, _ => None
      end
  | _, _ => None
  end.

Definition silent (ls : list (list N)) : bool := forallb (fun l => match l with [] => true | _ => false end) ls.
Definition no_closed (ls : list (list N)) : bool := forallb (fun l => negb (existsb (N.eqb 2) l)) ls.

(* every live user protocol agrees with the application about the connection *)
Definition agree (n : nat) (al conn : list bool) : bool :=
  let app := hd false conn in
  forallb (fun i => negb (nth i al false) || Bool.eqb (nth (S i) conn false) app) (seq 0 (S n)).

(* observers of dead protocols stay silent *)
Definition dead_silent (n : nat) (al : list bool) (ls : list (list N)) : bool :=
  forallb (fun i => nth i al false || match nth (S i) ls [] with [] => true | _ => false end) (seq 0 (S n)).

Definition kill (x : N) (y : nat) (al : list bool * list bool) : list bool * list bool :=
  if x =? 0 then (set_nth y false (fst al), snd al) else (fst al, set_nth y false (snd al)).

Definition count_k1 (l : list N) : nat := length (filter (N.eqb 1) l).

Definition estep_ok (n : nat) (p : pst) (s : N * (N * (N * N))) (rc : N) (la lb : list (list N)) : option pst :=
  let '(op, (a, (b, _))) := s in
  let y := N.to_nat b in
  match seqs_ok (fst (p_conn p)) la, seqs_ok (snd (p_conn p)) lb with
  | Some ca, Some cb =>
      let asked := negb (rc =? 2) in
      let al1 := if (((op =? 10) || (op =? 13)) && asked) || (op =? 14) then kill a y (p_al p) else p_al p in
      let bup1 := if op =? 18 then false else p_bup p in
      let appa0 := hd false (fst (p_conn p)) in
      let appb0 := hd false (snd (p_conn p)) in
      let appa := hd false ca in
      let appb := hd false cb in
      let actor_al1 := if a =? 0 then fst al1 else snd al1 in
      let ok :=
        (* protocols that had exited before the step, and a node that is down, are silent *)
        dead_silent n (fst (p_al p)) la && dead_silent n (snd (p_al p)) lb &&
        (p_bup p || silent lb) &&
        (* told exactly like the manager: every live protocol agrees with the application *)
        agree n (fst al1) ca && (negb bup1 || agree n (snd al1) cb) &&
        (* the end of a connection is noticed at both ends *)
        (if bup1 then Bool.eqb appa appb else negb appa) &&
        (* the exit of one protocol, or a substream for it, closes nothing while another protocol
           of the node is still there. Step 14 also makes a NEW connection: if the other node has no
           protocol left, nobody there keeps it open and it is announced and closed at once (the clause
           "a new connection is announced" below says so); that closing is not caused by the exit *)
        (if ((op =? 10) || (op =? 12) || (op =? 13) || (op =? 14)) && existsb (fun x => x) actor_al1 &&
            (negb (op =? 14) || existsb (fun x => x) (if a =? 0 then snd al1 else fst al1))
         then no_closed la && no_closed lb else true) &&
        (* a new connection is announced on both sides *)
        (if ((op =? 11) || (op =? 14)) && p_bup p && negb appa0 && negb appb0
         then (rc =? 0) &&
              (* ... and stays, unless a node has no protocol left to keep it open *)
              (if existsb (fun x => x) (fst al1) && existsb (fun x => x) (snd al1)
               then appa && appb else Bool.eqb appa appb)
         else true) &&
        (* bounce: the new connection is announced to both applications (exactly once; that it is announced
           BEFORE it is reported closed is what seq_ok demands of every observer) *)
        (if (op =? 21) && (rc =? 0) && p_bup p && negb appa0 && negb appb0
         then (count_k1 (hd [] la) =? 1)%nat && (count_k1 (hd [] lb) =? 1)%nat else true) &&
        (* termination causes terminate *)
        (if ((op =? 15) && (rc =? 0)) || (op =? 16) || (op =? 17) || (op =? 20) || ((op =? 18) && (rc =? 0)) ||
            ((op =? 21) && (rc =? 0))
         then negb appa && (negb bup1 || negb appb) else true) in
      if ok then Some (mkP (ca, cb) al1 bup1) else None
  | _, _ => None
  end.

Definition p_step (nobs : nat) : parser (N * (list (list N) * list (list N))) :=
  let* rc := pN in let* la := prep nobs (plist pN) in let* lb := prep nobs (plist pN) in pret (rc, (la, lb)).

Fixpoint erun_ok (n : nat) (p : pst) (steps : list (N * (N * (N * N))))
         (rs : list (N * (list (list N) * list (list N)))) : option pst :=
  match steps, rs with
  | [], [] => Some p
  | s :: steps', (rc, (la, lb)) :: rs' =>
      match estep_ok n p s rc la lb with
      | Some p1 => erun_ok n p1 steps' rs'
      | None => None
      end
  | _, _ => None
  end.

(* -- kind 2 -- *)
Definition p_pair : parser (N * N) := let* a := pN in let* b := pN in pret (a, b).
(* rc, outputs (kind, conn), received (kind, conn), queue lengths, (conn, phase) *)
Definition p_bres (n : nat) : parser (N * (list (N * N) * (list (N * N) * (list N * list (N * N))))) :=
  let* rc := pN in let* outs := plist p_pair in let* got := plist p_pair in
  let* ql := prep n pN in let* cs := plist p_pair in pret (rc, (outs, (got, (ql, cs)))).

Definition pair_eqb (a b : N * N) : bool := (fst a =? fst b) && (snd a =? snd b).
Definition count_pair (x : N * N) (l : list (N * N)) : nat := length (filter (pair_eqb x) l).

(* what protocol p received about connection c, in order: established, then closed, each at most
   once, nothing after closed *)
Fixpoint recv_ok (seen_est seen_closed : list N) (l : list (N * N)) : bool :=
  match l with
  | [] => true
  | (k, c) :: r =>
      if existsb (N.eqb c) seen_closed then false
      else if k =? 1 then negb (existsb (N.eqb c) seen_est) && recv_ok (c :: seen_est) seen_closed r
      else if k =? 2 then existsb (N.eqb c) seen_est && recv_ok seen_est (c :: seen_closed) r
      else existsb (N.eqb c) seen_est && recv_ok seen_est seen_closed r
  end.

Definition block_ok (n : nat) (ops : list (N * (N * N)))
           (rs : list (N * (list (N * N) * (list (N * N) * (list N * list (N * N)))))) : bool :=
  let outs_upto := fun k => flat_map (fun r => fst (snd r)) (firstn k rs) in
  let all_outs := outs_upto (length rs) in
  let conns := match last rs (0, ([], ([], ([], [])))) with (_, (_, (_, (_, cs)))) => cs end in
  let ql_end := match last rs (0, ([], ([], ([], [])))) with (_, (_, (_, (ql, _)))) => ql end in
  let killed := flat_map (fun o => if fst o =? 5 then [fst (snd o)] else []) ops in
  let got_of := fun p : N => flat_map (fun or => if (fst (fst or) =? 4) && (fst (snd (fst or)) =? p)
                                              then fst (snd (snd (snd or))) else [])
                                   (combine ops rs) in
  (* the manager is told at most once per connection, the accept resolves at most once *)
  forallb (fun c => Nat.leb (count_pair (2, fst c) all_outs) 1 && Nat.leb (count_pair (1, fst c) all_outs) 1) conns &&
  (* told closed only by a task that is gone; never while its closed report is still waiting *)
  forallb (fun k =>
     match nth_error rs k with
     | Some (_, (outs, (_, (_, cs)))) =>
         forallb (fun o => negb (fst o =? 2) || existsb (pair_eqb (snd o, 4)) cs) outs &&
         forallb (fun cp => negb (snd cp =? 3) || Nat.eqb (count_pair (2, fst cp) (outs_upto (S k))) 0) cs
     | None => true
     end) (seq 0 (length rs)) &&
  (* every protocol sees a well-formed stream per connection *)
  forallb (fun p => recv_ok [] [] (got_of (N.of_nat p))) (seq 0 n) &&
  (* when everything has been received at the end, nobody is left waiting, every task that is gone
     has told the manager exactly once, and every protocol still running was told closed *)
  (if forallb (N.eqb 0) ql_end then
     forallb (fun cp => negb ((snd cp =? 0) || (snd cp =? 2) || (snd cp =? 3)) &&
                        (if snd cp =? 4 then Nat.eqb (count_pair (2, fst cp) all_outs) 1 else true) &&
                        Nat.eqb (count_pair (1, fst cp) all_outs) 1 &&
                        (if snd cp =? 4 then
                           forallb (fun p => existsb (N.eqb (N.of_nat p)) killed ||
                                             Nat.eqb (count_pair (2, fst cp) (got_of (N.of_nat p))) 1) (seq 0 n)
                         else true)) conns
   else true).

(* -- kind 3 -- what the property text demands of a loop-level trace, from the script alone (no model
   of the loop): who is told what, how often, in which record, manager after protocols, causes end the
   connection and nothing else does. *)
Record lrec := mkLR { r_rc : N; r_ed : N; r_em : N; r_ev : list (list N); r_mgr : N; r_state : N; r_arm : N }.
Definition p_lrec (n : nat) : parser lrec :=
  let* rc := pN in let* ed := pN in let* em := pN in let* ev := prep n (plist pN) in
  let* m := pN in let* st := pN in let* arm := pN in pret (mkLR rc ed em ev m st arm).

Record ost := mkO { o_alive : list bool; o_mgr : bool; o_handle : list bool; o_ended : N; o_pend : nat }.

Definition count_k (k : N) (l : list N) : nat := length (filter (N.eqb k) l).
Definition only_kinds (ks : list N) (l : list N) : bool := forallb (fun x => existsb (N.eqb x) ks) l.

(* every running protocol exactly one event of kind k; nobody anything else of kind 1 or 2 *)
Definition each_once (al : list bool) (k : N) (ev : list (list N)) : bool :=
  forallb (fun i => (count_k k (nth i ev []) =? (if nth i al false then 1 else 0))%nat) (seq 0 (length al)).
Definition none_of (k : N) (ev : list (list N)) : bool := forallb (fun l => (count_k k l =? 0)%nat) ev.
Definition all_silent (ev : list (list N)) : bool := forallb (fun l => match l with [] => true | _ => false end) ev.

Definition lstep_ok (n : nat) (tbl : list Names.proto) (o : ost) (c : lcase) (r : lrec) : option ost :=
  let '(op, (a, (b, (f, _)))) := c in
  let ai := N.to_nat a in
  let was_running := o_ended o =? 0 in
  (* the script's effect on who runs and who holds a handle *)
  let al1 := if (op =? 5) && (ai <? n)%nat then set_nth ai false (o_alive o) else o_alive o in
  let mgr1 := if op =? 6 then false else o_mgr o in
  let h1 := if (op =? 4) && (ai <? n)%nat then set_nth ai false (o_handle o)
            else if (op =? 9) && (r_rc r =? 0) && N.testbit (if b =? 0 then 12 else b) 2
                 then map (fun _ => false) (o_handle o) else o_handle o in
  let ends := negb (r_state r =? 0) && was_running in
  (* a negotiation the remote never answers keeps a permit: the connection stays open for it *)
  let nopend := (o_pend o =? 0)%nat in
  let pend1 := if ((op =? 1) || (op =? 2)) && (r_rc r =? 0) && (b =? 4) then S (o_pend o) else o_pend o in
  let mask := if b =? 0 then 12 else b in
  let cause :=
    ((op =? 3) && (r_rc r =? 0)) || ((op =? 7) && (r_rc r =? 0)) ||
    ((op =? 9) && (r_rc r =? 0) && match race_arms (o_handle o) (o_pend o) mask with [] => false | _ => true end) ||
    ((op =? 4) && negb (existsb (fun x => x) h1) && nopend) in
  let kk : N := if b =? 0 then 4 else 5 in
  let ok :=
    (* established is told at accept only *)
    none_of 1 (r_ev r) &&
    (* nothing is said to a protocol that has exited *)
    forallb (fun i => nth i al1 false || match nth i (r_ev r) [] with [] => true | _ => false end) (seq 0 n) &&
    (if negb was_running then
       (* afterwards: silence, and the verdict stays *)
       all_silent (r_ev r) && (r_mgr r =? 0) && (r_state r =? o_ended o) && (r_arm r =? 0)
     else if ends then
       (* the connection ends: every protocol still running is told closed exactly once, then the manager
          exactly once; it ends only on a termination cause *)
       each_once al1 2 (r_ev r) && (r_mgr r =? b2n mgr1) && cause &&
       (1 <=? r_arm r) && (r_arm r <=? 5) &&
       (* protocols before the manager: while the closed notice of a running protocol waits for room, the
          manager has not been told and the task has not finished *)
       (if (1 <=? f) && (f <=? N.of_nat n) && nth (N.to_nat (f - 1)) al1 false
        then (r_ed r =? 0) && (r_em r =? 0) else true)
     else
       (* it goes on: nobody is told closed, and every termination cause would have ended it *)
       none_of 2 (r_ev r) && (r_mgr r =? 0) && negb cause && (r_arm r =? 0) && (r_ed r =? 0) && (r_em r =? 0) &&
       (* the remaining protocols keep using it *)
       (if (op =? 1) && (r_rc r =? 0) && nth ai al1 false && negb (b =? 4)
        then (count_k kk (nth ai (r_ev r) []) =? 1)%nat else true) &&
       (if (op =? 2) && (r_rc r =? 0) && (b =? 0)
        then match negotiated tbl a with
             | Some i => if nth i al1 false then (count_k 3 (nth i (r_ev r) []) =? 1)%nat else true
             | None => true
             end
        else true)) in
  if ok then Some (mkO al1 mgr1 h1 (if was_running then r_state r else o_ended o) pend1) else None.

Fixpoint lrun_ok (n : nat) (tbl : list Names.proto) (o : ost) (cs : list lcase) (rs : list lrec) : bool :=
  match cs, rs with
  | [], [] => true
  | c :: cs', r :: rs' =>
      match lstep_ok n tbl o c r with Some o1 => lrun_ok n tbl o1 cs' rs' | None => false end
  | _, _ => false
  end.

Definition loop_ok (n : nat) (fb d0 : N) (ops : list lcase) (est : list (list N)) (r0 : lrec) (rs : list lrec) : bool :=
  let al := mask_alive n d0 in
  (* accept: every protocol that runs is told established exactly once, nothing else *)
  each_once al 1 est && forallb (only_kinds [1]) est &&
  (* first polls: the connection stays unless nobody took a handle *)
  none_of 1 (r_ev r0) &&
  (if existsb (fun x => x) al
   then (r_state r0 =? 0) && all_silent (r_ev r0) && (r_mgr r0 =? 0)
   else negb (r_state r0 =? 0) && all_silent (r_ev r0) && (r_mgr r0 =? 1)) &&
  lrun_ok n (mk_tbl n fb) (mkO al true al (r_state r0) 0) ops rs.

Definition pst_init (n : nat) : pst :=
  mkP (repeat false (n + 2), repeat false (n + 2)) (repeat true (n + 3), repeat true (n + 3)) true.

Definition prop_ok (case trace : list N) : bool :=
  match case, trace with
  | 0 :: r, 1 :: body =>
      match decode_unit r with
      | Some (n, ops) =>
          match pall (prep (length ops) p_ures) body with
          | Some rs => urun_ok n (mkU (repeat true n) true) ops rs
          | None => false
          end
      | None => false
      end
  | 1 :: r, 1 :: body =>
      match decode_e2e r with
      | Some (n, (_, steps)) =>
          match pall (let* rs := prep (length steps) (p_step (n + 2)) in
                      let* da := pN in let* db := pN in pret (rs, (da, db))) body with
          | Some (rs, (da, db)) =>
              match erun_ok n (pst_init n) steps rs with
              | Some p =>
                  (* afterwards the peer counts as disconnected and can be dialed again *)
                  (da =? (if hd false (fst (p_conn p)) then 3 else 0)) &&
                  (if p_bup p then db =? (if hd false (snd (p_conn p)) then 3 else 0) else db =? 7)
              | None => false
              end
          | None => false
          end
      | None => false
      end
  | 2 :: r, 1 :: body =>
      match decode_block r with
      | Some (n, (_, ops)) =>
          match pall (prep (length ops) (p_bres n)) body with
          | Some rs => block_ok n ops rs
          | None => false
          end
      | None => false
      end
  | 3 :: r, 1 :: body =>
      match decode_loop r with
      | Some (n, (fb, (d0, ops))) =>
          match pall (let* est := prep n (plist pN) in let* r0 := p_lrec n in
                      let* rs := prep (length ops) (p_lrec n) in pret (est, (r0, rs))) body with
          | Some (est, (r0, rs)) => loop_ok n fb d0 ops est r0 rs
          | None => false
          end
      | None => false
      end
  | _, [0] => match case with
              | 3 :: r => match decode_loop r with None => true | Some _ => false end
              | 0 :: r => match decode_unit r with None => true | Some _ => false end
              | 1 :: r => match decode_e2e r with None => true | Some _ => false end
              | 2 :: r => match decode_block r with None => true | Some _ => false end
              | _ => true
              end
  | _, _ => false
  end.

(* No known-finding classes any more (F-C07a and F-C07b are repaired): every failing case is a
   violation. *)
Definition known_class (case trace : list N) : N := 0.
