(* C07 — executable model of the per-connection task of litep2p's transports (written after the TCP
   loop; the WebSocket and QUIC loops behave the same and have their own exit tables, see below)
   (src/transport/tcp/connection.rs: start / handle_yamux_substream / handle_negotiated_substream /
   handle_protocol_command), of the reports it makes through its ProtocolSet
   (src/protocol/protocol_set.rs: report_connection_established / report_connection_closed /
   report_substream_open / report_substream_open_failure), of the accept path
   (src/transport/tcp/mod.rs: accept) and of a node = transport manager (coq/Mgr/Model.v) + the
   connection tasks it spawned. Definitions only.

   One model step of a task = one iteration of the `tokio::select!` loop in `start`, i.e. one
   event handled to completion. Protocols are numbered 0..n-1; `alive` says whether the receiving
   end of the protocol's channel still exists (a protocol whose event loop has ended, e.g. because
   the user dropped its handle, has a dead receiver). The model follows the code *after* the
   `fix:` commits for F-C07a (a dead protocol no longer makes the loop exit; every exit reports) and
   F-C07b (a dead protocol no longer makes accept fail).

   Not modelled: `.await` on a full protocol channel (a send parks the loop; it cannot fail other
   than by the receiver being gone), HashMap iteration order (notes are produced in index order;
   the harness sorts), the yamux / noise / multistream layers below the events. *)
From Coq Require Import List NArith Bool.
From V.Mgr Require Model.
Import ListNotations.
Open Scope N_scope.

(* ------------------------------------------------------------------------------------------ *)
(* messages a connection sends to the protocols and to the manager                             *)

Inductive note :=
| NEst (i : nat)                        (* InnerTransportEvent::ConnectionEstablished to protocol i *)
| NClosed (i : nat)                     (* InnerTransportEvent::ConnectionClosed to protocol i *)
| NSubOpen (i : nat) (outbound : bool)  (* InnerTransportEvent::SubstreamOpened *)
| NSubFail (i : nat)                    (* InnerTransportEvent::SubstreamOpenFailure *)
| NMgrClosed.                           (* TransportManagerEvent::ConnectionClosed *)

(* `for every protocol: tx.send(..)`: a dead receiver is skipped and remembered as an error *)
Fixpoint send_all_from (k : nat) (mk : nat -> note) (al : list bool) : list note * bool :=
  match al with
  | [] => ([], true)
  | a :: t =>
      let '(ns, ok) := send_all_from (S k) mk t in
      if a then (mk k :: ns, ok) else (ns, false)
  end.
Definition send_all (mk : nat -> note) (al : list bool) : list note * bool := send_all_from 0 mk al.

(* ProtocolSet::report_connection_closed: every protocol (first error remembered), THEN the
   manager; the result is the manager's send error, else the remembered protocol error *)
Definition report_closed (al : list bool) (mgr_up : bool) : list note * bool :=
  let '(ns, ok) := send_all NClosed al in
  if mgr_up then (ns ++ [NMgrClosed], ok) else (ns, false).

Definition all_alive (al : list bool) : bool := forallb (fun b => b) al.

(* ProtocolSet::report_connection_established (after the `fix:` commit for F-C07b): every protocol,
   a dead receiver is skipped; it does not fail *)
Definition report_established (al : list bool) : list note * bool :=
  (fst (send_all NEst al), true).

(* ProtocolSet::report_substream_open / report_substream_open_failure: one send to one protocol *)
Definition report_sub_open (al : list bool) (i : nat) (outbound : bool) : list note * bool :=
  if nth i al false then ([NSubOpen i outbound], true) else ([], false).
Definition report_sub_fail (al : list bool) (i : nat) : list note * bool :=
  if nth i al false then ([NSubFail i], true) else ([], false).

(* ------------------------------------------------------------------------------------------ *)
(* exit sites of the event loop — must equal coq/gen/ConnExits.v (Proofs.exits_match)          *)

(* (function, (kind, (callee, report_connection_closed called before the site in the same arm)))
   function: 0 handle_yamux_substream 1 handle_negotiated_substream 2 handle_protocol_command
   3 start; kind: 0 `?` 1 `return` 2 tail `Ok(true)`; callee: 1 report_connection_closed
   5 handle_yamux_substream 6 handle_negotiated_substream 7 handle_protocol_command *)
Definition site := (N * (N * (N * bool)))%type.

Definition model_exits : list site :=
  [ (* handle_yamux_substream, arm Some(Ok(stream)), no permit *)
    (0, (0, (1, true)));   (*  0: report_connection_closed(..).await?   *)
    (0, (1, (1, true)));   (*  1: return Ok(true)                       *)
    (* arm Some(Err(error)) *)
    (0, (0, (1, true)));   (*  2 *)
    (0, (2, (1, true)));   (*  3: Ok(true) *)
    (* arm None *)
    (0, (0, (1, true)));   (*  4 *)
    (0, (2, (1, true)));   (*  5 *)
    (* handle_negotiated_substream: no exit *)
    (* handle_protocol_command, arm Some(ForceClose) *)
    (2, (0, (1, true)));   (*  6 *)
    (2, (2, (1, true)));   (*  7 *)
    (* arm None *)
    (2, (0, (1, true)));   (*  8 *)
    (2, (2, (1, true)));   (*  9 *)
    (* start *)
    (3, (0, (5, false)));  (* 10: self.handle_yamux_substream(..).await?  *)
    (3, (1, (5, false)));  (* 11: return Ok(()) after it returned true    *)
    (3, (0, (6, false)));  (* 12: self.handle_negotiated_substream(..).await? *)
    (3, (0, (7, false)));  (* 13: self.handle_protocol_command(..).await? *)
    (3, (1, (7, false)))   (* 14: return Ok(()) *)
  ].

Definition site_fn (s : site) : N := fst s.
Definition site_kind (s : site) : N := fst (snd s).
Definition site_callee (s : site) : N := fst (snd (snd s)).
Definition site_closed (s : site) : bool := snd (snd (snd s)).
Definition no_site : site := (9, (9, (9, false))).

(* ------------------------------------------------------------------------------------------ *)
(* the event loop                                                                              *)

Inductive yamux_ev :=
| YSub (permit : bool)   (* inbound yamux substream; does try_get_permit succeed? *)
| YErr                   (* the yamux connection failed *)
| YEof.                  (* the yamux connection ended *)
Inductive neg_ev :=
| NegOk (i : nat) (outbound : bool)   (* a substream of protocol i was negotiated *)
| NegFail (i : nat)                   (* an outbound substream of protocol i failed / timed out *)
| NegFailAnon.                        (* an inbound substream failed to negotiate *)
Inductive cmd_ev :=
| COpen      (* ProtocolCommand::OpenSubstream *)
| CForce     (* ProtocolCommand::ForceClose *)
| CNone.     (* every sender of the command channel is gone: nobody keeps the connection open *)
Inductive cev :=
| EYamux (y : yamux_ev) | ENeg (n : neg_ev) | ECmd (c : cmd_ev)
| EDie (i : nat)         (* environment: the receiver of protocol i is dropped *)
| EMgrDie.               (* environment: the manager's receiver is dropped (node shutting down) *)

(* what a handler hands back to `start`: carry on, or leave through exit site `inner` *)
Inductive hres := Go | Leave (inner : nat).

Record task := mkTask {
  alive : list bool;
  mgr_up : bool;
  gone : option (nat * nat)   (* exited: (site inside the handler, site inside `start`) *)
}.

Definition closing (t : task) (site_err site_stop : nat) : list note * hres :=
  let '(ns, ok) := report_closed (alive t) (mgr_up t) in
  (ns, Leave (if ok then site_stop else site_err)).

Definition h_yamux (t : task) (y : yamux_ev) : list note * hres :=
  match y with
  | YSub true => ([], Go)
  | YSub false => closing t 0 1
  | YErr => closing t 2 3
  | YEof => closing t 4 5
  end.

Definition h_neg (t : task) (n : neg_ev) : list note * hres :=
  match n with
  | NegOk i ob => (fst (report_sub_open (alive t) i ob), Go)    (* a failed report is logged only *)
  | NegFail i => (fst (report_sub_fail (alive t) i), Go)
  | NegFailAnon => ([], Go)
  end.

Definition h_cmd (t : task) (c : cmd_ev) : list note * hres :=
  match c with
  | COpen => ([], Go)
  | CForce => closing t 6 7
  | CNone => closing t 8 9
  end.

(* the site of `start` the loop leaves through, given the handler and the site inside it *)
Definition outer_site (fn : N) (inner : nat) : nat :=
  let err := site_kind (nth inner model_exits no_site) =? 0 in
  match fn with
  | 0 => if err then 10%nat else 11%nat
  | 1 => 12%nat
  | _ => if err then 13%nat else 14%nat
  end.

Definition finish (t : task) (fn : N) (r : list note * hres) : task * list note :=
  match snd r with
  | Go => (t, fst r)
  | Leave i => (mkTask (alive t) (mgr_up t) (Some (i, outer_site fn i)), fst r)
  end.

Fixpoint set_nth {A} (i : nat) (x : A) (l : list A) : list A :=
  match l, i with
  | [], _ => []
  | _ :: t, O => x :: t
  | a :: t, S j => a :: set_nth j x t
  end.

Definition cstep (t : task) (e : cev) : task * list note :=
  match gone t with
  | Some _ => (t, [])
  | None =>
      match e with
      | EYamux y => finish t 0 (h_yamux t y)
      | ENeg n => finish t 1 (h_neg t n)
      | ECmd c => finish t 2 (h_cmd t c)
      | EDie i => (mkTask (set_nth i false (alive t)) (mgr_up t) None, [])
      | EMgrDie => (mkTask (alive t) false None, [])
      end
  end.

Fixpoint crun (t : task) (es : list cev) : task * list note :=
  match es with
  | [] => (t, [])
  | e :: r => let '(t1, n1) := cstep t e in let '(t2, n2) := crun t1 r in (t2, n1 ++ n2)
  end.

(* TcpTransport::accept (same in websocket / quic): tell the protocols, then spawn the event loop;
   `report_connection_established(..).await?` can no longer fail *)
Definition accept (al : list bool) (mup : bool) : option task * list note :=
  let '(ns, ok) := report_established al in
  if ok then (Some (mkTask al mup None), ns) else (None, ns).

(* the termination causes of the property text *)
Definition is_cause (e : cev) : bool :=
  match e with
  | EYamux (YSub false) | EYamux YErr | EYamux YEof | ECmd CForce | ECmd CNone => true
  | _ => false
  end.

(* the loop as it was before the fix (F-C07a): the three `?` that left without reporting *)
Definition cstep_unfixed (t : task) (e : cev) : task * list note :=
  match gone t with
  | Some _ => (t, [])
  | None =>
      match e with
      | EYamux (YSub false) => (mkTask (alive t) (mgr_up t) (Some (0%nat, 10%nat)), [])
      | ENeg (NegOk i ob) =>
          let '(ns, ok) := report_sub_open (alive t) i ob in
          (if ok then t else mkTask (alive t) (mgr_up t) (Some (0%nat, 12%nat)), ns)
      | ENeg (NegFail i) =>
          let '(ns, ok) := report_sub_fail (alive t) i in
          (if ok then t else mkTask (alive t) (mgr_up t) (Some (0%nat, 12%nat)), ns)
      | _ => cstep t e
      end
  end.

(* ------------------------------------------------------------------------------------------ *)
(* the WebSocket and QUIC loops (src/transport/{websocket,quic}/connection.rs)                 *)

(* After their `fix:` commit these loops behave like the TCP loop (`cstep` is the model of all
   three), but they are written as ONE function `start` whose `tokio::select!` arms contain the
   handlers inline: an exit of the loop is a single site, not a (handler, start) pair, and the
   command arms leave through `return report_connection_closed(..).await` instead of `?` +
   `Ok(true)`. QUIC has no separate "connection ended" arm: `accept_bi()` fails for both an error
   and a close. Each loop therefore has its own exit table — which must equal
   coq/gen/ConnExits.v (Proofs.ws_exits_match / quic_exits_match) — and its own map from the
   exiting transitions of the model to the sites.
   First column: the select! branch, 0 connection 1 pending_substreams 2 protocol commands. *)
Definition ws_model_exits : list site :=
  [ (* branch 0, arm Some(Ok(stream)), no permit *)
    (0, (0, (1, true)));   (* 0: report_connection_closed(..).await?  *)
    (0, (1, (1, true)));   (* 1: return Ok(())                        *)
    (* arm Some(Err(error)) *)
    (0, (0, (1, true)));   (* 2 *)
    (0, (1, (1, true)));   (* 3 *)
    (* arm None *)
    (0, (0, (1, true)));   (* 4 *)
    (0, (1, (1, true)));   (* 5 *)
    (* branch 1: no exit *)
    (* branch 2, arm Some(ForceClose) *)
    (2, (1, (1, true)));   (* 6: return report_connection_closed(..).await *)
    (* arm None *)
    (2, (1, (1, true)))    (* 7 *)
  ].

Definition quic_model_exits : list site :=
  [ (* branch 0, arm Ok((send, recv)), no permit *)
    (0, (1, (1, true)));   (* 0: return report_connection_closed(..).await *)
    (* arm Err(error): the connection failed or ended *)
    (0, (1, (1, true)));   (* 1 *)
    (* branch 1: no exit *)
    (* branch 2, arm None *)
    (2, (1, (1, true)));   (* 2 *)
    (* arm Some(ForceClose) *)
    (2, (1, (1, true)))    (* 3 *)
  ].

Definition branch_of (e : cev) : N :=
  match e with EYamux _ => 0 | ENeg _ => 1 | ECmd _ => 2 | _ => 9 end.

(* the site through which the loop leaves when it handles e in state t (None: it carries on) *)
Definition ws_site (t : task) (e : cev) : option nat :=
  let ok := snd (report_closed (alive t) (mgr_up t)) in
  match e with
  | EYamux (YSub false) => Some (if ok then 1 else 0)%nat
  | EYamux YErr => Some (if ok then 3 else 2)%nat
  | EYamux YEof => Some (if ok then 5 else 4)%nat
  | ECmd CForce => Some 6%nat
  | ECmd CNone => Some 7%nat
  | _ => None
  end.

Definition quic_site (t : task) (e : cev) : option nat :=
  match e with
  | EYamux (YSub false) => Some 0%nat
  | EYamux YErr | EYamux YEof => Some 1%nat
  | ECmd CNone => Some 2%nat
  | ECmd CForce => Some 3%nat
  | _ => None
  end.

(* ------------------------------------------------------------------------------------------ *)
(* a node: the transport manager + the connection tasks + the protocols                        *)

Record node := mkNode {
  nd_mgr : Model.mgr;
  nd_alive : list bool;                                   (* protocol receivers of this node *)
  nd_tasks : list (Model.conn * (Model.peer * task))      (* spawned event loops, newest first *)
}.

Inductive nev :=
| NMgr (e : Model.ev)                      (* an event of the manager loop other than AcceptDone / Closed *)
| NAccept (c : Model.conn)                 (* the accept future of c runs to completion *)
| NTask (c : Model.conn) (e : cev)         (* the task of connection c handles one loop event *)
| NProtoDie (i : nat).                     (* a protocol of this node exits *)

Inductive nout :=
| OMgr (o : Model.out)
| ONote (c : Model.conn) (x : note).

Definition is_internal (e : Model.ev) : bool :=
  match e with Model.AcceptDone _ _ | Model.Closed _ _ => true | _ => false end.

Definition has_mgr_closed (ns : list note) : bool :=
  existsb (fun x => match x with NMgrClosed => true | _ => false end) ns.

Fixpoint find_task (c : Model.conn) (l : list (Model.conn * (Model.peer * task)))
  : option (Model.peer * task) :=
  match l with
  | [] => None
  | (c', pt) :: r =>
      if (c' =? c) && match gone (snd pt) with None => true | Some _ => false end
      then Some pt else find_task c r
  end.
Fixpoint update_task (c : Model.conn) (t : task) (l : list (Model.conn * (Model.peer * task)))
  : list (Model.conn * (Model.peer * task)) :=
  match l with
  | [] => []
  | (c', pt) :: r =>
      if (c' =? c) && match gone (snd pt) with None => true | Some _ => false end
      then (c', (fst pt, t)) :: r else (c', pt) :: update_task c t r
  end.

Definition is_loop_event (e : cev) : bool :=
  match e with EDie _ | EMgrDie => false | _ => true end.

(* the events the manager is actually fed during a node step (ghost, for the composition theorem) *)
Definition node_step (L : Model.limits) (nd : node) (e : nev) : node * (list nout * list Model.ev) :=
  match e with
  | NMgr me =>
      if is_internal me then (nd, ([], []))
      else
        let '(m1, os) := Model.step L (nd_mgr nd) me in
        (mkNode m1 (nd_alive nd) (nd_tasks nd), (map OMgr os, [me]))
  | NAccept c =>
      match Model.lookup c (Model.accepting (nd_mgr nd)) with
      | None => (nd, ([], []))
      | Some (p, _) =>
          let '(ot, ns) := accept (nd_alive nd) true in
          let ok := match ot with Some _ => true | None => false end in
          let '(m1, os) := Model.step L (nd_mgr nd) (Model.AcceptDone c ok) in
          (mkNode m1 (nd_alive nd)
                  (match ot with Some t => (c, (p, t)) :: nd_tasks nd | None => nd_tasks nd end),
           (map (ONote c) ns ++ map OMgr os, [Model.AcceptDone c ok]))
      end
  | NTask c ce =>
      if negb (is_loop_event ce) then (nd, ([], []))
      else
        match find_task c (nd_tasks nd) with
        | None => (nd, ([], []))
        | Some (p, t) =>
            let '(t1, ns) := cstep t ce in
            let ts := update_task c t1 (nd_tasks nd) in
            if has_mgr_closed ns then
              let '(m1, os) := Model.step L (nd_mgr nd) (Model.Closed p c) in
              (mkNode m1 (nd_alive nd) ts, (map (ONote c) ns ++ map OMgr os, [Model.Closed p c]))
            else (mkNode (nd_mgr nd) (nd_alive nd) ts, (map (ONote c) ns, []))
        end
  | NProtoDie i =>
      (mkNode (nd_mgr nd) (set_nth i false (nd_alive nd))
              (map (fun ct => (fst ct, (fst (snd ct), fst (cstep (snd (snd ct)) (EDie i))))) (nd_tasks nd)),
       ([], []))
  end.

Fixpoint node_run (L : Model.limits) (nd : node) (es : list nev) : node * (list nout * list Model.ev) :=
  match es with
  | [] => (nd, ([], []))
  | e :: r =>
      let '(n1, (o1, f1)) := node_step L nd e in
      let '(n2, (o2, f2)) := node_run L n1 r in
      (n2, (o1 ++ o2, f1 ++ f2))
  end.

Definition node_init (nprot : nat) : node := mkNode Model.init (repeat true nprot) [].
