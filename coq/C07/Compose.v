(* C07 — composition with the transport-manager model (coq/Mgr): what the application sees when
   connections end, and the assume/guarantee link between the connection tasks and the manager. *)
From Coq Require Import List Arith NArith Bool Lia.
From Coq Require Import ZifyBool ZifyNat ZifyN.
From V.Mgr Require Import Model Caps Ledger.
From V.C07 Require Import Model Proofs.
Import ListNotations.
Open Scope N_scope.

Arguments N.add : simpl never.
Arguments N.eqb : simpl never.
Arguments N.leb : simpl never.
Arguments N.of_nat : simpl never.

(* ------------------------------------------------------------------------------------------ *)
(* peer-state facts                                                                            *)

(* primary and secondary connection are different connections *)
Definition wf_state (s : pstate) : Prop :=
  match s with Connected r (Some (SecEst s2)) => r <> s2 | _ => True end.

Lemma recorded_dial_failure_rev s d x : recorded (st_on_dial_failure s d) x -> recorded s x.
Proof.
  destruct s as [r [[e|e]|] | o | e | [e|]]; cbn [st_on_dial_failure recorded]; try tauto.
  - destruct (e =? d); cbn [recorded]; [|tauto]. intros [H|H]; [now left|discriminate].
  - destruct (e =? d); cbn [recorded]; tauto.
  - destruct (e =? d); cbn [recorded]; tauto.
Qed.

Lemma wf_dial_failure s d : wf_state s -> wf_state (st_on_dial_failure s d).
Proof.
  destruct s as [r [[e|e]|] | o | e | [e|]]; cbn [st_on_dial_failure wf_state]; try tauto;
    destruct (e =? d); cbn [wf_state]; tauto.
Qed.

Lemma recorded_established_rev s c x :
  recorded (fst (st_on_established s c)) x -> x = c \/ recorded s x.
Proof.
  destruct s as [r [[e|e]|] | o | e | [e|]]; cbn [st_on_established recorded fst]; try tauto.
  - destruct (e =? c); cbn [fst recorded]; [|tauto].
    intros [H|H]; [right; now left|left; now injection H].
  - intros [H|H]; [right; now left|left; now injection H].
  - intros [H|H]; [now left|discriminate].
  - destruct (e =? c); cbn [fst recorded]; intros [H|H]; try discriminate; now left.
  - destruct (e =? c); cbn [fst recorded]; intros [H|H]; try discriminate; now left.
  - intros [H|H]; [now left|discriminate].
Qed.

Lemma wf_established s c :
  wf_state s -> (forall x, recorded s x -> x <> c) -> wf_state (fst (st_on_established s c)).
Proof.
  destruct s as [r [[e|e]|] | o | e | [e|]]; cbn [st_on_established wf_state fst recorded]; try tauto.
  - intros _ H. destruct (e =? c); cbn [fst wf_state]; [|exact I]. apply H. now left.
  - intros _ H. apply H. now left.
  - intros _ _. destruct (e =? c); exact I.
  - intros _ _. destruct (e =? c); exact I.
Qed.

Lemma recorded_closed_rev s d x :
  wf_state s -> recorded (fst (st_on_closed s d)) x -> recorded s x /\ x <> d.
Proof.
  destruct s as [r [[e|e]|] | o | e | [e|]]; cbn [st_on_closed recorded fst wf_state]; try tauto.
  - intro W. destruct (r =? d) eqn:E1; cbn [fst recorded].
    + intros [H|H]; [|discriminate]. subst x. split; [now right|]. lia.
    + destruct (e =? d) eqn:E2; cbn [fst recorded].
      * intros [H|H]; [|discriminate]. subst x. split; [now left|lia].
      * intros [H|H]; [subst x; split; [now left|lia]|]. injection H as ->. split; [now right|lia].
  - intros _. destruct (r =? d) eqn:E1; cbn [fst recorded]; [tauto|].
    intros [H|H]; [|discriminate]. subst x. split; [now left|lia].
  - intros _. destruct (r =? d) eqn:E1; cbn [fst recorded]; [tauto|].
    intros [H|H]; [|discriminate]. subst x. split; [now left|lia].
Qed.

Lemma wf_closed s d : wf_state s -> wf_state (fst (st_on_closed s d)).
Proof.
  destruct s as [r [[e|e]|] | o | e | [e|]]; cbn [st_on_closed wf_state fst]; try tauto.
  - intro W. destruct (r =? d); cbn [fst wf_state]; [exact I|]. destruct (e =? d); cbn [fst wf_state]; tauto.
  - intros _. destruct (r =? d); exact I.
  - intros _. destruct (r =? d); exact I.
Qed.

(* the report flag of on_connection_closed, read off the states *)
Lemma closed_report_iff s d :
  wf_state s -> recorded s d ->
  (snd (st_on_closed s d) = true <-> forall x, ~ recorded (fst (st_on_closed s d)) x).
Proof.
  destruct s as [r [[e|e]|] | o | e | [e|]]; cbn [st_on_closed recorded snd fst wf_state]; try tauto.
  - intros W [H|H].
    + subst r. assert (d =? d = true) as -> by lia. cbn [fst snd recorded]. split; [discriminate|].
      intro K. exfalso. apply (K e). now left.
    + injection H as ->. assert (r =? d = false) as -> by lia. assert (d =? d = true) as -> by lia.
      cbn [fst snd recorded]. split; [discriminate|]. intro K. exfalso. apply (K r). now left.
  - intros _ [H|H]; [|discriminate]. subst r. assert (d =? d = true) as -> by lia. cbn [fst snd recorded]. tauto.
  - intros _ [H|H]; [|discriminate]. subst r. assert (d =? d = true) as -> by lia. cbn [fst snd recorded]. tauto.
Qed.

Lemma closed_unrecorded s d : ~ recorded s d -> st_on_closed s d = (s, false).
Proof.
  destruct s as [r [[e|e]|] | o | e | [e|]]; cbn [st_on_closed recorded]; try reflexivity.
  - intro H. destruct (r =? d) eqn:E1; [exfalso; apply H; left; lia|].
    destruct (e =? d) eqn:E2; [exfalso; apply H; right; f_equal; f_equal; lia|reflexivity].
  - intro H. destruct (r =? d) eqn:E1; [exfalso; apply H; left; lia|reflexivity].
  - intro H. destruct (r =? d) eqn:E1; [exfalso; apply H; left; lia|reflexivity].
Qed.

(* ------------------------------------------------------------------------------------------ *)
(* the converse of CapInv.ci_recorded: what the peer states record is live                      *)

Record RecInv (m : mgr) (l : live_t) : Prop := {
  ri_live : forall q c, recorded (state_of m q) c -> exists b, lookup c l = Some (q, b);
  ri_wf : forall q, wf_state (state_of m q)
}.

Lemma rec_init : RecInv init [].
Proof. split; intros q; cbn; tauto. Qed.

Lemma rec_state_eq m m' l :
  (forall q, state_of m' q = state_of m q) -> RecInv m l -> RecInv m' l.
Proof. intros E [H1 H2]. split; intros q; rewrite E; auto. Qed.

(* one peer's state changes to a state that records nothing new *)
Lemma rec_set_state m l p s :
  RecInv m l -> (forall x, recorded s x -> recorded (state_of m p) x) -> wf_state s ->
  RecInv (set_state m p s) l.
Proof.
  intros [H1 H2] Hs Hw. split; intros q; rewrite state_of_set_state; destruct (q =? p) eqn:E; auto.
  assert (q = p) by lia. subst q. intros c Hc. apply H1, Hs, Hc.
Qed.

Lemma closed_state m p c q :
  state_of (fst (do_closed m p c)) q =
  if q =? p then fst (st_on_closed (state_of m p) c) else state_of m q.
Proof.
  unfold do_closed. rewrite so_limits.
  destruct (st_on_closed (state_of m p) c) as [s' rep]. cbn [fst].
  rewrite state_of_set_state, so_limits. reflexivity.
Qed.

Lemma rec_closed m l p c :
  RecInv m l -> (forall q b, lookup c l = Some (q, b) -> q = p) ->
  RecInv (fst (do_closed m p c)) (remove_key c l).
Proof.
  intros [H1 H2] He. split; intros q; rewrite closed_state; destruct (q =? p) eqn:E.
  - assert (q = p) by lia. subst q. intros x Hx.
    apply recorded_closed_rev in Hx; [|apply H2]. destruct Hx as [Hx Hne].
    destruct (H1 _ _ Hx) as [b Hb]. exists b. rewrite lookup_remove_key.
    assert (x =? c = false) as -> by lia. exact Hb.
  - intros x Hx. destruct (H1 _ _ Hx) as [b Hb]. exists b. rewrite lookup_remove_key.
    destruct (x =? c) eqn:E2; [|exact Hb]. assert (x = c) by lia. subst x.
    specialize (He _ _ Hb). lia.
  - apply wf_closed, H2.
  - apply H2.
Qed.

(* the state of every peer after TransportEvent::ConnectionEstablished *)
Lemma established_state L m p c t lst f :
  let r := do_established L m p c t lst f in
  (forall q, q <> p -> state_of (fst r) q = state_of m q) /\
  ((existsb (is_accept c) (snd r) = false /\
    (state_of (fst r) p = state_of m p \/ state_of (fst r) p = st_on_dial_failure (state_of m p) c))
   \/
   (existsb (is_accept c) (snd r) = true /\
    state_of (fst r) p =
      if f then fst (st_on_closed (fst (st_on_established (state_of m p) c)) c)
      else fst (st_on_established (state_of m p) c))).
Proof.
  cbn zeta. unfold do_established.
  set (me := set_oerrs m (remove_key c (oerrs m))).
  set (m0 := if lst then me else add_addr me p (canon p t)).
  set (m1 := set_pending m0 (remove_key c (pending m0))).
  assert (S1 : forall q, state_of m1 q = state_of m q).
  { intro q. subst m1 m0 me. rewrite so_pending. destruct lst; [reflexivity | now rewrite so_add_addr]. }
  assert (Hchk :
    let r := do_established_checked L m1 p c t lst f in
    (forall q, q <> p -> state_of (fst r) q = state_of m q) /\
    ((existsb (is_accept c) (snd r) = false /\
      (state_of (fst r) p = state_of m p \/ state_of (fst r) p = st_on_dial_failure (state_of m p) c))
     \/
     (existsb (is_accept c) (snd r) = true /\
      state_of (fst r) p =
        if f then fst (st_on_closed (fst (st_on_established (state_of m p) c)) c)
        else fst (st_on_established (state_of m p) c)))).
  { cbn zeta. unfold do_established_checked.
    destruct (limit_reached _ _).
    - cbn [fst snd existsb is_accept orb].
      destruct (existsb (fun kp : N * pstate => fst kp =? p) (peers m1)).
      + split.
        * intros q Hq. rewrite state_of_set_state. assert (q =? p = false) as -> by lia. apply S1.
        * left. split; [reflexivity|]. right. rewrite state_of_set_state.
          assert (p =? p = true) as -> by lia. now rewrite S1.
      + split; [intros q _; apply S1|]. left. split; [reflexivity|]. left. apply S1.
    - rewrite S1. destruct (st_on_established (state_of m p) c) as [s' acc] eqn:Es. destruct acc; cbn [negb].
      + set (m2 := set_state m1 p s').
        set (m3 := if lst then set_limits m2 (limit_insert (max_in L) c (ins m2)) (outs m2)
                   else set_limits m2 (ins m2) (limit_insert (max_out L) c (outs m2))).
        assert (S3 : forall q, state_of m3 q = if q =? p then s' else state_of m q).
        { intro q. subst m3 m2. destruct lst; rewrite so_limits, state_of_set_state, S1; reflexivity. }
        assert (Hfin : forall m4 cancels, (forall q, state_of m4 q = state_of m3 q) ->
                  existsb (is_accept c) cancels = false ->
                  let r := est_finish m4 p c t lst f cancels in
                  (forall q, q <> p -> state_of (fst r) q = state_of m q) /\
                  ((existsb (is_accept c) (snd r) = false /\
                    (state_of (fst r) p = state_of m p \/ state_of (fst r) p = st_on_dial_failure (state_of m p) c))
                   \/
                   (existsb (is_accept c) (snd r) = true /\
                    state_of (fst r) p = if f then fst (st_on_closed s' c) else s'))).
        { intros m4 cancels S4 C4. cbn zeta. unfold est_finish.
          assert (Hacc : existsb (is_accept c) (cancels ++ [CallAccept c t]) = true).
          { rewrite existsb_app, C4. cbn [existsb is_accept orb]. lia. }
          destruct f.
          * destruct (do_closed m4 p c) as [m5 rp] eqn:Ec. cbn [fst snd].
            assert (S5 : forall q, state_of m5 q = state_of (fst (do_closed m4 p c)) q) by (now rewrite Ec).
            split.
            -- intros q Hq. rewrite S5, closed_state. assert (q =? p = false) as -> by lia.
               rewrite S4, S3. assert (q =? p = false) as -> by lia. reflexivity.
            -- right. split; [exact Hacc|]. rewrite S5, closed_state. assert (p =? p = true) as -> by lia.
               rewrite S4, S3. assert (p =? p = true) as -> by lia. reflexivity.
          * cbn [fst snd]. split.
            -- intros q Hq. rewrite so_accepting, S4, S3. assert (q =? p = false) as -> by lia. reflexivity.
            -- right. split; [exact Hacc|]. rewrite so_accepting, S4, S3. assert (p =? p = true) as -> by lia. reflexivity. }
        assert (Hcan : forall d ts, existsb (is_accept c) (map (CallCancel d) ts) = false).
        { intros d ts. induction ts as [|x r IH]; cbn [map existsb is_accept orb]; [reflexivity | exact IH]. }
        destruct (state_of m p) as [r sc|d ts|d|d] eqn:Ep; cbv beta iota zeta;
          try (apply Hfin; [intro q; reflexivity | reflexivity]).
        destruct (negb (forallb (installed L) ts)).
        * cbn [fst snd existsb is_accept orb]. split; [intros q _; apply S1|]. left. split; [reflexivity|]. left.
          rewrite S1. exact Ep.
        * apply Hfin; [intro q; apply so_pending | apply Hcan].
      + cbn [fst snd existsb is_accept orb]. split; [intros q _; apply S1|]. left. split; [reflexivity|]. left. apply S1.
  }
  destruct (lookup c (pending m0)) as [dp|].
  - destruct (dp =? p); [exact Hchk|].
    cbn [fst snd existsb is_accept orb]. split; [intros q _; apply S1|]. left. split; [reflexivity|]. left. apply S1.
  - exact Hchk.
Qed.

Lemma rec_established L m l p c t lst f :
  RecInv m l -> lookup c l = None ->
  RecInv (fst (do_established L m p c t lst f))
         (if existsb (is_accept c) (snd (do_established L m p c t lst f)) && negb f
          then (c, (p, lst)) :: l else l).
Proof.
  intros [H1 H2] Hc. destruct (established_state L m p c t lst f) as [Hq Hp].
  set (r := do_established L m p c t lst f) in *.
  assert (Hfresh : forall q x, recorded (state_of m q) x -> x <> c).
  { intros q x Hx E. subst x. destruct (H1 _ _ Hx) as [b Hb]. congruence. }
  assert (Hkeep : forall x v, x <> c -> lookup x ((c, (p, lst)) :: l) = v -> lookup x l = v).
  { intros x v Hne. cbn [lookup]. assert (c =? x = false) as -> by lia. tauto. }
  destruct Hp as [[Ea Hs]|[Ea Hs]]; rewrite Ea; cbn [andb].
  - (* not accepted *)
    split; intros q; destruct (N.eq_dec q p) as [->|Hne]; try (rewrite (Hq q Hne); auto).
    + intros x Hx. apply H1. destruct Hs as [-> | ->] in Hx; [exact Hx|eapply recorded_dial_failure_rev; exact Hx].
    + destruct Hs as [-> | ->]; [apply H2|apply wf_dial_failure, H2].
  - destruct f; cbn [negb].
    + (* accepted, the accept call failed: rolled back at once *)
      assert (W : wf_state (fst (st_on_established (state_of m p) c))) by (apply wf_established; [apply H2|apply Hfresh]).
      split; intros q; destruct (N.eq_dec q p) as [->|Hne]; try (rewrite (Hq q Hne); auto).
      * rewrite Hs. intros x Hx. apply recorded_closed_rev in Hx; [|exact W]. destruct Hx as [Hx Hne].
        apply recorded_established_rev in Hx. destruct Hx as [Hx|Hx]; [contradiction|]. apply H1, Hx.
      * rewrite Hs. apply wf_closed, W.
    + (* accepted *)
      split; intros q; destruct (N.eq_dec q p) as [->|Hne].
      * rewrite Hs. intros x Hx. apply recorded_established_rev in Hx. destruct Hx as [->|Hx].
        -- exists lst. cbn [lookup]. assert (c =? c = true) as -> by lia. reflexivity.
        -- destruct (H1 _ _ Hx) as [b Hb]. exists b. cbn [lookup].
           assert (c =? x = false) as ->; [|exact Hb]. specialize (Hfresh _ _ Hx). lia.
      * rewrite (Hq q Hne). intros x Hx. destruct (H1 _ _ Hx) as [b Hb]. exists b. cbn [lookup].
        assert (c =? x = false) as ->; [|exact Hb]. specialize (Hfresh _ _ Hx). lia.
      * rewrite Hs. apply wf_established; [apply H2|apply Hfresh].
      * rewrite (Hq q Hne). apply H2.
Qed.

Lemma rec_opening m l p d ts : RecInv m l -> RecInv (set_state m p (Opening d ts)) l.
Proof. intro I. apply rec_set_state; [exact I| |exact Logic.I]; cbn; tauto. Qed.
Lemma rec_dialing m l p d : RecInv m l -> RecInv (set_state m p (Dialing d)) l.
Proof. intro I. apply rec_set_state; [exact I| |exact Logic.I]; cbn; tauto. Qed.
Lemma rec_disconnected m l p : RecInv m l -> RecInv (set_state m p (Disconnected None)) l.
Proof. intro I. apply rec_set_state; [exact I| |exact Logic.I]; cbn; tauto. Qed.

Lemma rec_add_addr m l p a : RecInv m l -> RecInv (add_addr m p a) l.
Proof. intro R. eapply rec_state_eq; [|exact R]. intro q. apply so_add_addr. Qed.

Lemma rec_dial_peer L m l p ts fl : RecInv m l -> RecInv (fst (do_dial_peer L m p ts fl)) l.
Proof.
  intro R. unfold do_dial_peer. destruct (limit_reached _ _); [exact R|]. destruct (p =? LOCAL); [exact R|].
  destruct (can_dial (state_of m p)); try exact R. destruct (is_nil _); [exact R|].
  destruct (open_calls L (next_conn m) ts fl) as [calls ok]. destruct ok; cbn [fst].
  + eapply rec_state_eq; [intro q; apply so_pending|]. apply rec_opening. eapply rec_state_eq; [|exact R]. reflexivity.
  + apply rec_opening. eapply rec_state_eq; [|exact R]. reflexivity.
Qed.

Lemma rec_dial_addr L m l p t a f : RecInv m l -> RecInv (fst (do_dial_addr L m p t a f)) l.
Proof.
  intro R. unfold do_dial_addr. destruct (negb _); [exact R|].
  assert (R0 : RecInv (add_addr (bump_conn m) p a) l).
  { apply rec_add_addr. eapply rec_state_eq; [|exact R]. reflexivity. }
  destruct (can_dial _); try exact R0. destruct f; cbn [fst].
  + cbn [st_on_dial_failure]. destruct (next_conn m =? next_conn m).
    * apply rec_disconnected. now apply rec_dialing.
    * apply rec_dialing. now apply rec_dialing.
  + eapply rec_state_eq; [intro q; apply so_pending|]. now apply rec_dialing.
Qed.

Lemma rec_dial_shape L m l a f : RecInv m l -> RecInv (fst (do_dial_shape L m a f)) l.
Proof.
  intro R. unfold do_dial_shape. destruct (limit_reached _ _); [exact R|].
  destruct (DialShape.dial_shape LISTEN a) as [code|p|p]; [exact R | now apply rec_dial_addr | now apply rec_dial_addr].
Qed.

Lemma rec_step L m l e :
  RecInv m l -> CapInv L m l -> env_ok m l e ->
  RecInv (fst (step L m e)) (live_step e (snd (step L m e)) l).
Proof.
  intros R I He.
  destruct e as [p ts fl|p t f|p t|c t pa|c t f|c t pa|p c t lst f|c t|c ok|p c| |a|p ts fl clog|a clog];
    cbn [step live_step env_ok] in *.
  - now apply rec_dial_peer.
  - now apply rec_dial_shape.
  - cbn [fst]. destruct (installed L _); [now apply rec_add_addr | exact R].
  - destruct (installed L t); [|exact R]. unfold do_dial_failure.
    assert (R0 : RecInv (add_addr m pa (canon pa t)) l) by now apply rec_add_addr.
    destruct (lookup c (pending (add_addr m pa (canon pa t)))) as [p|]; cbn [fst]; [|exact R0].
    apply rec_set_state.
    + eapply rec_state_eq; [|exact R0]. reflexivity.
    + intros x Hx. eapply recorded_dial_failure_rev. exact Hx.
    + apply wf_dial_failure. destruct R0 as [_ W]. apply W.
  - destruct (installed L t); [|exact R]. unfold do_opened.
    set (me := set_oerrs m (remove_key c (oerrs m))).
    assert (Re : RecInv me l) by (eapply rec_state_eq; [|exact R]; reflexivity).
    destruct (lookup c (pending me)) as [p|]; cbn [fst]; [|exact Re].
    set (m1 := add_addr (set_pending me (remove_key c (pending me))) p (canon p t)).
    assert (R1 : RecInv m1 l) by (apply rec_add_addr; eapply rec_state_eq; [|exact Re]; reflexivity).
    destruct (state_of m1 p) as [r sc|d ts|d|d]; try exact R1.
    destruct (negb (forallb (installed L) ts)); [now apply rec_dialing|].
    destruct f; cbn [fst].
    + apply rec_disconnected. now apply rec_dialing.
    + eapply rec_state_eq; [intro q; apply so_pending|]. now apply rec_dialing.
  - destruct (installed L t); [|exact R]. unfold do_open_failure.
    assert (R0 : RecInv (add_addr m pa (canon pa t)) l) by now apply rec_add_addr.
    destruct (lookup c (pending (add_addr m pa (canon pa t)))) as [p|]; cbn [fst]; [|exact R0].
    destruct (state_of (add_addr m pa (canon pa t)) p) as [r sc|d ts|d|d]; try exact R0.
    destruct (mem t ts); [|exact R0].
    destruct (remove_tr t ts) as [|x r]; cbn [fst].
    + eapply rec_state_eq; [intro q; rewrite so_oerrs; apply so_pending|]. now apply rec_disconnected.
    + eapply rec_state_eq; [intro q; apply so_oerrs|]. now apply rec_opening.
  - destruct (installed L t); [now apply rec_established | exact R].
  - destruct (installed L t); [|exact R]. destruct (limit_reached _ _); exact R.
  - unfold do_accept_done. destruct (lookup c (accepting m)) as [[p b0]|] eqn:Ea.
    2:{ exfalso. exact (lookup_none_keys _ _ Ea He). }
    set (m1 := set_accepting m (remove_first c (accepting m))).
    assert (R1 : RecInv m1 l) by (eapply rec_state_eq; [|exact R]; reflexivity).
    destruct ok; cbn [fst]; [exact R1|].
    destruct (do_closed m1 p c) as [m2 rep] eqn:Ec. cbn [fst].
    replace m2 with (fst (do_closed m1 p c)) by now rewrite Ec.
    apply rec_closed; [exact R1|]. intros q b Hl. pose proof (ci_acc_live _ _ _ I _ _ _ Ea). congruence.
  - destruct He as [He1 He2]. pose proof (rec_closed m l p c R He1) as K.
    destruct (do_closed m p c) as [m1 rep]. exact K.
  - cbn [fst]. eapply rec_state_eq; [|exact R]. reflexivity.
  - now apply rec_dial_shape.
  - unfold do_hdial_peer. destruct (handle_gate m p); try exact R. destruct clog; [exact R|].
    pose proof (rec_dial_peer L m l p ts fl R) as K. destruct (do_dial_peer L m p ts fl). exact K.
  - unfold do_hdial_addr. destruct (negb _); [exact R|]. destruct clog; [exact R|].
    pose proof (rec_dial_shape L m l a false R) as K. destruct (do_dial_shape L m a false). exact K.
Qed.

(* ------------------------------------------------------------------------------------------ *)
(* the connections the application has been told about                                         *)

Definition est_conn (o : out) : list conn := match o with EvEstablished _ c => [c] | _ => [] end.

(* ghost: connections announced to the application (EvEstablished) and not closed since *)
Definition ann_step (e : ev) (os : list out) (ann : list conn) : list conn :=
  match e with
  | Closed _ c => set_remove c ann
  | _ => flat_map est_conn os ++ ann
  end.

(* every live connection is either still being accepted or has been announced *)
Definition AnnInv (m : mgr) (l : live_t) (ann : list conn) : Prop :=
  forall c, In c (keys l) -> In c (keys (accepting m)) \/ In c ann.

Lemma keys_remove_first_other {A} k x (l : list (N * A)) :
  In x (keys l) -> x <> k -> In x (keys (remove_first k l)).
Proof.
  induction l as [|[k0 v0] t IH]; cbn [remove_first keys map fst]; [intros []|].
  destruct (k0 =? k) eqn:E.
  - intros [H|H] Hne; [lia|exact H].
  - cbn [keys map fst In]. intros [H|H] Hne; [now left|right; now apply IH].
Qed.

Lemma keys_remove_key_in {A} k x (l : list (N * A)) :
  In x (keys (remove_key k l)) -> In x (keys l) /\ x <> k.
Proof. apply keys_remove_key. Qed.

Lemma accepting_closed m p c : accepting (fst (do_closed m p c)) = accepting m.
Proof. unfold do_closed. destruct (st_on_closed _ c). reflexivity. Qed.

Lemma accepting_dial_peer L m p ts fl : accepting (fst (do_dial_peer L m p ts fl)) = accepting m.
Proof.
  unfold do_dial_peer. destruct (limit_reached _ _); [reflexivity|]. destruct (p =? LOCAL); [reflexivity|].
  destruct (can_dial _); try reflexivity. destruct (is_nil _); [reflexivity|].
  destruct (open_calls L (next_conn m) ts fl) as [calls ok]. destruct ok; reflexivity.
Qed.

Lemma accepting_dial_shape L m a f : accepting (fst (do_dial_shape L m a f)) = accepting m.
Proof.
  assert (Hd : forall p t, accepting (fst (do_dial_addr L m p t a f)) = accepting m).
  { intros p t. unfold do_dial_addr. destruct (negb _); [reflexivity|].
    destruct (can_dial _); cbn [fst]; try (now rewrite add_addr_accepting).
    destruct f; cbn [fst set_state set_pending accepting]; now rewrite add_addr_accepting. }
  unfold do_dial_shape. destruct (limit_reached _ _); [reflexivity|].
  destruct (DialShape.dial_shape LISTEN a) as [code|p|p]; [reflexivity | apply Hd | apply Hd].
Qed.

(* handlers other than ConnectionEstablished / AcceptDone do not touch the accept futures *)
Lemma accepting_other L m e :
  match e with TrEstablished _ _ _ _ _ | AcceptDone _ _ => False | _ => True end ->
  accepting (fst (step L m e)) = accepting m.
Proof.
  destruct e as [p ts fl|p t f|p t|c t pa|c t f|c t pa|p c t lst f|c t|c ok|p c| |a|p ts fl clog|a clog];
    cbn [step]; intro H; try contradiction.
  - apply accepting_dial_peer.
  - apply accepting_dial_shape.
  - cbn [fst]. destruct (installed L _); [apply add_addr_accepting | reflexivity].
  - destruct (installed L t); [|reflexivity]. unfold do_dial_failure.
    destruct (lookup _ _); cbn [fst set_state set_pending accepting]; now rewrite add_addr_accepting.
  - destruct (installed L t); [|reflexivity]. unfold do_opened. destruct (lookup _ _); [|reflexivity].
    destruct (state_of _ _); cbn [fst]; try (now rewrite add_addr_accepting).
    destruct (negb _); [cbn [fst set_state accepting]; now rewrite add_addr_accepting|].
    destruct f; cbn [fst set_state set_pending accepting]; now rewrite add_addr_accepting.
  - destruct (installed L t); [|reflexivity]. unfold do_open_failure.
    destruct (lookup _ _); cbn [fst]; [|apply add_addr_accepting].
    destruct (state_of _ _); cbn [fst]; try (apply add_addr_accepting).
    destruct (mem t _); [|apply add_addr_accepting].
    destruct (remove_tr t _); cbn [fst set_oerrs set_state set_pending accepting]; apply add_addr_accepting.
  - destruct (installed L t); [|reflexivity]. destruct (limit_reached _ _); reflexivity.
  - pose proof (accepting_closed m p c) as K. destruct (do_closed m p c). exact K.
  - reflexivity.
  - apply accepting_dial_shape.
  - unfold do_hdial_peer. destruct (handle_gate m p); try reflexivity. destruct clog; [reflexivity|].
    pose proof (accepting_dial_peer L m p ts fl) as K. destruct (do_dial_peer L m p ts fl). exact K.
  - unfold do_hdial_addr. destruct (negb _); [reflexivity|]. destruct clog; [reflexivity|].
    pose proof (accepting_dial_shape L m a false) as K. destruct (do_dial_shape L m a false). exact K.
Qed.

Lemma established_accepting L m p c t lst f :
  let r := do_established L m p c t lst f in
  if existsb (is_accept c) (snd r) && negb f
  then accepting (fst r) = accepting m ++ [(c, (p, lst))]
  else accepting (fst r) = accepting m.
Proof.
  cbn zeta. unfold do_established.
  set (me := set_oerrs m (remove_key c (oerrs m))).
  set (m0 := if lst then me else add_addr me p (canon p t)).
  set (m1 := set_pending m0 (remove_key c (pending m0))).
  assert (A1 : accepting m1 = accepting m).
  { subst m1 m0 me. cbn [set_pending accepting]. destruct lst; [reflexivity | now rewrite add_addr_accepting]. }
  assert (Hchk :
    let r := do_established_checked L m1 p c t lst f in
    if existsb (is_accept c) (snd r) && negb f
    then accepting (fst r) = accepting m ++ [(c, (p, lst))]
    else accepting (fst r) = accepting m).
  { cbn zeta. unfold do_established_checked. destruct (limit_reached _ _).
    - cbn [fst snd existsb is_accept orb andb]. destruct (existsb (fun kp : N * pstate => fst kp =? p) (peers m1)); exact A1.
    - destruct (st_on_established (state_of m1 p) c) as [s' acc]. destruct acc; cbn [negb].
      + set (m2 := set_state m1 p s').
        set (m3 := if lst then set_limits m2 (limit_insert (max_in L) c (ins m2)) (outs m2)
                   else set_limits m2 (ins m2) (limit_insert (max_out L) c (outs m2))).
        assert (A3 : accepting m3 = accepting m) by (subst m3 m2; destruct lst; exact A1).
        assert (Hfin : forall m4 cancels, accepting m4 = accepting m -> existsb (is_accept c) cancels = false ->
                  let r := est_finish m4 p c t lst f cancels in
                  if existsb (is_accept c) (snd r) && negb f
                  then accepting (fst r) = accepting m ++ [(c, (p, lst))]
                  else accepting (fst r) = accepting m).
        { intros m4 cancels A4 C4. cbn zeta. unfold est_finish.
          assert (Hacc : existsb (is_accept c) (cancels ++ [CallAccept c t]) = true).
          { rewrite existsb_app, C4. cbn [existsb is_accept orb]. lia. }
          destruct f.
          * pose proof (accepting_closed m4 p c) as K. destruct (do_closed m4 p c) as [m5 rp].
            cbn [fst snd] in *. rewrite Hacc. cbn [andb negb]. congruence.
          * cbn [fst snd]. rewrite Hacc. cbn [andb negb set_accepting accepting]. now rewrite A4. }
        assert (Hcan : forall d ts, existsb (is_accept c) (map (CallCancel d) ts) = false).
        { intros d ts. induction ts as [|x r IH]; cbn [map existsb is_accept orb]; [reflexivity | exact IH]. }
        destruct (state_of m1 p) as [r sc|d ts|d|d]; cbv beta iota zeta;
          try (apply Hfin; [exact A3 | reflexivity]).
        destruct (negb (forallb (installed L) ts)).
        * cbn [fst snd existsb is_accept orb andb]. exact A1.
        * apply Hfin; [exact A3 | apply Hcan].
      + cbn [fst snd existsb is_accept orb andb]. exact A1.
  }
  destruct (lookup c (pending m0)) as [dp|].
  - destruct (dp =? p); [exact Hchk|]. cbn [fst snd existsb is_accept orb andb]. exact A1.
  - exact Hchk.
Qed.

Lemma ann_step_rule L m l ann e :
  AnnInv m l ann -> CapInv L m l -> env_ok m l e ->
  AnnInv (fst (step L m e)) (live_step e (snd (step L m e)) l) (ann_step e (snd (step L m e)) ann).
Proof.
  intros A I He.
  assert (Hother : match e with TrEstablished _ _ _ _ _ | AcceptDone _ _ | Closed _ _ => False | _ => True end ->
                   AnnInv (fst (step L m e)) (live_step e (snd (step L m e)) l) (ann_step e (snd (step L m e)) ann)).
  { intro H. assert (El : live_step e (snd (step L m e)) l = l) by (destruct e; try contradiction; reflexivity).
    assert (Ea : ann_step e (snd (step L m e)) ann = flat_map est_conn (snd (step L m e)) ++ ann)
      by (destruct e; try contradiction; reflexivity).
    unfold AnnInv. rewrite El, Ea, accepting_other by (destruct e; try contradiction; exact Logic.I).
    intros c Hc. destruct (A c Hc); [now left|right; apply in_app_iff; now right]. }
  destruct e as [p ts fl|p t f|p t|c t pa|c t f|c t pa|p c t lst f|c t|c ok|p c| |a|p ts fl clog|a clog]; try (apply Hother; exact Logic.I).
  - (* ConnectionEstablished *)
    cbn [step live_step ann_step]. destruct (installed L t).
    2:{ cbn [fst snd existsb andb flat_map app]. exact A. }
    pose proof (established_accepting L m p c t lst f) as K. cbn zeta in K.
    unfold AnnInv. destruct (existsb (is_accept c) (snd (do_established L m p c t lst f)) && negb f); rewrite K.
    + intros d [Hd|Hd].
      * cbn [fst] in Hd. subst d. left. rewrite keys_app. apply in_app_iff. right. now left.
      * destruct (A d Hd); [left; rewrite keys_app; apply in_app_iff; now left|right; apply in_app_iff; now right].
    + intros d Hd. destruct (A d Hd); [now left|right; apply in_app_iff; now right].
  - (* the accept future resolves *)
    cbn [step live_step ann_step env_ok] in *. unfold do_accept_done.
    destruct (lookup c (accepting m)) as [[p b0]|] eqn:Ea.
    2:{ exfalso. exact (lookup_none_keys _ _ Ea He). }
    destruct ok.
    + unfold AnnInv. cbn [fst snd flat_map est_conn app set_accepting accepting]. intros d Hd.
      destruct (N.eq_dec d c) as [->|Hne]; [right; now left|].
      destruct (A d Hd) as [H|H]; [left; now apply keys_remove_first_other|right; now right].
    + pose proof (accepting_closed (set_accepting m (remove_first c (accepting m))) p c) as K.
      unfold AnnInv. destruct (do_closed _ p c) as [m2 rep]. cbn [fst snd flat_map app] in *. rewrite K. cbn [set_accepting accepting].
      intros d Hd. apply keys_remove_key in Hd. destruct Hd as [Hd Hne].
      destruct (A d Hd) as [H|H]; [left; now apply keys_remove_first_other|now right].
  - (* a connection task reports closed *)
    cbn [step live_step ann_step env_ok] in *. pose proof (accepting_closed m p c) as K.
    unfold AnnInv. destruct (do_closed m p c) as [m1 rep]. cbn [fst] in *. rewrite K.
    intros d Hd. apply keys_remove_key in Hd. destruct Hd as [Hd Hne].
    destruct (A d Hd) as [H|H]; [now left|right; apply set_remove_in; split; assumption].
Qed.

(* ------------------------------------------------------------------------------------------ *)
(* the invariant of the manager with its ghost ledgers, along every environment-respecting run *)

Record Inv (L : limits) (m : mgr) (l : live_t) (ann : list conn) : Prop := {
  inv_cap : CapInv L m l;
  inv_rec : RecInv m l;
  inv_ann : AnnInv m l ann
}.

Lemma inv_init L : Inv L init [] [].
Proof. split; [apply cap_init|apply rec_init|intros c []]. Qed.

Lemma inv_step L m l ann e :
  Inv L m l ann -> env_ok m l e ->
  Inv L (fst (step L m e)) (live_step e (snd (step L m e)) l) (ann_step e (snd (step L m e)) ann).
Proof.
  intros [I R A] He. split; [now apply cap_step|now apply rec_step with (L := L)|now apply ann_step_rule].
Qed.

(* runs with both ghost ledgers *)
Fixpoint arun (L : limits) (m : mgr) (l : live_t) (ann : list conn) (es : list ev) : mgr * (live_t * list conn) :=
  match es with
  | [] => (m, (l, ann))
  | e :: t => arun L (fst (step L m e)) (live_step e (snd (step L m e)) l) (ann_step e (snd (step L m e)) ann) t
  end.

Lemma arun_grun L es : forall m l ann,
  fst (arun L m l ann es) = fst (grun L m l es) /\ fst (snd (arun L m l ann es)) = snd (grun L m l es).
Proof. induction es as [|e t IH]; intros m l ann; cbn [arun grun fst snd]; [tauto|apply IH]. Qed.

Lemma inv_run L es : forall m l ann,
  Inv L m l ann -> env_trace L m l es ->
  let r := arun L m l ann es in Inv L (fst r) (fst (snd r)) (snd (snd r)).
Proof.
  induction es as [|e t IH]; intros m l ann I He; cbn [arun fst snd]; [exact I|].
  destruct He as [He1 He2]. apply IH; [now apply inv_step|exact He2].
Qed.

(* ------------------------------------------------------------------------------------------ *)
(* what the application sees when a connection task reports closed                             *)

Lemma of_peer_in p l c q b : In (c, (q, b)) (of_peer p l) <-> In (c, (q, b)) l /\ q = p.
Proof.
  unfold of_peer. rewrite filter_In. cbn [fst snd]. split; intros [H1 H2]; split; try assumption; lia.
Qed.

Lemma in_remove_key {A} k c (v : A) l : In (c, v) (remove_key k l) -> In (c, v) l /\ c <> k.
Proof.
  induction l as [|[k0 v0] t IH]; cbn [remove_key]; [intros []|].
  destruct (k0 =? k) eqn:E.
  - intro H. destruct (IH H). split; [now right|assumption].
  - intros [H|H]; [injection H as -> ->; split; [now left|lia]|]. destruct (IH H). split; [now right|assumption].
Qed.

Lemma remove_key_in {A} k c (v : A) l : In (c, v) l -> c <> k -> In (c, v) (remove_key k l).
Proof.
  induction l as [|[k0 v0] t IH]; cbn [remove_key]; [intros []|].
  intros [H|H] Hne.
  - injection H as -> ->. assert (c =? k = false) as -> by lia. now left.
  - destruct (k0 =? k); [now apply IH|right; now apply IH].
Qed.

Lemma lookup_in {A} k (v : A) l : lookup k l = Some v -> In (k, v) l.
Proof.
  induction l as [|[k0 v0] t IH]; cbn [lookup]; [discriminate|].
  destruct (k0 =? k) eqn:E; [intro H; injection H as ->; left; f_equal; lia|intro H; right; now apply IH].
Qed.

(* ConnectionClosed reaches the application exactly when the last live connection of the peer is gone *)
Lemma app_closed_iff_last L m l ann p c b :
  Inv L m l ann -> env_ok m l (Closed p c) -> lookup c l = Some (p, b) ->
  (In (EvClosed p c) (snd (step L m (Closed p c))) <-> of_peer p (remove_key c l) = []).
Proof.
  intros [I R A] [He1 He2] Hl. cbn [step]. unfold do_closed. rewrite so_limits.
  pose proof (ci_recorded _ _ _ I _ _ _ Hl) as Hrec.
  pose proof (ri_wf _ _ R p) as W.
  pose proof (closed_report_iff _ _ W Hrec) as Rep.
  destruct (st_on_closed (state_of m p) c) as [s' rep] eqn:Es. cbn [fst snd] in *.
  assert (Hs' : forall x, recorded s' x <-> exists b', In (x, (p, b')) (remove_key c l)).
  { intro x. split.
    - intro Hx. assert (K : recorded (fst (st_on_closed (state_of m p) c)) x) by now rewrite Es.
      apply recorded_closed_rev in K; [|exact W]. destruct K as [K Hne].
      destruct (ri_live _ _ R _ _ K) as [b' Hb']. exists b'. apply remove_key_in; [now apply lookup_in|exact Hne].
    - intros [b' Hb']. apply in_remove_key in Hb'. destruct Hb' as [Hin Hne].
      assert (Hl' : lookup x l = Some (p, b')) by (apply in_lookup_nodup; [apply I|exact Hin]).
      pose proof (ci_recorded _ _ _ I _ _ _ Hl') as K.
      replace s' with (fst (st_on_closed (state_of m p) c)) by now rewrite Es.
      now apply recorded_on_closed. }
  split.
  - intro Hin. assert (rep = true) as -> by (destruct rep; [reflexivity|destruct Hin]).
    destruct Rep as [Rep _]. specialize (Rep eq_refl).
    destruct (of_peer p (remove_key c l)) as [|[x [q b']] t] eqn:Eo; [reflexivity|exfalso].
    assert (Hin' : In (x, (q, b')) (of_peer p (remove_key c l))) by (rewrite Eo; now left).
    apply of_peer_in in Hin'. destruct Hin' as [Hin' ->]. apply (Rep x), Hs'. now exists b'.
  - intro Eo. assert (rep = true) as ->; [|now left].
    apply Rep. intros x Hx. apply Hs' in Hx. destruct Hx as [b' Hb'].
    assert (Hin' : In (x, (p, b')) (of_peer p (remove_key c l))) by (apply of_peer_in; tauto).
    rewrite Eo in Hin'. destruct Hin'.
Qed.

(* ... and only for a connection it was told about before (never before the matching established) *)
Lemma app_closed_was_announced L m l ann p c b :
  Inv L m l ann -> env_ok m l (Closed p c) -> lookup c l = Some (p, b) -> In c ann.
Proof.
  intros [I R A] [He1 He2] Hl. destruct (A c (lookup_in_keys _ _ _ Hl)) as [H|H]; [contradiction|exact H].
Qed.

(* a Closed notice for a connection that is not live (e.g. a second one) changes and reports nothing *)
Lemma stale_closed_ignored L m l ann p c :
  Inv L m l ann -> lookup c l = None ->
  snd (step L m (Closed p c)) = [] /\ forall q, state_of (fst (step L m (Closed p c))) q = state_of m q.
Proof.
  intros [I R A] Hl. cbn [step].
  assert (Hn : ~ recorded (state_of m p) c).
  { intro H. destruct (ri_live _ _ R _ _ H) as [b Hb]. congruence. }
  pose proof (closed_state m p c) as K. unfold do_closed in *. rewrite so_limits in *.
  rewrite (closed_unrecorded _ _ Hn) in *. cbn [fst snd] in *. split; [reflexivity|].
  intro q. rewrite K. destruct (q =? p) eqn:E; [|reflexivity]. f_equal. lia.
Qed.

Lemma closed_reported_disconnected s c :
  snd (st_on_closed s c) = true -> exists d, fst (st_on_closed s c) = Disconnected d.
Proof.
  destruct s as [r [[e|e]|] | o | e | [e|]]; cbn [st_on_closed snd fst]; try discriminate.
  - destruct (r =? c); cbn [snd]; [discriminate|]. destruct (e =? c); discriminate.
  - destruct (r =? c); cbn [fst snd]; [eauto|discriminate].
  - destruct (r =? c); cbn [fst snd]; [eauto|discriminate].
Qed.

Lemma disconnected_not_refused L m p d ts fl :
  state_of m p = Disconnected d -> ~ In (Ret RET_CONNECTED) (snd (do_dial_peer L m p ts fl)).
Proof.
  intro Hs. unfold do_dial_peer.
  destruct (limit_reached _ _); [cbn; intros [H|[]]; discriminate|].
  destruct (p =? LOCAL); [cbn; intros [H|[]]; discriminate|].
  rewrite Hs. destruct d; cbn [can_dial]; [cbn; intros [H|[]]; discriminate|].
  destruct (is_nil _); [cbn; intros [H|[]]; discriminate|].
  assert (Hoc : forall c, ~ In (Ret RET_CONNECTED) (fst (open_calls L c ts fl))).
  { intro c. induction ts as [|x r IH]; cbn [open_calls fst]; [tauto|].
    destruct (installed L x); [|exact IH]. destruct (mem x fl); cbn [fst In]; [intros [H|[]]; discriminate|].
    destruct (open_calls L c r fl) as [os ok]. cbn [fst In] in *. intros [H|H]; [discriminate | exact (IH H)]. }
  specialize (Hoc (next_conn m)). destruct (open_calls L (next_conn m) ts fl) as [calls ok]. cbn [fst] in Hoc.
  destruct ok; cbn [snd]; rewrite in_app_iff; cbn [In]; intros [H|[H|[]]]; try discriminate; exact (Hoc H).
Qed.

(* afterwards the peer counts as disconnected: a dial is not refused as AlreadyConnected, and with a
   known address below the limit it is attempted (C05's redial lemma applies) *)
Lemma closed_then_dialable L m p c :
  In (EvClosed p c) (snd (step L m (Closed p c))) ->
  let m' := fst (step L m (Closed p c)) in
  (exists d, state_of m' p = Disconnected d) /\
  forall ts fl, ~ In (Ret RET_CONNECTED) (snd (do_dial_peer L m' p ts fl)).
Proof.
  intro Hin. cbn zeta.
  assert (Hd : exists d, state_of (fst (step L m (Closed p c))) p = Disconnected d).
  { cbn [step] in *. pose proof (closed_state m p c p) as K. unfold do_closed in *. rewrite so_limits in *.
    pose proof (closed_reported_disconnected (state_of m p) c) as D.
    destruct (st_on_closed (state_of m p) c) as [s' rep]. cbn [fst snd] in *.
    assert (rep = true) as -> by (destruct rep; [reflexivity|destruct Hin]).
    destruct (D eq_refl) as [d ->]. exists d. rewrite K. assert (p =? p = true) as -> by lia. reflexivity. }
  split; [exact Hd|]. destruct Hd as [d Hd]. intros ts fl. eapply disconnected_not_refused. exact Hd.
Qed.

(* F-C07b, manager side: a rolled-back accept can take away the last connection of a peer without
   the application being told (the `connection_closed` flag of the rollback is discarded) *)
Lemma rollback_silent_refuted :
  let L := mkLimits None None [TCP; WS] in
  let es := [TrEstablished 5 0 TCP true false; AcceptDone 0 true; TrEstablished 5 1 WS true false;
             Closed 5 0; AcceptDone 1 false] in
  env_trace L init [] es /\
  concat (snd (run L init es)) = [CallAccept 0 TCP; EvEstablished 5 0; CallAccept 1 WS] /\
  state_of (fst (run L init es)) 5 = Disconnected None.
Proof. vm_compute. intuition (try congruence; try discriminate). Qed.

(* ------------------------------------------------------------------------------------------ *)
(* assume/guarantee: the connection tasks of a node feed its manager a well-formed stream      *)

Definition tasks_t := list (conn * (peer * task)).
Definition running (x : conn * (peer * task)) : bool :=
  match gone (snd (snd x)) with None => true | Some _ => false end.
Definition rk (ts : tasks_t) : list conn := map fst (filter running ts).

(* what the transports must guarantee for the events they deliver to the manager of a node; the
   events AcceptDone / Closed are not theirs to deliver (the node generates them) *)
Definition node_env_ok (nd : node) (l : live_t) (e : nev) : Prop :=
  match e with
  | NMgr me => is_internal me = false -> env_ok (nd_mgr nd) l me
  | _ => True
  end.

Record NodeInv (L : limits) (nd : node) (l : live_t) (ann : list conn) : Prop := {
  ni_mgr : Inv L (nd_mgr nd) l ann;
  ni_task : forall c p t, In (c, (p, t)) (nd_tasks nd) -> gone t = None ->
            (exists b, lookup c l = Some (p, b)) /\ ~ In c (keys (accepting (nd_mgr nd)));
  ni_uniq : NoDup (rk (nd_tasks nd))
}.

Lemma node_inv_init L n : NodeInv L (node_init n) [] [].
Proof. split; cbn; [apply inv_init|intros c p t []|constructor]. Qed.

Lemma find_task_split c ts p t t1 :
  find_task c ts = Some (p, t) ->
  exists a b, ts = a ++ (c, (p, t)) :: b /\ gone t = None /\ update_task c t1 ts = a ++ (c, (p, t1)) :: b.
Proof.
  induction ts as [|[c' [p' t']] r IH]; cbn [find_task update_task fst snd]; [discriminate|].
  destruct ((c' =? c) && match gone t' with None => true | Some _ => false end) eqn:E.
  - intro H. injection H as -> ->. apply andb_prop in E. destruct E as [E1 E2].
    assert (c' = c) by lia. subst c'. exists [], r. cbn [app]. repeat split.
    destruct (gone t); [discriminate|reflexivity].
  - intro H. destruct (IH H) as (a & b & -> & G & U). exists ((c', (p', t')) :: a), b. cbn [app]. rewrite U. auto.
Qed.

Lemma rk_app a b : rk (a ++ b) = rk a ++ rk b.
Proof. unfold rk. now rewrite filter_app, map_app. Qed.

Lemma rk_in c p t ts : In (c, (p, t)) ts -> gone t = None -> In c (rk ts).
Proof.
  intros H G. unfold rk. apply in_map_iff. exists (c, (p, t)). split; [reflexivity|].
  apply filter_In. split; [exact H|]. unfold running. cbn [snd]. now rewrite G.
Qed.

Lemma has_mgr_closed_sub ns : (forall x, In x ns -> is_sub_note x = true) -> has_mgr_closed ns = false.
Proof.
  intro H. unfold has_mgr_closed. destruct (existsb _ ns) eqn:E; [|reflexivity].
  apply existsb_exists in E. destruct E as (x & Hx & Ex). apply H in Hx. destruct x; discriminate.
Qed.

Lemma node_step_inv L nd l ann e :
  NodeInv L nd l ann -> node_env_ok nd l e ->
  let r := node_step L nd e in
  let fed := snd (snd r) in
  let g := arun L (nd_mgr nd) l ann fed in
  env_trace L (nd_mgr nd) l fed /\
  nd_mgr (fst r) = fst g /\
  NodeInv L (fst r) (fst (snd g)) (snd (snd g)).
Proof.
  intros [IM IT IU] He. cbn zeta.
  assert (Hsame : NodeInv L nd l ann) by (split; assumption).
  destruct e as [me|c|c ce|i]; cbn [node_step].
  - (* an event of the manager loop *)
    cbn [node_env_ok] in He. destruct (is_internal me) eqn:Ei.
    + cbn [fst snd arun env_trace]. exact (conj Logic.I (conj eq_refl Hsame)).
    + specialize (He eq_refl). destruct (step L (nd_mgr nd) me) as [m1 os] eqn:Es.
      cbn [fst snd arun env_trace nd_mgr nd_tasks].
      replace m1 with (fst (step L (nd_mgr nd) me)) by now rewrite Es.
      replace os with (snd (step L (nd_mgr nd) me)) by now rewrite Es.
      split; [tauto|]. split; [reflexivity|]. split; cbn [nd_mgr nd_tasks]; [now apply inv_step| |exact IU].
      intros c p t Hin G. destruct (IT c p t Hin G) as [[b Hb] Hacc].
      destruct me as [p0 ts0 fl0|p0 t0 f|p0 t0|c0 t0 pa|c0 t0 f|c0 t0 pa|p0 c0 t0 lst f|c0 t0|c0 ok|p0 c0| |a0|p0 ts0 fl0 cl0|a0 cl0];
        try discriminate Ei;
        try (rewrite accepting_other by exact Logic.I; cbn [live_step]; split; [eauto|exact Hacc]).
      cbn [step live_step env_ok] in *. destruct (installed L t0).
      2:{ cbn [fst snd existsb andb]. split; [eauto|exact Hacc]. }
      pose proof (established_accepting L (nd_mgr nd) p0 c0 t0 lst f) as K. cbn zeta in K.
      assert (c <> c0) by congruence.
      destruct (existsb (is_accept c0) (snd (do_established L (nd_mgr nd) p0 c0 t0 lst f)) && negb f); rewrite K.
      * split; [exists b; cbn [lookup]; assert (c0 =? c = false) as -> by lia; exact Hb|].
        rewrite keys_app. intro Hx. apply in_app_iff in Hx. destruct Hx as [Hx|[Hx|[]]]; [contradiction|].
        cbn [fst] in Hx. congruence.
      * split; [eauto|exact Hacc].
  - (* the accept future of c *)
    destruct (lookup c (accepting (nd_mgr nd))) as [[p b0]|] eqn:Ea.
    2:{ cbn [fst snd arun env_trace]. exact (conj Logic.I (conj eq_refl Hsame)). }
    assert (Hacc : forall t ns, accept (nd_alive nd) true = (Some t, ns) -> gone t = None).
    { rewrite accept_spec. intros t ns H. inversion H. reflexivity. }
    destruct (accept (nd_alive nd) true) as [ot ns] eqn:Eacc.
    set (ok := match ot with Some _ => true | None => false end).
    destruct (step L (nd_mgr nd) (AcceptDone c ok)) as [m1 os] eqn:Es.
    cbn [fst snd arun env_trace nd_mgr nd_tasks].
    replace m1 with (fst (step L (nd_mgr nd) (AcceptDone c ok))) by now rewrite Es.
    replace os with (snd (step L (nd_mgr nd) (AcceptDone c ok))) by now rewrite Es.
    assert (Hin : In c (keys (accepting (nd_mgr nd)))) by (eapply lookup_in_keys; exact Ea).
    split; [cbn [env_ok]; tauto|]. split; [reflexivity|].
    pose proof IM as [IC IR IA].
    assert (Hacc' : accepting (fst (step L (nd_mgr nd) (AcceptDone c ok))) = remove_first c (accepting (nd_mgr nd))).
    { cbn [step]. unfold do_accept_done. rewrite Ea. destruct ok; [reflexivity|].
      pose proof (accepting_closed (set_accepting (nd_mgr nd) (remove_first c (accepting (nd_mgr nd)))) p c) as K.
      destruct (do_closed _ p c). exact K. }
    assert (Hgone : ~ In c (keys (remove_first c (accepting (nd_mgr nd))))).
    { apply lookup_none_keys. rewrite lookup_remove_first by apply IC. assert (c =? c = true) as -> by lia. reflexivity. }
    assert (Hold : forall c2 p2 t2, In (c2, (p2, t2)) (nd_tasks nd) -> gone t2 = None ->
              (exists b, lookup c2 (live_step (AcceptDone c ok) (snd (step L (nd_mgr nd) (AcceptDone c ok))) l) = Some (p2, b)) /\
              ~ In c2 (keys (remove_first c (accepting (nd_mgr nd)))) /\ c2 <> c).
    { intros c2 p2 t2 Hin2 G2. destruct (IT _ _ _ Hin2 G2) as [[b Hb] Hn].
      assert (c2 <> c) by congruence. split; [|split; [|assumption]].
      - exists b. cbn [live_step]. destruct ok; [exact Hb|]. rewrite lookup_remove_key.
        assert (c2 =? c = false) as -> by lia. exact Hb.
      - intro Hx. apply Hn. eapply keys_remove_first. exact Hx. }
    split; cbn [nd_mgr nd_tasks].
    + apply inv_step; [exact IM|exact Hin].
    + rewrite Hacc'. intros c2 p2 t2 Hin2 G2. destruct ot as [t|].
      * destruct Hin2 as [Hin2|Hin2].
        -- injection Hin2 as <- <- <-. split; [|exact Hgone]. exists b0. cbn [live_step ok].
           eapply ci_acc_live; [exact IC|exact Ea].
        -- destruct (Hold _ _ _ Hin2 G2) as (H1 & H2 & _). tauto.
      * destruct (Hold _ _ _ Hin2 G2) as (H1 & H2 & _). tauto.
    + destruct ot as [t|]; [|exact IU]. unfold rk. cbn [filter]. unfold running at 1. cbn [snd].
      rewrite (Hacc t ns eq_refl). cbn [map fst]. constructor; [|exact IU].
      intro Hx. apply in_map_iff in Hx. destruct Hx as ([c2 [p2 t2]] & E2 & Hf). cbn [fst] in E2. subst c2.
      apply filter_In in Hf. destruct Hf as [Hf Hr]. unfold running in Hr. cbn [snd] in Hr.
      destruct (gone t2) eqn:G2; [discriminate|]. destruct (Hold _ _ _ Hf G2) as (_ & _ & Hne). congruence.
  - (* a connection task handles one event *)
    destruct (negb (is_loop_event ce)) eqn:El.
    { cbn [fst snd arun env_trace]. exact (conj Logic.I (conj eq_refl Hsame)). }
    destruct (find_task c (nd_tasks nd)) as [[p t]|] eqn:Ef.
    2:{ cbn [fst snd arun env_trace]. exact (conj Logic.I (conj eq_refl Hsame)). }
    destruct (cstep t ce) as [t1 ns] eqn:Ec.
    destruct (find_task_split c (nd_tasks nd) p t t1 Ef) as (a & b & Ets & G & Eup).
    assert (Hin : In (c, (p, t)) (nd_tasks nd)) by (rewrite Ets; apply in_elt).
    destruct (IT _ _ _ Hin G) as [[b1 Hb1] Hnacc].
    assert (Hu : NoDup (rk a ++ c :: rk b)).
    { rewrite Ets, rk_app in IU. unfold rk at 2 in IU. cbn [filter] in IU. unfold running at 1 in IU.
      cbn [snd] in IU. rewrite G in IU. exact IU. }
    assert (Hother : forall c2 p2 t2, In (c2, (p2, t2)) (a ++ b) -> gone t2 = None -> c2 <> c /\ In (c2, (p2, t2)) (nd_tasks nd)).
    { intros c2 p2 t2 Hin2 G2. split.
      - intro E. subst c2. apply NoDup_remove_2 in Hu. apply Hu. rewrite <- rk_app. eapply rk_in; eassumption.
      - rewrite Ets. apply in_app_iff in Hin2. apply in_app_iff. destruct Hin2; [now left|right; now right]. }
    assert (Hu' : NoDup (rk (a ++ (c, (p, t1)) :: b))).
    { rewrite rk_app. unfold rk at 2. cbn [filter]. unfold running at 1. cbn [snd].
      destruct (gone t1); [|exact Hu]. fold (rk b). eapply NoDup_remove_1. exact Hu. }
    destruct (has_mgr_closed ns) eqn:Hm.
    + (* the task reports closed to the manager *)
      destruct (step L (nd_mgr nd) (Closed p c)) as [m1 os] eqn:Es.
      cbn [fst snd arun env_trace nd_mgr nd_tasks].
      replace m1 with (fst (step L (nd_mgr nd) (Closed p c))) by now rewrite Es.
      replace os with (snd (step L (nd_mgr nd) (Closed p c))) by now rewrite Es.
      assert (Henv : env_ok (nd_mgr nd) l (Closed p c)).
      { cbn [env_ok]. split; [intros q b' Hq; congruence|exact Hnacc]. }
      split; [tauto|]. split; [reflexivity|].
      assert (Gt1 : gone t1 <> None).
      { destruct (cstep_cases t ce G) as [(_ & _ & Hsub & _)|(Gx & _)]; rewrite Ec in *; cbn [fst snd] in *; [|exact Gx].
        rewrite (has_mgr_closed_sub ns Hsub) in Hm. discriminate. }
      split; cbn [nd_mgr nd_tasks]; [now apply inv_step| |rewrite Eup; exact Hu'].
      rewrite Eup. intros c2 p2 t2 Hin2 G2. apply in_app_iff in Hin2.
      assert (Hin3 : In (c2, (p2, t2)) (a ++ b)).
      { apply in_app_iff. destruct Hin2 as [H|[H|H]]; [now left| |now right]. injection H as <- <- <-. contradiction. }
      destruct (Hother _ _ _ Hin3 G2) as [Hne Hin4]. destruct (IT _ _ _ Hin4 G2) as [[b2 Hb2] Hn2].
      cbn [step live_step]. pose proof (accepting_closed (nd_mgr nd) p c) as K.
      destruct (do_closed (nd_mgr nd) p c) as [m2 rep]. cbn [fst] in *. rewrite K. split; [|exact Hn2].
      exists b2. rewrite lookup_remove_key. assert (c2 =? c = false) as -> by lia. exact Hb2.
    + cbn [fst snd arun env_trace nd_mgr nd_tasks]. split; [exact Logic.I|]. split; [reflexivity|].
      split; cbn [nd_mgr nd_tasks]; [exact IM| |rewrite Eup; exact Hu'].
      rewrite Eup. intros c2 p2 t2 Hin2 G2. apply in_app_iff in Hin2. destruct Hin2 as [H|[H|H]].
      * apply (IT c2 p2 t2); [rewrite Ets; apply in_app_iff; now left|exact G2].
      * injection H as <- <- <-. split; [eauto|exact Hnacc].
      * apply (IT c2 p2 t2); [rewrite Ets; apply in_app_iff; right; now right|exact G2].
  - (* a protocol exits: the tasks only note it *)
    cbn [fst snd arun env_trace nd_mgr nd_tasks]. split; [exact Logic.I|]. split; [reflexivity|].
    assert (Hg : forall t, gone (fst (cstep t (EDie i))) = gone t).
    { intro t. unfold cstep. destruct (gone t) eqn:G; cbn [fst]; [exact G|reflexivity]. }
    split; cbn [nd_mgr nd_tasks]; [exact IM| |].
    + intros c p t Hin G. apply in_map_iff in Hin. destruct Hin as ([c0 [p0 t0]] & E & Hin). cbn [fst snd] in E.
      injection E as <- <- <-. rewrite Hg in G. exact (IT _ _ _ Hin G).
    + unfold rk in *. replace (map fst (filter running (map _ (nd_tasks nd)))) with (map fst (filter running (nd_tasks nd))); [exact IU|].
      clear - Hg. induction (nd_tasks nd) as [|[c0 [p0 t0]] r IH]; cbn [map filter fst snd]; [reflexivity|].
      assert (Er : running (c0, (p0, fst (cstep t0 (EDie i)))) = running (c0, (p0, t0))) by (unfold running; cbn [snd]; now rewrite Hg).
      rewrite Er. destruct (running (c0, (p0, t0))); cbn [map fst]; now rewrite IH.
Qed.

(* runs of a node: the transports' obligations along the run, and the stream the manager is fed *)
Fixpoint node_env_trace (L : limits) (nd : node) (l : live_t) (ann : list conn) (es : list nev) : Prop :=
  match es with
  | [] => True
  | e :: r =>
      node_env_ok nd l e /\
      let st := node_step L nd e in
      let g := arun L (nd_mgr nd) l ann (snd (snd st)) in
      node_env_trace L (fst st) (fst (snd g)) (snd (snd g)) r
  end.

Lemma arun_app L a : forall m l ann b,
  arun L m l ann (a ++ b) = let g := arun L m l ann a in arun L (fst g) (fst (snd g)) (snd (snd g)) b.
Proof. induction a as [|e t IH]; intros m l ann b; cbn [app arun fst snd]; [reflexivity|apply IH]. Qed.

Lemma env_trace_app L a : forall m l b,
  env_trace L m l a -> env_trace L (fst (grun L m l a)) (snd (grun L m l a)) b -> env_trace L m l (a ++ b).
Proof.
  induction a as [|e t IH]; intros m l b Ha Hb; cbn [app env_trace grun fst snd] in *; [exact Hb|].
  destruct Ha as [H1 H2]. split; [exact H1|]. now apply IH.
Qed.

Lemma node_run_inv L es : forall nd l ann,
  NodeInv L nd l ann -> node_env_trace L nd l ann es ->
  let r := node_run L nd es in
  let fed := snd (snd r) in
  let g := arun L (nd_mgr nd) l ann fed in
  env_trace L (nd_mgr nd) l fed /\ nd_mgr (fst r) = fst g /\ NodeInv L (fst r) (fst (snd g)) (snd (snd g)).
Proof.
  induction es as [|e t IH]; intros nd l ann I He; cbn [node_run node_env_trace] in *.
  - cbn [fst snd arun env_trace]. exact (conj Logic.I (conj eq_refl I)).
  - destruct He as [He1 He2]. pose proof (node_step_inv L nd l ann e I He1) as S. cbn zeta in S, He2.
    destruct (node_step L nd e) as [n1 [o1 f1]] eqn:E1. cbn [fst snd] in *.
    destruct S as (S1 & S2 & S3). specialize (IH n1 _ _ S3 He2). cbn zeta in IH.
    destruct (node_run L n1 t) as [n2 [o2 f2]] eqn:E2. cbn [fst snd] in *.
    destruct IH as (T1 & T2 & T3). rewrite S2 in T1, T2, T3.
    destruct (arun_grun L f1 (nd_mgr nd) l ann) as [G1 G2].
    rewrite arun_app. cbn zeta. split; [|split; assumption].
    apply env_trace_app; [exact S1|]. rewrite <- G1, <- G2. exact T1.
Qed.

(* With the repaired accept no accept future of a node ever fails: the manager's rollback branch
   (and with it the discarded ConnectionClosed of rollback_silent_refuted) is never taken. *)
Lemma node_step_no_rollback L nd e c ok :
  In (AcceptDone c ok) (snd (snd (node_step L nd e))) -> ok = true.
Proof.
  destruct e as [me|c0|c0 ce|i]; cbn [node_step].
  - destruct (is_internal me) eqn:Ei; [intros []|].
    destruct (step L (nd_mgr nd) me) as [m1 os]. cbn [snd]. intros [H|[]]. subst me. discriminate.
  - destruct (lookup c0 (accepting (nd_mgr nd))) as [[p b0]|]; [|intros []].
    rewrite accept_spec. destruct (step L (nd_mgr nd) (AcceptDone c0 true)) as [m1 os]. cbn [snd].
    intros [H|[]]. now inversion H.
  - destruct (negb (is_loop_event ce)); [intros []|].
    destruct (find_task c0 (nd_tasks nd)) as [[p t]|]; [|intros []].
    destruct (cstep t ce) as [t1 ns]. destruct (has_mgr_closed ns).
    + destruct (step L (nd_mgr nd) (Closed p c0)) as [m1 os]. cbn [snd]. intros [H|[]]. discriminate.
    + intros [].
  - intros [].
Qed.

Lemma node_run_no_rollback L es : forall nd c ok,
  In (AcceptDone c ok) (snd (snd (node_run L nd es))) -> ok = true.
Proof.
  induction es as [|e t IH]; intros nd c ok; cbn [node_run]; [intros []|].
  pose proof (node_step_no_rollback L nd e c ok) as S.
  destruct (node_step L nd e) as [n1 [o1 f1]]. specialize (IH n1 c ok).
  destruct (node_run L n1 t) as [n2 [o2 f2]]. cbn [fst snd] in *.
  intro H. apply in_app_iff in H. destruct H; auto.
Qed.
