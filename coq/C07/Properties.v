(* C07 — A terminated connection is reported closed to everyone exactly once.
   Pinned property theorems: statements, `exact`, Print Assumptions only.

   Part 1 is about the per-connection task (coq/C07/Model.v, tied to src/transport/tcp/connection.rs
   by the exit table and by the differential harness); part 2 about the transport manager model
   (coq/Mgr/Model.v) and the node = manager + tasks composition. *)
From Coq Require Import List Arith NArith Bool.
From V.gen Require ConnExits.
From V.Mgr Require Import Model Caps.
From V.Ts Require Import Report ReportProofs.
From V.gen Require ConnSkel.
From V.Ts Require Names.
From V.C07 Require Import Model Proofs Compose Block BlockProofs Skel SkelProofs Loop LoopProofs.
Import ListNotations.
Open Scope N_scope.

(* ---------------------------------------------------------------------------------------- *)
(* the skeleton tie: the exit sites of the event loop in the Rust source                      *)

(* The model's table of exit sites IS the list the extractor reads off connection.rs on every
   check (coq/gen/ConnExits.v). A new `?` / `return` / `Ok(true)` in start, handle_yamux_substream,
   handle_negotiated_substream or handle_protocol_command changes the right-hand side. *)
Theorem C07_exits_match : model_exits = ConnExits.conn_exits /\ ConnExits.conn_exits_complete = true.
Proof. exact (conj exits_match exits_extracted_completely). Qed.
Print Assumptions C07_exits_match.

(* In the source, every site through which a handler lets the loop end comes after a call of
   report_connection_closed in the same arm, and every exit site of `start` only forwards a handler. *)
Theorem C07_source_exits_dominated :
  forallb (fun s => if handler_site s then site_closed s && (site_callee s =? 1) else forwards_handler s)
          ConnExits.conn_exits = true.
Proof. exact source_exits_dominated. Qed.
Print Assumptions C07_source_exits_dominated.

(* The model leaves the loop only through listed sites: a handler site that is dominated by the
   report, and the site of `start` that forwards that handler. *)
Theorem C07_model_exit_sites_sound :
  forall t e i o, gone t = None -> gone (fst (cstep t e)) = Some (i, o) ->
  let si := nth i ConnExits.conn_exits no_site in
  let so := nth o ConnExits.conn_exits no_site in
  (i < length ConnExits.conn_exits)%nat /\ (o < length ConnExits.conn_exits)%nat /\
  handler_site si = true /\ site_closed si = true /\
  site_fn so = 3 /\ site_callee so = site_fn si + 5 /\
  snd (cstep t e) = closed_part (alive t) (mgr_up t).
Proof. exact exit_sites_sound. Qed.
Print Assumptions C07_model_exit_sites_sound.

(* every handler site of the source is taken by some model transition (nothing is listed in vain) *)
Theorem C07_exit_sites_covered :
  forall i, (i < length ConnExits.conn_exits)%nat ->
  handler_site (nth i ConnExits.conn_exits no_site) = true ->
  exists t e o, gone t = None /\ gone (fst (cstep t e)) = Some (i, o).
Proof. exact exit_sites_covered. Qed.
Print Assumptions C07_exit_sites_covered.

(* The WebSocket and QUIC loops are one function each (the handlers are inline in the select! arms), so
   they have their own exit tables, extracted from src/transport/{websocket,quic}/connection.rs on every
   check; the behaviour model (cstep) is shared. *)
Theorem C07_ws_exits_match : ws_model_exits = ConnExits.ws_exits /\ ConnExits.ws_exits_complete = true.
Proof. exact ws_exits_match. Qed.
Print Assumptions C07_ws_exits_match.

Theorem C07_quic_exits_match : quic_model_exits = ConnExits.quic_exits /\ ConnExits.quic_exits_complete = true.
Proof. exact quic_exits_match. Qed.
Print Assumptions C07_quic_exits_match.

(* In these sources every exit site of the loop is dominated by a call of report_connection_closed. *)
Theorem C07_ws_source_exits_dominated : forallb reported_site ConnExits.ws_exits = true.
Proof. exact ws_source_exits_dominated. Qed.
Print Assumptions C07_ws_source_exits_dominated.

Theorem C07_quic_source_exits_dominated : forallb reported_site ConnExits.quic_exits = true.
Proof. exact quic_source_exits_dominated. Qed.
Print Assumptions C07_quic_source_exits_dominated.

(* The model leaves the loop exactly where the source has an exit site for that select! branch: the site is
   listed, dominated by the report, a `?` site is taken only when the report returned an error, and the
   notes sent are the closed report; where the map gives no site the loop carries on. *)
Theorem C07_ws_exit_sites_sound :
  forall t e, gone t = None ->
  match ws_site t e with
  | Some i => gone (fst (cstep t e)) <> None /\ site_ok ConnExits.ws_exits t e i
  | None => gone (fst (cstep t e)) = None
  end.
Proof. exact ws_sites_sound. Qed.
Print Assumptions C07_ws_exit_sites_sound.

Theorem C07_quic_exit_sites_sound :
  forall t e, gone t = None ->
  match quic_site t e with
  | Some i => gone (fst (cstep t e)) <> None /\ site_ok ConnExits.quic_exits t e i
  | None => gone (fst (cstep t e)) = None
  end.
Proof. exact quic_sites_sound. Qed.
Print Assumptions C07_quic_exit_sites_sound.

Theorem C07_ws_exit_sites_covered :
  forall i, (i < length ConnExits.ws_exits)%nat -> exists t e, gone t = None /\ ws_site t e = Some i.
Proof. exact ws_sites_covered. Qed.
Print Assumptions C07_ws_exit_sites_covered.

Theorem C07_quic_exit_sites_covered :
  forall i, (i < length ConnExits.quic_exits)%nat -> exists t e, gone t = None /\ quic_site t e = Some i.
Proof. exact quic_sites_covered. Qed.
Print Assumptions C07_quic_exit_sites_covered.

(* ---------------------------------------------------------------------------------------- *)
(* part 1: the connection task                                                                *)

(* Exactly once, when the loop has ended — for whatever reason, after whatever history, with any
   protocols having exited at any moment: the manager is told once (if it still exists) and every
   protocol that is still running is told once. *)
Theorem C07_exit_reports :
  forall t es, gone t = None -> gone (fst (crun t es)) <> None ->
  let t' := fst (crun t es) in
  let ns := snd (crun t es) in
  cnt is_mgr_closed ns = (if mgr_up t' then 1%nat else 0%nat) /\
  (forall i, cnt (is_closed_of i) ns = if nth i (alive t') false then 1%nat else 0%nat).
Proof. exact exit_reports. Qed.
Print Assumptions C07_exit_reports.

(* Never twice, and never while the connection is still running. *)
Theorem C07_once :
  forall t es, gone t = None ->
  let t' := fst (crun t es) in
  let ns := snd (crun t es) in
  (cnt is_mgr_closed ns <= 1)%nat /\ (forall i, (cnt (is_closed_of i) ns <= 1)%nat) /\
  (gone t' = None -> cnt is_close_note ns = 0%nat).
Proof. exact at_most_once. Qed.
Print Assumptions C07_once.

(* Protocols before the manager: when the manager's notice is sent, every running protocol has been
   told already, and it is the last thing the task ever sends. *)
Theorem C07_order :
  forall t es l1 l2, gone t = None -> snd (crun t es) = l1 ++ NMgrClosed :: l2 ->
  l2 = [] /\ mgr_up (fst (crun t es)) = true /\
  forall i, nth i (alive (fst (crun t es))) false = true -> In (NClosed i) l1.
Proof. exact order. Qed.
Print Assumptions C07_order.

(* The whole shape of a run: substream notes while it runs; at the end the closed notes of the live
   protocols in one block, then the manager's. *)
Theorem C07_run_shape :
  forall es t, gone t = None ->
  let t' := fst (crun t es) in
  let ns := snd (crun t es) in
  (forall i, nth i (alive t') false = true -> nth i (alive t) false = true) /\
  length (alive t') = length (alive t) /\
  ((gone t' = None /\ forall x, In x ns -> is_sub_note x = true)
   \/
   (gone t' <> None /\
    exists pre, ns = pre ++ closed_part (alive t') (mgr_up t') /\
                forall x, In x pre -> is_sub_note x = true)).
Proof. exact crun_shape. Qed.
Print Assumptions C07_run_shape.

(* From accept to the end, with any protocols having exited before or during the connection: every
   protocol that runs at accept is told established exactly once and first; at the end the manager and
   every protocol still running are told closed exactly once; whoever is told closed was told established. *)
Theorem C07_lifecycle :
  forall al mup es t' ns,
  conn_run al mup es = (Some t', ns) -> gone t' <> None ->
  (exists rest, ns = map NEst (alive_idx 0 al) ++ rest /\ (forall i, cnt (is_est_of i) rest = 0%nat)) /\
  (forall i, cnt (is_est_of i) ns = if nth i al false then 1%nat else 0%nat) /\
  cnt is_mgr_closed ns = (if mgr_up t' then 1%nat else 0%nat) /\
  (forall i, cnt (is_closed_of i) ns = if nth i (alive t') false then 1%nat else 0%nat) /\
  (forall i, nth i (alive t') false = true -> nth i al false = true).
Proof. exact lifecycle. Qed.
Print Assumptions C07_lifecycle.

(* ... and the connection is always started: no history of protocol exits makes accept fail. *)
Theorem C07_connection_always_started :
  forall al mup es, exists t' ns, conn_run al mup es = (Some t', ns).
Proof. exact conn_run_started. Qed.
Print Assumptions C07_connection_always_started.

(* The shutdown of one protocol does not end the connection: the loop ends only on a termination
   cause (remote close / failure, force-close, nobody keeps the connection open) ... *)
Theorem C07_exit_only_on_cause :
  forall t e, gone t = None -> gone (fst (cstep t e)) <> None -> is_cause e = true.
Proof. exact exit_only_on_cause. Qed.
Print Assumptions C07_exit_only_on_cause.

(* ... and every termination cause does end it (with the report, by C07_exit_reports). *)
Theorem C07_cause_exits :
  forall t e, gone t = None -> is_cause e = true -> gone (fst (cstep t e)) <> None.
Proof. exact cause_exits. Qed.
Print Assumptions C07_cause_exits.

(* The remaining protocols keep using the connection: a substream of a live protocol is delivered
   whatever the state of the others, one for a protocol that has exited is dropped and nothing else
   happens. *)
Theorem C07_live_protocol_served :
  forall t i ob, gone t = None -> nth i (alive t) false = true ->
  cstep t (ENeg (NegOk i ob)) = (t, [NSubOpen i ob]) /\
  cstep t (ENeg (NegFail i)) = (t, [NSubFail i]).
Proof. exact live_protocol_served. Qed.
Print Assumptions C07_live_protocol_served.

Theorem C07_dead_protocol_ignored :
  forall t i ob, gone t = None -> nth i (alive t) false = false ->
  cstep t (ENeg (NegOk i ob)) = (t, []) /\ cstep t (ENeg (NegFail i)) = (t, []).
Proof. exact dead_protocol_ignored. Qed.
Print Assumptions C07_dead_protocol_ignored.

(* New connections: accept tells every protocol that still runs exactly once, skips the ones that have
   exited, and starts the loop — the shutdown of one protocol does not prevent the others from being told
   about new connections (F-C07b, repaired by the `fix:` commit in protocol_set.rs). *)
Theorem C07_accept_serves_live :
  forall al mup, accept al mup = (Some (mkTask al mup None), map NEst (alive_idx 0 al)).
Proof. exact accept_spec. Qed.
Print Assumptions C07_accept_serves_live.

Theorem C07_accept_each_once :
  forall al i, cnt (is_est_of i) (map NEst (alive_idx 0 al)) = if nth i al false then 1%nat else 0%nat.
Proof. intros al i. apply cnt_est_alive. Qed.
Print Assumptions C07_accept_each_once.

(* F-C07b as it was: with one dead receiver the accept failed (after serving some of the others). *)
Theorem C07_unfixed_accept_refuted :
  fst (accept_unfixed [true; false; true] true [0%nat]) = None /\
  accept [true; false; true] true = (Some (mkTask [true; false; true] true None), [NEst 0; NEst 2]).
Proof. exact unfixed_accept_refused. Qed.
Print Assumptions C07_unfixed_accept_refuted.

(* F-C07a (repaired by the `fix:` commit): the loop as it was left without a word when a substream
   was negotiated for a protocol that had exited; the repaired loop carries on. *)
Theorem C07_unfixed_loop_refuted :
  let t := mkTask [true; false] true None in
  let r := cstep_unfixed t (ENeg (NegOk 1 false)) in
  gone (fst r) <> None /\ snd r = [] /\ cstep t (ENeg (NegOk 1 false)) = (t, []).
Proof. exact unfixed_silent_exit. Qed.
Print Assumptions C07_unfixed_loop_refuted.

(* ---------------------------------------------------------------------------------------- *)
(* part 2: the manager and the application                                                    *)

(* The invariant (caps + "recorded = live" + "live = accepting or announced") holds along every run
   of the manager in which the environment respects connection-id uniqueness (Caps.env_ok). *)
Theorem C07_manager_invariant :
  forall L es m l ann, Inv L m l ann -> env_trace L m l es ->
  let r := arun L m l ann es in Inv L (fst r) (fst (snd r)) (snd (snd r)).
Proof. exact inv_run. Qed.
Print Assumptions C07_manager_invariant.

Theorem C07_manager_invariant_init : forall L, Inv L init [] [].
Proof. exact inv_init. Qed.
Print Assumptions C07_manager_invariant_init.

(* The application sees ConnectionClosed exactly when the last live connection of the peer is gone. *)
Theorem C07_app_closed_iff_last :
  forall L m l ann p c b,
  Inv L m l ann -> env_ok m l (Closed p c) -> lookup c l = Some (p, b) ->
  (In (EvClosed p c) (snd (step L m (Closed p c))) <-> of_peer p (remove_key c l) = []).
Proof. exact app_closed_iff_last. Qed.
Print Assumptions C07_app_closed_iff_last.

(* Never before the matching established event: the connection whose closing is reported had been
   announced to the application (EvEstablished) and not closed since. *)
Theorem C07_app_closed_was_announced :
  forall L m l ann p c b,
  Inv L m l ann -> env_ok m l (Closed p c) -> lookup c l = Some (p, b) -> In c ann.
Proof. exact app_closed_was_announced. Qed.
Print Assumptions C07_app_closed_was_announced.

(* A closed notice for a connection that is not live changes and reports nothing. *)
Theorem C07_stale_closed_ignored :
  forall L m l ann p c, Inv L m l ann -> lookup c l = None ->
  snd (step L m (Closed p c)) = [] /\ forall q, state_of (fst (step L m (Closed p c))) q = state_of m q.
Proof. exact stale_closed_ignored. Qed.
Print Assumptions C07_stale_closed_ignored.

(* Afterwards the peer counts as disconnected and can be dialed again: the dial is never refused as
   AlreadyConnected (with a known address and below the limit C05's redial lemma shows it attempted). *)
Theorem C07_closed_then_dialable :
  forall L m p c, In (EvClosed p c) (snd (step L m (Closed p c))) ->
  let m' := fst (step L m (Closed p c)) in
  (exists d, state_of m' p = Disconnected d) /\
  forall ts fl, ~ In (Ret RET_CONNECTED) (snd (do_dial_peer L m' p ts fl)).
Proof. exact closed_then_dialable. Qed.
Print Assumptions C07_closed_then_dialable.

(* If an accept future fails, the manager's rollback can remove the last connection of a peer the
   application was told about, silently (the `connection_closed` flag of the rollback is discarded). Before
   the repair of F-C07b this was reachable; now no accept future of a node fails (next theorem). *)
Theorem C07_rollback_silent_refuted :
  let L := mkLimits None None [TCP; WS] in
  let es := [TrEstablished 5 0 TCP true false; AcceptDone 0 true; TrEstablished 5 1 WS true false;
             Closed 5 0; AcceptDone 1 false] in
  env_trace L init [] es /\
  concat (snd (run L init es)) = [CallAccept 0 TCP; EvEstablished 5 0; CallAccept 1 WS] /\
  state_of (fst (run L init es)) 5 = Disconnected None.
Proof. exact rollback_silent_refuted. Qed.
Print Assumptions C07_rollback_silent_refuted.

(* Assume/guarantee: in a node (manager + the connection tasks it spawned + protocols that may exit
   at any time), if the transports deliver established connections with fresh ids, then the whole
   stream the manager is fed — including every AcceptDone and every Closed generated by the accept
   futures and the connection tasks — satisfies the environment assumption of the manager theorems
   (C05, C06 and the ones above), and the invariants hold for the node. *)
Theorem C07_node_feeds_manager :
  forall L es nd l ann, NodeInv L nd l ann -> node_env_trace L nd l ann es ->
  let r := node_run L nd es in
  let fed := snd (snd r) in
  let g := arun L (nd_mgr nd) l ann fed in
  env_trace L (nd_mgr nd) l fed /\ nd_mgr (fst r) = fst g /\ NodeInv L (fst r) (fst (snd g)) (snd (snd g)).
Proof. exact node_run_inv. Qed.
Print Assumptions C07_node_feeds_manager.

(* No accept future of a node fails any more, whichever protocols have exited: the manager never takes
   its rollback branch for a connection of the TCP / WebSocket / QUIC transports. *)
Theorem C07_node_no_rollback :
  forall L es nd c ok, In (AcceptDone c ok) (snd (snd (node_run L nd es))) -> ok = true.
Proof. exact node_run_no_rollback. Qed.
Print Assumptions C07_node_no_rollback.

Theorem C07_node_init : forall L n, NodeInv L (node_init n) [] [].
Proof. exact node_inv_init. Qed.
Print Assumptions C07_node_init.

(* ---------------------------------------------------------------------------------------- *)
(* part 3: back-pressure — the reports are `send(..).await` on bounded channels shared by all   *)
(* connections (coq/C07/Block.v over coq/Ts/Report.v); every schedule of loop events, protocol   *)
(* receives, protocol exits and scheduler polls                                                  *)

(* The invariant of the composed system holds initially and along every schedule. *)
Theorem C07_block_invariant :
  forall me n cap es, Binv me (fst (brun (binit n cap) es)).
Proof. intros me n cap es. apply binv_run, binv_init. Qed.
Print Assumptions C07_block_invariant.

(* Exactly-once survives blocking: whatever the schedule, from whatever state, the manager is told
   at most once that a connection is closed. *)
Theorem C07_block_manager_told_once :
  forall me es s, (cnt_out (is_mgr me) (snd (brun s es)) <= 1)%nat.
Proof. intros me es s. apply mgr_once_from. Qed.
Print Assumptions C07_block_manager_told_once.

(* Protocols before the manager, also when sends have to wait: when the manager is told, no send of the
   connection is waiting any more and every protocol still running has the closed notice in its channel. *)
Theorem C07_block_told_after_protocols :
  forall me s e, Binv me s -> In (OMgrClosed me) (snd (bstep s e)) ->
  let s' := fst (bstep s e) in
  busy_in me (s_ch s') = false /\
  exists bc, find_c me (s_conns s') = Some bc /\ b_ph bc = PDone /\
    forall p, nth p (alive (b_task bc)) false = true -> In (IClosed me) (racc_at (s_ch s') p).
Proof. exact told_after_protocols. Qed.
Print Assumptions C07_block_told_after_protocols.

(* Every protocol channel carries the closed notice of a connection at most once, and not at all while
   the connection runs. *)
Theorem C07_block_closed_once_per_channel :
  forall me s p, Binv me s ->
  (cntc me (racc_at (s_ch s) p) <= 1)%nat /\
  ((forall bc, find_c me (s_conns s) = Some bc -> is_gone (b_task bc) = false) -> cntc me (racc_at (s_ch s) p) = 0%nat).
Proof. intros me s p I. split; [apply (bi_c1 _ _ I)|intro H; now apply (bi_c0 _ _ I)]. Qed.
Print Assumptions C07_block_closed_once_per_channel.

(* Liveness under draining: from any reachable state, once every protocol has received what is queued
   for it or waiting (the schedule `flush`), a parked report completes at the next poll: a parked closed
   report tells the manager, a parked accept resolves, a parked substream report lets the loop go on. *)
Theorem C07_block_parked_report_completes :
  forall me s bc, Binv me s -> (1 <= s_cap s)%nat -> find_c me (s_conns s) = Some bc ->
  let s1 := fst (brun s (flush s)) in
  snd (brun s (flush s)) = [] /\
  match b_ph bc with
  | PWaitClosed => snd (bstep s1 (BResume me)) = [OMgrClosed me] /\
                   ph_of me (fst (bstep s1 (BResume me))) = Some PDone
  | PWaitEst => snd (bstep s1 (BResume me)) = [OAccepted me] /\
                ph_of me (fst (bstep s1 (BResume me))) = Some PRun
  | PWaitSub => ph_of me (fst (bstep s1 (BResume me))) = Some PRun
  | _ => True
  end.
Proof. exact parked_report_completes. Qed.
Print Assumptions C07_block_parked_report_completes.

(* ... and every protocol that still runs has then received the closed notice exactly once. *)
Theorem C07_block_delivered_exactly_once :
  forall me s bc p ch, Binv me s -> (1 <= s_cap s)%nat ->
  find_c me (s_conns s) = Some bc -> is_gone (b_task bc) = true ->
  nth p (alive (b_task bc)) false = true -> nth p (s_alive s) false = true ->
  nth_error (s_ch (fst (brun s (flush s)))) p = Some ch ->
  cntc me (rdel ch) = 1%nat.
Proof. exact delivered_exactly_once. Qed.
Print Assumptions C07_block_delivered_exactly_once.

(* Back-pressure is real, and it is all there is: while the protocol on whose channel a connection waits
   neither receives nor exits, the connection keeps waiting and the manager is not told — under every
   schedule of everything else (other connections, other protocols). A protocol that never drains its
   channel therefore holds back the reports of every connection that has to tell it something; it does not
   stop the manager loop, which never waits on a protocol channel. *)
Theorem C07_block_waits_until_drained :
  forall me p es s, forallb (leaves_alone p) es = true -> busy_at me (s_ch s) p = true ->
  busy_at me (s_ch (fst (brun s es))) p = true /\ cnt_out (is_mgr me) (snd (brun s es)) = 0%nat.
Proof. exact waits_until_drained. Qed.
Print Assumptions C07_block_waits_until_drained.

(* ---------------------------------------------------------------------------------------- *)
(* part 4: the statement-level skeleton of the loops, read from the source on every check      *)
(* (coq/gen/ConnSkel.v, tools/gen_c07_skel.py; semantics coq/C07/Skel.v)                        *)

(* What the extracted select! branches, match arms, calls and result handling of tcp/connection.rs mean
   IS the behaviour model: same notes, the loop goes on exactly when the model's does, and `start` returns
   Err exactly when the loop ended and the closed report returned an error. A report call added, removed or
   reordered in an arm, an error propagated with `?` instead of logged, a new arm: this proof breaks. *)
Theorem C07_tcp_skeleton_is_model :
  forall t e, gone t = None -> in_range t e = true ->
  agrees (skel_step ConnSkel.tcp_start ConnSkel.tcp_handlers t e) t e.
Proof. exact tcp_skel_is_cstep. Qed.
Print Assumptions C07_tcp_skeleton_is_model.

(* The WebSocket and QUIC loops (one function each, handlers inline) to the same depth. *)
Theorem C07_ws_skeleton_is_model :
  forall t e, gone t = None -> in_range t e = true -> agrees (skel_step ConnSkel.ws_start [] t e) t e.
Proof. exact ws_skel_is_cstep. Qed.
Print Assumptions C07_ws_skeleton_is_model.

Theorem C07_quic_skeleton_is_model :
  forall t e, gone t = None -> in_range t e = true -> agrees (skel_step ConnSkel.quic_start [] t e) t e.
Proof. exact quic_skel_is_cstep. Qed.
Print Assumptions C07_quic_skeleton_is_model.

(* The loops have exactly the three branches connection / negotiation results / commands, the `if` guard is
   on the negotiation-results branch only, and the extractor recognised everything around them. *)
Theorem C07_skeleton_shape :
  guards_ok ConnSkel.tcp_start = true /\ guards_ok ConnSkel.ws_start = true /\ guards_ok ConnSkel.quic_start = true /\
  map fst ConnSkel.tcp_start = [1; 2; 3] /\ map fst ConnSkel.ws_start = [1; 2; 3] /\ map fst ConnSkel.quic_start = [1; 2; 3] /\
  ConnSkel.tcp_skel_complete = true /\ ConnSkel.ws_skel_complete = true /\ ConnSkel.quic_skel_complete = true.
Proof. exact guards_on_negotiation_branch_only. Qed.
Print Assumptions C07_skeleton_shape.

(* The one way a loop can die without a report: protocol_codec's `.expect("protocol to exist")` for a
   substream negotiated for a protocol that is not in the set (hypothesis in_range above) ... *)
Theorem C07_codec_panic_site :
  forall t i ob, (i <? length (alive t))%nat = false ->
  snd (skel_step ConnSkel.tcp_start ConnSkel.tcp_handlers t (ENeg (NegOk i ob))) = Some RPanic /\
  snd (skel_step ConnSkel.ws_start [] t (ENeg (NegOk i ob))) = Some RPanic /\
  snd (skel_step ConnSkel.quic_start [] t (ENeg (NegOk i ob))) = Some RPanic.
Proof. exact skel_panics_out_of_range. Qed.
Print Assumptions C07_codec_panic_site.

(* ... which the name tables of ProtocolSet::new (coq/Ts/Names.v) exclude: every name the set offers for
   negotiation (main or fallback) resolves to a protocol of the set. *)
Theorem C07_codec_total :
  forall tbl nm, NoDup (Names.all_names tbl) -> Names.classify tbl nm <> None ->
  exists i, proto_index tbl nm = Some i /\ (i < length tbl)%nat.
Proof. exact codec_total. Qed.
Print Assumptions C07_codec_total.

Theorem C07_advertised_in_range :
  forall tbl nm t ob, NoDup (Names.all_names tbl) -> Names.classify tbl nm <> None -> length (alive t) = length tbl ->
  exists i, proto_index tbl nm = Some i /\ in_range t (ENeg (NegOk i ob)) = true.
Proof. exact advertised_in_range. Qed.
Print Assumptions C07_advertised_in_range.

(* The accept futures of TCP, WebSocket, QUIC and WebRTC as extracted (`report_connection_established(..)
   .await?`, then the loop is spawned and its result is not looked at, then Ok(())) are the model's accept. *)
Theorem C07_accept_skeleton :
  forall a al mup,
  a = ConnSkel.tcp_accept \/ a = ConnSkel.ws_accept \/ a = ConnSkel.quic_accept \/ a = ConnSkel.webrtc_accept ->
  accept_skel a al = (snd (accept al mup), Some true) /\ fst (accept al mup) = Some (mkTask al mup None).
Proof. exact accept_skel_is_accept. Qed.
Print Assumptions C07_accept_skeleton.

(* The statements of ProtocolSet::report_connection_closed as extracted (fan-out to every protocol, the
   sends are awaited, THEN the manager is told, with `?`; the first protocol error is returned at the end)
   mean report_closed: protocols before the manager is a fact about the source text. *)
Theorem C07_report_closed_skeleton :
  forall al mup, pset_result al mup ConnSkel.pset_report_connection_closed = Some (report_closed al mup).
Proof. exact pset_closed_is_report_closed. Qed.
Print Assumptions C07_report_closed_skeleton.

Theorem C07_report_established_skeleton :
  forall al mup, pset_result al mup ConnSkel.pset_report_connection_established = Some (report_established al).
Proof. exact pset_established_is_report_established. Qed.
Print Assumptions C07_report_established_skeleton.

(* WebRTC (feature crate): every `return` of run_event_loop is `return self.on_connection_closed().await`,
   there is no `?` and no `break` in it, and on_connection_closed ends with the closed report after
   statements that cannot leave the function. *)
Theorem C07_webrtc_exits_report :
  ConnSkel.webrtc_loop_found = true /\ ConnSkel.webrtc_loop_exits <> [] /\
  forallb webrtc_exit_ok ConnSkel.webrtc_loop_exits = true /\
  ends_with_closed_report ConnSkel.webrtc_on_connection_closed = true.
Proof. exact webrtc_exits_report. Qed.
Print Assumptions C07_webrtc_exits_report.

(* Litep2p::next_event: the manager's ConnectionClosed / ConnectionEstablished become the application's
   events of the same name, nothing else does, and neither is swallowed by the `_ => {}` arm. *)
Theorem C07_app_event_map :
  app_map ConnSkel.TEV_CLOSED = Some ConnSkel.APP_CLOSED /\ app_map ConnSkel.TEV_ESTABLISHED = Some ConnSkel.APP_ESTABLISHED /\
  (forall v, In v ConnSkel.transport_event_variants -> app_map v = Some ConnSkel.APP_CLOSED -> v = ConnSkel.TEV_CLOSED) /\
  (forall v, In v ConnSkel.transport_event_variants -> app_map v = Some ConnSkel.APP_ESTABLISHED -> v = ConnSkel.TEV_ESTABLISHED) /\
  In ConnSkel.TEV_CLOSED ConnSkel.transport_event_variants /\ In ConnSkel.TEV_ESTABLISHED ConnSkel.transport_event_variants /\
  In ConnSkel.APP_CLOSED ConnSkel.app_event_variants /\ In ConnSkel.APP_ESTABLISHED ConnSkel.app_event_variants /\
  NoDup (map fst ConnSkel.app_map_arms).
Proof. exact app_map_closed_established. Qed.
Print Assumptions C07_app_event_map.

(* ---------------------------------------------------------------------------------------- *)
(* part 5: the loop with what feeds it (coq/C07/Loop.v): command channel, handles, remote end,  *)
(* names; tied by the loop-level harness stream that polls the real `start()` future by hand     *)

(* A loop-level run is a run of the loop model on the events the operations cause. *)
Theorem C07_loop_is_model_run :
  forall ops s,
  l_task (fst (lrun s ops)) = fst (crun (l_task s) (all_events s ops)) /\
  snd (lrun s ops) = snd (crun (l_task s) (all_events s ops)).
Proof. exact lrun_is_crun. Qed.
Print Assumptions C07_loop_is_model_run.

(* Exactly once, from accept to the end, for every script of protocol actions, remote actions, protocol
   exits and races: established once to whoever runs at accept; when the loop has ended, closed once to the
   manager and to every protocol still running. *)
Theorem C07_loop_lifecycle :
  forall al fb ops,
  let r := whole_run al fb ops in
  let t' := l_task (fst r) in
  gone t' <> None ->
  (forall i, cnt (is_est_of i) (snd r) = if nth i al false then 1%nat else 0%nat) /\
  cnt is_mgr_closed (snd r) = (if mgr_up t' then 1%nat else 0%nat) /\
  (forall i, cnt (is_closed_of i) (snd r) = if nth i (alive t') false then 1%nat else 0%nat) /\
  (forall i, nth i (alive t') false = true -> nth i al false = true).
Proof. exact loop_lifecycle. Qed.
Print Assumptions C07_loop_lifecycle.

Theorem C07_loop_silent_while_running :
  forall al fb ops, let r := whole_run al fb ops in
  gone (l_task (fst r)) = None -> cnt is_close_note (snd r) = 0%nat.
Proof. exact loop_silent_while_running. Qed.
Print Assumptions C07_loop_silent_while_running.

(* Idle expiry / "a local protocol having shut down": the command stream ends exactly when the last strong
   sender is gone — a connection that still runs is held by some protocol, or by the permit of a substream
   negotiation that is still pending. *)
Theorem C07_loop_running_is_held :
  forall al fb ops, let s := fst (whole_run al fb ops) in running s = true -> any_strong (l_handle s) (l_pend s) = true.
Proof. exact loop_running_is_held. Qed.
Print Assumptions C07_loop_running_is_held.

(* The operations that end a connection are exactly: force-close through a held handle, the remote closing,
   the last handle being dropped (alone, or racing with an inbound substream that is refused its permit).
   A protocol or the manager's receiver going away, a substream opening or failing, never do. *)
Theorem C07_loop_ends_iff_cause :
  forall s o, running s = true -> (running (fst (lstep s o)) = false <-> ends_conn s o = true).
Proof. exact loop_ends_iff_cause. Qed.
Print Assumptions C07_loop_ends_iff_cause.

(* Every event the operations feed to the loop satisfies the hypothesis of the skeleton theorems. *)
Theorem C07_loop_events_in_range :
  forall s o e fb, l_tbl s = mk_tbl (nprot s) fb -> In e (events_of s o) -> is_loop_event e = true ->
  forall t, length (alive t) = nprot s -> in_range t e = true.
Proof. exact loop_events_in_range. Qed.
Print Assumptions C07_loop_events_in_range.

(* The exit arm the harness reads from the log and the Ok/Err result of `start()` determine the pair of
   exit sites of the TCP table the model records. *)
Theorem C07_tcp_arm_site :
  forall t e i o, gone t = None -> gone (fst (cstep t e)) = Some (i, o) ->
  let ok := all_alive (alive t) && mgr_up t in
  (1 <= arm_of e)%N /\ i = (2 * (N.to_nat (arm_of e) - 1) + (if ok then 1 else 0))%nat /\
  state_code (fst (cstep t e)) = (if ok then 1 else 2).
Proof. exact tcp_arm_site. Qed.
Print Assumptions C07_tcp_arm_site.

(* non-vacuity: two protocols with channels of capacity 1. Connection 0 is accepted; the accept of
   connection 1 has to wait; connection 0 ends and its closed report has to wait too (the manager is not
   told); once the protocols have received everything, both parked reports complete. *)
Example C07_block_nonvacuous :
  let s0 := binit 2 1 in
  let r1 := brun s0 [BAccept 0; BAccept 1; BLoop 0 (EYamux YEof)] in
  snd r1 = [OAccepted 0] /\
  ph_of 1 (fst r1) = Some PWaitEst /\ ph_of 0 (fst r1) = Some PWaitClosed /\
  snd (brun (fst r1) (flush (fst r1) ++ [BResume 0; BResume 1])) = [OMgrClosed 0; OAccepted 1].
Proof. vm_compute. repeat split. Qed.

(* non-vacuity: a node with three protocols; a connection is accepted, one protocol exits, a
   substream for it is dropped, the remote closes: the application sees established then closed *)
Example C07_nonvacuous :
  let L := mkLimits None None [TCP; WS] in
  let es := [NMgr AllocConn; NMgr (TrEstablished 7 0 TCP true false); NAccept 0;
             NProtoDie 1; NTask 0 (ENeg (NegOk 1 false)); NTask 0 (ENeg (NegOk 2 false));
             NTask 0 (EYamux YEof)] in
  node_env_trace L (node_init 3) [] [] es /\
  fst (snd (node_run L (node_init 3) es)) =
    [OMgr (Ret 100); OMgr (CallAccept 0 TCP);
     ONote 0 (NEst 0); ONote 0 (NEst 1); ONote 0 (NEst 2); OMgr (EvEstablished 7 0);
     ONote 0 (NSubOpen 2 false);
     ONote 0 (NClosed 0); ONote 0 (NClosed 2); ONote 0 NMgrClosed; OMgr (EvClosed 7 0)].
Proof. vm_compute. intuition (try congruence; try discriminate). Qed.
