(* C07/Block — back-pressure: the connection tasks composed with the bounded protocol channels of
   coq/Ts/Report.v. Definitions only.

   Every report of a connection (`report_connection_established` in the accept future,
   `report_substream_open[_failure]` and `report_connection_closed` in the event loop) is a
   `tx.send(..).await` on the event channel of the protocol: if the channel is full (or earlier
   senders are waiting — the tokio semaphore is fair) the send waits, and with it the whole
   connection task (or accept future), which is sequential. The manager is told
   (TransportManagerEvent::ConnectionClosed, or the accept future resolving) only after every
   protocol send of the report has been accepted by its channel. The channels are shared by all
   connections of the node. A protocol receives its events one at a time, at arbitrary moments; a
   protocol that exits drops its receiver: queued events are lost and waiting senders complete
   with an error.

   What the model makes explicit: which steps are enabled in which phase (a parked task takes no
   loop event), and that nothing but the channels is shared — the manager loop never waits on a
   protocol channel (it uses try_send for DialFailure and polls the accept futures in a
   FuturesUnordered inside its select!), so it is not part of this model: its inputs are the two
   outputs below. *)
From Coq Require Import List NArith Bool PeanoNat.
From V.Ts Require Import Report.
From V.C07 Require Import Model.
Import ListNotations.
Open Scope N_scope.

Inductive phase :=
| PWaitEst      (* accept future: report_connection_established waits for room *)
| PRun          (* in the event loop, no report in flight *)
| PWaitSub      (* a substream report waits for room; the loop is parked *)
| PWaitClosed   (* the loop has ended, report_connection_closed waits for room; manager not told yet *)
| PDone.        (* the task is gone *)

Record bconn := mkB { b_task : task; b_ph : phase }.

Record bsys := mkS {
  s_cap : nat;
  s_ch : list rchan;                 (* one channel per protocol *)
  s_alive : list bool;               (* protocol receivers *)
  s_conns : list (N * bconn)
}.

Definition binit (nproto cap : nat) : bsys :=
  mkS cap (repeat (mkRc [] [] [] []) nproto) (repeat true nproto) [].

(* the event a note becomes on the channel of its protocol *)
Definition item_of (c : N) (x : note) : option (nat * item) :=
  match x with
  | NEst i => Some (i, IEst c)
  | NClosed i => Some (i, IClosed c)
  | NSubOpen i ob => Some (i, IOpened c (if ob then Some 0 else None))
  | NSubFail i => Some (i, IFailure c 0)
  | NMgrClosed => None
  end.

Definition post (cap : nat) (c : N) (chs : list rchan) (x : note) : list rchan :=
  match item_of c x with
  | Some (i, it) => upd i (send_one cap c it) chs
  | None => chs
  end.
Definition post_all (cap : nat) (c : N) (ns : list note) (chs : list rchan) : list rchan :=
  fold_left (post cap c) ns chs.

(* does connection c have a send waiting somewhere? *)
Definition busy_in (c : N) (chs : list rchan) : bool := existsb (ch_busy c) chs.

Fixpoint find_c (c : N) (l : list (N * bconn)) : option bconn :=
  match l with
  | [] => None
  | (c', b) :: t => if c' =? c then Some b else find_c c t
  end.
Fixpoint set_c (c : N) (b : bconn) (l : list (N * bconn)) : list (N * bconn) :=
  match l with
  | [] => []
  | (c', b') :: t => if c' =? c then (c', b) :: t else (c', b') :: set_c c b t
  end.

(* the protocol receives k events, one at a time (each makes room for one waiting send) *)
Fixpoint recv_n (cap : nat) (k : nat) (ch : rchan) : rchan :=
  match k with
  | O => ch
  | S m => recv_n cap m (fst (drain_ch cap 1 ch))
  end.

(* the receiver is dropped: what is queued is lost, waiting senders give up *)
Definition kill_ch (ch : rchan) : rchan := mkRc [] [] (racc ch) (rdel ch).

Inductive bout :=
| OAccepted (c : N)      (* the accept future of c resolved: the manager announces the connection *)
| OMgrClosed (c : N).    (* TransportManagerEvent::ConnectionClosed of c reaches the manager's channel *)

Inductive bev :=
| BAccept (c : N)             (* the accept future of a new connection starts *)
| BLoop (c : N) (e : cev)     (* the event loop of c handles one event (only if it is not parked) *)
| BResume (c : N)             (* the scheduler polls the parked task / accept future of c *)
| BRecv (p k : nat)           (* protocol p receives up to k events *)
| BDie (p : nat).             (* protocol p exits *)

Definition is_gone (t : task) : bool := match gone t with Some _ => true | None => false end.

Definition bstep (s : bsys) (ev : bev) : bsys * list bout :=
  let cap := s_cap s in
  match ev with
  | BAccept c =>
      match find_c c (s_conns s) with
      | Some _ => (s, [])
      | None =>
          match accept (s_alive s) true with
          | (Some t, ns) =>
              let chs := post_all cap c ns (s_ch s) in
              let b := busy_in c chs in
              (mkS cap chs (s_alive s) ((c, mkB t (if b then PWaitEst else PRun)) :: s_conns s),
               if b then [] else [OAccepted c])
          | (None, _) => (s, [])
          end
      end
  | BLoop c e =>
      match find_c c (s_conns s) with
      | Some bc =>
          match b_ph bc with
          | PRun =>
              if is_loop_event e then
                let '(t1, ns) := cstep (b_task bc) e in
                let chs := post_all cap c ns (s_ch s) in
                let b := busy_in c chs in
                let ph := if is_gone t1 then (if b then PWaitClosed else PDone)
                          else (if b then PWaitSub else PRun) in
                (mkS cap chs (s_alive s) (set_c c (mkB t1 ph) (s_conns s)),
                 if is_gone t1 && negb b && mgr_up t1 then [OMgrClosed c] else [])
              else (s, [])
          | _ => (s, [])
          end
      | None => (s, [])
      end
  | BResume c =>
      match find_c c (s_conns s) with
      | Some bc =>
          if busy_in c (s_ch s) then (s, [])
          else
            match b_ph bc with
            | PWaitEst => (mkS cap (s_ch s) (s_alive s) (set_c c (mkB (b_task bc) PRun) (s_conns s)), [OAccepted c])
            | PWaitSub => (mkS cap (s_ch s) (s_alive s) (set_c c (mkB (b_task bc) PRun) (s_conns s)), [])
            | PWaitClosed =>
                (mkS cap (s_ch s) (s_alive s) (set_c c (mkB (b_task bc) PDone) (s_conns s)),
                 if mgr_up (b_task bc) then [OMgrClosed c] else [])
            | _ => (s, [])
            end
      | None => (s, [])
      end
  | BRecv p k => (mkS cap (upd p (recv_n cap k) (s_ch s)) (s_alive s) (s_conns s), [])
  | BDie p =>
      (mkS cap (upd p kill_ch (s_ch s)) (set_nth p false (s_alive s))
           (map (fun cb => (fst cb, mkB (fst (cstep (b_task (snd cb)) (EDie p))) (b_ph (snd cb)))) (s_conns s)),
       [])
  end.

Fixpoint brun (s : bsys) (es : list bev) : bsys * list bout :=
  match es with
  | [] => (s, [])
  | e :: r => let '(s1, o1) := bstep s e in let '(s2, o2) := brun s1 r in (s2, o1 ++ o2)
  end.

(* the schedule in which every protocol receives everything that is queued for it or waiting *)
Fixpoint flush_from (k : nat) (chs : list rchan) : list bev :=
  match chs with
  | [] => []
  | ch :: t => BRecv k (backlog ch) :: flush_from (S k) t
  end.
Definition flush (s : bsys) : list bev := flush_from 0 (s_ch s).
