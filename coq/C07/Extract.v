From Coq Require Import ExtrOcamlBasic.
From V.C07 Require Import Glue.
Extraction Language OCaml.
Extraction "c07_model.ml" run_case prop_ok known_class.
