(* C07 — lemmas about the connection task model (coq/C07/Model.v). *)
From Coq Require Import List Arith NArith Bool Lia.
From Coq Require Import ZifyBool ZifyNat ZifyN.
From V.gen Require ConnExits.
From V.C07 Require Import Model.
Import ListNotations.
Open Scope N_scope.

Arguments N.add : simpl never.
Arguments N.eqb : simpl never.
Arguments N.of_nat : simpl never.

(* ------------------------------------------------------------------------------------------ *)
(* skeleton tie: the model's exit table is the list extracted from the Rust source             *)

Lemma exits_match : model_exits = ConnExits.conn_exits.
Proof. reflexivity. Qed.

Lemma exits_extracted_completely : ConnExits.conn_exits_complete = true.
Proof. reflexivity. Qed.

(* a site of a handler (not of `start`) lets the loop end; it must come after the report *)
Definition handler_site (s : site) : bool := negb (site_fn s =? 3).
(* a site of `start` only forwards what a handler decided *)
Definition forwards_handler (s : site) : bool :=
  (site_fn s =? 3) && ((site_callee s =? 5) || (site_callee s =? 6) || (site_callee s =? 7)).

Lemma source_exits_dominated :
  forallb (fun s => if handler_site s then site_closed s && (site_callee s =? 1) else forwards_handler s)
          ConnExits.conn_exits = true.
Proof. rewrite <- exits_match. reflexivity. Qed.

(* ------------------------------------------------------------------------------------------ *)
(* the reports                                                                                 *)

Fixpoint alive_idx (k : nat) (al : list bool) : list nat :=
  match al with
  | [] => []
  | a :: t => (if a then [k] else []) ++ alive_idx (S k) t
  end.

Lemma send_all_from_spec k mk al : send_all_from k mk al = (map mk (alive_idx k al), all_alive al).
Proof.
  revert k. induction al as [|a t IH]; intro k; cbn [send_all_from alive_idx all_alive forallb].
  - reflexivity.
  - rewrite IH. destruct a; reflexivity.
Qed.

Lemma alive_idx_in k al i :
  In i (alive_idx k al) <-> (k <= i)%nat /\ nth (i - k) al false = true.
Proof.
  revert k. induction al as [|a t IH]; intro k; cbn [alive_idx].
  - split; [intros []|]. intros [_ H]. destruct (i - k)%nat; discriminate.
  - rewrite in_app_iff, IH. split.
    + intros [H|[H1 H2]].
      * destruct a; [|destruct H]. destruct H as [H|[]]. subst i. split; [lia|].
        replace (k - k)%nat with 0%nat by lia. reflexivity.
      * split; [lia|]. replace (i - k)%nat with (S (i - S k)) by lia. exact H2.
    + intros [H1 H2]. destruct (Nat.eq_dec i k) as [E|E].
      * left. subst i. replace (k - k)%nat with 0%nat in H2 by lia. cbn in H2. subst a. now left.
      * right. split; [lia|]. replace (i - k)%nat with (S (i - S k)) in H2 by lia. exact H2.
Qed.

Lemma alive_idx_nodup k al : NoDup (alive_idx k al).
Proof.
  revert k. induction al as [|a t IH]; intro k; cbn [alive_idx]; [constructor|].
  destruct a; cbn [app]; [|apply IH].
  constructor; [|apply IH]. rewrite alive_idx_in. lia.
Qed.

Lemma alive_idx_0 al i : In i (alive_idx 0 al) <-> nth i al false = true.
Proof. rewrite alive_idx_in. replace (i - 0)%nat with i by lia. split; [tauto|]. intro; split; [lia|tauto]. Qed.

Definition closed_part (al : list bool) (mup : bool) : list note :=
  map NClosed (alive_idx 0 al) ++ (if mup then [NMgrClosed] else []).

Lemma report_closed_notes al mup : fst (report_closed al mup) = closed_part al mup.
Proof.
  unfold report_closed, send_all, closed_part. rewrite send_all_from_spec.
  destruct mup; cbn [fst]; [reflexivity|]. now rewrite app_nil_r.
Qed.

Lemma report_closed_ok al mup : snd (report_closed al mup) = all_alive al && mup.
Proof.
  unfold report_closed, send_all. rewrite send_all_from_spec.
  destruct mup; cbn [snd]; [now rewrite andb_true_r|now rewrite andb_false_r].
Qed.

Lemma report_established_spec al : report_established al = (map NEst (alive_idx 0 al), true).
Proof. unfold report_established, send_all. now rewrite send_all_from_spec. Qed.

(* ------------------------------------------------------------------------------------------ *)
(* counting notes                                                                              *)

Definition is_closed_of (i : nat) (x : note) : bool :=
  match x with NClosed j => Nat.eqb i j | _ => false end.
Definition is_est_of (i : nat) (x : note) : bool :=
  match x with NEst j => Nat.eqb i j | _ => false end.
Definition is_mgr_closed (x : note) : bool := match x with NMgrClosed => true | _ => false end.
Definition is_close_note (x : note) : bool :=
  match x with NClosed _ | NMgrClosed => true | _ => false end.
Definition is_sub_note (x : note) : bool :=
  match x with NSubOpen _ _ | NSubFail _ => true | _ => false end.
Definition cnt (f : note -> bool) (ns : list note) : nat := length (filter f ns).

Lemma cnt_app f a b : cnt f (a ++ b) = (cnt f a + cnt f b)%nat.
Proof. unfold cnt. now rewrite filter_app, app_length. Qed.

Lemma cnt_zero f ns : (forall x, In x ns -> f x = false) -> cnt f ns = 0%nat.
Proof.
  unfold cnt. induction ns as [|x t IH]; intro H; cbn [filter]; [reflexivity|].
  rewrite (H x (or_introl eq_refl)). apply IH. intros y Hy. apply H. now right.
Qed.

Lemma cnt_closed_map i l :
  NoDup l -> cnt (is_closed_of i) (map NClosed l) = if existsb (Nat.eqb i) l then 1%nat else 0%nat.
Proof.
  unfold cnt. induction l as [|j t IH]; intro Hn; cbn [map filter existsb is_closed_of]; [reflexivity|].
  inversion Hn as [|? ? Hj Ht]; subst. destruct (Nat.eqb i j) eqn:E; cbn [orb length].
  - apply Nat.eqb_eq in E. subst j. rewrite IH by assumption.
    destruct (existsb (Nat.eqb i) t) eqn:Ex; [|reflexivity].
    apply existsb_exists in Ex. destruct Ex as (y & Hy & Ey). apply Nat.eqb_eq in Ey. subst y. contradiction.
  - now apply IH.
Qed.

Lemma cnt_est_map i l :
  NoDup l -> cnt (is_est_of i) (map NEst l) = if existsb (Nat.eqb i) l then 1%nat else 0%nat.
Proof.
  unfold cnt. induction l as [|j t IH]; intro Hn; cbn [map filter existsb is_est_of]; [reflexivity|].
  inversion Hn as [|? ? Hj Ht]; subst. destruct (Nat.eqb i j) eqn:E; cbn [orb length].
  - apply Nat.eqb_eq in E. subst j. rewrite IH by assumption.
    destruct (existsb (Nat.eqb i) t) eqn:Ex; [|reflexivity].
    apply existsb_exists in Ex. destruct Ex as (y & Hy & Ey). apply Nat.eqb_eq in Ey. subst y. contradiction.
  - now apply IH.
Qed.

Lemma existsb_alive_idx i al : existsb (Nat.eqb i) (alive_idx 0 al) = nth i al false.
Proof.
  destruct (nth i al false) eqn:E.
  - apply existsb_exists. exists i. split; [now apply alive_idx_0|apply Nat.eqb_refl].
  - destruct (existsb (Nat.eqb i) (alive_idx 0 al)) eqn:Ex; [|reflexivity].
    apply existsb_exists in Ex. destruct Ex as (y & Hy & Ey). apply Nat.eqb_eq in Ey. subst y.
    apply alive_idx_0 in Hy. congruence.
Qed.

Lemma cnt_closed_part i al mup :
  cnt (is_closed_of i) (closed_part al mup) = if nth i al false then 1%nat else 0%nat.
Proof.
  unfold closed_part. rewrite cnt_app, cnt_closed_map by apply alive_idx_nodup.
  rewrite existsb_alive_idx. rewrite (cnt_zero _ (if mup then _ else _)).
  - lia.
  - intros x Hx. destruct mup; [destruct Hx as [<-|[]]; reflexivity|destruct Hx].
Qed.

Lemma cnt_mgr_closed_part al mup :
  cnt is_mgr_closed (closed_part al mup) = if mup then 1%nat else 0%nat.
Proof.
  unfold closed_part. rewrite cnt_app, (cnt_zero _ (map _ _)).
  - destruct mup; reflexivity.
  - intros x Hx. apply in_map_iff in Hx. destruct Hx as (j & <- & _). reflexivity.
Qed.

(* ------------------------------------------------------------------------------------------ *)
(* one loop iteration                                                                          *)

Lemma closing_spec t a b :
  closing t a b = (closed_part (alive t) (mgr_up t),
                   Leave (if all_alive (alive t) && mgr_up t then b else a)).
Proof.
  unfold closing. pose proof (report_closed_notes (alive t) (mgr_up t)) as H1.
  pose proof (report_closed_ok (alive t) (mgr_up t)) as H2.
  destruct (report_closed (alive t) (mgr_up t)) as [ns ok]. cbn [fst snd] in *. now subst.
Qed.

(* a step of a running task either stays in the loop, producing only substream notes and leaving
   the protocol view unchanged or shrunk by one death, or it is a termination cause and produces
   exactly the closed report *)
Lemma cstep_cases t e :
  gone t = None ->
  (gone (fst (cstep t e)) = None /\ is_cause e = false /\
   (forall x, In x (snd (cstep t e)) -> is_sub_note x = true) /\
   (forall i, nth i (alive (fst (cstep t e))) false = true -> nth i (alive t) false = true) /\
   length (alive (fst (cstep t e))) = length (alive t))
  \/
  (gone (fst (cstep t e)) <> None /\ is_cause e = true /\
   snd (cstep t e) = closed_part (alive t) (mgr_up t) /\
   alive (fst (cstep t e)) = alive t /\ mgr_up (fst (cstep t e)) = mgr_up t).
Proof.
  intro Hg. unfold cstep. rewrite Hg.
  destruct e as [y|n|c|i|].
  - destruct y as [[|]| |]; cbn [h_yamux]; unfold finish;
      rewrite ?closing_spec; cbn [fst snd alive mgr_up gone is_cause];
      try (right; repeat split; congruence).
    left. repeat split; try tauto. intros x [].
  - left. destruct n as [i ob|i|]; cbn [h_neg]; unfold finish, report_sub_open, report_sub_fail;
      cbn [fst snd is_cause]; repeat split; try tauto;
      try (destruct (nth i (alive t) false); cbn [fst]; intros x Hx; [destruct Hx as [<-|[]]; reflexivity|destruct Hx]).
    intros x [].
  - destruct c; cbn [h_cmd]; unfold finish; rewrite ?closing_spec; cbn [fst snd alive mgr_up gone is_cause];
      try (right; repeat split; congruence).
    left. repeat split; try tauto. intros x [].
  - left. cbn [fst snd alive gone is_cause]. repeat split; try tauto; [intros x []| |].
    + intro j. revert i j. generalize (alive t). induction l as [|a r IH]; intros i j; destruct i, j; cbn; try tauto; try discriminate.
      apply IH.
    + revert i. generalize (alive t). induction l as [|a r IH]; intros [|i]; cbn; try reflexivity. now rewrite IH.
  - left. cbn [fst snd alive gone is_cause]. repeat split; try tauto. intros x [].
Qed.

Lemma cstep_gone t e : gone t <> None -> cstep t e = (t, []).
Proof. unfold cstep. destruct (gone t); [reflexivity|congruence]. Qed.

Lemma crun_gone t es : gone t <> None -> crun t es = (t, []).
Proof.
  intro H. induction es as [|e r IH]; cbn [crun]; [reflexivity|]. rewrite (cstep_gone t e H), IH. reflexivity.
Qed.

(* ------------------------------------------------------------------------------------------ *)
(* whole runs                                                                                  *)

(* the shape of every run of the loop: substream notes while it runs; if it ended, the closed
   report of the protocols alive at that moment, the manager last, and nothing afterwards *)
Lemma crun_shape es : forall t,
  gone t = None ->
  let t' := fst (crun t es) in
  let ns := snd (crun t es) in
  (forall i, nth i (alive t') false = true -> nth i (alive t) false = true) /\
  length (alive t') = length (alive t) /\
  ((gone t' = None /\ forall x, In x ns -> is_sub_note x = true)
   \/
   (gone t' <> None /\
    exists pre, ns = pre ++ closed_part (alive t') (mgr_up t') /\
                forall x, In x pre -> is_sub_note x = true)).
Proof.
  induction es as [|e r IH]; intros t Hg; cbn [crun].
  - cbn [fst snd]. split; [tauto|]. split; [reflexivity|]. left. split; [exact Hg|intros x []].
  - destruct (cstep_cases t e Hg) as [(G & _ & Hsub & Hal & Hlen)|(G & _ & Hns & Hal & Hm)].
    + destruct (cstep t e) as [t1 n1] eqn:E1. cbn [fst snd] in *.
      specialize (IH t1 G). destruct (crun t1 r) as [t2 n2] eqn:E2. cbn [fst snd] in *.
      destruct IH as (Hal2 & Hlen2 & IH). split; [intros i Hi; apply Hal, Hal2, Hi|]. split; [congruence|].
      destruct IH as [[G2 Hs2]|(G2 & pre & -> & Hpre)].
      * left. split; [exact G2|]. intros x Hx. apply in_app_iff in Hx. destruct Hx; auto.
      * right. split; [exact G2|]. exists (n1 ++ pre). split; [now rewrite app_assoc|].
        intros x Hx. apply in_app_iff in Hx. destruct Hx; auto.
    + destruct (cstep t e) as [t1 n1] eqn:E1. cbn [fst snd] in *.
      rewrite (crun_gone t1 r G). cbn [fst snd]. split; [rewrite Hal; tauto|]. split; [now rewrite Hal|].
      right. split; [exact G|]. exists []. rewrite app_nil_r, Hal, Hm. split; [exact Hns|intros x []].
Qed.

Lemma sub_note_not f :
  (forall x, is_sub_note x = true -> f x = false) ->
  forall l, (forall x, In x l -> is_sub_note x = true) -> cnt f l = 0%nat.
Proof. intros Hf l Hl. apply cnt_zero. intros x Hx. apply Hf, Hl, Hx. Qed.

Lemma sub_not_closed i x : is_sub_note x = true -> is_closed_of i x = false.
Proof. destruct x; cbn; congruence. Qed.
Lemma sub_not_mgr x : is_sub_note x = true -> is_mgr_closed x = false.
Proof. destruct x; cbn; congruence. Qed.
Lemma sub_not_est i x : is_sub_note x = true -> is_est_of i x = false.
Proof. destruct x; cbn; congruence. Qed.

(* exactly once, for everyone alive, when the loop has ended *)
Lemma exit_reports t es :
  gone t = None -> gone (fst (crun t es)) <> None ->
  let t' := fst (crun t es) in
  let ns := snd (crun t es) in
  cnt is_mgr_closed ns = (if mgr_up t' then 1%nat else 0%nat) /\
  (forall i, cnt (is_closed_of i) ns = if nth i (alive t') false then 1%nat else 0%nat).
Proof.
  intros Hg Hx. destruct (crun_shape es t Hg) as (_ & _ & [[G _]|(_ & pre & E & Hpre)]); [contradiction|].
  cbn zeta. rewrite E. split.
  - rewrite cnt_app, cnt_mgr_closed_part, (sub_note_not _ sub_not_mgr pre Hpre). reflexivity.
  - intro i. rewrite cnt_app, cnt_closed_part, (sub_note_not _ (sub_not_closed i) pre Hpre). reflexivity.
Qed.

(* never twice, and never while the connection is still running *)
Lemma at_most_once t es :
  gone t = None ->
  let t' := fst (crun t es) in
  let ns := snd (crun t es) in
  (cnt is_mgr_closed ns <= 1)%nat /\ (forall i, (cnt (is_closed_of i) ns <= 1)%nat) /\
  (gone t' = None -> cnt is_close_note ns = 0%nat).
Proof.
  intro Hg. destruct (crun_shape es t Hg) as (_ & _ & [[G Hs]|(G & pre & E & Hpre)]); cbn zeta.
  - rewrite (sub_note_not _ sub_not_mgr _ Hs). split; [lia|]. split.
    + intro i. rewrite (sub_note_not _ (sub_not_closed i) _ Hs). lia.
    + intros _. apply cnt_zero. intros x Hx. apply Hs in Hx. destruct x; cbn in *; congruence.
  - rewrite E. split; [|split].
    + rewrite cnt_app, cnt_mgr_closed_part, (sub_note_not _ sub_not_mgr pre Hpre). destruct (mgr_up _); lia.
    + intro i. rewrite cnt_app, cnt_closed_part, (sub_note_not _ (sub_not_closed i) pre Hpre).
      destruct (nth i _ false); lia.
    + intro. contradiction.
Qed.

(* protocols before the manager; the manager's note is the last thing the task ever sends *)
Lemma order t es l1 l2 :
  gone t = None -> snd (crun t es) = l1 ++ NMgrClosed :: l2 ->
  l2 = [] /\ mgr_up (fst (crun t es)) = true /\
  forall i, nth i (alive (fst (crun t es))) false = true -> In (NClosed i) l1.
Proof.
  intros Hg E. destruct (crun_shape es t Hg) as (_ & _ & [[G Hs]|(G & pre & E2 & Hpre)]).
  - exfalso. assert (H : is_sub_note NMgrClosed = true) by (apply Hs; rewrite E; apply in_elt). discriminate.
  - cbn zeta in *. rewrite E in E2. unfold closed_part in E2.
    destruct (mgr_up (fst (crun t es))) eqn:M.
    + rewrite app_assoc in E2.
      assert (Hno : ~ In NMgrClosed (pre ++ map NClosed (alive_idx 0 (alive (fst (crun t es)))))).
      { intro H. apply in_app_iff in H. destruct H as [H|H].
        - apply Hpre in H. discriminate.
        - apply in_map_iff in H. destruct H as (j & Hj & _). discriminate. }
      (* the two decompositions around the unique NMgrClosed coincide *)
      assert (Hsplit : forall (a b c d : list note), a ++ NMgrClosed :: b = c ++ [NMgrClosed] ->
                ~ In NMgrClosed c -> a = c /\ b = []).
      { clear. intros a b c. revert a. induction c as [|x c IH]; intros a d0 E Hc; clear d0.
        - destruct a as [|y a]; cbn in E.
          + inversion E. auto.
          + inversion E as [[E1 E2]]. destruct a; discriminate.
        - destruct a as [|y a]; cbn in E.
          + inversion E as [[E1 E2]]. subst x. exfalso. apply Hc. now left.
          + inversion E as [[E1 E2]]. subst y. destruct (IH a [] E2) as [-> ->]; [intro; apply Hc; now right|]. auto. }
      destruct (Hsplit l1 l2 _ [] E2 Hno) as [-> ->]. split; [reflexivity|]. split; [reflexivity|].
      intros i Hi. apply in_app_iff. right. apply in_map. now apply alive_idx_0.
    + exfalso. rewrite app_nil_r in E2.
      assert (H : In NMgrClosed (pre ++ map NClosed (alive_idx 0 (alive (fst (crun t es)))))) by (rewrite <- E2; apply in_elt).
      apply in_app_iff in H. destruct H as [H|H].
      * apply Hpre in H. discriminate.
      * apply in_map_iff in H. destruct H as (j & Hj & _). discriminate.
Qed.

(* ------------------------------------------------------------------------------------------ *)
(* isolation: a protocol that has exited                                                       *)

Lemma exit_only_on_cause t e :
  gone t = None -> gone (fst (cstep t e)) <> None -> is_cause e = true.
Proof. intros Hg Hx. destruct (cstep_cases t e Hg) as [(G & _)|(_ & C & _)]; [contradiction|exact C]. Qed.

Lemma cause_exits t e :
  gone t = None -> is_cause e = true -> gone (fst (cstep t e)) <> None.
Proof. intros Hg Hc. destruct (cstep_cases t e Hg) as [(_ & C & _)|(G & _)]; [congruence|exact G]. Qed.

(* the live protocol is served whatever the state of the others *)
Lemma live_protocol_served t i ob :
  gone t = None -> nth i (alive t) false = true ->
  cstep t (ENeg (NegOk i ob)) = (t, [NSubOpen i ob]) /\
  cstep t (ENeg (NegFail i)) = (t, [NSubFail i]).
Proof.
  intros Hg Hi. unfold cstep. rewrite Hg. cbn [h_neg]. unfold finish, report_sub_open, report_sub_fail.
  rewrite Hi. cbn [fst snd]. split; reflexivity.
Qed.

(* a substream for a protocol that has exited is dropped; nothing else happens *)
Lemma dead_protocol_ignored t i ob :
  gone t = None -> nth i (alive t) false = false ->
  cstep t (ENeg (NegOk i ob)) = (t, []) /\ cstep t (ENeg (NegFail i)) = (t, []).
Proof.
  intros Hg Hi. unfold cstep. rewrite Hg. cbn [h_neg]. unfold finish, report_sub_open, report_sub_fail.
  rewrite Hi. cbn [fst snd]. split; reflexivity.
Qed.

(* ------------------------------------------------------------------------------------------ *)
(* accept                                                                                      *)

(* accept tells every live protocol once, skips the ones that have exited, and starts the loop *)
Lemma accept_spec al mup :
  accept al mup = (Some (mkTask al mup None), map NEst (alive_idx 0 al)).
Proof. unfold accept. now rewrite report_established_spec. Qed.

Lemma cnt_est_alive i al :
  cnt (is_est_of i) (map NEst (alive_idx 0 al)) = if nth i al false then 1%nat else 0%nat.
Proof. rewrite cnt_est_map by apply alive_idx_nodup. now rewrite existsb_alive_idx. Qed.

(* the whole life of a connection: accept, then the loop *)
Definition conn_run (al : list bool) (mup : bool) (es : list cev) : option task * list note :=
  match accept al mup with
  | (Some t, ns0) => let '(t', ns) := crun t es in (Some t', ns0 ++ ns)
  | (None, ns0) => (None, ns0)
  end.

Lemma conn_run_started al mup es : exists t' ns, conn_run al mup es = (Some t', ns).
Proof.
  unfold conn_run. rewrite accept_spec. destruct (crun (mkTask al mup None) es) as [t1 n1]. eauto.
Qed.

Lemma lifecycle al mup es t' ns :
  conn_run al mup es = (Some t', ns) -> gone t' <> None ->
  (* announced to every protocol that runs, exactly once, before anything else *)
  (exists rest, ns = map NEst (alive_idx 0 al) ++ rest /\ (forall i, cnt (is_est_of i) rest = 0%nat)) /\
  (forall i, cnt (is_est_of i) ns = if nth i al false then 1%nat else 0%nat) /\
  (* closed: the manager once (if it still exists), every protocol that is still running once *)
  cnt is_mgr_closed ns = (if mgr_up t' then 1%nat else 0%nat) /\
  (forall i, cnt (is_closed_of i) ns = if nth i (alive t') false then 1%nat else 0%nat) /\
  (* whoever is told closed was told established *)
  (forall i, nth i (alive t') false = true -> nth i al false = true).
Proof.
  intros E Hx. unfold conn_run in E. rewrite accept_spec in E.
  destruct (crun (mkTask al mup None) es) as [t1 n1] eqn:Er. inversion E; subst t1 ns; clear E.
  assert (Hg : gone (mkTask al mup None) = None) by reflexivity.
  pose proof (exit_reports _ es Hg) as R. rewrite Er in R. cbn [fst snd] in R. specialize (R Hx).
  destruct R as [R1 R2].
  pose proof (crun_shape es _ Hg) as S. rewrite Er in S. cbn [fst snd alive] in S.
  destruct S as (Hal & Hlen & [[G _]|(_ & pre & E & Hpre)]); [contradiction|].
  assert (Hest0 : forall i, cnt (is_est_of i) n1 = 0%nat).
  { intro i. rewrite E, cnt_app, (sub_note_not _ (sub_not_est i) pre Hpre). cbn [Nat.add].
    apply cnt_zero. intros x Hx'. unfold closed_part in Hx'. apply in_app_iff in Hx'. destruct Hx' as [H|H].
    - apply in_map_iff in H. destruct H as (j & <- & _). reflexivity.
    - destruct (mgr_up t'); [destruct H as [<-|[]]; reflexivity|destruct H]. }
  assert (Hc0 : forall f, (forall j, f (NEst j) = false) -> cnt f (map NEst (alive_idx 0 al)) = 0%nat).
  { intros f Hf. apply cnt_zero. intros x Hx'. apply in_map_iff in Hx'. destruct Hx' as (j & <- & _). apply Hf. }
  split; [exists n1; split; [reflexivity|exact Hest0]|]. split; [|split; [|split]].
  - intro i. rewrite cnt_app, cnt_est_alive, Hest0. lia.
  - rewrite cnt_app, Hc0 by reflexivity. exact R1.
  - intro i. rewrite cnt_app, Hc0 by reflexivity. apply R2.
  - exact Hal.
Qed.

(* ------------------------------------------------------------------------------------------ *)
(* F-C07a: the loop before the fix left without a word                                          *)

Lemma unfixed_silent_exit :
  let t := mkTask [true; false] true None in
  let r := cstep_unfixed t (ENeg (NegOk 1 false)) in
  gone (fst r) <> None /\ snd r = [] /\
  (* the repaired loop carries on *)
  cstep t (ENeg (NegOk 1 false)) = (t, []).
Proof. cbn. repeat split; congruence. Qed.

(* ------------------------------------------------------------------------------------------ *)
(* the exit sites the model uses are the ones of the source                                    *)

Lemma exit_sites_sound t e i o :
  gone t = None -> gone (fst (cstep t e)) = Some (i, o) ->
  let si := nth i ConnExits.conn_exits no_site in
  let so := nth o ConnExits.conn_exits no_site in
  (i < length ConnExits.conn_exits)%nat /\ (o < length ConnExits.conn_exits)%nat /\
  handler_site si = true /\ site_closed si = true /\
  site_fn so = 3 /\ site_callee so = site_fn si + 5 /\
  snd (cstep t e) = closed_part (alive t) (mgr_up t).
Proof.
  intros Hg Hx. rewrite <- exits_match. cbn zeta. unfold cstep in *. rewrite Hg in *.
  destruct e as [y|n|c|j|].
  - destruct y as [[|]| |]; cbn [h_yamux] in *; unfold finish in *; rewrite ?closing_spec in *;
      cbn [fst snd gone] in *; try congruence;
      destruct (all_alive (alive t) && mgr_up t); injection Hx as <- <-;
      cbn; repeat split; lia.
  - destruct n; cbn [h_neg] in *; unfold finish in *; cbn [fst snd] in *; congruence.
  - destruct c; cbn [h_cmd] in *; unfold finish in *; rewrite ?closing_spec in *;
      cbn [fst snd gone] in *; try congruence;
      destruct (all_alive (alive t) && mgr_up t); injection Hx as <- <-;
      cbn; repeat split; lia.
  - cbn [fst gone] in Hx. discriminate.
  - cbn [fst gone] in Hx. discriminate.
Qed.

Lemma exit_sites_covered i :
  (i < length ConnExits.conn_exits)%nat ->
  handler_site (nth i ConnExits.conn_exits no_site) = true ->
  exists t e o, gone t = None /\ gone (fst (cstep t e)) = Some (i, o).
Proof.
  rewrite <- exits_match. intros Hi Hh.
  set (bad := mkTask [false] true None). set (good := mkTask [true] true None).
  destruct i as [|[|[|[|[|[|[|[|[|[|i]]]]]]]]]].
  - exists bad, (EYamux (YSub false)), 10%nat. split; reflexivity.
  - exists good, (EYamux (YSub false)), 11%nat. split; reflexivity.
  - exists bad, (EYamux YErr), 10%nat. split; reflexivity.
  - exists good, (EYamux YErr), 11%nat. split; reflexivity.
  - exists bad, (EYamux YEof), 10%nat. split; reflexivity.
  - exists good, (EYamux YEof), 11%nat. split; reflexivity.
  - exists bad, (ECmd CForce), 13%nat. split; reflexivity.
  - exists good, (ECmd CForce), 14%nat. split; reflexivity.
  - exists bad, (ECmd CNone), 13%nat. split; reflexivity.
  - exists good, (ECmd CNone), 14%nat. split; reflexivity.
  - exfalso. destruct i as [|[|[|[|[|i]]]]]; cbn in Hh; try discriminate. cbn in Hi. lia.
Qed.

(* ------------------------------------------------------------------------------------------ *)
(* F-C07b (repaired): the accept as it was failed as soon as one protocol had exited            *)

Definition accept_unfixed (al : list bool) (mup : bool) (told : list nat) : option task * list note :=
  if all_alive al then accept al mup else (None, map NEst told).

Lemma unfixed_accept_refused :
  fst (accept_unfixed [true; false; true] true [0%nat]) = None /\
  (* the repaired accept serves the two protocols that still run and starts the loop *)
  accept [true; false; true] true = (Some (mkTask [true; false; true] true None), [NEst 0; NEst 2]).
Proof. split; reflexivity. Qed.

(* ------------------------------------------------------------------------------------------ *)
(* the WebSocket and QUIC loops: their own tables, tied to the source the same way             *)

Lemma ws_exits_match : ws_model_exits = ConnExits.ws_exits /\ ConnExits.ws_exits_complete = true.
Proof. split; reflexivity. Qed.

Lemma quic_exits_match : quic_model_exits = ConnExits.quic_exits /\ ConnExits.quic_exits_complete = true.
Proof. split; reflexivity. Qed.

(* every exit site of these one-function loops is itself dominated by the report *)
Definition reported_site (s : site) : bool := site_closed s && (site_callee s =? 1).

Lemma ws_source_exits_dominated : forallb reported_site ConnExits.ws_exits = true.
Proof. destruct ws_exits_match as [<- _]. reflexivity. Qed.

Lemma quic_source_exits_dominated : forallb reported_site ConnExits.quic_exits = true.
Proof. destruct quic_exits_match as [<- _]. reflexivity. Qed.

(* what "the model leaves through site i of table tbl" has to mean *)
Definition site_ok (tbl : list site) (t : task) (e : cev) (i : nat) : Prop :=
  (i < length tbl)%nat /\
  site_closed (nth i tbl no_site) = true /\
  site_fn (nth i tbl no_site) = branch_of e /\
  (site_kind (nth i tbl no_site) = 0 -> snd (report_closed (alive t) (mgr_up t)) = false) /\
  snd (cstep t e) = closed_part (alive t) (mgr_up t).

Lemma ws_sites_sound t e :
  gone t = None ->
  match ws_site t e with
  | Some i => gone (fst (cstep t e)) <> None /\ site_ok ConnExits.ws_exits t e i
  | None => gone (fst (cstep t e)) = None
  end.
Proof.
  intro Hg. destruct ws_exits_match as [<- _]. unfold ws_site, site_ok, cstep. rewrite Hg.
  pose proof (report_closed_ok (alive t) (mgr_up t)) as Hok.
  destruct e as [y|n|c|j|]; cbn [branch_of].
  - destruct y as [[|]| |]; cbn [h_yamux]; unfold finish; rewrite ?closing_spec; cbn [fst snd gone]; try exact Hg;
      rewrite Hok; destruct (all_alive (alive t) && mgr_up t); cbn; repeat split; try congruence; lia.
  - destruct n; cbn [h_neg]; unfold finish; cbn [fst snd]; exact Hg.
  - destruct c; cbn [h_cmd]; unfold finish; rewrite ?closing_spec; cbn [fst snd gone]; try exact Hg;
      cbn; repeat split; try congruence; lia.
  - reflexivity.
  - reflexivity.
Qed.

Lemma quic_sites_sound t e :
  gone t = None ->
  match quic_site t e with
  | Some i => gone (fst (cstep t e)) <> None /\ site_ok ConnExits.quic_exits t e i
  | None => gone (fst (cstep t e)) = None
  end.
Proof.
  intro Hg. destruct quic_exits_match as [<- _]. unfold quic_site, site_ok, cstep. rewrite Hg.
  destruct e as [y|n|c|j|]; cbn [branch_of].
  - destruct y as [[|]| |]; cbn [h_yamux]; unfold finish; rewrite ?closing_spec; cbn [fst snd gone]; try exact Hg;
      cbn; repeat split; try congruence; lia.
  - destruct n; cbn [h_neg]; unfold finish; cbn [fst snd]; exact Hg.
  - destruct c; cbn [h_cmd]; unfold finish; rewrite ?closing_spec; cbn [fst snd gone]; try exact Hg;
      cbn; repeat split; try congruence; lia.
  - reflexivity.
  - reflexivity.
Qed.

(* nothing is listed in vain *)
Lemma ws_sites_covered i :
  (i < length ConnExits.ws_exits)%nat -> exists t e, gone t = None /\ ws_site t e = Some i.
Proof.
  destruct ws_exits_match as [<- _]. intro Hi.
  set (bad := mkTask [false] true None). set (good := mkTask [true] true None).
  destruct i as [|[|[|[|[|[|[|[|i]]]]]]]].
  - exists bad, (EYamux (YSub false)). split; reflexivity.
  - exists good, (EYamux (YSub false)). split; reflexivity.
  - exists bad, (EYamux YErr). split; reflexivity.
  - exists good, (EYamux YErr). split; reflexivity.
  - exists bad, (EYamux YEof). split; reflexivity.
  - exists good, (EYamux YEof). split; reflexivity.
  - exists good, (ECmd CForce). split; reflexivity.
  - exists good, (ECmd CNone). split; reflexivity.
  - cbn in Hi. lia.
Qed.

Lemma quic_sites_covered i :
  (i < length ConnExits.quic_exits)%nat -> exists t e, gone t = None /\ quic_site t e = Some i.
Proof.
  destruct quic_exits_match as [<- _]. intro Hi.
  set (good := mkTask [true] true None).
  destruct i as [|[|[|[|i]]]].
  - exists good, (EYamux (YSub false)). split; reflexivity.
  - exists good, (EYamux YErr). split; reflexivity.
  - exists good, (ECmd CNone). split; reflexivity.
  - exists good, (ECmd CForce). split; reflexivity.
  - cbn in Hi. lia.
Qed.
