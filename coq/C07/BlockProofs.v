(* C07/BlockProofs — back-pressure: safety and liveness of the connection reports over the
   bounded protocol channels (coq/C07/Block.v over coq/Ts/Report.v), for every schedule. *)
From Coq Require Import List Arith NArith Bool Lia.
From Coq Require Import ZifyBool ZifyNat ZifyN.
From V.Ts Require Import Report ReportProofs.
From V.C07 Require Import Model Proofs Block.
Import ListNotations.
Open Scope N_scope.

Arguments N.add : simpl never.
Arguments N.eqb : simpl never.
Arguments N.of_nat : simpl never.

(* ------------------------------------------------------------------------------------------ *)
(* the table of connections                                                                    *)

Lemma find_set_same c b l : find_c c (set_c c b l) = match find_c c l with Some _ => Some b | None => None end.
Proof.
  induction l as [|[c' b'] t IH]; cbn [find_c set_c]; [reflexivity|].
  destruct (c' =? c) eqn:E; cbn [find_c]; rewrite E; [reflexivity|exact IH].
Qed.

Lemma find_set_other c c' b l : c' <> c -> find_c c' (set_c c b l) = find_c c' l.
Proof.
  intro H. induction l as [|[c0 b0] t IH]; cbn [find_c set_c]; [reflexivity|].
  destruct (c0 =? c) eqn:E; cbn [find_c].
  - assert (c0 =? c' = false) as -> by lia. assert (c0 =? c' = false) as E2 by lia. reflexivity.
  - destruct (c0 =? c'); [reflexivity|exact IH].
Qed.

Lemma find_map c (f : bconn -> bconn) l :
  find_c c (map (fun cb => (fst cb, f (snd cb))) l) = option_map f (find_c c l).
Proof.
  induction l as [|[c0 b0] t IH]; cbn [find_c map fst snd]; [reflexivity|].
  destruct (c0 =? c); [reflexivity|exact IH].
Qed.

Definition ph_of (me : N) (s : bsys) : option phase := option_map b_ph (find_c me (s_conns s)).

(* ------------------------------------------------------------------------------------------ *)
(* the manager is told at most once, whatever the schedule                                      *)

Definition is_mgr (me : N) (o : bout) : bool := match o with OMgrClosed c => c =? me | _ => false end.
Definition is_acc (me : N) (o : bout) : bool := match o with OAccepted c => c =? me | _ => false end.
Definition cnt_out (f : bout -> bool) (l : list bout) : nat := length (filter f l).

Lemma cnt_out_app f a b : cnt_out f (a ++ b) = (cnt_out f a + cnt_out f b)%nat.
Proof. unfold cnt_out. now rewrite filter_app, app_length. Qed.

(* one step: the manager is told about `me` at most once, and only by the step that takes `me`
   into PDone from another phase; PDone is final and silent *)
Definition step_claim (me : N) (s : bsys) (r : bsys * list bout) : Prop :=
  (cnt_out (is_mgr me) (snd r) <= 1)%nat /\
  (cnt_out (is_mgr me) (snd r) = 1%nat -> ph_of me s <> Some PDone /\ ph_of me (fst r) = Some PDone) /\
  (ph_of me s = Some PDone -> ph_of me (fst r) = Some PDone /\ cnt_out (is_mgr me) (snd r) = 0%nat).

Lemma claim_silent me s s' o :
  cnt_out (is_mgr me) o = 0%nat -> (ph_of me s = Some PDone -> ph_of me s' = Some PDone) ->
  step_claim me s (s', o).
Proof. intros Z H. unfold step_claim. cbn [fst snd]. rewrite Z. repeat split; try lia; tauto. Qed.

Lemma claim_done me s s' o :
  ph_of me s <> Some PDone -> ph_of me s' = Some PDone -> (cnt_out (is_mgr me) o <= 1)%nat ->
  step_claim me s (s', o).
Proof. intros N D L. unfold step_claim. cbn [fst snd]. repeat split; try lia; try tauto. Qed.

Lemma cnt_other me c (b : bool) : c <> me -> cnt_out (is_mgr me) (if b then [OMgrClosed c] else []) = 0%nat.
Proof. intro H. destruct b; cbn [cnt_out filter is_mgr length]; [|reflexivity]. assert (c =? me = false) as -> by lia. reflexivity. Qed.

Lemma cnt_self_le me (b : bool) : (cnt_out (is_mgr me) (if b then [OMgrClosed me] else []) <= 1)%nat.
Proof. destruct b; cbn [cnt_out filter is_mgr length]; [|lia]. destruct (me =? me); cbn [length]; lia. Qed.

Lemma step_mgr me s e : step_claim me s (bstep s e).
Proof.
  destruct e as [c|c e|c|p k|p]; cbn [bstep].
  - (* accept: a new connection starts in PWaitEst / PRun, nobody is told closed *)
    destruct (find_c c (s_conns s)) as [b0|] eqn:F; [apply claim_silent; [reflexivity|tauto]|].
    rewrite accept_spec. apply claim_silent.
    + destruct (busy_in c _); reflexivity.
    + unfold ph_of. cbn [s_conns find_c]. destruct (c =? me) eqn:E; [|tauto].
      assert (c = me) by lia. subst c. rewrite F. discriminate.
  - (* loop event *)
    destruct (find_c c (s_conns s)) as [bc|] eqn:F; [|apply claim_silent; [reflexivity|tauto]].
    destruct (b_ph bc) eqn:P; try (apply claim_silent; [reflexivity|tauto]).
    destruct (is_loop_event e); [|apply claim_silent; [reflexivity|tauto]].
    destruct (cstep (b_task bc) e) as [t1 ns].
    destruct (N.eq_dec c me) as [->|Hne].
    + assert (Hs : ph_of me s <> Some PDone) by (unfold ph_of; rewrite F; cbn; congruence).
      destruct (is_gone t1 && negb (busy_in me (post_all (s_cap s) me ns (s_ch s))) && mgr_up t1) eqn:B.
      * apply claim_done; [exact Hs| |apply (cnt_self_le me true)].
        unfold ph_of. cbn [s_conns]. rewrite find_set_same, F. cbn [option_map b_ph].
        apply andb_prop in B. destruct B as [B _]. apply andb_prop in B. destruct B as [B1 B2].
        rewrite B1. destruct (busy_in me _); [discriminate|reflexivity].
      * apply claim_silent; [reflexivity|]. intro H. contradiction.
    + apply claim_silent; [now apply cnt_other|].
      unfold ph_of. cbn [s_conns]. rewrite find_set_other by congruence. tauto.
  - (* resume *)
    destruct (find_c c (s_conns s)) as [bc|] eqn:F; [|apply claim_silent; [reflexivity|tauto]].
    destruct (busy_in c (s_ch s)); [apply claim_silent; [reflexivity|tauto]|].
    destruct (N.eq_dec c me) as [->|Hne].
    + destruct (b_ph bc) eqn:P; try (apply claim_silent; [reflexivity|]; unfold ph_of; cbn [s_conns];
        rewrite ?find_set_same, F; cbn [option_map b_ph]; rewrite ?P; congruence).
      apply claim_done; [unfold ph_of; rewrite F; cbn; congruence| |apply cnt_self_le].
      unfold ph_of. cbn [s_conns]. rewrite find_set_same, F. reflexivity.
    + destruct (b_ph bc) eqn:P; try (apply claim_silent; [reflexivity|tauto]);
        (apply claim_silent; [first [now apply cnt_other | reflexivity]|]; unfold ph_of; cbn [s_conns];
         rewrite find_set_other by congruence; tauto).
  - apply claim_silent; [reflexivity|tauto].
  - apply claim_silent; [reflexivity|]. unfold ph_of. cbn [s_conns].
    rewrite (find_map me (fun b => mkB (fst (cstep (b_task b) (EDie p))) (b_ph b))).
    destruct (find_c me (s_conns s)); cbn [option_map b_ph]; tauto.
Qed.

Lemma mgr_once_from me es : forall s,
  (cnt_out (is_mgr me) (snd (brun s es)) <= 1)%nat /\
  (ph_of me s = Some PDone -> cnt_out (is_mgr me) (snd (brun s es)) = 0%nat).
Proof.
  induction es as [|e r IH]; intro s; cbn [brun]; [cbn; lia|].
  destruct (step_mgr me s e) as (S1 & S2 & S3).
  destruct (bstep s e) as [s1 o1]. cbn [fst snd] in *.
  destruct (IH s1) as [I1 I2]. destruct (brun s1 r) as [s2 o2]. cbn [fst snd] in *.
  rewrite cnt_out_app. split.
  - destruct (Nat.eq_dec (cnt_out (is_mgr me) o1) 1) as [E|E].
    + destruct (S2 E) as [_ D]. rewrite (I2 D). lia.
    + lia.
  - intro D. destruct (S3 D) as [D1 Z]. rewrite Z, (I2 D1). reflexivity.
Qed.

(* ------------------------------------------------------------------------------------------ *)
(* what a post does to the channels                                                            *)

Lemma racc_send_one cap c it ch : racc (send_one cap c it ch) = racc ch ++ [it].
Proof. unfold send_one. destruct (rw ch); [destruct (Nat.ltb _ _)|]; reflexivity. Qed.

Lemma upd_nth_error {A} (f : A -> A) l : forall n m,
  nth_error (upd n f l) m = if Nat.eqb n m then option_map f (nth_error l m) else nth_error l m.
Proof. apply nth_error_upd. Qed.

(* the events a list of notes puts on the channel of protocol p *)
Definition items_for (p : nat) (c : N) (ns : list note) : list item :=
  flat_map (fun x => match item_of c x with
                     | Some (i, it) => if Nat.eqb i p then [it] else []
                     | None => []
                     end) ns.

Lemma post_all_racc cap c ns : forall chs p ch,
  nth_error chs p = Some ch ->
  exists ch', nth_error (post_all cap c ns chs) p = Some ch' /\ racc ch' = racc ch ++ items_for p c ns.
Proof.
  induction ns as [|x r IH]; intros chs p ch H; cbn [post_all fold_left items_for flat_map].
  - exists ch. split; [exact H|now rewrite app_nil_r].
  - fold (post_all cap c r (post cap c chs x)). fold (items_for p c r).
    unfold post at 1. destruct (item_of c x) as [[i it]|] eqn:I.
    + assert (H1 : nth_error (upd i (send_one cap c it) chs) p =
                   Some (if Nat.eqb i p then send_one cap c it ch else ch)).
      { rewrite upd_nth_error, H. destruct (Nat.eqb i p); reflexivity. }
      destruct (IH _ _ _ H1) as (ch' & E1 & E2). exists ch'. split; [exact E1|].
      rewrite E2. destruct (Nat.eqb i p); [rewrite racc_send_one, <- app_assoc; reflexivity|reflexivity].
    + destruct (IH _ _ _ H) as (ch' & E1 & E2). exists ch'. split; [exact E1|]. rewrite E2. reflexivity.
Qed.

Lemma post_all_length cap c ns : forall chs, length (post_all cap c ns chs) = length chs.
Proof.
  induction ns as [|x r IH]; intro chs; cbn [post_all fold_left]; [reflexivity|].
  fold (post_all cap c r (post cap c chs x)). rewrite IH. unfold post.
  destruct (item_of c x) as [[i it]|]; [apply upd_length|reflexivity].
Qed.

Lemma filter_eqb_nodup p l :
  NoDup l -> filter (Nat.eqb p) l = if existsb (Nat.eqb p) l then [p] else [].
Proof.
  induction l as [|x t IH]; intro H; cbn [filter existsb]; [reflexivity|].
  inversion H as [|? ? Hx Ht]; subst. destruct (Nat.eqb p x) eqn:E; cbn [orb].
  - apply Nat.eqb_eq in E. subst x. rewrite IH by assumption.
    destruct (existsb (Nat.eqb p) t) eqn:Ex; [|reflexivity].
    apply existsb_exists in Ex. destruct Ex as (y & Hy & Ey). apply Nat.eqb_eq in Ey. subst y. contradiction.
  - now apply IH.
Qed.

Lemma items_for_closed_part p c al mup :
  items_for p c (closed_part al mup) = if nth p al false then [IClosed c] else [].
Proof.
  unfold closed_part, items_for. rewrite flat_map_app.
  assert (T : flat_map (fun x => match item_of c x with
                                 | Some (i, it) => if Nat.eqb i p then [it] else []
                                 | None => []
                                 end) (if mup then [NMgrClosed] else []) = []) by (destruct mup; reflexivity).
  rewrite T, app_nil_r.
  assert (G : forall l, flat_map (fun x => match item_of c x with
                                           | Some (i, it) => if Nat.eqb i p then [it] else []
                                           | None => []
                                           end) (map NClosed l) = map (fun _ => IClosed c) (filter (Nat.eqb p) l)).
  { induction l as [|x t IH]; cbn [map flat_map filter item_of]; [reflexivity|].
    rewrite IH. rewrite (Nat.eqb_sym x p). destruct (Nat.eqb p x); reflexivity. }
  rewrite G, filter_eqb_nodup by apply alive_idx_nodup. rewrite existsb_alive_idx.
  destruct (nth p al false); reflexivity.
Qed.

Lemma items_for_est p c al :
  items_for p c (map NEst (alive_idx 0 al)) = if nth p al false then [IEst c] else [].
Proof.
  unfold items_for.
  assert (G : forall l, flat_map (fun x => match item_of c x with
                                           | Some (i, it) => if Nat.eqb i p then [it] else []
                                           | None => []
                                           end) (map NEst l) = map (fun _ => IEst c) (filter (Nat.eqb p) l)).
  { induction l as [|x t IH]; cbn [map flat_map filter item_of]; [reflexivity|].
    rewrite IH. rewrite (Nat.eqb_sym x p). destruct (Nat.eqb p x); reflexivity. }
  rewrite G, filter_eqb_nodup by apply alive_idx_nodup. rewrite existsb_alive_idx.
  destruct (nth p al false); reflexivity.
Qed.

(* ------------------------------------------------------------------------------------------ *)
(* channel facts                                                                               *)

Definition racc_at (chs : list rchan) (p : nat) : list item :=
  match nth_error chs p with Some ch => racc ch | None => [] end.

Lemma racc_at_post_all cap c ns chs p :
  racc_at (post_all cap c ns chs) p =
  racc_at chs p ++ (if (p <? length chs)%nat then items_for p c ns else []).
Proof.
  unfold racc_at. destruct (nth_error chs p) as [ch|] eqn:E.
  - destruct (post_all_racc cap c ns chs p ch E) as (ch' & E1 & E2). rewrite E1, E2.
    assert (p < length chs)%nat by (apply nth_error_Some; congruence).
    assert ((p <? length chs)%nat = true) as -> by (apply Nat.ltb_lt; lia). reflexivity.
  - assert (length chs <= p)%nat by (apply nth_error_None; exact E).
    assert (nth_error (post_all cap c ns chs) p = None) as -> by (apply nth_error_None; rewrite post_all_length; lia).
    assert ((p <? length chs)%nat = false) as -> by (apply Nat.ltb_ge; lia). reflexivity.
Qed.

Lemma racc_recv_n cap k : forall ch, racc (recv_n cap k ch) = racc ch.
Proof.
  induction k as [|k IH]; intro ch; cbn [recv_n]; [reflexivity|]. rewrite IH. unfold drain_ch.
  destruct (settle cap _ _). reflexivity.
Qed.

Lemma racc_at_upd_same f chs p q :
  (forall ch, racc (f ch) = racc ch) -> racc_at (upd q f chs) p = racc_at chs p.
Proof.
  intro H. unfold racc_at. rewrite upd_nth_error. destruct (Nat.eqb q p); [|reflexivity].
  destruct (nth_error chs p); cbn [option_map]; [apply H|reflexivity].
Qed.

Lemma recv_n_inv cap k : forall ch, chan_inv cap ch -> chan_inv cap (recv_n cap k ch).
Proof. induction k as [|k IH]; intros ch H; cbn [recv_n]; [exact H|]. apply IH, drain_ch_inv, H. Qed.

Lemma drain_no_waiters cap k ch : rw ch = [] -> rw (fst (drain_ch cap k ch)) = [].
Proof. intro H. unfold drain_ch. rewrite H. cbn [settle]. reflexivity. Qed.

Lemma recv_n_no_waiters cap k : forall ch, rw ch = [] -> rw (recv_n cap k ch) = [].
Proof. induction k as [|k IH]; intros ch H; cbn [recv_n]; [exact H|]. apply IH, drain_no_waiters, H. Qed.

Lemma backlog0_drain cap ch : backlog ch = 0%nat -> backlog (fst (drain_ch cap 1 ch)) = 0%nat.
Proof.
  unfold backlog. intro H. assert (rq ch = [] /\ rw ch = []) as [Q W]
    by (destruct (rq ch), (rw ch); cbn [length] in H; try lia; auto).
  unfold drain_ch. rewrite Q, W. reflexivity.
Qed.

(* receiving as many events as are queued or waiting empties the channel *)
Lemma recv_n_empty cap k : forall ch,
  chan_inv cap ch -> (1 <= cap)%nat -> (backlog ch <= k)%nat -> backlog (recv_n cap k ch) = 0%nat.
Proof.
  induction k as [|k IH]; intros ch I C B; cbn [recv_n]; [lia|].
  apply IH; [apply drain_ch_inv, I|exact C|].
  destruct (Nat.eq_dec (backlog ch) 0) as [Z|NZ].
  - rewrite (backlog0_drain cap ch Z). lia.
  - pose proof (drain_progress cap 1 ch I C (le_n 1)). lia.
Qed.

Lemma ch_busy_send_keeps me cap c it ch : ch_busy me ch = true -> ch_busy me (send_one cap c it ch) = true.
Proof.
  unfold ch_busy, send_one. destruct (rw ch) as [|w ws] eqn:W; [discriminate|].
  intro H. cbn [rw]. rewrite existsb_app, H. reflexivity.
Qed.

Lemma no_waiters_not_busy me ch : rw ch = [] -> ch_busy me ch = false.
Proof. unfold ch_busy. now intros ->. Qed.

(* ------------------------------------------------------------------------------------------ *)
(* what the loop posts                                                                         *)

Lemma loop_event_keeps t e :
  is_loop_event e = true -> alive (fst (cstep t e)) = alive t /\ mgr_up (fst (cstep t e)) = mgr_up t.
Proof.
  intro L. unfold cstep. destruct (gone t); [split; reflexivity|].
  destruct e as [y|n|c|i|]; try discriminate L.
  - destruct y as [[|]| |]; cbn [h_yamux]; unfold finish, closing;
      try destruct (report_closed _ _); cbn [fst snd alive mgr_up]; split; reflexivity.
  - destruct n; cbn [h_neg]; unfold finish; cbn [fst snd]; split; reflexivity.
  - destruct c; cbn [h_cmd]; unfold finish, closing;
      try destruct (report_closed _ _); cbn [fst snd alive mgr_up]; split; reflexivity.
Qed.

Lemma closed_part_target al mup c x i it :
  In x (closed_part al mup) -> item_of c x = Some (i, it) -> nth i al false = true.
Proof.
  unfold closed_part. intros Hx Hi. apply in_app_iff in Hx. destruct Hx as [Hx|Hx].
  - apply in_map_iff in Hx. destruct Hx as (j & <- & Hj). cbn [item_of] in Hi. inversion Hi; subst.
    now apply alive_idx_0.
  - destruct mup; [destruct Hx as [<-|[]]; discriminate|destruct Hx].
Qed.

(* every note of a running task is addressed to a protocol that still runs *)
Lemma cstep_targets_alive t e c x i it :
  gone t = None -> In x (snd (cstep t e)) -> item_of c x = Some (i, it) -> nth i (alive t) false = true.
Proof.
  intros G Hx Hi. unfold cstep in Hx. rewrite G in Hx. destruct e as [y|n|cm|j|]; cbn [snd] in Hx.
  - destruct y as [[|]| |]; cbn [h_yamux] in Hx; unfold finish in Hx; rewrite ?closing_spec in Hx;
      cbn [fst snd] in Hx; try (destruct Hx; fail); eapply closed_part_target; eassumption.
  - destruct n as [j ob|j|]; cbn [h_neg] in Hx; unfold finish, report_sub_open, report_sub_fail in Hx;
      cbn [fst snd] in Hx; try (destruct Hx; fail);
      destruct (nth j (alive t) false) eqn:A; cbn [fst] in Hx; try (destruct Hx; fail);
      destruct Hx as [<-|[]]; cbn [item_of] in Hi; inversion Hi; subst; exact A.
  - destruct cm; cbn [h_cmd] in Hx; unfold finish in Hx; rewrite ?closing_spec in Hx;
      cbn [fst snd] in Hx; try (destruct Hx; fail); eapply closed_part_target; eassumption.
  - destruct Hx.
  - destruct Hx.
Qed.

(* posting notes addressed to live protocols keeps every channel well formed *)
Definition chan_ok (cap : nat) (al : list bool) (p : nat) (ch : rchan) : Prop :=
  if nth p al false then chan_inv cap ch else rw ch = [].

Lemma post_all_chan_ok cap c al ns : forall chs,
  (forall x i it, In x ns -> item_of c x = Some (i, it) -> nth i al false = true) ->
  (forall p ch, nth_error chs p = Some ch -> chan_ok cap al p ch) ->
  forall p ch, nth_error (post_all cap c ns chs) p = Some ch -> chan_ok cap al p ch.
Proof.
  induction ns as [|x r IH]; intros chs Ht Hc p ch; cbn [post_all fold_left]; [apply Hc|].
  fold (post_all cap c r (post cap c chs x)). apply IH.
  - intros y i it Hy. apply Ht. now right.
  - intros q ch0. unfold post. destruct (item_of c x) as [[i it]|] eqn:I; [|apply Hc].
    rewrite upd_nth_error. destruct (Nat.eqb i q) eqn:E; [|apply Hc].
    apply Nat.eqb_eq in E. subst q. destruct (nth_error chs i) as [ch1|] eqn:N; cbn [option_map]; [|discriminate].
    intro H. inversion H; subst. specialize (Hc i ch1 N). unfold chan_ok in *.
    rewrite (Ht x i it (or_introl eq_refl) I) in *. now apply send_one_inv.
Qed.

(* ------------------------------------------------------------------------------------------ *)
(* counting closed notices of one connection on a channel                                      *)

Definition is_closed_me (me : N) (it : item) : bool := match it with IClosed c => c =? me | _ => false end.
Definition cntc (me : N) (l : list item) : nat := length (filter (is_closed_me me) l).

Lemma cntc_app me a b : cntc me (a ++ b) = (cntc me a + cntc me b)%nat.
Proof. unfold cntc. now rewrite filter_app, app_length. Qed.

Lemma cntc_zero me l : (forall it, In it l -> is_closed_me me it = false) -> cntc me l = 0%nat.
Proof.
  unfold cntc. induction l as [|x t IH]; intro H; cbn [filter]; [reflexivity|].
  rewrite (H x (or_introl eq_refl)). apply IH. intros y Hy. apply H. now right.
Qed.

Lemma items_for_in p c ns it :
  In it (items_for p c ns) -> exists x, In x ns /\ item_of c x = Some (p, it).
Proof.
  unfold items_for. intro H. apply in_flat_map in H. destruct H as (x & Hx & Hi).
  exists x. split; [exact Hx|]. destruct (item_of c x) as [[i it0]|]; [|destruct Hi].
  destruct (Nat.eqb i p) eqn:E; [|destruct Hi]. apply Nat.eqb_eq in E. subst i.
  destruct Hi as [<-|[]]. reflexivity.
Qed.

Lemma cntc_other me c p ns : c <> me -> cntc me (items_for p c ns) = 0%nat.
Proof.
  intro H. apply cntc_zero. intros it Hi. apply items_for_in in Hi. destruct Hi as (x & _ & E).
  destruct x; cbn [item_of] in E; inversion E; subst; cbn [is_closed_me]; try reflexivity. lia.
Qed.

Lemma cntc_not_closed me c p ns :
  (forall x, In x ns -> match x with NClosed _ => False | _ => True end) -> cntc me (items_for p c ns) = 0%nat.
Proof.
  intro H. apply cntc_zero. intros it Hi. apply items_for_in in Hi. destruct Hi as (x & Hx & E).
  specialize (H x Hx). destruct x; cbn [item_of] in E; inversion E; subst; cbn [is_closed_me]; try reflexivity.
  destruct H.
Qed.

Lemma length_set_nth {A} (x : A) l : forall i, length (set_nth i x l) = length l.
Proof. induction l as [|a t IH]; intros [|i]; cbn [set_nth length]; try reflexivity. now rewrite IH. Qed.

Lemma nth_set_nth_same {A} (x d : A) l : forall i, (i < length l)%nat -> nth i (set_nth i x l) d = x.
Proof. induction l as [|a t IH]; intros [|i] H; cbn [set_nth nth length] in *; try lia; try reflexivity. apply IH. lia. Qed.

Lemma nth_set_nth_other {A} (x d : A) l : forall i j, i <> j -> nth j (set_nth i x l) d = nth j l d.
Proof.
  induction l as [|a t IH]; intros [|i] [|j] H; cbn [set_nth nth]; try reflexivity; try lia. apply IH. lia.
Qed.

Lemma die_task t p :
  let t' := fst (cstep t (EDie p)) in
  is_gone t' = is_gone t /\ mgr_up t' = mgr_up t /\
  (is_gone t = false -> alive t' = set_nth p false (alive t)) /\ (is_gone t = true -> t' = t).
Proof.
  cbn zeta. unfold cstep, is_gone. destruct (gone t) eqn:G; cbn [fst alive mgr_up gone]; rewrite ?G;
    repeat split; try reflexivity; try discriminate.
Qed.

(* ------------------------------------------------------------------------------------------ *)
(* the invariant of the composed system, seen from one connection `me`                          *)

Record Binv (me : N) (s : bsys) : Prop := {
  bi_len : length (s_ch s) = length (s_alive s);
  bi_chan : forall p ch, nth_error (s_ch s) p = Some ch -> chan_ok (s_cap s) (s_alive s) p ch;
  bi_alive : forall c bc, find_c c (s_conns s) = Some bc -> is_gone (b_task bc) = false ->
             alive (b_task bc) = s_alive s;
  bi_mgr : forall c bc, find_c c (s_conns s) = Some bc -> mgr_up (b_task bc) = true;
  bi_phase : forall c bc, find_c c (s_conns s) = Some bc ->
             (is_gone (b_task bc) = false <-> (b_ph bc = PWaitEst \/ b_ph bc = PRun \/ b_ph bc = PWaitSub));
  bi_c0 : (forall bc, find_c me (s_conns s) = Some bc -> is_gone (b_task bc) = false) ->
          forall p, cntc me (racc_at (s_ch s) p) = 0%nat;
  bi_c1 : forall p, (cntc me (racc_at (s_ch s) p) <= 1)%nat;
  bi_told : forall bc, find_c me (s_conns s) = Some bc -> is_gone (b_task bc) = true ->
            forall p, nth p (alive (b_task bc)) false = true -> In (IClosed me) (racc_at (s_ch s) p)
}.

Lemma binv_init me n cap : Binv me (binit n cap).
Proof.
  split; cbn [binit s_ch s_alive s_conns s_cap find_c]; try (intros; discriminate).
  - now rewrite !repeat_length.
  - intros p ch H. unfold chan_ok. apply nth_error_In, repeat_spec in H. subst ch.
    destruct (nth p (repeat true n) false); [|reflexivity].
    split; [reflexivity|]. split; [cbn; lia|]. intro K. exfalso. now apply K.
  - intros _ p. unfold racc_at. destruct (nth_error _ p) eqn:E; [|reflexivity].
    apply nth_error_In, repeat_spec in E. subst r. reflexivity.
  - intro p. unfold racc_at. destruct (nth_error _ p) eqn:E; [|cbn; lia].
    apply nth_error_In, repeat_spec in E. subst r. cbn. lia.
Qed.

Lemma binv_recv me s p k : Binv me s -> Binv me (fst (bstep s (BRecv p k))).
Proof.
  intros [I1 I2 I3 I4 I5 I6 I7 I8]. cbn [bstep fst].
  assert (R : forall q, racc_at (upd p (recv_n (s_cap s) k) (s_ch s)) q = racc_at (s_ch s) q)
    by (intro q; apply racc_at_upd_same, racc_recv_n).
  split; cbn [s_ch s_alive s_conns s_cap]; try assumption.
  - now rewrite upd_length.
  - intros q ch. rewrite upd_nth_error. destruct (Nat.eqb p q) eqn:E; [|apply I2].
    apply Nat.eqb_eq in E. subst q. destruct (nth_error (s_ch s) p) as [ch0|] eqn:N; cbn [option_map]; [|discriminate].
    intro H. inversion H; subst. specialize (I2 p ch0 N). unfold chan_ok in *.
    destruct (nth p (s_alive s) false); [now apply recv_n_inv|now apply recv_n_no_waiters].
  - intros H q. rewrite R. now apply I6.
  - intro q. rewrite R. apply I7.
  - intros bc F G q Hq. rewrite R. eapply I8; eassumption.
Qed.

Lemma binv_resume me s c : Binv me s -> Binv me (fst (bstep s (BResume c))).
Proof.
  intros I. pose proof I as [I1 I2 I3 I4 I5 I6 I7 I8]. cbn [bstep].
  destruct (find_c c (s_conns s)) as [bc|] eqn:F; [|exact I].
  destruct (busy_in c (s_ch s)); [exact I|].
  assert (K : forall ph, (is_gone (b_task bc) = false <-> (ph = PWaitEst \/ ph = PRun \/ ph = PWaitSub)) ->
              Binv me (mkS (s_cap s) (s_ch s) (s_alive s) (set_c c (mkB (b_task bc) ph) (s_conns s)))).
  { intros ph Hph.
    assert (Fnd : forall c' bc', find_c c' (set_c c (mkB (b_task bc) ph) (s_conns s)) = Some bc' ->
                  (c' = c /\ bc' = mkB (b_task bc) ph) \/ find_c c' (s_conns s) = Some bc').
    { intros c' bc' H. destruct (N.eq_dec c' c) as [->|Hne].
      - rewrite find_set_same, F in H. inversion H. now left.
      - rewrite find_set_other in H by exact Hne. now right. }
    split; cbn [s_ch s_alive s_conns s_cap]; try assumption.
    - intros c' bc' H G. destruct (Fnd _ _ H) as [[-> ->]|H']; [cbn [b_task] in *; eapply I3; eassumption|eapply I3; eassumption].
    - intros c' bc' H. destruct (Fnd _ _ H) as [[-> ->]|H']; [cbn [b_task]; eapply I4; eassumption|eapply I4; eassumption].
    - intros c' bc' H. destruct (Fnd _ _ H) as [[-> ->]|H']; [cbn [b_task b_ph]; exact Hph|now apply (I5 c')].
    - intros H q. apply I6. intros bc0 F0. destruct (N.eq_dec me c) as [->|Hne].
      + assert (bc0 = bc) as -> by congruence. apply (H (mkB (b_task bc) ph)). now rewrite find_set_same, F.
      + apply H. now rewrite find_set_other.
    - intros bc' H G q Hq. destruct (Fnd _ _ H) as [[-> ->]|H']; [cbn [b_task] in *; eapply I8; eassumption|eapply I8; eassumption]. }
  pose proof (I5 c bc F) as P5.
  destruct (b_ph bc) eqn:P; cbn [fst]; try exact I; apply K.
  - split; [intros _; right; now left|]. intros _. apply P5. now left.
  - split; [intros _; right; now left|]. intros _. apply P5. right. now right.
  - split.
    + intro G. apply P5 in G. destruct G as [G|[G|G]]; discriminate.
    + intros [G|[G|G]]; discriminate.
Qed.

Lemma binv_die me s p : Binv me s -> Binv me (fst (bstep s (BDie p))).
Proof.
  intros [I1 I2 I3 I4 I5 I6 I7 I8]. cbn [bstep fst].
  set (f := fun b : bconn => mkB (fst (cstep (b_task b) (EDie p))) (b_ph b)).
  assert (R : forall q, racc_at (upd p kill_ch (s_ch s)) q = racc_at (s_ch s) q)
    by (intro q; apply racc_at_upd_same; reflexivity).
  assert (Fnd : forall c bc', find_c c (map (fun cb => (fst cb, f (snd cb))) (s_conns s)) = Some bc' ->
                exists bc, find_c c (s_conns s) = Some bc /\ bc' = f bc).
  { intros c bc' H. rewrite (find_map c f) in H. destruct (find_c c (s_conns s)) as [bc|]; [|discriminate].
    inversion H. eauto. }
  split; cbn [s_ch s_alive s_conns s_cap]; fold f.
  - now rewrite upd_length, length_set_nth.
  - intros q ch. rewrite upd_nth_error. unfold chan_ok. destruct (Nat.eqb p q) eqn:E.
    + apply Nat.eqb_eq in E. subst q. destruct (nth_error (s_ch s) p) as [ch0|] eqn:N; cbn [option_map]; [|discriminate].
      intro H. inversion H; subst. assert (p < length (s_alive s))%nat by (rewrite <- I1; apply nth_error_Some; congruence).
      rewrite nth_set_nth_same by assumption. reflexivity.
    + intro H. apply Nat.eqb_neq in E. rewrite nth_set_nth_other by exact E. now apply I2.
  - intros c bc' H G. destruct (Fnd _ _ H) as (bc & Fb & ->). subst f. cbn [b_task] in *.
    destruct (die_task (b_task bc) p) as (D1 & D2 & D3 & D4). rewrite D1 in G. rewrite (D3 G), (I3 c bc Fb G). reflexivity.
  - intros c bc' H. destruct (Fnd _ _ H) as (bc & Fb & ->). subst f. cbn [b_task].
    destruct (die_task (b_task bc) p) as (D1 & D2 & D3 & D4). rewrite D2. eapply I4; eassumption.
  - intros c bc' H. destruct (Fnd _ _ H) as (bc & Fb & ->). subst f. cbn [b_task b_ph].
    destruct (die_task (b_task bc) p) as (D1 & D2 & D3 & D4). rewrite D1. now apply (I5 c).
  - intros H q. rewrite R. apply I6. intros bc Fb. specialize (H (f bc)).
    rewrite (find_map me f), Fb in H. specialize (H eq_refl). subst f. cbn [b_task] in H.
    destruct (die_task (b_task bc) p) as (D1 & _). now rewrite D1 in H.
  - intro q. rewrite R. apply I7.
  - intros bc' H G q Hq. destruct (Fnd _ _ H) as (bc & Fb & ->). subst f. cbn [b_task] in *.
    destruct (die_task (b_task bc) p) as (D1 & D2 & D3 & D4). rewrite D1 in G. rewrite (D4 G) in Hq.
    rewrite R. eapply I8; eassumption.
Qed.

Lemma in_racc_at_post_all cap c ns chs p x :
  In x (racc_at chs p) -> In x (racc_at (post_all cap c ns chs) p).
Proof. intro H. rewrite racc_at_post_all. apply in_app_iff. now left. Qed.

Lemma binv_accept me s c : Binv me s -> Binv me (fst (bstep s (BAccept c))).
Proof.
  intro I. pose proof I as [I1 I2 I3 I4 I5 I6 I7 I8]. cbn [bstep].
  destruct (find_c c (s_conns s)) as [b0|] eqn:F; [exact I|].
  rewrite accept_spec. cbn [fst].
  set (ns := map NEst (alive_idx 0 (s_alive s))).
  set (chs := post_all (s_cap s) c ns (s_ch s)).
  set (nb := mkB (mkTask (s_alive s) true None) (if busy_in c chs then PWaitEst else PRun)).
  assert (Fnd : forall c' bc', find_c c' ((c, nb) :: s_conns s) = Some bc' ->
                (c' = c /\ bc' = nb) \/ (c' <> c /\ find_c c' (s_conns s) = Some bc')).
  { intros c' bc'. cbn [find_c]. destruct (c =? c') eqn:E.
    - intro H. inversion H. left. split; [lia|reflexivity].
    - intro H. right. split; [lia|exact H]. }
  assert (Z : forall p, cntc me (items_for p c ns) = 0%nat).
  { intro p. subst ns. rewrite items_for_est. destruct (nth p (s_alive s) false); reflexivity. }
  split; cbn [s_ch s_alive s_conns s_cap]; fold ns; fold chs; fold nb.
  - subst chs. now rewrite post_all_length.
  - subst chs. apply post_all_chan_ok; [|exact I2].
    intros x i it Hx Hi. subst ns. apply in_map_iff in Hx. destruct Hx as (j & <- & Hj).
    cbn [item_of] in Hi. inversion Hi; subst. now apply alive_idx_0.
  - intros c' bc' H G. destruct (Fnd _ _ H) as [[-> ->]|[_ H']]; [reflexivity|eapply I3; eassumption].
  - intros c' bc' H. destruct (Fnd _ _ H) as [[-> ->]|[_ H']]; [reflexivity|eapply I4; eassumption].
  - intros c' bc' H. destruct (Fnd _ _ H) as [[-> ->]|[_ H']]; [|now apply (I5 c')].
    subst nb. cbn [b_task b_ph is_gone gone]. split; [intros _|reflexivity].
    destruct (busy_in c chs); [now left|right; now left].
  - intros H p. subst chs. rewrite racc_at_post_all, cntc_app.
    rewrite I6; [destruct (p <? _)%nat; [apply Z|reflexivity]|].
    intros bc Fb. destruct (N.eq_dec me c) as [->|Hne]; [congruence|].
    apply H. cbn [find_c]. assert (c =? me = false) as -> by lia. exact Fb.
  - intro p. subst chs. rewrite racc_at_post_all, cntc_app. specialize (I7 p).
    destruct (p <? _)%nat; [rewrite Z|cbn]; lia.
  - intros bc' H G p Hp. destruct (Fnd _ _ H) as [[-> ->]|[_ H']]; [discriminate G|].
    subst chs. apply in_racc_at_post_all. eapply I8; eassumption.
Qed.

Lemma is_gone_none t : is_gone t = false <-> gone t = None.
Proof. unfold is_gone. destruct (gone t); split; congruence. Qed.

Lemma binv_loop me s c e : Binv me s -> Binv me (fst (bstep s (BLoop c e))).
Proof.
  intro I. pose proof I as [I1 I2 I3 I4 I5 I6 I7 I8]. cbn [bstep].
  destruct (find_c c (s_conns s)) as [bc|] eqn:F; [|exact I].
  destruct (b_ph bc) eqn:P; try exact I.
  destruct (is_loop_event e) eqn:L; [|exact I].
  assert (Gb : is_gone (b_task bc) = false) by (apply (I5 c bc F); right; now left).
  assert (G : gone (b_task bc) = None) by now apply is_gone_none.
  pose proof (I3 c bc F Gb) as Hal.
  destruct (loop_event_keeps (b_task bc) e L) as [Ka Km].
  pose proof (cstep_cases (b_task bc) e G) as Cases.
  pose proof (fun x i it => cstep_targets_alive (b_task bc) e c x i it G) as Tg.
  destruct (cstep (b_task bc) e) as [t1 ns] eqn:Ec. cbn [fst snd] in *.
  set (chs := post_all (s_cap s) c ns (s_ch s)).
  set (ph := if is_gone t1 then (if busy_in c chs then PWaitClosed else PDone)
             else (if busy_in c chs then PWaitSub else PRun)).
  assert (Fnd : forall c' bc', find_c c' (set_c c (mkB t1 ph) (s_conns s)) = Some bc' ->
                (c' = c /\ bc' = mkB t1 ph) \/ (c' <> c /\ find_c c' (s_conns s) = Some bc')).
  { intros c' bc' H. destruct (N.eq_dec c' c) as [->|Hne].
    - rewrite find_set_same, F in H. inversion H. now left.
    - rewrite find_set_other in H by exact Hne. now right. }
  (* what this step adds to the closed count of `me` on channel p *)
  assert (Zsub : is_gone t1 = false -> forall p, cntc me (items_for p c ns) = 0%nat).
  { intros Gt p. apply cntc_not_closed. intros x Hx. destruct Cases as [(_ & _ & Hsub & _)|(Gx & _)].
    - apply Hsub in Hx. destruct x; try discriminate; exact Logic.I.
    - exfalso. apply Gx. now apply is_gone_none. }
  assert (Zle : forall p, (cntc me (items_for p c ns) <= 1)%nat).
  { intro p. destruct (is_gone t1) eqn:Gt; [|rewrite Zsub by reflexivity; lia].
    destruct Cases as [(Gx & _)|(_ & _ & Hns & _)].
    - apply is_gone_none in Gx. congruence.
    - rewrite Hns, items_for_closed_part. destruct (nth p _ false); cbn; [destruct (c =? me); cbn; lia|lia]. }
  split; cbn [fst s_ch s_alive s_conns s_cap]; fold chs; fold ph.
  - subst chs. now rewrite post_all_length.
  - subst chs. apply post_all_chan_ok; [|exact I2]. intros x i it Hx Hi. rewrite <- Hal. eapply Tg; eassumption.
  - intros c' bc' H Gt. destruct (Fnd _ _ H) as [[-> ->]|[_ H']]; [cbn [b_task]; congruence|eapply I3; eassumption].
  - intros c' bc' H. destruct (Fnd _ _ H) as [[-> ->]|[_ H']]; [cbn [b_task]; rewrite Km; eapply I4; eassumption|eapply I4; eassumption].
  - intros c' bc' H. destruct (Fnd _ _ H) as [[-> ->]|[_ H']]; [|now apply (I5 c')].
    cbn [b_task b_ph]. subst ph. destruct (is_gone t1); destruct (busy_in c chs); split; try congruence; try tauto;
      intros [K|[K|K]]; discriminate.
  - intros H p. subst chs. rewrite racc_at_post_all, cntc_app. destruct (N.eq_dec c me) as [->|Hne].
    + assert (Gt : is_gone t1 = false) by (apply (H (mkB t1 ph)); now rewrite find_set_same, F).
      rewrite I6; [destruct (p <? _)%nat; [now apply Zsub|reflexivity]|].
      intros bc0 F0. assert (bc0 = bc) as -> by congruence. exact Gb.
    + rewrite I6; [destruct (p <? _)%nat; [now apply cntc_other|reflexivity]|].
      intros bc0 F0. apply H. now rewrite find_set_other by congruence.
  - intro p. subst chs. rewrite racc_at_post_all, cntc_app. destruct (N.eq_dec c me) as [->|Hne].
    + rewrite I6; [destruct (p <? _)%nat; [apply Zle|cbn; lia]|].
      intros bc0 F0. assert (bc0 = bc) as -> by congruence. exact Gb.
    + specialize (I7 p). destruct (p <? _)%nat; [rewrite cntc_other by exact Hne|cbn]; lia.
  - intros bc' H Gt p Hp. destruct (Fnd _ _ H) as [[-> ->]|[Hne H']].
    + cbn [b_task] in *. destruct Cases as [(Gx & _)|(_ & _ & Hns & _)]; [apply is_gone_none in Gx; congruence|].
      subst chs. rewrite racc_at_post_all. apply in_app_iff. right.
      assert (Hlt : (p < length (s_ch s))%nat).
      { rewrite I1, <- Hal, <- Ka. destruct (Nat.lt_ge_cases p (length (alive t1))) as [Q|Q]; [exact Q|].
        rewrite nth_overflow in Hp by exact Q. discriminate. }
      apply Nat.ltb_lt in Hlt. rewrite Hlt, Hns, items_for_closed_part. rewrite <- Ka, Hp. now left.
    + subst chs. apply in_racc_at_post_all. eapply I8; eassumption.
Qed.

Lemma binv_step me s e : Binv me s -> Binv me (fst (bstep s e)).
Proof.
  destruct e; [apply binv_accept|apply binv_loop|apply binv_resume|apply binv_recv|apply binv_die].
Qed.

Lemma binv_run me es : forall s, Binv me s -> Binv me (fst (brun s es)).
Proof.
  induction es as [|e r IH]; intros s I; cbn [brun]; [exact I|].
  pose proof (binv_step me s e I) as I1. destruct (bstep s e) as [s1 o1]. cbn [fst] in I1.
  specialize (IH s1 I1). destruct (brun s1 r) as [s2 o2]. exact IH.
Qed.

(* ------------------------------------------------------------------------------------------ *)
(* safety: protocols before the manager, each at most once                                      *)

Lemma in_cnt_out me l : In (OMgrClosed me) l -> (1 <= cnt_out (is_mgr me) l)%nat.
Proof.
  unfold cnt_out. induction l as [|x t IH]; [intros []|intros [H|H]]; cbn [filter].
  - subst x. cbn [is_mgr]. assert (me =? me = true) as -> by lia. cbn [length]. lia.
  - specialize (IH H). destruct (is_mgr me x); cbn [length]; lia.
Qed.

(* when the manager is told that `me` is closed, no send of `me` is waiting any more and every
   protocol that still runs has the closed notice in its channel (queued or already received) *)
Lemma told_after_protocols me s e :
  Binv me s -> In (OMgrClosed me) (snd (bstep s e)) ->
  let s' := fst (bstep s e) in
  busy_in me (s_ch s') = false /\
  exists bc, find_c me (s_conns s') = Some bc /\ b_ph bc = PDone /\
    forall p, nth p (alive (b_task bc)) false = true -> In (IClosed me) (racc_at (s_ch s') p).
Proof.
  intros I Hin. cbn zeta. pose proof (binv_step me s e I) as I'.
  destruct (step_mgr me s e) as (S1 & S2 & _). pose proof (in_cnt_out me _ Hin) as Hc.
  assert (E1 : cnt_out (is_mgr me) (snd (bstep s e)) = 1%nat) by lia.
  destruct (S2 E1) as [_ D]. unfold ph_of in D.
  destruct (find_c me (s_conns (fst (bstep s e)))) as [bc|] eqn:F; [|discriminate].
  cbn [option_map] in D. assert (P : b_ph bc = PDone) by congruence. clear D.
  split.
  - (* the guard of the two emitting steps *)
    clear - Hin. destruct e as [c|c e|c|p k|p]; cbn [bstep] in *.
    + destruct (find_c c (s_conns s)); [destruct Hin|]. rewrite accept_spec in *. cbn [snd] in Hin.
      destruct (busy_in c _); [destruct Hin|destruct Hin as [H|[]]; discriminate].
    + destruct (find_c c (s_conns s)) as [bc|]; [|destruct Hin]. destruct (b_ph bc); try destruct Hin.
      destruct (is_loop_event e); [|destruct Hin]. destruct (cstep (b_task bc) e) as [t1 ns]. cbn [fst snd s_ch] in *.
      destruct (is_gone t1); cbn [andb] in Hin; [|destruct Hin].
      destruct (busy_in c (post_all (s_cap s) c ns (s_ch s))) eqn:B; cbn [negb andb] in Hin; [destruct Hin|].
      destruct (mgr_up t1); [|destruct Hin]. destruct Hin as [H|[]]. inversion H; subst. exact B.
    + destruct (find_c c (s_conns s)) as [bc|]; [|destruct Hin].
      destruct (busy_in c (s_ch s)) eqn:B; [destruct Hin|].
      destruct (b_ph bc); cbn [fst snd s_ch] in *.
      * destruct Hin as [H|[]]; discriminate.
      * destruct Hin.
      * destruct Hin.
      * destruct (mgr_up (b_task bc)); [|destruct Hin]. destruct Hin as [H|[]]. inversion H; subst. exact B.
      * destruct Hin.
    + destruct Hin.
    + destruct Hin.
  - exists bc. split; [reflexivity|]. split; [exact P|].
    assert (G : is_gone (b_task bc) = true).
    { destruct (is_gone (b_task bc)) eqn:G; [reflexivity|]. apply (bi_phase _ _ I' me bc F) in G.
      rewrite P in G. destruct G as [G|[G|G]]; discriminate. }
    intros p Hp. exact (bi_told _ _ I' bc F G p Hp).
Qed.

(* ------------------------------------------------------------------------------------------ *)
(* liveness: once the protocols have received what is queued, every parked report completes     *)

Lemma upd_app_mid {A} (f : A -> A) (pre : list A) x t :
  upd (length pre) f (pre ++ x :: t) = pre ++ f x :: t.
Proof. induction pre as [|a r IH]; cbn [length app upd]; [reflexivity|]. now rewrite IH. Qed.

Lemma flush_run : forall t pre s,
  s_ch s = pre ++ t ->
  let r := brun s (flush_from (length pre) t) in
  snd r = [] /\
  s_ch (fst r) = pre ++ map (fun ch => recv_n (s_cap s) (backlog ch) ch) t /\
  s_conns (fst r) = s_conns s /\ s_alive (fst r) = s_alive s /\ s_cap (fst r) = s_cap s.
Proof.
  induction t as [|ch t IH]; intros pre s E; cbn [flush_from brun].
  - cbn [fst snd map]. repeat split. exact E.
  - cbn [bstep].
    set (s1 := mkS (s_cap s) (upd (length pre) (recv_n (s_cap s) (backlog ch)) (s_ch s)) (s_alive s) (s_conns s)).
    assert (E1 : s_ch s1 = (pre ++ [recv_n (s_cap s) (backlog ch) ch]) ++ t).
    { subst s1. cbn [s_ch]. rewrite E, upd_app_mid, <- app_assoc. reflexivity. }
    specialize (IH (pre ++ [recv_n (s_cap s) (backlog ch) ch]) s1 E1).
    rewrite app_length in IH. cbn [length] in IH. rewrite Nat.add_1_r in IH. cbn zeta in IH.
    destruct (brun s1 (flush_from (S (length pre)) t)) as [s2 o2]. cbn [fst snd] in *.
    destruct IH as (A1 & A2 & A3 & A4 & A5). subst o2. repeat split; try assumption.
    rewrite A2, <- app_assoc. reflexivity.
Qed.

Lemma flush_quiet me s :
  Binv me s -> (1 <= s_cap s)%nat ->
  let r := brun s (flush s) in
  snd r = [] /\ s_conns (fst r) = s_conns s /\ s_alive (fst r) = s_alive s /\
  (forall ch, In ch (s_ch (fst r)) -> backlog ch = 0%nat) /\
  (forall c, busy_in c (s_ch (fst r)) = false).
Proof.
  intros I C. cbn zeta. unfold flush.
  destruct (flush_run (s_ch s) [] s eq_refl) as (A1 & A2 & A3 & A4 & A5). cbn [length app] in *.
  split; [exact A1|]. split; [exact A3|]. split; [exact A4|].
  assert (Hq : forall ch, In ch (s_ch (fst (brun s (flush_from 0 (s_ch s))))) -> backlog ch = 0%nat).
  { intros ch' Hin. rewrite A2 in Hin. apply In_nth_error in Hin. destruct Hin as [p Hp].
    rewrite nth_error_map in Hp. destruct (nth_error (s_ch s) p) as [ch|] eqn:N; cbn [option_map] in Hp; [|discriminate].
    inversion Hp; subst ch'. pose proof (bi_chan _ _ I p ch N) as K. unfold chan_ok in K.
    destruct (nth p (s_alive s) false).
    - apply recv_n_empty; [exact K|exact C|lia].
    - unfold backlog. rewrite (recv_n_no_waiters _ _ _ K).
      (* a dead channel: its queue was dropped; whatever was sent since is received now *)
      assert (B : forall k c0, rw c0 = [] -> (length (rq c0) <= k)%nat -> length (rq (recv_n (s_cap s) k c0)) = 0%nat).
      { induction k as [|k IHk]; intros c0 W L; cbn [recv_n]; [lia|].
        apply IHk; [now apply drain_no_waiters|]. unfold drain_ch. rewrite W. cbn [settle fst rq].
        rewrite skipn_length. lia. }
      rewrite B; [reflexivity|exact K|unfold backlog; lia]. }
  split; [exact Hq|].
  intro c. unfold busy_in. destruct (existsb (ch_busy c) _) eqn:Ex; [|reflexivity].
  apply existsb_exists in Ex. destruct Ex as (ch & Hin & Hb). specialize (Hq ch Hin).
  unfold backlog in Hq. assert (rw ch = []) as W by (destruct (rw ch); [reflexivity|cbn [length] in Hq; lia]).
  rewrite (no_waiters_not_busy c ch W) in Hb. discriminate.
Qed.

Lemma parked_report_completes me s bc :
  Binv me s -> (1 <= s_cap s)%nat -> find_c me (s_conns s) = Some bc ->
  let s1 := fst (brun s (flush s)) in
  snd (brun s (flush s)) = [] /\
  match b_ph bc with
  | PWaitClosed => snd (bstep s1 (BResume me)) = [OMgrClosed me] /\
                   ph_of me (fst (bstep s1 (BResume me))) = Some PDone
  | PWaitEst => snd (bstep s1 (BResume me)) = [OAccepted me] /\
                ph_of me (fst (bstep s1 (BResume me))) = Some PRun
  | PWaitSub => ph_of me (fst (bstep s1 (BResume me))) = Some PRun
  | _ => True
  end.
Proof.
  intros I C F. cbn zeta. destruct (flush_quiet me s I C) as (A1 & A3 & _ & _ & Q).
  split; [exact A1|]. cbn [bstep]. rewrite A3, F, (Q me).
  destruct (b_ph bc) eqn:P; cbn [fst snd]; unfold ph_of; cbn [s_conns]; rewrite ?find_set_same, ?A3, ?F; try exact Logic.I;
    try (split; reflexivity); try reflexivity.
  rewrite (bi_mgr _ _ I me bc F). split; reflexivity.
Qed.

(* ... and then every protocol that still runs has received the closed notice exactly once *)
Lemma in_cntc me l : In (IClosed me) l -> (1 <= cntc me l)%nat.
Proof.
  unfold cntc. induction l as [|x t IH]; [intros []|intros [H|H]]; cbn [filter].
  - subst x. cbn [is_closed_me]. assert (me =? me = true) as -> by lia. cbn [length]. lia.
  - specialize (IH H). destruct (is_closed_me me x); cbn [length]; lia.
Qed.

Lemma delivered_exactly_once me s bc p ch :
  Binv me s -> (1 <= s_cap s)%nat -> find_c me (s_conns s) = Some bc -> is_gone (b_task bc) = true ->
  nth p (alive (b_task bc)) false = true -> nth p (s_alive s) false = true ->
  nth_error (s_ch (fst (brun s (flush s)))) p = Some ch ->
  cntc me (rdel ch) = 1%nat.
Proof.
  intros I C F G Hp Ha N.
  pose proof (binv_run me (flush s) s I) as I'.
  destruct (flush_quiet me s I C) as (_ & A3 & A4 & Hq & _).
  set (s1 := fst (brun s (flush s))) in *.
  assert (K : chan_inv (s_cap s1) ch).
  { pose proof (bi_chan _ _ I' p ch N) as K. unfold chan_ok in K. rewrite A4, Ha in K. exact K. }
  rewrite (empty_means_all_delivered _ _ K (Hq ch (nth_error_In _ _ N))).
  assert (F' : find_c me (s_conns s1) = Some bc) by (rewrite A3; exact F).
  pose proof (bi_told _ _ I' bc F' G p Hp) as Hin. pose proof (bi_c1 _ _ I' p) as H1.
  unfold racc_at in *. rewrite N in *. pose proof (in_cntc me _ Hin). lia.
Qed.

(* ------------------------------------------------------------------------------------------ *)
(* back-pressure is real: while the protocol on whose channel `me` waits neither receives nor   *)
(* exits, `me` keeps waiting and the manager is not told                                        *)

Definition leaves_alone (p : nat) (e : bev) : bool :=
  match e with BRecv q _ | BDie q => negb (Nat.eqb q p) | _ => true end.

Definition busy_at (me : N) (chs : list rchan) (p : nat) : bool :=
  match nth_error chs p with Some ch => ch_busy me ch | None => false end.

Lemma busy_at_in me chs p : busy_at me chs p = true -> busy_in me chs = true.
Proof.
  unfold busy_at, busy_in. destruct (nth_error chs p) as [ch|] eqn:N; [|discriminate].
  intro H. apply existsb_exists. exists ch. split; [eapply nth_error_In; exact N|exact H].
Qed.

Lemma busy_at_post_all me cap c ns : forall chs p, busy_at me chs p = true -> busy_at me (post_all cap c ns chs) p = true.
Proof.
  induction ns as [|x r IH]; intros chs p H; cbn [post_all fold_left]; [exact H|].
  fold (post_all cap c r (post cap c chs x)). apply IH. unfold post.
  destruct (item_of c x) as [[i it]|]; [|exact H]. unfold busy_at in *. rewrite upd_nth_error.
  destruct (Nat.eqb i p); [|exact H]. destruct (nth_error chs p); cbn [option_map]; [|discriminate].
  now apply ch_busy_send_keeps.
Qed.

Lemma step_keeps_waiting me s e p :
  leaves_alone p e = true -> busy_at me (s_ch s) p = true ->
  busy_at me (s_ch (fst (bstep s e))) p = true /\ cnt_out (is_mgr me) (snd (bstep s e)) = 0%nat.
Proof.
  intros L B. pose proof (busy_at_in me _ p B) as Bi.
  destruct e as [c|c e|c|q k|q]; cbn [bstep].
  - destruct (find_c c (s_conns s)); [split; [exact B|reflexivity]|]. rewrite accept_spec. cbn [fst snd s_ch].
    split; [now apply busy_at_post_all|]. destruct (busy_in c _); reflexivity.
  - destruct (find_c c (s_conns s)) as [bc|]; [|split; [exact B|reflexivity]].
    destruct (b_ph bc); try (split; [exact B|reflexivity]).
    destruct (is_loop_event e); [|split; [exact B|reflexivity]].
    destruct (cstep (b_task bc) e) as [t1 ns]. cbn [fst snd s_ch].
    pose proof (busy_at_post_all me (s_cap s) c ns (s_ch s) p B) as B'. split; [exact B'|].
    destruct (N.eq_dec c me) as [->|Hne].
    + rewrite (busy_at_in me _ p B'). cbn [negb andb]. rewrite andb_false_r. reflexivity.
    + now apply cnt_other.
  - destruct (find_c c (s_conns s)) as [bc|]; [|split; [exact B|reflexivity]].
    destruct (busy_in c (s_ch s)) eqn:Bc; [split; [exact B|reflexivity]|].
    destruct (N.eq_dec c me) as [->|Hne]; [congruence|].
    destruct (b_ph bc); cbn [fst snd s_ch]; (split; [exact B|]); try reflexivity.
    destruct (mgr_up (b_task bc)); cbn [cnt_out filter is_mgr length]; [|reflexivity].
    assert (c =? me = false) as -> by lia. reflexivity.
  - cbn [fst snd s_ch leaves_alone] in *. split; [|reflexivity]. unfold busy_at in *. rewrite upd_nth_error.
    apply negb_true_iff in L. rewrite L. exact B.
  - cbn [fst snd s_ch leaves_alone] in *. split; [|reflexivity]. unfold busy_at in *. rewrite upd_nth_error.
    apply negb_true_iff in L. rewrite L. exact B.
Qed.

Lemma waits_until_drained me p es : forall s,
  forallb (leaves_alone p) es = true -> busy_at me (s_ch s) p = true ->
  busy_at me (s_ch (fst (brun s es))) p = true /\ cnt_out (is_mgr me) (snd (brun s es)) = 0%nat.
Proof.
  induction es as [|e r IH]; intros s L B; cbn [brun]; [split; [exact B|reflexivity]|].
  cbn [forallb] in L. apply andb_prop in L. destruct L as [L1 L2].
  destruct (step_keeps_waiting me s e p L1 B) as [B1 Z1].
  destruct (bstep s e) as [s1 o1]. cbn [fst snd] in *.
  destruct (IH s1 L2 B1) as [B2 Z2]. destruct (brun s1 r) as [s2 o2]. cbn [fst snd] in *.
  split; [exact B2|]. rewrite cnt_out_app. lia.
Qed.
