(* C07 — the connection event loop together with what feeds it (loop level).

   Model.v's `cstep` handles one event; WHICH events arrive is left to the environment there.  This
   file models the environment the real loop has: the command channel between the protocols and the
   connection (each protocol received a strong `ConnectionHandle` with ConnectionEstablished; the
   connection itself keeps only a weak sender, so `rx.recv()` yields `None` exactly when the last
   strong sender — handle or permit — is gone), the remote end (opens substreams, answers, refuses,
   stalls, closes), protocols that exit, and the name table of the ProtocolSet (coq/Ts/Names.v).
   One operation = something happens, then the loop is polled until nothing is left to do
   (harness/src/c07_loop.rs drives the real `start()` future this way).  The loop itself is
   `cstep`: every operation is translated into the loop events it causes (`events_of`) and these are
   fed to `cstep` — so every theorem about `crun` holds for loop-level runs by construction
   (LoopProofs.lrun_is_crun).  Definitions only. *)
From Coq Require Import List NArith Bool PeanoNat.
From V.Ts Require Names.
From V.C07 Require Import Model.
Import ListNotations.
Open Scope N_scope.

Record lst := mkL {
  l_task : task;
  l_handle : list bool;      (* protocol i still holds the handle it was given *)
  l_tbl : list Names.proto;  (* the protocols the set was built from: main name 2i, fallback 2i+1 *)
  l_pend : nat               (* substream negotiations that the remote never answers: each holds a permit
                                (a strong sender) for as long as the connection lives *)
}.

Inductive lop :=
| LOpen (i : nat) (answer : N)     (* protocol i opens a substream; remote: 0 accepts, 4 never answers (the
                                      negotiation stays pending), else it fails *)
| LRemoteOpen (nm : N) (k : N)     (* the remote opens a substream proposing name nm; k = 0 negotiates,
                                      4 it goes silent after the header (pending), else it fails *)
| LForce (i : nat)
| LDrop (i : nat)                  (* protocol i drops its handle *)
| LDie (i : nat)                   (* the receiver of protocol i is dropped *)
| LMgrDie
| LRemoteClose (arm : N)           (* observed: 2 the yamux stream yields an error, 3 it ends *)
| LRace (nm : N) (mask : N) (arm : N).
    (* several things happen before the loop is polled again (mask: bit 0 the first protocol that holds a
       handle force-closes, bit 1 the remote closes the socket, bit 2 every protocol drops its handle,
       bit 3 the remote opens a substream under name nm): more than one branch of the select! is ready and
       the exit arm is the schedule's choice (observed: arm). *)

Definition running (s : lst) : bool := match gone (l_task s) with None => true | Some _ => false end.
Definition held (s : lst) (i : nat) : bool := nth i (l_handle s) false.
Definition any_held (h : list bool) : bool := existsb (fun b => b) h.
(* is a strong sender of the command channel left? *)
Definition any_strong (h : list bool) (pend : nat) : bool := any_held h || negb (pend =? 0)%nat.
Definition nprot (s : lst) : nat := length (alive (l_task s)).

(* names: 2i = main name of protocol i, 2i+1 = its fallback name (if it has one) *)
Definition mk_tbl (n : nat) (fbmask : N) : list Names.proto :=
  map (fun i => Names.mkP (2 * N.of_nat i) (if N.testbit fbmask (N.of_nat i) then [2 * N.of_nat i + 1] else []) true)
      (seq 0 n).

(* which protocol a proposed name is negotiated for (None: not advertised, the negotiation fails) *)
Definition negotiated (tbl : list Names.proto) (nm : N) : option nat :=
  match Names.classify tbl nm with
  | None => None
  | Some _ => Some (N.to_nat (fst (Names.resolve tbl nm) / 2))
  end.

(* return code of the operation as the harness sees it: 0 done, 1 the handle refused (gone, or the
   connection has ended), 2 not applicable *)
Definition rc_of (s : lst) (o : lop) : N :=
  match o with
  | LOpen i _ | LForce i =>
      if negb (i <? nprot s)%nat then 2 else if held s i && running s then 0 else 1
  | LDrop i | LDie i => if (i <? nprot s)%nat then 0 else 2
  | LMgrDie => 0
  | LRemoteOpen _ _ | LRemoteClose _ | LRace _ _ _ => if running s then 0 else 2
  end.

(* the handles after the operation *)
Definition handles_after (s : lst) (o : lop) : list bool :=
  match o with
  | LDrop i => if (i <? nprot s)%nat then set_nth i false (l_handle s) else l_handle s
  | LRace _ mask _ => if running s && N.testbit mask 2 then map (fun _ => false) (l_handle s) else l_handle s
  | _ => l_handle s
  end.

Definition neg_result (tbl : list Names.proto) (nm : N) : neg_ev :=
  match negotiated tbl nm with Some i => NegOk i false | None => NegFailAnon end.

(* the exit arms a race can be seen to take (index of the exit message + 1): 4 force-close — a queued
   ForceClose is received before the end of the command stream; 2 / 3 the connection fails / ends; 5 the
   command stream ends — only when no strong sender is left: no handle, no pending negotiation, no
   ForceClose queued before; 1 the inbound substream is refused its permit — same condition *)
Definition race_arms (h : list bool) (pend : nat) (mask : N) : list N :=
  let nop := (pend =? 0)%nat in
  let force := N.testbit mask 0 && any_held h in
  (if force then [4] else []) ++
  (if N.testbit mask 1 then [2; 3] else []) ++
  (if N.testbit mask 2 && nop && negb force then [5] else []) ++
  (if N.testbit mask 3 && N.testbit mask 2 && nop then [1] else []).

(* the inbound substream of a race gets its permit (and is then negotiated) unless every strong sender
   is gone *)
Definition race_served (pend : nat) (mask : N) : bool :=
  N.testbit mask 3 && negb (N.testbit mask 2 && (pend =? 0)%nat).

Definition ev_of_arm (arm : N) : cev :=
  if arm =? 1 then EYamux (YSub false) else if arm =? 2 then EYamux YErr else if arm =? 3 then EYamux YEof
  else if arm =? 4 then ECmd CForce else ECmd CNone.

Definition pick_arm (arms : list N) (arm : N) : option N :=
  match arms with
  | [] => None
  | d :: _ => Some (if existsb (N.eqb arm) arms then arm else d)
  end.

(* the events the loop handles because of the operation, in order *)
Definition events_of (s : lst) (o : lop) : list cev :=
  if negb (rc_of s o =? 0) then [] else
  match o with
  | LOpen i a =>
      ECmd COpen :: (if a =? 4 then [] else [ENeg (if a =? 0 then NegOk i true else NegFail i)])
  | LRemoteOpen nm k =>
      EYamux (YSub true) ::
      (if k =? 4 then [] else [ENeg (if k =? 0 then neg_result (l_tbl s) nm else NegFailAnon)])
  | LForce _ => [ECmd CForce]
  | LDrop i =>
      (* the last strong sender is gone: the command stream ends *)
      if running s && negb (any_strong (set_nth i false (l_handle s)) (l_pend s)) then [ECmd CNone] else []
  | LDie i => [EDie i]
  | LMgrDie => [EMgrDie]
  | LRemoteClose arm => [EYamux (if arm =? 2 then YErr else YEof)]
  | LRace nm mask arm =>
      (if race_served (l_pend s) mask then [EYamux (YSub true); ENeg (neg_result (l_tbl s) nm)] else []) ++
      match pick_arm (race_arms (l_handle s) (l_pend s) mask) arm with
      | Some a => [ev_of_arm a]
      | None => []
      end
  end.

Definition pend_after (s : lst) (o : lop) : nat :=
  if negb (rc_of s o =? 0) then l_pend s else
  match o with
  | LOpen _ a => if a =? 4 then S (l_pend s) else l_pend s
  | LRemoteOpen _ k => if k =? 4 then S (l_pend s) else l_pend s
  | _ => l_pend s
  end.

(* which exit arms the real loop may be seen to take for an operation whose outcome depends on the
   schedule (both branches of the select! are ready) *)
Definition arm_allowed (s : lst) (o : lop) : bool :=
  match o with
  | LRemoteClose arm => (arm =? 2) || (arm =? 3)
  | LRace _ mask arm =>
      match race_arms (l_handle s) (l_pend s) mask with
      | [] => arm =? 0
      | l => existsb (N.eqb arm) l
      end
  | _ => true
  end.

Definition lstep (s : lst) (o : lop) : lst * list note :=
  let '(t1, ns) := crun (l_task s) (events_of s o) in
  (mkL t1 (handles_after s o) (l_tbl s) (pend_after s o), ns).

Fixpoint lrun (s : lst) (ops : list lop) : lst * list note :=
  match ops with
  | [] => (s, [])
  | o :: r => let '(s1, n1) := lstep s o in let '(s2, n2) := lrun s1 r in (s2, n1 ++ n2)
  end.

(* accept: the protocols that still run are told and receive their handles; then the loop starts *)
Definition linit (al : list bool) (fbmask : N) : lst * list note :=
  match accept al true with
  | (Some t, ns) => (mkL t al (mk_tbl (length al) fbmask) 0, ns)
  | (None, ns) => (mkL (mkTask al true (Some (0%nat, 0%nat))) al (mk_tbl (length al) fbmask) 0, ns)
  end.

(* the exit arm of an event (index of the message in gen_c07_msgs.rs + 1) *)
Definition arm_of (e : cev) : N :=
  match e with
  | EYamux (YSub false) => 1 | EYamux YErr => 2 | EYamux YEof => 3
  | ECmd CForce => 4 | ECmd CNone => 5 | _ => 0
  end.

(* the arm through which the loop ended during the operation (0: it did not end in it) *)
Fixpoint exit_arm (t : task) (es : list cev) : N :=
  match es with
  | [] => 0
  | e :: r =>
      match gone t with
      | Some _ => 0
      | None => let t1 := fst (cstep t e) in
                match gone t1 with Some _ => arm_of e | None => exit_arm t1 r end
      end
  end.

(* how `start()` returned: 0 still running, 1 Ok, 2 Err (the closed report returned an error: a protocol
   or the manager was gone).  The handler sites with an even index are the `?` sites (Model.model_exits). *)
Definition state_code (t : task) : N :=
  match gone t with
  | None => 0
  | Some (i, _) => if Nat.even i then 2 else 1
  end.

(* right after accept the loop is polled: if no protocol took a handle (every protocol had exited), the
   command stream has ended already *)
Definition settle_events (s : lst) : list cev :=
  if running s && negb (any_held (l_handle s)) then [ECmd CNone] else [].

Definition lsettle (s : lst) : lst * list note :=
  let '(t1, ns) := crun (l_task s) (settle_events s) in (mkL t1 (l_handle s) (l_tbl s) (l_pend s), ns).
