From Coq Require Import ExtrOcamlBasic.
From V.C15 Require Import Glue.
Extraction Language OCaml.
Extraction "c15_model.ml" run_case prop_ok known_class.
