(* C15 — proofs about the lookup model. *)
From Coq Require Import List PeanoNat NArith Bool Lia ZifyBool ZifyNat ZifyN Permutation.
From V.gen Require Consts.
From V.C15 Require Import Model.
Import ListNotations.
Open Scope N_scope.

Arguments N.add : simpl never.
Arguments N.sub : simpl never.
Arguments N.eqb : simpl never.
Arguments N.ltb : simpl never.
Arguments N.leb : simpl never.
Arguments N.of_nat : simpl never.

(* ------------------------------------------------------------------ containers *)

Lemma mem_In : forall p l, mem p l = true <-> In p l.
Proof.
  unfold mem. intros p l. rewrite existsb_exists. split.
  - intros [x [Hx He]]. apply N.eqb_eq in He. subst. exact Hx.
  - intros H. exists p. split; [exact H | apply N.eqb_refl].
Qed.

Lemma mem_false : forall p l, mem p l = false <-> ~ In p l.
Proof.
  intros p l. rewrite <- mem_In. destruct (mem p l); intuition congruence.
Qed.

Lemma pmem_In : forall p l, pmem p l = true <-> In p (map fst l).
Proof.
  unfold pmem. intros p l. rewrite existsb_exists, in_map_iff. split.
  - intros [x [Hx He]]. apply N.eqb_eq in He. exists x. split; assumption.
  - intros [x [He Hx]]. exists x. split; [exact Hx | apply N.eqb_eq; exact He].
Qed.

Lemma pmem_false : forall p l, pmem p l = false <-> ~ In p (map fst l).
Proof.
  intros p l. rewrite <- pmem_In. destruct (pmem p l); intuition congruence.
Qed.

Lemma premove_In : forall p l x, In x (premove p l) <-> In x l /\ fst x <> p.
Proof.
  unfold premove. intros p l x. rewrite filter_In. split; intros [H1 H2]; split; try assumption.
  - apply negb_true_iff in H2. apply N.eqb_neq in H2. exact H2.
  - apply negb_true_iff. apply N.eqb_neq. exact H2.
Qed.

Lemma premove_fst : forall p l q, In q (map fst (premove p l)) <-> In q (map fst l) /\ q <> p.
Proof.
  intros p l q. rewrite !in_map_iff. split.
  - intros [x [He Hx]]. apply premove_In in Hx. destruct Hx as [Hx Hn]. subst q.
    split; [exists x; split; [reflexivity | exact Hx] | exact Hn].
  - intros [[x [He Hx]] Hn]. exists x. split; [exact He |]. apply premove_In. subst q. split; assumption.
Qed.

Lemma premove_notin : forall p l, ~ In p (map fst l) -> premove p l = l.
Proof.
  unfold premove. intros p l. induction l as [| x t IH]; intros H; [reflexivity |].
  cbn [filter]. cbn [map In] in H. destruct (N.eqb_spec (fst x) p) as [E | E].
  - exfalso. apply H. left. exact E.
  - cbn [negb]. f_equal. apply IH. intros Hc. apply H. right. exact Hc.
Qed.

Lemma premove_nodup : forall p l, NoDup (map fst l) -> NoDup (map fst (premove p l)).
Proof.
  unfold premove. intros p l. induction l as [| x t IH]; intros H; [constructor |].
  cbn [map] in H. inversion H as [| a b Hn Hd]; subst. cbn [filter].
  destruct (negb (fst x =? p)).
  - cbn [map]. constructor; [| apply IH; exact Hd].
    intros Hc. apply Hn. apply (premove_fst p t (fst x)) in Hc. apply Hc.
  - apply IH. exact Hd.
Qed.

Lemma filter_len_le : forall A (f : A -> bool) l, (length (filter f l) <= length l)%nat.
Proof. induction l as [| a t IH]; cbn [filter length]; [lia |]. destruct (f a); cbn [length]; lia. Qed.

Lemma premove_length_le : forall p l, (length (premove p l) <= length l)%nat.
Proof. intros. unfold premove. apply filter_len_le. Qed.

Lemma premove_length_lt : forall p l, In p (map fst l) -> (length (premove p l) < length l)%nat.
Proof.
  unfold premove. intros p l. induction l as [| x t IH]; intros H; [destruct H |].
  cbn [filter length]. destruct (N.eqb_spec (fst x) p) as [E | E]; cbn [negb].
  - pose proof (filter_len_le _ (fun x0 => negb (fst x0 =? p)) t). lia.
  - cbn [length]. cbn [map In] in H. destruct H as [H | H]; [contradiction |].
    specialize (IH H). lia.
Qed.

Lemma NoDup_app_intro_one : forall (l : list N) p, NoDup l -> ~ In p l -> NoDup (l ++ [p]).
Proof.
  induction l as [| a t IH]; intros p Hd Hn; cbn [app]; [constructor; [intros [] | constructor] |].
  inversion Hd as [| a' t' Ha Ht]; subst. constructor.
  - rewrite in_app_iff. cbn [In]. intros [G | [G | []]]; [contradiction |]. apply Hn. left. symmetry. exact G.
  - apply IH; [exact Ht |]. intros G. apply Hn. right. exact G.
Qed.

Lemma set_add_In : forall p l q, In q (set_add p l) <-> q = p \/ In q l.
Proof.
  intros p l q. unfold set_add. destruct (mem p l) eqn:E.
  - apply mem_In in E. split; [intros H; right; exact H | intros [H | H]; [subst; exact E | exact H]].
  - rewrite in_app_iff. cbn [In]. split; intros [H | H]; auto.
    + destruct H as [H | []]. left. symmetry. exact H.
Qed.

Lemma set_add_nodup : forall p l, NoDup l -> NoDup (set_add p l).
Proof.
  intros p l H. unfold set_add. destruct (mem p l) eqn:E; [exact H |].
  apply mem_false in E. apply NoDup_app_intro_one; assumption.
Qed.

(* ------------------------------------------------------------------ sorted association lists *)

Fixpoint ssorted (l : list (N * N)) : Prop :=
  match l with
  | [] => True
  | x :: t => (forall y, In y t -> fst x < fst y) /\ ssorted t
  end.

Lemma cins_In : forall d p l x, In x (cins d p l) -> x = (d, p) \/ In x l.
Proof.
  intros d p l x. induction l as [| [d' p'] t IH]; cbn [cins].
  - intros [H | []]. left. symmetry. exact H.
  - destruct (d <? d').
    + intros [H | H]; [left; symmetry; exact H | right; exact H].
    + destruct (d =? d').
      * intros [H | H]; [left; symmetry; exact H | right; right; exact H].
      * intros [H | H]; [right; left; exact H |]. destruct (IH H) as [E | E]; [left; exact E | right; right; exact E].
Qed.

Lemma cins_new : forall d p l, In (d, p) (cins d p l).
Proof.
  intros d p l. induction l as [| [d' p'] t IH]; cbn [cins]; [left; reflexivity |].
  destruct (d <? d'); [left; reflexivity |]. destruct (d =? d'); [left; reflexivity | right; exact IH].
Qed.

Lemma cins_keep : forall d p l x, In x l -> fst x <> d -> In x (cins d p l).
Proof.
  intros d p l x. induction l as [| [d' p'] t IH]; cbn [cins]; intros H Hn; [destruct H |].
  destruct (d <? d'); [right; exact H |]. destruct (N.eqb_spec d d') as [E | E].
  - destruct H as [H | H]; [subst x; cbn [fst] in Hn; congruence | right; exact H].
  - destruct H as [H | H]; [left; exact H | right; apply IH; assumption].
Qed.

Lemma cins_sorted : forall d p l, ssorted l -> ssorted (cins d p l).
Proof.
  intros d p l. induction l as [| [d' p'] t IH]; cbn [cins ssorted]; intros H.
  - split; [intros y [] | exact I].
  - destruct H as [H1 H2]. cbn [fst] in H1.
    destruct (N.ltb_spec d d') as [L | L].
    + cbn [ssorted]. split; [| split; assumption].
      intros y [Hy | Hy]; cbn [fst]; [subst y; cbn [fst]; exact L | specialize (H1 y Hy); lia].
    + destruct (N.eqb_spec d d') as [E | E].
      * subst d'. cbn [ssorted]. split; assumption.
      * cbn [ssorted]. split; [| apply IH; exact H2].
        intros y Hy. cbn [fst]. apply cins_In in Hy. destruct Hy as [Hy | Hy].
        -- subst y. cbn [fst]. lia.
        -- apply H1. exact Hy.
Qed.

Lemma cins_length : forall d p l, (length (cins d p l) <= S (length l))%nat.
Proof.
  intros d p l. induction l as [| [d' p'] t IH]; cbn [cins length]; [lia |].
  destruct (d <? d'); cbn [length]; [lia |]. destruct (d =? d'); cbn [length]; lia.
Qed.

Lemma ssorted_fst_inj : forall l x y, ssorted l -> In x l -> In y l -> fst x = fst y -> x = y.
Proof.
  induction l as [| a t IH]; intros x y Hs Hx Hy He; [destruct Hx |].
  cbn [ssorted] in Hs. destruct Hs as [H1 H2]. destruct Hx as [Hx | Hx], Hy as [Hy | Hy].
  - congruence.
  - subst a. specialize (H1 y Hy). lia.
  - subst a. specialize (H1 x Hx). lia.
  - apply IH; assumption.
Qed.

(* ------------------------------------------------------------------ the structural invariant *)

Record inv3 (c : cfg) (cs pd : list (N * N)) (qd : list N) : Prop := mkInv3 {
  i_sorted : ssorted cs;
  i_dist : forall x, In x cs -> fst x = c_dist c (snd x);
  i_cfresh : forall x, In x cs ->
             ~ In (snd x) (map fst pd) /\ ~ In (snd x) qd /\ snd x <> c_local c;
  i_pnodup : NoDup (map fst pd);
  i_pq : forall p, In p (map fst pd) -> ~ In p qd /\ p <> c_local c;
  i_qlocal : ~ In (c_local c) qd;
  i_qnodup : NoDup qd
}.

Definition Inv (c : cfg) (s : state) : Prop := inv3 c (cands s) (pend s) (queried s).

Lemma inv3_cins : forall c cs pd qd q,
  inv3 c cs pd qd -> ~ In q (map fst pd) -> ~ In q qd -> q <> c_local c ->
  inv3 c (cins (c_dist c q) q cs) pd qd.
Proof.
  intros c cs pd qd q [H1 H2 H3 H4 H5 H6 H7] Hp Hq Hl. constructor; try assumption.
  - apply cins_sorted. exact H1.
  - intros x Hx. apply cins_In in Hx. destruct Hx as [Hx | Hx]; [subst x; reflexivity | apply H2; exact Hx].
  - intros x Hx. apply cins_In in Hx. destruct Hx as [Hx | Hx]; [subst x; cbn [snd]; auto | apply H3; exact Hx].
Qed.

Lemma inv3_add_cands : forall c pd qd peers cs,
  inv3 c cs pd qd -> inv3 c (add_cands c qd pd peers cs) pd qd.
Proof.
  intros c pd qd peers. induction peers as [| q t IH]; intros cs H; cbn [add_cands]; [exact H |].
  apply IH. destruct (mem q qd) eqn:E1; cbn [orb]; [exact H |].
  destruct (pmem q pd) eqn:E2; cbn [orb]; [exact H |].
  destruct (N.eqb_spec q (c_local c)) as [E3 | E3]; [exact H |].
  apply inv3_cins; try assumption.
  - apply pmem_false. exact E2.
  - apply mem_false. exact E1.
Qed.

(* schedule_next_peer: the closest candidate becomes pending *)
Lemma inv3_schedule : forall c d p t pd qd now,
  inv3 c ((d, p) :: t) pd qd -> inv3 c t (premove p pd ++ [(p, now)]) qd.
Proof.
  intros c d p t pd qd now [H1 H2 H3 H4 H5 H6 H7].
  destruct (H3 (d, p) (or_introl eq_refl)) as [Hp [Hq Hl]]. cbn [snd] in Hp, Hq, Hl.
  rewrite (premove_notin p pd Hp).
  cbn [ssorted] in H1. destruct H1 as [H1a H1b].
  assert (Hd : d = c_dist c p) by (apply (H2 (d, p)); left; reflexivity).
  constructor; try assumption.
  - intros x Hx. apply H2. right. exact Hx.
  - intros x Hx. destruct (H3 x (or_intror Hx)) as [A [B C]]. split; [| split; assumption].
    rewrite map_app, in_app_iff. cbn [map fst In]. intros [G | [G | []]]; [apply A; exact G |].
    specialize (H1a x Hx). cbn [fst] in H1a.
    assert (fst x = c_dist c (snd x)) by (apply H2; right; exact Hx). rewrite <- G in H. lia.
  - rewrite map_app. cbn [map fst]. apply NoDup_app_intro_one; assumption.
  - intros q Hq'. rewrite map_app, in_app_iff in Hq'. cbn [map fst In] in Hq'.
    destruct Hq' as [G | [G | []]]; [apply H5; exact G | subst q; split; assumption].
Qed.

(* a pending peer answers or fails: it moves to `queried` *)
Lemma inv3_resolve : forall c cs pd qd p,
  inv3 c cs pd qd -> In p (map fst pd) -> inv3 c cs (premove p pd) (set_add p qd).
Proof.
  intros c cs pd qd p [H1 H2 H3 H4 H5 H6 H7] Hp. destruct (H5 p Hp) as [Hq Hl].
  constructor; try assumption.
  - intros x Hx. destruct (H3 x Hx) as [A [B C]]. split; [| split; [| exact C]].
    + intros G. apply premove_fst in G. apply A. apply G.
    + intros G. apply set_add_In in G. destruct G as [G | G]; [| apply B; exact G].
      apply A. rewrite G. exact Hp.
  - apply premove_nodup. exact H4.
  - intros q Hq'. apply premove_fst in Hq'. destruct Hq' as [G Gn]. destruct (H5 q G) as [A B].
    split; [| exact B]. intros G2. apply set_add_In in G2. destruct G2 as [G2 | G2]; [contradiction | apply A; exact G2].
  - intros G. apply set_add_In in G. destruct G as [G | G]; [apply Hl; symmetry; exact G | apply H6; exact G].
  - apply set_add_nodup. exact H7.
Qed.

Lemma init_cands_inv : forall c seeds acc,
  (forall p, In p seeds -> p <> c_local c) -> inv3 c acc [] [] ->
  inv3 c (fold_left (fun acc p => cins (c_dist c p) p acc) seeds acc) [] [].
Proof.
  intros c seeds. induction seeds as [| q t IH]; intros acc Hs H; cbn [fold_left]; [exact H |].
  apply IH; [intros p Hp; apply Hs; right; exact Hp |].
  apply inv3_cins; [exact H | intros [] | intros [] | apply Hs; left; reflexivity].
Qed.

Lemma init_inv : forall c seeds, ~ In (c_local c) seeds -> Inv c (init c seeds).
Proof.
  intros c seeds H. unfold Inv, init. cbn [cands pend queried].
  apply init_cands_inv.
  - intros p Hp E. apply H. rewrite <- E. exact Hp.
  - constructor; cbn [ssorted map].
    + exact I.
    + intros x [].
    + intros x [].
    + constructor.
    + intros x [].
    + intros [].
    + constructor.
Qed.

(* ------------------------------------------------------------------ shape of next_action *)

Definition same7 (s s' : state) : Prop :=
  cands s' = cands s /\ pend s' = pend s /\ queried s' = queried s /\ resps s' = resps s /\
  found s' = found s /\ recq s' = recq s /\ provs s' = provs s.

Inductive nshape (c : cfg) (s : state) (now : N) (s' : state) : action -> Prop :=
| NS_none : same7 s s' -> done s' = done s -> nshape c s now s' ANone
| NS_send : forall d p t,
    done s = false -> cands s = (d, p) :: t -> cands s' = t ->
    pend s' = premove p (pend s) ++ [(p, now)] -> queried s' = queried s ->
    resps s' = resps s -> found s' = found s -> recq s' = recq s -> provs s' = provs s ->
    done s' = false -> nshape c s now s' (ASend p)
| NS_partial : forall p r,
    done s = false -> c_kind c = KRecord -> recq s = (p, r) :: recq s' ->
    cands s' = cands s -> pend s' = pend s -> queried s' = queried s ->
    resps s' = resps s -> found s' = found s -> provs s' = provs s ->
    done s' = false -> nshape c s now s' (APartial p r)
| NS_term : forall a,
    is_terminal a = true -> done s = false -> done s' = true -> same7 s s' ->
    nshape c s now s' a.

Ltac shape_leaf :=
  first
    [ apply NS_none; [unfold same7; cbn; repeat split; reflexivity | cbn; try reflexivity; assumption]
    | eapply NS_send; cbn; try reflexivity; try eassumption
    | eapply NS_partial; cbn; try reflexivity; try eassumption
    | apply NS_term; [reflexivity | assumption | reflexivity | unfold same7; cbn; repeat split; reflexivity] ].

Lemma schedule_shape : forall c s now,
  done s = false -> nshape c s now (fst (schedule c s now)) (snd (schedule c s now)).
Proof.
  intros c s now Hd. unfold schedule. destruct (cands s) as [| [d p] t] eqn:Ec; cbn [fst snd].
  - apply NS_none; [unfold same7; repeat split; reflexivity | reflexivity].
  - eapply NS_send; cbn; try reflexivity; try eassumption.
Qed.

Lemma schedule_shape_pr : forall c s now n,
  done s = false ->
  nshape c s now (fst (schedule c (set_pr s n) now)) (snd (schedule c (set_pr s n) now)).
Proof.
  intros c s now n Hd. unfold schedule, set_pr. cbn [cands pend queried resps pr found recq provs done].
  destruct (cands s) as [| [d p] t] eqn:Ec; cbn [fst snd].
  - apply NS_none; [unfold same7; cbn; rewrite Ec; repeat split; reflexivity | reflexivity].
  - eapply NS_send; cbn; try reflexivity; try eassumption.
Qed.

Lemma next_action_shape : forall c s now,
  nshape c s now (fst (next_action c s now)) (snd (next_action c s now)).
Proof.
  intros c s now. unfold next_action. destruct (done s) eqn:Hd.
  - cbn [fst snd]. apply NS_none; [unfold same7; repeat split; reflexivity | reflexivity].
  - destruct (c_kind c) eqn:Hk.
    + unfold next_find. destruct (is_done s).
      * destruct (resps s); unfold finish; cbn [fst snd]; shape_leaf.
      * cbn [pr set_pr].
        destruct (count_fresh (c_timeout c) now (pend s) =? c_alpha c); [cbn [fst snd]; shape_leaf |].
        cbn [resps set_pr].
        destruct (N.of_nat (length (resps s)) <? c_k c); [apply schedule_shape_pr; exact Hd |].
        cbn [cands set_pr].
        destruct (cands s) as [| [cd cp] ct] eqn:Ec.
        -- unfold finish; cbn [fst snd]; shape_leaf.
        -- destruct (last_opt (resps s)) as [[wd wp] |].
           ++ destruct (c_dist c cp <? wd).
              ** apply schedule_shape_pr; exact Hd.
              ** unfold finish; cbn [fst snd]; shape_leaf.
           ++ unfold finish; cbn [fst snd]; shape_leaf.
    + unfold next_record. destruct (recq s) as [| [p r] t] eqn:Er.
      * destruct (is_done s).
        -- destruct (c_known c + found s =? 0); unfold finish; cbn [fst snd]; shape_leaf.
        -- destruct (c_needed c <=? c_known c + found s); [unfold finish; cbn [fst snd]; shape_leaf |].
           destruct (N.of_nat (length (pend s)) =? c_alpha c); [cbn [fst snd]; shape_leaf |].
           apply schedule_shape; exact Hd.
      * cbn [fst snd]. shape_leaf.
    + unfold next_providers. destruct (is_done s).
      * destruct (c_kprov c ++ provs s); unfold finish; cbn [fst snd]; shape_leaf.
      * destruct (N.of_nat (length (pend s)) =? c_alpha c); [cbn [fst snd]; shape_leaf |].
        apply schedule_shape; exact Hd.
Qed.

(* ------------------------------------------------------------------ shape of responses / failures *)

Lemma on_response_noeff : forall c s p r, effective s p = false -> on_response c s p r = s.
Proof.
  intros c s p r. unfold effective, on_response. destruct (done s); [reflexivity |].
  cbn [negb andb]. intros ->. reflexivity.
Qed.

Lemma on_failure_noeff : forall c s p, effective s p = false -> on_failure c s p = s.
Proof.
  intros c s p. unfold effective, on_failure. destruct (done s); [reflexivity |].
  cbn [negb andb]. intros ->. reflexivity.
Qed.

Definition rec_update (c : cfg) (s : state) (p : N) (r : reply) : N * list (N * N) :=
  match c_kind c, r_rec r with
  | KRecord, Some (id, false) => (found s + 1, recq s ++ [(p, id)])
  | _, _ => (found s, recq s)
  end.

Lemma on_response_eff : forall c s p r, effective s p = true ->
  let s' := on_response c s p r in
  pend s' = premove p (pend s) /\ queried s' = set_add p (queried s) /\
  cands s' = add_cands c (set_add p (queried s)) (premove p (pend s)) (r_peers r) (cands s) /\
  done s' = false /\ done s = false /\
  resps s' = (match c_kind c with
              | KFind => resp_insert (c_k c) (c_dist c p) p (resps s)
              | _ => resps s end) /\
  provs s' = (match c_kind c with KProviders => provs s ++ r_provs r | _ => provs s end) /\
  (found s', recq s') = rec_update c s p r.
Proof.
  intros c s p r. unfold effective, on_response, rec_update. destruct (done s) eqn:Hd; [discriminate |].
  cbn [negb andb]. intros ->. cbn zeta.
  destruct (c_kind c); [| destruct (r_rec r) as [[id [|]] |] |]; cbn; rewrite ?Hd; repeat split; reflexivity.
Qed.

Lemma on_failure_eff : forall c s p, effective s p = true ->
  let s' := on_failure c s p in
  pend s' = premove p (pend s) /\ queried s' = set_add p (queried s) /\
  cands s' = cands s /\ done s' = false /\ done s = false /\ resps s' = resps s /\
  provs s' = provs s /\ found s' = found s /\ recq s' = recq s.
Proof.
  intros c s p. unfold effective, on_failure. destruct (done s) eqn:Hd; [discriminate |].
  cbn [negb andb]. intros ->. cbn. rewrite ?Hd. repeat split; reflexivity.
Qed.

Lemma effective_pend : forall s p, effective s p = true -> In p (map fst (pend s)).
Proof. intros s p H. unfold effective in H. apply andb_prop in H. apply pmem_In. apply H. Qed.

(* ------------------------------------------------------------------ Inv is inductive *)

Lemma nshape_inv : forall c s now s' a, nshape c s now s' a -> Inv c s -> Inv c s'.
Proof.
  intros c s now s' a H Hi. unfold Inv in *. destruct H as [[A [B [C _]]] _ | d p t _ Ec A B C | p r _ _ _ A B C | a _ _ _ [A [B [C _]]]].
  - rewrite A, B, C. exact Hi.
  - rewrite A, B, C. rewrite Ec in Hi. eapply inv3_schedule. exact Hi.
  - rewrite A, B, C. exact Hi.
  - rewrite A, B, C. exact Hi.
Qed.

Lemma step_inv : forall c s e, Inv c s -> Inv c (fst (step c s e)).
Proof.
  intros c s e Hi. destruct e as [now | p r | p | p]; cbn [step fst].
  - eapply nshape_inv; [apply next_action_shape | exact Hi].
  - destruct (effective s p) eqn:He; [| rewrite on_response_noeff; assumption].
    destruct (on_response_eff c s p r He) as [A [B [C _]]]. unfold Inv. rewrite A, B, C.
    apply inv3_add_cands. apply inv3_resolve; [exact Hi | apply effective_pend; exact He].
  - destruct (effective s p) eqn:He; [| rewrite on_failure_noeff; assumption].
    destruct (on_failure_eff c s p He) as [A [B [C _]]]. unfold Inv. rewrite A, B, C.
    apply inv3_resolve; [exact Hi | apply effective_pend; exact He].
  - exact Hi.
Qed.

(* ------------------------------------------------------------------ helpers for the history invariant *)

Lemma removelast_In : forall (l : list (N * N)) x, In x (removelast l) -> In x l.
Proof.
  induction l as [| a t IH]; intros x H; [destruct H |].
  cbn [removelast] in H. destruct t as [| b t']; [destruct H |].
  destruct H as [H | H]; [left; exact H | right; apply IH; exact H].
Qed.

Lemma removelast_sorted : forall l, ssorted l -> ssorted (removelast l).
Proof.
  induction l as [| a t IH]; intros H; [exact I |].
  cbn [removelast]. destruct t as [| b t']; [exact I |].
  cbn [ssorted] in H. destruct H as [H1 H2]. cbn [ssorted]. split.
  - intros y Hy. apply H1. apply removelast_In. exact Hy.
  - apply IH. exact H2.
Qed.

Lemma removelast_length : forall (l : list (N * N)), length (removelast l) = pred (length l).
Proof.
  induction l as [| a t IH]; [reflexivity |]. cbn [removelast]. destruct t as [| b t']; [reflexivity |].
  cbn [length]. rewrite IH. reflexivity.
Qed.

Lemma resp_insert_In : forall k d p rs x, In x (resp_insert k d p rs) -> x = (d, p) \/ In x rs.
Proof.
  intros k d p rs x. unfold resp_insert.
  destruct (N.of_nat (length rs) <? k); [apply cins_In |].
  destruct (d <? match last_opt rs with Some x0 => fst x0 | None => d end); [| intros H; right; exact H].
  destruct (k <? N.of_nat (length (cins d p rs))); [| apply cins_In].
  intros H. apply removelast_In in H. apply cins_In. exact H.
Qed.

Lemma resp_insert_sorted : forall k d p rs, ssorted rs -> ssorted (resp_insert k d p rs).
Proof.
  intros k d p rs H. unfold resp_insert.
  destruct (N.of_nat (length rs) <? k); [apply cins_sorted; exact H |].
  destruct (d <? match last_opt rs with Some x0 => fst x0 | None => d end); [| exact H].
  destruct (k <? N.of_nat (length (cins d p rs))); [| apply cins_sorted; exact H].
  apply removelast_sorted. apply cins_sorted. exact H.
Qed.

Lemma resp_insert_len : forall k d p rs,
  N.of_nat (length rs) <= k -> N.of_nat (length (resp_insert k d p rs)) <= k.
Proof.
  intros k d p rs H. unfold resp_insert. pose proof (cins_length d p rs) as L.
  destruct (N.ltb_spec (N.of_nat (length rs)) k) as [A | A]; [lia |].
  destruct (d <? match last_opt rs with Some x0 => fst x0 | None => d end); [| exact H].
  destruct (N.ltb_spec k (N.of_nat (length (cins d p rs)))) as [B | B]; [| exact B].
  rewrite removelast_length. lia.
Qed.

Lemma cins_keep_peer : forall c cs q p,
  (forall a b, c_dist c a = c_dist c b -> a = b) ->
  (forall x, In x cs -> fst x = c_dist c (snd x)) ->
  In p (map snd cs) -> In p (map snd (cins (c_dist c q) q cs)).
Proof.
  intros c cs q p Hinj Hd Hp. apply in_map_iff in Hp. destruct Hp as [x [E Hx]].
  destruct (N.eq_dec (fst x) (c_dist c q)) as [G | G].
  - rewrite (Hd x Hx) in G. apply Hinj in G. subst p. rewrite G.
    apply in_map_iff. exists (c_dist c q, q). split; [reflexivity | apply cins_new].
  - apply in_map_iff. exists x. split; [exact E | apply cins_keep; assumption].
Qed.

Lemma cins_dist_ok : forall c cs q,
  (forall x, In x cs -> fst x = c_dist c (snd x)) ->
  forall x, In x (cins (c_dist c q) q cs) -> fst x = c_dist c (snd x).
Proof.
  intros c cs q H x Hx. apply cins_In in Hx. destruct Hx as [Hx | Hx]; [subst x; reflexivity | apply H; exact Hx].
Qed.

Lemma add_cands_known : forall c qd pd peers cs,
  (forall a b, c_dist c a = c_dist c b -> a = b) ->
  (forall x, In x cs -> fst x = c_dist c (snd x)) ->
  forall q, In q peers \/ In q (map snd cs) ->
  q = c_local c \/ In q qd \/ In q (map fst pd) \/ In q (map snd (add_cands c qd pd peers cs)).
Proof.
  intros c qd pd peers. induction peers as [| a t IH]; intros cs Hinj Hd q Hq; cbn [add_cands].
  - destruct Hq as [[] | Hq]. right; right; right. exact Hq.
  - destruct (mem a qd) eqn:E1; cbn [orb].
    { destruct Hq as [[Hq | Hq] | Hq].
      - subst a. right; left. apply mem_In. exact E1.
      - apply IH; auto.
      - apply IH; auto. }
    destruct (pmem a pd) eqn:E2; cbn [orb].
    { destruct Hq as [[Hq | Hq] | Hq].
      - subst a. right; right; left. apply pmem_In. exact E2.
      - apply IH; auto.
      - apply IH; auto. }
    destruct (N.eqb_spec a (c_local c)) as [E3 | E3].
    { destruct Hq as [[Hq | Hq] | Hq].
      - subst a. left. exact E3.
      - apply IH; auto.
      - apply IH; auto. }
    apply IH; [exact Hinj | apply cins_dist_ok; exact Hd |].
    destruct Hq as [[Hq | Hq] | Hq].
    + subst a. right. apply in_map_iff. exists (c_dist c q, q). split; [reflexivity | apply cins_new].
    + left. exact Hq.
    + right. apply cins_keep_peer; assumption.
Qed.

(* ------------------------------------------------------------------ the history invariant *)

Record ginv (c : cfg) (s : state) (g : ghost) : Prop := mkGinv {
  gi_sent : forall p, In p (g_sent g) <-> In p (map fst (pend s)) \/ In p (queried s);
  gi_sent_nodup : NoDup (g_sent g);
  gi_ans : forall p, In p (g_answered g) -> In p (queried s);
  gi_ans_nodup : NoDup (g_answered g);
  gi_rsorted : ssorted (resps s);
  gi_resps : forall x, In x (resps s) -> fst x = c_dist c (snd x) /\ In (snd x) (g_answered g);
  gi_rlen : N.of_nat (length (resps s)) <= c_k c;
  gi_known : forall p, In p (g_known g) ->
             p = c_local c \/ In p (map snd (cands s)) \/ In p (map fst (pend s)) \/ In p (queried s);
  gi_got : g_got g = g_emitted g ++ recq s;
  gi_found : c_kind c = KRecord -> found s = N.of_nat (length (g_got g));
  gi_got_ans : forall x, In x (g_got g) -> In (fst x) (g_answered g);
  gi_got_nodup : NoDup (map fst (g_got g));
  gi_provs : c_kind c = KProviders -> provs s = g_provs g;
  gi_term : length (g_term g) = if done s then 1%nat else 0%nat
}.

Lemma ginv_next : forall c s g now,
  Inv c s -> ginv c s g ->
  ginv c (fst (next_action c s now)) (gstep c s g (ENext now) (snd (next_action c s now))).
Proof.
  intros c s g now Hi [G1 G2 G3 G4 G5 G6 G7 G8 G9 G10 G11 G12 G13 G14].
  pose proof (next_action_shape c s now) as Hs.
  destruct (next_action c s now) as [s' a]. cbn [fst snd] in *.
  destruct Hs as [[A [B [C [D [E [F G]]]]]] Hd | d p t Hd0 Ec A B C D E F G Hd | p r Hd0 Hk Er A B C D E G Hd | a Ht Hd0 Hd [A [B [C [D [E [F G]]]]]]].
  - (* no action *)
    constructor; cbn [gstep g_sent g_answered g_known g_got g_emitted g_provs g_term is_terminal];
      rewrite ?A, ?B, ?C, ?D, ?E, ?F, ?G, ?Hd; assumption.
  - (* SendMessage p *)
    unfold Inv in Hi. rewrite Ec in Hi.
    destruct (i_cfresh _ _ _ _ Hi (d, p) (or_introl eq_refl)) as [Hp [Hq Hl]]. cbn [snd] in Hp, Hq, Hl.
    assert (Hpend : map fst (pend s') = map fst (pend s) ++ [p]).
    { rewrite B, (premove_notin p (pend s) Hp), map_app. reflexivity. }
    constructor; cbn [gstep g_sent g_answered g_known g_got g_emitted g_provs g_term is_terminal];
      rewrite ?Hpend, ?C, ?D, ?E, ?F, ?G, ?Hd; try assumption.
    + intros q. rewrite !in_app_iff. cbn [In]. rewrite G1. tauto.
    + apply NoDup_app_intro_one; [exact G2 |]. rewrite G1. tauto.
    + intros q Hq'. specialize (G8 q Hq'). rewrite Ec in G8. cbn [map snd In] in G8.
      rewrite A, in_app_iff. cbn [In]. tauto.
    + rewrite Hd0 in G14. exact G14.
  - (* partial result *)
    constructor; cbn [gstep g_sent g_answered g_known g_got g_emitted g_provs g_term is_terminal];
      rewrite ?A, ?B, ?C, ?D, ?E, ?G, ?Hd; try assumption.
    + rewrite G9, Er, <- app_assoc. reflexivity.
    + rewrite Hd0 in G14. exact G14.
  - (* terminal action *)
    assert (Hg : gstep c s g (ENext now) a =
                 mkG (g_sent g) (g_answered g) (g_known g) (g_got g) (g_emitted g) (g_provs g)
                     (g_term g ++ [a])).
    { cbn [gstep]. rewrite Ht. destruct a; try discriminate Ht; reflexivity. }
    rewrite Hg.
    constructor; cbn [g_sent g_answered g_known g_got g_emitted g_provs g_term];
      rewrite ?A, ?B, ?C, ?D, ?E, ?F, ?G, ?Hd; try assumption.
    rewrite app_length, G14, Hd0. reflexivity.
Qed.

Definition dist_inj (c : cfg) : Prop := forall a b, c_dist c a = c_dist c b -> a = b.

Lemma ginv_failure : forall c s g p,
  Inv c s -> ginv c s g -> ginv c (on_failure c s p) (gstep c s g (EFail p) ANone).
Proof.
  intros c s g p Hi Hg. cbn [gstep]. destruct (effective s p) eqn:He; [| rewrite on_failure_noeff; assumption].
  destruct (on_failure_eff c s p He) as [A [B [C [Hd [Hd0 [D [E [F G]]]]]]]].
  pose proof (effective_pend s p He) as Hp.
  destruct (i_pq _ _ _ _ Hi p Hp) as [Hq Hl].
  destruct Hg as [G1 G2 G3 G4 G5 G6 G7 G8 G9 G10 G11 G12 G13 G14].
  constructor; rewrite ?A, ?B, ?C, ?D, ?E, ?F, ?G, ?Hd; try assumption.
  - intros q. rewrite G1, premove_fst, set_add_In.
    destruct (N.eq_dec q p) as [X | X]; [subst q |]; tauto.
  - intros q Hq'. apply set_add_In. right. apply G3. exact Hq'.
  - intros q Hq'. specialize (G8 q Hq'). rewrite premove_fst, set_add_In.
    destruct (N.eq_dec q p) as [X | X]; [subst q |]; tauto.
  - rewrite Hd0 in G14. exact G14.
Qed.

Lemma ginv_response : forall c s g p r,
  dist_inj c -> Inv c s -> ginv c s g ->
  ginv c (on_response c s p r) (gstep c s g (EResp p r) ANone).
Proof.
  intros c s g p r Hinj Hi Hg. cbn [gstep].
  destruct (effective s p) eqn:He; [| rewrite on_response_noeff; assumption].
  destruct (on_response_eff c s p r He) as [A [B [C [Hd [Hd0 [D [E F]]]]]]].
  pose proof (effective_pend s p He) as Hp.
  destruct (i_pq _ _ _ _ Hi p Hp) as [Hq Hl].
  destruct Hg as [G1 G2 G3 G4 G5 G6 G7 G8 G9 G10 G11 G12 G13 G14].
  assert (Hna : ~ In p (g_answered g)) by (intros X; apply Hq; apply G3; exact X).
  constructor; cbn [g_sent g_answered g_known g_got g_emitted g_provs g_term];
    rewrite ?A, ?B, ?Hd; try assumption.
  - intros q. rewrite G1, premove_fst, set_add_In.
    destruct (N.eq_dec q p) as [X | X]; [subst q |]; tauto.
  - intros q Hq'. apply set_add_In. apply in_app_iff in Hq'. cbn [In] in Hq'.
    destruct Hq' as [X | [X | []]]; [right; apply G3; exact X | left; symmetry; exact X].
  - apply NoDup_app_intro_one; assumption.
  - rewrite D. destruct (c_kind c); [apply resp_insert_sorted |..]; exact G5.
  - rewrite D. intros x Hx. rewrite in_app_iff. cbn [In].
    assert (In x (resps s) \/ x = (c_dist c p, p)) as [X | X].
    { destruct (c_kind c); [apply resp_insert_In in Hx; tauto | left; exact Hx | left; exact Hx]. }
    + destruct (G6 x X) as [Y Z]. split; [exact Y | left; exact Z].
    + subst x. cbn [fst snd]. split; [reflexivity | right; left; reflexivity].
  - rewrite D. destruct (c_kind c); [apply resp_insert_len |..]; exact G7.
  - intros q Hq'. rewrite C, premove_fst, set_add_In.
    assert (Hd' : forall x, In x (cands s) -> fst x = c_dist c (snd x)) by (apply (i_dist _ _ _ _ Hi)).
    assert (K : In q (r_peers r) \/ In q (map snd (cands s)) \/ q = c_local c \/
                In q (map fst (pend s)) \/ In q (queried s)).
    { apply in_app_iff in Hq'. destruct Hq' as [X | X]; [| left; exact X].
      specialize (G8 q X). tauto. }
    destruct K as [K | [K | [K | [K | K]]]].
    + pose proof (add_cands_known c (set_add p (queried s)) (premove p (pend s)) (r_peers r) (cands s)
                    Hinj Hd' q (or_introl K)) as X.
      rewrite premove_fst, set_add_In in X. tauto.
    + pose proof (add_cands_known c (set_add p (queried s)) (premove p (pend s)) (r_peers r) (cands s)
                    Hinj Hd' q (or_intror K)) as X.
      rewrite premove_fst, set_add_In in X. tauto.
    + left. exact K.
    + destruct (N.eq_dec q p) as [X | X]; [subst q |]; tauto.
    + tauto.
  - (* got = emitted ++ recq *)
    unfold rec_update in F. destruct (c_kind c); try (injection F as F1 F2; rewrite F2; exact G9).
    destruct (r_rec r) as [[id [|]] |]; injection F as F1 F2; rewrite F2; try exact G9.
    rewrite G9, app_assoc. reflexivity.
  - intros Hk. unfold rec_update in F. rewrite Hk in F |- *.
    destruct (r_rec r) as [[id [|]] |]; injection F as F1 F2; rewrite F1; try (apply G10; exact Hk).
    rewrite app_length. cbn [length]. rewrite (G10 Hk). lia.
  - intros x Hx. rewrite in_app_iff.
    assert (In x (g_got g) \/ fst x = p) as [X | X].
    { destruct (c_kind c); try (left; exact Hx).
      destruct (r_rec r) as [[id [|]] |]; try (left; exact Hx).
      apply in_app_iff in Hx. destruct Hx as [Hx | [Hx | []]]; [left; exact Hx | right; subst x; reflexivity]. }
    + left. apply G11. exact X.
    + right. left. symmetry. exact X.
  - assert (Hnp : ~ In p (map fst (g_got g))).
    { intros X. apply in_map_iff in X. destruct X as [x [X1 X2]]. apply Hna. rewrite <- X1. apply G11. exact X2. }
    destruct (c_kind c); try exact G12.
    destruct (r_rec r) as [[id [|]] |]; try exact G12.
    rewrite map_app. cbn [map fst]. apply NoDup_app_intro_one; assumption.
  - intros Hk. rewrite E, Hk. rewrite (G13 Hk). reflexivity.
  - rewrite Hd0 in G14. exact G14.
Qed.

Lemma ginv_step : forall c s g e,
  dist_inj c -> Inv c s -> ginv c s g ->
  ginv c (fst (step c s e)) (gstep c s g e (snd (step c s e))).
Proof.
  intros c s g e Hinj Hi Hg. destruct e as [now | p r | p | p]; cbn [step fst snd].
  - apply ginv_next; assumption.
  - apply ginv_response; assumption.
  - apply ginv_failure; assumption.
  - exact Hg.
Qed.

Lemma grun_inv : forall c es s g,
  dist_inj c -> Inv c s -> ginv c s g ->
  Inv c (fst (grun c s g es)) /\ ginv c (fst (grun c s g es)) (snd (grun c s g es)).
Proof.
  intros c es. induction es as [| e t IH]; intros s g Hinj Hi Hg; cbn [grun]; [split; assumption |].
  pose proof (step_inv c s e Hi) as H1. pose proof (ginv_step c s g e Hinj Hi Hg) as H2.
  destruct (step c s e) as [s1 a]. cbn [fst snd] in H1, H2. apply IH; assumption.
Qed.

Lemma fold_cins_known : forall c seeds acc q,
  dist_inj c -> (forall x, In x acc -> fst x = c_dist c (snd x)) ->
  In q seeds \/ In q (map snd acc) ->
  In q (map snd (fold_left (fun acc p => cins (c_dist c p) p acc) seeds acc)).
Proof.
  intros c seeds. induction seeds as [| a t IH]; intros acc q Hinj Hd Hq; cbn [fold_left].
  - destruct Hq as [[] | Hq]. exact Hq.
  - apply IH; [exact Hinj | apply cins_dist_ok; exact Hd |].
    destruct Hq as [[Hq | Hq] | Hq].
    + subst a. right. apply in_map_iff. exists (c_dist c q, q). split; [reflexivity | apply cins_new].
    + left. exact Hq.
    + right. apply cins_keep_peer; assumption.
Qed.

Lemma init_ginv : forall c seeds, dist_inj c -> ginv c (init c seeds) (ghost0 seeds).
Proof.
  intros c seeds Hinj. unfold init, ghost0.
  constructor; cbn [cands pend queried resps pr found recq provs done
                    g_sent g_answered g_known g_got g_emitted g_provs g_term map length ssorted app].
  - intros p. cbn [In]. tauto.
  - constructor.
  - intros p [].
  - constructor.
  - exact I.
  - intros x [].
  - lia.
  - intros p Hp. right. left. apply fold_cins_known; [exact Hinj | intros x [] | left; exact Hp].
  - reflexivity.
  - intros _. lia.
  - intros x [].
  - constructor.
  - reflexivity.
  - reflexivity.
Qed.

(* Everything reachable from a fresh query satisfies both invariants. *)
Lemma reach_inv : forall c seeds es,
  dist_inj c -> ~ In (c_local c) seeds ->
  Inv c (fst (grun c (init c seeds) (ghost0 seeds) es)) /\
  ginv c (fst (grun c (init c seeds) (ghost0 seeds) es)) (snd (grun c (init c seeds) (ghost0 seeds) es)).
Proof.
  intros c seeds es Hinj Hl. apply grun_inv; [exact Hinj | apply init_inv; exact Hl | apply init_ginv; exact Hinj].
Qed.

Lemma grun_run : forall c es s g, fst (grun c s g es) = fst (run c s es).
Proof.
  intros c es. induction es as [| e t IH]; intros s g; cbn [grun run]; [reflexivity |].
  destruct (step c s e) as [s1 a]. rewrite (IH s1 (gstep c s g e a)).
  destruct (run c s1 t) as [s2 l]. reflexivity.
Qed.

(* ------------------------------------------------------------------ ghost fields = functions of the action list *)

Lemma gstep_sent : forall c s g e a,
  (forall p, a = ASend p -> exists now, e = ENext now) ->
  g_sent (gstep c s g e a) = g_sent g ++ sends [a].
Proof.
  intros c s g e a H. destruct e as [now | p r | p | p]; cbn [gstep].
  - cbn [g_sent]. destruct a; cbn [sends]; rewrite ?app_nil_r; reflexivity.
  - assert (sends [a] = []) as ->.
    { destruct a; try reflexivity. destruct (H p0 eq_refl) as [n X]. discriminate X. }
    rewrite app_nil_r. destruct (effective s p); reflexivity.
  - assert (sends [a] = []) as ->.
    { destruct a; try reflexivity. destruct (H p0 eq_refl) as [n X]. discriminate X. }
    rewrite app_nil_r. reflexivity.
  - assert (sends [a] = []) as ->.
    { destruct a; try reflexivity. destruct (H p0 eq_refl) as [n X]. discriminate X. }
    rewrite app_nil_r. reflexivity.
Qed.

Lemma step_action_next : forall c s e a, snd (step c s e) = a -> a <> ANone -> exists now, e = ENext now.
Proof.
  intros c s e a H Hn. destruct e as [now | p r | p | p]; cbn [step snd] in H; try (subst a; contradiction).
  exists now. reflexivity.
Qed.

Lemma sends_app : forall l1 l2, sends (l1 ++ l2) = sends l1 ++ sends l2.
Proof.
  induction l1 as [| a t IH]; intros l2; [reflexivity |].
  cbn [app sends]. destruct a; rewrite IH; reflexivity.
Qed.

Lemma grun_sent : forall c es s g,
  g_sent (snd (grun c s g es)) = g_sent g ++ sends (snd (run c s es)).
Proof.
  intros c es. induction es as [| e t IH]; intros s g; cbn [grun run snd sends]; [rewrite app_nil_r; reflexivity |].
  pose proof (gstep_sent c s g e (snd (step c s e))) as H1.
  pose proof (step_action_next c s e) as H2.
  destruct (step c s e) as [s1 a]. cbn [snd] in H1, H2.
  rewrite IH. rewrite H1.
  - destruct (run c s1 t) as [s2 l]. cbn [snd]. change (a :: l) with ([a] ++ l).
    rewrite sends_app, app_assoc. reflexivity.
  - intros p Hp. apply (H2 a eq_refl). rewrite Hp. discriminate.
Qed.

(* ------------------------------------------------------------------ never local, never twice, disjointness *)

Lemma sent_props : forall c seeds es,
  dist_inj c -> ~ In (c_local c) seeds ->
  NoDup (sends (snd (run c (init c seeds) es))) /\
  ~ In (c_local c) (sends (snd (run c (init c seeds) es))).
Proof.
  intros c seeds es Hinj Hl. destruct (reach_inv c seeds es Hinj Hl) as [Hi Hg].
  pose proof (grun_sent c es (init c seeds) (ghost0 seeds)) as Hs. cbn [ghost0 g_sent app] in Hs.
  rewrite <- Hs. split; [apply (gi_sent_nodup _ _ _ Hg) |].
  intros X. apply (gi_sent _ _ _ Hg) in X. destruct X as [X | X].
  - destruct (i_pq _ _ _ _ Hi _ X) as [_ Y]. apply Y. reflexivity.
  - apply (i_qlocal _ _ _ _ Hi). exact X.
Qed.

Lemma disjoint_sets : forall c seeds es,
  ~ In (c_local c) seeds ->
  let s := fst (run c (init c seeds) es) in
  (forall p, In p (map snd (cands s)) -> ~ In p (map fst (pend s)) /\ ~ In p (queried s) /\ p <> c_local c) /\
  (forall p, In p (map fst (pend s)) -> ~ In p (queried s) /\ p <> c_local c) /\
  ~ In (c_local c) (queried s) /\
  NoDup (map snd (cands s)) /\ NoDup (map fst (pend s)) /\ NoDup (queried s).
Proof.
  intros c seeds es Hl s.
  assert (Hi : Inv c s).
  { subst s. rewrite <- (grun_run c es (init c seeds) (ghost0 seeds)).
    assert (G : forall es s0 g0, Inv c s0 -> Inv c (fst (grun c s0 g0 es))).
    { intros es0. induction es0 as [| e t IH]; intros s0 g0 H0; cbn [grun]; [exact H0 |].
      pose proof (step_inv c s0 e H0) as H1. destruct (step c s0 e) as [s1 a]. apply IH. exact H1. }
    apply G. apply init_inv. exact Hl. }
  destruct Hi as [H1 H2 H3 H4 H5 H6 H7]. repeat split; try assumption.
  - apply in_map_iff in H. destruct H as [x [E Hx]]. subst p. apply (H3 x Hx).
  - apply in_map_iff in H. destruct H as [x [E Hx]]. subst p. apply (H3 x Hx).
  - apply in_map_iff in H. destruct H as [x [E Hx]]. subst p. apply (H3 x Hx).
  - apply (H5 p H).
  - apply (H5 p H).
  - clear H3. induction (cands s) as [| x t IH]; cbn [map]; [constructor |].
    cbn [ssorted] in H1. destruct H1 as [A B]. constructor.
    + intros X. apply in_map_iff in X. destruct X as [y [E Hy]].
      specialize (A y Hy). rewrite (H2 x (or_introl eq_refl)), (H2 y (or_intror Hy)), E in A. lia.
    + apply IH; [exact B | intros y Hy; apply H2; right; exact Hy].
Qed.

(* ------------------------------------------------------------------ exactly one terminal action *)

Lemma step_done : forall c s e, done s = true -> step c s e = (s, ANone).
Proof.
  intros c s e Hd. destruct e as [now | p r | p | p]; cbn [step].
  - unfold next_action. rewrite Hd. reflexivity.
  - unfold on_response. rewrite Hd. reflexivity.
  - unfold on_failure. rewrite Hd. reflexivity.
  - reflexivity.
Qed.

Lemma step_done_flag : forall c s e,
  if is_terminal (snd (step c s e))
  then done s = false /\ done (fst (step c s e)) = true
  else done (fst (step c s e)) = done s.
Proof.
  intros c s e. destruct e as [now | p r | p | p]; cbn [step fst snd is_terminal].
  - pose proof (next_action_shape c s now) as H. destruct (next_action c s now) as [s' a]. cbn [fst snd] in *.
    destruct H as [_ Hd | d p t Hd0 _ _ _ _ _ _ _ _ Hd | p r Hd0 _ _ _ _ _ _ _ _ Hd | a Ht Hd0 Hd _]; cbn [is_terminal].
    + exact Hd.
    + congruence.
    + congruence.
    + rewrite Ht. split; assumption.
  - destruct (effective s p) eqn:He; [| rewrite on_response_noeff; auto].
    destruct (on_response_eff c s p r He) as [_ [_ [_ [A [B _]]]]]. congruence.
  - destruct (effective s p) eqn:He; [| rewrite on_failure_noeff; auto].
    destruct (on_failure_eff c s p He) as [_ [_ [_ [A [B _]]]]]. congruence.
  - reflexivity.
Qed.

Lemma run_terminals : forall c es s,
  (length (terminals (snd (run c s es))) + (if done s then 1 else 0) =
   if done (fst (run c s es)) then 1 else 0)%nat.
Proof.
  intros c es. induction es as [| e t IH]; intros s; cbn [run]; [cbn; lia |].
  pose proof (step_done_flag c s e) as H. destruct (step c s e) as [s1 a]. cbn [fst snd] in H.
  specialize (IH s1). destruct (run c s1 t) as [s2 l]. cbn [fst snd] in *.
  unfold terminals in *. cbn [filter]. destruct (is_terminal a).
  - destruct H as [H1 H2]. rewrite H1. rewrite H2 in IH. cbn [length]. lia.
  - rewrite H in IH. exact IH.
Qed.

Lemma one_terminal : forall c seeds es,
  (length (terminals (snd (run c (init c seeds) es))) <= 1)%nat /\
  (done (fst (run c (init c seeds) es)) = true <->
   length (terminals (snd (run c (init c seeds) es))) = 1%nat).
Proof.
  intros c seeds es. pose proof (run_terminals c es (init c seeds)) as H.
  cbn [init done] in H. destruct (done (fst (run c (init c seeds) es))); split; try lia; split; intros; try lia; try reflexivity; try discriminate.
Qed.

Lemma after_terminal : forall c es s,
  done s = true -> fst (run c s es) = s /\ Forall (fun a => a = ANone) (snd (run c s es)).
Proof.
  intros c es. induction es as [| e t IH]; intros s Hd; cbn [run]; [split; [reflexivity | constructor] |].
  rewrite (step_done c s e Hd). destruct (IH s Hd) as [A B]. destruct (run c s t) as [s2 l]. cbn [fst snd] in *.
  split; [exact A | constructor; [reflexivity | exact B]].
Qed.

(* ------------------------------------------------------------------ parallelism bound *)

Lemma is_fresh_mono : forall T now now' x, now <= now' -> is_fresh T now' x = true -> is_fresh T now x = true.
Proof. intros T now now' x H. unfold is_fresh. intros G. apply N.leb_le in G. apply N.leb_le. lia. Qed.

Lemma count_fresh_mono : forall T now now' l, now <= now' -> count_fresh T now' l <= count_fresh T now l.
Proof.
  intros T now now' l H. unfold count_fresh. induction l as [| x t IH]; cbn [filter length]; [lia |].
  destruct (is_fresh T now' x) eqn:E.
  - rewrite (is_fresh_mono T now now' x H E). cbn [length]. lia.
  - destruct (is_fresh T now x); cbn [length]; lia.
Qed.

Lemma count_fresh_premove : forall T now p l, count_fresh T now (premove p l) <= count_fresh T now l.
Proof.
  intros T now p l. unfold count_fresh, premove. induction l as [| x t IH]; cbn [filter length]; [lia |].
  destruct (negb (fst x =? p)); cbn [filter]; destruct (is_fresh T now x); cbn [length]; lia.
Qed.

Lemma count_fresh_snoc : forall T now l x, count_fresh T now (l ++ [x]) <= count_fresh T now l + 1.
Proof.
  intros T now l x. unfold count_fresh. rewrite filter_app, app_length. cbn [filter].
  destruct (is_fresh T now x); cbn [length]; lia.
Qed.

Lemma in_flight_premove : forall c now p l, in_flight c now (premove p l) <= in_flight c now l.
Proof.
  intros c now p l. unfold in_flight. destruct (c_kind c); [apply count_fresh_premove |..];
    pose proof (premove_length_le p l); lia.
Qed.

Lemma in_flight_mono : forall c now now' l, now <= now' -> in_flight c now' l <= in_flight c now l.
Proof.
  intros c now now' l H. unfold in_flight. destruct (c_kind c); [apply count_fresh_mono; exact H | lia | lia].
Qed.

Lemma in_flight_sched : forall c now p l,
  in_flight c now (premove p l ++ [(p, now)]) <= in_flight c now l + 1.
Proof.
  intros c now p l. pose proof (in_flight_premove c now p l) as H. unfold in_flight in *.
  destruct (c_kind c).
  - pose proof (count_fresh_snoc (c_timeout c) now (premove p l) (p, now)). lia.
  - rewrite app_length. cbn [length]. lia.
  - rewrite app_length. cbn [length]. lia.
Qed.

Lemma schedule_send : forall c s now p,
  snd (schedule c s now) = ASend p -> exists d t, cands s = (d, p) :: t.
Proof.
  intros c s now p. unfold schedule. destruct (cands s) as [| [d q] t]; cbn [snd]; intros H; [discriminate |].
  injection H as ->. exists d, t. reflexivity.
Qed.

(* a SendMessage is only issued below the parallelism gate *)
Lemma send_gate : forall c s now p,
  snd (next_action c s now) = ASend p -> in_flight c now (pend s) <> c_alpha c.
Proof.
  intros c s now p. unfold next_action, in_flight. destruct (done s); [discriminate |].
  destruct (c_kind c).
  - unfold next_find. destruct (is_done s).
    + destruct (resps s); unfold finish; cbn [snd]; discriminate.
    + cbn [pr set_pr]. destruct (N.eqb_spec (count_fresh (c_timeout c) now (pend s)) (c_alpha c)) as [E | E];
        [cbn [snd]; discriminate | intros _; exact E].
  - unfold next_record. destruct (recq s) as [| [q r] t]; [| cbn [snd]; discriminate].
    destruct (is_done s).
    + destruct (c_known c + found s =? 0); unfold finish; cbn [snd]; discriminate.
    + destruct (c_needed c <=? c_known c + found s); [unfold finish; cbn [snd]; discriminate |].
      destruct (N.eqb_spec (N.of_nat (length (pend s))) (c_alpha c)) as [E | E];
        [cbn [snd]; discriminate | intros _; exact E].
  - unfold next_providers. destruct (is_done s).
    + destruct (c_kprov c ++ provs s); unfold finish; cbn [snd]; discriminate.
    + destruct (N.eqb_spec (N.of_nat (length (pend s))) (c_alpha c)) as [E | E];
        [cbn [snd]; discriminate | intros _; exact E].
Qed.

Definition pinv (c : cfg) (now : N) (s : state) : Prop := in_flight c now (pend s) <= c_alpha c.

Lemma pinv_step : forall c s e now,
  pinv c now s ->
  match e with
  | ENext now' => now <= now' -> pinv c now' (fst (step c s e))
  | _ => pinv c now (fst (step c s e))
  end.
Proof.
  intros c s e now H. unfold pinv in *. destruct e as [now' | p r | p | p]; cbn [step fst].
  - intros Hm. pose proof (in_flight_mono c now now' (pend s) Hm) as H1.
    pose proof (next_action_shape c s now') as Hs. pose proof (send_gate c s now') as Hg.
    destruct (next_action c s now') as [s' a]. cbn [fst snd] in *.
    destruct Hs as [[_ [B _]] _ | d p t _ _ _ B | p r _ _ _ _ B | a _ _ _ [_ [B _]]]; rewrite B; try lia.
    specialize (Hg p eq_refl). pose proof (in_flight_sched c now' p (pend s)). lia.
  - destruct (effective s p) eqn:He; [| rewrite on_response_noeff; assumption].
    destruct (on_response_eff c s p r He) as [A _]. rewrite A.
    pose proof (in_flight_premove c now p (pend s)). lia.
  - destruct (effective s p) eqn:He; [| rewrite on_failure_noeff; assumption].
    destruct (on_failure_eff c s p He) as [A _]. rewrite A.
    pose proof (in_flight_premove c now p (pend s)). lia.
  - exact H.
Qed.

Lemma pinv_run : forall c es s now,
  mono now es -> pinv c now s -> pinv c (clock now es) (fst (run c s es)).
Proof.
  intros c es. induction es as [| e t IH]; intros s now Hm H; cbn [run clock]; [exact H |].
  pose proof (pinv_step c s e now H) as H1.
  destruct (step c s e) as [s1 a] eqn:Es. cbn [fst] in H1.
  destruct e as [now' | p r | p | p]; cbn [mono] in Hm.
  - destruct Hm as [Hm1 Hm2]. specialize (IH s1 now' Hm2 (H1 Hm1)).
    destruct (run c s1 t) as [s2 l]. exact IH.
  - specialize (IH s1 now Hm H1). destruct (run c s1 t) as [s2 l]. exact IH.
  - specialize (IH s1 now Hm H1). destruct (run c s1 t) as [s2 l]. exact IH.
  - specialize (IH s1 now Hm H1). destruct (run c s1 t) as [s2 l]. exact IH.
Qed.

Lemma parallelism : forall c seeds es now0,
  mono now0 es ->
  in_flight c (clock now0 es) (pend (fst (run c (init c seeds) es))) <= c_alpha c.
Proof.
  intros c seeds es now0 Hm. apply (pinv_run c es (init c seeds) now0 Hm).
  unfold pinv, in_flight, init, count_fresh. cbn [pend filter length]. destruct (c_kind c); lia.
Qed.

(* ------------------------------------------------------------------ progress (no deadlock) *)

Lemma progress : forall c s now,
  1 <= c_alpha c -> done s = false -> pend s = [] -> snd (next_action c s now) <> ANone.
Proof.
  intros c s now Ha Hd Hp. unfold next_action. rewrite Hd. destruct (c_kind c).
  - unfold next_find, is_done. rewrite Hp. destruct (cands s) as [| [cd cp] ct] eqn:Ec.
    + destruct (resps s); unfold finish; cbn [snd]; discriminate.
    + cbn [pr set_pr]. unfold count_fresh. cbn [filter length].
      destruct (N.eqb_spec (N.of_nat 0) (c_alpha c)) as [E | E]; [lia |].
      cbn [resps set_pr].
      destruct (N.of_nat (length (resps s)) <? c_k c).
      * unfold schedule, set_pr. cbn [cands]. rewrite Ec. cbn [snd]. discriminate.
      * cbn [cands set_pr]. rewrite Ec. destruct (last_opt (resps s)) as [[wd wp] |].
        -- destruct (c_dist c cp <? wd).
           ++ unfold schedule, set_pr. cbn [cands]. rewrite Ec. cbn [snd]. discriminate.
           ++ unfold finish; cbn [snd]; discriminate.
        -- unfold finish; cbn [snd]; discriminate.
  - unfold next_record, is_done. rewrite Hp. destruct (recq s) as [| [q r] t]; [| cbn [snd]; discriminate].
    destruct (cands s) as [| [cd cp] ct] eqn:Ec.
    + destruct (c_known c + found s =? 0); unfold finish; cbn [snd]; discriminate.
    + destruct (c_needed c <=? c_known c + found s); [unfold finish; cbn [snd]; discriminate |].
      cbn [length]. destruct (N.eqb_spec (N.of_nat 0) (c_alpha c)) as [E | E]; [lia |].
      unfold schedule. rewrite Ec. cbn [snd]. discriminate.
  - unfold next_providers, is_done. rewrite Hp. destruct (cands s) as [| [cd cp] ct] eqn:Ec.
    + destruct (c_kprov c ++ provs s); unfold finish; cbn [snd]; discriminate.
    + cbn [length]. destruct (N.eqb_spec (N.of_nat 0) (c_alpha c)) as [E | E]; [lia |].
      unfold schedule. rewrite Ec. cbn [snd]. discriminate.
Qed.

(* ------------------------------------------------------------------ termination measure *)

Definition unvisited (U : list N) (s : state) : nat :=
  length (filter (fun u => negb (pmem u (pend s) || mem u (queried s))) U).
Definition mu (U : list N) (s : state) : nat := (2 * unvisited U s + length (pend s))%nat.

Definition ev_in (U : list N) (e : event) : Prop :=
  match e with EResp _ r => forall q, In q (r_peers r) -> In q U | _ => True end.

Definition cands_in (U : list N) (s : state) : Prop := forall x, In x (cands s) -> In (snd x) U.

Lemma add_cands_in : forall c U qd pd peers cs,
  (forall q, In q peers -> In q U) -> (forall x, In x cs -> In (snd x) U) ->
  forall x, In x (add_cands c qd pd peers cs) -> In (snd x) U.
Proof.
  intros c U qd pd peers. induction peers as [| a t IH]; intros cs Hp Hc x Hx; cbn [add_cands] in Hx; [apply Hc; exact Hx |].
  apply (IH (if mem a qd || pmem a pd || (a =? c_local c) then cs else cins (c_dist c a) a cs)); try assumption.
  - intros q Hq. apply Hp. right. exact Hq.
  - intros y Hy. destruct (mem a qd || pmem a pd || (a =? c_local c)); [apply Hc; exact Hy |].
    apply cins_In in Hy. destruct Hy as [Hy | Hy]; [subst y; apply Hp; left; reflexivity | apply Hc; exact Hy].
Qed.

Lemma cands_in_step : forall c U s e, ev_in U e -> cands_in U s -> cands_in U (fst (step c s e)).
Proof.
  intros c U s e He Hc. unfold cands_in in *. destruct e as [now | p r | p | p]; cbn [step fst].
  - pose proof (next_action_shape c s now) as Hs. destruct (next_action c s now) as [s' a]. cbn [fst snd] in *.
    destruct Hs as [[A _] _ | d p t _ Ec A | p r _ _ _ A | a _ _ _ [A _]]; rewrite A; try exact Hc.
    intros x Hx. apply Hc. rewrite Ec. right. exact Hx.
  - destruct (effective s p) eqn:Hf; [| rewrite on_response_noeff; assumption].
    destruct (on_response_eff c s p r Hf) as [_ [_ [C _]]]. rewrite C.
    apply add_cands_in; [exact He | exact Hc].
  - destruct (effective s p) eqn:Hf; [| rewrite on_failure_noeff; assumption].
    destruct (on_failure_eff c s p Hf) as [_ [_ [C _]]]. rewrite C. exact Hc.
  - exact Hc.
Qed.

Lemma filter_ext_len : forall (f g : N -> bool) l,
  (forall x, In x l -> f x = g x) -> length (filter f l) = length (filter g l).
Proof.
  intros f g l. induction l as [| a t IH]; intros H; [reflexivity |].
  cbn [filter]. rewrite (H a (or_introl eq_refl)). destruct (g a); cbn [length]; rewrite IH; auto;
    intros x Hx; apply H; right; exact Hx.
Qed.

Lemma filter_drop_len : forall (f g : N -> bool) l p,
  In p l -> f p = true -> g p = false -> (forall x, g x = true -> f x = true) ->
  (length (filter g l) < length (filter f l))%nat.
Proof.
  intros f g l p. induction l as [| a t IH]; intros Hp Hf Hg Hi; [destruct Hp |].
  assert (L : (length (filter g t) <= length (filter f t))%nat).
  { clear IH Hp. induction t as [| b t' IH']; cbn [filter length]; [lia |].
    destruct (g b) eqn:E; [rewrite (Hi b E); cbn [length]; lia | destruct (f b); cbn [length]; lia]. }
  cbn [filter]. destruct Hp as [Hp | Hp].
  - subst a. rewrite Hf, Hg. cbn [length]. lia.
  - specialize (IH Hp Hf Hg Hi). destruct (g a) eqn:E; [rewrite (Hi a E); cbn [length]; lia |].
    destruct (f a); cbn [length]; lia.
Qed.

(* every SendMessage and every accepted response or failure strictly decreases mu;
   nothing increases it *)
Lemma mu_step : forall c U s e,
  Inv c s -> cands_in U s ->
  let s' := fst (step c s e) in let a := snd (step c s e) in
  (mu U s' <= mu U s)%nat /\
  ((exists p, a = ASend p) \/
   (exists p, ((exists r, e = EResp p r) \/ e = EFail p) /\ effective s p = true) ->
   (mu U s' < mu U s)%nat).
Proof.
  intros c U s e Hi Hc. destruct e as [now | p r | p | p]; cbn [step fst snd].
  - pose proof (next_action_shape c s now) as Hs. destruct (next_action c s now) as [s' a]. cbn [fst snd] in *.
    destruct Hs as [[_ [B [C _]]] _ | d p t _ Ec A B C | p r _ _ _ _ B C | a Ht _ _ [_ [B [C _]]]].
    + unfold mu, unvisited. rewrite B, C. split; [lia |]. intros [[p X] | [p [[[r X] | X] _]]]; discriminate X.
    + unfold Inv in Hi. rewrite Ec in Hi.
      destruct (i_cfresh _ _ _ _ Hi (d, p) (or_introl eq_refl)) as [Hp [Hq _]]. cbn [snd] in Hp, Hq.
      assert (HU : In p U) by (apply (Hc (d, p)); rewrite Ec; left; reflexivity).
      assert (L : (unvisited U s' < unvisited U s)%nat).
      { unfold unvisited. rewrite B, C. apply (filter_drop_len _ _ U p HU).
        - apply pmem_false in Hp. apply mem_false in Hq. rewrite Hp, Hq. reflexivity.
        - assert (X : pmem p (premove p (pend s) ++ [(p, now)]) = true).
          { apply pmem_In. rewrite map_app, in_app_iff. right. left. reflexivity. }
          rewrite X. reflexivity.
        - intros x Hx. apply negb_true_iff in Hx. apply orb_false_elim in Hx. destruct Hx as [X1 X2].
          rewrite X2. apply pmem_false in X1. rewrite (premove_notin p (pend s) Hp), map_app, in_app_iff in X1.
          assert (Y : pmem x (pend s) = false) by (apply pmem_false; tauto). rewrite Y. reflexivity. }
      assert (L2 : length (pend s') = S (length (pend s))).
      { rewrite B, (premove_notin p (pend s) Hp), app_length. cbn [length]. lia. }
      unfold mu. split; [lia | intros _; lia].
    + unfold mu, unvisited. rewrite B, C. split; [lia |]. intros [[q X] | [q [[[r' X] | X] _]]]; discriminate X.
    + unfold mu, unvisited. rewrite B, C. split; [lia |].
      intros [[q X] | [q [[[r' X] | X] _]]]; try discriminate X. subst a. discriminate Ht.
  - destruct (effective s p) eqn:He.
    2:{ rewrite on_response_noeff by exact He. split; [lia |].
        intros [[q X] | [q [[[r' X] | X] Y]]]; try discriminate X. injection X as -> ->. congruence. }
    destruct (on_response_eff c s p r He) as [A [B _]].
    pose proof (effective_pend s p He) as Hp. destruct (i_pq _ _ _ _ Hi p Hp) as [Hq _].
    assert (L : unvisited U (on_response c s p r) = unvisited U s).
    { unfold unvisited. rewrite A, B. apply filter_ext_len. intros x _. f_equal.
      destruct (N.eq_dec x p) as [E | E].
      - subst x. assert (X : mem p (set_add p (queried s)) = true) by (apply mem_In, set_add_In; left; reflexivity).
        assert (Y : pmem p (pend s) = true) by (apply pmem_In; exact Hp).
        rewrite X, Y, orb_true_r. reflexivity.
      - assert (X : pmem x (premove p (pend s)) = pmem x (pend s)).
        { destruct (pmem x (pend s)) eqn:Z.
          - apply pmem_In. apply premove_fst. split; [apply pmem_In; exact Z | exact E].
          - apply pmem_false. intros W. apply premove_fst in W. apply pmem_false in Z. tauto. }
        assert (Y : mem x (set_add p (queried s)) = mem x (queried s)).
        { destruct (mem x (queried s)) eqn:Z.
          - apply mem_In, set_add_In. right. apply mem_In. exact Z.
          - apply mem_false. intros W. apply set_add_In in W. apply mem_false in Z. tauto. }
        rewrite X, Y. reflexivity. }
    pose proof (premove_length_lt p (pend s) Hp) as L2.
    unfold mu. rewrite L, A. split; [lia | intros _; lia].
  - destruct (effective s p) eqn:He.
    2:{ rewrite on_failure_noeff by exact He. split; [lia |].
        intros [[q X] | [q [[[r' X] | X] Y]]]; try discriminate X. injection X as ->. congruence. }
    destruct (on_failure_eff c s p He) as [A [B _]].
    pose proof (effective_pend s p He) as Hp. destruct (i_pq _ _ _ _ Hi p Hp) as [Hq _].
    assert (L : unvisited U (on_failure c s p) = unvisited U s).
    { unfold unvisited. rewrite A, B. apply filter_ext_len. intros x _. f_equal.
      destruct (N.eq_dec x p) as [E | E].
      - subst x. assert (X : mem p (set_add p (queried s)) = true) by (apply mem_In, set_add_In; left; reflexivity).
        assert (Y : pmem p (pend s) = true) by (apply pmem_In; exact Hp).
        rewrite X, Y, orb_true_r. reflexivity.
      - assert (X : pmem x (premove p (pend s)) = pmem x (pend s)).
        { destruct (pmem x (pend s)) eqn:Z.
          - apply pmem_In. apply premove_fst. split; [apply pmem_In; exact Z | exact E].
          - apply pmem_false. intros W. apply premove_fst in W. apply pmem_false in Z. tauto. }
        assert (Y : mem x (set_add p (queried s)) = mem x (queried s)).
        { destruct (mem x (queried s)) eqn:Z.
          - apply mem_In, set_add_In. right. apply mem_In. exact Z.
          - apply mem_false. intros W. apply set_add_In in W. apply mem_false in Z. tauto. }
        rewrite X, Y. reflexivity. }
    pose proof (premove_length_lt p (pend s) Hp) as L2.
    unfold mu. rewrite L, A. split; [lia | intros _; lia].
  - split; [lia |]. intros [[q X] | [q [[[r' X] | X] _]]]; discriminate X.
Qed.

Lemma productive_bound_from : forall c U es s,
  Inv c s -> cands_in U s -> Forall (ev_in U) es ->
  (count_productive c s es + mu U (fst (run c s es)) <= mu U s)%nat.
Proof.
  intros c U es. induction es as [| e t IH]; intros s Hi Hc He; cbn [count_productive run]; [cbn; lia |].
  inversion He as [| e' t' He1 He2]; subst.
  pose proof (mu_step c U s e Hi Hc) as [M1 M2].
  pose proof (step_inv c s e Hi) as Hi1. pose proof (cands_in_step c U s e He1 Hc) as Hc1.
  destruct (step c s e) as [s1 a] eqn:Es. cbn [fst snd] in *.
  specialize (IH s1 Hi1 Hc1 He2). destruct (run c s1 t) as [s2 l]. cbn [fst] in *.
  destruct (productive s e a) eqn:Ep; [| lia].
  assert (mu U s1 < mu U s)%nat; [| lia]. apply M2. unfold productive in Ep.
  destruct a as [| sp | | fl | pp pr0 | | pl]; try (left; eexists; reflexivity);
    (destruct e as [now | p r | p | p]; try discriminate Ep; right; exists p; (split; [| exact Ep]);
     first [left; eexists; reflexivity | right; reflexivity]).
Qed.

Lemma mu_init : forall c U seeds, (mu U (init c seeds) <= 2 * length U)%nat.
Proof.
  intros c U seeds. unfold mu, unvisited, init. cbn [pend queried length].
  pose proof (filter_len_le _ (fun u => negb (pmem u [] || mem u [])) U). lia.
Qed.

Lemma init_cands_in : forall c U seeds, (forall p, In p seeds -> In p U) -> cands_in U (init c seeds).
Proof.
  intros c U seeds H. unfold cands_in, init. cbn [cands].
  assert (G : forall l acc, (forall p, In p l -> In p U) -> (forall x, In x acc -> In (snd x) U) ->
              forall x, In x (fold_left (fun acc p => cins (c_dist c p) p acc) l acc) -> In (snd x) U).
  { induction l as [| a t IH]; intros acc Hl Ha x Hx; cbn [fold_left] in Hx; [apply Ha; exact Hx |].
    apply (IH (cins (c_dist c a) a acc)); try assumption.
    - intros p Hp. apply Hl. right. exact Hp.
    - intros y Hy. apply cins_In in Hy. destruct Hy as [Hy | Hy]; [subst y; apply Hl; left; reflexivity | apply Ha; exact Hy]. }
  apply G; [exact H | intros x []].
Qed.

Lemma productive_bound : forall c U seeds es,
  ~ In (c_local c) seeds -> (forall p, In p seeds -> In p U) -> Forall (ev_in U) es ->
  (count_productive c (init c seeds) es <= 2 * length U)%nat.
Proof.
  intros c U seeds es Hl Hs He.
  pose proof (productive_bound_from c U es (init c seeds) (init_inv c seeds Hl) (init_cands_in c U seeds Hs) He).
  pose proof (mu_init c U seeds). lia.
Qed.

(* ------------------------------------------------------------------ FIND_NODE result *)

Lemma last_opt_map : forall (l : list (N * N)), last_opt (map snd l) = option_map snd (last_opt l).
Proof.
  induction l as [| a t IH]; [reflexivity |]. destruct t as [| b t']; [reflexivity |].
  change (last_opt (map snd (a :: b :: t'))) with (last_opt (map snd (b :: t'))).
  change (last_opt (a :: b :: t')) with (last_opt (b :: t')). exact IH.
Qed.

Lemma last_opt_In : forall A (l : list A) x, last_opt l = Some x -> In x l.
Proof.
  induction l as [| a t IH]; intros x H; [discriminate |]. destruct t as [| b t'].
  - injection H as ->. left. reflexivity.
  - right. apply IH. exact H.
Qed.

Lemma schedule_not_found : forall c s now l, snd (schedule c s now) = AFound l -> False.
Proof.
  intros c s now l. unfold schedule. destruct (cands s) as [| [d q] t]; cbn [snd]; discriminate.
Qed.

(* when FIND_NODE succeeds no candidate is strictly closer than the furthest response *)
Lemma found_cond : forall c s now l,
  Inv c s -> c_kind c = KFind -> snd (next_action c s now) = AFound l ->
  l = map snd (resps s) /\
  forall x w, In x (cands s) -> last_opt (resps s) = Some w -> ~ (c_dist c (snd x) < fst w).
Proof.
  intros c s now l Hi Hk. unfold next_action. destruct (done s); [discriminate |]. rewrite Hk.
  unfold next_find. destruct (is_done s) eqn:Ed.
  - assert (Ec : cands s = []).
    { unfold is_done in Ed. destruct (pend s); [destruct (cands s); [reflexivity | discriminate] | discriminate]. }
    destruct (resps s) eqn:Er; unfold finish; cbn [snd]; intros H; [discriminate |].
    injection H as <-. split; [reflexivity |]. intros x w Hx. rewrite Ec in Hx. destruct Hx.
  - cbn [pr set_pr]. destruct (count_fresh (c_timeout c) now (pend s) =? c_alpha c); [cbn [snd]; discriminate |].
    cbn [resps set_pr]. destruct (N.of_nat (length (resps s)) <? c_k c).
    { intros H. exfalso. eapply schedule_not_found. exact H. }
    cbn [cands set_pr]. unfold Inv in Hi. destruct (cands s) as [| [cd cp] ct] eqn:Ec.
    + unfold finish. cbn [snd resps]. intros H. injection H as <-. split; [reflexivity |]. intros x w [].
    + destruct (last_opt (resps s)) as [[wd wp] |] eqn:El.
      * destruct (N.ltb_spec (c_dist c cp) wd) as [L | L].
        { intros H. exfalso. eapply schedule_not_found. exact H. }
        unfold finish. cbn [snd resps]. intros H. injection H as <-. split; [reflexivity |].
        intros x w Hx Hw. injection Hw as <-. cbn [fst].
        pose proof (i_sorted _ _ _ _ Hi) as Hs. cbn [ssorted] in Hs. destruct Hs as [Hs _].
        pose proof (i_dist _ _ _ _ Hi (cd, cp) (or_introl eq_refl)) as Hd0. cbn [fst snd] in Hd0.
        destruct Hx as [Hx | Hx]; [subst x; cbn [snd]; lia |].
        specialize (Hs x Hx). cbn [fst] in Hs.
        pose proof (i_dist _ _ _ _ Hi x (or_intror Hx)) as Hd1. lia.
      * unfold finish. cbn [snd resps]. intros H. injection H as <-. split; [reflexivity |].
        intros x w _ Hw. discriminate Hw.
Qed.

Lemma dsorted_resps : forall c rs,
  ssorted rs -> (forall x, In x rs -> fst x = c_dist c (snd x)) -> dsorted c (map snd rs).
Proof.
  intros c rs. induction rs as [| a t IH]; intros Hs Hd; cbn [map dsorted]; [exact I |].
  cbn [ssorted] in Hs. destruct Hs as [H1 H2]. split.
  - intros q Hq. apply in_map_iff in Hq. destruct Hq as [y [E Hy]]. subst q.
    specialize (H1 y Hy). rewrite (Hd a (or_introl eq_refl)), (Hd y (or_intror Hy)) in H1. exact H1.
  - apply IH; [exact H2 | intros x Hx; apply Hd; right; exact Hx].
Qed.

Lemma find_result : forall c s g now l,
  Inv c s -> ginv c s g -> c_kind c = KFind -> snd (next_action c s now) = AFound l ->
  (forall p, In p l -> In p (g_answered g)) /\
  dsorted c l /\
  N.of_nat (length l) <= c_k c /\
  (forall p w, In p (g_known g) -> p <> c_local c -> last_opt l = Some w ->
               c_dist c p < c_dist c w -> In p (g_sent g)).
Proof.
  intros c s g now l Hi Hg Hk Ha. destruct (found_cond c s now l Hi Hk Ha) as [El Hc]. subst l.
  split; [| split; [| split]].
  - intros p Hp. apply in_map_iff in Hp. destruct Hp as [x [E Hx]]. subst p. apply (gi_resps _ _ _ Hg x Hx).
  - apply dsorted_resps; [apply (gi_rsorted _ _ _ Hg) | intros x Hx; apply (gi_resps _ _ _ Hg x Hx)].
  - rewrite map_length. apply (gi_rlen _ _ _ Hg).
  - intros p w Hp Hl Hw Hlt. rewrite last_opt_map in Hw.
    destruct (last_opt (resps s)) as [x |] eqn:Ex; [| discriminate Hw]. cbn [option_map] in Hw. injection Hw as <-.
    pose proof (gi_resps _ _ _ Hg x (last_opt_In _ _ _ Ex)) as [Hx _].
    apply (gi_sent _ _ _ Hg). destruct (gi_known _ _ _ Hg p Hp) as [K | [K | K]]; [contradiction | | exact K].
    exfalso. apply in_map_iff in K. destruct K as [y [E Hy]]. subst p.
    apply (Hc y x Hy eq_refl). rewrite Hx. exact Hlt.
Qed.

(* ------------------------------------------------------------------ GET_VALUE: partial results and quorum *)

Lemma record_terminal_recq : forall c s now,
  c_kind c = KRecord -> is_terminal (snd (next_action c s now)) = true -> recq s = [].
Proof.
  intros c s now Hk. unfold next_action. destruct (done s); [discriminate |]. rewrite Hk.
  unfold next_record. destruct (recq s) as [| [p r] t]; [reflexivity | cbn [snd is_terminal]; discriminate].
Qed.

Lemma record_once : forall c s g now,
  ginv c s g -> c_kind c = KRecord -> is_terminal (snd (next_action c s now)) = true ->
  g_emitted g = g_got g /\ NoDup (map fst (g_got g)) /\
  (forall x, In x (g_got g) -> In (fst x) (g_answered g)).
Proof.
  intros c s g now Hg Hk Ht. pose proof (record_terminal_recq c s now Hk Ht) as Hr.
  pose proof (gi_got _ _ _ Hg) as H. rewrite Hr, app_nil_r in H.
  split; [symmetry; exact H | split; [apply (gi_got_nodup _ _ _ Hg) | apply (gi_got_ans _ _ _ Hg)]].
Qed.

Lemma quorum_stop : forall c s g now p,
  ginv c s g -> c_kind c = KRecord -> snd (next_action c s now) = ASend p ->
  c_known c + N.of_nat (length (g_got g)) < c_needed c.
Proof.
  intros c s g now p Hg Hk. pose proof (gi_found _ _ _ Hg Hk) as Hf.
  unfold next_action. destruct (done s); [discriminate |]. rewrite Hk.
  unfold next_record. destruct (recq s) as [| [q r] t]; [| cbn [snd]; discriminate].
  destruct (is_done s).
  - destruct (c_known c + found s =? 0); unfold finish; cbn [snd]; discriminate.
  - destruct (N.leb_spec (c_needed c) (c_known c + found s)) as [L | L]; [unfold finish; cbn [snd]; discriminate |].
    intros _. lia.
Qed.

(* ------------------------------------------------------------------ GET_PROVIDERS result *)

Lemma providers_result : forall c s g now l,
  ginv c s g -> c_kind c = KProviders -> snd (next_action c s now) = AProvDone l ->
  l = merge_providers c (c_kprov c ++ g_provs g).
Proof.
  intros c s g now l Hg Hk. pose proof (gi_provs _ _ _ Hg Hk) as Hp.
  unfold next_action. destruct (done s); [discriminate |]. rewrite Hk.
  unfold next_providers. destruct (is_done s).
  - destruct (c_kprov c ++ provs s) eqn:E; unfold finish; cbn [snd]; [discriminate |].
    intros H. injection H as <-. rewrite <- Hp, E. reflexivity.
  - destruct (N.of_nat (length (pend s)) =? c_alpha c); cbn [snd]; [discriminate |].
    unfold schedule. destruct (cands s) as [| [d q] t]; cbn [snd]; discriminate.
Qed.

(* ------------------------------------------------------------------ statements about reachable states *)

Lemma find_result_reach : forall c seeds es now l,
  dist_inj c -> ~ In (c_local c) seeds -> c_kind c = KFind ->
  let s := fst (grun c (init c seeds) (ghost0 seeds) es) in
  let g := snd (grun c (init c seeds) (ghost0 seeds) es) in
  snd (next_action c s now) = AFound l ->
  (forall p, In p l -> In p (g_answered g)) /\
  dsorted c l /\
  N.of_nat (length l) <= c_k c /\
  (forall p w, In p (g_known g) -> p <> c_local c -> last_opt l = Some w ->
               c_dist c p < c_dist c w -> In p (g_sent g)).
Proof.
  intros c seeds es now l Hinj Hl Hk s g Ha. destruct (reach_inv c seeds es Hinj Hl) as [Hi Hg].
  apply (find_result c s g now l Hi Hg Hk Ha).
Qed.

Lemma record_once_reach : forall c seeds es now,
  dist_inj c -> ~ In (c_local c) seeds -> c_kind c = KRecord ->
  let s := fst (grun c (init c seeds) (ghost0 seeds) es) in
  let g := snd (grun c (init c seeds) (ghost0 seeds) es) in
  is_terminal (snd (next_action c s now)) = true ->
  g_emitted g = g_got g /\ NoDup (map fst (g_got g)) /\
  (forall x, In x (g_got g) -> In (fst x) (g_answered g)).
Proof.
  intros c seeds es now Hinj Hl Hk s g Ht. destruct (reach_inv c seeds es Hinj Hl) as [Hi Hg].
  apply (record_once c s g now Hg Hk Ht).
Qed.

Lemma quorum_stop_reach : forall c seeds es now p,
  dist_inj c -> ~ In (c_local c) seeds -> c_kind c = KRecord ->
  let s := fst (grun c (init c seeds) (ghost0 seeds) es) in
  let g := snd (grun c (init c seeds) (ghost0 seeds) es) in
  snd (next_action c s now) = ASend p ->
  c_known c + N.of_nat (length (g_got g)) < c_needed c.
Proof.
  intros c seeds es now p Hinj Hl Hk s g Ha. destruct (reach_inv c seeds es Hinj Hl) as [Hi Hg].
  apply (quorum_stop c s g now p Hg Hk Ha).
Qed.

Lemma providers_result_reach : forall c seeds es now l,
  dist_inj c -> ~ In (c_local c) seeds -> c_kind c = KProviders ->
  let s := fst (grun c (init c seeds) (ghost0 seeds) es) in
  let g := snd (grun c (init c seeds) (ghost0 seeds) es) in
  snd (next_action c s now) = AProvDone l ->
  l = merge_providers c (c_kprov c ++ g_provs g).
Proof.
  intros c seeds es now l Hinj Hl Hk s g Ha. destruct (reach_inv c seeds es Hinj Hl) as [Hi Hg].
  apply (providers_result c s g now l Hg Hk Ha).
Qed.

Lemma progress_reach : forall c seeds es now,
  1 <= c_alpha c ->
  let s := fst (run c (init c seeds) es) in
  done s = false -> pend s = [] -> snd (next_action c s now) <> ANone.
Proof. intros c seeds es now Ha s Hd Hp. apply progress; assumption. Qed.

Lemma default_factors : 1 <= V.gen.Consts.PARALLELISM_FACTOR /\ 1 <= V.gen.Consts.REPLICATION_FACTOR.
Proof. unfold V.gen.Consts.PARALLELISM_FACTOR, V.gen.Consts.REPLICATION_FACTOR. lia. Qed.

(* ------------------------------------------------------------------ the top-k window of FIND_NODE responses *)

(* every answered peer that is not in the window is farther than the whole (full) window *)
Definition winv (c : cfg) (s : state) (g : ghost) : Prop :=
  c_kind c = KFind ->
  forall q, In q (g_answered g) -> ~ In q (map snd (resps s)) ->
    N.of_nat (length (resps s)) = c_k c /\ forall x, In x (resps s) -> fst x < c_dist c q.

Lemma cins_length_new : forall d p l,
  (forall x, In x l -> fst x <> d) -> length (cins d p l) = S (length l).
Proof.
  intros d p l. induction l as [| [d' p'] t IH]; intros H; cbn [cins length]; [reflexivity |].
  destruct (d <? d'); [reflexivity |]. destruct (N.eqb_spec d d') as [E | E].
  - exfalso. apply (H (d', p')); [left; reflexivity | cbn [fst]; congruence].
  - cbn [length]. rewrite IH; [reflexivity |]. intros x Hx. apply H. right. exact Hx.
Qed.

Lemma removelast_or_last : forall (l : list (N * N)) x,
  In x l -> In x (removelast l) \/ last_opt l = Some x.
Proof.
  induction l as [| a t IH]; intros x H; [destruct H |].
  destruct t as [| b t'].
  - destruct H as [H | []]. right. cbn. congruence.
  - change (removelast (a :: b :: t')) with (a :: removelast (b :: t')).
    change (last_opt (a :: b :: t')) with (last_opt (b :: t')).
    destruct H as [H | H]; [left; left; exact H |].
    destruct (IH x H) as [G | G]; [left; right; exact G | right; exact G].
Qed.

Lemma sorted_last_max : forall l m x,
  ssorted l -> last_opt l = Some m -> In x (removelast l) -> fst x < fst m.
Proof.
  induction l as [| a t IH]; intros m x Hs Hl Hx; [destruct Hx |].
  destruct t as [| b t']; [destruct Hx |].
  change (removelast (a :: b :: t')) with (a :: removelast (b :: t')) in Hx.
  change (last_opt (a :: b :: t')) with (last_opt (b :: t')) in Hl.
  cbn [ssorted] in Hs. destruct Hs as [H1 H2].
  destruct Hx as [Hx | Hx].
  - subst x. apply H1. apply last_opt_In. exact Hl.
  - apply (IH m x H2 Hl Hx).
Qed.

Lemma sorted_last_ge : forall l m x,
  ssorted l -> last_opt l = Some m -> In x l -> fst x <= fst m.
Proof.
  intros l m x Hs Hl Hx. destruct (removelast_or_last l x Hx) as [G | G].
  - pose proof (sorted_last_max l m x Hs Hl G). lia.
  - rewrite G in Hl. injection Hl as <-. lia.
Qed.

Lemma last_opt_none : forall (l : list (N * N)), last_opt l = None -> l = [].
Proof.
  induction l as [| a t IH]; intros H; [reflexivity |]. destruct t as [| b t']; [discriminate H |].
  change (last_opt (a :: b :: t')) with (last_opt (b :: t')) in H. apply IH in H. discriminate H.
Qed.

Lemma resp_insert_window : forall c k p rs ans,
  dist_inj c -> ssorted rs ->
  (forall x, In x rs -> fst x = c_dist c (snd x) /\ In (snd x) ans) ->
  N.of_nat (length rs) <= k -> ~ In p ans ->
  (forall q, In q ans -> ~ In q (map snd rs) ->
     N.of_nat (length rs) = k /\ forall x, In x rs -> fst x < c_dist c q) ->
  forall q, In q (ans ++ [p]) -> ~ In q (map snd (resp_insert k (c_dist c p) p rs)) ->
    N.of_nat (length (resp_insert k (c_dist c p) p rs)) = k /\
    forall x, In x (resp_insert k (c_dist c p) p rs) -> fst x < c_dist c q.
Proof.
  intros c k p rs ans Hinj Hs Hr Hlen Hp W q Hq Hn.
  assert (F1 : forall x, In x rs -> fst x <> c_dist c p).
  { intros x Hx E. destruct (Hr x Hx) as [A B]. rewrite A in E. apply Hinj in E. apply Hp. rewrite <- E. exact B. }
  assert (F2 : forall y, In y (map snd rs) -> In y (map snd (cins (c_dist c p) p rs))).
  { intros y Hy. apply in_map_iff in Hy. destruct Hy as [x [E Hx]]. apply in_map_iff. exists x.
    split; [exact E | apply cins_keep; [exact Hx | apply F1; exact Hx]]. }
  assert (F3 : In p (map snd (cins (c_dist c p) p rs))).
  { apply in_map_iff. exists (c_dist c p, p). split; [reflexivity | apply cins_new]. }
  pose proof (cins_length_new (c_dist c p) p rs F1) as F4.
  unfold resp_insert in *.
  destruct (N.ltb_spec (N.of_nat (length rs)) k) as [L | L].
  - (* the window is not full: everybody is in it *)
    exfalso. apply in_app_iff in Hq. destruct Hq as [Hq | [Hq | []]].
    + assert (X : ~ In q (map snd rs)) by (intros X; apply Hn; apply F2; exact X).
      destruct (W q Hq X) as [Y _]. lia.
    + subst q. apply Hn. exact F3.
  - assert (Lk : N.of_nat (length rs) = k) by lia.
    destruct (last_opt rs) as [m |] eqn:El.
    + (* non-empty full window with furthest entry m *)
      destruct (N.ltb_spec (c_dist c p) (fst m)) as [D | D].
      * (* p enters, the furthest entry of the extended window leaves *)
        destruct (N.ltb_spec k (N.of_nat (length (cins (c_dist c p) p rs)))) as [K | K]; [| lia].
        pose proof (cins_sorted (c_dist c p) p rs Hs) as Hs1.
        split; [rewrite removelast_length, F4; cbn [pred]; exact Lk |].
        intros x Hx.
        destruct (in_dec N.eq_dec q (map snd (cins (c_dist c p) p rs))) as [Hin | Hout].
        -- (* q is the entry that was pushed out *)
           apply in_map_iff in Hin. destruct Hin as [y [Ey Hy]].
           destruct (removelast_or_last _ y Hy) as [G | G].
           ++ exfalso. apply Hn. apply in_map_iff. exists y. split; assumption.
           ++ pose proof (sorted_last_max _ y x Hs1 G Hx) as Z.
              assert (fst y = c_dist c q); [| lia].
              apply cins_In in Hy. destruct Hy as [Hy | Hy].
              ** subst y. cbn [fst snd] in *. subst q. reflexivity.
              ** rewrite <- Ey. apply (Hr y Hy).
        -- (* q was outside before as well *)
           assert (Hqa : In q ans).
           { apply in_app_iff in Hq. destruct Hq as [Hq | [Hq | []]]; [exact Hq |]. subst q. contradiction. }
           assert (X : ~ In q (map snd rs)) by (intros X; apply Hout; apply F2; exact X).
           destruct (W q Hqa X) as [_ Y].
           apply removelast_In in Hx. apply cins_In in Hx. destruct Hx as [Hx | Hx].
           ++ subst x. cbn [fst]. specialize (Y m (last_opt_In _ _ _ El)). lia.
           ++ apply Y. exact Hx.
      * (* p is not closer than the furthest entry: the window is unchanged *)
        split; [exact Lk |]. intros x Hx.
        apply in_app_iff in Hq. destruct Hq as [Hq | [Hq | []]].
        -- destruct (W q Hq Hn) as [_ Y]. apply Y. exact Hx.
        -- subst q. pose proof (sorted_last_ge rs m x Hs El Hx) as Z. specialize (F1 x Hx). lia.
    + (* empty window, k = 0 *)
      pose proof (last_opt_none rs El). subst rs. rewrite N.ltb_irrefl. cbn [length] in *. split; [lia |]. intros x [].
Qed.

Lemma winv_step : forall c s g e,
  dist_inj c -> Inv c s -> ginv c s g -> winv c s g ->
  winv c (fst (step c s e)) (gstep c s g e (snd (step c s e))).
Proof.
  intros c s g e Hinj Hi Hg Hw. destruct e as [now | p r | p | p]; cbn [step fst snd].
  - pose proof (next_action_shape c s now) as Hs. destruct (next_action c s now) as [s' a]. cbn [fst snd] in *.
    assert (R : resps s' = resps s).
    { destruct Hs as [[_ [_ [_ [D _]]]] _ | d p t _ _ _ _ _ D | p r _ _ _ _ _ _ D | a _ _ _ [_ [_ [_ [D _]]]]]; exact D. }
    unfold winv. cbn [gstep g_answered]. rewrite R. exact Hw.
  - cbn [gstep]. destruct (effective s p) eqn:He; [| rewrite on_response_noeff; assumption].
    destruct (on_response_eff c s p r He) as [_ [_ [_ [_ [_ [D _]]]]]].
    unfold winv. cbn [g_answered]. intros Hk. rewrite D, Hk.
    pose proof (effective_pend s p He) as Hp. destruct (i_pq _ _ _ _ Hi p Hp) as [Hq _].
    apply (resp_insert_window c (c_k c) p (resps s) (g_answered g) Hinj).
    + apply (gi_rsorted _ _ _ Hg).
    + apply (gi_resps _ _ _ Hg).
    + apply (gi_rlen _ _ _ Hg).
    + intros X. apply Hq. apply (gi_ans _ _ _ Hg). exact X.
    + apply Hw. exact Hk.
  - cbn [gstep]. destruct (effective s p) eqn:He; [| rewrite on_failure_noeff; assumption].
    destruct (on_failure_eff c s p He) as [_ [_ [_ [_ [_ [D _]]]]]].
    unfold winv. rewrite D. exact Hw.
  - exact Hw.
Qed.

Lemma grun_winv : forall c es s g,
  dist_inj c -> Inv c s -> ginv c s g -> winv c s g ->
  winv c (fst (grun c s g es)) (snd (grun c s g es)).
Proof.
  intros c es. induction es as [| e t IH]; intros s g Hinj Hi Hg Hw; cbn [grun]; [exact Hw |].
  pose proof (step_inv c s e Hi) as H1. pose proof (ginv_step c s g e Hinj Hi Hg) as H2.
  pose proof (winv_step c s g e Hinj Hi Hg Hw) as H3.
  destruct (step c s e) as [s1 a]. cbn [fst snd] in *. apply IH; assumption.
Qed.

(* FIND_NODE success reports exactly the k closest of all peers that answered (all of them when
   fewer than k answered): whoever answered and is not reported is farther than every reported
   peer, and then k peers are reported *)
Lemma find_topk_reach : forall c seeds es now l,
  dist_inj c -> ~ In (c_local c) seeds -> c_kind c = KFind ->
  let s := fst (grun c (init c seeds) (ghost0 seeds) es) in
  let g := snd (grun c (init c seeds) (ghost0 seeds) es) in
  snd (next_action c s now) = AFound l ->
  forall q, In q (g_answered g) -> ~ In q l ->
    N.of_nat (length l) = c_k c /\ forall w, In w l -> c_dist c w < c_dist c q.
Proof.
  intros c seeds es now l Hinj Hl Hk s g Ha q Hq Hn.
  destruct (reach_inv c seeds es Hinj Hl) as [Hi Hg].
  assert (Hw : winv c s g).
  { apply grun_winv; [exact Hinj | apply init_inv; exact Hl | apply init_ginv; exact Hinj |].
    intros _ q' []. }
  destruct (found_cond c s now l Hi Hk Ha) as [El _]. subst l.
  destruct (Hw Hk q Hq Hn) as [A B]. split; [rewrite map_length; exact A |].
  intros w Hw'. apply in_map_iff in Hw'. destruct Hw' as [x [E Hx]]. subst w.
  rewrite <- (proj1 (gi_resps _ _ _ Hg x Hx)). apply B. exact Hx.
Qed.

(* ------------------------------------------------------------------ merge_and_sort_providers *)

Lemma ins_addr_In : forall a l x, In x (ins_addr a l) <-> x = a \/ In x l.
Proof.
  intros a l x. induction l as [| h t IH]; cbn [ins_addr].
  - cbn [In]. intuition.
  - destruct (a <? h); [cbn [In]; intuition |]. destruct (N.eqb_spec a h) as [E | E].
    + subst h. cbn [In]. intuition.
    + cbn [In]. rewrite IH. intuition.
Qed.

Lemma ins_addr_sorted : forall a l, asorted l -> asorted (ins_addr a l).
Proof.
  intros a l. induction l as [| h t IH]; intros H; cbn [ins_addr].
  - cbn [asorted]. split; [intros b [] | exact I].
  - cbn [asorted] in H. destruct H as [H1 H2]. destruct (N.ltb_spec a h) as [L | L].
    + cbn [asorted]. split; [| split; assumption]. intros b [Hb | Hb]; [subst b; exact L | specialize (H1 b Hb); lia].
    + destruct (N.eqb_spec a h) as [E | E]; [cbn [asorted]; split; assumption |].
      cbn [asorted]. split; [| apply IH; exact H2].
      intros b Hb. apply ins_addr_In in Hb. destruct Hb as [Hb | Hb]; [subst b; lia | apply H1; exact Hb].
Qed.

Lemma addr_set_In : forall l x, In x (addr_set l) <-> In x l.
Proof.
  intros l x. unfold addr_set. induction l as [| a t IH]; cbn [fold_right]; [reflexivity |].
  rewrite ins_addr_In, IH. cbn [In]. intuition.
Qed.

Lemma addr_set_sorted : forall l, asorted (addr_set l).
Proof.
  intros l. unfold addr_set. induction l as [| a t IH]; cbn [fold_right]; [exact I |].
  apply ins_addr_sorted. exact IH.
Qed.

Lemma addrs_of_app : forall p l1 l2, addrs_of p (l1 ++ l2) = addrs_of p l1 ++ addrs_of p l2.
Proof. intros. unfold addrs_of. apply flat_map_app. Qed.

Lemma addrs_of_notin : forall p l, ~ In p (map fst l) -> addrs_of p l = [].
Proof.
  intros p l. unfold addrs_of. induction l as [| x t IH]; intros H; cbn [flat_map]; [reflexivity |].
  cbn [map In] in H. destruct (N.eqb_spec (fst x) p) as [E | E]; [exfalso; apply H; left; exact E |].
  cbn [app]. apply IH. intros G. apply H. right. exact G.
Qed.

Lemma merge_add_keys : forall p a acc q,
  In q (map fst (merge_add p a acc)) <-> q = p \/ In q (map fst acc).
Proof.
  intros p a acc q. induction acc as [| [q0 a0] t IH]; cbn [merge_add].
  - cbn [map fst In]. intuition.
  - destruct (N.eqb_spec q0 p) as [E | E].
    + subst q0. cbn [map fst In]. intuition.
    + cbn [map fst In]. rewrite IH. intuition.
Qed.

Lemma merge_add_nodup : forall p a acc, NoDup (map fst acc) -> NoDup (map fst (merge_add p a acc)).
Proof.
  intros p a acc. induction acc as [| [q0 a0] t IH]; intros H; cbn [merge_add].
  - cbn [map fst]. constructor; [intros [] | constructor].
  - cbn [map fst] in H. inversion H as [| x y Hn Hd]; subst.
    destruct (N.eqb_spec q0 p) as [E | E]; [cbn [map fst]; constructor; assumption |].
    cbn [map fst]. constructor; [| apply IH; exact Hd].
    intros G. apply merge_add_keys in G. destruct G as [G | G]; [congruence | contradiction].
Qed.

Lemma merge_add_entries : forall p a acc q al,
  NoDup (map fst acc) -> In (q, al) (merge_add p a acc) ->
  (q <> p /\ In (q, al) acc) \/
  (q = p /\ ((exists a0, In (p, a0) acc /\ al = a0 ++ a) \/ (~ In p (map fst acc) /\ al = a))).
Proof.
  intros p a acc q al. induction acc as [| [q0 a0] t IH]; intros Hd H; cbn [merge_add] in H.
  - destruct H as [H | []]. injection H as <- <-. right. split; [reflexivity |]. right. split; [intros [] | reflexivity].
  - cbn [map fst] in Hd. inversion Hd as [| x y Hn Hd']; subst.
    destruct (N.eqb_spec q0 p) as [E | E].
    + subst q0. destruct H as [H | H].
      * injection H as <- <-. right. split; [reflexivity |]. left. exists a0. split; [left; reflexivity | reflexivity].
      * left. split; [| right; exact H]. intros G. subst q. apply Hn. apply in_map_iff. exists (p, al). split; [reflexivity | exact H].
    + destruct H as [H | H].
      * injection H as <- <-. left. split; [exact E | left; reflexivity].
      * destruct (IH Hd' H) as [[A B] | [A [[a1 [B C]] | [B C]]]].
        -- left. split; [exact A | right; exact B].
        -- right. split; [exact A |]. left. exists a1. split; [right; exact B | exact C].
        -- right. split; [exact A |]. right. split; [| exact C]. cbn [map fst In]. intros [G | G]; [congruence | contradiction].
Qed.

Definition merged (acc l0 : list (N * list N)) : Prop :=
  NoDup (map fst acc) /\
  (forall p, In p (map fst acc) <-> In p (map fst l0)) /\
  (forall p al, In (p, al) acc -> al = addrs_of p l0).

Lemma merged_add : forall acc l0 p a, merged acc l0 -> merged (merge_add p a acc) (l0 ++ [(p, a)]).
Proof.
  intros acc l0 p a [H1 [H2 H3]]. split; [apply merge_add_nodup; exact H1 | split].
  - intros q. rewrite merge_add_keys, map_app, in_app_iff, H2. cbn [map fst In]. intuition.
  - intros q al H. rewrite addrs_of_app. unfold addrs_of at 2. cbn [flat_map fst snd]. rewrite app_nil_r.
    destruct (merge_add_entries p a acc q al H1 H) as [[A B] | [A [[a1 [B C]] | [B C]]]].
    + destruct (N.eqb_spec p q) as [E | E]; [congruence |]. rewrite app_nil_r. apply H3. exact B.
    + subst q. rewrite N.eqb_refl. rewrite C. f_equal. apply H3. exact B.
    + subst q. rewrite N.eqb_refl. rewrite C. rewrite addrs_of_notin; [reflexivity |]. rewrite <- H2. exact B.
Qed.

Lemma merged_all : forall l acc l0, merged acc l0 -> merged (merge_all l acc) (l0 ++ l).
Proof.
  induction l as [| [p a] t IH]; intros acc l0 H; cbn [merge_all]; [rewrite app_nil_r; exact H |].
  replace (l0 ++ (p, a) :: t) with ((l0 ++ [(p, a)]) ++ t) by (rewrite <- app_assoc; reflexivity).
  apply IH. apply merged_add. exact H.
Qed.

Lemma ins_prov_perm : forall d x l, Permutation (ins_prov d x l) (x :: l).
Proof.
  intros d x l. induction l as [| h t IH]; cbn [ins_prov]; [apply Permutation_refl |].
  destruct (d (fst x) <? d (fst h)); [apply Permutation_refl |].
  eapply Permutation_trans; [apply perm_skip; exact IH | apply perm_swap].
Qed.

Lemma sort_prov_perm : forall d l, Permutation (fold_right (ins_prov d) [] l) l.
Proof.
  intros d l. induction l as [| x t IH]; cbn [fold_right]; [apply Permutation_refl |].
  eapply Permutation_trans; [apply ins_prov_perm | apply perm_skip; exact IH].
Qed.

Fixpoint plesorted (d : N -> N) (l : list (N * list N)) : Prop :=
  match l with
  | [] => True
  | x :: t => (forall y, In y t -> d (fst x) <= d (fst y)) /\ plesorted d t
  end.

Lemma ins_prov_sorted : forall d x l, plesorted d l -> plesorted d (ins_prov d x l).
Proof.
  intros d x l. induction l as [| h t IH]; intros H; cbn [ins_prov].
  - cbn [plesorted]. split; [intros y [] | exact I].
  - cbn [plesorted] in H. destruct H as [H1 H2]. destruct (N.ltb_spec (d (fst x)) (d (fst h))) as [L | L].
    + cbn [plesorted]. split; [| split; assumption].
      intros y [Hy | Hy]; [subst y; lia | specialize (H1 y Hy); lia].
    + cbn [plesorted]. split; [| apply IH; exact H2].
      intros y Hy. apply (Permutation_in _ (ins_prov_perm d x t)) in Hy.
      destruct Hy as [Hy | Hy]; [subst y; exact L | apply H1; exact Hy].
Qed.

Lemma sort_prov_sorted : forall d l, plesorted d (fold_right (ins_prov d) [] l).
Proof.
  intros d l. induction l as [| x t IH]; cbn [fold_right]; [exact I | apply ins_prov_sorted; exact IH].
Qed.

Lemma plesorted_dsorted : forall c l,
  dist_inj c -> NoDup (map fst l) -> plesorted (c_dist c) l -> dsorted c (map fst l).
Proof.
  intros c l Hinj. induction l as [| x t IH]; intros Hd Hs; cbn [map dsorted]; [exact I |].
  cbn [map] in Hd. inversion Hd as [| a b Hn Hd']; subst. cbn [plesorted] in Hs. destruct Hs as [H1 H2].
  split; [| apply IH; assumption].
  intros q Hq. apply in_map_iff in Hq. destruct Hq as [y [E Hy]]. subst q.
  specialize (H1 y Hy).
  assert (c_dist c (fst x) <> c_dist c (fst y)); [| lia].
  intros G. apply Hinj in G. apply Hn. rewrite G. apply in_map_iff. exists y. split; [reflexivity | exact Hy].
Qed.

(* merge_and_sort_providers: every provider peer exactly once, sorted by distance, with exactly
   the (duplicate-free, sorted) union of the addresses reported for it *)
Lemma merge_spec : forall c l,
  dist_inj c ->
  let m := merge_providers c l in
  NoDup (map fst m) /\
  (forall p, In p (map fst m) <-> In p (map fst l)) /\
  dsorted c (map fst m) /\
  (forall p al, In (p, al) m ->
     al = addr_set (addrs_of p l) /\ asorted al /\ forall x, In x al <-> In x (addrs_of p l)).
Proof.
  intros c l Hinj m. subst m. unfold merge_providers.
  set (raw := merge_all l []).
  set (m1 := map (fun x : N * list N => (fst x, addr_set (snd x))) raw).
  assert (R : merged raw l).
  { change l with ([] ++ l). apply merged_all. split; [constructor | split]; [intros p; reflexivity | intros p al []]. }
  destruct R as [R1 [R2 R3]].
  assert (K : map fst m1 = map fst raw).
  { subst m1. rewrite map_map. apply map_ext. intros x. reflexivity. }
  pose proof (sort_prov_perm (c_dist c) m1) as P.
  assert (PN : NoDup (map fst (fold_right (ins_prov (c_dist c)) [] m1))).
  { apply (Permutation_NoDup (l := map fst m1)); [apply Permutation_sym, Permutation_map; exact P | rewrite K; exact R1]. }
  split; [exact PN | split; [| split]].
  - intros p. rewrite <- R2, <- K. split; intros H.
    + apply (Permutation_in _ (Permutation_map fst P)). exact H.
    + apply (Permutation_in _ (Permutation_sym (Permutation_map fst P))). exact H.
  - apply plesorted_dsorted; [exact Hinj | exact PN | apply sort_prov_sorted].
  - intros p al H. apply (Permutation_in _ P) in H. subst m1. apply in_map_iff in H.
    destruct H as [[q a0] [E Hx]]. cbn [fst snd] in E. injection E as -> <-.
    rewrite (R3 p a0 Hx). split; [reflexivity | split; [apply addr_set_sorted | intros x; apply addr_set_In]].
Qed.

(* ------------------------------------------------------------------ closed-loop termination *)

Definition wgt (U : list N) (s : state) (idle : bool) : nat :=
  (2 * (2 * mu U s + length (recq s)) + (if idle then 0 else 1))%nat.

Lemma run_cons_fst : forall c s e t, fst (run c s (e :: t)) = fst (run c (fst (step c s e)) t).
Proof.
  intros c s e t. cbn [run]. destruct (step c s e) as [s1 a]. cbn [fst].
  destruct (run c s1 t) as [s2 l]. reflexivity.
Qed.

Lemma drive_done_nil : forall fuel c E idle s, done s = true -> drive fuel c E idle s = [].
Proof. intros fuel c E idle s H. destruct fuel; cbn [drive]; [reflexivity | rewrite H; reflexivity]. Qed.

Lemma effective_intro : forall s p, done s = false -> In p (map fst (pend s)) -> effective s p = true.
Proof.
  intros s p Hd Hp. unfold effective. rewrite Hd. cbn [negb andb]. apply pmem_In. exact Hp.
Qed.

Lemma drive_terminates : forall c U E,
  1 <= c_alpha c -> fair U E ->
  forall fuel s idle,
  Inv c s -> cands_in U s -> (wgt U s idle < fuel)%nat ->
  done (fst (run c s (drive fuel c E idle s))) = true /\
  (length (drive fuel c E idle s) <= wgt U s idle + 1)%nat.
Proof.
  intros c U E Ha Hf fuel. induction fuel as [| f IH]; intros s idle Hi Hc Hw; [lia |].
  cbn [drive]. destruct (done s) eqn:Hd; [cbn [run fst length]; split; [exact Hd | lia] |].
  specialize (Hf idle s Hd). destruct (e_move E idle s) as [[p [r |]] |].
  - (* a response *)
    destruct Hf as [Hp Hr].
    pose proof (effective_intro s p Hd Hp) as He.
    pose proof (mu_step c U s (EResp p r) Hi Hc) as [_ M]. cbn [step fst snd] in M.
    assert (M' : (mu U (on_response c s p r) < mu U s)%nat).
    { apply M. right. exists p. split; [left; exists r; reflexivity | exact He]. }
    destruct (on_response_eff c s p r He) as [_ [_ [_ [_ [_ [_ [_ F]]]]]]].
    assert (R : (length (recq (on_response c s p r)) <= length (recq s) + 1)%nat).
    { unfold rec_update in F. destruct (c_kind c); try (injection F as _ F2; rewrite F2; lia).
      destruct (r_rec r) as [[id [|]] |]; injection F as _ F2; rewrite F2; try lia.
      rewrite app_length. cbn [length]. lia. }
    pose proof (step_inv c s (EResp p r) Hi) as Hi'. pose proof (cands_in_step c U s (EResp p r) Hr Hc) as Hc'.
    cbn [step fst] in Hi', Hc'.
    assert (Hw' : (wgt U (on_response c s p r) false < f)%nat) by (unfold wgt in *; destruct idle; lia).
    destruct (IH (on_response c s p r) false Hi' Hc' Hw') as [A B].
    rewrite run_cons_fst. cbn [step fst length]. split; [exact A |]. unfold wgt in *. destruct idle; lia.
  - (* a failure *)
    destruct Hf as [Hp _].
    pose proof (effective_intro s p Hd Hp) as He.
    pose proof (mu_step c U s (EFail p) Hi Hc) as [_ M]. cbn [step fst snd] in M.
    assert (M' : (mu U (on_failure c s p) < mu U s)%nat).
    { apply M. right. exists p. split; [right; reflexivity | exact He]. }
    destruct (on_failure_eff c s p He) as [_ [_ [_ [_ [_ [_ [_ [_ F]]]]]]]].
    pose proof (step_inv c s (EFail p) Hi) as Hi'. pose proof (cands_in_step c U s (EFail p) I Hc) as Hc'.
    cbn [step fst] in Hi', Hc'.
    assert (Hw' : (wgt U (on_failure c s p) false < f)%nat) by (unfold wgt in *; rewrite F; destruct idle; lia).
    destruct (IH (on_failure c s p) false Hi' Hc' Hw') as [A B].
    rewrite run_cons_fst. cbn [step fst length]. split; [exact A |]. unfold wgt in *. rewrite F in B. destruct idle; lia.
  - (* the engine runs *)
    set (now := e_time E s).
    pose proof (next_action_shape c s now) as Hs.
    pose proof (mu_step c U s (ENext now) Hi Hc) as [M1 M2]. cbn [step fst snd] in M1, M2.
    pose proof (progress c s now Ha Hd) as Hpr.
    pose proof (step_inv c s (ENext now) Hi) as Hi'. pose proof (cands_in_step c U s (ENext now) I Hc) as Hc'.
    cbn [step fst] in Hi', Hc'.
    rewrite run_cons_fst. cbn [step fst length].
    destruct (next_action c s now) as [s1 a]. cbn [fst snd] in *.
    destruct Hs as [[_ [_ [_ [_ [_ [F _]]]]]] Hd1 | d p t _ _ _ _ _ _ _ F _ Hd1 | p r _ _ F _ _ _ _ _ _ Hd1 | a Ht _ Hd1 _].
    + (* nothing to do: the environment must move next *)
      assert (idle = false).
      { destruct Hf as [X | X]; [exact X | exfalso; apply (Hpr X); reflexivity]. }
      subst idle.
      assert (Hw' : (wgt U s1 true < f)%nat) by (unfold wgt in *; rewrite F; lia).
      destruct (IH s1 true Hi' Hc' Hw') as [A B]. split; [exact A |]. unfold wgt in *. rewrite F in B. lia.
    + assert (M' : (mu U s1 < mu U s)%nat) by (apply M2; left; exists p; reflexivity).
      assert (Hw' : (wgt U s1 false < f)%nat) by (unfold wgt in *; rewrite F; destruct idle; lia).
      destruct (IH s1 false Hi' Hc' Hw') as [A B]. split; [exact A |]. unfold wgt in *. rewrite F in B. destruct idle; lia.
    + assert (Hw' : (wgt U s1 false < f)%nat) by (unfold wgt in *; rewrite F in Hw; cbn [length] in Hw; destruct idle; lia).
      destruct (IH s1 false Hi' Hc' Hw') as [A B]. split; [exact A |]. unfold wgt in *. rewrite F. cbn [length]. destruct idle; lia.
    + rewrite (drive_done_nil f c E _ s1 Hd1). cbn [run fst length]. split; [exact Hd1 | lia].
Qed.

(* Under every fair environment a lookup over a universe of n peers is over after at most
   8n+2 events, and has then emitted exactly one terminal action. *)
Lemma closed_loop : forall c U E seeds fuel,
  1 <= c_alpha c -> ~ In (c_local c) seeds -> (forall p, In p seeds -> In p U) -> fair U E ->
  (8 * length U + 2 <= fuel)%nat ->
  let es := drive fuel c E false (init c seeds) in
  done (fst (run c (init c seeds) es)) = true /\
  length (terminals (snd (run c (init c seeds) es))) = 1%nat /\
  (length es <= 8 * length U + 2)%nat.
Proof.
  intros c U E seeds fuel Ha Hl Hs Hf Hfuel es.
  pose proof (mu_init c U seeds) as M.
  assert (W : (wgt U (init c seeds) false <= 8 * length U + 1)%nat).
  { unfold wgt. assert (recq (init c seeds) = []) as -> by reflexivity. cbn [length]. lia. }
  destruct (drive_terminates c U E Ha Hf fuel (init c seeds) false (init_inv c seeds Hl)
              (init_cands_in c U seeds Hs)) as [A B]; [lia |].
  subst es. split; [exact A | split; [| lia]].
  apply (proj2 (one_terminal c seeds _)). exact A.
Qed.

(* ------------------------------------------------------------------ several queries in one engine *)

Lemma nth_error_upd_same : forall A (l : list A) i x y,
  nth_error l i = Some y -> nth_error (upd i x l) i = Some x.
Proof.
  induction l as [| h t IH]; intros i x y H; destruct i; cbn in *; try discriminate; [reflexivity |].
  eapply IH. exact H.
Qed.

Lemma nth_error_upd_other : forall A (l : list A) i j x, i <> j -> nth_error (upd j x l) i = nth_error l i.
Proof.
  induction l as [| h t IH]; intros i j x H; destruct j, i; cbn; try reflexivity; try congruence.
  apply IH. congruence.
Qed.

Lemma run_app_fst : forall c l1 l2 s, fst (run c s (l1 ++ l2)) = fst (run c (fst (run c s l1)) l2).
Proof.
  intros c l1. induction l1 as [| e t IH]; intros l2 s; [reflexivity |].
  change ((e :: t) ++ l2) with (e :: (t ++ l2)). rewrite !run_cons_fst. apply IH.
Qed.

Lemma events_of_app : forall i l1 l2, events_of i (l1 ++ l2) = events_of i l1 ++ events_of i l2.
Proof. intros. unfold events_of. rewrite filter_app, map_app. reflexivity. Qed.

Lemma events_of_seq : forall i now n k,
  events_of i (map (fun j => (j, ENext now)) (seq k n)) =
  if Nat.leb k i && Nat.ltb i (k + n)%nat then [ENext now] else [].
Proof.
  intros i now n. induction n as [| n IH]; intros k; cbn [seq map].
  - unfold events_of. cbn [filter map]. destruct (Nat.leb_spec k i), (Nat.ltb_spec i (k + 0)); cbn [andb]; try reflexivity; lia.
  - unfold events_of in *. cbn [filter fst]. destruct (Nat.eqb_spec k i) as [E | E].
    + subst k. cbn [map snd]. rewrite IH.
      destruct (Nat.leb_spec (S i) i); [lia |]. cbn [andb].
      destruct (Nat.leb_spec i i); [| lia]. destruct (Nat.ltb_spec i (i + S n)); [reflexivity | lia].
    + rewrite IH.
      destruct (Nat.leb_spec (S k) i), (Nat.leb_spec k i), (Nat.ltb_spec i (S k + n)), (Nat.ltb_spec i (k + S n));
        cbn [andb]; try reflexivity; lia.
Qed.

Lemma scan_nth : forall now eng i c s,
  nth_error eng i = Some (c, s) ->
  nth_error (fst (fst (scan now eng))) i =
  Some (c, if Nat.ltb i (snd (scan now eng)) then fst (next_action c s now) else s).
Proof.
  intros now eng. induction eng as [| [c0 s0] t IH]; intros i c s H; [destruct i; discriminate H |].
  cbn [scan]. destruct (next_action c0 s0 now) as [s' a] eqn:En.
  destruct i as [| j].
  - cbn [nth_error] in H. injection H as <- <-. rewrite En.
    destruct a; try (cbn; reflexivity). destruct (scan now t) as [[t' a'] n]. cbn. reflexivity.
  - cbn [nth_error] in H. specialize (IH j c s H).
    destruct a; try (cbn [fst snd nth_error]; rewrite H; destruct j; reflexivity).
    destruct (scan now t) as [[t' a'] n]. cbn [fst snd nth_error] in *. rewrite IH.
    change (Nat.ltb (S j) (S n)) with (Nat.ltb j n). reflexivity.
Qed.

Lemma mstep_query : forall eng m i c s,
  nth_error eng i = Some (c, s) ->
  nth_error (fst (fst (mstep eng m))) i = Some (c, fst (run c s (events_of i (snd (mstep eng m))))).
Proof.
  intros eng m i c s H. destruct m as [now ch | q e]; cbn [mstep].
  - destruct ch as [| pch].
    + pose proof (scan_nth now eng i c s H) as G. destruct (scan now eng) as [[eng' a] n]. cbn [fst snd] in *.
      rewrite G, events_of_seq. cbn [Nat.leb andb]. rewrite Nat.add_0_l.
      destruct (Nat.ltb i n); cbn [run]; [| reflexivity].
      destruct (step c s (ENext now)) as [s1 a1] eqn:Es. cbn [step] in Es. rewrite Es. reflexivity.
    + set (j := N.to_nat (N.pos pch - 1)). destruct (nth_error eng j) as [[cj sj] |] eqn:Ej.
      * destruct (next_action cj sj now) as [s' a] eqn:En. cbn [fst snd]. unfold events_of. cbn [filter fst].
        destruct (Nat.eqb_spec j i) as [E | E].
        -- subst i. rewrite H in Ej. injection Ej as <- <-. rewrite (nth_error_upd_same _ eng j _ _ H).
           cbn [map snd run step]. rewrite En. reflexivity.
        -- rewrite nth_error_upd_other by congruence. cbn [map run fst]. exact H.
      * cbn [fst snd]. unfold events_of. cbn. exact H.
  - set (j := N.to_nat q). destruct (nth_error eng j) as [[cj sj] |] eqn:Ej.
    + destruct (step cj sj e) as [s' a] eqn:En. cbn [fst snd]. unfold events_of. cbn [filter fst].
      destruct (Nat.eqb_spec j i) as [E | E].
      * subst i. rewrite H in Ej. injection Ej as <- <-. rewrite (nth_error_upd_same _ eng j _ _ H).
        cbn [map snd run]. rewrite En. reflexivity.
      * rewrite nth_error_upd_other by congruence. cbn [map run fst]. exact H.
    + cbn [fst snd]. unfold events_of. cbn. exact H.
Qed.

(* every query of a multi-query engine evolves exactly as if it were alone, driven by the
   sub-sequence of events that reached it *)
Lemma queries_independent : forall ms eng i c s,
  nth_error eng i = Some (c, s) ->
  nth_error (fst (mrun eng ms)) i = Some (c, fst (run c s (events_of i (snd (mrun eng ms))))).
Proof.
  induction ms as [| m t IH]; intros eng i c s H; cbn [mrun]; [cbn; exact H |].
  pose proof (mstep_query eng m i c s H) as G.
  destruct (mstep eng m) as [[eng1 a] lg]. cbn [fst snd] in G.
  specialize (IH eng1 i c _ G). destruct (mrun eng1 t) as [eng2 lg2]. cbn [fst snd] in *.
  rewrite IH, events_of_app, run_app_fst. reflexivity.
Qed.

(* next_peer_action hands out a message only for a peer that next_action has already sent the
   request to and that is still outstanding *)
Lemma peer_msg_sent : forall c seeds es p,
  dist_inj c -> ~ In (c_local c) seeds ->
  let s := fst (grun c (init c seeds) (ghost0 seeds) es) in
  let g := snd (grun c (init c seeds) (ghost0 seeds) es) in
  peer_msg s p = true -> In p (g_sent g) /\ In p (map fst (pend s)) /\ done s = false.
Proof.
  intros c seeds es p Hinj Hl s g H. destruct (reach_inv c seeds es Hinj Hl) as [Hi Hg].
  unfold peer_msg in H. pose proof (effective_pend s p H) as Hp.
  split; [apply (gi_sent _ _ _ Hg); left; exact Hp | split; [exact Hp |]].
  unfold effective in H. destruct (done s); [discriminate H | reflexivity].
Qed.

Definition env_fail_all : env :=
  mkEnv (fun _ => 0)
        (fun idle s => if idle then match pend s with x :: _ => Some (fst x, None) | [] => None end else None).

Lemma env_fail_all_fair : forall U, fair U env_fail_all.
Proof.
  intros U idle s _. unfold env_fail_all. cbn [e_move]. destruct idle; [| left; reflexivity].
  destruct (pend s) as [| x t]; [right; reflexivity |]. split; [left; reflexivity | exact I].
Qed.

(* ------------------------------------------------------------------ what a terminal action means *)

Lemma is_done_true : forall s, is_done s = true -> pend s = [] /\ cands s = [].
Proof.
  intros s. unfold is_done. destruct (pend s); [| discriminate]. destruct (cands s); [auto | discriminate].
Qed.

Lemma schedule_not_terminal : forall c s now, is_terminal (snd (schedule c s now)) = false.
Proof. intros c s now. unfold schedule. destruct (cands s) as [| [d q] t]; reflexivity. Qed.

Lemma failed_cond : forall c s now,
  snd (next_action c s now) = AFailed ->
  pend s = [] /\ cands s = [] /\
  match c_kind c with
  | KFind => resps s = []
  | KRecord => c_known c + found s = 0
  | KProviders => c_kprov c ++ provs s = []
  end.
Proof.
  intros c s now. unfold next_action. destruct (done s); [discriminate |]. destruct (c_kind c).
  - unfold next_find. destruct (is_done s) eqn:Ed.
    + destruct (is_done_true s Ed) as [A B]. destruct (resps s); unfold finish; cbn [snd]; [auto | discriminate].
    + cbn [pr set_pr]. destruct (count_fresh (c_timeout c) now (pend s) =? c_alpha c); [cbn [snd]; discriminate |].
      cbn [resps set_pr]. destruct (N.of_nat (length (resps s)) <? c_k c).
      { intros H. pose proof (schedule_not_terminal c (set_pr s (count_fresh (c_timeout c) now (pend s))) now) as X.
        rewrite H in X. discriminate X. }
      cbn [cands set_pr]. destruct (cands s) as [| [cd cp] ct]; [unfold finish; cbn [snd]; discriminate |].
      destruct (last_opt (resps s)) as [[wd wp] |]; [| unfold finish; cbn [snd]; discriminate].
      destruct (c_dist c cp <? wd); [| unfold finish; cbn [snd]; discriminate].
      intros H. pose proof (schedule_not_terminal c (set_pr s (count_fresh (c_timeout c) now (pend s))) now) as X.
      rewrite H in X. discriminate X.
  - unfold next_record. destruct (recq s) as [| [q r] t]; [| cbn [snd]; discriminate].
    destruct (is_done s) eqn:Ed.
    + destruct (is_done_true s Ed) as [A B]. destruct (N.eqb_spec (c_known c + found s) 0); unfold finish; cbn [snd]; [auto | discriminate].
    + destruct (c_needed c <=? c_known c + found s); [unfold finish; cbn [snd]; discriminate |].
      destruct (N.of_nat (length (pend s)) =? c_alpha c); [cbn [snd]; discriminate |].
      intros H. pose proof (schedule_not_terminal c s now) as X. rewrite H in X. discriminate X.
  - unfold next_providers. destruct (is_done s) eqn:Ed.
    + destruct (is_done_true s Ed) as [A B]. destruct (c_kprov c ++ provs s); unfold finish; cbn [snd]; [auto | discriminate].
    + destruct (N.of_nat (length (pend s)) =? c_alpha c); [cbn [snd]; discriminate |].
      intros H. pose proof (schedule_not_terminal c s now) as X. rewrite H in X. discriminate X.
Qed.

Lemma recdone_cond : forall c s now,
  snd (next_action c s now) = ARecDone ->
  c_kind c = KRecord /\ recq s = [] /\
  (c_needed c <= c_known c + found s \/
   (pend s = [] /\ cands s = [] /\ c_known c + found s <> 0)).
Proof.
  intros c s now. unfold next_action. destruct (done s); [discriminate |]. destruct (c_kind c).
  - unfold next_find. destruct (is_done s).
    + destruct (resps s); unfold finish; cbn [snd]; discriminate.
    + cbn [pr set_pr]. destruct (count_fresh (c_timeout c) now (pend s) =? c_alpha c); [cbn [snd]; discriminate |].
      cbn [resps set_pr]. destruct (N.of_nat (length (resps s)) <? c_k c).
      { intros H. pose proof (schedule_not_terminal c (set_pr s (count_fresh (c_timeout c) now (pend s))) now) as X.
        rewrite H in X. discriminate X. }
      cbn [cands set_pr]. destruct (cands s) as [| [cd cp] ct]; [unfold finish; cbn [snd]; discriminate |].
      destruct (last_opt (resps s)) as [[wd wp] |]; [| unfold finish; cbn [snd]; discriminate].
      destruct (c_dist c cp <? wd); [| unfold finish; cbn [snd]; discriminate].
      intros H. pose proof (schedule_not_terminal c (set_pr s (count_fresh (c_timeout c) now (pend s))) now) as X.
      rewrite H in X. discriminate X.
  - unfold next_record. destruct (recq s) as [| [q r] t]; [| cbn [snd]; discriminate].
    destruct (is_done s) eqn:Ed.
    + destruct (is_done_true s Ed) as [A B]. destruct (N.eqb_spec (c_known c + found s) 0); unfold finish; cbn [snd]; [discriminate |].
      intros _. split; [reflexivity | split; [reflexivity |]]. right. auto.
    + destruct (N.leb_spec (c_needed c) (c_known c + found s)) as [L | L].
      * unfold finish; cbn [snd]. intros _. split; [reflexivity | split; [reflexivity |]]. left. exact L.
      * destruct (N.of_nat (length (pend s)) =? c_alpha c); [cbn [snd]; discriminate |].
        intros H. pose proof (schedule_not_terminal c s now) as X. rewrite H in X. discriminate X.
  - unfold next_providers. destruct (is_done s).
    + destruct (c_kprov c ++ provs s); unfold finish; cbn [snd]; discriminate.
    + destruct (N.of_nat (length (pend s)) =? c_alpha c); [cbn [snd]; discriminate |].
      intros H. pose proof (schedule_not_terminal c s now) as X. rewrite H in X. discriminate X.
Qed.

Lemma provdone_cond : forall c s now l,
  snd (next_action c s now) = AProvDone l -> pend s = [] /\ cands s = [].
Proof.
  intros c s now l. unfold next_action. destruct (done s); [discriminate |]. destruct (c_kind c).
  - unfold next_find. destruct (is_done s).
    + destruct (resps s); unfold finish; cbn [snd]; discriminate.
    + cbn [pr set_pr]. destruct (count_fresh (c_timeout c) now (pend s) =? c_alpha c); [cbn [snd]; discriminate |].
      cbn [resps set_pr]. destruct (N.of_nat (length (resps s)) <? c_k c).
      { intros H. pose proof (schedule_not_terminal c (set_pr s (count_fresh (c_timeout c) now (pend s))) now) as X.
        rewrite H in X. discriminate X. }
      cbn [cands set_pr]. destruct (cands s) as [| [cd cp] ct]; [unfold finish; cbn [snd]; discriminate |].
      destruct (last_opt (resps s)) as [[wd wp] |]; [| unfold finish; cbn [snd]; discriminate].
      destruct (c_dist c cp <? wd); [| unfold finish; cbn [snd]; discriminate].
      intros H. pose proof (schedule_not_terminal c (set_pr s (count_fresh (c_timeout c) now (pend s))) now) as X.
      rewrite H in X. discriminate X.
  - unfold next_record. destruct (recq s) as [| [q r] t]; [| cbn [snd]; discriminate].
    destruct (is_done s).
    + destruct (c_known c + found s =? 0); unfold finish; cbn [snd]; discriminate.
    + destruct (c_needed c <=? c_known c + found s); [unfold finish; cbn [snd]; discriminate |].
      destruct (N.of_nat (length (pend s)) =? c_alpha c); [cbn [snd]; discriminate |].
      intros H. pose proof (schedule_not_terminal c s now) as X. rewrite H in X. discriminate X.
  - unfold next_providers. destruct (is_done s) eqn:Ed.
    + intros _. apply is_done_true. exact Ed.
    + destruct (N.of_nat (length (pend s)) =? c_alpha c); [cbn [snd]; discriminate |].
      intros H. pose proof (schedule_not_terminal c s now) as X. rewrite H in X. discriminate X.
Qed.

Lemma exhausted_intro : forall c s g,
  ginv c s g -> pend s = [] -> cands s = [] -> exhausted_at c s g.
Proof.
  intros c s g Hg Hp Hc. split; [exact Hp |]. intros p Hk Hl.
  apply (gi_sent _ _ _ Hg). destruct (gi_known _ _ _ Hg p Hk) as [X | [X | X]]; [contradiction | | exact X].
  rewrite Hc in X. destruct X.
Qed.

Lemma reach_all : forall c seeds es,
  dist_inj c -> ~ In (c_local c) seeds ->
  let s := fst (grun c (init c seeds) (ghost0 seeds) es) in
  let g := snd (grun c (init c seeds) (ghost0 seeds) es) in
  Inv c s /\ ginv c s g /\ winv c s g.
Proof.
  intros c seeds es Hinj Hl s g. destruct (reach_inv c seeds es Hinj Hl) as [Hi Hg].
  split; [exact Hi | split; [exact Hg |]].
  apply grun_winv; [exact Hinj | apply init_inv; exact Hl | apply init_ginv; exact Hinj |].
  intros _ q' [].
Qed.

(* QueryFailed: everybody the lookup learned of was tried, nothing is outstanding, and nothing at
   all was obtained *)
Lemma failed_reach : forall c seeds es now,
  dist_inj c -> ~ In (c_local c) seeds ->
  let s := fst (grun c (init c seeds) (ghost0 seeds) es) in
  let g := snd (grun c (init c seeds) (ghost0 seeds) es) in
  snd (next_action c s now) = AFailed ->
  exhausted_at c s g /\
  match c_kind c with
  | KFind => g_answered g = [] \/ c_k c = 0
  | KRecord => c_known c = 0 /\ g_got g = []
  | KProviders => c_kprov c = [] /\ g_provs g = []
  end.
Proof.
  intros c seeds es now Hinj Hl s g Ha. destruct (reach_all c seeds es Hinj Hl) as [Hi [Hg Hw]].
  destruct (failed_cond c s now Ha) as [Hp [Hc Hk]].
  split; [apply exhausted_intro; assumption |].
  destruct (c_kind c) eqn:Ek.
  - destruct (g_answered g) as [| q t] eqn:Ea; [left; reflexivity | right].
    assert (X : In q (g_answered (snd (grun c (init c seeds) (ghost0 seeds) es)))) by (fold g; rewrite Ea; left; reflexivity).
    destruct (Hw Ek q X) as [Y _]; [fold s; rewrite Hk; intros [] |].
    fold s in Y. rewrite Hk in Y. cbn [length] in Y. lia.
  - pose proof (gi_found _ _ _ Hg Ek) as Hf. fold s g in Hf.
    assert (c_known c = 0 /\ length (g_got g) = 0%nat) as [A B] by lia.
    split; [exact A | destruct (g_got g); [reflexivity | discriminate B]].
  - pose proof (gi_provs _ _ _ Hg Ek) as Hpv. fold s g in Hpv. rewrite Hpv in Hk.
    apply app_eq_nil in Hk. exact Hk.
Qed.

(* GetRecordQueryDone: the quorum is really met (local record counted once), or everybody was
   tried and at least one record exists *)
Lemma recdone_reach : forall c seeds es now,
  dist_inj c -> ~ In (c_local c) seeds ->
  let s := fst (grun c (init c seeds) (ghost0 seeds) es) in
  let g := snd (grun c (init c seeds) (ghost0 seeds) es) in
  snd (next_action c s now) = ARecDone ->
  c_needed c <= c_known c + N.of_nat (length (g_got g)) \/
  (exhausted_at c s g /\ 1 <= c_known c + N.of_nat (length (g_got g))).
Proof.
  intros c seeds es now Hinj Hl s g Ha. destruct (reach_all c seeds es Hinj Hl) as [Hi [Hg Hw]].
  destruct (recdone_cond c s now Ha) as [Hk [Hr H]].
  pose proof (gi_found _ _ _ Hg Hk) as Hf. fold s g in Hf.
  destruct H as [H | [Hp [Hc H]]]; [left; lia | right].
  split; [apply exhausted_intro; assumption | lia].
Qed.

Lemma provdone_reach : forall c seeds es now l,
  dist_inj c -> ~ In (c_local c) seeds ->
  let s := fst (grun c (init c seeds) (ghost0 seeds) es) in
  let g := snd (grun c (init c seeds) (ghost0 seeds) es) in
  snd (next_action c s now) = AProvDone l -> exhausted_at c s g.
Proof.
  intros c seeds es now l Hinj Hl s g Ha. destruct (reach_all c seeds es Hinj Hl) as [Hi [Hg Hw]].
  destruct (provdone_cond c s now l Ha) as [Hp Hc]. apply exhausted_intro; assumption.
Qed.

Definition cknown (s : state) (g : ghost) : Prop := forall x, In x (cands s) -> In (snd x) (g_known g).

Lemma cknown_step : forall c s g e,
  cknown s g -> cknown (fst (step c s e)) (gstep c s g e (snd (step c s e))).
Proof.
  intros c s g e H. unfold cknown in *. destruct e as [now | p r | p | p]; cbn [step fst snd].
  - pose proof (next_action_shape c s now) as Hs. destruct (next_action c s now) as [s' a]. cbn [fst snd] in *.
    cbn [gstep g_known].
    destruct Hs as [[A _] _ | d p t _ Ec A | p r _ _ _ A | a _ _ _ [A _]]; rewrite A; try exact H.
    intros x Hx. apply H. rewrite Ec. right. exact Hx.
  - cbn [gstep]. destruct (effective s p) eqn:He; [| rewrite on_response_noeff; assumption].
    destruct (on_response_eff c s p r He) as [_ [_ [C _]]]. rewrite C. cbn [g_known].
    apply add_cands_in.
    + intros q Hq. apply in_app_iff. right. exact Hq.
    + intros x Hx. apply in_app_iff. left. apply H. exact Hx.
  - cbn [gstep]. destruct (effective s p) eqn:He; [| rewrite on_failure_noeff; assumption].
    destruct (on_failure_eff c s p He) as [_ [_ [C _]]]. rewrite C. exact H.
  - exact H.
Qed.

Lemma cknown_reach : forall c seeds es,
  cknown (fst (grun c (init c seeds) (ghost0 seeds) es)) (snd (grun c (init c seeds) (ghost0 seeds) es)).
Proof.
  intros c seeds es.
  assert (G : forall es s g, cknown s g -> cknown (fst (grun c s g es)) (snd (grun c s g es))).
  { intros es0. induction es0 as [| e t IH]; intros s g H; cbn [grun]; [exact H |].
    pose proof (cknown_step c s g e H) as H1. destruct (step c s e) as [s1 a]. cbn [fst snd] in H1. apply IH. exact H1. }
  apply G. unfold cknown, ghost0. cbn [g_known]. apply (init_cands_in c seeds seeds). auto.
Qed.

(* every request goes to the closest peer the lookup knows of and has not contacted yet *)
Lemma send_closest_reach : forall c seeds es now p,
  dist_inj c -> ~ In (c_local c) seeds ->
  let s := fst (grun c (init c seeds) (ghost0 seeds) es) in
  let g := snd (grun c (init c seeds) (ghost0 seeds) es) in
  snd (next_action c s now) = ASend p ->
  In p (g_known g) /\ ~ In p (g_sent g) /\ p <> c_local c /\
  forall q, In q (g_known g) -> q <> c_local c -> ~ In q (g_sent g) -> c_dist c p <= c_dist c q.
Proof.
  intros c seeds es now p Hinj Hl s g Ha. destruct (reach_all c seeds es Hinj Hl) as [Hi [Hg Hw]].
  fold s g in Hi, Hg.
  pose proof (next_action_shape c s now) as Hs. rewrite Ha in Hs.
  inversion Hs as [| d p' t Hd Ec A B C D E0 F G0 Hd' | |]; subst.
  2:{ match goal with H : is_terminal (ASend p) = true |- _ => discriminate H end. }
  unfold Inv in Hi. rewrite Ec in Hi.
  destruct (i_cfresh _ _ _ _ Hi (d, p) (or_introl eq_refl)) as [Hp [Hq Hloc]]. cbn [snd] in Hp, Hq, Hloc.
  pose proof (i_dist _ _ _ _ Hi (d, p) (or_introl eq_refl)) as Hd0. cbn [fst snd] in Hd0.
  pose proof (i_sorted _ _ _ _ Hi) as Hso. cbn [ssorted] in Hso. destruct Hso as [Hso _].
  split; [| split; [| split; [exact Hloc |]]].
  - (* p was learned: it is a candidate, and candidates come from seeds and replies *)
    apply (cknown_reach c seeds es (d, p)). fold s. rewrite Ec. left. reflexivity.
  - intros X. apply (gi_sent _ _ _ Hg) in X. tauto.
  - intros q Hk Hnl Hns.
    destruct (gi_known _ _ _ Hg q Hk) as [X | [X | X]]; [contradiction | |].
    + rewrite Ec in X. cbn [map snd In] in X. destruct X as [X | X]; [subst q; lia |].
      apply in_map_iff in X. destruct X as [y [Ey Hy]]. subst q.
      specialize (Hso y Hy). cbn [fst] in Hso.
      pose proof (i_dist _ _ _ _ Hi y (or_intror Hy)). lia.
    + exfalso. apply Hns. apply (gi_sent _ _ _ Hg). exact X.
Qed.

(* ------------------------------------------------------------------ closest responsive peers *)

Lemma dsorted_nodup : forall c l, dsorted c l -> NoDup l.
Proof.
  intros c l. induction l as [| a t IH]; intros H; [constructor |].
  cbn [dsorted] in H. destruct H as [H1 H2]. constructor; [| apply IH; exact H2].
  intros X. specialize (H1 a X). lia.
Qed.

Lemma dsorted_ext : forall c l1 l2,
  dsorted c l1 -> dsorted c l2 -> (forall x, In x l1 <-> In x l2) -> l1 = l2.
Proof.
  intros c l1. induction l1 as [| a t IH]; intros l2 H1 H2 He.
  - destruct l2 as [| b t2]; [reflexivity |]. exfalso. apply (He b). left. reflexivity.
  - destruct l2 as [| b t2]; [exfalso; apply (He a); left; reflexivity |].
    cbn [dsorted] in H1, H2. destruct H1 as [A1 A2], H2 as [B1 B2].
    assert (a = b).
    { destruct (N.eq_dec a b) as [E | E]; [exact E | exfalso].
      assert (X : In a t2). { destruct (proj1 (He a) (or_introl eq_refl)) as [Y | Y]; [congruence | exact Y]. }
      assert (Y : In b t). { destruct (proj2 (He b) (or_introl eq_refl)) as [Z | Z]; [congruence | exact Z]. }
      specialize (A1 b Y). specialize (B1 a X). lia. }
    subst b. f_equal. apply IH; [exact A2 | exact B2 |].
    intros x. split; intros Hx.
    + destruct (proj1 (He x) (or_intror Hx)) as [Y | Y]; [| exact Y]. subst x. specialize (A1 a Hx). lia.
    + destruct (proj2 (He x) (or_intror Hx)) as [Y | Y]; [| exact Y]. subst x. specialize (B1 a Hx). lia.
Qed.

(* "the k closest of ans" determines the list *)
Lemma kclosest_unique : forall c k ans l1 l2,
  kclosest c k ans l1 -> kclosest c k ans l2 -> l1 = l2.
Proof.
  intros c k ans l1 l2 [A1 [A2 [A3 A4]]] [B1 [B2 [B3 B4]]].
  apply (dsorted_ext c); [exact A2 | exact B2 |].
  assert (G : forall la lb,
            (forall p, In p la -> In p ans) -> (forall p, In p lb -> In p ans) ->
            N.of_nat (length la) <= k -> dsorted c lb ->
            (forall q, In q ans -> ~ In q lb ->
               N.of_nat (length lb) = k /\ forall w, In w lb -> c_dist c w < c_dist c q) ->
            (forall q, In q ans -> ~ In q la ->
               N.of_nat (length la) = k /\ forall w, In w la -> c_dist c w < c_dist c q) ->
            forall x, In x la -> In x lb).
  { intros la lb Ha Hb0 Hla Hsb Hb Hcl x Hx.
    destruct (in_dec N.eq_dec x lb) as [Y | Y]; [exact Y | exfalso].
    destruct (Hb x (Ha x Hx) Y) as [Lb Cb].
    (* if every w of lb were in la then, lb being duplicate-free and at least as long, la would be
       included in lb *)
    assert (I : incl la lb).
    { apply (NoDup_length_incl (dsorted_nodup c lb Hsb)); [lia |].
      intros w Hw. destruct (in_dec N.eq_dec w la) as [Z | Z]; [exact Z | exfalso].
      destruct (Hcl w (Hb0 w Hw) Z) as [_ Ca]. specialize (Ca x Hx). specialize (Cb w Hw). lia. }
    apply Y. apply I. exact Hx. }
  intros x. split; intros Hx.
  - apply (G l1 l2); assumption.
  - apply (G l2 l1); assumption.
Qed.

(* FIND_NODE-type success (also the lookup phase of PUT_VALUE and ADD_PROVIDER): the reported list
   is exactly the k closest of all peers that responded; and every other peer the lookup learned
   of that is closer than the furthest reported one was contacted and did not respond *)
Lemma closest_responsive_reach : forall c seeds es now l,
  dist_inj c -> ~ In (c_local c) seeds -> c_kind c = KFind ->
  let s := fst (grun c (init c seeds) (ghost0 seeds) es) in
  let g := snd (grun c (init c seeds) (ghost0 seeds) es) in
  snd (next_action c s now) = AFound l ->
  kclosest c (c_k c) (g_answered g) l /\
  (forall p w, In p (g_known g) -> p <> c_local c -> ~ In p l -> last_opt l = Some w ->
               c_dist c p < c_dist c w -> In p (g_sent g) /\ ~ In p (g_answered g)).
Proof.
  intros c seeds es now l Hinj Hl Hk s g Ha.
  destruct (find_result_reach c seeds es now l Hinj Hl Hk Ha) as [R1 [R2 [R3 R4]]].
  pose proof (find_topk_reach c seeds es now l Hinj Hl Hk Ha) as R5. fold s g in R1, R4, R5.
  split; [split; [exact R1 | split; [exact R2 | split; [exact R3 | exact R5]]] |].
  intros p w Hp Hnl Hnin Hw Hlt. split; [apply (R4 p w); assumption |].
  intros X. destruct (R5 p X Hnin) as [_ Y]. specialize (Y w (last_opt_In _ _ _ Hw)). lia.
Qed.

Lemma found_nonempty : forall c s now l,
  1 <= c_k c -> c_kind c = KFind -> snd (next_action c s now) = AFound l -> l <> [].
Proof.
  intros c s now l Hk1 Hk. unfold next_action. destruct (done s); [discriminate |]. rewrite Hk.
  unfold next_find. destruct (is_done s).
  - destruct (resps s) eqn:Er; unfold finish; cbn [snd]; intros H; [discriminate |].
    injection H as <-. cbn [map]. discriminate.
  - cbn [pr set_pr]. destruct (count_fresh (c_timeout c) now (pend s) =? c_alpha c); [cbn [snd]; discriminate |].
    cbn [resps set_pr]. destruct (N.ltb_spec (N.of_nat (length (resps s))) (c_k c)) as [L | L].
    { intros H. exfalso. eapply schedule_not_found. exact H. }
    assert (NE : map snd (resps s) <> []).
    { destruct (resps s); [cbn [length] in L; lia | cbn [map]; discriminate]. }
    cbn [cands set_pr]. destruct (cands s) as [| [cd cp] ct].
    + unfold finish. cbn [snd resps]. intros H. injection H as <-. exact NE.
    + destruct (last_opt (resps s)) as [[wd wp] |].
      * destruct (c_dist c cp <? wd).
        { intros H. exfalso. eapply schedule_not_found. exact H. }
        unfold finish. cbn [snd resps]. intros H. injection H as <-. exact NE.
      * unfold finish. cbn [snd resps]. intros H. injection H as <-. exact NE.
Qed.

(* Interface for the send phase (C16): what PutRecordToFoundNodes / AddProviderToFoundNodes /
   FindNodeQuerySucceeded hand over *)
Lemma lookup_interface : forall c seeds es now l,
  dist_inj c -> ~ In (c_local c) seeds -> c_kind c = KFind ->
  let s := fst (grun c (init c seeds) (ghost0 seeds) es) in
  let g := snd (grun c (init c seeds) (ghost0 seeds) es) in
  snd (next_action c s now) = AFound l ->
  NoDup l /\ ~ In (c_local c) l /\ N.of_nat (length l) <= c_k c /\
  (forall p, In p l -> In p (g_answered g) /\ In p (g_sent g)) /\
  kclosest c (c_k c) (g_answered g) l /\
  (1 <= c_k c -> l <> []).
Proof.
  intros c seeds es now l Hinj Hl Hk s g Ha.
  destruct (closest_responsive_reach c seeds es now l Hinj Hl Hk Ha) as [K _]. fold s g in K.
  destruct (reach_all c seeds es Hinj Hl) as [Hi [Hg _]]. fold s g in Hi, Hg.
  destruct K as [K1 [K2 [K3 K4]]].
  assert (S : forall p, In p l -> In p (queried s)) by (intros p Hp; apply (gi_ans _ _ _ Hg); apply K1; exact Hp).
  split; [apply (dsorted_nodup c); exact K2 | split; [| split; [exact K3 | split; [| split]]]].
  - intros X. apply (i_qlocal _ _ _ _ Hi). apply S. exact X.
  - intros p Hp. split; [apply K1; exact Hp | apply (gi_sent _ _ _ Hg); right; apply S; exact Hp].
  - split; [exact K1 | split; [exact K2 | split; [exact K3 | exact K4]]].
  - intros Hk1. apply (found_nonempty c s now l Hk1 Hk Ha).
Qed.

(* ------------------------------------------------------------------ isolation of queries *)

Lemma peq_refl : forall s, peq s s.
Proof. intros s. unfold peq. repeat split; reflexivity. Qed.

Lemma peq_sym : forall s s', peq s s' -> peq s' s.
Proof. intros s s' H. unfold peq in *. decompose [and] H. repeat split; congruence. Qed.

Lemma peq_trans : forall a b d, peq a b -> peq b d -> peq a d.
Proof. intros a b d H1 H2. unfold peq in *. decompose [and] H1. decompose [and] H2. repeat split; congruence. Qed.

Lemma peq_set_pr : forall s s', peq s s' -> s' = set_pr s (pr s').
Proof.
  intros s s' H. unfold peq in H. decompose [and] H. destruct s, s'. cbn in *. unfold set_pr. cbn. congruence.
Qed.

Lemma next_none_peq : forall c s now, snd (next_action c s now) = ANone -> peq s (fst (next_action c s now)).
Proof.
  intros c s now H. pose proof (next_action_shape c s now) as Hs. rewrite H in Hs.
  inversion Hs as [H7 Hd | | |]; subst.
  - destruct H7 as [A [B [C [D [E [F G]]]]]]. unfold peq. repeat split; assumption.
  - match goal with X : is_terminal ANone = true |- _ => discriminate X end.
Qed.

Ltac crush_if :=
  repeat match goal with
         | |- context [if ?b then _ else _] => destruct b
         | |- context [match ?x with _ => _ end] => destruct x
         end.

Lemma next_action_set_pr : forall c s n now,
  peq (fst (next_action c s now)) (fst (next_action c (set_pr s n) now)) /\
  snd (next_action c s now) = snd (next_action c (set_pr s n) now).
Proof.
  intros c s n now. destruct s as [cs pd qd rs p0 fd rq pv dn].
  unfold next_action, set_pr. cbn [done cands pend queried resps pr found recq provs].
  destruct dn; [split; [unfold peq; cbn; repeat split; reflexivity | reflexivity] |].
  destruct (c_kind c) eqn:Ek.
  - unfold next_find, is_done, set_pr, finish, schedule.
    cbn [done cands pend queried resps pr found recq provs]. rewrite ?Ek.
    crush_if; cbn [fst snd]; (split; [unfold peq; cbn; repeat split; reflexivity | reflexivity]).
  - unfold next_record, is_done, finish, schedule.
    cbn [done cands pend queried resps pr found recq provs]. rewrite ?Ek.
    crush_if; cbn [fst snd]; (split; [unfold peq; cbn; repeat split; reflexivity | reflexivity]).
  - unfold next_providers, is_done, finish, schedule.
    cbn [done cands pend queried resps pr found recq provs]. rewrite ?Ek.
    crush_if; cbn [fst snd]; (split; [unfold peq; cbn; repeat split; reflexivity | reflexivity]).
Qed.

Lemma on_response_set_pr : forall c s n p r, peq (on_response c s p r) (on_response c (set_pr s n) p r).
Proof.
  intros c s n p r. destruct s as [cs pd qd rs p0 fd rq pv dn].
  unfold on_response, set_pr. cbn [done cands pend queried resps pr found recq provs].
  crush_if; unfold peq; cbn; repeat split; reflexivity.
Qed.

Lemma on_failure_set_pr : forall c s n p, peq (on_failure c s p) (on_failure c (set_pr s n) p).
Proof.
  intros c s n p. destruct s as [cs pd qd rs p0 fd rq pv dn].
  unfold on_failure, set_pr. cbn [done cands pend queried resps pr found recq provs].
  crush_if; unfold peq; cbn; repeat split; reflexivity.
Qed.

(* the behaviour of a query does not depend on the value of `pr` *)
Lemma step_peq : forall c s s' e,
  peq s s' -> peq (fst (step c s e)) (fst (step c s' e)) /\ snd (step c s e) = snd (step c s' e).
Proof.
  intros c s s' e H. rewrite (peq_set_pr s s' H). destruct e as [now | p r | p | p]; cbn [step fst snd].
  - apply next_action_set_pr.
  - split; [apply on_response_set_pr | reflexivity].
  - split; [apply on_failure_set_pr | reflexivity].
  - split; [| reflexivity]. unfold peq, set_pr. cbn. repeat split; reflexivity.
Qed.

(* dropping the polls that returned nothing changes neither the final state (up to `pr`) nor the
   visible actions *)
Lemma essential_equiv : forall c es s s',
  peq s s' ->
  peq (fst (run c s es)) (fst (run c s' (essential c s es))) /\
  visible (snd (run c s es)) = visible (snd (run c s' (essential c s es))).
Proof.
  intros c es. induction es as [| e t IH]; intros s s' H; cbn [run essential]; [split; [exact H | reflexivity] |].
  destruct (step_peq c s s' e H) as [P1 P2].
  destruct (step c s e) as [s1 a] eqn:Es. cbn [fst snd] in P1, P2.
  assert (Drop : (exists now, e = ENext now) /\ a = ANone ->
                 peq (fst (let '(s2, l) := run c s1 t in (s2, a :: l))) (fst (run c s' (essential c s1 t))) /\
                 visible (snd (let '(s2, l) := run c s1 t in (s2, a :: l))) = visible (snd (run c s' (essential c s1 t)))).
  { intros [[now En] Ea]. subst e.
    assert (Q : peq s1 s').
    { apply (peq_trans _ s); [| exact H]. apply peq_sym.
      pose proof (next_none_peq c s now) as X. cbn [step] in Es. rewrite Es in X. cbn [fst snd] in X. apply X. exact Ea. }
    destruct (IH s1 s' Q) as [A B]. destruct (run c s1 t) as [s2 l]. cbn [fst snd] in *.
    split; [exact A |]. rewrite Ea. exact B. }
  assert (Keep : peq (fst (let '(s2, l) := run c s1 t in (s2, a :: l))) (fst (run c s' (e :: essential c s1 t))) /\
                 visible (snd (let '(s2, l) := run c s1 t in (s2, a :: l))) = visible (snd (run c s' (e :: essential c s1 t)))).
  { cbn [run]. destruct (step c s' e) as [s1' a'] eqn:Es'. cbn [fst snd] in P1, P2. subst a'.
    destruct (IH s1 s1' P1) as [A B]. destruct (run c s1 t) as [s2 l]. destruct (run c s1' (essential c s1 t)) as [s2' l'].
    cbn [fst snd] in *. split; [exact A |]. unfold visible in *. cbn [filter]. rewrite B. reflexivity. }
  destruct e as [now | p r | p | p]; try exact Keep.
  destruct a; try exact Keep. apply Drop. split; [exists now; reflexivity | reflexivity].
Qed.

(* Isolation: in a shared engine, whatever the polling order and however often the other queries
   (or this one, without effect) are polled, query i ends — up to the write-before-read counter
   `pr` — in the state it reaches alone on its own essential events; an event that does not
   reach query i leaves it untouched *)
Lemma query_isolation : forall ms eng i c s,
  nth_error eng i = Some (c, s) ->
  exists s', nth_error (fst (mrun eng ms)) i = Some (c, s') /\
             peq s' (fst (run c s (essential c s (events_of i (snd (mrun eng ms)))))).
Proof.
  intros ms eng i c s H. pose proof (queries_independent ms eng i c s H) as G.
  eexists. split; [exact G |]. apply essential_equiv. apply peq_refl.
Qed.

Lemma mstep_frame : forall eng m i c s,
  nth_error eng i = Some (c, s) -> events_of i (snd (mstep eng m)) = [] ->
  nth_error (fst (fst (mstep eng m))) i = Some (c, s).
Proof.
  intros eng m i c s H E. pose proof (mstep_query eng m i c s H) as G. rewrite E in G. exact G.
Qed.

(* two runs of a shared engine (different polling orders, different traffic for the other
   queries) that bring the same essential events to query i leave it in the same state *)
Lemma order_irrelevant : forall ms1 ms2 eng1 eng2 i c s,
  nth_error eng1 i = Some (c, s) -> nth_error eng2 i = Some (c, s) ->
  essential c s (events_of i (snd (mrun eng1 ms1))) = essential c s (events_of i (snd (mrun eng2 ms2))) ->
  exists s1 s2, nth_error (fst (mrun eng1 ms1)) i = Some (c, s1) /\
                nth_error (fst (mrun eng2 ms2)) i = Some (c, s2) /\ peq s1 s2.
Proof.
  intros ms1 ms2 eng1 eng2 i c s H1 H2 E.
  destruct (query_isolation ms1 eng1 i c s H1) as [s1 [A1 B1]].
  destruct (query_isolation ms2 eng2 i c s H2) as [s2 [A2 B2]].
  exists s1, s2. split; [exact A1 | split; [exact A2 |]].
  rewrite E in B1. apply (peq_trans _ _ _ B1). apply peq_sym. exact B2.
Qed.

(* ------------------------------------------------------------------ timed termination *)

Lemma unvisited_resolve : forall c U s s' p,
  Inv c s -> In p (map fst (pend s)) ->
  pend s' = premove p (pend s) -> queried s' = set_add p (queried s) ->
  unvisited U s' = unvisited U s.
Proof.
  intros c U s s' p Hi Hp A B. unfold unvisited. rewrite A, B. apply filter_ext_len. intros x _. f_equal.
  destruct (N.eq_dec x p) as [E | E].
  - subst x. assert (X : mem p (set_add p (queried s)) = true) by (apply mem_In, set_add_In; left; reflexivity).
    assert (Y : pmem p (pend s) = true) by (apply pmem_In; exact Hp).
    rewrite X, Y, orb_true_r. reflexivity.
  - assert (X : pmem x (premove p (pend s)) = pmem x (pend s)).
    { destruct (pmem x (pend s)) eqn:Z.
      - apply pmem_In. apply premove_fst. split; [apply pmem_In; exact Z | exact E].
      - apply pmem_false. intros W. apply premove_fst in W. apply pmem_false in Z. tauto. }
    assert (Y : mem x (set_add p (queried s)) = mem x (queried s)).
    { destruct (mem x (queried s)) eqn:Z.
      - apply mem_In, set_add_In. right. apply mem_In. exact Z.
      - apply mem_false. intros W. apply set_add_In in W. apply mem_false in Z. tauto. }
    rewrite X, Y. reflexivity.
Qed.

Lemma unvisited_send : forall c U s s' d p t now,
  Inv c s -> cands_in U s -> cands s = (d, p) :: t ->
  pend s' = premove p (pend s) ++ [(p, now)] -> queried s' = queried s ->
  (unvisited U s' < unvisited U s)%nat /\ pend s' = pend s ++ [(p, now)].
Proof.
  intros c U s s' d p t now Hi Hc Ec B C. unfold Inv in Hi. rewrite Ec in Hi.
  destruct (i_cfresh _ _ _ _ Hi (d, p) (or_introl eq_refl)) as [Hp [Hq _]]. cbn [snd] in Hp, Hq.
  assert (HU : In p U) by (apply (Hc (d, p)); rewrite Ec; left; reflexivity).
  split; [| rewrite B, (premove_notin p (pend s) Hp); reflexivity].
  unfold unvisited. rewrite B, C. apply (filter_drop_len _ _ U p HU).
  - apply pmem_false in Hp. apply mem_false in Hq. rewrite Hp, Hq. reflexivity.
  - assert (X : pmem p (premove p (pend s) ++ [(p, now)]) = true).
    { apply pmem_In. rewrite map_app, in_app_iff. right. left. reflexivity. }
    rewrite X. reflexivity.
  - intros x Hx. apply negb_true_iff in Hx. apply orb_false_elim in Hx. destruct Hx as [X1 X2].
    rewrite X2. apply pmem_false in X1. rewrite (premove_notin p (pend s) Hp), map_app, in_app_iff in X1.
    assert (Y : pmem x (pend s) = false) by (apply pmem_false; tauto). rewrite Y. reflexivity.
Qed.

Definition slack (T now : N) (x : N * N) : nat := (N.to_nat T + 1 - N.to_nat (now - snd x))%nat.
Fixpoint psum (T now : N) (pd : list (N * N)) : nat :=
  match pd with [] => O | x :: t => (slack T now x + psum T now t)%nat end.
Definition phi (U : list N) (T now : N) (s : state) : nat :=
  ((N.to_nat T + 1) * unvisited U s + psum T now (pend s))%nat.
Definition freshp (T now : N) (s : state) : Prop :=
  forall x, In x (pend s) -> snd x <= now /\ now - snd x <= T.
Definition msr (U : list N) (s : state) : nat := (mu U s + length (recq s))%nat.

Lemma psum_filter : forall T now f l, (psum T now (filter f l) <= psum T now l)%nat.
Proof.
  intros T now f l. induction l as [| x t IH]; cbn [filter psum]; [lia |].
  destruct (f x); cbn [psum]; lia.
Qed.

Lemma psum_app : forall T now l1 l2, psum T now (l1 ++ l2) = (psum T now l1 + psum T now l2)%nat.
Proof. intros T now l1 l2. induction l1 as [| x t IH]; cbn [app psum]; [reflexivity | rewrite IH; lia]. Qed.

Lemma psum_age : forall T now l,
  (forall x, In x l -> snd x <= now /\ now - snd x <= T) ->
  (psum T (now + 1) l + length l = psum T now l)%nat.
Proof.
  intros T now l. induction l as [| x t IH]; intros H; cbn [psum length]; [reflexivity |].
  destruct (H x (or_introl eq_refl)) as [A B].
  assert (IHt : (psum T (now + 1) t + length t = psum T now t)%nat) by (apply IH; intros y Hy; apply H; right; exact Hy).
  unfold slack. lia.
Qed.

Lemma psum_pos : forall T now l,
  (forall x, In x l -> snd x <= now /\ now - snd x <= T) -> l <> [] -> (1 <= psum T now l)%nat.
Proof.
  intros T now l H Hn. destruct l as [| x t]; [congruence |]. cbn [psum].
  destruct (H x (or_introl eq_refl)) as [A B]. unfold slack. lia.
Qed.

(* events other than next_action calls *)
Definition quiet (e : event) : Prop := match e with ENext _ => False | _ => True end.

Definition fsub (l' l : list (N * N)) : Prop := exists f, l' = filter f l.

Lemma fsub_refl : forall l, fsub l l.
Proof.
  intros l. exists (fun _ => true). induction l as [| x t IH]; cbn [filter]; [reflexivity | f_equal; exact IH].
Qed.

Lemma fsub_trans : forall a b d, fsub a b -> fsub b d -> fsub a d.
Proof.
  intros a b d [f Hf] [g Hg]. exists (fun x => g x && f x). subst a b.
  induction d as [| x t IH]; cbn [filter]; [reflexivity |].
  destruct (g x); cbn [filter andb]; [destruct (f x); [f_equal |]; exact IH | exact IH].
Qed.

Lemma quiet_step : forall c U s e,
  Inv c s -> cands_in U s -> ev_in U e -> quiet e ->
  let s' := fst (step c s e) in
  Inv c s' /\ cands_in U s' /\ fsub (pend s') (pend s) /\
  unvisited U s' = unvisited U s /\ (msr U s' <= msr U s)%nat /\ done s' = done s.
Proof.
  intros c U s e Hi Hc He Hq s'. subst s'.
  split; [apply step_inv; exact Hi | split; [apply cands_in_step; assumption |]].
  destruct e as [now | p r | p | p]; [destruct Hq | | |]; cbn [step fst].
  - destruct (effective s p) eqn:Hf.
    2:{ rewrite on_response_noeff by exact Hf. split; [apply fsub_refl | split; [reflexivity | split; [lia | reflexivity]]]. }
    destruct (on_response_eff c s p r Hf) as [A [B [_ [D [D0 [_ [_ F]]]]]]].
    pose proof (effective_pend s p Hf) as Hp.
    pose proof (unvisited_resolve c U s (on_response c s p r) p Hi Hp A B) as L.
    pose proof (premove_length_lt p (pend s) Hp) as L2.
    assert (R : (length (recq (on_response c s p r)) <= length (recq s) + 1)%nat).
    { unfold rec_update in F. destruct (c_kind c); try (injection F as _ F2; rewrite F2; lia).
      destruct (r_rec r) as [[id [|]] |]; injection F as _ F2; rewrite F2; try lia.
      rewrite app_length. cbn [length]. lia. }
    split; [rewrite A; exists (fun x => negb (fst x =? p)); reflexivity |].
    split; [exact L | split; [| congruence]]. unfold msr, mu. rewrite L, A. lia.
  - destruct (effective s p) eqn:Hf.
    2:{ rewrite on_failure_noeff by exact Hf. split; [apply fsub_refl | split; [reflexivity | split; [lia | reflexivity]]]. }
    destruct (on_failure_eff c s p Hf) as [A [B [_ [D [D0 [_ [_ [_ F]]]]]]]].
    pose proof (effective_pend s p Hf) as Hp.
    pose proof (unvisited_resolve c U s (on_failure c s p) p Hi Hp A B) as L.
    pose proof (premove_length_lt p (pend s) Hp) as L2.
    split; [rewrite A; exists (fun x => negb (fst x =? p)); reflexivity |].
    split; [exact L | split; [| congruence]]. unfold msr, mu. rewrite L, A, F. lia.
  - split; [apply fsub_refl | split; [reflexivity | split; [lia | reflexivity]]].
Qed.

Lemma quiet_run : forall c U es s,
  Inv c s -> cands_in U s -> Forall (ev_in U) es -> Forall quiet es ->
  let s' := fst (run c s es) in
  Inv c s' /\ cands_in U s' /\ fsub (pend s') (pend s) /\
  unvisited U s' = unvisited U s /\ (msr U s' <= msr U s)%nat /\ done s' = done s.
Proof.
  intros c U es. induction es as [| e t IH]; intros s Hi Hc He Hq; cbn zeta.
  - cbn [run fst]. split; [exact Hi | split; [exact Hc | split; [apply fsub_refl | split; [reflexivity | split; [lia | reflexivity]]]]].
  - inversion He as [| e1 t1 He1 He2]; subst. inversion Hq as [| e2 t2 Hq1 Hq2]; subst.
    destruct (quiet_step c U s e Hi Hc He1 Hq1) as [A [B [C [D [E F]]]]].
    rewrite run_cons_fst. destruct (IH (fst (step c s e)) A B He2 Hq2) as [A' [B' [C' [D' [E' F']]]]].
    split; [exact A' | split; [exact B' | split; [eapply fsub_trans; eassumption | split; [congruence | split; [lia | congruence]]]]].
Qed.

Lemma mono_app : forall l1 l2 n, mono n l1 -> mono (clock n l1) l2 -> mono n (l1 ++ l2).
Proof.
  induction l1 as [| e t IH]; intros l2 n H1 H2; [exact H2 |].
  destruct e as [t0 | p r | p | p]; cbn [app mono clock] in *.
  - destruct H1 as [A B]. split; [exact A | apply IH; assumption].
  - apply IH; assumption.
  - apply IH; assumption.
  - apply IH; assumption.
Qed.

Lemma clock_app : forall l1 l2 n, clock n (l1 ++ l2) = clock (clock n l1) l2.
Proof.
  induction l1 as [| e t IH]; intros l2 n; [reflexivity |].
  destruct e; cbn [app clock]; apply IH.
Qed.

Lemma quiet_mono : forall l n, Forall quiet l -> mono n l /\ clock n l = n.
Proof.
  induction l as [| e t IH]; intros n H; [split; [exact I | reflexivity] |].
  inversion H as [| e1 t1 H1 H2]; subst. destruct e; [destruct H1 | | |]; cbn [mono clock]; apply IH; exact H2.
Qed.

(* the poll phase: next_action is called until it has nothing more to do *)
Lemma poll_spec : forall c U T now,
  1 <= c_alpha c ->
  forall pf s,
  Inv c s -> cands_in U s -> freshp T now s ->
  let ep := poll_events pf c s now in
  let s1 := fst (run c s ep) in
  Inv c s1 /\ cands_in U s1 /\ freshp T now s1 /\
  (phi U T now s1 <= phi U T now s)%nat /\ (msr U s1 <= msr U s)%nat /\
  mono now ep /\ clock now ep = now /\
  ((msr U s < pf)%nat -> done s1 = true \/ (done s1 = false /\ pend s1 <> [])).
Proof.
  intros c U T now Ha pf. induction pf as [| f IH]; intros s Hi Hc Hf; cbn zeta.
  - cbn [poll_events run fst mono clock].
    split; [exact Hi | split; [exact Hc | split; [exact Hf | split; [lia | split; [lia | split; [exact I | split; [reflexivity | intros; lia]]]]]]].
  - cbn [poll_events]. destruct (done s) eqn:Hd.
    { cbn [run fst mono clock].
      split; [exact Hi | split; [exact Hc | split; [exact Hf | split; [lia | split; [lia | split; [exact I | split; [reflexivity |]]]]]]].
      intros _. left. exact Hd. }
    pose proof (next_action_shape c s now) as Hs.
    pose proof (step_inv c s (ENext now) Hi) as Hi'. pose proof (cands_in_step c U s (ENext now) I Hc) as Hc'.
    pose proof (progress c s now Ha Hd) as Hpr.
    cbn [step fst] in Hi', Hc'.
    destruct (next_action c s now) as [s1 a] eqn:En. cbn [fst snd] in *.
    destruct Hs as [[A0 [B0 [C0 [D0 [E0 [F0 G0]]]]]] Hd1 | d p t _ Ec A0 B0 C0 D0 E0 F0 G0 Hd1 | p r _ _ F0 A0 B0 C0 D0 E0 G0 Hd1 | a Ht _ Hd1 [A0 [B0 [C0 [D0 [E0 [F0 G0]]]]]]].
    + (* nothing to do *)
      cbn [run step]. rewrite En. cbn [fst mono clock].
      assert (P : phi U T now s1 = phi U T now s) by (unfold phi, unvisited; rewrite B0, C0; reflexivity).
      assert (M : msr U s1 = msr U s) by (unfold msr, mu, unvisited; rewrite B0, C0, F0; reflexivity).
      split; [exact Hi' | split; [exact Hc' | split; [unfold freshp; rewrite B0; exact Hf |]]].
      split; [lia | split; [lia | split; [split; [lia | exact I] | split; [reflexivity |]]]].
      intros _. right. split; [congruence |]. rewrite B0. intros X. apply (Hpr X). reflexivity.
    + (* a request is sent *)
      destruct (unvisited_send c U s s1 d p t now Hi Hc Ec B0 C0) as [L1 L2].
      assert (Hf1 : freshp T now s1).
      { unfold freshp. rewrite L2. intros x Hx. apply in_app_iff in Hx. destruct Hx as [Hx | [Hx | []]]; [apply Hf; exact Hx |].
        subst x. cbn [snd]. lia. }
      assert (P : (phi U T now s1 <= phi U T now s)%nat).
      { unfold phi. rewrite L2, psum_app. cbn [psum]. unfold slack. cbn [snd]. nia. }
      assert (M : (msr U s1 < msr U s)%nat).
      { unfold msr, mu. rewrite L2, app_length, F0. cbn [length]. lia. }
      destruct (IH s1 Hi' Hc' Hf1) as [X1 [X2 [X3 [X4 [X5 [X6 [X7 X8]]]]]]].
      rewrite run_cons_fst. cbn [step]. rewrite En. cbn [fst mono clock].
      split; [exact X1 | split; [exact X2 | split; [exact X3 | split; [lia | split; [lia | split; [split; [lia | exact X6] | split; [exact X7 |]]]]]]].
      intros Hlt. apply X8. lia.
    + (* a partial result *)
      assert (Hf1 : freshp T now s1) by (unfold freshp; rewrite B0; exact Hf).
      assert (P : phi U T now s1 = phi U T now s) by (unfold phi, unvisited; rewrite B0, C0; reflexivity).
      assert (M : (msr U s1 < msr U s)%nat).
      { unfold msr, mu, unvisited. rewrite B0, C0, F0. cbn [length]. lia. }
      destruct (IH s1 Hi' Hc' Hf1) as [X1 [X2 [X3 [X4 [X5 [X6 [X7 X8]]]]]]].
      rewrite run_cons_fst. cbn [step]. rewrite En. cbn [fst mono clock].
      split; [exact X1 | split; [exact X2 | split; [exact X3 | split; [lia | split; [lia | split; [split; [lia | exact X6] | split; [exact X7 |]]]]]]].
      intros Hlt. apply X8. lia.
    + (* the terminal action *)
      assert (Hnil : poll_events f c s1 now = []) by (destruct f; cbn [poll_events]; [reflexivity | rewrite Hd1; reflexivity]).
      assert (Hev : (ENext now :: match a with ANone => [] | _ => poll_events f c s1 now end) = [ENext now]).
      { destruct a; try discriminate Ht; rewrite Hnil; reflexivity. }
      rewrite Hev. cbn [run step]. rewrite En. cbn [fst mono clock].
      assert (P : phi U T now s1 = phi U T now s) by (unfold phi, unvisited; rewrite B0, C0; reflexivity).
      assert (M : msr U s1 = msr U s) by (unfold msr, mu, unvisited; rewrite B0, C0, F0; reflexivity).
      split; [exact Hi' | split; [exact Hc' | split; [unfold freshp; rewrite B0; exact Hf |]]].
      split; [lia | split; [lia | split; [split; [lia | exact I] | split; [reflexivity |]]]].
      intros _. left. exact Hd1.
Qed.

Lemma fsub_In : forall l' l x, fsub l' l -> In x l' -> In x l.
Proof. intros l' l x [f Hf] H. subst l'. apply filter_In in H. apply H. Qed.

Lemma fsub_psum : forall T now l' l, fsub l' l -> (psum T now l' <= psum T now l)%nat.
Proof. intros T now l' l [f Hf]. subst l'. apply psum_filter. Qed.

Lemma fsub_nil : forall l', fsub l' [] -> l' = [].
Proof. intros l' [f Hf]. exact Hf. Qed.

Lemma fail_removes : forall c U es s p,
  Inv c s -> cands_in U s -> Forall (ev_in U) es -> Forall quiet es -> done s = false ->
  In (EFail p) es -> ~ In p (map fst (pend (fst (run c s es)))).
Proof.
  intros c U es. induction es as [| e t IH]; intros s p Hi Hc He Hq Hd Hin; [destruct Hin |].
  inversion He as [| e1 t1 He1 He2]; subst. inversion Hq as [| e2 t2 Hq1 Hq2]; subst.
  destruct (quiet_step c U s e Hi Hc He1 Hq1) as [A [B [C [_ [_ F]]]]].
  rewrite run_cons_fst. destruct Hin as [Hin | Hin].
  - subst e. cbn [step fst] in *.
    destruct (quiet_run c U t (on_failure c s p) A B He2 Hq2) as [_ [_ [C' _]]].
    intros X. apply in_map_iff in X. destruct X as [x [Ex Hx]]. apply (fsub_In _ _ _ C') in Hx.
    destruct (effective s p) eqn:Hf.
    + destruct (on_failure_eff c s p Hf) as [A1 _]. rewrite A1 in Hx. apply premove_In in Hx. destruct Hx as [_ Hx]. congruence.
    + rewrite on_failure_noeff in Hx by exact Hf. unfold effective in Hf. rewrite Hd in Hf. cbn [negb andb] in Hf.
      apply pmem_false in Hf. apply Hf. apply in_map_iff. exists x. split; assumption.
  - apply (IH (fst (step c s e)) p A B He2 Hq2); [congruence | exact Hin].
Qed.

Lemma mono_weaken : forall l n n', n <= n' -> mono n' l -> mono n l.
Proof.
  induction l as [| e t IH]; intros n n' H Hm; [exact I |].
  destruct e; cbn [mono] in *; [destruct Hm as [A B]; split; [lia | exact B] | | |]; eapply IH; eassumption.
Qed.

Lemma clock_start_le : forall l n n', n <= n' -> clock n l <= clock n' l.
Proof.
  induction l as [| e t IH]; intros n n' H; [exact H |].
  destruct e; cbn [clock]; [lia | | |]; apply IH; exact H.
Qed.

Lemma expire_quiet : forall T now pd U, Forall quiet (expire_events T now pd) /\ Forall (ev_in U) (expire_events T now pd).
Proof.
  intros T now pd U. unfold expire_events. split; apply Forall_forall; intros e He;
    apply in_map_iff in He; destruct He as [x [Ex _]]; subst e; exact I.
Qed.

Lemma net_quiet : forall U E now s, net_in U E ->
  Forall quiet (map net_event (t_net E now s)) /\ Forall (ev_in U) (map net_event (t_net E now s)).
Proof.
  intros U E now s Hn. split; apply Forall_forall; intros e He; apply in_map_iff in He;
    destruct He as [x [Ex Hx]]; subst e; unfold net_event; destruct (snd x) as [r |] eqn:Er; cbn; try exact I.
  intros q Hq. apply (Hn now s x r Hx Er q Hq).
Qed.

Lemma tdrive_spec : forall c U E T pf,
  1 <= c_alpha c -> net_in U E ->
  forall ticks s now,
  Inv c s -> cands_in U s -> freshp T now s -> (msr U s < pf)%nat -> (phi U T now s < ticks)%nat ->
  let es := tdrive ticks pf c E T now s in
  done (fst (run c s es)) = true /\ mono now es /\
  (N.to_nat (clock now es) <= N.to_nat now + phi U T now s)%nat.
Proof.
  intros c U E T pf Ha Hn ticks. induction ticks as [| k IH]; intros s now Hi Hc Hf Hm Hp; [lia |].
  cbn [tdrive]. destruct (done s) eqn:Hd.
  { cbn [run fst mono clock]. split; [exact Hd | split; [exact I | lia]]. }
  destruct (poll_spec c U T now Ha pf s Hi Hc Hf) as [Hi1 [Hc1 [Hf1 [P1 [M1 [Mo1 [Ck1 Alive]]]]]]].
  set (ep := poll_events pf c s now) in *. set (s1 := fst (run c s ep)) in *.
  destruct (Alive Hm) as [Hd1 | [Hd1 Hne1]].
  { rewrite Hd1. fold s1. split; [exact Hd1 | split; [exact Mo1 | rewrite Ck1; lia]]. }
  rewrite Hd1.
  set (en := map net_event (t_net E now s1)). destruct (net_quiet U E now s1 Hn) as [Qn En]. fold en in Qn, En.
  destruct (quiet_run c U en s1 Hi1 Hc1 En Qn) as [Hi2 [Hc2 [S2 [U2 [M2 D2]]]]].
  set (s2 := fst (run c s1 en)) in *.
  set (ex := expire_events T (now + 1) (pend s2)). destruct (expire_quiet T (now + 1) (pend s2) U) as [Qx Ex]. fold ex in Qx, Ex.
  destruct (quiet_run c U ex s2 Hi2 Hc2 Ex Qx) as [Hi3 [Hc3 [S3 [U3 [M3 D3]]]]].
  set (s3 := fst (run c s2 ex)) in *.
  assert (Hf2 : freshp T now s2) by (intros x Hx; apply Hf1; apply (fsub_In _ _ _ S2); exact Hx).
  assert (Hd2 : done s2 = false) by congruence.
  assert (Hf3 : freshp T (now + 1) s3).
  { intros x Hx. pose proof (fsub_In _ _ _ S3 Hx) as Hx2. destruct (Hf2 x Hx2) as [A B]. split; [lia |].
    destruct (N.ltb_spec T (now + 1 - snd x)) as [L | L]; [exfalso | exact L].
    assert (Hin : In (EFail (fst x)) ex).
    { unfold ex, expire_events. apply in_map_iff. exists x. split; [reflexivity |]. apply filter_In. split; [exact Hx2 |].
      unfold expired. apply N.ltb_lt. exact L. }
    apply (fail_removes c U ex s2 (fst x) Hi2 Hc2 Ex Qx Hd2 Hin). fold s3. apply in_map_iff. exists x. split; [reflexivity | exact Hx]. }
  assert (P3 : (phi U T (now + 1) s3 < phi U T now s1)%nat).
  { unfold phi. rewrite U3, U2.
    pose proof (fsub_psum T (now + 1) _ _ S3) as X1.
    pose proof (psum_age T now (pend s2) Hf2) as X2.
    pose proof (fsub_psum T now _ _ S2) as X3.
    destruct (pend s2) as [| y t2] eqn:E2.
    - apply fsub_nil in S3. rewrite S3. cbn [psum].
      pose proof (psum_pos T now (pend s1) Hf1 Hne1). lia.
    - cbn [length] in X2. lia. }
  assert (Hm3 : (msr U s3 < pf)%nat) by lia.
  assert (Hp3 : (phi U T (now + 1) s3 < k)%nat) by lia.
  destruct (IH s3 (now + 1) Hi3 Hc3 Hf3 Hm3 Hp3) as [R1 [R2 R3]].
  set (rest := tdrive k pf c E T (now + 1) s3) in *.
  destruct (quiet_mono en now Qn) as [Mn Cn]. destruct (quiet_mono ex now Qx) as [Mx Cx].
  split; [| split].
  - rewrite run_app_fst. fold s1. rewrite run_app_fst. fold s2. rewrite run_app_fst. fold s3. exact R1.
  - apply mono_app; [exact Mo1 |]. rewrite Ck1. apply mono_app; [exact Mn |]. rewrite Cn.
    apply mono_app; [exact Mx |]. rewrite Cx. apply (mono_weaken rest now (now + 1)); [lia | exact R2].
  - rewrite clock_app, Ck1, clock_app, Cn, clock_app, Cx.
    pose proof (clock_start_le rest now (now + 1)). lia.
Qed.

(* Termination without any assumption on the peers: whatever the network does (answer, lie, fail,
   stay silent for ever), a lookup over a universe of n peers whose requests are failed after T
   time units is over after at most (T+1)*n time units, with exactly one terminal action *)
Lemma timed_termination : forall c U E T seeds ticks pf,
  1 <= c_alpha c -> ~ In (c_local c) seeds -> (forall p, In p seeds -> In p U) -> net_in U E ->
  (2 * length U + 1 <= pf)%nat -> ((N.to_nat T + 1) * length U + 1 <= ticks)%nat ->
  let es := tdrive ticks pf c E T 0 (init c seeds) in
  done (fst (run c (init c seeds) es)) = true /\
  length (terminals (snd (run c (init c seeds) es))) = 1%nat /\
  mono 0 es /\
  (N.to_nat (clock 0 es) <= (N.to_nat T + 1) * length U)%nat.
Proof.
  intros c U E T seeds ticks pf Ha Hl Hs Hn Hpf Hticks es.
  pose proof (mu_init c U seeds) as M.
  assert (Hu : (unvisited U (init c seeds) <= length U)%nat) by (unfold unvisited; apply filter_len_le).
  assert (P0 : (phi U T 0 (init c seeds) <= (N.to_nat T + 1) * length U)%nat).
  { unfold phi. assert (pend (init c seeds) = []) as -> by reflexivity. cbn [psum]. nia. }
  assert (M0 : (msr U (init c seeds) <= 2 * length U)%nat).
  { unfold msr. assert (recq (init c seeds) = []) as -> by reflexivity. cbn [length]. lia. }
  destruct (tdrive_spec c U E T pf Ha Hn ticks (init c seeds) 0 (init_inv c seeds Hl) (init_cands_in c U seeds Hs)) as [A [B C]].
  - intros x [].
  - lia.
  - lia.
  - fold es in A, B, C. split; [exact A | split; [apply (proj2 (one_terminal c seeds es)); exact A | split; [exact B | lia]]].
Qed.

(* ------------------------------------------------------------------ a request is resolved once; late answers *)

Lemma queried_grows : forall c es s p, In p (queried s) -> In p (queried (fst (run c s es))).
Proof.
  intros c es. induction es as [| e t IH]; intros s p H; [exact H |].
  rewrite run_cons_fst. apply IH. destruct e as [now | q r | q | q]; cbn [step fst].
  - pose proof (next_action_shape c s now) as Hs. destruct (next_action c s now) as [s' a]. cbn [fst snd] in *.
    destruct Hs as [[_ [_ [C _]]] _ | d p' t' _ _ _ _ C | p' r' _ _ _ _ _ C | a _ _ _ [_ [_ [C _]]]]; rewrite C; exact H.
  - destruct (effective s q) eqn:He; [| rewrite on_response_noeff; assumption].
    destruct (on_response_eff c s q r He) as [_ [B _]]. rewrite B. apply set_add_In. right. exact H.
  - destruct (effective s q) eqn:He; [| rewrite on_failure_noeff; assumption].
    destruct (on_failure_eff c s q He) as [_ [B _]]. rewrite B. apply set_add_In. right. exact H.
  - exact H.
Qed.

Lemma run_inv : forall c es s, Inv c s -> Inv c (fst (run c s es)).
Proof.
  intros c es. induction es as [| e t IH]; intros s H; [exact H |].
  rewrite run_cons_fst. apply IH. apply step_inv. exact H.
Qed.

(* Once a request has been answered or failed (by the peer, by the executor's timeout, by a
   disconnect), nothing that arrives for that peer later has any effect: a late answer is ignored.
   (An answer that arrives after the engine's own peer timeout but before a failure is an ordinary
   answer: on_response does not look at the clock.) *)
Lemma resolved_once : forall c s p e es r,
  Inv c s -> effective s p = true -> (e = EFail p \/ exists r0, e = EResp p r0) ->
  let s1 := fst (run c (fst (step c s e)) es) in
  effective s1 p = false /\ on_response c s1 p r = s1 /\ on_failure c s1 p = s1.
Proof.
  intros c s p e es r Hi He Hev s1.
  assert (Hq : In p (queried (fst (step c s e)))).
  { destruct Hev as [-> | [r0 ->]]; cbn [step fst].
    - destruct (on_failure_eff c s p He) as [_ [B _]]. rewrite B. apply set_add_In. left. reflexivity.
    - destruct (on_response_eff c s p r0 He) as [_ [B _]]. rewrite B. apply set_add_In. left. reflexivity. }
  pose proof (queried_grows c es _ p Hq) as Hq1. fold s1 in Hq1.
  pose proof (run_inv c es _ (step_inv c s e Hi)) as Hi1. fold s1 in Hi1.
  assert (Hn : effective s1 p = false).
  { destruct (effective s1 p) eqn:X; [exfalso | reflexivity].
    destruct (i_pq _ _ _ _ Hi1 p (effective_pend s1 p X)) as [Y _]. contradiction. }
  split; [exact Hn | split; [apply on_response_noeff; exact Hn | apply on_failure_noeff; exact Hn]].
Qed.
