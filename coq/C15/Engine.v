(* C15 — the whole QueryEngine (src/protocol/libp2p/kademlia/query/mod.rs) over all eight query types.
   Definitions only; proofs are in EngineProofs.v.

   Model.v describes ONE lookup query. This file puts the engine around it:
   - `queries: HashMap<QueryId, QueryType>` with all eight variants of `enum QueryType`: the five lookups
     (FindNode, PutRecord, AddProvider on a FindNodeContext; GetRecord; GetProviders — their state is the
     `state` of Model.v and every call on them is one `step` of Model.v), PutRecordToPeers
     (find_many_nodes.rs: FindManyNodesContext) and the two send phases PutRecordToFoundNodes /
     AddProviderToFoundNodes (target_peers.rs: PutToTargetPeersContext);
   - every public entry point: the start_* functions (HashMap::insert: a start with a live id replaces
     that query), register_response with a message of ANY of the five `KademliaMessage` kinds (dispatch
     per query type: passed on as a response, or turned into a response failure), register_response_failure,
     register_send_success / register_send_failure, register_peer_failure (= send failure, then response
     failure), next_peer_action, next_action (on_query_succeeded / on_query_failed remove the query and
     map the context's verdict to the QueryAction variant of the query type);
   - the dispatch functions below are written by hand; `EngineProofs.dispatch_in_sync` proves by
     computation that they are exactly the tables tools/gen_c15_dispatch.py extracts from the Rust
     source on every check (coq/gen/KadDispatch.v).

   A lookup entry carries two ghost fields, never read by the engine: the seed list it was started with
   and the list of single-query events (Model.event) the engine has applied to it since. *)
From Coq Require Import List NArith Bool String.
From V.gen Require KadDispatch.
From V.C15 Require Import Model.
Import ListNotations.
Open Scope N_scope.

(* ---- enum QueryType, enum KademliaMessage (variants in source order) ---- *)
Inductive qtype :=
| TFindNode | TPutRecord | TPutRecordToPeers | TPutRecordToFoundNodes
| TGetRecord | TAddProvider | TAddProviderToFoundNodes | TGetProviders.

Definition all_qtypes : list qtype :=
  [TFindNode; TPutRecord; TPutRecordToPeers; TPutRecordToFoundNodes;
   TGetRecord; TAddProvider; TAddProviderToFoundNodes; TGetProviders].

Definition qtype_name (t : qtype) : string :=
  match t with
  | TFindNode => "FindNode" | TPutRecord => "PutRecord" | TPutRecordToPeers => "PutRecordToPeers"
  | TPutRecordToFoundNodes => "PutRecordToFoundNodes" | TGetRecord => "GetRecord"
  | TAddProvider => "AddProvider" | TAddProviderToFoundNodes => "AddProviderToFoundNodes"
  | TGetProviders => "GetProviders"
  end%string.

(* the context type behind each query type *)
Inductive ctx := CFindNode | CGetRecord | CGetProviders | CMany | CTarget.

Definition ctx_name (c : ctx) : string :=
  match c with
  | CFindNode => "FindNodeContext" | CGetRecord => "GetRecordContext"
  | CGetProviders => "GetProvidersContext" | CMany => "FindManyNodesContext"
  | CTarget => "PutToTargetPeersContext"
  end%string.

Definition ctx_of (t : qtype) : ctx :=
  match t with
  | TFindNode | TPutRecord | TAddProvider => CFindNode
  | TGetRecord => CGetRecord
  | TGetProviders => CGetProviders
  | TPutRecordToPeers => CMany
  | TPutRecordToFoundNodes | TAddProviderToFoundNodes => CTarget
  end.

Inductive mkind := MKFindNode | MKPutValue | MKGetRecord | MKAddProvider | MKGetProviders.

Definition all_mkinds : list mkind := [MKFindNode; MKPutValue; MKGetRecord; MKAddProvider; MKGetProviders].

Definition mkind_name (m : mkind) : string :=
  match m with
  | MKFindNode => "FindNode" | MKPutValue => "PutValue" | MKGetRecord => "GetRecord"
  | MKAddProvider => "AddProvider" | MKGetProviders => "GetProviders"
  end%string.

(* register_response: a message of kind mk is handed to the context as a response (true) or the call
   becomes context.register_response_failure (false) *)
Definition accepts (t : qtype) (mk : mkind) : bool :=
  match t, mk with
  | TFindNode, MKFindNode | TPutRecord, MKFindNode | TPutRecordToPeers, MKFindNode
  | TAddProvider, MKFindNode => true
  | TPutRecordToFoundNodes, MKPutValue => true
  | TGetRecord, MKGetRecord => true
  | TAddProviderToFoundNodes, MKAddProvider => true
  | TGetProviders, MKGetProviders => true
  | _, _ => false
  end.

(* next_peer_action asks the context (true) or answers None itself (false) *)
Definition peer_action_asks (t : qtype) : bool :=
  match ctx_of t with CTarget => false | _ => true end.

(* on_query_succeeded: the QueryAction variant a successful query of type t is turned into *)
Definition success_name (t : qtype) : string :=
  match t with
  | TFindNode => "FindNodeQuerySucceeded"
  | TPutRecord | TPutRecordToPeers => "PutRecordToFoundNodes"
  | TPutRecordToFoundNodes => "PutRecordQuerySucceeded"
  | TGetRecord => "GetRecordQueryDone"
  | TAddProvider => "AddProviderToFoundNodes"
  | TAddProviderToFoundNodes => "AddProviderQuerySucceeded"
  | TGetProviders => "GetProvidersQueryDone"
  end%string.

(* the request a lookup context sends (kad_message) *)
Definition req_of_ctx (c : ctx) : mkind :=
  match c with CGetRecord => MKGetRecord | CGetProviders => MKGetProviders | _ => MKFindNode end.
Definition req_of (t : qtype) : mkind := req_of_ctx (ctx_of t).
Definition req_ctor_name (m : mkind) : string :=
  match m with
  | MKFindNode => "find_node" | MKGetRecord => "get_record" | MKGetProviders => "get_providers_request"
  | MKPutValue => "put_value" | MKAddProvider => "add_provider"
  end%string.

(* ---- the tables of coq/gen/KadDispatch.v, as computed from the functions above ---- *)
Definition tbl_query_types : list (string * string) :=
  map (fun t => (qtype_name t, ctx_name (ctx_of t))) all_qtypes.
Definition tbl_message_kinds : list string := map mkind_name all_mkinds.
Definition tbl_response : list (string * list (string * string) * string) :=
  map (fun t => (qtype_name t,
                 map (fun m => (mkind_name m, "register_response"%string)) (filter (accepts t) all_mkinds),
                 "register_response_failure"%string)) all_qtypes.
Definition tbl_same (method : string) : list (string * string) :=
  map (fun t => (qtype_name t, method)) all_qtypes.
Definition tbl_response_failure := tbl_same "register_response_failure".
Definition tbl_send_failure := tbl_same "register_send_failure".
Definition tbl_send_success := tbl_same "register_send_success".
Definition tbl_next_action := tbl_same "next_action".
Definition tbl_peer_failure : list string := ["register_send_failure"; "register_response_failure"]%string.
Definition tbl_failed : string := "QueryFailed".
Definition tbl_peer_action : list (string * string) :=
  map (fun t => (qtype_name t, if peer_action_asks t then "next_peer_action" else "None")%string) all_qtypes.
Definition tbl_success : list (string * string) := map (fun t => (qtype_name t, success_name t)) all_qtypes.
Definition tbl_request : list (string * string) :=
  map (fun c => (ctx_name c, req_ctor_name (req_of_ctx c))) [CFindNode; CGetRecord; CGetProviders].
Definition tbl_quorum : list string := ["All"; "One"; "N"]%string.
Definition tbl_actions : list string :=
  ["SendMessage"; "FindNodeQuerySucceeded"; "PutRecordToFoundNodes"; "PutRecordQuerySucceeded";
   "AddProviderToFoundNodes"; "AddProviderQuerySucceeded"; "GetRecordQueryDone"; "GetRecordPartialResult";
   "GetProvidersQueryDone"; "QuerySucceeded"; "QueryFailed"]%string.

(* ---- engine state ---- *)
(* static configuration of the engine and the distance function of the case *)
Record gcfg := mkGc { g_k : N; g_alpha : N; g_timeout : N; g_local : N; g_dist : N -> N }.

(* a quorum is (tag, n): 0 All, 1 One, otherwise N(n) — the order of `enum Quorum` *)
Inductive qstate :=
| QL (t : qtype) (qtag qn : N) (c : cfg) (seeds : list N) (es : list event) (s : state)
| QM (qtag qn : N) (peers : list N)                      (* PutRecordToPeers: peers_to_report *)
| QT (t : qtype) (pd : list N) (succ need : N).          (* pending_peers, n_succeeded, peers_to_succeed *)

Definition xeng := list (N * qstate).

Fixpoint xget (q : N) (e : xeng) : option qstate :=
  match e with
  | [] => None
  | (q', x) :: t => if q' =? q then Some x else xget q t
  end.
Definition xdel (q : N) (e : xeng) : xeng := filter (fun kv => negb (fst kv =? q)) e.
Definition xset (q : N) (x : qstate) (e : xeng) : xeng := xdel q e ++ [(q, x)].
Definition xupd (q : N) (f : qstate -> qstate) (e : xeng) : xeng :=
  map (fun kv => if fst kv =? q then (fst kv, f (snd kv)) else kv) e.

Definition nremove (p : N) (l : list N) : list N := filter (fun x => negb (x =? p)) l.
Fixpoint dedup (l : list N) : list N :=
  match l with [] => [] | h :: t => h :: nremove h (dedup t) end.

(* GetRecordConfig::sufficient_records threshold *)
Definition needed_of (g : gcfg) (qtag qn : N) : N :=
  match qtag with 0 => g_k g | 1 => 1 | _ => qn end.
(* PutToTargetPeersContext::new: peers_to_succeed *)
Definition need_track (qtag qn len : N) : N :=
  match qtag with 0 => N.max len 1 | 1 => 1 | _ => N.min qn (N.max len 1) end.

Definition lookup_cfg (g : gcfg) (t : qtype) (qtag qn known : N) (kprov : list (N * list N)) : cfg :=
  match ctx_of t with
  | CGetRecord =>
      mkCfg KRecord (g_k g) (g_alpha g) (g_timeout g) (g_local g) (needed_of g qtag qn)
            (if known =? 0 then 0 else 1) [] (g_dist g)
  | CGetProviders =>
      mkCfg KProviders (g_k g) (g_alpha g) (g_timeout g) (g_local g) 0 0 kprov (g_dist g)
  | _ => mkCfg KFind (g_k g) (g_alpha g) (g_timeout g) (g_local g) 0 0 [] (g_dist g)
  end.

(* start_find_node / start_put_record / start_put_record_to_peers / start_get_record /
   start_add_provider / start_get_providers / start_*_to_found_nodes_requests_tracking *)
Definition start_q (g : gcfg) (t : qtype) (qtag qn known : N) (peers : list N)
           (kprov : list (N * list N)) : qstate :=
  match ctx_of t with
  | CMany => QM qtag qn peers
  | CTarget => QT t (dedup peers) 0 (need_track qtag qn (N.of_nat (List.length peers)))
  | _ => let c := lookup_cfg g t qtag qn known kprov in QL t qtag qn c peers [] (init c peers)
  end.

Inductive xevent :=
| XStart (q : N) (t : qtype) (qtag qn known : N) (peers : list N) (kprov : list (N * list N))
| XNext (now ch : N)              (* ch = 0: the engine returned None; q+1: the action came from query q *)
| XResp (q p : N) (mk : mkind) (r : reply)
| XFail (q p : N)
| XSendOk (q p : N)
| XSendFail (q p : N)
| XPeerFail (q p : N)
| XPeerAct (q p : N).

Inductive xaction :=
| XNone
| XSend (q p : N) (mk : mkind)
| XFailed (q : N)
| XFindNodeOk (q : N) (l : list N)
| XPutToFound (q : N) (l : list N) (qtag qn : N)
| XPutOk (q : N)
| XAddProvToFound (q : N) (l : list N) (qtag qn : N)
| XAddProvOk (q : N)
| XPartial (q p r : N)
| XRecDone (q : N)
| XProvDone (q : N) (l : list (N * list N))
| XPeerMsg (p : N) (mk : mkind).

Definition xterminal (a : xaction) : bool :=
  match a with XNone | XSend _ _ _ | XPartial _ _ _ | XPeerMsg _ _ => false | _ => true end.

(* the query an action of next_action belongs to *)
Definition about (a : xaction) : option N :=
  match a with
  | XNone | XPeerMsg _ _ => None
  | XSend q _ _ | XFailed q | XFindNodeOk q _ | XPutToFound q _ _ _ | XPutOk q
  | XAddProvToFound q _ _ _ | XAddProvOk q | XPartial q _ _ | XRecDone q | XProvDone q _ => Some q
  end.

Definition lift_action (q : N) (t : qtype) (qtag qn : N) (a : action) : xaction :=
  match a with
  | ANone => XNone
  | ASend p => XSend q p (req_of t)
  | AFailed => XFailed q
  | AFound l =>
      match t with
      | TPutRecord => XPutToFound q l qtag qn
      | TAddProvider => XAddProvToFound q l qtag qn
      | _ => XFindNodeOk q l
      end
  | APartial p r => XPartial q p r
  | ARecDone => XRecDone q
  | AProvDone l => XProvDone q l
  end.

(* one query polled by QueryEngine::next_action: new state (None = removed from `queries`), action *)
Definition poll (now q : N) (x : qstate) : option qstate * xaction :=
  match x with
  | QL t qtag qn c seeds es s =>
      let '(s', a) := next_action c s now in
      ((if is_terminal a then None else Some (QL t qtag qn c seeds (es ++ [ENext now]) s')),
       lift_action q t qtag qn a)
  | QM qtag qn peers => (None, XPutToFound q peers qtag qn)
  | QT t pd succ need =>
      match pd with
      | [] => (None, if need <=? succ
                     then match t with TAddProviderToFoundNodes => XAddProvOk q | _ => XPutOk q end
                     else XFailed q)
      | _ => (Some x, XNone)
      end
  end.

(* `for state in self.queries.values_mut()`: poll until one acts *)
Fixpoint xscan (now : N) (e : xeng) : xeng * xaction :=
  match e with
  | [] => ([], XNone)
  | (q, x) :: t =>
      match poll now q x with
      | (Some x', XNone) => let '(t', a) := xscan now t in ((q, x') :: t', a)
      | (Some x', a) => ((q, x') :: t, a)
      | (None, a) => (t, a)
      end
  end.

(* the context calls *)
Definition q_resp_fail (p : N) (x : qstate) : qstate :=
  match x with
  | QL t qtag qn c seeds es s => QL t qtag qn c seeds (es ++ [EFail p]) (on_failure c s p)
  | _ => x
  end.
Definition q_resp (p : N) (r : reply) (x : qstate) : qstate :=
  match x with
  | QL t qtag qn c seeds es s => QL t qtag qn c seeds (es ++ [EResp p r]) (on_response c s p r)
  | _ => x
  end.
Definition q_send_ok (p : N) (x : qstate) : qstate :=
  match x with
  | QT t pd succ need => if mem p pd then QT t (nremove p pd) (succ + 1) need else x
  | QL t qtag qn c seeds es s => QL t qtag qn c seeds (es ++ [ENoop p]) s
  | _ => x
  end.
Definition q_send_fail (p : N) (x : qstate) : qstate :=
  match x with
  | QT t pd succ need => QT t (nremove p pd) succ need
  | QL t qtag qn c seeds es s => QL t qtag qn c seeds (es ++ [ENoop p]) s
  | _ => x
  end.
Definition qtype_of (x : qstate) : qtype :=
  match x with QL t _ _ _ _ _ _ => t | QM _ _ _ => TPutRecordToPeers | QT t _ _ _ => t end.
(* QueryEngine::register_response *)
Definition q_message (p : N) (mk : mkind) (r : reply) (x : qstate) : qstate :=
  if accepts (qtype_of x) mk then q_resp p r x else q_resp_fail p x.

Definition xstep (g : gcfg) (e : xeng) (ev : xevent) : xeng * xaction :=
  match ev with
  | XStart q t qtag qn known peers kprov => (xset q (start_q g t qtag qn known peers kprov) e, XNone)
  | XNext now 0 => xscan now e
  | XNext now ch =>
      let q := ch - 1 in
      match xget q e with
      | Some x =>
          match poll now q x with
          | (Some x', a) => (xupd q (fun _ => x') e, a)
          | (None, a) => (xdel q e, a)
          end
      | None => (e, XNone)
      end
  | XResp q p mk r => (xupd q (q_message p mk r) e, XNone)
  | XFail q p => (xupd q (q_resp_fail p) e, XNone)
  | XSendOk q p => (xupd q (q_send_ok p) e, XNone)
  | XSendFail q p => (xupd q (q_send_fail p) e, XNone)
  | XPeerFail q p => (xupd q (fun x => q_resp_fail p (q_send_fail p x)) e, XNone)
  | XPeerAct q p =>
      (e, match xget q e with
          | Some (QL t _ _ _ _ _ s) =>
              if peer_action_asks t && peer_msg s p then XPeerMsg p (req_of t) else XNone
          | _ => XNone
          end)
  end.

Fixpoint xrun (g : gcfg) (e : xeng) (evs : list xevent) : xeng * list xaction :=
  match evs with
  | [] => (e, [])
  | ev :: t =>
      let '(e1, a) := xstep g e ev in
      let '(e2, l) := xrun g e1 t in (e2, a :: l)
  end.

(* ---- vocabulary of the theorems ---- *)
Definition live (e : xeng) (q : N) : Prop := xget q e <> None.

(* p is an unresolved request / target of query q *)
Definition outstanding (e : xeng) (q p : N) : bool :=
  match xget q e with
  | Some (QL _ _ _ _ _ _ s) => pmem p (pend s)
  | Some (QT _ pd _ _) => mem p pd
  | _ => false
  end.

Definition starts (q : N) (ev : xevent) : bool :=
  match ev with XStart q' _ _ _ _ _ _ => q' =? q | _ => false end.

(* terminal actions about query q in a list of actions *)
Definition terminal_about (q : N) (a : xaction) : bool :=
  xterminal a && match about a with Some q' => q' =? q | None => false end.

(* every lookup entry is the single-query run of its recorded events from its recorded seeds *)
Definition linv (x : qstate) : Prop :=
  match x with
  | QL t qtag qn c seeds es s => s = fst (run c (init c seeds) es) /\ done s = false
  | _ => True
  end.

(* ---- more vocabulary ---- *)
Definition count_terminal (q : N) (l : list xaction) : nat := List.length (filter (terminal_about q) l).

(* events that report on target / request p of query q for a send phase *)
Definition resolves_target (q p : N) (ev : xevent) : bool :=
  match ev with
  | XSendOk q' p' | XSendFail q' p' | XPeerFail q' p' => (q' =? q) && (p' =? p)
  | _ => false
  end.

(* events that neither restart nor poll query q *)
Definition passive (q : N) (ev : xevent) : bool :=
  match ev with
  | XStart q' _ _ _ _ _ _ => negb (q' =? q)
  | XNext _ ch => negb (ch =? 0) && negb (ch =? q + 1)
  | _ => true
  end.

