(* C15 — the distance function: XOR distances are injective, and the lookup model depends on the
   distance function only through the ORDER it induces on the peers of the case.

   The correspondence harness cannot ship 256-bit SHA-256 distances through the wire format; it sorts
   the peers of a case by their real `Key::distance` to the real target and gives the model the RANK of
   every peer. `rank_invariance` shows that this loses nothing: two distance functions that compare
   the peers of the universe in the same way produce the same actions, event by event, and states that
   differ only in the numeric distance labels. `xor_dist_inj` discharges `dist_inj` for the real metric:
   `Distance(a ^ b)` on U256 (C14_distance_compare_u256 ties the U256 operations to N.lxor) is
   injective in the key, so distinct keys have distinct distances to any target. *)
From Coq Require Import List PeanoNat NArith Bool Lia ZifyBool ZifyNat ZifyN.
From V.C15 Require Import Model Proofs.
Import ListNotations.
Open Scope N_scope.

Arguments N.add : simpl never.
Arguments N.sub : simpl never.
Arguments N.eqb : simpl never.
Arguments N.ltb : simpl never.
Arguments N.leb : simpl never.
Arguments N.of_nat : simpl never.

Definition with_dist (c : cfg) (d : N -> N) : cfg :=
  mkCfg (c_kind c) (c_k c) (c_alpha c) (c_timeout c) (c_local c) (c_needed c) (c_known c) (c_kprov c) d.

(* the XOR metric: distance of peer p = key p xor target *)
Definition xor_dist (key : N -> N) (target : N) (p : N) : N := N.lxor (key p) target.

Lemma lxor_cancel_r : forall a b t, N.lxor a t = N.lxor b t -> a = b.
Proof.
  intros a b t H.
  assert (E : N.lxor (N.lxor a t) t = N.lxor (N.lxor b t) t) by (rewrite H; reflexivity).
  rewrite !N.lxor_assoc, !N.lxor_nilpotent, !N.lxor_0_r in E. exact E.
Qed.

(* distinct keys have distinct XOR distances to every target: dist_inj holds for the real metric as soon
   as the peers' keys (SHA-256 of the peer ids) are pairwise distinct *)
Lemma xor_dist_inj : forall c key target,
  (forall p q, key p = key q -> p = q) -> dist_inj (with_dist c (xor_dist key target)).
Proof.
  intros c key target Hk p q H. cbn [with_dist c_dist] in H. unfold xor_dist in H.
  apply Hk. eapply lxor_cancel_r. exact H.
Qed.

(* the same restricted to the peers of a universe *)
Lemma xor_dist_inj_on : forall key target (U : list N),
  (forall p q, In p U -> In q U -> key p = key q -> p = q) ->
  forall p q, In p U -> In q U -> xor_dist key target p = xor_dist key target q -> p = q.
Proof.
  intros key target U Hk p q Hp Hq H. apply Hk; [exact Hp | exact Hq |]. eapply lxor_cancel_r. exact H.
Qed.

Definition ev_inU (U : list N) (e : event) : Prop :=
  match e with
  | EResp p r => In p U /\ (forall q, In q (r_peers r) -> In q U) /\ (forall x, In x (r_provs r) -> In (fst x) U)
  | _ => True
  end.

Section Rank.
Variable U : list N.
Variables d1 d2 : N -> N.
Hypothesis Hord : forall p q, In p U -> In q U ->
  (d1 p <? d1 q) = (d2 p <? d2 q) /\ (d1 p =? d1 q) = (d2 p =? d2 q).

(* two labelled entries for the same peer of the universe *)
Definition R (x y : N * N) : Prop :=
  snd x = snd y /\ fst x = d1 (snd x) /\ fst y = d2 (snd y) /\ In (snd x) U.

Definition krel := Forall2 R.

Lemma krel_snd : forall l1 l2, krel l1 l2 -> map snd l1 = map snd l2.
Proof.
  intros l1 l2 H. induction H as [| x y t1 t2 Hxy _ IH]; [reflexivity |].
  cbn [map]. destruct Hxy as [E _]. rewrite E, IH. reflexivity.
Qed.

Lemma krel_length : forall l1 l2, krel l1 l2 -> length l1 = length l2.
Proof. intros l1 l2 H. induction H; cbn [length]; congruence. Qed.

Lemma krel_cins : forall p l1 l2, In p U -> krel l1 l2 -> krel (cins (d1 p) p l1) (cins (d2 p) p l2).
Proof.
  intros p l1 l2 Hp H. induction H as [| [a1 p1] [a2 p2] t1 t2 Hxy Ht IH].
  - cbn [cins]. constructor; [| constructor]. unfold R. cbn [fst snd]. auto.
  - destruct Hxy as [E [E1 [E2 Hu]]]. cbn [fst snd] in *. subst p2 a1 a2. cbn [cins].
    destruct (Hord p p1 Hp Hu) as [L Q]. rewrite <- L, <- Q.
    destruct (d1 p <? d1 p1).
    + constructor; [unfold R; cbn [fst snd]; auto |]. constructor; [unfold R; cbn [fst snd]; auto | exact Ht].
    + destruct (d1 p =? d1 p1).
      * constructor; [unfold R; cbn [fst snd]; auto | exact Ht].
      * constructor; [unfold R; cbn [fst snd]; auto | exact IH].
Qed.

Lemma krel_last : forall l1 l2, krel l1 l2 ->
  match last_opt l1, last_opt l2 with
  | Some x, Some y => R x y
  | None, None => True
  | _, _ => False
  end.
Proof.
  intros l1 l2 H. induction H as [| x y t1 t2 Hxy Ht IH]; [exact I |].
  cbn [last_opt]. destruct Ht as [| x' y' t1' t2' Hxy' Ht']; [exact Hxy | exact IH].
Qed.

Lemma krel_removelast : forall l1 l2, krel l1 l2 -> krel (removelast l1) (removelast l2).
Proof.
  intros l1 l2 H. induction H as [| x y t1 t2 Hxy Ht IH]; [constructor |].
  cbn [removelast]. destruct Ht as [| x' y' t1' t2' Hxy' Ht']; [constructor |].
  constructor; [exact Hxy | exact IH].
Qed.

Lemma krel_resp_insert : forall k p l1 l2, In p U -> krel l1 l2 ->
  krel (resp_insert k (d1 p) p l1) (resp_insert k (d2 p) p l2).
Proof.
  intros k p l1 l2 Hp H. unfold resp_insert. rewrite <- (krel_length _ _ H).
  destruct (N.of_nat (length l1) <? k); [apply krel_cins; assumption |].
  pose proof (krel_last _ _ H) as HL.
  assert (E : (d1 p <? match last_opt l1 with Some x => fst x | None => d1 p end) =
              (d2 p <? match last_opt l2 with Some x => fst x | None => d2 p end)).
  { destruct (last_opt l1) as [[a1 w1] |], (last_opt l2) as [[a2 w2] |]; try contradiction.
    - destruct HL as [E [E1 [E2 Hu]]]. cbn [fst snd] in *. subst. apply (Hord p w2 Hp Hu).
    - rewrite !N.ltb_irrefl. reflexivity. }
  rewrite <- E. destruct (d1 p <? _); [| exact H].
  pose proof (krel_cins p l1 l2 Hp H) as HC. rewrite <- (krel_length _ _ HC).
  destruct (k <? N.of_nat (length (cins (d1 p) p l1))); [apply krel_removelast |]; exact HC.
Qed.

Lemma krel_add_cands : forall c qd pd peers l1 l2,
  (forall q, In q peers -> In q U) -> krel l1 l2 ->
  krel (add_cands (with_dist c d1) qd pd peers l1) (add_cands (with_dist c d2) qd pd peers l2).
Proof.
  intros c qd pd peers. induction peers as [| p t IH]; intros l1 l2 Hu H; [exact H |].
  cbn [add_cands]. apply IH; [intros q Hq; apply Hu; right; exact Hq |].
  cbn [with_dist c_local c_dist]. destruct (mem p qd || pmem p pd || (p =? c_local c)); [exact H |].
  apply krel_cins; [apply Hu; left; reflexivity | exact H].
Qed.

Lemma krel_init : forall seeds acc1 acc2,
  (forall q, In q seeds -> In q U) -> krel acc1 acc2 ->
  krel (fold_left (fun acc p => cins (d1 p) p acc) seeds acc1)
       (fold_left (fun acc p => cins (d2 p) p acc) seeds acc2).
Proof.
  intros seeds. induction seeds as [| p t IH]; intros acc1 acc2 Hu H; [exact H |].
  cbn [fold_left]. apply IH; [intros q Hq; apply Hu; right; exact Hq |].
  apply krel_cins; [apply Hu; left; reflexivity | exact H].
Qed.

(* merge_and_sort_providers only compares provider peers *)
Lemma ins_prov_ext : forall x l,
  In (fst x) U -> (forall y, In y l -> In (fst y) U) -> ins_prov d1 x l = ins_prov d2 x l.
Proof.
  intros x l Hx. induction l as [| h t IH]; intros Hl; [reflexivity |]. cbn [ins_prov].
  destruct (Hord (fst x) (fst h) Hx (Hl h (or_introl eq_refl))) as [L _]. rewrite <- L.
  destruct (d1 (fst x) <? d1 (fst h)); [reflexivity |]. f_equal. apply IH. intros y Hy. apply Hl. right. exact Hy.
Qed.

Lemma ins_prov_keys : forall d x l y, In y (ins_prov d x l) -> y = x \/ In y l.
Proof.
  intros d x l. induction l as [| h t IH]; intros y H; cbn [ins_prov] in H.
  - destruct H as [H | []]. left. symmetry. exact H.
  - destruct (d (fst x) <? d (fst h)).
    + destruct H as [H | H]; [left; symmetry; exact H | right; exact H].
    + destruct H as [H | H]; [right; left; exact H |]. destruct (IH y H) as [E | E]; [left; exact E | right; right; exact E].
Qed.

Lemma sort_prov_ext : forall l,
  (forall y, In y l -> In (fst y) U) ->
  fold_right (ins_prov d1) [] l = fold_right (ins_prov d2) [] l /\
  (forall y, In y (fold_right (ins_prov d1) [] l) -> In y l).
Proof.
  induction l as [| x t IH]; intros Hl; [split; [reflexivity | tauto] |].
  destruct IH as [IE IK]; [intros y Hy; apply Hl; right; exact Hy |]. cbn [fold_right]. split.
  - rewrite <- IE. apply ins_prov_ext; [apply Hl; left; reflexivity |].
    intros y Hy. apply Hl. right. apply IK. exact Hy.
  - intros y Hy. apply ins_prov_keys in Hy. destruct Hy as [-> | Hy]; [left; reflexivity | right; apply IK; exact Hy].
Qed.

Lemma merge_add_fst : forall p a acc y, In y (merge_add p a acc) -> fst y = p \/ In (fst y) (map fst acc).
Proof.
  intros p a acc. induction acc as [| [q b] t IH]; intros y H; cbn [merge_add] in H.
  - destruct H as [<- | []]. left. reflexivity.
  - destruct (N.eqb_spec q p) as [E | E].
    + destruct H as [<- | H]; [left; exact E | right; right; apply in_map; exact H].
    + destruct H as [<- | H]; [right; left; reflexivity |].
      destruct (IH y H) as [X | X]; [left; exact X | right; right; exact X].
Qed.

Lemma merge_all_fst : forall l acc y,
  In y (merge_all l acc) -> In (fst y) (map fst l) \/ In (fst y) (map fst acc).
Proof.
  induction l as [| [p a] t IH]; intros acc y H; cbn [merge_all] in H; [right; apply in_map; exact H |].
  destruct (IH _ _ H) as [X | X]; [left; right; exact X |].
  apply in_map_iff in X. destruct X as [z [Ez Hz]]. apply merge_add_fst in Hz. rewrite <- Ez.
  destruct Hz as [Hz | Hz]; [left; left; symmetry; exact Hz | right; exact Hz].
Qed.

Lemma merge_providers_ext : forall c l,
  (forall y, In y l -> In (fst y) U) ->
  merge_providers (with_dist c d1) l = merge_providers (with_dist c d2) l.
Proof.
  intros c l Hl. unfold merge_providers. cbn [with_dist c_dist]. apply sort_prov_ext.
  intros y Hy. apply in_map_iff in Hy. destruct Hy as [z [<- Hz]]. cbn [fst].
  destruct (merge_all_fst _ _ _ Hz) as [X | X]; [| destruct X].
  apply in_map_iff in X. destruct X as [w [<- Hw]]. apply Hl. exact Hw.
Qed.

(* equal up to the distance labels *)
Definition srel (s1 s2 : state) : Prop :=
  krel (cands s1) (cands s2) /\ krel (resps s1) (resps s2) /\
  pend s1 = pend s2 /\ queried s1 = queried s2 /\ pr s1 = pr s2 /\ found s1 = found s2 /\
  recq s1 = recq s2 /\ provs s1 = provs s2 /\ done s1 = done s2 /\
  (forall y, In y (provs s1) -> In (fst y) U).

Lemma srel_init : forall c seeds, (forall q, In q seeds -> In q U) ->
  srel (init (with_dist c d1) seeds) (init (with_dist c d2) seeds).
Proof.
  intros c seeds Hu. unfold init, srel. cbn [cands resps pend queried pr found recq provs done with_dist c_dist].
  split; [apply krel_init; [exact Hu | constructor] |].
  split; [constructor |]. repeat split; try reflexivity. intros y [].
Qed.

Lemma is_done_rel : forall s1 s2, srel s1 s2 -> is_done s1 = is_done s2.
Proof.
  intros s1 s2 [Hc [_ [Hp _]]]. unfold is_done. rewrite Hp.
  destruct (pend s2); [| reflexivity]. destruct Hc; reflexivity.
Qed.

Lemma finish_rel : forall s1 s2 a a', srel s1 s2 -> srel (fst (finish s1 a)) (fst (finish s2 a')).
Proof.
  intros s1 s2 a a' [H1 [H2 [H3 [H4 [H5 [H6 [H7 [H8 [H9 H10]]]]]]]]]. unfold finish, srel.
  cbn [fst cands resps pend queried pr found recq provs done]. repeat split; assumption.
Qed.

Lemma schedule_rel : forall c s1 s2 now, srel s1 s2 ->
  snd (schedule (with_dist c d1) s1 now) = snd (schedule (with_dist c d2) s2 now) /\
  srel (fst (schedule (with_dist c d1) s1 now)) (fst (schedule (with_dist c d2) s2 now)).
Proof.
  intros c s1 s2 now H. pose proof H as [H1 [H2 [H3 [H4 [H5 [H6 [H7 [H8 [H9 H10]]]]]]]]].
  unfold schedule. destruct H1 as [| [a1 p1] [a2 p2] t1 t2 Hxy Ht]; [split; [reflexivity | exact H] |].
  destruct Hxy as [E _]. cbn [snd] in E. subst p2. cbn [fst snd with_dist c_kind]. split; [reflexivity |].
  unfold srel. cbn [cands resps pend queried pr found recq provs done].
  rewrite H3, H4, H5, H6, H7, H9. rewrite <- H8. repeat split; try assumption; try reflexivity.
Qed.

Lemma set_pr_rel : forall s1 s2 n, srel s1 s2 -> srel (set_pr s1 n) (set_pr s2 n).
Proof.
  intros s1 s2 n [H1 [H2 [H3 [H4 [H5 [H6 [H7 [H8 [H9 H10]]]]]]]]]. unfold set_pr, srel.
  cbn [cands resps pend queried pr found recq provs done]. repeat split; assumption.
Qed.

Lemma next_action_rel : forall c s1 s2 now,
  (forall y, In y (c_kprov c) -> In (fst y) U) -> srel s1 s2 ->
  snd (next_action (with_dist c d1) s1 now) = snd (next_action (with_dist c d2) s2 now) /\
  srel (fst (next_action (with_dist c d1) s1 now)) (fst (next_action (with_dist c d2) s2 now)).
Proof.
  intros c s1 s2 now Hk H. pose proof H as [H1 [H2 [H3 [H4 [H5 [H6 [H7 [H8 [H9 H10]]]]]]]]].
  unfold next_action. rewrite H9. destruct (done s2) eqn:Ed2; [split; [reflexivity | exact H] |].
  cbn [with_dist c_kind]. destruct (c_kind c).
  - (* FIND_NODE *)
    unfold next_find. rewrite (is_done_rel _ _ H). rewrite (krel_snd _ _ H2).
    destruct (is_done s2).
    + destruct H2; cbn [map]; (split; [reflexivity | apply finish_rel; exact H]).
    + cbn [with_dist c_timeout c_alpha c_k c_dist]. rewrite H3.
      pose proof (set_pr_rel s1 s2 (count_fresh (c_timeout c) now (pend s2)) H) as HS.
      cbn [pr set_pr]. destruct (count_fresh (c_timeout c) now (pend s2) =? c_alpha c); [split; [reflexivity | exact HS] |].
      cbn [resps set_pr cands]. rewrite ?(krel_snd _ _ H2). rewrite (krel_length _ _ H2).
      destruct (N.of_nat (length (resps s2)) <? c_k c); [apply schedule_rel; exact HS |].
      pose proof (krel_last _ _ H2) as HL.
      destruct H1 as [| [a1 p1] [a2 p2] t1 t2 Hxy Ht].
      * split; [reflexivity | apply finish_rel; exact HS].
      * destruct (last_opt (resps s1)) as [[w1 q1] |], (last_opt (resps s2)) as [[w2 q2] |]; try contradiction.
        -- destruct Hxy as [E [_ [_ Hu1]]]. destruct HL as [E' [F1 [F2 Hu2]]]. cbn [fst snd] in *. subst p2 q2 w1 w2.
           destruct (Hord p1 q1 Hu1 Hu2) as [L _]. rewrite <- L.
           destruct (d1 p1 <? d1 q1); [apply schedule_rel; exact HS | split; [reflexivity | apply finish_rel; exact HS]].
        -- split; [reflexivity | apply finish_rel; exact HS].
  - (* GET_VALUE *)
    unfold next_record. rewrite H7, H6, H3, (is_done_rel _ _ H). cbn [with_dist c_known c_needed c_alpha].
    destruct (recq s2) as [| [p r] t].
    + destruct (is_done s2).
      * destruct (c_known c + found s2 =? 0); (split; [reflexivity | apply finish_rel; exact H]).
      * destruct (c_needed c <=? c_known c + found s2); [split; [reflexivity | apply finish_rel; exact H] |].
        destruct (N.of_nat (length (pend s2)) =? c_alpha c); [split; [reflexivity | exact H] |].
        apply schedule_rel. exact H.
    + split; [reflexivity |]. unfold srel. cbn [fst cands resps pend queried pr found recq provs done].
      repeat split; try assumption; try reflexivity; congruence.
  - (* GET_PROVIDERS *)
    unfold next_providers. rewrite H3, H8, (is_done_rel _ _ H). cbn [with_dist c_kprov c_alpha].
    destruct (is_done s2).
    + destruct (c_kprov c ++ provs s2) eqn:Ek; [split; [reflexivity | apply finish_rel; exact H] |].
      rewrite <- Ek. split; [| apply finish_rel; exact H]. unfold finish. cbn [snd]. f_equal.
      apply merge_providers_ext. intros y Hy. apply in_app_or in Hy.
      destruct Hy as [Hy | Hy]; [apply Hk; exact Hy | apply H10; rewrite H8; exact Hy].
    + destruct (N.of_nat (length (pend s2)) =? c_alpha c); [split; [reflexivity | exact H] |].
      apply schedule_rel. exact H.
Qed.

Lemma on_failure_rel : forall c s1 s2 p, srel s1 s2 ->
  srel (on_failure (with_dist c d1) s1 p) (on_failure (with_dist c d2) s2 p).
Proof.
  intros c s1 s2 p H. pose proof H as [H1 [H2 [H3 [H4 [H5 [H6 [H7 [H8 [H9 H10]]]]]]]]].
  unfold on_failure. rewrite H9, H3. destruct (done s2); [exact H |].
  destruct (pmem p (pend s2)); [| exact H]. unfold srel.
  cbn [cands resps pend queried pr found recq provs done with_dist c_kind].
  rewrite H4, H5. repeat split; try assumption; reflexivity.
Qed.

Lemma on_response_rel : forall c s1 s2 p r, ev_inU U (EResp p r) -> srel s1 s2 ->
  srel (on_response (with_dist c d1) s1 p r) (on_response (with_dist c d2) s2 p r).
Proof.
  intros c s1 s2 p r [Hp [Hu Hv]] H. pose proof H as [H1 [H2 [H3 [H4 [H5 [H6 [H7 [H8 [H9 H10]]]]]]]]].
  unfold on_response. rewrite H9, H3. destruct (done s2) eqn:Ed2; [exact H |].
  destruct (pmem p (pend s2)); [| exact H].
  pose proof (krel_add_cands c (set_add p (queried s1)) (premove p (pend s2)) (r_peers r) _ _ Hu H1) as HC.
  rewrite H4 in *. cbn [with_dist c_kind c_k c_dist].
  destruct (c_kind c).
  - unfold srel. cbn [cands resps pend queried pr found recq provs done].
    split; [exact HC | split; [apply krel_resp_insert; assumption |]].
    repeat split; try assumption; try reflexivity; congruence.
  - destruct (r_rec r) as [[id b] |]; [destruct b |]; unfold srel;
      cbn [cands resps pend queried pr found recq provs done];
      (split; [exact HC | split; [exact H2 |]]); repeat split; try assumption; try reflexivity; congruence.
  - unfold srel. cbn [cands resps pend queried pr found recq provs done].
    split; [exact HC | split; [exact H2 |]].
    repeat split; try assumption; try reflexivity; try congruence.
    intros y Hy. apply in_app_or in Hy. destruct Hy as [Hy | Hy]; [apply H10; exact Hy | apply Hv; exact Hy].
Qed.

Lemma step_rel : forall c s1 s2 e,
  (forall y, In y (c_kprov c) -> In (fst y) U) -> ev_inU U e -> srel s1 s2 ->
  snd (step (with_dist c d1) s1 e) = snd (step (with_dist c d2) s2 e) /\
  srel (fst (step (with_dist c d1) s1 e)) (fst (step (with_dist c d2) s2 e)).
Proof.
  intros c s1 s2 e Hk He H. destruct e as [now | p r | p | p]; cbn [step fst snd].
  - apply next_action_rel; assumption.
  - split; [reflexivity | apply on_response_rel; assumption].
  - split; [reflexivity | apply on_failure_rel; assumption].
  - split; [reflexivity | exact H].
Qed.

Lemma run_rel : forall c es s1 s2,
  (forall y, In y (c_kprov c) -> In (fst y) U) -> Forall (ev_inU U) es -> srel s1 s2 ->
  snd (run (with_dist c d1) s1 es) = snd (run (with_dist c d2) s2 es) /\
  srel (fst (run (with_dist c d1) s1 es)) (fst (run (with_dist c d2) s2 es)).
Proof.
  intros c es. induction es as [| e t IH]; intros s1 s2 Hk He H; [split; [reflexivity | exact H] |].
  inversion He as [| e' t' He1 He2]; subst. cbn [run].
  destruct (step_rel c s1 s2 e Hk He1 H) as [Ea Es].
  destruct (step (with_dist c d1) s1 e) as [s1' a1]. destruct (step (with_dist c d2) s2 e) as [s2' a2].
  cbn [fst snd] in Ea, Es. subst a2. destruct (IH s1' s2' Hk He2 Es) as [El Er].
  destruct (run (with_dist c d1) s1' t) as [s1'' l1]. destruct (run (with_dist c d2) s2' t) as [s2'' l2].
  cbn [fst snd] in *. subst l2. split; [reflexivity | exact Er].
Qed.

End Rank.

(* Two distance functions that order the peers of the universe in the same way are indistinguishable:
   every history produces the same actions (sends, partial results, terminal results with their peer and
   provider lists), and final states equal up to the distance labels. In particular the ranks used by
   the harness stand for the real XOR distances. *)
Lemma rank_invariance : forall U d1 d2 c seeds es,
  (forall p q, In p U -> In q U -> (d1 p <? d1 q) = (d2 p <? d2 q) /\ (d1 p =? d1 q) = (d2 p =? d2 q)) ->
  (forall q, In q seeds -> In q U) -> (forall y, In y (c_kprov c) -> In (fst y) U) ->
  Forall (ev_inU U) es ->
  snd (run (with_dist c d1) (init (with_dist c d1) seeds) es) =
  snd (run (with_dist c d2) (init (with_dist c d2) seeds) es) /\
  srel U d1 d2 (fst (run (with_dist c d1) (init (with_dist c d1) seeds) es))
               (fst (run (with_dist c d2) (init (with_dist c d2) seeds) es)).
Proof.
  intros U d1 d2 c seeds es Hord Hs Hk He.
  apply run_rel; [exact Hord | exact Hk | exact He | apply srel_init; [exact Hord | exact Hs]].
Qed.

(* a rank function that is strictly monotone in the real distance satisfies the hypothesis *)
Lemma monotone_rank_ok : forall (U : list N) (d rank : N -> N),
  (forall p q, In p U -> In q U -> (rank p < rank q <-> d p < d q)) ->
  forall p q, In p U -> In q U -> (d p <? d q) = (rank p <? rank q) /\ (d p =? d q) = (rank p =? rank q).
Proof.
  intros U d rank H p q Hp Hq. pose proof (H p q Hp Hq) as A. pose proof (H q p Hq Hp) as B. split.
  - destruct (N.ltb_spec (d p) (d q)), (N.ltb_spec (rank p) (rank q)); try reflexivity; lia.
  - destruct (N.eqb_spec (d p) (d q)), (N.eqb_spec (rank p) (rank q)); try reflexivity; lia.
Qed.
