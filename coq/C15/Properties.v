(* C15 — pinned property theorems. This file contains statements, `exact`, and
   Print Assumptions only. The pins in tools/pins/C15.v re-check the statements.

   Vocabulary (coq/C15/Model.v): `run c (init c seeds) es` runs one lookup query of kind
   `c_kind c` (FIND_NODE-type, GET_VALUE, GET_PROVIDERS) from the seed candidates through ANY
   list of events `es` (next_action calls at given times, responses with arbitrary peer lists,
   failures, send notifications, for any peers in any order); `grun` additionally computes the
   history (`ghost`): peers sent to, peers answered, peers learned of, records received/emitted.
   `dist_inj c` says distinct peers have distinct distances to the target (SHA-256 keys). *)
From Coq Require Import List NArith Bool.
From V.gen Require Consts.
From V.C15 Require Import Model Proofs.
Import ListNotations.
Open Scope N_scope.

(* candidates, pending and queried are pairwise disjoint, duplicate-free, and never contain the
   local peer — after every event history *)
Theorem C15_disjoint :
  forall c seeds es,
  ~ In (c_local c) seeds ->
  let s := fst (run c (init c seeds) es) in
  (forall p, In p (map snd (cands s)) -> ~ In p (map fst (pend s)) /\ ~ In p (queried s) /\ p <> c_local c) /\
  (forall p, In p (map fst (pend s)) -> ~ In p (queried s) /\ p <> c_local c) /\
  ~ In (c_local c) (queried s) /\
  NoDup (map snd (cands s)) /\ NoDup (map fst (pend s)) /\ NoDup (queried s).
Proof. exact disjoint_sets. Qed.
Print Assumptions C15_disjoint.

(* no peer is sent two requests, and the local peer is sent none *)
Theorem C15_never_twice_never_local :
  forall c seeds es,
  dist_inj c -> ~ In (c_local c) seeds ->
  NoDup (sends (snd (run c (init c seeds) es))) /\
  ~ In (c_local c) (sends (snd (run c (init c seeds) es))).
Proof. exact sent_props. Qed.
Print Assumptions C15_never_twice_never_local.

(* at most alpha requests that still count (FIND_NODE: within the peer timeout; GET_VALUE /
   GET_PROVIDERS: all unanswered) are in flight, at every time not before the last event *)
Theorem C15_parallelism :
  forall c seeds es now0,
  mono now0 es ->
  in_flight c (clock now0 es) (pend (fst (run c (init c seeds) es))) <= c_alpha c.
Proof. exact parallelism. Qed.
Print Assumptions C15_parallelism.

(* a SendMessage is only issued strictly below the gate *)
Theorem C15_send_gate :
  forall c s now p, snd (next_action c s now) = ASend p -> in_flight c now (pend s) <> c_alpha c.
Proof. exact send_gate. Qed.
Print Assumptions C15_send_gate.

(* at most one terminal action in any history; it is emitted exactly when the query is removed *)
Theorem C15_one_terminal :
  forall c seeds es,
  (length (terminals (snd (run c (init c seeds) es))) <= 1)%nat /\
  (done (fst (run c (init c seeds) es)) = true <->
   length (terminals (snd (run c (init c seeds) es))) = 1%nat).
Proof. exact one_terminal. Qed.
Print Assumptions C15_one_terminal.

(* after the terminal action nothing happens any more *)
Theorem C15_after_terminal :
  forall c es s, done s = true ->
  fst (run c s es) = s /\ Forall (fun a => a = ANone) (snd (run c s es)).
Proof. exact after_terminal. Qed.
Print Assumptions C15_after_terminal.

(* no deadlock: with every request answered or failed, a live query acts (sends, reports a
   partial result, or terminates) *)
Theorem C15_progress :
  forall c seeds es now,
  1 <= c_alpha c ->
  let s := fst (run c (init c seeds) es) in
  done s = false -> pend s = [] -> snd (next_action c s now) <> ANone.
Proof. exact progress_reach. Qed.
Print Assumptions C15_progress.

(* termination measure: over any peer universe U, every SendMessage and every accepted
   response or failure strictly decreases mu = 2*|unvisited| + |pending|; no event increases it *)
Theorem C15_measure :
  forall c U s e,
  Inv c s -> cands_in U s ->
  let s' := fst (step c s e) in let a := snd (step c s e) in
  (mu U s' <= mu U s)%nat /\
  ((exists p, a = ASend p) \/
   (exists p, ((exists r, e = EResp p r) \/ e = EFail p) /\ effective s p = true) ->
   (mu U s' < mu U s)%nat).
Proof. exact mu_step. Qed.
Print Assumptions C15_measure.

(* hence any history over a universe of n peers contains at most 2n productive steps *)
Theorem C15_productive_bound :
  forall c U seeds es,
  ~ In (c_local c) seeds -> (forall p, In p seeds -> In p U) -> Forall (ev_in U) es ->
  (count_productive c (init c seeds) es <= 2 * length U)%nat.
Proof. exact productive_bound. Qed.
Print Assumptions C15_productive_bound.

(* FIND_NODE success: reported peers answered, strictly sorted by distance, at most k, and every
   peer the lookup learned of (other than itself) that is closer than the furthest reported peer
   was sent a request *)
Theorem C15_find_result :
  forall c seeds es now l,
  dist_inj c -> ~ In (c_local c) seeds -> c_kind c = KFind ->
  let s := fst (grun c (init c seeds) (ghost0 seeds) es) in
  let g := snd (grun c (init c seeds) (ghost0 seeds) es) in
  snd (next_action c s now) = AFound l ->
  (forall p, In p l -> In p (g_answered g)) /\
  dsorted c l /\
  N.of_nat (length l) <= c_k c /\
  (forall p w, In p (g_known g) -> p <> c_local c -> last_opt l = Some w ->
               c_dist c p < c_dist c w -> In p (g_sent g)).
Proof. exact find_result_reach. Qed.
Print Assumptions C15_find_result.

(* GET_VALUE: when the lookup terminates every accepted (peer, record) pair has been emitted as a
   partial result exactly once (the emitted list IS the received list, one entry per peer) *)
Theorem C15_record_once :
  forall c seeds es now,
  dist_inj c -> ~ In (c_local c) seeds -> c_kind c = KRecord ->
  let s := fst (grun c (init c seeds) (ghost0 seeds) es) in
  let g := snd (grun c (init c seeds) (ghost0 seeds) es) in
  is_terminal (snd (next_action c s now)) = true ->
  g_emitted g = g_got g /\ NoDup (map fst (g_got g)) /\
  (forall x, In x (g_got g) -> In (fst x) (g_answered g)).
Proof. exact record_once_reach. Qed.
Print Assumptions C15_record_once.

(* GET_VALUE: no request is issued once the quorum is met *)
Theorem C15_quorum_stop :
  forall c seeds es now p,
  dist_inj c -> ~ In (c_local c) seeds -> c_kind c = KRecord ->
  let s := fst (grun c (init c seeds) (ghost0 seeds) es) in
  let g := snd (grun c (init c seeds) (ghost0 seeds) es) in
  snd (next_action c s now) = ASend p ->
  c_known c + N.of_nat (length (g_got g)) < c_needed c.
Proof. exact quorum_stop_reach. Qed.
Print Assumptions C15_quorum_stop.

(* GET_PROVIDERS: the reported list is the merge of the known providers and every provider entry
   accepted from a response *)
Theorem C15_providers_result :
  forall c seeds es now l,
  dist_inj c -> ~ In (c_local c) seeds -> c_kind c = KProviders ->
  let s := fst (grun c (init c seeds) (ghost0 seeds) es) in
  let g := snd (grun c (init c seeds) (ghost0 seeds) es) in
  snd (next_action c s now) = AProvDone l ->
  l = merge_providers c (c_kprov c ++ g_provs g).
Proof. exact providers_result_reach. Qed.
Print Assumptions C15_providers_result.

(* FIND_NODE success reports exactly the k closest of all peers that answered (all of them when
   fewer than k answered): a peer that answered and is not reported is strictly farther than
   every reported peer, and in that case exactly k peers are reported. Together with
   C15_find_result (reported peers answered, strictly sorted, at most k) this determines the list. *)
Theorem C15_find_topk :
  forall c seeds es now l,
  dist_inj c -> ~ In (c_local c) seeds -> c_kind c = KFind ->
  let s := fst (grun c (init c seeds) (ghost0 seeds) es) in
  let g := snd (grun c (init c seeds) (ghost0 seeds) es) in
  snd (next_action c s now) = AFound l ->
  forall q, In q (g_answered g) -> ~ In q l ->
    N.of_nat (length l) = c_k c /\ forall w, In w l -> c_dist c w < c_dist c q.
Proof. exact find_topk_reach. Qed.
Print Assumptions C15_find_topk.

(* merge_and_sort_providers: every provider peer appears exactly once, the list is strictly
   sorted by distance, and the addresses of a peer are exactly the duplicate-free sorted union
   of everything reported for it *)
Theorem C15_merge_spec :
  forall c l,
  dist_inj c ->
  let m := merge_providers c l in
  NoDup (map fst m) /\
  (forall p, In p (map fst m) <-> In p (map fst l)) /\
  dsorted c (map fst m) /\
  (forall p al, In (p, al) m ->
     al = addr_set (addrs_of p l) /\ asorted al /\ forall x, In x al <-> In x (addrs_of p l)).
Proof. exact merge_spec. Qed.
Print Assumptions C15_merge_spec.

(* Closed loop. `drive fuel c E false (init c seeds)` is the event history produced by the engine
   together with an adaptive environment E that sees the whole query state and decides, turn by
   turn, to answer (with any reply) or fail an outstanding request, or to let next_action run at
   a time of its choice. E is fair when it only resolves outstanding requests and, once
   next_action has returned nothing while a request is outstanding, resolves one before calling
   next_action again. Under EVERY fair environment, over a universe of n peers, the lookup is
   finished after at most 8n+2 events and has emitted exactly one terminal action. (The history
   is an ordinary `run` history, so all theorems above apply to it.) *)
Theorem C15_closed_loop :
  forall c U E seeds fuel,
  1 <= c_alpha c -> ~ In (c_local c) seeds -> (forall p, In p seeds -> In p U) -> fair U E ->
  (8 * length U + 2 <= fuel)%nat ->
  let es := drive fuel c E false (init c seeds) in
  done (fst (run c (init c seeds) es)) = true /\
  length (terminals (snd (run c (init c seeds) es))) = 1%nat /\
  (length es <= 8 * length U + 2)%nat.
Proof. exact closed_loop. Qed.
Print Assumptions C15_closed_loop.

(* fairness is satisfiable: the environment that fails the oldest outstanding request whenever
   the engine is idle is fair for every universe *)
Theorem C15_fair_env_exists : forall U, fair U env_fail_all.
Proof. exact env_fail_all_fair. Qed.
Print Assumptions C15_fair_env_exists.

(* Several queries in one QueryEngine: whatever the polling order and interleaving, query i ends
   in exactly the state it would reach alone under the sub-sequence of events that reached it —
   so every single-query theorem of this file holds for each query of a shared engine. *)
Theorem C15_queries_independent :
  forall ms eng i c s,
  nth_error eng i = Some (c, s) ->
  nth_error (fst (mrun eng ms)) i = Some (c, fst (run c s (events_of i (snd (mrun eng ms))))).
Proof. exact queries_independent. Qed.
Print Assumptions C15_queries_independent.

(* next_peer_action hands out a message only for a peer that next_action already sent the
   request to and that is still outstanding: it never contacts a new peer *)
Theorem C15_peer_action :
  forall c seeds es p,
  dist_inj c -> ~ In (c_local c) seeds ->
  let s := fst (grun c (init c seeds) (ghost0 seeds) es) in
  let g := snd (grun c (init c seeds) (ghost0 seeds) es) in
  peer_msg s p = true -> In p (g_sent g) /\ In p (map fst (pend s)) /\ done s = false.
Proof. exact peer_msg_sent. Qed.
Print Assumptions C15_peer_action.

(* the history fields are functions of the emitted actions: g_sent is the list of SendMessage peers *)
Theorem C15_sent_is_sends :
  forall c es s g, g_sent (snd (grun c s g es)) = g_sent g ++ sends (snd (run c s es)).
Proof. exact grun_sent. Qed.
Print Assumptions C15_sent_is_sends.

(* the shipped parallelism and replication factors satisfy the hypotheses used above *)
Theorem C15_default_config :
  1 <= V.gen.Consts.PARALLELISM_FACTOR /\ 1 <= V.gen.Consts.REPLICATION_FACTOR.
Proof. exact default_factors. Qed.
Print Assumptions C15_default_config.

(* non-vacuity: a FIND_NODE lookup (k = 2, alpha = 2) over five peers that learns closer peers,
   has one failure, and succeeds with the two closest responders *)
Example C15_nonvacuous :
  let c := mkCfg KFind 2 2 5 0 0 0 [] (fun p => p) in
  let es := [ENext 0; ENext 0; ENext 0; EResp 4 (mkReply [1; 2; 0] None []); ENext 1; EFail 3;
             ENext 1; EResp 1 (mkReply [] None []); EResp 2 (mkReply [3] None []); ENext 2; ENext 3] in
  snd (run c (init c [4; 3]) es) =
    [ASend 3; ASend 4; ANone; ANone; ASend 1; ANone; ASend 2; ANone; ANone; AFound [1; 2]; ANone].
Proof. vm_compute. reflexivity. Qed.

(* non-vacuity of the closed loop: GET_VALUE (quorum 2 of k = 3, alpha = 2) over four peers, every
   request failed by the environment: 3 sends, 3 failures, then QueryFailed *)
Example C15_closed_loop_nonvacuous :
  let c := mkCfg KRecord 3 2 5 0 2 0 [] (fun p => p) in
  snd (run c (init c [1; 2; 3]) (drive 34 c env_fail_all false (init c [1; 2; 3]))) =
    [ASend 1; ASend 2; ANone; ANone; ASend 3; ANone; ANone; ANone; ANone; AFailed].
Proof. vm_compute. reflexivity. Qed.
