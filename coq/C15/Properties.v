(* C15 — pinned property theorems. This file contains statements, `exact`, and
   Print Assumptions only. The pins in tools/pins/C15.v re-check the statements.

   Vocabulary (coq/C15/Model.v): `run c (init c seeds) es` runs one lookup query of kind
   `c_kind c` (FIND_NODE-type, GET_VALUE, GET_PROVIDERS) from the seed candidates through ANY
   list of events `es` (next_action calls at given times, responses with arbitrary peer lists,
   failures, send notifications, for any peers in any order); `grun` additionally computes the
   history (`ghost`): peers sent to, peers answered, peers learned of, records received/emitted.
   `dist_inj c` says distinct peers have distinct distances to the target (SHA-256 keys). *)
From Coq Require Import List NArith Bool.
From V.gen Require Consts.
From V.C15 Require Import Model Proofs Engine EngineProofs Dist.
Import ListNotations.
Open Scope N_scope.

(* candidates, pending and queried are pairwise disjoint, duplicate-free, and never contain the
   local peer — after every event history *)
Theorem C15_disjoint :
  forall c seeds es,
  ~ In (c_local c) seeds ->
  let s := fst (run c (init c seeds) es) in
  (forall p, In p (map snd (cands s)) -> ~ In p (map fst (pend s)) /\ ~ In p (queried s) /\ p <> c_local c) /\
  (forall p, In p (map fst (pend s)) -> ~ In p (queried s) /\ p <> c_local c) /\
  ~ In (c_local c) (queried s) /\
  NoDup (map snd (cands s)) /\ NoDup (map fst (pend s)) /\ NoDup (queried s).
Proof. exact disjoint_sets. Qed.
Print Assumptions C15_disjoint.

(* no peer is sent two requests, and the local peer is sent none *)
Theorem C15_never_twice_never_local :
  forall c seeds es,
  dist_inj c -> ~ In (c_local c) seeds ->
  NoDup (sends (snd (run c (init c seeds) es))) /\
  ~ In (c_local c) (sends (snd (run c (init c seeds) es))).
Proof. exact sent_props. Qed.
Print Assumptions C15_never_twice_never_local.

(* at most alpha requests that still count (FIND_NODE: within the peer timeout; GET_VALUE /
   GET_PROVIDERS: all unanswered) are in flight, at every time not before the last event *)
Theorem C15_parallelism :
  forall c seeds es now0,
  mono now0 es ->
  in_flight c (clock now0 es) (pend (fst (run c (init c seeds) es))) <= c_alpha c.
Proof. exact parallelism. Qed.
Print Assumptions C15_parallelism.

(* a SendMessage is only issued strictly below the gate *)
Theorem C15_send_gate :
  forall c s now p, snd (next_action c s now) = ASend p -> in_flight c now (pend s) <> c_alpha c.
Proof. exact send_gate. Qed.
Print Assumptions C15_send_gate.

(* at most one terminal action in any history; it is emitted exactly when the query is removed *)
Theorem C15_one_terminal :
  forall c seeds es,
  (length (terminals (snd (run c (init c seeds) es))) <= 1)%nat /\
  (done (fst (run c (init c seeds) es)) = true <->
   length (terminals (snd (run c (init c seeds) es))) = 1%nat).
Proof. exact one_terminal. Qed.
Print Assumptions C15_one_terminal.

(* after the terminal action nothing happens any more *)
Theorem C15_after_terminal :
  forall c es s, done s = true ->
  fst (run c s es) = s /\ Forall (fun a => a = ANone) (snd (run c s es)).
Proof. exact after_terminal. Qed.
Print Assumptions C15_after_terminal.

(* no deadlock: with every request answered or failed, a live query acts (sends, reports a
   partial result, or terminates) *)
Theorem C15_progress :
  forall c seeds es now,
  1 <= c_alpha c ->
  let s := fst (run c (init c seeds) es) in
  done s = false -> pend s = [] -> snd (next_action c s now) <> ANone.
Proof. exact progress_reach. Qed.
Print Assumptions C15_progress.

(* termination measure: over any peer universe U, every SendMessage and every accepted
   response or failure strictly decreases mu = 2*|unvisited| + |pending|; no event increases it *)
Theorem C15_measure :
  forall c U s e,
  Inv c s -> cands_in U s ->
  let s' := fst (step c s e) in let a := snd (step c s e) in
  (mu U s' <= mu U s)%nat /\
  ((exists p, a = ASend p) \/
   (exists p, ((exists r, e = EResp p r) \/ e = EFail p) /\ effective s p = true) ->
   (mu U s' < mu U s)%nat).
Proof. exact mu_step. Qed.
Print Assumptions C15_measure.

(* hence any history over a universe of n peers contains at most 2n productive steps *)
Theorem C15_productive_bound :
  forall c U seeds es,
  ~ In (c_local c) seeds -> (forall p, In p seeds -> In p U) -> Forall (ev_in U) es ->
  (count_productive c (init c seeds) es <= 2 * length U)%nat.
Proof. exact productive_bound. Qed.
Print Assumptions C15_productive_bound.

(* FIND_NODE success: reported peers answered, strictly sorted by distance, at most k, and every
   peer the lookup learned of (other than itself) that is closer than the furthest reported peer
   was sent a request *)
Theorem C15_find_result :
  forall c seeds es now l,
  dist_inj c -> ~ In (c_local c) seeds -> c_kind c = KFind ->
  let s := fst (grun c (init c seeds) (ghost0 seeds) es) in
  let g := snd (grun c (init c seeds) (ghost0 seeds) es) in
  snd (next_action c s now) = AFound l ->
  (forall p, In p l -> In p (g_answered g)) /\
  dsorted c l /\
  N.of_nat (length l) <= c_k c /\
  (forall p w, In p (g_known g) -> p <> c_local c -> last_opt l = Some w ->
               c_dist c p < c_dist c w -> In p (g_sent g)).
Proof. exact find_result_reach. Qed.
Print Assumptions C15_find_result.

(* GET_VALUE: when the lookup terminates every accepted (peer, record) pair has been emitted as a
   partial result exactly once (the emitted list IS the received list, one entry per peer) *)
Theorem C15_record_once :
  forall c seeds es now,
  dist_inj c -> ~ In (c_local c) seeds -> c_kind c = KRecord ->
  let s := fst (grun c (init c seeds) (ghost0 seeds) es) in
  let g := snd (grun c (init c seeds) (ghost0 seeds) es) in
  is_terminal (snd (next_action c s now)) = true ->
  g_emitted g = g_got g /\ NoDup (map fst (g_got g)) /\
  (forall x, In x (g_got g) -> In (fst x) (g_answered g)).
Proof. exact record_once_reach. Qed.
Print Assumptions C15_record_once.

(* GET_VALUE: no request is issued once the quorum is met *)
Theorem C15_quorum_stop :
  forall c seeds es now p,
  dist_inj c -> ~ In (c_local c) seeds -> c_kind c = KRecord ->
  let s := fst (grun c (init c seeds) (ghost0 seeds) es) in
  let g := snd (grun c (init c seeds) (ghost0 seeds) es) in
  snd (next_action c s now) = ASend p ->
  c_known c + N.of_nat (length (g_got g)) < c_needed c.
Proof. exact quorum_stop_reach. Qed.
Print Assumptions C15_quorum_stop.

(* GET_PROVIDERS: the reported list is the merge of the known providers and every provider entry
   accepted from a response *)
Theorem C15_providers_result :
  forall c seeds es now l,
  dist_inj c -> ~ In (c_local c) seeds -> c_kind c = KProviders ->
  let s := fst (grun c (init c seeds) (ghost0 seeds) es) in
  let g := snd (grun c (init c seeds) (ghost0 seeds) es) in
  snd (next_action c s now) = AProvDone l ->
  l = merge_providers c (c_kprov c ++ g_provs g).
Proof. exact providers_result_reach. Qed.
Print Assumptions C15_providers_result.

(* FIND_NODE success reports exactly the k closest of all peers that answered (all of them when
   fewer than k answered): a peer that answered and is not reported is strictly farther than
   every reported peer, and in that case exactly k peers are reported. Together with
   C15_find_result (reported peers answered, strictly sorted, at most k) this determines the list. *)
Theorem C15_find_topk :
  forall c seeds es now l,
  dist_inj c -> ~ In (c_local c) seeds -> c_kind c = KFind ->
  let s := fst (grun c (init c seeds) (ghost0 seeds) es) in
  let g := snd (grun c (init c seeds) (ghost0 seeds) es) in
  snd (next_action c s now) = AFound l ->
  forall q, In q (g_answered g) -> ~ In q l ->
    N.of_nat (length l) = c_k c /\ forall w, In w l -> c_dist c w < c_dist c q.
Proof. exact find_topk_reach. Qed.
Print Assumptions C15_find_topk.

(* merge_and_sort_providers: every provider peer appears exactly once, the list is strictly
   sorted by distance, and the addresses of a peer are exactly the duplicate-free sorted union
   of everything reported for it *)
Theorem C15_merge_spec :
  forall c l,
  dist_inj c ->
  let m := merge_providers c l in
  NoDup (map fst m) /\
  (forall p, In p (map fst m) <-> In p (map fst l)) /\
  dsorted c (map fst m) /\
  (forall p al, In (p, al) m ->
     al = addr_set (addrs_of p l) /\ asorted al /\ forall x, In x al <-> In x (addrs_of p l)).
Proof. exact merge_spec. Qed.
Print Assumptions C15_merge_spec.

(* Closed loop. `drive fuel c E false (init c seeds)` is the event history produced by the engine
   together with an adaptive environment E that sees the whole query state and decides, turn by
   turn, to answer (with any reply) or fail an outstanding request, or to let next_action run at
   a time of its choice. E is fair when it only resolves outstanding requests and, once
   next_action has returned nothing while a request is outstanding, resolves one before calling
   next_action again. Under EVERY fair environment, over a universe of n peers, the lookup is
   finished after at most 8n+2 events and has emitted exactly one terminal action. (The history
   is an ordinary `run` history, so all theorems above apply to it.) *)
Theorem C15_closed_loop :
  forall c U E seeds fuel,
  1 <= c_alpha c -> ~ In (c_local c) seeds -> (forall p, In p seeds -> In p U) -> fair U E ->
  (8 * length U + 2 <= fuel)%nat ->
  let es := drive fuel c E false (init c seeds) in
  done (fst (run c (init c seeds) es)) = true /\
  length (terminals (snd (run c (init c seeds) es))) = 1%nat /\
  (length es <= 8 * length U + 2)%nat.
Proof. exact closed_loop. Qed.
Print Assumptions C15_closed_loop.

(* fairness is satisfiable: the environment that fails the oldest outstanding request whenever
   the engine is idle is fair for every universe *)
Theorem C15_fair_env_exists : forall U, fair U env_fail_all.
Proof. exact env_fail_all_fair. Qed.
Print Assumptions C15_fair_env_exists.

(* Several queries in one QueryEngine: whatever the polling order and interleaving, query i ends
   in exactly the state it would reach alone under the sub-sequence of events that reached it —
   so every single-query theorem of this file holds for each query of a shared engine. *)
Theorem C15_queries_independent :
  forall ms eng i c s,
  nth_error eng i = Some (c, s) ->
  nth_error (fst (mrun eng ms)) i = Some (c, fst (run c s (events_of i (snd (mrun eng ms))))).
Proof. exact queries_independent. Qed.
Print Assumptions C15_queries_independent.

(* next_peer_action hands out a message only for a peer that next_action already sent the
   request to and that is still outstanding: it never contacts a new peer *)
Theorem C15_peer_action :
  forall c seeds es p,
  dist_inj c -> ~ In (c_local c) seeds ->
  let s := fst (grun c (init c seeds) (ghost0 seeds) es) in
  let g := snd (grun c (init c seeds) (ghost0 seeds) es) in
  peer_msg s p = true -> In p (g_sent g) /\ In p (map fst (pend s)) /\ done s = false.
Proof. exact peer_msg_sent. Qed.
Print Assumptions C15_peer_action.

(* ---- closest responsive peers ---- *)

(* FIND_NODE-type success (FIND_NODE, and the lookup phase of PUT_VALUE / ADD_PROVIDER): the reported
   list is EXACTLY the k closest of all peers that responded (all of them if fewer responded), and
   every other peer the lookup ever learned of that is closer than the furthest reported one was
   contacted and did not respond *)
Theorem C15_closest_responsive :
  forall c seeds es now l,
  dist_inj c -> ~ In (c_local c) seeds -> c_kind c = KFind ->
  let s := fst (grun c (init c seeds) (ghost0 seeds) es) in
  let g := snd (grun c (init c seeds) (ghost0 seeds) es) in
  snd (next_action c s now) = AFound l ->
  kclosest c (c_k c) (g_answered g) l /\
  (forall p w, In p (g_known g) -> p <> c_local c -> ~ In p l -> last_opt l = Some w ->
               c_dist c p < c_dist c w -> In p (g_sent g) /\ ~ In p (g_answered g)).
Proof. exact closest_responsive_reach. Qed.
Print Assumptions C15_closest_responsive.

(* "the k closest of ans" determines the list: there is exactly one such list *)
Theorem C15_kclosest_unique :
  forall c k ans l1 l2, kclosest c k ans l1 -> kclosest c k ans l2 -> l1 = l2.
Proof. exact kclosest_unique. Qed.
Print Assumptions C15_kclosest_unique.

(* Interface for the send phase (C16): what FindNodeQuerySucceeded / PutRecordToFoundNodes /
   AddProviderToFoundNodes hand over — distinct peers, never the local one, every one of them
   contacted and responsive, at most k, exactly the k closest responders, and not empty (k >= 1) *)
Theorem C15_lookup_interface :
  forall c seeds es now l,
  dist_inj c -> ~ In (c_local c) seeds -> c_kind c = KFind ->
  let s := fst (grun c (init c seeds) (ghost0 seeds) es) in
  let g := snd (grun c (init c seeds) (ghost0 seeds) es) in
  snd (next_action c s now) = AFound l ->
  NoDup l /\ ~ In (c_local c) l /\ N.of_nat (length l) <= c_k c /\
  (forall p, In p l -> In p (g_answered g) /\ In p (g_sent g)) /\
  kclosest c (c_k c) (g_answered g) l /\
  (1 <= c_k c -> l <> []).
Proof. exact lookup_interface. Qed.
Print Assumptions C15_lookup_interface.

(* every lookup (all kinds) always contacts the closest peer it knows of and has not contacted yet *)
Theorem C15_send_closest :
  forall c seeds es now p,
  dist_inj c -> ~ In (c_local c) seeds ->
  let s := fst (grun c (init c seeds) (ghost0 seeds) es) in
  let g := snd (grun c (init c seeds) (ghost0 seeds) es) in
  snd (next_action c s now) = ASend p ->
  In p (g_known g) /\ ~ In p (g_sent g) /\ p <> c_local c /\
  forall q, In q (g_known g) -> q <> c_local c -> ~ In q (g_sent g) -> c_dist c p <= c_dist c q.
Proof. exact send_closest_reach. Qed.
Print Assumptions C15_send_closest.

(* QueryFailed (any kind) is reported only when every peer the lookup learned of was tried, nothing
   is outstanding, and nothing at all was obtained: no responder (FIND_NODE-type), no record — not
   even a local one (GET_VALUE), no provider — not even a locally known one (GET_PROVIDERS) *)
Theorem C15_failed_means_nothing :
  forall c seeds es now,
  dist_inj c -> ~ In (c_local c) seeds ->
  let s := fst (grun c (init c seeds) (ghost0 seeds) es) in
  let g := snd (grun c (init c seeds) (ghost0 seeds) es) in
  snd (next_action c s now) = AFailed ->
  exhausted_at c s g /\
  match c_kind c with
  | KFind => g_answered g = [] \/ c_k c = 0
  | KRecord => c_known c = 0 /\ g_got g = []
  | KProviders => c_kprov c = [] /\ g_provs g = []
  end.
Proof. exact failed_reach. Qed.
Print Assumptions C15_failed_means_nothing.

(* GET_VALUE quorum honesty: success means the quorum is really met — the local record counted
   once plus the records received from distinct peers — or that every learned peer was tried and
   at least one record exists *)
Theorem C15_record_quorum_honest :
  forall c seeds es now,
  dist_inj c -> ~ In (c_local c) seeds ->
  let s := fst (grun c (init c seeds) (ghost0 seeds) es) in
  let g := snd (grun c (init c seeds) (ghost0 seeds) es) in
  snd (next_action c s now) = ARecDone ->
  c_needed c <= c_known c + N.of_nat (length (g_got g)) \/
  (exhausted_at c s g /\ 1 <= c_known c + N.of_nat (length (g_got g))).
Proof. exact recdone_reach. Qed.
Print Assumptions C15_record_quorum_honest.

(* GET_PROVIDERS reports only after every learned peer was tried: the result (C15_providers_result,
   C15_merge_spec) contains what every responsive peer reported plus the locally known providers *)
Theorem C15_providers_exhaustive :
  forall c seeds es now l,
  dist_inj c -> ~ In (c_local c) seeds ->
  let s := fst (grun c (init c seeds) (ghost0 seeds) es) in
  let g := snd (grun c (init c seeds) (ghost0 seeds) es) in
  snd (next_action c s now) = AProvDone l -> exhausted_at c s g.
Proof. exact provdone_reach. Qed.
Print Assumptions C15_providers_exhaustive.

(* ---- request timeouts ---- *)

(* A request is resolved at most once: after an accepted answer or failure (from the peer, from the
   executor's timeout, from a disconnect) everything that arrives for that peer later is ignored —
   in particular a late answer after the timeout failure. (The engine's own peer timeout does not
   fail a request: it only stops counting it against alpha, see C15_parallelism; an answer that
   arrives after it but before a failure is an ordinary answer.) *)
Theorem C15_resolved_once :
  forall c s p e es r,
  Inv c s -> effective s p = true -> (e = EFail p \/ exists r0, e = EResp p r0) ->
  let s1 := fst (run c (fst (step c s e)) es) in
  effective s1 p = false /\ on_response c s1 p r = s1 /\ on_failure c s1 p = s1.
Proof. exact resolved_once. Qed.
Print Assumptions C15_resolved_once.

(* Termination in bounded time WITHOUT assuming that anybody answers. `tdrive` is the engine in
   logical time together with a completely arbitrary network E (answers with any content, failures,
   silence) and the executor rule "a request outstanding for more than T time units is failed".
   For every such network, over a universe of n peers the lookup has emitted exactly one terminal
   action after at most (T+1)*n time units (n sequential round trips is the worst case: a chain in
   which every peer only knows the next one defeats both k and alpha), the times of the produced
   history are monotone (so the parallelism bound applies to it). *)
Theorem C15_timed_termination :
  forall c U E T seeds ticks pf,
  1 <= c_alpha c -> ~ In (c_local c) seeds -> (forall p, In p seeds -> In p U) -> net_in U E ->
  (2 * length U + 1 <= pf)%nat -> ((N.to_nat T + 1) * length U + 1 <= ticks)%nat ->
  let es := tdrive ticks pf c E T 0 (init c seeds) in
  done (fst (run c (init c seeds) es)) = true /\
  length (terminals (snd (run c (init c seeds) es))) = 1%nat /\
  mono 0 es /\
  (N.to_nat (clock 0 es) <= (N.to_nat T + 1) * length U)%nat.
Proof. exact timed_termination. Qed.
Print Assumptions C15_timed_termination.

(* ---- isolation of the queries of a shared engine ---- *)

(* the counter pending_responses is written before it is read: two states that differ only in it
   behave identically *)
Theorem C15_pr_irrelevant :
  forall c s s' e,
  peq s s' -> peq (fst (step c s e)) (fst (step c s' e)) /\ snd (step c s e) = snd (step c s' e).
Proof. exact step_peq. Qed.
Print Assumptions C15_pr_irrelevant.

(* an engine step that does not reach query i leaves query i untouched *)
Theorem C15_frame :
  forall eng m i c s,
  nth_error eng i = Some (c, s) -> events_of i (snd (mstep eng m)) = [] ->
  nth_error (fst (fst (mstep eng m))) i = Some (c, s).
Proof. exact mstep_frame. Qed.
Print Assumptions C15_frame.

(* for every polling order and every traffic of the other queries: query i ends (up to the
   irrelevant counter) in the state it reaches alone on its own essential events — the events
   addressed to it and the polls in which it acted *)
Theorem C15_query_isolation :
  forall ms eng i c s,
  nth_error eng i = Some (c, s) ->
  exists s', nth_error (fst (mrun eng ms)) i = Some (c, s') /\
             peq s' (fst (run c s (essential c s (events_of i (snd (mrun eng ms)))))).
Proof. exact query_isolation. Qed.
Print Assumptions C15_query_isolation.

(* dropping the polls that returned nothing changes neither the state nor the visible actions *)
Theorem C15_essential :
  forall c es s s',
  peq s s' ->
  peq (fst (run c s es)) (fst (run c s' (essential c s es))) /\
  visible (snd (run c s es)) = visible (snd (run c s' (essential c s es))).
Proof. exact essential_equiv. Qed.
Print Assumptions C15_essential.

(* two runs of a shared engine with different polling orders / different traffic for the other
   queries that bring the same essential events to query i leave it in the same state *)
Theorem C15_order_irrelevant :
  forall ms1 ms2 eng1 eng2 i c s,
  nth_error eng1 i = Some (c, s) -> nth_error eng2 i = Some (c, s) ->
  essential c s (events_of i (snd (mrun eng1 ms1))) = essential c s (events_of i (snd (mrun eng2 ms2))) ->
  exists s1 s2, nth_error (fst (mrun eng1 ms1)) i = Some (c, s1) /\
                nth_error (fst (mrun eng2 ms2)) i = Some (c, s2) /\ peq s1 s2.
Proof. exact order_irrelevant. Qed.
Print Assumptions C15_order_irrelevant.

(* the history fields are functions of the emitted actions: g_sent is the list of SendMessage peers *)
Theorem C15_sent_is_sends :
  forall c es s g, g_sent (snd (grun c s g es)) = g_sent g ++ sends (snd (run c s es)).
Proof. exact grun_sent. Qed.
Print Assumptions C15_sent_is_sends.

(* the shipped parallelism and replication factors satisfy the hypotheses used above *)
Theorem C15_default_config :
  1 <= V.gen.Consts.PARALLELISM_FACTOR /\ 1 <= V.gen.Consts.REPLICATION_FACTOR.
Proof. exact default_factors. Qed.
Print Assumptions C15_default_config.

(* ---- the distance function ---- *)

(* dist_inj holds for the real metric: XOR distances (Distance(a ^ b) on U256; C14_distance_compare_u256
   ties U256 to N.lxor) of distinct keys to the same target are distinct. What remains assumed is only that
   the SHA-256 keys of distinct peers are distinct. *)
Theorem C15_xor_dist_inj :
  forall c key target,
  (forall p q, key p = key q -> p = q) -> dist_inj (with_dist c (xor_dist key target)).
Proof. exact xor_dist_inj. Qed.
Print Assumptions C15_xor_dist_inj.

(* The lookup depends on the distance function only through the order it induces on the peers of the
   case: two distance functions that compare the peers of a universe U alike give, for every history over
   U, the same actions event by event (sends, partial results, terminal results with their lists) and
   states equal up to the distance labels. Hence the RANKS the harness feeds the model stand for the
   real 256-bit XOR distances, and every theorem of this file transfers between the two. *)
Theorem C15_rank_invariance :
  forall U d1 d2 c seeds es,
  (forall p q, In p U -> In q U -> (d1 p <? d1 q) = (d2 p <? d2 q) /\ (d1 p =? d1 q) = (d2 p =? d2 q)) ->
  (forall q, In q seeds -> In q U) -> (forall y, In y (c_kprov c) -> In (fst y) U) ->
  Forall (ev_inU U) es ->
  snd (run (with_dist c d1) (init (with_dist c d1) seeds) es) =
  snd (run (with_dist c d2) (init (with_dist c d2) seeds) es) /\
  srel U d1 d2 (fst (run (with_dist c d1) (init (with_dist c d1) seeds) es))
               (fst (run (with_dist c d2) (init (with_dist c d2) seeds) es)).
Proof. exact rank_invariance. Qed.
Print Assumptions C15_rank_invariance.

(* a rank that is strictly monotone in the real distance satisfies the hypothesis of C15_rank_invariance *)
Theorem C15_monotone_rank_ok :
  forall (U : list N) (d rank : N -> N),
  (forall p q, In p U -> In q U -> (rank p < rank q <-> d p < d q)) ->
  forall p q, In p U -> In q U -> (d p <? d q) = (rank p <? rank q) /\ (d p =? d q) = (rank p =? rank q).
Proof. exact monotone_rank_ok. Qed.
Print Assumptions C15_monotone_rank_ok.

(* ---- the whole QueryEngine: all eight query types, every entry point (coq/C15/Engine.v) ---- *)

(* the dispatch functions of the engine model are exactly the tables that tools/gen_c15_dispatch.py reads
   from query/mod.rs, message.rs, handle.rs and the three lookup contexts on every check: the variants of
   QueryType (with their context types), KademliaMessage, QueryAction and Quorum in source order; which
   message kinds register_response passes on per query type and what it does with the others; the
   context method each of register_response_failure / register_send_failure / register_send_success /
   next_peer_action / next_action calls per query type; register_peer_failure = send failure then
   response failure; the QueryAction variant on_query_succeeded / on_query_failed build per query type; the
   request each lookup context caches *)
Theorem C15_dispatch_in_sync :
  tbl_query_types = V.gen.KadDispatch.query_types /\
  tbl_message_kinds = V.gen.KadDispatch.message_kinds /\
  tbl_actions = V.gen.KadDispatch.query_actions /\
  tbl_quorum = V.gen.KadDispatch.quorum_variants /\
  tbl_response = V.gen.KadDispatch.response /\
  tbl_response_failure = V.gen.KadDispatch.register_response_failure /\
  tbl_send_failure = V.gen.KadDispatch.register_send_failure /\
  tbl_send_success = V.gen.KadDispatch.register_send_success /\
  tbl_next_action = V.gen.KadDispatch.next_action /\
  tbl_peer_action = V.gen.KadDispatch.next_peer_action /\
  tbl_peer_failure = V.gen.KadDispatch.peer_failure_calls /\
  tbl_success = V.gen.KadDispatch.success /\
  tbl_failed = V.gen.KadDispatch.failed /\
  tbl_request = V.gen.KadDispatch.request_ctor.
Proof. exact dispatch_in_sync. Qed.
Print Assumptions C15_dispatch_in_sync.

(* a lookup treats exactly the reply kind that matches its own request as an answer; a message of any
   other kind is a failure of that peer (so it resolves the request, and the peer has not "answered") *)
Theorem C15_accepts_lookup :
  forall t mk,
  (ctx_of t = CFindNode \/ ctx_of t = CGetRecord \/ ctx_of t = CGetProviders) ->
  (accepts t mk = true <-> mk = req_of t).
Proof. exact accepts_lookup. Qed.
Print Assumptions C15_accepts_lookup.

(* Refinement: after ANY history of engine calls (starts of all eight kinds incl. restarts of a live id,
   polls in any order, responses of any message kind, failures, send notifications, peer failures, for
   live, finished and unknown query ids), every lookup entry of the engine is in exactly the state that
   the single-query model of Model.v reaches from the entry's recorded seeds under the entry's recorded
   single-query events, it is not finished, and its configuration is the engine's. Hence every theorem
   above about `run c (init c seeds) es` holds for every lookup inside a shared engine. *)
Theorem C15_eng_lookup_is_model :
  forall g evs0 q t a b c seeds es s,
  xget q (fst (xrun g [] evs0)) = Some (QL t a b c seeds es s) ->
  s = fst (run c (init c seeds) es) /\ done s = false /\
  (ctx_of t = CFindNode /\ c_kind c = KFind \/ ctx_of t = CGetRecord /\ c_kind c = KRecord \/
   ctx_of t = CGetProviders /\ c_kind c = KProviders) /\
  c_k c = g_k g /\ c_alpha c = g_alpha g /\ c_local c = g_local g /\ c_dist c = g_dist g /\
  c_timeout c = g_timeout g.
Proof. exact eng_lookup_is_model. Qed.
Print Assumptions C15_eng_lookup_is_model.

(* Exactly-one at the engine level, for all eight query types: between two starts of the same id a query
   yields at most one terminal action (QueryFailed, FindNodeQuerySucceeded, PutRecordToFoundNodes,
   PutRecordQuerySucceeded, AddProviderToFoundNodes, AddProviderQuerySucceeded, GetRecordQueryDone,
   GetProvidersQueryDone); an id that is not live yields none; after its terminal action the id is gone *)
Theorem C15_eng_one_terminal :
  forall g evs0 q evs,
  forallb (fun ev => negb (starts q ev)) evs = true ->
  let e := fst (xrun g [] evs0) in
  (count_terminal q (snd (xrun g e evs)) <= 1)%nat /\
  (xget q e = None -> count_terminal q (snd (xrun g e evs)) = 0%nat) /\
  (count_terminal q (snd (xrun g e evs)) = 1%nat -> xget q (fst (xrun g e evs)) = None).
Proof. exact eng_one_terminal. Qed.
Print Assumptions C15_eng_one_terminal.

(* a terminal action comes from a live query and removes it *)
Theorem C15_eng_terminal_removes :
  forall g evs0 ev q,
  let e := fst (xrun g [] evs0) in
  terminal_about q (snd (xstep g e ev)) = true ->
  xget q e <> None /\ xget q (fst (xstep g e ev)) = None.
Proof. exact eng_terminal_removes. Qed.
Print Assumptions C15_eng_terminal_removes.

(* whatever arrives for a query id the engine does not know (late answers, failures, send notifications,
   peer failures, next_peer_action, a poll that picks it) changes nothing and yields nothing *)
Theorem C15_eng_stale_ignored :
  forall g e q ev,
  xget q e = None ->
  match ev with
  | XResp q' _ _ _ | XFail q' _ | XSendOk q' _ | XSendFail q' _ | XPeerFail q' _ | XPeerAct q' _ => q' = q
  | XNext _ ch => ch = q + 1
  | XStart _ _ _ _ _ _ _ => False
  end ->
  xstep g e ev = (e, XNone).
Proof. exact eng_stale_noop. Qed.
Print Assumptions C15_eng_stale_ignored.

(* frame: a call addressed to another query (a start, a response, a failure, a notification, a poll that
   picks another query) leaves query q exactly as it was *)
Theorem C15_eng_frame :
  forall g e q ev,
  match ev with
  | XStart q' _ _ _ _ _ _ | XResp q' _ _ _ | XFail q' _ | XSendOk q' _ | XSendFail q' _ | XPeerFail q' _
  | XPeerAct q' _ => q' <> q
  | XNext _ ch => ch <> 0 /\ ch <> q + 1
  end ->
  xget q (fst (xstep g e ev)) = xget q e.
Proof. exact frame. Qed.
Print Assumptions C15_eng_frame.

(* Resolution is complete: after register_peer_failure(q, p) — whatever the type of q — p is no longer an
   unresolved request / target of q (this is what Kademlia::disconnect_peer relies on); after
   register_response with a message of ANY kind, or register_response_failure, p is no longer an unresolved
   request of a lookup; after register_send_success / register_send_failure p is no longer an unresolved
   target of a send phase. So no pattern of replies and failures can leave a request hanging. *)
Theorem C15_eng_resolves :
  forall g evs0 q p ev,
  let e := fst (xrun g [] evs0) in
  match ev with
  | XPeerFail q' p' => q' = q /\ p' = p
  | XResp q' p' _ _ | XFail q' p' =>
      q' = q /\ p' = p /\ match xget q e with Some (QT _ _ _ _) => False | _ => True end
  | XSendOk q' p' | XSendFail q' p' =>
      q' = q /\ p' = p /\ match xget q e with Some (QL _ _ _ _ _ _ _) => False | _ => True end
  | _ => False
  end ->
  outstanding (fst (xstep g e ev)) q p = false.
Proof. exact eng_resolves. Qed.
Print Assumptions C15_eng_resolves.

(* Hand-over. When the engine reports FindNodeQuerySucceeded / PutRecordToFoundNodes /
   AddProviderToFoundNodes with peer list l, the action comes from a live entry of the engine; if that is
   a lookup (FindNode / PutRecord / AddProvider) then l is the verdict of Model.next_action on the recorded
   single-query history of that entry, and (distances injective, local peer not among the seeds) l
   satisfies the interface of C15_lookup_interface w.r.t. that history: distinct peers, never the local
   one, at most k, all contacted and responsive, exactly the k closest responders, not empty for k >= 1;
   the quorum handed on is the one the query was started with. If it is PutRecordToPeers, l is exactly
   the list the query was started with. A send phase never produces such an action. *)
Theorem C15_eng_handover :
  forall g evs now ch l a b,
  let e := fst (xrun g [] evs) in
  let act := snd (xstep g e (XNext now ch)) in
  (exists q, act = XFindNodeOk q l \/ act = XPutToFound q l a b \/ act = XAddProvToFound q l a b) ->
  exists q x, xget q e = Some x /\ about act = Some q /\
    match x with
    | QL t qtag qn c seeds es s =>
        c_kind c = KFind /\ c_k c = g_k g /\ c_local c = g_local g /\ c_dist c = g_dist g /\
        snd (next_action c (fst (run c (init c seeds) es)) now) = AFound l /\
        (dist_inj c -> ~ In (c_local c) seeds ->
         let gh := snd (grun c (init c seeds) (ghost0 seeds) es) in
         NoDup l /\ ~ In (c_local c) l /\ N.of_nat (List.length l) <= c_k c /\
         (forall p, In p l -> In p (g_answered gh) /\ In p (g_sent gh)) /\
         kclosest c (c_k c) (g_answered gh) l /\ (1 <= c_k c -> l <> []))
    | QM qtag qn peers => l = peers /\ a = qtag /\ b = qn
    | QT _ _ _ _ => False
    end.
Proof. exact handover. Qed.
Print Assumptions C15_eng_handover.

(* The send phases (PutRecordToFoundNodes / AddProviderToFoundNodes, target_peers.rs) terminate with one
   terminal action for every pattern of notifications: once every target has been reported on — send
   success, send failure or peer failure, in any order, interleaved with any calls that neither restart
   nor poll the query — no target is left, the number of acknowledged sends lies between the old count
   and the old count plus the number of open targets, and the next poll of the query yields
   PutRecordQuerySucceeded / AddProviderQuerySucceeded exactly when that number reaches the (clamped)
   quorum, QueryFailed otherwise, and removes the query. *)
Theorem C15_eng_send_phase_terminates :
  forall g q evs e t pd sc nd,
  xget q e = Some (QT t pd sc nd) ->
  forallb (passive q) evs = true ->
  (forall p, In p pd -> exists ev, In ev evs /\ resolves_target q p ev = true) ->
  exists sc', xget q (fst (xrun g e evs)) = Some (QT t [] sc' nd) /\
    sc <= sc' /\ sc' <= sc + N.of_nat (List.length pd) /\
    forall now,
      snd (xstep g (fst (xrun g e evs)) (XNext now (q + 1))) =
        (if nd <=? sc' then match t with TAddProviderToFoundNodes => XAddProvOk q | _ => XPutOk q end
         else XFailed q) /\
      xget q (fst (xstep g (fst (xrun g e evs)) (XNext now (q + 1)))) = None.
Proof. exact track_terminates. Qed.
Print Assumptions C15_eng_send_phase_terminates.

(* ... and not earlier: with a target still open a poll yields nothing and changes nothing *)
Theorem C15_eng_send_phase_waits :
  forall g e q t p pd sc nd now,
  xget q e = Some (QT t (p :: pd) sc nd) ->
  xstep g e (XNext now (q + 1)) = (xupd q (fun _ => QT t (p :: pd) sc nd) e, XNone).
Proof. exact track_waits. Qed.
Print Assumptions C15_eng_send_phase_waits.

(* PutRecordToPeers (find_many_nodes.rs): the first poll hands over exactly the given peers with the
   given quorum and removes the query *)
Theorem C15_eng_to_peers :
  forall g e q qtag qn peers now,
  xget q e = Some (QM qtag qn peers) ->
  xstep g e (XNext now (q + 1)) = (xdel q e, XPutToFound q peers qtag qn).
Proof. exact to_peers_immediate. Qed.
Print Assumptions C15_eng_to_peers.

(* a SendMessage of the engine comes from a live lookup, carries the request kind of that lookup's
   context (FIND_NODE / GET_VALUE / GET_PROVIDERS), and goes to the peer Model.next_action chose — so the
   single-query theorems (never local, never twice, gate, closest-first) govern every engine send *)
Theorem C15_eng_send_kind :
  forall g evs0 now ch q p mk,
  let e := fst (xrun g [] evs0) in
  snd (xstep g e (XNext now ch)) = XSend q p mk ->
  exists t a b c seeds es s, xget q e = Some (QL t a b c seeds es s) /\ mk = req_of t /\
    snd (next_action c s now) = ASend p.
Proof. exact eng_send_kind. Qed.
Print Assumptions C15_eng_send_kind.

(* never local, never twice — at the engine level: a SendMessage for query q goes to a peer that is not the
   local peer and that the recorded history of q has not been sent to; after the step the recorded history
   of q has exactly this one send more. By induction the sends of a query over its whole life are pairwise
   distinct and never the local peer, for every interleaving with other queries and every polling order. *)
Theorem C15_eng_send_fresh :
  forall g evs0 now ch q p mk,
  let e := fst (xrun g [] evs0) in
  snd (xstep g e (XNext now ch)) = XSend q p mk ->
  exists t a b c seeds es s,
    xget q e = Some (QL t a b c seeds es s) /\ mk = req_of t /\
    (dist_inj c -> ~ In (c_local c) seeds ->
     p <> g_local g /\ ~ In p (sends (snd (run c (init c seeds) es)))) /\
    exists s', xget q (fst (xstep g e (XNext now ch))) = Some (QL t a b c seeds (es ++ [ENext now]) s') /\
      sends (snd (run c (init c seeds) (es ++ [ENext now]))) = sends (snd (run c (init c seeds) es)) ++ [p].
Proof. exact eng_send_fresh. Qed.
Print Assumptions C15_eng_send_fresh.

(* non-vacuity of the engine model: a PUT_VALUE (quorum N(2), k = 2) over three peers — lookup, hand-over
   of the two responders, send phase with one acknowledged and one failed send, QueryFailed; meanwhile a
   PutRecordToPeers query with the same id space is handed over at its first poll *)
Example C15_engine_nonvacuous :
  let g := mkGc 2 2 5 0 (fun p => p) in
  let evs := [XStart 7 TPutRecord 2 2 0 [3; 1] []; XNext 0 8; XNext 0 8;
              XResp 7 1 MKFindNode (mkReply [2] None []); XResp 7 3 MKGetRecord (mkReply [] None []);
              XNext 1 8; XPeerFail 7 2; XNext 2 8;
              XStart 7 TPutRecordToFoundNodes 2 2 0 [1] []; XStart 9 TPutRecordToPeers 1 0 0 [5; 6] [];
              XNext 3 10; XSendOk 7 1; XNext 4 0] in
  snd (xrun g [] evs) =
    [XNone; XSend 7 1 MKFindNode; XSend 7 3 MKFindNode; XNone; XNone; XSend 7 2 MKFindNode; XNone;
     XPutToFound 7 [1] 2 2; XNone; XNone; XPutToFound 9 [5; 6] 1 0; XNone; XPutOk 7].
Proof. vm_compute. reflexivity. Qed.

(* non-vacuity: a FIND_NODE lookup (k = 2, alpha = 2) over five peers that learns closer peers,
   has one failure, and succeeds with the two closest responders *)
Example C15_nonvacuous :
  let c := mkCfg KFind 2 2 5 0 0 0 [] (fun p => p) in
  let es := [ENext 0; ENext 0; ENext 0; EResp 4 (mkReply [1; 2; 0] None []); ENext 1; EFail 3;
             ENext 1; EResp 1 (mkReply [] None []); EResp 2 (mkReply [3] None []); ENext 2; ENext 3] in
  snd (run c (init c [4; 3]) es) =
    [ASend 3; ASend 4; ANone; ANone; ASend 1; ANone; ASend 2; ANone; ANone; AFound [1; 2]; ANone].
Proof. vm_compute. reflexivity. Qed.

(* non-vacuity of the closed loop: GET_VALUE (quorum 2 of k = 3, alpha = 2) over four peers, every
   request failed by the environment: 3 sends, 3 failures, then QueryFailed *)
Example C15_closed_loop_nonvacuous :
  let c := mkCfg KRecord 3 2 5 0 2 0 [] (fun p => p) in
  snd (run c (init c [1; 2; 3]) (drive 34 c env_fail_all false (init c [1; 2; 3]))) =
    [ASend 1; ASend 2; ANone; ANone; ASend 3; ANone; ANone; ANone; ANone; AFailed].
Proof. vm_compute. reflexivity. Qed.

(* non-vacuity of the timed loop: FIND_NODE (k = 2, alpha = 1, request timeout 2) over a chain of
   three silent peers known from the start: three sequential timeouts, then QueryFailed at time 9 *)
Example C15_timed_nonvacuous :
  let c := mkCfg KFind 2 1 5 0 0 0 [] (fun p => p) in
  let es := tdrive 40 9 c (mkTenv (fun _ _ => [])) 2 0 (init c [1; 2; 3]) in
  visible (snd (run c (init c [1; 2; 3]) es)) = [ASend 1; ASend 2; ASend 3; AFailed] /\
  clock 0 es = 9.
Proof. vm_compute. split; reflexivity. Qed.
