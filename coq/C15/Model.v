(* C15 — executable model of litep2p's iterative Kademlia lookups
   (src/protocol/libp2p/kademlia/query/{find_node,get_record,get_providers,mod}.rs).
   Definitions only; proofs are in Proofs.v.

   One lookup query inside a QueryEngine: FindNodeContext (also used by PUT_VALUE / ADD_PROVIDER
   lookups), GetRecordContext, GetProvidersContext, plus the QueryEngine wrapper that removes
   the query when it yields its terminal action (`done`).

   Abstractions (all diffed by the correspondence harness):
   - peers are numbers; the XOR distance of a peer to the target is `c_dist c p` (the harness
     supplies the rank of the real SHA-256 distance among the peers of the case);
   - BTreeMap<Distance, _> = association list sorted by strictly increasing distance,
     HashMap/HashSet = lists (dumps are sorted before they are compared);
   - time is a logical clock; `ENext now` is a call of `next_action` at time `now`;
   - records are (id, expired?) pairs, provider entries are (peer, address ids);
   - FindNodeContext::next_action follows the REPAIRED code (fix F-C15a): the counter
     `pending_responses` is recomputed as the number of pending peers that have not exceeded
     the peer timeout, instead of being decremented again for every stale peer on every call;
   - GetRecordContext follows the repaired code (fix F-C15b): `found_records` starts at 0 — a
     local record is counted once, through `known_records` — and GetProvidersContext follows
     the repaired code (fix F-C15c): the lookup fails only when neither the local store nor the
     network produced a provider. *)
From Coq Require Import List NArith Bool.
Import ListNotations.
Open Scope N_scope.

Inductive kind := KFind | KRecord | KProviders.

Record cfg := mkCfg {
  c_kind : kind;
  c_k : N;                          (* replication factor *)
  c_alpha : N;                      (* parallelism factor *)
  c_timeout : N;                    (* FindNodeContext::peer_timeout *)
  c_local : N;                      (* local peer *)
  c_needed : N;                     (* GetRecord: records the quorum asks for *)
  c_known : N;                      (* GetRecordConfig::known_records (0 or 1) *)
  c_kprov : list (N * list N);      (* GetProvidersConfig::known_providers *)
  c_dist : N -> N                   (* distance of a peer to the target *)
}.

Record state := mkSt {
  cands : list (N * N);             (* candidates: (distance, peer), sorted by distance *)
  pend : list (N * N);              (* pending: (peer, time the request was scheduled) *)
  queried : list N;                 (* queried *)
  resps : list (N * N);             (* FindNode responses: (distance, peer), sorted *)
  pr : N;                           (* FindNodeContext::pending_responses *)
  found : N;                        (* GetRecordContext::found_records *)
  recq : list (N * N);              (* GetRecordContext::records: (peer, record id) *)
  provs : list (N * list N);        (* GetProvidersContext::found_providers *)
  done : bool                       (* the engine has removed the query *)
}.

Record reply := mkReply {
  r_peers : list N;                 (* closer peers *)
  r_rec : option (N * bool);        (* GET_VALUE: record id, expired? *)
  r_provs : list (N * list N)       (* GET_PROVIDERS: provider entries *)
}.

Inductive event :=
| ENext (now : N)                   (* QueryEngine::next_action *)
| EResp (p : N) (r : reply)         (* register_response with a message of the right type *)
| EFail (p : N)                     (* register_response_failure / wrong message type *)
| ENoop (p : N).                    (* register_send_success / register_send_failure *)

Inductive action :=
| ANone
| ASend (p : N)
| AFailed
| AFound (peers : list N)           (* FindNodeQuerySucceeded / PutRecordToFoundNodes peers *)
| APartial (p r : N)                (* GetRecordPartialResult *)
| ARecDone                          (* GetRecordQueryDone *)
| AProvDone (l : list (N * list N)).  (* GetProvidersQueryDone providers *)

Definition is_terminal (a : action) : bool :=
  match a with AFailed | AFound _ | ARecDone | AProvDone _ => true | _ => false end.

(* ---- containers ---- *)
Definition mem (p : N) (l : list N) : bool := existsb (N.eqb p) l.
Definition pmem (p : N) (l : list (N * N)) : bool := existsb (fun x => fst x =? p) l.
Definition premove (p : N) (l : list (N * N)) : list (N * N) :=
  filter (fun x => negb (fst x =? p)) l.
Definition set_add (p : N) (l : list N) : list N := if mem p l then l else l ++ [p].

(* BTreeMap::insert on a list sorted by key *)
Fixpoint cins (d p : N) (l : list (N * N)) : list (N * N) :=
  match l with
  | [] => [(d, p)]
  | (d', p') :: t =>
      if d <? d' then (d, p) :: l
      else if d =? d' then (d, p) :: t
      else (d', p') :: cins d p t
  end.

Fixpoint last_opt {A} (l : list A) : option A :=
  match l with [] => None | [x] => Some x | _ :: t => last_opt t end.

(* the filter_map + insert loop at the end of every register_response *)
Fixpoint add_cands (c : cfg) (qd : list N) (pd : list (N * N)) (peers : list N)
         (cs : list (N * N)) : list (N * N) :=
  match peers with
  | [] => cs
  | p :: t =>
      add_cands c qd pd t
        (if mem p qd || pmem p pd || (p =? c_local c) then cs else cins (c_dist c p) p cs)
  end.

(* FindNodeContext::register_response, the `responses` window *)
Definition resp_insert (k d p : N) (rs : list (N * N)) : list (N * N) :=
  if N.of_nat (length rs) <? k then cins d p rs
  else
    let fd := match last_opt rs with Some x => fst x | None => d end in
    if d <? fd then
      let rs' := cins d p rs in
      if k <? N.of_nat (length rs') then removelast rs' else rs'
    else rs.

(* number of pending peers that have not exceeded the peer timeout at time `now` *)
Definition is_fresh (timeout now : N) (x : N * N) : bool := now - snd x <=? timeout.
Definition count_fresh (timeout now : N) (l : list (N * N)) : N :=
  N.of_nat (length (filter (is_fresh timeout now) l)).

(* ---- GetProvidersContext::merge_and_sort_providers ---- *)
Fixpoint ins_addr (a : N) (l : list N) : list N :=
  match l with
  | [] => [a]
  | h :: t => if a <? h then a :: l else if a =? h then l else h :: ins_addr a t
  end.
Definition addr_set (l : list N) : list N := fold_right ins_addr [] l.

Fixpoint merge_add (p : N) (addrs : list N) (acc : list (N * list N)) : list (N * list N) :=
  match acc with
  | [] => [(p, addrs)]
  | (q, a) :: t => if q =? p then (q, a ++ addrs) :: t else (q, a) :: merge_add p addrs t
  end.
Fixpoint merge_all (l : list (N * list N)) (acc : list (N * list N)) : list (N * list N) :=
  match l with [] => acc | (p, a) :: t => merge_all t (merge_add p a acc) end.
Fixpoint ins_prov (dist : N -> N) (x : N * list N) (l : list (N * list N)) : list (N * list N) :=
  match l with
  | [] => [x]
  | h :: t => if dist (fst x) <? dist (fst h) then x :: l else h :: ins_prov dist x t
  end.
Definition merge_providers (c : cfg) (l : list (N * list N)) : list (N * list N) :=
  fold_right (ins_prov (c_dist c)) []
    (map (fun x => (fst x, addr_set (snd x))) (merge_all l [])).

(* ---- state updates ---- *)
Definition init (c : cfg) (seeds : list N) : state :=
  mkSt (fold_left (fun acc p => cins (c_dist c p) p acc) seeds []) [] [] [] 0 0 [] [] false.

Definition finish (s : state) (a : action) : state * action :=
  (mkSt (cands s) (pend s) (queried s) (resps s) (pr s) (found s) (recq s) (provs s) true, a).

(* schedule_next_peer *)
Definition schedule (c : cfg) (s : state) (now : N) : state * action :=
  match cands s with
  | [] => (s, ANone)
  | (_, p) :: t =>
      (mkSt t (premove p (pend s) ++ [(p, now)]) (queried s) (resps s)
            (match c_kind c with KFind => pr s + 1 | _ => pr s end)
            (found s) (recq s) (provs s) (done s), ASend p)
  end.

Definition is_done (s : state) : bool :=
  match pend s, cands s with [], [] => true | _, _ => false end.

Definition set_pr (s : state) (n : N) : state :=
  mkSt (cands s) (pend s) (queried s) (resps s) n (found s) (recq s) (provs s) (done s).

Definition next_find (c : cfg) (s : state) (now : N) : state * action :=
  if is_done s then
    match resps s with [] => finish s AFailed | _ => finish s (AFound (map snd (resps s))) end
  else
    let s1 := set_pr s (count_fresh (c_timeout c) now (pend s)) in
    if pr s1 =? c_alpha c then (s1, ANone)
    else if N.of_nat (length (resps s1)) <? c_k c then schedule c s1 now
    else
      match cands s1, last_opt (resps s1) with
      | (_, cp) :: _, Some (wd, _) =>
          if c_dist c cp <? wd then schedule c s1 now
          else finish s1 (AFound (map snd (resps s1)))
      | _, _ => finish s1 (AFound (map snd (resps s1)))
      end.

Definition next_record (c : cfg) (s : state) (now : N) : state * action :=
  match recq s with
  | (p, r) :: t =>
      (mkSt (cands s) (pend s) (queried s) (resps s) (pr s) (found s) t (provs s) (done s),
       APartial p r)
  | [] =>
      if is_done s then
        (if c_known c + found s =? 0 then finish s AFailed else finish s ARecDone)
      else if c_needed c <=? c_known c + found s then finish s ARecDone
      else if N.of_nat (length (pend s)) =? c_alpha c then (s, ANone)
      else schedule c s now
  end.

Definition next_providers (c : cfg) (s : state) (now : N) : state * action :=
  if is_done s then
    match c_kprov c ++ provs s with
    | [] => finish s AFailed
    | _ => finish s (AProvDone (merge_providers c (c_kprov c ++ provs s)))
    end
  else if N.of_nat (length (pend s)) =? c_alpha c then (s, ANone)
  else schedule c s now.

Definition next_action (c : cfg) (s : state) (now : N) : state * action :=
  if done s then (s, ANone)
  else match c_kind c with
       | KFind => next_find c s now
       | KRecord => next_record c s now
       | KProviders => next_providers c s now
       end.

(* register_response_failure *)
Definition on_failure (c : cfg) (s : state) (p : N) : state :=
  if done s then s
  else if pmem p (pend s) then
    mkSt (cands s) (premove p (pend s)) (set_add p (queried s)) (resps s)
         (match c_kind c with KFind => pr s - 1 | _ => pr s end)
         (found s) (recq s) (provs s) (done s)
  else s.

(* register_response *)
Definition on_response (c : cfg) (s : state) (p : N) (r : reply) : state :=
  if done s then s
  else if pmem p (pend s) then
    let pd := premove p (pend s) in
    let qd := set_add p (queried s) in
    let cs := add_cands c qd pd (r_peers r) (cands s) in
    match c_kind c with
    | KFind =>
        mkSt cs pd qd (resp_insert (c_k c) (c_dist c p) p (resps s)) (pr s - 1)
             (found s) (recq s) (provs s) (done s)
    | KRecord =>
        match r_rec r with
        | Some (id, false) =>
            mkSt cs pd qd (resps s) (pr s) (found s + 1) (recq s ++ [(p, id)]) (provs s) (done s)
        | _ => mkSt cs pd qd (resps s) (pr s) (found s) (recq s) (provs s) (done s)
        end
    | KProviders =>
        mkSt cs pd qd (resps s) (pr s) (found s) (recq s) (provs s ++ r_provs r) (done s)
    end
  else s.

Definition step (c : cfg) (s : state) (e : event) : state * action :=
  match e with
  | ENext now => next_action c s now
  | EResp p r => (on_response c s p r, ANone)
  | EFail p => (on_failure c s p, ANone)
  | ENoop _ => (s, ANone)
  end.

Fixpoint run (c : cfg) (s : state) (es : list event) : state * list action :=
  match es with
  | [] => (s, [])
  | e :: t =>
      let '(s1, a) := step c s e in
      let '(s2, l) := run c s1 t in (s2, a :: l)
  end.

(* ---- history observers (ghost state: computed from the run, never read by the model) ---- *)
Record ghost := mkG {
  g_sent : list N;                  (* peers a SendMessage was issued for, oldest first *)
  g_answered : list N;              (* peers whose response was accepted *)
  g_known : list N;                 (* every peer the lookup learned of *)
  g_got : list (N * N);             (* (peer, record) pairs accepted from responses *)
  g_emitted : list (N * N);         (* (peer, record) pairs emitted as partial results *)
  g_provs : list (N * list N);      (* provider entries accepted from responses *)
  g_term : list action              (* terminal actions emitted *)
}.

Definition ghost0 (seeds : list N) : ghost := mkG [] [] seeds [] [] [] [].

(* an event is effective when it resolves an outstanding request of a live query *)
Definition effective (s : state) (p : N) : bool := negb (done s) && pmem p (pend s).

Definition gstep (c : cfg) (s : state) (g : ghost) (e : event) (a : action) : ghost :=
  match e with
  | ENext _ =>
      mkG (match a with ASend p => g_sent g ++ [p] | _ => g_sent g end)
          (g_answered g) (g_known g) (g_got g)
          (match a with APartial p r => g_emitted g ++ [(p, r)] | _ => g_emitted g end)
          (g_provs g)
          (if is_terminal a then g_term g ++ [a] else g_term g)
  | EResp p r =>
      if effective s p then
        mkG (g_sent g) (g_answered g ++ [p]) (g_known g ++ r_peers r)
            (match c_kind c, r_rec r with
             | KRecord, Some (id, false) => g_got g ++ [(p, id)]
             | _, _ => g_got g
             end)
            (g_emitted g)
            (match c_kind c with KProviders => g_provs g ++ r_provs r | _ => g_provs g end)
            (g_term g)
      else g
  | _ => g
  end.

Fixpoint grun (c : cfg) (s : state) (g : ghost) (es : list event) : state * ghost :=
  match es with
  | [] => (s, g)
  | e :: t => let '(s1, a) := step c s e in grun c s1 (gstep c s g e a) t
  end.

(* times of the ENext events never go backwards *)
Fixpoint mono (now : N) (es : list event) : Prop :=
  match es with
  | [] => True
  | ENext t :: r => now <= t /\ mono t r
  | _ :: r => mono now r
  end.
Fixpoint clock (now : N) (es : list event) : N :=
  match es with
  | [] => now
  | ENext t :: r => clock t r
  | _ :: r => clock now r
  end.

(* ---- observers of an action list ---- *)
Fixpoint sends (l : list action) : list N :=
  match l with [] => [] | ASend p :: t => p :: sends t | _ :: t => sends t end.
Fixpoint partials (l : list action) : list (N * N) :=
  match l with [] => [] | APartial p r :: t => (p, r) :: partials t | _ :: t => partials t end.
Definition terminals (l : list action) : list action := filter is_terminal l.

(* requests that count towards the parallelism factor at time `now` *)
Definition in_flight (c : cfg) (now : N) (pd : list (N * N)) : N :=
  match c_kind c with
  | KFind => count_fresh (c_timeout c) now pd
  | _ => N.of_nat (length pd)
  end.

(* strictly increasing distance to the target *)
Fixpoint dsorted (c : cfg) (l : list N) : Prop :=
  match l with
  | [] => True
  | p :: t => (forall q, In q t -> c_dist c p < c_dist c q) /\ dsorted c t
  end.

(* productive steps: a SendMessage, or a response / failure that resolves an outstanding request *)
Definition productive (s : state) (e : event) (a : action) : bool :=
  match a with
  | ASend _ => true
  | _ => match e with EResp p _ => effective s p | EFail p => effective s p | _ => false end
  end.
Fixpoint count_productive (c : cfg) (s : state) (es : list event) : nat :=
  match es with
  | [] => O
  | e :: t => let '(s1, a) := step c s e in
              ((if productive s e a then 1 else 0) + count_productive c s1 t)%nat
  end.

(* ---- vocabulary for the GET_PROVIDERS result ---- *)
(* everything reported for peer p, in report order *)
Definition addrs_of (p : N) (l : list (N * list N)) : list N :=
  flat_map (fun x : N * list N => if fst x =? p then snd x else []) l.
(* strictly increasing (hence duplicate-free) address list *)
Fixpoint asorted (l : list N) : Prop :=
  match l with [] => True | a :: t => (forall b, In b t -> a < b) /\ asorted t end.

(* ---- the closed loop: engine + adaptive environment ---- *)
(* The environment sees the whole query state. At every turn it either resolves an outstanding
   request (answer with an arbitrary reply, or fail it) or lets the engine run `next_action` at a
   time of its choosing. `idle` tells it that the last `next_action` call returned nothing. *)
Record env := mkEnv {
  e_time : state -> N;
  e_move : bool -> state -> option (N * option reply)
}.

Fixpoint drive (fuel : nat) (c : cfg) (E : env) (idle : bool) (s : state) : list event :=
  match fuel with
  | O => []
  | S f =>
      if done s then []
      else match e_move E idle s with
           | Some (p, Some r) => EResp p r :: drive f c E false (on_response c s p r)
           | Some (p, None) => EFail p :: drive f c E false (on_failure c s p)
           | None =>
               let now := e_time E s in
               ENext now ::
               drive f c E (match snd (next_action c s now) with ANone => true | _ => false end)
                     (fst (next_action c s now))
           end
  end.

(* Fairness: the environment only resolves requests that are outstanding (with peers from the
   universe U), and once the engine has gone idle with a request outstanding it resolves one of
   them before it calls `next_action` again — every outstanding request is eventually answered
   or failed, in any order and with any content. *)
Definition fair (U : list N) (E : env) : Prop :=
  forall idle s, done s = false ->
    match e_move E idle s with
    | Some (p, r) =>
        In p (map fst (pend s)) /\
        match r with Some rp => forall q, In q (r_peers rp) -> In q U | None => True end
    | None => idle = false \/ pend s = []
    end.

(* ---- QueryEngine::next_peer_action: the message for a peer, if the query waits for it ---- *)
Definition peer_msg (s : state) (p : N) : bool := effective s p.

(* ---- several queries in one QueryEngine ---- *)
(* The engine is a list of (configuration, query state); the index is the QueryId. *)
Definition engine := list (cfg * state).

Inductive mevent :=
| MNext (now choice : N)   (* QueryEngine::next_action; choice = i+1: query i is the one that is
                              polled (HashMap order is the implementation's choice, supplied as an
                              input); choice = 0: queries are polled in index order until one acts *)
| MEv (q : N) (e : event). (* an event addressed to query q *)

Fixpoint upd {A} (i : nat) (x : A) (l : list A) : list A :=
  match l, i with
  | [], _ => []
  | _ :: t, O => x :: t
  | h :: t, S j => h :: upd j x t
  end.

(* poll the queries in order; stop at the first one that acts. Returns the engine, the action
   and the number of queries polled *)
Fixpoint scan (now : N) (eng : engine) : engine * action * nat :=
  match eng with
  | [] => ([], ANone, O)
  | (c, s) :: t =>
      let '(s', a) := next_action c s now in
      match a with
      | ANone => let '(t', a', n) := scan now t in ((c, s') :: t', a', S n)
      | _ => ((c, s') :: t, a, 1%nat)
      end
  end.

(* one engine step: new engine, action, and the log of (query index, event) pairs that were
   actually applied to individual queries *)
Definition mstep (eng : engine) (m : mevent) : engine * action * list (nat * event) :=
  match m with
  | MNext now 0 =>
      let '(eng', a, n) := scan now eng in (eng', a, map (fun i => (i, ENext now)) (seq 0 n))
  | MNext now ch =>
      let i := N.to_nat (ch - 1) in
      match nth_error eng i with
      | Some (c, s) => let '(s', a) := next_action c s now in (upd i (c, s') eng, a, [(i, ENext now)])
      | None => (eng, ANone, [])
      end
  | MEv q e =>
      let i := N.to_nat q in
      match nth_error eng i with
      | Some (c, s) => let '(s', a) := step c s e in (upd i (c, s') eng, a, [(i, e)])
      | None => (eng, ANone, [])
      end
  end.

Fixpoint mrun (eng : engine) (ms : list mevent) : engine * list (nat * event) :=
  match ms with
  | [] => (eng, [])
  | m :: t =>
      let '(eng1, _, lg) := mstep eng m in
      let '(eng2, lg2) := mrun eng1 t in (eng2, lg ++ lg2)
  end.

(* the events that reached query i, in order *)
Definition events_of (i : nat) (lg : list (nat * event)) : list event :=
  map snd (filter (fun x => Nat.eqb (fst x) i) lg).

(* ---- "exactly the k closest of the peers in `ans`" ---- *)
Definition kclosest (c : cfg) (k : N) (ans l : list N) : Prop :=
  (forall p, In p l -> In p ans) /\
  dsorted c l /\
  N.of_nat (length l) <= k /\
  (forall q, In q ans -> ~ In q l ->
     N.of_nat (length l) = k /\ forall w, In w l -> c_dist c w < c_dist c q).

(* nothing is outstanding and every peer the lookup learned of (except itself) was contacted *)
Definition exhausted_at (c : cfg) (s : state) (g : ghost) : Prop :=
  pend s = [] /\ forall p, In p (g_known g) -> p <> c_local c -> In p (g_sent g).

(* ---- isolation of queries: the counter `pr` is write-before-read ---- *)
(* equal up to FindNodeContext::pending_responses *)
Definition peq (s s' : state) : Prop :=
  cands s' = cands s /\ pend s' = pend s /\ queried s' = queried s /\ resps s' = resps s /\
  found s' = found s /\ recq s' = recq s /\ provs s' = provs s /\ done s' = done s.

(* the events of a history that matter: polls that returned nothing are dropped *)
Fixpoint essential (c : cfg) (s : state) (es : list event) : list event :=
  match es with
  | [] => []
  | e :: t =>
      let '(s1, a) := step c s e in
      match e, a with
      | ENext _, ANone => essential c s1 t
      | _, _ => e :: essential c s1 t
      end
  end.

Definition visible (l : list action) : list action :=
  filter (fun a => match a with ANone => false | _ => true end) l.

(* ---- the timed closed loop: engine + request timeouts + an arbitrary (possibly silent) network ---- *)
(* The executor layer around the engine (executor.rs: READ_TIMEOUT / WRITE_TIMEOUT) fails a request
   that has been outstanding for more than T time units; that is the only thing that is assumed
   about the network. Time advances in ticks of one unit. Per tick: the engine is polled until it
   has nothing to do, the network delivers whatever it likes (answers with arbitrary content,
   failures, nothing at all), the clock advances, and the requests older than T are failed. *)
Definition expired (T now : N) (x : N * N) : bool := T <? now - snd x.
Definition expire_events (T now : N) (pd : list (N * N)) : list event :=
  map (fun x => EFail (fst x)) (filter (expired T now) pd).

Fixpoint poll_events (fuel : nat) (c : cfg) (s : state) (now : N) : list event :=
  match fuel with
  | O => []
  | S f =>
      if done s then []
      else ENext now :: match snd (next_action c s now) with
                        | ANone => []
                        | _ => poll_events f c (fst (next_action c s now)) now
                        end
  end.

Record tenv := mkTenv { t_net : N -> state -> list (N * option reply) }.

Definition net_event (x : N * option reply) : event :=
  match snd x with Some r => EResp (fst x) r | None => EFail (fst x) end.

Fixpoint tdrive (ticks pf : nat) (c : cfg) (E : tenv) (T now : N) (s : state) : list event :=
  match ticks with
  | O => []
  | S k =>
      if done s then []
      else
        let ep := poll_events pf c s now in
        let s1 := fst (run c s ep) in
        if done s1 then ep
        else
          let en := map net_event (t_net E now s1) in
          let s2 := fst (run c s1 en) in
          let ex := expire_events T (now + 1) (pend s2) in
          let s3 := fst (run c s2 ex) in
          ep ++ en ++ ex ++ tdrive k pf c E T (now + 1) s3
  end.

(* the only requirement on the network: the peers it mentions come from the universe U *)
Definition net_in (U : list N) (E : tenv) : Prop :=
  forall now s x r, In x (t_net E now s) -> snd x = Some r -> forall q, In q (r_peers r) -> In q U.
