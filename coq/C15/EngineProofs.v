(* C15 — proofs about the engine-level model (Engine.v). *)
From Coq Require Import List PeanoNat NArith Bool Lia ZifyBool ZifyNat ZifyN String.
From V.gen Require KadDispatch.
From V.C15 Require Import Model Proofs Engine.
Import ListNotations.
Open Scope N_scope.

Arguments N.add : simpl never.
Arguments N.sub : simpl never.
Arguments N.eqb : simpl never.
Arguments N.ltb : simpl never.
Arguments N.leb : simpl never.
Arguments N.of_nat : simpl never.

(* ------------------------------------------------------------------ the dispatch tables *)

(* the hand-written dispatch functions of Engine.v are exactly what the translator reads from the
   Rust source (coq/gen/KadDispatch.v is regenerated on every check) *)
Lemma dispatch_in_sync :
  tbl_query_types = KadDispatch.query_types /\
  tbl_message_kinds = KadDispatch.message_kinds /\
  tbl_actions = KadDispatch.query_actions /\
  tbl_quorum = KadDispatch.quorum_variants /\
  tbl_response = KadDispatch.response /\
  tbl_response_failure = KadDispatch.register_response_failure /\
  tbl_send_failure = KadDispatch.register_send_failure /\
  tbl_send_success = KadDispatch.register_send_success /\
  tbl_next_action = KadDispatch.next_action /\
  tbl_peer_action = KadDispatch.next_peer_action /\
  tbl_peer_failure = KadDispatch.peer_failure_calls /\
  tbl_success = KadDispatch.success /\
  tbl_failed = KadDispatch.failed /\
  tbl_request = KadDispatch.request_ctor.
Proof. repeat split; vm_compute; reflexivity. Qed.

(* a lookup passes on exactly the reply kind that matches the request it sends; everything else is a
   failure of that peer *)
Lemma accepts_lookup : forall t mk,
  (ctx_of t = CFindNode \/ ctx_of t = CGetRecord \/ ctx_of t = CGetProviders) ->
  (accepts t mk = true <-> mk = req_of t).
Proof.
  intros t mk H. destruct t; cbn in H; destruct H as [H | [H | H]]; try discriminate;
    destruct mk; cbn; split; intros X; try reflexivity; try discriminate.
Qed.

(* ------------------------------------------------------------------ association lists *)

Lemma xget_in : forall q e x, xget q e = Some x -> In (q, x) e.
Proof.
  intros q e. induction e as [| [q' y] t IH]; intros x H; [discriminate |]. cbn [xget] in H.
  destruct (N.eqb_spec q' q) as [E | E].
  - injection H as <-. subst q'. left. reflexivity.
  - right. apply IH. exact H.
Qed.

Lemma xget_keys : forall q e, xget q e <> None <-> In q (map fst e).
Proof.
  intros q e. induction e as [| [q' y] t IH]; cbn [xget map In fst]; [tauto |].
  destruct (N.eqb_spec q' q) as [E | E].
  - split; [intros _; left; exact E | intros _; discriminate].
  - rewrite IH. split; [intros H; right; exact H | intros [H | H]; [contradiction | exact H]].
Qed.

Lemma xget_none : forall q e, xget q e = None <-> ~ In q (map fst e).
Proof.
  intros q e. rewrite <- xget_keys. destruct (xget q e) as [x |].
  - split; [intros H; discriminate | intros H; exfalso; apply H; discriminate].
  - split; [intros _ X; apply X; reflexivity | reflexivity].
Qed.

Lemma in_xget : forall q x e, NoDup (map fst e) -> In (q, x) e -> xget q e = Some x.
Proof.
  intros q x e. induction e as [| [q' y] t IH]; intros Hn Hi; [destruct Hi |].
  cbn [map fst] in Hn. inversion Hn as [| a l Hnot Hn' Eq]; subst. cbn [xget].
  destruct Hi as [Hi | Hi].
  - injection Hi as -> ->. rewrite N.eqb_refl. reflexivity.
  - destruct (N.eqb_spec q' q) as [E | E].
    + exfalso. apply Hnot. subst q'. apply in_map_iff. exists (q, x). split; [reflexivity | exact Hi].
    + apply IH; assumption.
Qed.

Lemma xupd_keys : forall q f e, map fst (xupd q f e) = map fst e.
Proof.
  intros q f e. unfold xupd. rewrite map_map. apply map_ext. intros [k v]. cbn [fst].
  destruct (k =? q); reflexivity.
Qed.

Lemma xget_xupd_same : forall q f e, xget q (xupd q f e) = option_map f (xget q e).
Proof.
  intros q f e. induction e as [| [q' y] t IH]; [reflexivity |]. cbn [xupd map fst snd xget].
  destruct (N.eqb_spec q' q) as [E | E]; cbn [xget fst].
  - rewrite (proj2 (N.eqb_eq q' q) E). reflexivity.
  - rewrite (proj2 (N.eqb_neq q' q) E). exact IH.
Qed.

Lemma xget_xupd_other : forall q q' f e, q' <> q -> xget q (xupd q' f e) = xget q e.
Proof.
  intros q q' f e Hne. induction e as [| [k y] t IH]; [reflexivity |]. cbn [xupd map fst snd xget].
  destruct (N.eqb_spec k q') as [E | E]; cbn [xget fst].
  - subst k. rewrite (proj2 (N.eqb_neq q' q) Hne). exact IH.
  - destruct (k =? q); [reflexivity | exact IH].
Qed.

Lemma xupd_absent : forall q f e, ~ In q (map fst e) -> xupd q f e = e.
Proof.
  intros q f e. induction e as [| [k y] t IH]; intros H; [reflexivity |]. cbn [xupd map fst snd].
  cbn [map fst In] in H. destruct (N.eqb_spec k q) as [E | E].
  - exfalso. apply H. left. exact E.
  - f_equal. apply IH. intros X. apply H. right. exact X.
Qed.

Lemma xdel_keys : forall q e k, In k (map fst (xdel q e)) <-> In k (map fst e) /\ k <> q.
Proof.
  intros q e k. unfold xdel. rewrite !in_map_iff. split.
  - intros [[a b] [E H]]. apply filter_In in H. destruct H as [H1 H2]. cbn [fst] in *. subst a.
    apply negb_true_iff in H2. apply N.eqb_neq in H2. split; [exists (k, b); split; [reflexivity | exact H1] | exact H2].
  - intros [[[a b] [E H]] Hne]. cbn [fst] in E. subst a. exists (k, b). split; [reflexivity |].
    apply filter_In. split; [exact H |]. cbn [fst]. apply negb_true_iff. apply N.eqb_neq. exact Hne.
Qed.

Lemma xget_xdel_same : forall q e, xget q (xdel q e) = None.
Proof. intros q e. apply xget_none. intros H. apply xdel_keys in H. destruct H as [_ H]. apply H. reflexivity. Qed.

Lemma xget_xdel_other : forall q q' e, q' <> q -> xget q (xdel q' e) = xget q e.
Proof.
  intros q q' e Hne. induction e as [| [k y] t IH]; [reflexivity |]. cbn [xdel filter fst].
  destruct (N.eqb_spec k q') as [E | E]; cbn [negb xget].
  - subst k. rewrite (proj2 (N.eqb_neq q' q) Hne). exact IH.
  - destruct (k =? q); [reflexivity | exact IH].
Qed.

Lemma xget_app_last : forall q x e, xget q e = None -> xget q (e ++ [(q, x)]) = Some x.
Proof.
  intros q x e. induction e as [| [k y] t IH]; intros H; cbn [app xget].
  - rewrite N.eqb_refl. reflexivity.
  - cbn [xget] in H. destruct (k =? q); [discriminate | apply IH; exact H].
Qed.

Lemma xget_app_other : forall q q' x e, q' <> q -> xget q (e ++ [(q', x)]) = xget q e.
Proof.
  intros q q' x e Hne. induction e as [| [k y] t IH]; cbn [app xget].
  - rewrite (proj2 (N.eqb_neq q' q) Hne). reflexivity.
  - destruct (k =? q); [reflexivity | exact IH].
Qed.

Lemma xget_xset_same : forall q x e, xget q (xset q x e) = Some x.
Proof. intros. unfold xset. apply xget_app_last. apply xget_xdel_same. Qed.

Lemma xget_xset_other : forall q q' x e, q' <> q -> xget q (xset q' x e) = xget q e.
Proof. intros. unfold xset. rewrite xget_app_other by assumption. apply xget_xdel_other. assumption. Qed.

Lemma NoDup_filter_keys : forall (f : N * qstate -> bool) e, NoDup (map fst e) -> NoDup (map fst (filter f e)).
Proof.
  intros f e. induction e as [| kv t IH]; intros H; [constructor |]. cbn [map] in H.
  inversion H as [| a l Hn Hd Eq]; subst. cbn [filter]. destruct (f kv).
  - cbn [map]. constructor; [| apply IH; exact Hd]. intros X. apply Hn.
    apply in_map_iff in X. destruct X as [y [E Hy]]. apply filter_In in Hy. apply in_map_iff. exists y. tauto.
  - apply IH. exact Hd.
Qed.

Definition wf (e : xeng) : Prop := NoDup (map fst e).

Lemma wf_xdel : forall q e, wf e -> wf (xdel q e).
Proof. intros. apply NoDup_filter_keys. assumption. Qed.

Lemma wf_xset : forall q x e, wf e -> wf (xset q x e).
Proof.
  intros q x e H. unfold wf, xset. rewrite map_app. cbn [map fst].
  apply NoDup_app_intro_one; [apply wf_xdel; exact H |].
  intros X. apply xdel_keys in X. destruct X as [_ X]. apply X. reflexivity.
Qed.

Lemma wf_xupd : forall q f e, wf e -> wf (xupd q f e).
Proof. intros. unfold wf. rewrite xupd_keys. assumption. Qed.

(* ------------------------------------------------------------------ one polled query *)

Lemma lift_terminal : forall q t qtag qn a, xterminal (lift_action q t qtag qn a) = is_terminal a.
Proof. intros q t qtag qn a. destruct a; try reflexivity. destruct t; reflexivity. Qed.

Lemma lift_about : forall q t qtag qn a, a <> ANone -> about (lift_action q t qtag qn a) = Some q.
Proof. intros q t qtag qn a H. destruct a; try reflexivity; [congruence | destruct t; reflexivity]. Qed.

Lemma lift_none : forall q t qtag qn a, lift_action q t qtag qn a = XNone <-> a = ANone.
Proof.
  intros q t qtag qn a. destruct a; cbn; split; intros H; try discriminate; try reflexivity.
  destruct t; discriminate.
Qed.

(* the entry is removed exactly when the action is terminal; every action names the polled query *)
Lemma poll_shape : forall now q x,
  (fst (poll now q x) = None <-> xterminal (snd (poll now q x)) = true) /\
  (snd (poll now q x) <> XNone -> about (snd (poll now q x)) = Some q).
Proof.
  intros now q x. destruct x as [t qtag qn c seeds es s | qtag qn peers | t pd succ need]; cbn [poll].
  - destruct (next_action c s now) as [s' a]. cbn [fst snd]. rewrite lift_terminal. split.
    + destruct (is_terminal a); split; intros H; congruence.
    + intros H. apply lift_about. intros X. apply H. apply lift_none. exact X.
  - cbn [fst snd xterminal about]. split; [tauto | reflexivity].
  - destruct pd as [| p pd]; cbn [fst snd].
    + split; [| intros _; destruct (need <=? succ); [destruct t |]; reflexivity].
      split; [intros _ | reflexivity]. destruct (need <=? succ); [destruct t |]; reflexivity.
    + split; [split; intros H; discriminate | intros H; congruence].
Qed.

(* ------------------------------------------------------------------ lookups are Model.v runs *)

Definition ckind_ok (t : qtype) (c : cfg) : Prop :=
  match ctx_of t with
  | CFindNode => c_kind c = KFind
  | CGetRecord => c_kind c = KRecord
  | CGetProviders => c_kind c = KProviders
  | _ => False
  end.

(* every lookup entry: its state is the Model.v run of the recorded events from the recorded seeds, the
   query is not finished, and the configuration has the kind of its context *)
Definition linv2 (g : gcfg) (x : qstate) : Prop :=
  linv x /\
  match x with
  | QL t _ _ c _ _ _ =>
      ckind_ok t c /\ c_k c = g_k g /\ c_alpha c = g_alpha g /\ c_local c = g_local g /\
      c_dist c = g_dist g /\ c_timeout c = g_timeout g
  | _ => True
  end.

Lemma run_snoc : forall c s0 es ev,
  fst (run c s0 (es ++ [ev])) = fst (step c (fst (run c s0 es)) ev).
Proof.
  intros. rewrite run_app_fst. rewrite run_cons_fst. cbn [run fst]. reflexivity.
Qed.

Lemma on_failure_done : forall c s p, done (on_failure c s p) = done s.
Proof.
  intros c s p. unfold on_failure. destruct (done s) eqn:E; [exact E |].
  destruct (pmem p (pend s)); [reflexivity | exact E].
Qed.

Lemma on_response_done : forall c s p r, done (on_response c s p r) = done s.
Proof.
  intros c s p r. unfold on_response. destruct (done s) eqn:E; [exact E |].
  destruct (pmem p (pend s)); [| exact E].
  destruct (c_kind c); [reflexivity | | reflexivity].
  destruct (r_rec r) as [[id b] |]; [destruct b |]; reflexivity.
Qed.

Lemma linv2_ctx : forall g x f,
  (forall t a b c seeds es s, x = QL t a b c seeds es s ->
     exists ev s', f x = QL t a b c seeds (es ++ [ev]) s' /\ s' = fst (step c s ev) /\ done s' = done s) ->
  (forall t a b c seeds es s, x <> QL t a b c seeds es s) \/ True ->
  linv2 g x -> (match x with QL _ _ _ _ _ _ _ => True | _ => f x = x \/ exists t pd sc nd, f x = QT t pd sc nd end) ->
  linv2 g (f x).
Proof.
  intros g x f Hq _ [H1 H2] Hother. destruct x as [t a b c seeds es s | a b peers | t pd sc nd].
  - destruct (Hq t a b c seeds es s eq_refl) as [ev [s' [E [Es Ed]]]]. rewrite E.
    cbn [linv] in H1. destruct H1 as [Hs Hd]. split; [| exact H2]. cbn [linv]. split.
    + rewrite run_snoc. rewrite <- Hs. exact Es.
    + rewrite Ed. exact Hd.
  - destruct Hother as [E | [t [pd [sc [nd E]]]]]; rewrite E; split; cbn; auto.
  - destruct Hother as [E | [t' [pd' [sc' [nd' E]]]]]; rewrite E; split; cbn; auto.
Qed.

Lemma linv2_resp_fail : forall g p x, linv2 g x -> linv2 g (q_resp_fail p x).
Proof.
  intros g p x H. apply linv2_ctx; [| right; exact I | exact H |].
  - intros t a b c seeds es s ->. exists (EFail p), (on_failure c s p). cbn [q_resp_fail step fst].
    split; [reflexivity | split; [reflexivity | apply on_failure_done]].
  - destruct x; [exact I | left; reflexivity | left; reflexivity].
Qed.

Lemma linv2_resp : forall g p r x, linv2 g x -> linv2 g (q_resp p r x).
Proof.
  intros g p r x H. apply linv2_ctx; [| right; exact I | exact H |].
  - intros t a b c seeds es s ->. exists (EResp p r), (on_response c s p r). cbn [q_resp step fst].
    split; [reflexivity | split; [reflexivity | apply on_response_done]].
  - destruct x; [exact I | left; reflexivity | left; reflexivity].
Qed.

Lemma linv2_send_ok : forall g p x, linv2 g x -> linv2 g (q_send_ok p x).
Proof.
  intros g p x H. apply linv2_ctx; [| right; exact I | exact H |].
  - intros t a b c seeds es s ->. exists (ENoop p), s. cbn [q_send_ok step fst]. auto.
  - destruct x as [| | t pd sc nd]; [exact I | left; reflexivity |]. cbn [q_send_ok].
    destruct (mem p pd); [right; eauto | left; reflexivity].
Qed.

Lemma linv2_send_fail : forall g p x, linv2 g x -> linv2 g (q_send_fail p x).
Proof.
  intros g p x H. apply linv2_ctx; [| right; exact I | exact H |].
  - intros t a b c seeds es s ->. exists (ENoop p), s. cbn [q_send_fail step fst]. auto.
  - destruct x as [| | t pd sc nd]; [exact I | left; reflexivity |]. cbn [q_send_fail]. right. eauto.
Qed.

Lemma linv2_message : forall g p mk r x, linv2 g x -> linv2 g (q_message p mk r x).
Proof.
  intros g p mk r x H. unfold q_message. destruct (accepts (qtype_of x) mk);
    [apply linv2_resp | apply linv2_resp_fail]; exact H.
Qed.

Lemma linv2_poll : forall g now q x x', linv2 g x -> fst (poll now q x) = Some x' -> linv2 g x'.
Proof.
  intros g now q x x' H E. destruct x as [t a b c seeds es s | a b peers | t pd sc nd]; cbn [poll] in E.
  - destruct H as [[Hs Hd] H2].
    pose proof (step_done_flag c s (ENext now)) as F. cbn [step] in F.
    destruct (next_action c s now) as [s' act] eqn:En. cbn [fst snd] in E, F.
    destruct (is_terminal act); [discriminate |]. injection E as <-.
    split; [| exact H2]. cbn [linv]. split.
    + rewrite run_snoc. rewrite <- Hs. cbn [step]. rewrite En. reflexivity.
    + rewrite F. exact Hd.
  - discriminate.
  - destruct pd; [discriminate |]. cbn [fst] in E. injection E as <-. exact H.
Qed.

Lemma linv2_start : forall g t qtag qn known peers kprov, linv2 g (start_q g t qtag qn known peers kprov).
Proof.
  intros g t qtag qn known peers kprov. unfold start_q.
  destruct (ctx_of t) eqn:Ec; try (split; cbn; exact I).
  all: split; [cbn [linv run fst]; split; [reflexivity | reflexivity] |];
    unfold ckind_ok, lookup_cfg; rewrite Ec; cbn; repeat split; reflexivity.
Qed.

Definition einv (g : gcfg) (e : xeng) : Prop := wf e /\ forall q x, In (q, x) e -> linv2 g x.

Lemma einv_xupd : forall g q f e,
  (forall x, linv2 g x -> linv2 g (f x)) -> einv g e -> einv g (xupd q f e).
Proof.
  intros g q f e Hf [Hw Hl]. split; [apply wf_xupd; exact Hw |].
  intros k x Hi. unfold xupd in Hi. apply in_map_iff in Hi. destruct Hi as [[k' y] [E Hy]].
  cbn [fst snd] in E. destruct (k' =? q); injection E as <- <-; [apply Hf |]; eapply Hl; exact Hy.
Qed.

Lemma einv_xdel : forall g q e, einv g e -> einv g (xdel q e).
Proof.
  intros g q e [Hw Hl]. split; [apply wf_xdel; exact Hw |].
  intros k x Hi. unfold xdel in Hi. apply filter_In in Hi. eapply Hl. apply Hi.
Qed.

Lemma einv_xset : forall g q x e, linv2 g x -> einv g e -> einv g (xset q x e).
Proof.
  intros g q x e Hx He. split; [apply wf_xset; apply He |].
  intros k y Hi. unfold xset in Hi. apply in_app_or in Hi. destruct Hi as [Hi | Hi].
  - destruct (einv_xdel g q e He) as [_ H]. eapply H. exact Hi.
  - destruct Hi as [Hi | []]. injection Hi as <- <-. exact Hx.
Qed.

(* the scan: keys only shrink, invariants are kept, and an action comes from an entry of the engine *)
Lemma xscan_spec : forall g now e,
  einv g e ->
  let e' := fst (xscan now e) in let a := snd (xscan now e) in
  einv g e' /\
  (forall k, In k (map fst e') -> In k (map fst e)) /\
  (a = XNone -> map fst e' = map fst e) /\
  (a <> XNone -> exists q x, In (q, x) e /\ snd (poll now q x) = a /\
                 (forall k, In k (map fst e') <-> In k (map fst e) /\ (fst (poll now q x) = None -> k <> q))).
Proof.
  intros g now e. induction e as [| [q x] t IH]; intros He.
  - cbn. split; [exact He | split; [tauto | split; [reflexivity | intros H; congruence]]].
  - assert (Ht : einv g t).
    { destruct He as [Hw Hl]. split; [unfold wf in *; cbn [map] in Hw; inversion Hw; assumption |].
      intros k y Hi. eapply Hl. right. exact Hi. }
    assert (Hx : linv2 g x) by (destruct He as [_ Hl]; eapply Hl; left; reflexivity).
    assert (Hq : ~ In q (map fst t)).
    { destruct He as [Hw _]. unfold wf in Hw. cbn [map fst] in Hw. inversion Hw; assumption. }
    specialize (IH Ht). cbn [xscan].
    pose proof (poll_shape now q x) as [Psh Pab].
    pose proof (linv2_poll g now q x) as Plinv.
    destruct (poll now q x) as [[x' |] a] eqn:Ep; cbn [fst snd] in *.
    + destruct a; cbn zeta.
      1: { destruct (xscan now t) as [t' a'] eqn:Es. cbn [fst snd] in *.
           destruct IH as [I1 [I2 [I3 I4]]].
           split; [| split; [| split]].
           - split.
             + unfold wf. cbn [map fst]. constructor; [intros X; apply Hq; apply I2; exact X | apply I1].
             + intros k y [Hi | Hi]; [injection Hi as <- <-; apply Plinv; [exact Hx | reflexivity] |].
               destruct I1 as [_ Hl]. eapply Hl. exact Hi.
           - intros k. cbn [map fst In]. intros [H | H]; [left; exact H | right; apply I2; exact H].
           - intros Ha. cbn [map fst]. f_equal. apply I3. exact Ha.
           - intros Ha. destruct (I4 Ha) as [q0 [x0 [Hin [Hp Hk]]]]. exists q0, x0.
             split; [right; exact Hin | split; [exact Hp |]].
             intros k. cbn [map fst In]. rewrite Hk. split.
             + intros [H | [H1 H2]]; [| tauto]. split; [left; exact H |]. intros Hn Hc. subst k. subst q0.
               apply Hq. apply in_map_iff. exists (q, x0). split; [reflexivity | exact Hin].
             + intros [[H | H] H2]; [left; exact H | right; split; assumption]. }
      all: cbn [fst snd];
        (split; [split;
           [destruct He as [Hw _]; exact Hw
           | intros k y [Hi | Hi];
             [injection Hi as <- <-; apply Plinv; [exact Hx | reflexivity]
             | destruct Ht as [_ Hl]; eapply Hl; exact Hi]]
         | split; [intros k Hk; exact Hk
         | split; [intros Hc; discriminate
         | intros _; exists q, x; split; [left; reflexivity | split; [rewrite Ep; reflexivity |]];
           intros k; rewrite Ep; cbn [fst]; split; [intros Hk; split; [exact Hk | intros Hc; discriminate] | tauto]]]]).
    + (* the polled query acted and was removed *)
      assert (Hna : a <> XNone).
      { intros ->. destruct Psh as [Psh _]. specialize (Psh eq_refl). discriminate. }
      destruct a; try congruence; cbn [fst snd];
        (split; [exact Ht
         | split; [intros k Hk; right; exact Hk
         | split; [intros Hc; discriminate
         | intros _; exists q, x; split; [left; reflexivity | split; [rewrite Ep; reflexivity |]];
           intros k; rewrite Ep; cbn [fst map In]; split;
           [intros Hk; split; [right; exact Hk | intros _ Hc; subst k; apply Hq; exact Hk]
           | intros [[Hk | Hk] Hn]; [exfalso; apply (Hn eq_refl); symmetry; exact Hk | exact Hk]]]]]).
Qed.

Lemma xstep_einv : forall g e ev, einv g e -> einv g (fst (xstep g e ev)).
Proof.
  intros g e ev He. destruct ev as [q t qtag qn known peers kprov | now ch | q p mk r | q p | q p | q p | q p | q p];
    cbn [xstep].
  - cbn [fst]. apply einv_xset; [apply linv2_start | exact He].
  - destruct ch as [| chp].
    + apply (xscan_spec g now e He).
    + remember (N.pos chp - 1) as q. destruct (xget q e) as [x |] eqn:Eg; [| exact He].
      pose proof (linv2_poll g now q x) as Pl.
      assert (Hx : linv2 g x) by (destruct He as [_ Hl]; eapply Hl; apply xget_in; exact Eg).
      destruct (poll now q x) as [[x' |] a]; cbn [fst] in *.
      * apply einv_xupd; [| exact He]. intros _ _. apply Pl; [exact Hx | reflexivity].
      * apply einv_xdel. exact He.
  - cbn [fst]. apply einv_xupd; [intros x; apply linv2_message | exact He].
  - cbn [fst]. apply einv_xupd; [intros x; apply linv2_resp_fail | exact He].
  - cbn [fst]. apply einv_xupd; [intros x; apply linv2_send_ok | exact He].
  - cbn [fst]. apply einv_xupd; [intros x; apply linv2_send_fail | exact He].
  - cbn [fst]. apply einv_xupd; [intros x Hx; apply linv2_resp_fail; apply linv2_send_fail; exact Hx | exact He].
  - exact He.
Qed.

Lemma xrun_cons : forall g e ev t,
  xrun g e (ev :: t) = (fst (xrun g (fst (xstep g e ev)) t), snd (xstep g e ev) :: snd (xrun g (fst (xstep g e ev)) t)).
Proof.
  intros. cbn [xrun]. destruct (xstep g e ev) as [e1 a]. cbn [fst snd].
  destruct (xrun g e1 t) as [e2 l]. reflexivity.
Qed.

Lemma xrun_einv : forall g evs e, einv g e -> einv g (fst (xrun g e evs)).
Proof.
  intros g evs. induction evs as [| ev t IH]; intros e He; [exact He |].
  rewrite xrun_cons. cbn [fst]. apply IH. apply xstep_einv. exact He.
Qed.

Lemma einv_empty : forall g, einv g [].
Proof. intros g. split; [constructor | intros q x []]. Qed.

(* every entry of every reachable engine state satisfies the lookup invariant *)
Lemma eng_reach : forall g evs q x,
  xget q (fst (xrun g [] evs)) = Some x -> linv2 g x.
Proof.
  intros g evs q x H. destruct (xrun_einv g evs [] (einv_empty g)) as [_ Hl].
  eapply Hl. apply xget_in. exact H.
Qed.

(* ------------------------------------------------------------------ where actions come from *)

(* an action of next_action is the verdict of one live query; a terminal action removes that query and
   nothing else; no step other than a start adds a query *)
Lemma xstep_next_spec : forall g e now ch,
  einv g e ->
  let e' := fst (xstep g e (XNext now ch)) in let a := snd (xstep g e (XNext now ch)) in
  (forall k, In k (map fst e') -> In k (map fst e)) /\
  (a <> XNone -> exists q x, xget q e = Some x /\ snd (poll now q x) = a /\ about a = Some q /\
                 (forall k, In k (map fst e') <-> In k (map fst e) /\ (xterminal a = true -> k <> q))).
Proof.
  intros g e now ch He. cbn [xstep]. destruct ch as [| chp].
  - destruct (xscan_spec g now e He) as [_ [S2 [_ S4]]]. split; [exact S2 |].
    intros Ha. destruct (S4 Ha) as [q [x [Hin [Hp Hk]]]]. exists q, x.
    pose proof (poll_shape now q x) as [Psh Pab]. rewrite Hp in Psh, Pab.
    split; [apply in_xget; [apply He | exact Hin] | split; [exact Hp | split; [apply Pab; exact Ha |]]].
    intros k. rewrite Hk. rewrite Psh. tauto.
  - remember (N.pos chp - 1) as q. destruct (xget q e) as [x |] eqn:Eg; cbn [fst snd].
    + pose proof (poll_shape now q x) as [Psh Pab].
      destruct (poll now q x) as [[x' |] a] eqn:Ep; cbn [fst snd] in *.
      * split; [intros k; rewrite xupd_keys; tauto |].
        intros Ha. exists q, x. split; [exact Eg | split; [rewrite Ep; reflexivity | split; [apply Pab; exact Ha |]]].
        intros k. rewrite xupd_keys. split; [intros Hk; split; [exact Hk |] | tauto].
        intros Ht. apply Psh in Ht. discriminate.
      * split; [intros k Hk; apply xdel_keys in Hk; tauto |].
        intros Ha. exists q, x. split; [exact Eg | split; [rewrite Ep; reflexivity | split; [apply Pab; exact Ha |]]].
        intros k. rewrite xdel_keys. split; [intros [H1 H2]; split; [exact H1 | intros _; exact H2] |].
        intros [H1 H2]. split; [exact H1 | apply H2; apply Psh; reflexivity].
    + split; [tauto | intros H; congruence].
Qed.

Lemma xstep_keys : forall g e ev q,
  einv g e -> starts q ev = false -> In q (map fst (fst (xstep g e ev))) -> In q (map fst e).
Proof.
  intros g e ev q He Hs Hi.
  destruct ev as [q' t qtag qn known peers kprov | now ch | q' p mk r | q' p | q' p | q' p | q' p | q' p];
    try (cbn [xstep fst] in Hi; rewrite xupd_keys in Hi; exact Hi).
  - cbn [xstep fst] in Hi. cbn [starts] in Hs. unfold xset in Hi. rewrite map_app in Hi.
    apply in_app_or in Hi. destruct Hi as [Hi | Hi]; [apply xdel_keys in Hi; tauto |].
    cbn [map fst In] in Hi. destruct Hi as [Hi | []]. subst q'. rewrite N.eqb_refl in Hs. discriminate.
  - destruct (xstep_next_spec g e now ch He) as [K _]. apply K. exact Hi.
  - exact Hi.
Qed.

Lemma xstep_action_live : forall g e ev q,
  einv g e -> about (snd (xstep g e ev)) = Some q -> In q (map fst e).
Proof.
  intros g e ev q He Ha.
  destruct ev as [q' t qtag qn known peers kprov | now ch | q' p mk r | q' p | q' p | q' p | q' p | q' p];
    try (cbn [xstep snd about] in Ha; discriminate).
  - destruct (xstep_next_spec g e now ch He) as [_ K].
    assert (Hn : snd (xstep g e (XNext now ch)) <> XNone) by (intros X; rewrite X in Ha; discriminate).
    destruct (K Hn) as [q0 [x [Hg [_ [Hab _]]]]]. rewrite Hab in Ha. injection Ha as <-.
    apply xget_keys. congruence.
  - cbn [xstep snd] in Ha. destruct (xget q' e) as [[t ? ? ? ? ? s | |] |]; try discriminate.
    destruct (peer_action_asks t && peer_msg s p); discriminate.
Qed.

Lemma xstep_terminal_removes : forall g e ev q,
  einv g e -> terminal_about q (snd (xstep g e ev)) = true ->
  In q (map fst e) /\ ~ In q (map fst (fst (xstep g e ev))).
Proof.
  intros g e ev q He Ht. unfold terminal_about in Ht. apply andb_true_iff in Ht. destruct Ht as [T1 T2].
  destruct (about (snd (xstep g e ev))) as [q0 |] eqn:Ea; [| discriminate]. apply N.eqb_eq in T2. subst q0.
  split; [eapply xstep_action_live; eassumption |].
  destruct ev as [q' t qtag qn known peers kprov | now ch | q' p mk r | q' p | q' p | q' p | q' p | q' p];
    try (cbn [xstep snd about] in Ea; discriminate).
  - destruct (xstep_next_spec g e now ch He) as [_ K].
    assert (Hn : snd (xstep g e (XNext now ch)) <> XNone) by (intros X; rewrite X in Ea; discriminate).
    destruct (K Hn) as [q0 [x [Hg [_ [Hab Hk]]]]]. rewrite Hab in Ea. injection Ea as ->.
    intros X. apply Hk in X. destruct X as [_ X]. apply (X T1). reflexivity.
  - cbn [xstep snd] in T1. destruct (xget q' e) as [[t ? ? ? ? ? s | |] |]; try discriminate.
    destruct (peer_action_asks t && peer_msg s p); discriminate.
Qed.

(* between two starts of the same id, a query yields at most one terminal action, and if it yields one
   it is gone afterwards; a query id that is not live yields none *)
Lemma one_terminal_from : forall g q evs e,
  einv g e -> forallb (fun ev => negb (starts q ev)) evs = true ->
  (count_terminal q (snd (xrun g e evs)) <= 1)%nat /\
  (~ In q (map fst e) -> count_terminal q (snd (xrun g e evs)) = 0%nat) /\
  (count_terminal q (snd (xrun g e evs)) = 1%nat -> ~ In q (map fst (fst (xrun g e evs)))).
Proof.
  intros g q evs. induction evs as [| ev t IH]; intros e He Hs.
  - cbn. split; [lia | split; [reflexivity | intros H; discriminate]].
  - cbn [forallb] in Hs. apply andb_true_iff in Hs. destruct Hs as [Hs1 Hs2]. apply negb_true_iff in Hs1.
    rewrite xrun_cons. cbn [fst snd]. unfold count_terminal in *. cbn [filter].
    pose proof (xstep_einv g e ev He) as He1.
    destruct (IH (fst (xstep g e ev)) He1 Hs2) as [I1 [I2 I3]].
    destruct (terminal_about q (snd (xstep g e ev))) eqn:Et.
    + destruct (xstep_terminal_removes g e ev q He Et) as [Hin Hout].
      cbn [List.length]. rewrite (I2 Hout). split; [lia | split; [intros X; contradiction |]].
      intros _. clear I1 I3.
      assert (K : forall evs e, einv g e -> forallb (fun ev => negb (starts q ev)) evs = true ->
                  ~ In q (map fst e) -> ~ In q (map fst (fst (xrun g e evs)))).
      { clear. intros evs. induction evs as [| ev t IH]; intros e He Hs Hn; [exact Hn |].
        cbn [forallb] in Hs. apply andb_true_iff in Hs. destruct Hs as [Hs1 Hs2]. apply negb_true_iff in Hs1.
        rewrite xrun_cons. cbn [fst]. apply IH; [apply xstep_einv; exact He | exact Hs2 |].
        intros X. apply Hn. eapply xstep_keys; eassumption. }
      apply K; assumption.
    + split; [exact I1 | split; [| exact I3]].
      intros Hn. apply I2. intros X. apply Hn. eapply xstep_keys; eassumption.
Qed.

(* events for a query id the engine does not know are ignored *)
Lemma stale_noop : forall g e q ev,
  ~ In q (map fst e) ->
  match ev with
  | XResp q' _ _ _ | XFail q' _ | XSendOk q' _ | XSendFail q' _ | XPeerFail q' _ | XPeerAct q' _ => q' = q
  | XNext _ ch => ch = q + 1
  | XStart _ _ _ _ _ _ _ => False
  end ->
  xstep g e ev = (e, XNone).
Proof.
  intros g e q ev Hn Hev.
  destruct ev as [q' t qtag qn known peers kprov | now ch | q' p mk r | q' p | q' p | q' p | q' p | q' p];
    try contradiction; try (subst q'; cbn [xstep]; rewrite xupd_absent by exact Hn; reflexivity).
  - subst ch. cbn [xstep]. destruct (q + 1) eqn:E; [lia |]. rewrite <- E.
    replace (q + 1 - 1) with q by lia. rewrite (proj2 (xget_none q e) Hn). reflexivity.
  - subst q'. cbn [xstep]. rewrite (proj2 (xget_none q e) Hn). reflexivity.
Qed.

(* an event addressed to another query (or a poll that picks another query) does not touch query q *)
Lemma frame : forall g e q ev,
  match ev with
  | XStart q' _ _ _ _ _ _ | XResp q' _ _ _ | XFail q' _ | XSendOk q' _ | XSendFail q' _ | XPeerFail q' _
  | XPeerAct q' _ => q' <> q
  | XNext _ ch => ch <> 0 /\ ch <> q + 1
  end ->
  xget q (fst (xstep g e ev)) = xget q e.
Proof.
  intros g e q ev Hev.
  destruct ev as [q' t qtag qn known peers kprov | now ch | q' p mk r | q' p | q' p | q' p | q' p | q' p];
    try (cbn [xstep fst]; apply xget_xupd_other; exact Hev).
  - cbn [xstep fst]. apply xget_xset_other. exact Hev.
  - destruct Hev as [H0 H1]. cbn [xstep]. destruct ch as [| chp]; [congruence |].
    remember (N.pos chp - 1) as q'. assert (Hne : q' <> q) by lia.
    destruct (xget q' e) as [x |]; [| reflexivity].
    destruct (poll now q' x) as [[x' |] a]; cbn [fst]; [apply xget_xupd_other | apply xget_xdel_other]; exact Hne.
  - reflexivity.
Qed.

(* ------------------------------------------------------------------ hand-over of a finished lookup *)

(* what the engine reports for a finished lookup is the verdict of Model.next_action on the recorded
   single-query history; for PutRecordToPeers it is the list the query was started with *)
Lemma handover_poll : forall g now q x l a b,
  linv2 g x ->
  (snd (poll now q x) = XFindNodeOk q l \/ snd (poll now q x) = XPutToFound q l a b \/
   snd (poll now q x) = XAddProvToFound q l a b) ->
  match x with
  | QL t qtag qn c seeds es s =>
      c_kind c = KFind /\
      snd (next_action c (fst (run c (init c seeds) es)) now) = AFound l /\
      (snd (poll now q x) = XFindNodeOk q l -> t = TFindNode) /\
      (snd (poll now q x) = XPutToFound q l a b -> t = TPutRecord /\ a = qtag /\ b = qn) /\
      (snd (poll now q x) = XAddProvToFound q l a b -> t = TAddProvider /\ a = qtag /\ b = qn)
  | QM qtag qn peers => snd (poll now q x) = XPutToFound q l a b /\ l = peers /\ a = qtag /\ b = qn
  | QT _ _ _ _ => False
  end.
Proof.
  intros g now q x l a b Hx Ha. destruct x as [t qtag qn c seeds es s | qtag qn peers | t pd sc nd]; cbn [poll] in *.
  - destruct Hx as [[Hs Hd] [Hk _]]. rewrite <- Hs.
    destruct (next_action c s now) as [s' act] eqn:En. cbn [snd] in *.
    assert (Hf : act = AFound l /\ ctx_of t = CFindNode).
    { destruct act; cbn [lift_action] in Ha; try (destruct Ha as [Ha | [Ha | Ha]]; discriminate).
      assert (E : peers = l) by (destruct t; destruct Ha as [Ha | [Ha | Ha]]; congruence). subst peers.
      split; [reflexivity |].
      (* an AFound verdict only comes from a FIND_NODE-type configuration *)
      unfold ckind_ok in Hk. destruct (ctx_of t) eqn:Ec; try contradiction; try reflexivity; exfalso.
      - unfold next_action in En. rewrite Hd, Hk in En. unfold next_record in En.
        destruct (recq s) as [| [? ?] ?]; [| injection En as _ En; discriminate].
        destruct (is_done s); [destruct (c_known c + found s =? 0); unfold finish in En; injection En as _ En; discriminate |].
        destruct (c_needed c <=? c_known c + found s); [unfold finish in En; injection En as _ En; discriminate |].
        destruct (N.of_nat (List.length (pend s)) =? c_alpha c); [injection En as _ En; discriminate |].
        unfold schedule in En. destruct (cands s) as [| [? ?] ?]; injection En as _ En; discriminate.
      - unfold next_action in En. rewrite Hd, Hk in En. unfold next_providers in En.
        destruct (is_done s); [destruct (c_kprov c ++ provs s); unfold finish in En; injection En as _ En; discriminate |].
        destruct (N.of_nat (List.length (pend s)) =? c_alpha c); [injection En as _ En; discriminate |].
        unfold schedule in En. destruct (cands s) as [| [? ?] ?]; injection En as _ En; discriminate. }
    destruct Hf as [-> Hc]. unfold ckind_ok in Hk. rewrite Hc in Hk.
    split; [exact Hk | split; [reflexivity |]]. cbn [lift_action] in *.
    destruct t; cbn in Hc; try discriminate; (split; [| split]); intros X; try discriminate; try reflexivity;
      injection X; intros; subst; auto.
  - cbn [snd] in Ha. destruct Ha as [Ha | [Ha | Ha]]; try discriminate. injection Ha; intros; subst; auto.
  - destruct pd; cbn [snd] in Ha; [| destruct Ha as [Ha | [Ha | Ha]]; discriminate].
    destruct (nd <=? sc); [destruct t |]; destruct Ha as [Ha | [Ha | Ha]]; discriminate.
Qed.

(* ... and therefore satisfies the interface of Proofs.lookup_interface with respect to the recorded
   history of that query *)
Lemma handover : forall g evs now ch l a b,
  let e := fst (xrun g [] evs) in
  let act := snd (xstep g e (XNext now ch)) in
  (exists q, act = XFindNodeOk q l \/ act = XPutToFound q l a b \/ act = XAddProvToFound q l a b) ->
  exists q x, xget q e = Some x /\ about act = Some q /\
    match x with
    | QL t qtag qn c seeds es s =>
        c_kind c = KFind /\ c_k c = g_k g /\ c_local c = g_local g /\ c_dist c = g_dist g /\
        snd (next_action c (fst (run c (init c seeds) es)) now) = AFound l /\
        (dist_inj c -> ~ In (c_local c) seeds ->
         let gh := snd (grun c (init c seeds) (ghost0 seeds) es) in
         NoDup l /\ ~ In (c_local c) l /\ N.of_nat (List.length l) <= c_k c /\
         (forall p, In p l -> In p (g_answered gh) /\ In p (g_sent gh)) /\
         kclosest c (c_k c) (g_answered gh) l /\ (1 <= c_k c -> l <> []))
    | QM qtag qn peers => l = peers /\ a = qtag /\ b = qn
    | QT _ _ _ _ => False
    end.
Proof.
  intros g evs now ch l a b e act [q0 Hact].
  pose proof (xrun_einv g evs [] (einv_empty g)) as He. fold e in He.
  destruct (xstep_next_spec g e now ch He) as [_ K]. fold act in K.
  assert (Hn : act <> XNone) by (intros X; rewrite X in Hact; destruct Hact as [H | [H | H]]; discriminate).
  destruct (K Hn) as [q [x [Hg [Hp [Hab _]]]]]. exists q, x. split; [exact Hg | split; [exact Hab |]].
  assert (q0 = q).
  { destruct Hact as [H | [H | H]]; rewrite H in Hab; cbn [about] in Hab; congruence. }
  subst q0.
  assert (Hx : linv2 g x) by (destruct He as [_ Hl]; eapply Hl; apply xget_in; exact Hg).
  pose proof (handover_poll g now q x l a b Hx) as H. rewrite Hp in H. specialize (H Hact).
  destruct x as [t qtag qn c seeds es s | qtag qn peers | t pd sc nd]; [| tauto | exact H].
  destruct H as [Hk [Hf _]]. destruct Hx as [_ [_ [Ek [_ [El [Ed _]]]]]].
  split; [exact Hk | split; [exact Ek | split; [exact El | split; [exact Ed | split; [exact Hf |]]]]].
  intros Hinj Hloc gh. apply (lookup_interface c seeds es now l Hinj Hloc Hk).
  rewrite grun_run. exact Hf.
Qed.

(* ------------------------------------------------------------------ every failure report resolves *)

Lemma nremove_In : forall p l x, In x (nremove p l) <-> In x l /\ x <> p.
Proof.
  intros p l x. unfold nremove. rewrite filter_In. rewrite negb_true_iff, N.eqb_neq. tauto.
Qed.

Lemma mem_nremove : forall p l, mem p (nremove p l) = false.
Proof. intros p l. apply mem_false. intros H. apply nremove_In in H. destruct H as [_ H]. apply H. reflexivity. Qed.

Lemma pend_failure : forall c s p, done s = false -> pmem p (pend (on_failure c s p)) = false.
Proof.
  intros c s p Hd. unfold on_failure. rewrite Hd. destruct (pmem p (pend s)) eqn:E; [| exact E].
  cbn [pend]. apply pmem_false. intros H. apply premove_fst in H. destruct H as [_ H]. apply H. reflexivity.
Qed.

Lemma pend_response : forall c s p r, done s = false -> pmem p (pend (on_response c s p r)) = false.
Proof.
  intros c s p r Hd. unfold on_response. rewrite Hd. destruct (pmem p (pend s)) eqn:E; [| exact E].
  assert (X : pmem p (premove p (pend s)) = false).
  { apply pmem_false. intros H. apply premove_fst in H. destruct H as [_ H]. apply H. reflexivity. }
  destruct (c_kind c); [cbn [pend]; exact X | | cbn [pend]; exact X].
  destruct (r_rec r) as [[id b] |]; [destruct b |]; cbn [pend]; exact X.
Qed.

(* After register_peer_failure(q, p) — whatever the type of query q — p is no longer an unresolved
   request / target of q. After register_response (ANY message kind) or register_response_failure the same
   holds for a lookup; after register_send_success / register_send_failure for a send phase. *)
Lemma resolves : forall g e q p ev,
  einv g e ->
  match ev with
  | XPeerFail q' p' => q' = q /\ p' = p
  | XResp q' p' _ _ | XFail q' p' =>
      q' = q /\ p' = p /\ match xget q e with Some (QT _ _ _ _) => False | _ => True end
  | XSendOk q' p' | XSendFail q' p' =>
      q' = q /\ p' = p /\ match xget q e with Some (QL _ _ _ _ _ _ _) => False | _ => True end
  | _ => False
  end ->
  outstanding (fst (xstep g e ev)) q p = false.
Proof.
  intros g e q p ev He Hev. unfold outstanding.
  assert (Hd : forall t a b c seeds es s, xget q e = Some (QL t a b c seeds es s) -> done s = false).
  { intros t a b c seeds es s Hg. destruct He as [_ Hl]. apply xget_in in Hg. apply Hl in Hg.
    destruct Hg as [[_ Hd] _]. exact Hd. }
  destruct ev as [q' t qtag qn known peers kprov | now ch | q' p' mk r | q' p' | q' p' | q' p' | q' p' | q' p'];
    try contradiction; cbn [xstep fst].
  - destruct Hev as [-> [-> Hx]]. rewrite xget_xupd_same.
    destruct (xget q e) as [[t a b c seeds es s | a b peers | t pd sc nd] |] eqn:Eg; cbn [option_map];
      [| unfold q_message; cbn [qtype_of]; destruct (accepts TPutRecordToPeers mk); reflexivity | contradiction | reflexivity].
    unfold q_message. cbn [qtype_of]. destruct (accepts t mk); cbn [q_resp q_resp_fail];
      [apply pend_response | apply pend_failure]; eapply Hd; reflexivity.
  - destruct Hev as [-> [-> Hx]]. rewrite xget_xupd_same.
    destruct (xget q e) as [[t a b c seeds es s | a b peers | t pd sc nd] |] eqn:Eg; cbn [option_map]; try reflexivity; [| contradiction].
    cbn [q_resp_fail]. apply pend_failure. eapply Hd. reflexivity.
  - destruct Hev as [-> [-> Hx]]. rewrite xget_xupd_same.
    destruct (xget q e) as [[t a b c seeds es s | a b peers | t pd sc nd] |] eqn:Eg; cbn [option_map]; try reflexivity; [contradiction |].
    cbn [q_send_ok]. destruct (mem p pd) eqn:Em; [apply mem_nremove | exact Em].
  - destruct Hev as [-> [-> Hx]]. rewrite xget_xupd_same.
    destruct (xget q e) as [[t a b c seeds es s | a b peers | t pd sc nd] |] eqn:Eg; cbn [option_map]; try reflexivity; [contradiction |].
    cbn [q_send_fail]. apply mem_nremove.
  - destruct Hev as [-> ->]. rewrite xget_xupd_same.
    destruct (xget q e) as [[t a b c seeds es s | a b peers | t pd sc nd] |] eqn:Eg; cbn [option_map]; try reflexivity.
    + cbn [q_send_fail q_resp_fail]. apply pend_failure. eapply Hd. reflexivity.
    + cbn [q_send_fail q_resp_fail]. apply mem_nremove.
Qed.

(* ------------------------------------------------------------------ the send phases terminate *)

Lemma nremove_length : forall p l, (List.length (nremove p l) <= List.length l)%nat.
Proof. intros. unfold nremove. apply filter_len_le. Qed.

Lemma nremove_length_lt : forall p l, mem p l = true -> (List.length (nremove p l) < List.length l)%nat.
Proof.
  intros p l. induction l as [| h t IH]; intros H; [discriminate |]. unfold mem in H. cbn [existsb] in H.
  unfold nremove. cbn [filter]. destruct (N.eqb_spec h p) as [E | E].
  - cbn [negb List.length]. pose proof (filter_len_le _ (fun x => negb (x =? p)) t). lia.
  - cbn [negb List.length]. apply orb_true_iff in H. destruct H as [H | H].
    + apply N.eqb_eq in H. congruence.
    + specialize (IH H). unfold nremove in IH. lia.
Qed.

(* one passive step on a send-phase entry: the target set only shrinks, successes only grow, the sum is
   bounded, and an event that reports on target p removes p *)
Lemma track_step : forall g e q ev t pd sc nd,
  xget q e = Some (QT t pd sc nd) -> passive q ev = true ->
  exists pd' sc', xget q (fst (xstep g e ev)) = Some (QT t pd' sc' nd) /\
    (forall p, In p pd' -> In p pd) /\ sc <= sc' /\
    sc' + N.of_nat (List.length pd') <= sc + N.of_nat (List.length pd) /\
    (forall p, resolves_target q p ev = true -> ~ In p pd').
Proof.
  intros g e q ev t pd sc nd Hg Hp.
  assert (Same : forall e', xget q e' = xget q e ->
            (forall p, resolves_target q p ev = true -> False) ->
            exists pd' sc', xget q e' = Some (QT t pd' sc' nd) /\
              (forall p, In p pd' -> In p pd) /\ sc <= sc' /\
              sc' + N.of_nat (List.length pd') <= sc + N.of_nat (List.length pd) /\
              (forall p, resolves_target q p ev = true -> ~ In p pd')).
  { intros e' E Hno. exists pd, sc. rewrite E. split; [exact Hg | split; [tauto | split; [lia | split; [lia |]]]].
    intros p Hr. exfalso. eapply Hno. exact Hr. }
  destruct ev as [q' t' qtag qn known peers kprov | now ch | q' p' mk r | q' p' | q' p' | q' p' | q' p' | q' p'].
  - cbn [passive] in Hp. apply negb_true_iff in Hp. apply N.eqb_neq in Hp.
    apply Same; [cbn [xstep fst]; apply xget_xset_other; exact Hp | intros p H; discriminate].
  - cbn [passive] in Hp. apply andb_true_iff in Hp. destruct Hp as [H0 H1].
    apply negb_true_iff in H0, H1. apply N.eqb_neq in H0, H1.
    apply Same; [apply frame; split; assumption | intros p H; discriminate].
  - apply Same; [| intros p H; discriminate]. cbn [xstep fst].
    destruct (N.eqb_spec q' q) as [-> | Hne]; [| apply xget_xupd_other; exact Hne].
    rewrite xget_xupd_same, Hg. cbn [option_map]. unfold q_message. cbn [qtype_of].
    destruct (accepts t mk); reflexivity.
  - apply Same; [| intros p H; discriminate]. cbn [xstep fst].
    destruct (N.eqb_spec q' q) as [-> | Hne]; [| apply xget_xupd_other; exact Hne].
    rewrite xget_xupd_same, Hg. reflexivity.
  - cbn [xstep fst]. destruct (N.eqb_spec q' q) as [-> | Hne].
    + rewrite xget_xupd_same, Hg. cbn [option_map q_send_ok]. destruct (mem p' pd) eqn:Em.
      * exists (nremove p' pd), (sc + 1). split; [reflexivity | split; [| split; [lia | split]]].
        -- intros p Hi. apply nremove_In in Hi. tauto.
        -- pose proof (nremove_length_lt p' pd Em). lia.
        -- intros p Hr. cbn [resolves_target] in Hr. apply andb_true_iff in Hr. destruct Hr as [_ Hr].
           apply N.eqb_eq in Hr. subst p'. intros X. apply nremove_In in X. destruct X as [_ X]. apply X. reflexivity.
      * exists pd, sc. split; [reflexivity | split; [tauto | split; [lia | split; [lia |]]]].
        intros p Hr. cbn [resolves_target] in Hr. apply andb_true_iff in Hr. destruct Hr as [_ Hr].
        apply N.eqb_eq in Hr. subst p'. apply mem_false. exact Em.
    + apply Same; [apply xget_xupd_other; exact Hne |]. intros p Hr. cbn [resolves_target] in Hr.
      apply andb_true_iff in Hr. destruct Hr as [Hr _]. apply N.eqb_eq in Hr. congruence.
  - cbn [xstep fst]. destruct (N.eqb_spec q' q) as [-> | Hne].
    + rewrite xget_xupd_same, Hg. cbn [option_map q_send_fail].
      exists (nremove p' pd), sc. split; [reflexivity | split; [| split; [lia | split]]].
      * intros p Hi. apply nremove_In in Hi. tauto.
      * pose proof (nremove_length p' pd). lia.
      * intros p Hr. cbn [resolves_target] in Hr. apply andb_true_iff in Hr. destruct Hr as [_ Hr].
        apply N.eqb_eq in Hr. subst p'. intros X. apply nremove_In in X. destruct X as [_ X]. apply X. reflexivity.
    + apply Same; [apply xget_xupd_other; exact Hne |]. intros p Hr. cbn [resolves_target] in Hr.
      apply andb_true_iff in Hr. destruct Hr as [Hr _]. apply N.eqb_eq in Hr. congruence.
  - cbn [xstep fst]. destruct (N.eqb_spec q' q) as [-> | Hne].
    + rewrite xget_xupd_same, Hg. cbn [option_map q_send_fail q_resp_fail].
      exists (nremove p' pd), sc. split; [reflexivity | split; [| split; [lia | split]]].
      * intros p Hi. apply nremove_In in Hi. tauto.
      * pose proof (nremove_length p' pd). lia.
      * intros p Hr. cbn [resolves_target] in Hr. apply andb_true_iff in Hr. destruct Hr as [_ Hr].
        apply N.eqb_eq in Hr. subst p'. intros X. apply nremove_In in X. destruct X as [_ X]. apply X. reflexivity.
    + apply Same; [apply xget_xupd_other; exact Hne |]. intros p Hr. cbn [resolves_target] in Hr.
      apply andb_true_iff in Hr. destruct Hr as [Hr _]. apply N.eqb_eq in Hr. congruence.
  - apply Same; [reflexivity | intros p H; discriminate].
Qed.

(* a send phase: once every target has been reported on (send success, send failure or peer failure, in
   any order, interleaved with anything that does not restart or poll the query) no target is left, and
   the next poll of the query yields its one terminal action — success exactly when the number of
   acknowledged sends reaches the clamped quorum *)
Lemma track_terminates : forall g q evs e t pd sc nd,
  xget q e = Some (QT t pd sc nd) ->
  forallb (passive q) evs = true ->
  (forall p, In p pd -> exists ev, In ev evs /\ resolves_target q p ev = true) ->
  exists sc', xget q (fst (xrun g e evs)) = Some (QT t [] sc' nd) /\
    sc <= sc' /\ sc' <= sc + N.of_nat (List.length pd) /\
    forall now,
      snd (xstep g (fst (xrun g e evs)) (XNext now (q + 1))) =
        (if nd <=? sc' then match t with TAddProviderToFoundNodes => XAddProvOk q | _ => XPutOk q end
         else XFailed q) /\
      xget q (fst (xstep g (fst (xrun g e evs)) (XNext now (q + 1)))) = None.
Proof.
  intros g q evs. induction evs as [| ev rest IH]; intros e t pd sc nd Hg Hp Hall.
  - destruct pd as [| p pd]; [| destruct (Hall p (or_introl eq_refl)) as [ev [[] _]]].
    exists sc. cbn [xrun fst]. split; [exact Hg | split; [lia | split; [cbn [List.length]; lia |]]].
    intros now. cbn [xstep]. destruct (q + 1) eqn:E; [lia |]. rewrite <- E.
    replace (q + 1 - 1) with q by lia. rewrite Hg. cbn [poll fst snd]. split; [reflexivity | apply xget_xdel_same].
  - cbn [forallb] in Hp. apply andb_true_iff in Hp. destruct Hp as [Hp1 Hp2].
    destruct (track_step g e q ev t pd sc nd Hg Hp1) as [pd' [sc' [Hg' [Hsub [Hle [Hsum Hres]]]]]].
    rewrite xrun_cons. cbn [fst].
    destruct (IH (fst (xstep g e ev)) t pd' sc' nd Hg' Hp2) as [sc'' [G [L1 [L2 Hfin]]]].
    { intros p Hi. destruct (Hall p (Hsub p Hi)) as [ev' [[He | He] Hr]]; [| exists ev'; split; assumption].
      subst ev'. exfalso. apply (Hres p Hr). exact Hi. }
    exists sc''. split; [exact G | split; [lia | split; [lia | exact Hfin]]].
Qed.

(* a send phase does not finish before every target was reported on, and polling it in between
   changes nothing *)
Lemma track_waits : forall g e q t p pd sc nd now,
  xget q e = Some (QT t (p :: pd) sc nd) ->
  xstep g e (XNext now (q + 1)) = (xupd q (fun _ => QT t (p :: pd) sc nd) e, XNone).
Proof.
  intros g e q t p pd sc nd now Hg. cbn [xstep]. destruct (q + 1) eqn:E; [lia |]. rewrite <- E.
  replace (q + 1 - 1) with q by lia. rewrite Hg. reflexivity.
Qed.

(* PutRecordToPeers: the first poll hands over exactly the given peers and removes the query *)
Lemma to_peers_immediate : forall g e q qtag qn peers now,
  xget q e = Some (QM qtag qn peers) ->
  xstep g e (XNext now (q + 1)) = (xdel q e, XPutToFound q peers qtag qn).
Proof.
  intros g e q qtag qn peers now Hg. cbn [xstep]. destruct (q + 1) eqn:E; [lia |]. rewrite <- E.
  replace (q + 1 - 1) with q by lia. rewrite Hg. reflexivity.
Qed.

(* the request a lookup sends is of the kind its context caches, to a peer Model.v chose *)
Lemma send_kind : forall g e now ch q p mk,
  einv g e -> snd (xstep g e (XNext now ch)) = XSend q p mk ->
  exists t a b c seeds es s, xget q e = Some (QL t a b c seeds es s) /\ mk = req_of t /\
    snd (next_action c s now) = ASend p.
Proof.
  intros g e now ch q p mk He Ha.
  destruct (xstep_next_spec g e now ch He) as [_ K]. rewrite Ha in K.
  destruct (K ltac:(discriminate)) as [q0 [x [Hg [Hp [Hab _]]]]]. cbn [about] in Hab. injection Hab as <-.
  destruct x as [t a b c seeds es s | a b peers | t pd sc nd]; cbn [poll] in Hp.
  - exists t, a, b, c, seeds, es, s. split; [exact Hg |].
    destruct (next_action c s now) as [s' act]. cbn [snd] in *.
    destruct act; cbn [lift_action] in Hp; try discriminate; [| destruct t; discriminate].
    injection Hp as -> ->. split; reflexivity.
  - discriminate.
  - destruct pd; [destruct (nd <=? sc); [destruct t |] |]; discriminate.
Qed.

(* ------------------------------------------------------------------ statements over reachable engines *)

Lemma reach_einv : forall g evs0, einv g (fst (xrun g [] evs0)).
Proof. intros. apply xrun_einv. apply einv_empty. Qed.

Lemma eng_lookup_is_model : forall g evs0 q t a b c seeds es s,
  xget q (fst (xrun g [] evs0)) = Some (QL t a b c seeds es s) ->
  s = fst (run c (init c seeds) es) /\ done s = false /\
  (ctx_of t = CFindNode /\ c_kind c = KFind \/ ctx_of t = CGetRecord /\ c_kind c = KRecord \/
   ctx_of t = CGetProviders /\ c_kind c = KProviders) /\
  c_k c = g_k g /\ c_alpha c = g_alpha g /\ c_local c = g_local g /\ c_dist c = g_dist g /\
  c_timeout c = g_timeout g.
Proof.
  intros g evs0 q t a b c seeds es s H. apply eng_reach in H.
  destruct H as [[Hs Hd] [Hk [E1 [E2 [E3 [E4 E5]]]]]].
  split; [exact Hs | split; [exact Hd | split; [| tauto]]].
  unfold ckind_ok in Hk. destruct (ctx_of t); try contradiction; auto.
Qed.

Lemma eng_one_terminal : forall g evs0 q evs,
  forallb (fun ev => negb (starts q ev)) evs = true ->
  let e := fst (xrun g [] evs0) in
  (count_terminal q (snd (xrun g e evs)) <= 1)%nat /\
  (xget q e = None -> count_terminal q (snd (xrun g e evs)) = 0%nat) /\
  (count_terminal q (snd (xrun g e evs)) = 1%nat -> xget q (fst (xrun g e evs)) = None).
Proof.
  intros g evs0 q evs Hs e.
  destruct (one_terminal_from g q evs e (reach_einv g evs0) Hs) as [A [B C]].
  split; [exact A | split].
  - intros H. apply B. apply xget_none. exact H.
  - intros H. apply xget_none. apply C. exact H.
Qed.

Lemma eng_terminal_removes : forall g evs0 ev q,
  let e := fst (xrun g [] evs0) in
  terminal_about q (snd (xstep g e ev)) = true ->
  xget q e <> None /\ xget q (fst (xstep g e ev)) = None.
Proof.
  intros g evs0 ev q e H. destruct (xstep_terminal_removes g e ev q (reach_einv g evs0) H) as [A B].
  split; [apply xget_keys; exact A | apply xget_none; exact B].
Qed.

Lemma eng_stale_noop : forall g e q ev,
  xget q e = None ->
  match ev with
  | XResp q' _ _ _ | XFail q' _ | XSendOk q' _ | XSendFail q' _ | XPeerFail q' _ | XPeerAct q' _ => q' = q
  | XNext _ ch => ch = q + 1
  | XStart _ _ _ _ _ _ _ => False
  end ->
  xstep g e ev = (e, XNone).
Proof. intros g e q ev H. apply stale_noop. apply xget_none. exact H. Qed.

Lemma eng_resolves : forall g evs0 q p ev,
  let e := fst (xrun g [] evs0) in
  match ev with
  | XPeerFail q' p' => q' = q /\ p' = p
  | XResp q' p' _ _ | XFail q' p' =>
      q' = q /\ p' = p /\ match xget q e with Some (QT _ _ _ _) => False | _ => True end
  | XSendOk q' p' | XSendFail q' p' =>
      q' = q /\ p' = p /\ match xget q e with Some (QL _ _ _ _ _ _ _) => False | _ => True end
  | _ => False
  end ->
  outstanding (fst (xstep g e ev)) q p = false.
Proof. intros g evs0 q p ev e. apply resolves. apply reach_einv. Qed.

Lemma eng_send_kind : forall g evs0 now ch q p mk,
  let e := fst (xrun g [] evs0) in
  snd (xstep g e (XNext now ch)) = XSend q p mk ->
  exists t a b c seeds es s, xget q e = Some (QL t a b c seeds es s) /\ mk = req_of t /\
    snd (next_action c s now) = ASend p.
Proof. intros g evs0 now ch q p mk e. apply send_kind. apply reach_einv. Qed.

(* ------------------------------------------------------------------ every engine send is a fresh Model.v send *)

Lemma run_snoc_snd : forall c es s0 ev,
  snd (run c s0 (es ++ [ev])) = snd (run c s0 es) ++ [snd (step c (fst (run c s0 es)) ev)].
Proof.
  intros c es. induction es as [| e t IH]; intros s0 ev.
  - cbn [app run fst snd]. destruct (step c s0 ev) as [s1 a]. reflexivity.
  - change ((e :: t) ++ [ev]) with (e :: (t ++ [ev])). cbn [run].
    destruct (step c s0 e) as [s1 a]. specialize (IH s1 ev).
    destruct (run c s1 (t ++ [ev])) as [s2 l]. destruct (run c s1 t) as [s3 l3]. cbn [fst snd] in *.
    rewrite IH. reflexivity.
Qed.

(* the query that acted in a poll, and what became of its entry *)
Lemma xscan_acting : forall g now e,
  einv g e -> snd (xscan now e) <> XNone ->
  exists q x, xget q e = Some x /\ snd (poll now q x) = snd (xscan now e) /\
              xget q (fst (xscan now e)) = fst (poll now q x).
Proof.
  intros g now e. induction e as [| [q x] t IH]; intros He Ha; [cbn in Ha; congruence |].
  assert (Ht : einv g t).
  { destruct He as [Hw Hl]. split; [unfold wf in *; cbn [map] in Hw; inversion Hw; assumption |].
    intros k y Hi. eapply Hl. right. exact Hi. }
  assert (Hq : ~ In q (map fst t)).
  { destruct He as [Hw _]. unfold wf in Hw. cbn [map fst] in Hw. inversion Hw; assumption. }
  cbn [xscan] in *. destruct (poll now q x) as [[x' |] a] eqn:Ep.
  - destruct a.
    1: { destruct (xscan now t) as [t' a'] eqn:Es. cbn [fst snd] in *.
         destruct (IH Ht Ha) as [q0 [x0 [G0 [P0 R0]]]]. exists q0, x0.
         assert (Hne : q <> q0).
         { intros ->. apply Hq. apply xget_keys. congruence. }
         cbn [xget]. rewrite (proj2 (N.eqb_neq q q0) Hne). auto. }
    all: exists q, x; cbn [xget fst snd]; rewrite N.eqb_refl, Ep; auto.
  - exists q, x. cbn [xget fst snd]. rewrite N.eqb_refl, Ep. cbn [fst snd].
    split; [reflexivity | split; [reflexivity |]]. apply xget_none. exact Hq.
Qed.

Lemma xstep_next_acting : forall g e now ch,
  einv g e -> snd (xstep g e (XNext now ch)) <> XNone ->
  exists q x, xget q e = Some x /\ snd (poll now q x) = snd (xstep g e (XNext now ch)) /\
              xget q (fst (xstep g e (XNext now ch))) = fst (poll now q x).
Proof.
  intros g e now ch He Ha. cbn [xstep] in *. destruct ch as [| chp]; [apply (xscan_acting g); assumption |].
  remember (N.pos chp - 1) as q. destruct (xget q e) as [x |] eqn:Eg; [| cbn [snd] in Ha; congruence].
  exists q, x. destruct (poll now q x) as [[x' |] a] eqn:Ep; cbn [fst snd].
  - split; [exact Eg | split; [reflexivity |]]. rewrite xget_xupd_same, Eg. reflexivity.
  - split; [exact Eg | split; [reflexivity | apply xget_xdel_same]].
Qed.

(* A SendMessage of the engine for query q goes to a peer that the recorded single-query history of q
   has not been sent to and that is not the local peer; afterwards the recorded history has exactly this
   one send more. So over the life of a query the engine's sends for it are pairwise distinct. *)
Lemma eng_send_fresh : forall g evs0 now ch q p mk,
  let e := fst (xrun g [] evs0) in
  snd (xstep g e (XNext now ch)) = XSend q p mk ->
  exists t a b c seeds es s,
    xget q e = Some (QL t a b c seeds es s) /\ mk = req_of t /\
    (dist_inj c -> ~ In (c_local c) seeds ->
     p <> g_local g /\ ~ In p (sends (snd (run c (init c seeds) es)))) /\
    exists s', xget q (fst (xstep g e (XNext now ch))) = Some (QL t a b c seeds (es ++ [ENext now]) s') /\
      sends (snd (run c (init c seeds) (es ++ [ENext now]))) = sends (snd (run c (init c seeds) es)) ++ [p].
Proof.
  intros g evs0 now ch q p mk e Ha.
  pose proof (reach_einv g evs0) as He. fold e in He.
  destruct (xstep_next_acting g e now ch He) as [q0 [x [Hg [Hp Hr]]]]; [rewrite Ha; discriminate |].
  rewrite Ha in Hp.
  assert (Hx : linv2 g x) by (destruct He as [_ Hl]; eapply Hl; apply xget_in; exact Hg).
  destruct x as [t a b c seeds es s | a b peers | t pd sc nd]; cbn [poll] in Hp, Hr.
  2: discriminate.
  2: { destruct pd; [destruct (nd <=? sc); [destruct t |] |]; discriminate. }
  destruct Hx as [[Hs Hd] [_ [_ [_ [El _]]]]].
  destruct (next_action c s now) as [s' act] eqn:En. cbn [fst snd] in Hp, Hr.
  destruct act; cbn [lift_action] in Hp; try discriminate; [| destruct t; discriminate].
  injection Hp as E1 E2 E3. subst q0 p0 mk. cbn [is_terminal] in Hr.
  exists t, a, b, c, seeds, es, s. split; [exact Hg | split; [reflexivity | split]].
  - intros Hinj Hloc.
    pose proof (send_closest_reach c seeds es now p Hinj Hloc) as K. cbn zeta in K.
    rewrite grun_run in K. rewrite <- Hs, En in K. specialize (K eq_refl).
    destruct K as [_ [K2 [K3 _]]]. rewrite grun_sent in K2. cbn [ghost0 g_sent app] in K2.
    split; [rewrite <- El; exact K3 | exact K2].
  - exists s'. split; [exact Hr |]. rewrite run_snoc_snd, sends_app. cbn [step]. rewrite <- Hs, En. reflexivity.
Qed.
