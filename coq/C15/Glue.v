(* C15 — wire format, model runner and the trace oracle prop_ok. Definitions only.

   case  = kind flavour k alpha timeout local qtag qn known  npeers dist*  nseeds seed*
           nkprov (peer naddr addr* )*  nevents event*
   event = 0 now | 1 p recflag recid npeers peer* nprov (peer naddr addr* )* | 2 p | 3 p | 4 p | 5 p
           (3/4: register_send_success/failure, 5: response of the wrong message type)
   trace = 1 (action dump)*      one pair per event
   action = 0 | 1 p | 2 | 3 n peer* | 4 p r | 5 | 6 n (peer naddr addr* )*
   dump  = 0 (query gone) | 1 cands pend queried resps pr found recq provs  (count-prefixed lists) *)
From Coq Require Import List NArith Bool.
From V.common Require Import Wire.
From V.C15 Require Import Model.
Import ListNotations.
Open Scope N_scope.

Record case := mkCase {
  k_cfg : cfg;
  k_seeds : list N;
  k_events : list event
}.

Definition p_entry : parser (N * list N) :=
  let* p := pN in let* a := plist pN in pret (p, a).

Definition p_event : parser event :=
  let* tag := pN in
  match tag with
  | 0 => let* now := pN in pret (ENext now)
  | 1 => let* p := pN in let* flag := pN in let* id := pN in
         let* peers := plist pN in let* provs := plist p_entry in
         pret (EResp p (mkReply peers
                          (if flag =? 0 then None else Some (id, negb (flag =? 1))) provs))
  | 2 => let* p := pN in pret (EFail p)
  | 3 => let* p := pN in pret (ENoop p)
  | 4 => let* p := pN in pret (ENoop p)
  | 5 => let* p := pN in pret (EFail p)
  | _ => pfail
  end.

Definition kind_of (x : N) : option kind :=
  match x with 0 => Some KFind | 1 => Some KRecord | 2 => Some KProviders | _ => None end.

Definition p_case : parser case :=
  let* kd := pN in let* _flavour := pN in let* k := pN in let* alpha := pN in let* timeout := pN in let* local := pN in
  let* qtag := pN in let* qn := pN in let* known := pN in
  let* dists := plist pN in
  let* seeds := plist pN in
  let* kprov := plist p_entry in
  let* evs := plist p_event in
  match kind_of kd with
  | Some kd' =>
      let needed := match qtag with 0 => k | 1 => 1 | _ => qn end in
      pret (mkCase (mkCfg kd' k alpha timeout local needed known kprov
                          (fun p => nth (N.to_nat p) dists 0)) seeds evs)
  | None => pfail
  end.

Definition decode_case (l : list N) : option case := pall p_case l.

(* ---- encoders ---- *)
Definition enc_entries (l : list (N * list N)) : list N :=
  enc_list (fun x : N * list N => fst x :: enc_list (fun a => [a]) (snd x)) l.
Definition enc_ns (l : list N) : list N := enc_list (fun a => [a]) l.

Definition enc_action (a : action) : list N :=
  match a with
  | ANone => [0]
  | ASend p => [1; p]
  | AFailed => [2]
  | AFound l => 3 :: enc_ns l
  | APartial p r => [4; p; r]
  | ARecDone => [5]
  | AProvDone l => 6 :: enc_entries l
  end.

Definition dump (s : state) : list N :=
  if done s then [0]
  else 1 :: enc_ns (map snd (cands s)) ++
       enc_ns (sort_by (fun x => x) (map fst (pend s))) ++
       enc_ns (sort_by (fun x => x) (queried s)) ++
       enc_ns (map snd (resps s)) ++
       [pr s; found s] ++
       enc_ns (map fst (recq s)) ++
       enc_ns (map fst (provs s)).

Fixpoint run_trace (c : cfg) (s : state) (es : list event) : list N :=
  match es with
  | [] => []
  | e :: t => let '(s1, a) := step c s e in enc_action a ++ dump s1 ++ run_trace c s1 t
  end.

Definition run_case (l : list N) : list N :=
  match decode_case l with
  | Some k => 1 :: run_trace (k_cfg k) (init (k_cfg k) (k_seeds k)) (k_events k)
  | None => [0]
  end.

(* ---- decoding a trace ---- *)
Definition p_action : parser action :=
  let* tag := pN in
  match tag with
  | 0 => pret ANone
  | 1 => let* p := pN in pret (ASend p)
  | 2 => pret AFailed
  | 3 => let* l := plist pN in pret (AFound l)
  | 4 => let* p := pN in let* r := pN in pret (APartial p r)
  | 5 => pret ARecDone
  | 6 => let* l := plist p_entry in pret (AProvDone l)
  | _ => pfail
  end.

Definition p_dump : parser unit :=
  let* tag := pN in
  match tag with
  | 0 => pret tt
  | 1 => let* _ := plist pN in let* _ := plist pN in let* _ := plist pN in let* _ := plist pN in
         let* _ := pN in let* _ := pN in let* _ := plist pN in let* _ := plist pN in pret tt
  | _ => pfail
  end.

Definition p_steps (n : nat) : parser (list action) :=
  prep n (let* a := p_action in let* _ := p_dump in pret a).

(* ---- the oracle: the property text judged on (events, observed actions) ---- *)
Record ost := mkO {
  o_fl : list (N * N);        (* requests in flight: (peer, time of the SendMessage) *)
  o_sent : list N;
  o_ans : list N;
  o_known : list N;
  o_got : list (N * N);
  o_emit : list (N * N);
  o_provs : list (N * list N);
  o_term : bool
}.

Definition pair_mem (x : N * N) (l : list (N * N)) : bool :=
  existsb (fun y => (fst x =? fst y) && (snd x =? snd y)) l.

Fixpoint sorted_dist (dist : N -> N) (l : list N) : bool :=
  match l with
  | [] => true
  | x :: t => match t with [] => true | y :: _ => dist x <? dist y end && sorted_dist dist t
  end.

(* FindNode result: answered peers, strictly sorted by distance, at most k, and every known
   peer (other than the local one) strictly closer than the furthest reported peer was sent a
   request *)
Definition found_ok (c : cfg) (o : ost) (l : list N) : bool :=
  forallb (fun p => mem p (o_ans o)) l &&
  sorted_dist (c_dist c) l &&
  (N.of_nat (length l) <=? c_k c) &&
  match last_opt l with
  | None => true
  | Some w =>
      forallb (fun p => (p =? c_local c) || negb (c_dist c p <? c_dist c w) || mem p (o_sent o))
              (o_known o)
  end.

Definition addrs_of (p : N) (l : list (N * list N)) : list N :=
  flat_map (fun x : N * list N => if fst x =? p then snd x else []) l.

(* GetProviders result: every provider peer exactly once, sorted by distance, addresses = the
   union of everything reported for that peer *)
Definition provs_ok (c : cfg) (o : ost) (l : list (N * list N)) : bool :=
  let input := c_kprov c ++ o_provs o in
  sorted_dist (c_dist c) (map fst l) &&
  forallb (fun x : N * list N => mem (fst x) (map fst l)) input &&
  forallb (fun x : N * list N =>
             mem (fst x) (map fst input) && nlist_eqb (snd x) (addr_set (addrs_of (fst x) input))) l.

Definition judge (c : cfg) (local_seed : bool) (o : ost) (e : event) (a : action) : option ost :=
  if o_term o then
    match a with ANone => Some o | _ => None end     (* nothing after the terminal action *)
  else
  match e with
  | ENext now =>
      match a with
      | ANone =>
          (* no deadlock: with nothing in flight the lookup must act *)
          match o_fl o with
          | [] => if 1 <=? c_alpha c then None else Some o
          | _ => Some o
          end
      | ASend p =>
          if (local_seed || negb (p =? c_local c)) &&
             negb (mem p (o_sent o)) &&
             mem p (o_known o) &&
             (in_flight c now (o_fl o) <? c_alpha c) &&
             match c_kind c with
             | KRecord => negb (c_needed c <=? c_known c + N.of_nat (length (o_got o)))
             | _ => true
             end
          then Some (mkO (o_fl o ++ [(p, now)]) (o_sent o ++ [p]) (o_ans o) (o_known o)
                         (o_got o) (o_emit o) (o_provs o) false)
          else None
      | APartial p r =>
          if pair_mem (p, r) (o_got o) && negb (pair_mem (p, r) (o_emit o))
          then Some (mkO (o_fl o) (o_sent o) (o_ans o) (o_known o) (o_got o)
                         (o_emit o ++ [(p, r)]) (o_provs o) false)
          else None
      | AFailed =>
          Some (mkO (o_fl o) (o_sent o) (o_ans o) (o_known o) (o_got o) (o_emit o) (o_provs o) true)
      | AFound l =>
          if match c_kind c with KFind => found_ok c o l | _ => false end
          then Some (mkO (o_fl o) (o_sent o) (o_ans o) (o_known o) (o_got o) (o_emit o)
                         (o_provs o) true)
          else None
      | ARecDone =>
          if match c_kind c with KRecord => true | _ => false end &&
             forallb (fun x => pair_mem x (o_emit o)) (o_got o)
          then Some (mkO (o_fl o) (o_sent o) (o_ans o) (o_known o) (o_got o) (o_emit o)
                         (o_provs o) true)
          else None
      | AProvDone l =>
          if match c_kind c with KProviders => provs_ok c o l | _ => false end
          then Some (mkO (o_fl o) (o_sent o) (o_ans o) (o_known o) (o_got o) (o_emit o)
                         (o_provs o) true)
          else None
      end
  | EResp p r =>
      match a with
      | ANone =>
          if pmem p (o_fl o) then
            Some (mkO (premove p (o_fl o)) (o_sent o) (o_ans o ++ [p]) (o_known o ++ r_peers r)
                      (match c_kind c, r_rec r with
                       | KRecord, Some (id, false) => o_got o ++ [(p, id)]
                       | _, _ => o_got o
                       end)
                      (o_emit o)
                      (match c_kind c with KProviders => o_provs o ++ r_provs r | _ => o_provs o end)
                      false)
          else Some o
      | _ => None
      end
  | EFail p =>
      match a with
      | ANone => Some (mkO (premove p (o_fl o)) (o_sent o) (o_ans o) (o_known o) (o_got o)
                           (o_emit o) (o_provs o) false)
      | _ => None
      end
  | ENoop _ => match a with ANone => Some o | _ => None end
  end.

Fixpoint judge_all (c : cfg) (ls : bool) (o : ost) (es : list event) (acts : list action) : bool :=
  match es, acts with
  | [], [] => true
  | e :: es', a :: acts' =>
      match judge c ls o e a with
      | Some o' => judge_all c ls o' es' acts'
      | None => false
      end
  | _, _ => false
  end.

Definition prop_ok (case trace : list N) : bool :=
  match decode_case case, trace with
  | Some k, 1 :: body =>
      match pall (p_steps (length (k_events k))) body with
      | Some acts =>
          judge_all (k_cfg k) (mem (c_local (k_cfg k)) (k_seeds k))
                    (mkO [] [] [] (k_seeds k) [] [] [] false) (k_events k) acts
      | None => false
      end
  | None, [0] => true
  | _, _ => false
  end.

(* F-C15a was repaired in the code (fix commit), so there is no known-finding class. *)
Definition known_class (case trace : list N) : N := 0.
