(* C15 — wire format, model runner and the trace oracle prop_ok. Definitions only.

   single-query case (one query in the engine):
     case  = kind flavour k alpha timeout local qtag qn known  npeers dist*  nseeds seed*
             nkprov (peer naddr addr* )*  nevents event*
     event = 0 now | 1 p recflag recid npeers peer* nprov (peer naddr addr* )* | 2 p | 3 p | 4 p | 5 p | 6 p
             (3/4: register_send_success/failure, 5: response of the wrong message type,
              6: next_peer_action)
   multi-query case (several queries in one engine, same target key):
     case  = 9 k alpha timeout local npeers dist*  nq query*  nevents mevent*
     query = kind flavour qtag qn known nseeds seed* nkprov (peer naddr addr* )*
     mevent = 0 now choice | 1 q p recflag recid ... | 2 q p | 3 q p | 4 q p | 5 q p | 6 q p
              (choice = 0: the engine returned nothing; i+1: the action came from query i)
   trace = 1 (action dump^nq)*      one group per event
   action = 0 | 1 p | 2 | 3 n peer* | 4 p r | 5 | 6 n (peer naddr addr* )* | 7 p (next_peer_action)
   dump  = 0 (query gone) | 1 cands pend queried resps pr found recq provs  (count-prefixed lists) *)
From Coq Require Import List NArith Bool.
From V.common Require Import Wire.
From V.C15 Require Import Model Engine.
Import ListNotations.
Open Scope N_scope.

Record qspec := mkQ { q_cfg : cfg; q_seeds : list N }.
Inductive gevent := GM (m : mevent) | GPeerAct (q p : N).
Inductive gaction := GA (a : action) | GAPeer (p : N).
Record gcase := mkCase { g_qs : list qspec; g_events : list gevent }.

Definition p_entry : parser (N * list N) :=
  let* p := pN in let* a := plist pN in pret (p, a).

(* multi = true: events carry a query index (and next_action carries the implementation's choice) *)
Definition p_event (multi : bool) : parser gevent :=
  let pq : parser N := if multi then pN else pret 0 in
  let* tag := pN in
  match tag with
  | 0 => let* now := pN in let* ch := (if multi then pN else pret 1) in pret (GM (MNext now ch))
  | 1 => let* q := pq in let* p := pN in let* flag := pN in let* id := pN in
         let* peers := plist pN in let* provs := plist p_entry in
         pret (GM (MEv q (EResp p (mkReply peers
                          (if flag =? 0 then None else Some (id, negb (flag =? 1))) provs))))
  | 2 => let* q := pq in let* p := pN in pret (GM (MEv q (EFail p)))
  | 3 => let* q := pq in let* p := pN in pret (GM (MEv q (ENoop p)))
  | 4 => let* q := pq in let* p := pN in pret (GM (MEv q (ENoop p)))
  | 5 => let* q := pq in let* p := pN in pret (GM (MEv q (EFail p)))
  | 6 => let* q := pq in let* p := pN in pret (GPeerAct q p)
  | _ => pfail
  end.

Definition kind_of (x : N) : option kind :=
  match x with 0 => Some KFind | 1 => Some KRecord | 2 => Some KProviders | _ => None end.

Definition mk_cfg (kd : kind) (k alpha timeout local qtag qn known : N) (kprov : list (N * list N))
           (dists : list N) : cfg :=
  let needed := match qtag with 0 => k | 1 => 1 | _ => qn end in
  mkCfg kd k alpha timeout local needed known kprov (fun p => nth (N.to_nat p) dists 0).

Definition p_single : parser gcase :=
  let* kd := pN in let* _flavour := pN in let* k := pN in let* alpha := pN in let* timeout := pN in
  let* local := pN in let* qtag := pN in let* qn := pN in let* known := pN in
  let* dists := plist pN in
  let* seeds := plist pN in
  let* kprov := plist p_entry in
  let* evs := plist (p_event false) in
  match kind_of kd with
  | Some kd' => pret (mkCase [mkQ (mk_cfg kd' k alpha timeout local qtag qn known kprov dists) seeds] evs)
  | None => pfail
  end.

Definition p_query (k alpha timeout local : N) (dists : list N) : parser qspec :=
  let* kd := pN in let* _flavour := pN in let* qtag := pN in let* qn := pN in let* known := pN in
  let* seeds := plist pN in
  let* kprov := plist p_entry in
  match kind_of kd with
  | Some kd' => pret (mkQ (mk_cfg kd' k alpha timeout local qtag qn known kprov dists) seeds)
  | None => pfail
  end.

Definition p_multi : parser gcase :=
  let* k := pN in let* alpha := pN in let* timeout := pN in let* local := pN in
  let* dists := plist pN in
  let* qs := plist (p_query k alpha timeout local dists) in
  let* evs := plist (p_event true) in
  pret (mkCase qs evs).

Definition decode_case (l : list N) : option gcase :=
  match l with
  | 9 :: t => pall p_multi t
  | _ => pall p_single l
  end.

(* ---- encoders ---- *)
Definition enc_entries (l : list (N * list N)) : list N :=
  enc_list (fun x : N * list N => fst x :: enc_list (fun a => [a]) (snd x)) l.
Definition enc_ns (l : list N) : list N := enc_list (fun a => [a]) l.

Definition enc_action (a : action) : list N :=
  match a with
  | ANone => [0]
  | ASend p => [1; p]
  | AFailed => [2]
  | AFound l => 3 :: enc_ns l
  | APartial p r => [4; p; r]
  | ARecDone => [5]
  | AProvDone l => 6 :: enc_entries l
  end.

Definition dump (s : state) : list N :=
  if done s then [0]
  else 1 :: enc_ns (map snd (cands s)) ++
       enc_ns (sort_by (fun x => x) (map fst (pend s))) ++
       enc_ns (sort_by (fun x => x) (queried s)) ++
       enc_ns (map snd (resps s)) ++
       [pr s; found s] ++
       enc_ns (map fst (recq s)) ++
       enc_ns (map fst (provs s)).

Definition dumps (eng : engine) : list N := flat_map (fun cs : cfg * state => dump (snd cs)) eng.

Fixpoint run_trace (eng : engine) (es : list gevent) : list N :=
  match es with
  | [] => []
  | GM m :: t =>
      let '(eng1, a, _) := mstep eng m in enc_action a ++ dumps eng1 ++ run_trace eng1 t
  | GPeerAct q p :: t =>
      (match nth_error eng (N.to_nat q) with
       | Some (_, s) => if peer_msg s p then [7; p] else [0]
       | None => [0]
       end) ++ dumps eng ++ run_trace eng t
  end.

Definition start (qs : list qspec) : engine :=
  map (fun q => (q_cfg q, init (q_cfg q) (q_seeds q))) qs.

Definition run_case1 (l : list N) : list N :=
  match decode_case l with
  | Some k => 1 :: run_trace (start (g_qs k)) (g_events k)
  | None => [0]
  end.

(* ---- decoding a trace ---- *)
Definition p_action : parser gaction :=
  let* tag := pN in
  match tag with
  | 0 => pret (GA ANone)
  | 1 => let* p := pN in pret (GA (ASend p))
  | 2 => pret (GA AFailed)
  | 3 => let* l := plist pN in pret (GA (AFound l))
  | 4 => let* p := pN in let* r := pN in pret (GA (APartial p r))
  | 5 => pret (GA ARecDone)
  | 6 => let* l := plist p_entry in pret (GA (AProvDone l))
  | 7 => let* p := pN in pret (GAPeer p)
  | _ => pfail
  end.

Definition p_dump : parser unit :=
  let* tag := pN in
  match tag with
  | 0 => pret tt
  | 1 => let* _ := plist pN in let* _ := plist pN in let* _ := plist pN in let* _ := plist pN in
         let* _ := pN in let* _ := pN in let* _ := plist pN in let* _ := plist pN in pret tt
  | _ => pfail
  end.

Definition p_steps (nq n : nat) : parser (list gaction) :=
  prep n (let* a := p_action in let* _ := prep nq p_dump in pret a).

(* ---- the oracle: the property text judged on (events, observed actions) ---- *)
Record ost := mkO {
  o_fl : list (N * N);        (* requests in flight: (peer, time of the SendMessage) *)
  o_sent : list N;
  o_ans : list N;
  o_known : list N;
  o_got : list (N * N);
  o_emit : list (N * N);
  o_provs : list (N * list N);
  o_term : bool
}.

Definition pair_mem (x : N * N) (l : list (N * N)) : bool :=
  existsb (fun y => (fst x =? fst y) && (snd x =? snd y)) l.

Fixpoint sorted_dist (dist : N -> N) (l : list N) : bool :=
  match l with
  | [] => true
  | x :: t => match t with [] => true | y :: _ => dist x <? dist y end && sorted_dist dist t
  end.

(* FindNode result: answered peers, strictly sorted by distance, at most k, and every known
   peer (other than the local one) strictly closer than the furthest reported peer was sent a
   request *)
Definition found_ok (c : cfg) (o : ost) (l : list N) : bool :=
  forallb (fun p => mem p (o_ans o)) l &&
  sorted_dist (c_dist c) l &&
  (N.of_nat (length l) <=? c_k c) &&
  (* the k closest of all that answered: whoever answered and is not reported is farther than
     every reported peer, and then k peers are reported *)
  forallb (fun q => mem q l ||
                    ((N.of_nat (length l) =? c_k c) &&
                     forallb (fun w => c_dist c w <? c_dist c q) l)) (o_ans o) &&
  match last_opt l with
  | None => true
  | Some w =>
      forallb (fun p => (p =? c_local c) || negb (c_dist c p <? c_dist c w) || mem p (o_sent o))
              (o_known o)
  end.

(* GetProviders result: every provider peer exactly once, sorted by distance, addresses = the
   union of everything reported for that peer *)
Definition provs_ok (c : cfg) (o : ost) (l : list (N * list N)) : bool :=
  let input := c_kprov c ++ o_provs o in
  sorted_dist (c_dist c) (map fst l) &&
  forallb (fun x : N * list N => mem (fst x) (map fst l)) input &&
  forallb (fun x : N * list N =>
             mem (fst x) (map fst input) && nlist_eqb (snd x) (addr_set (addrs_of (fst x) input))) l.

(* nothing is in flight and every peer the lookup learned of (except itself) was contacted *)
Definition exhausted (c : cfg) (o : ost) : bool :=
  match o_fl o with
  | [] => forallb (fun p => (p =? c_local c) || mem p (o_sent o)) (o_known o)
  | _ => false
  end.

(* what the lookup really has: the local record (counted once) plus the records received *)
Definition have_records (c : cfg) (o : ost) : N := c_known c + N.of_nat (length (o_got o)).

Definition judge (c : cfg) (local_seed : bool) (o : ost) (e : event) (a : action) : option ost :=
  if o_term o then
    match a with ANone => Some o | _ => None end     (* nothing after the terminal action *)
  else
  match e with
  | ENext now =>
      match a with
      | ANone =>
          (* no deadlock: with nothing in flight the lookup must act *)
          match o_fl o with
          | [] => if 1 <=? c_alpha c then None else Some o
          | _ => Some o
          end
      | ASend p =>
          if (local_seed || negb (p =? c_local c)) &&
             negb (mem p (o_sent o)) &&
             mem p (o_known o) &&
             (* greedy: the closest peer the lookup knows of and has not contacted yet *)
             forallb (fun q => (q =? c_local c) || mem q (o_sent o) || (c_dist c p <=? c_dist c q))
                     (o_known o) &&
             (in_flight c now (o_fl o) <? c_alpha c) &&
             match c_kind c with
             | KRecord => negb (c_needed c <=? have_records c o)
             | _ => true
             end
          then Some (mkO (o_fl o ++ [(p, now)]) (o_sent o ++ [p]) (o_ans o) (o_known o)
                         (o_got o) (o_emit o) (o_provs o) false)
          else None
      | APartial p r =>
          if pair_mem (p, r) (o_got o) && negb (pair_mem (p, r) (o_emit o))
          then Some (mkO (o_fl o) (o_sent o) (o_ans o) (o_known o) (o_got o)
                         (o_emit o ++ [(p, r)]) (o_provs o) false)
          else None
      | AFailed =>
          (* failure only when every learned peer was tried and nothing at all was obtained *)
          if exhausted c o &&
             match c_kind c with
             | KFind => match o_ans o with [] => true | _ => c_k c =? 0 end
             | KRecord => have_records c o =? 0
             | KProviders => match c_kprov c ++ o_provs o with [] => true | _ => false end
             end
          then Some (mkO (o_fl o) (o_sent o) (o_ans o) (o_known o) (o_got o) (o_emit o) (o_provs o) true)
          else None
      | AFound l =>
          if match c_kind c with KFind => found_ok c o l | _ => false end
          then Some (mkO (o_fl o) (o_sent o) (o_ans o) (o_known o) (o_got o) (o_emit o)
                         (o_provs o) true)
          else None
      | ARecDone =>
          (* success: the quorum is really met, or everybody was tried and something was found *)
          if match c_kind c with KRecord => true | _ => false end &&
             ((c_needed c <=? have_records c o) || (exhausted c o && (1 <=? have_records c o))) &&
             forallb (fun x => pair_mem x (o_emit o)) (o_got o)
          then Some (mkO (o_fl o) (o_sent o) (o_ans o) (o_known o) (o_got o) (o_emit o)
                         (o_provs o) true)
          else None
      | AProvDone l =>
          if match c_kind c with KProviders => exhausted c o && provs_ok c o l | _ => false end
          then Some (mkO (o_fl o) (o_sent o) (o_ans o) (o_known o) (o_got o) (o_emit o)
                         (o_provs o) true)
          else None
      end
  | EResp p r =>
      match a with
      | ANone =>
          if pmem p (o_fl o) then
            Some (mkO (premove p (o_fl o)) (o_sent o) (o_ans o ++ [p]) (o_known o ++ r_peers r)
                      (match c_kind c, r_rec r with
                       | KRecord, Some (id, false) => o_got o ++ [(p, id)]
                       | _, _ => o_got o
                       end)
                      (o_emit o)
                      (match c_kind c with KProviders => o_provs o ++ r_provs r | _ => o_provs o end)
                      false)
          else Some o
      | _ => None
      end
  | EFail p =>
      match a with
      | ANone => Some (mkO (premove p (o_fl o)) (o_sent o) (o_ans o) (o_known o) (o_got o)
                           (o_emit o) (o_provs o) false)
      | _ => None
      end
  | ENoop _ => match a with ANone => Some o | _ => None end
  end.


(* per query: configuration, "local peer among the seeds", oracle state *)
Definition jq := (cfg * bool * ost)%type.

Definition judge_q (x : jq) (e : event) (a : action) : option jq :=
  let '(c, ls, o) := x in
  match judge c ls o e a with Some o' => Some (c, ls, o') | None => None end.

Fixpoint judge_each (xs : list jq) (e : event) (a : action) : option (list jq) :=
  match xs with
  | [] => Some []
  | x :: t =>
      match judge_q x e a, judge_each t e a with
      | Some x', Some t' => Some (x' :: t')
      | _, _ => None
      end
  end.

Definition judge_at (xs : list jq) (i : nat) (e : event) (a : action) : option (list jq) :=
  match nth_error xs i with
  | Some x => match judge_q x e a with Some x' => Some (upd i x' xs) | None => None end
  | None => match a with ANone => Some xs | _ => None end
  end.

Definition judge_g (xs : list jq) (e : gevent) (a : gaction) : option (list jq) :=
  match e, a with
  | GM (MNext now 0), GA ANone => judge_each xs (ENext now) ANone   (* every query was polled *)
  | GM (MNext now 0), _ => None
  | GM (MNext now ch), GA a' => judge_at xs (N.to_nat (ch - 1)) (ENext now) a'
  | GM (MEv q e'), GA a' => judge_at xs (N.to_nat q) e' a'
  | GPeerAct q p, GA ANone => Some xs
  | GPeerAct q p, GAPeer p' =>
      (* a message is only handed out for an outstanding request of a live query *)
      match nth_error xs (N.to_nat q) with
      | Some (_, _, o) => if (p' =? p) && pmem p (o_fl o) && negb (o_term o) then Some xs else None
      | None => None
      end
  | _, _ => None
  end.

Fixpoint judge_all (xs : list jq) (es : list gevent) (acts : list gaction) : bool :=
  match es, acts with
  | [], [] => true
  | e :: es', a :: acts' =>
      match judge_g xs e a with
      | Some xs' => judge_all xs' es' acts'
      | None => false
      end
  | _, _ => false
  end.

Definition prop_ok1 (case trace : list N) : bool :=
  match decode_case case, trace with
  | Some k, 1 :: body =>
      match pall (p_steps (length (g_qs k)) (length (g_events k))) body with
      | Some acts =>
          judge_all (map (fun q => (q_cfg q, mem (c_local (q_cfg q)) (q_seeds q),
                                    mkO [] [] [] (q_seeds q) [] [] [] false)) (g_qs k))
                    (g_events k) acts
      | None => false
      end
  | None, [0] => true
  | _, _ => false
  end.

(* ================================================================== engine cases (first number 10)

   The whole QueryEngine over all eight query types (coq/C15/Engine.v):
     case   = 10 k alpha timeout local npeers dist*  nevents xevent*
     xevent = 0 now ch                                              next_action (ch = 0: returned None; q+1: query q acted)
            | 1 q t qtag qn known npeers peer* nkprov (peer naddr addr* )*   start_* (t = index of the QueryType variant)
            | 2 q p mk recflag recid npeers peer* nprov (peer naddr addr* )*  register_response, mk = index of the message kind
                                                                    (recflag: 0 none, 2 expired, otherwise a live record)
            | 3 q p | 4 q p | 5 q p | 6 q p | 7 q p                 response failure / send success / send failure /
                                                                    peer failure / next_peer_action
     trace  = 1 (xaction xdump)*
     xaction = 0 | 1 q p mk | 2 q | 3 q n peer* | 4 q n peer* qtag qn | 5 q | 6 q n peer* qtag qn | 7 q | 8 q p r | 9 q
             | 10 q n (peer naddr addr* )* | 11 p mk
     xdump  = nlive (q t body)*   sorted by q;  body = cands pend queried resps found recq provs (lookups)
                                                      | (nothing) (PutRecordToPeers) | pend succ need (send phases) *)

Definition qtype_idx (t : qtype) : N :=
  match t with
  | TFindNode => 0 | TPutRecord => 1 | TPutRecordToPeers => 2 | TPutRecordToFoundNodes => 3
  | TGetRecord => 4 | TAddProvider => 5 | TAddProviderToFoundNodes => 6 | TGetProviders => 7
  end.
Definition mkind_idx (m : mkind) : N :=
  match m with MKFindNode => 0 | MKPutValue => 1 | MKGetRecord => 2 | MKAddProvider => 3 | MKGetProviders => 4 end.
Definition qtype_of_n (x : N) : option qtype := nth_error all_qtypes (N.to_nat x).
Definition mkind_of_n (x : N) : option mkind := nth_error all_mkinds (N.to_nat x).
Definition qtype_eqb (a b : qtype) : bool := qtype_idx a =? qtype_idx b.
Definition mkind_eqb (a b : mkind) : bool := mkind_idx a =? mkind_idx b.

(* a quorum travels as (tag, n); n only matters for N(n) *)
Definition canon_qn (qtag qn : N) : N * N :=
  match qtag with 0 => (0, 0) | 1 => (1, 0) | _ => (2, qn) end.

Definition p_xevent : parser xevent :=
  let* tag := pN in
  match tag with
  | 0 => let* now := pN in let* ch := pN in pret (XNext now ch)
  | 1 => let* q := pN in let* t := pN in let* qtag := pN in let* qn := pN in let* known := pN in
         let* peers := plist pN in let* kprov := plist p_entry in
         match qtype_of_n t with
         | Some t' => let '(a, b) := canon_qn qtag qn in pret (XStart q t' a b known peers kprov)
         | None => pfail
         end
  | 2 => let* q := pN in let* p := pN in let* mk := pN in let* flag := pN in let* id := pN in
         let* peers := plist pN in let* provs := plist p_entry in
         match mkind_of_n mk with
         | Some mk' => pret (XResp q p mk' (mkReply peers
                          (if flag =? 0 then None else Some (id, flag =? 2)) provs))
         | None => pfail
         end
  | 3 => let* q := pN in let* p := pN in pret (XFail q p)
  | 4 => let* q := pN in let* p := pN in pret (XSendOk q p)
  | 5 => let* q := pN in let* p := pN in pret (XSendFail q p)
  | 6 => let* q := pN in let* p := pN in pret (XPeerFail q p)
  | 7 => let* q := pN in let* p := pN in pret (XPeerAct q p)
  | _ => pfail
  end.

Definition p_xcase : parser (gcfg * list xevent) :=
  let* k := pN in let* alpha := pN in let* timeout := pN in let* local := pN in
  let* dists := plist pN in
  let* evs := plist p_xevent in
  pret (mkGc k alpha timeout local (fun p => nth (N.to_nat p) dists 0), evs).

Definition enc_xaction (a : xaction) : list N :=
  match a with
  | XNone => [0]
  | XSend q p mk => [1; q; p; mkind_idx mk]
  | XFailed q => [2; q]
  | XFindNodeOk q l => [3; q] ++ enc_ns l
  | XPutToFound q l a b => [4; q] ++ enc_ns l ++ [a; b]
  | XPutOk q => [5; q]
  | XAddProvToFound q l a b => [6; q] ++ enc_ns l ++ [a; b]
  | XAddProvOk q => [7; q]
  | XPartial q p r => [8; q; p; r]
  | XRecDone q => [9; q]
  | XProvDone q l => [10; q] ++ enc_entries l
  | XPeerMsg p mk => [11; p; mkind_idx mk]
  end.

Definition xdump_q (kv : N * qstate) : list N :=
  fst kv ::
  match snd kv with
  | QL t _ _ _ _ _ s =>
      [qtype_idx t] ++ enc_ns (map snd (cands s)) ++ enc_ns (sort_by (fun x => x) (map fst (pend s))) ++
      enc_ns (sort_by (fun x => x) (queried s)) ++ enc_ns (map snd (resps s)) ++ [found s] ++
      enc_ns (map fst (recq s)) ++ enc_ns (map fst (provs s))
  | QM _ _ _ => [qtype_idx TPutRecordToPeers]
  | QT t pd sc nd => [qtype_idx t] ++ enc_ns (sort_by (fun x => x) pd) ++ [sc; nd]
  end.
Definition xdump (e : xeng) : list N :=
  N.of_nat (length e) :: flat_map xdump_q (sort_by (fun kv : N * qstate => fst kv) e).

Fixpoint xrun_trace (g : gcfg) (e : xeng) (evs : list xevent) : list N :=
  match evs with
  | [] => []
  | ev :: t => let '(e1, a) := xstep g e ev in enc_xaction a ++ xdump e1 ++ xrun_trace g e1 t
  end.

Definition run_xcase (l : list N) : list N :=
  match pall p_xcase l with
  | Some (g, evs) => 1 :: xrun_trace g [] evs
  | None => [0]
  end.

(* ---- decoding an engine trace ---- *)
Definition p_xaction : parser xaction :=
  let* tag := pN in
  match tag with
  | 0 => pret XNone
  | 1 => let* q := pN in let* p := pN in let* mk := pN in
         match mkind_of_n mk with Some mk' => pret (XSend q p mk') | None => pfail end
  | 2 => let* q := pN in pret (XFailed q)
  | 3 => let* q := pN in let* l := plist pN in pret (XFindNodeOk q l)
  | 4 => let* q := pN in let* l := plist pN in let* a := pN in let* b := pN in pret (XPutToFound q l a b)
  | 5 => let* q := pN in pret (XPutOk q)
  | 6 => let* q := pN in let* l := plist pN in let* a := pN in let* b := pN in pret (XAddProvToFound q l a b)
  | 7 => let* q := pN in pret (XAddProvOk q)
  | 8 => let* q := pN in let* p := pN in let* r := pN in pret (XPartial q p r)
  | 9 => let* q := pN in pret (XRecDone q)
  | 10 => let* q := pN in let* l := plist p_entry in pret (XProvDone q l)
  | 11 => let* p := pN in let* mk := pN in
          match mkind_of_n mk with Some mk' => pret (XPeerMsg p mk') | None => pfail end
  | _ => pfail
  end.

Definition p_xdump_q : parser unit :=
  let* _q := pN in let* t := pN in
  match qtype_of_n t with
  | Some t' =>
      match ctx_of t' with
      | CMany => pret tt
      | CTarget => let* _ := plist pN in let* _ := pN in let* _ := pN in pret tt
      | _ => let* _ := plist pN in let* _ := plist pN in let* _ := plist pN in let* _ := plist pN in
             let* _ := pN in let* _ := plist pN in let* _ := plist pN in pret tt
      end
  | None => pfail
  end.

Definition p_xsteps (n : nat) : parser (list xaction) :=
  prep n (let* a := p_xaction in let* _ := plist p_xdump_q in pret a).

(* ---- the oracle for engine cases: per live query id the property text is judged on the events addressed
   to that id and the actions that carry it ---- *)
Inductive jst :=
| JL (t : qtype) (qtag qn : N) (c : cfg) (ls : bool) (o : ost)
| JM (qtag qn : N) (peers : list N)
| JT (t : qtype) (fl : list N) (succ need : N).

Definition jeng := list (N * jst).
Fixpoint jget (q : N) (e : jeng) : option jst :=
  match e with [] => None | (q', x) :: t => if q' =? q then Some x else jget q t end.
Definition jdel (q : N) (e : jeng) : jeng := filter (fun kv => negb (fst kv =? q)) e.
Definition jset (q : N) (x : jst) (e : jeng) : jeng := jdel q e ++ [(q, x)].

(* an engine action about lookup q of type t, in the single-query vocabulary; None = not acceptable *)
Definition to_action (t : qtype) (qtag qn q : N) (a : xaction) : option action :=
  match a with
  | XSend q' p mk => if (q' =? q) && mkind_eqb mk (req_of t) then Some (ASend p) else None
  | XFailed q' => if q' =? q then Some AFailed else None
  | XFindNodeOk q' l => if (q' =? q) && qtype_eqb t TFindNode then Some (AFound l) else None
  | XPutToFound q' l a b =>
      if (q' =? q) && qtype_eqb t TPutRecord && (a =? qtag) && (b =? qn) then Some (AFound l) else None
  | XAddProvToFound q' l a b =>
      if (q' =? q) && qtype_eqb t TAddProvider && (a =? qtag) && (b =? qn) then Some (AFound l) else None
  | XPartial q' p r => if q' =? q then Some (APartial p r) else None
  | XRecDone q' => if q' =? q then Some ARecDone else None
  | XProvDone q' l => if q' =? q then Some (AProvDone l) else None
  | _ => None
  end.

Definition jstart (g : gcfg) (t : qtype) (qtag qn known : N) (peers : list N) (kprov : list (N * list N)) : jst :=
  match ctx_of t with
  | CMany => JM qtag qn peers
  | CTarget => JT t (dedup peers) 0 (need_track qtag qn (N.of_nat (length peers)))
  | _ => JL t qtag qn (lookup_cfg g t qtag qn known kprov) (mem (g_local g) peers)
            (mkO [] [] [] peers [] [] [] false)
  end.

(* an event for a lookup, judged by the single-query oracle *)
Definition jl_event (x : jst) (e : event) : option jst :=
  match x with
  | JL t qtag qn c ls o =>
      match judge c ls o e ANone with Some o' => Some (JL t qtag qn c ls o') | None => None end
  | _ => Some x
  end.

(* a poll of query q that returned nothing *)
Definition j_idle (now : N) (x : jst) : option jst :=
  match x with
  | JL _ _ _ _ _ _ => jl_event x (ENext now)
  | JM _ _ _ => None                                   (* PutRecordToPeers must finish at its first poll *)
  | JT _ fl _ _ => match fl with [] => None | _ => Some x end   (* nothing open: the send phase must finish *)
  end.

Fixpoint j_idle_all (now : N) (e : jeng) : option jeng :=
  match e with
  | [] => Some []
  | (q, x) :: t =>
      match j_idle now x, j_idle_all now t with
      | Some x', Some t' => Some ((q, x') :: t')
      | _, _ => None
      end
  end.

Definition xaction_eqb (a b : xaction) : bool := nlist_eqb (enc_xaction a) (enc_xaction b).

Definition j_acted (now q : N) (x : jst) (a : xaction) : option (option jst) :=   (* Some None = removed *)
  match x with
  | JL t qtag qn c ls o =>
      match to_action t qtag qn q a with
      | Some a' =>
          match judge c ls o (ENext now) a' with
          | Some o' => Some (if is_terminal a' then None else Some (JL t qtag qn c ls o'))
          | None => None
          end
      | None => None
      end
  | JM qtag qn peers => if xaction_eqb a (XPutToFound q peers qtag qn) then Some None else None
  | JT t fl succ need =>
      match fl with
      | [] =>
          if xaction_eqb a (if need <=? succ
                            then match t with TAddProviderToFoundNodes => XAddProvOk q | _ => XPutOk q end
                            else XFailed q)
          then Some None else None
      | _ => None
      end
  end.

Definition j_upd (q : N) (f : jst -> option jst) (e : jeng) : option jeng :=
  match jget q e with
  | Some x => match f x with Some x' => Some (jset q x' e) | None => None end
  | None => Some e
  end.

Definition xjudge (g : gcfg) (e : jeng) (ev : xevent) (a : xaction) : option jeng :=
  match ev with
  | XStart q t qtag qn known peers kprov =>
      match a with XNone => Some (jset q (jstart g t qtag qn known peers kprov) e) | _ => None end
  | XNext now 0 => match a with XNone => j_idle_all now e | _ => None end
  | XNext now ch =>
      let q := ch - 1 in
      match jget q e with
      | Some x =>
          match j_acted now q x a with
          | Some (Some x') => Some (jset q x' e)
          | Some None => Some (jdel q e)
          | None => None
          end
      | None => None                                   (* an action for a query that is not live *)
      end
  | XResp q p mk r =>
      match a with
      | XNone => j_upd q (fun x => jl_event x (if accepts (match x with JL t _ _ _ _ _ => t | _ => TPutRecordToPeers end) mk
                                              then EResp p r else EFail p)) e
      | _ => None
      end
  | XFail q p => match a with XNone => j_upd q (fun x => jl_event x (EFail p)) e | _ => None end
  | XSendOk q p =>
      match a with
      | XNone => j_upd q (fun x => match x with
                                   | JT t fl succ need =>
                                       Some (if mem p fl then JT t (nremove p fl) (succ + 1) need else x)
                                   | _ => jl_event x (ENoop p)
                                   end) e
      | _ => None
      end
  | XSendFail q p =>
      match a with
      | XNone => j_upd q (fun x => match x with
                                   | JT t fl succ need => Some (JT t (nremove p fl) succ need)
                                   | _ => jl_event x (ENoop p)
                                   end) e
      | _ => None
      end
  | XPeerFail q p =>
      match a with
      | XNone => j_upd q (fun x => match x with
                                   | JT t fl succ need => Some (JT t (nremove p fl) succ need)
                                   | _ => jl_event x (EFail p)
                                   end) e
      | _ => None
      end
  | XPeerAct q p =>
      match a with
      | XNone => Some e
      | XPeerMsg p' mk =>
          match jget q e with
          | Some (JL t _ _ _ _ o) =>
              if (p' =? p) && pmem p (o_fl o) && mkind_eqb mk (req_of t) then Some e else None
          | _ => None
          end
      | _ => None
      end
  end.

Fixpoint xjudge_all (g : gcfg) (e : jeng) (evs : list xevent) (acts : list xaction) : bool :=
  match evs, acts with
  | [], [] => true
  | ev :: evs', a :: acts' =>
      match xjudge g e ev a with
      | Some e' => xjudge_all g e' evs' acts'
      | None => false
      end
  | _, _ => false
  end.

Definition prop_xok (case trace : list N) : bool :=
  match pall p_xcase case, trace with
  | Some (g, evs), 1 :: body =>
      match pall (p_xsteps (length evs)) body with
      | Some acts => xjudge_all g [] evs acts
      | None => false
      end
  | None, [0] => true
  | _, _ => false
  end.

Definition run_case (l : list N) : list N :=
  match l with
  | 10 :: t => run_xcase t
  | _ => run_case1 l
  end.

Definition prop_ok (case trace : list N) : bool :=
  match case with
  | 10 :: t => prop_xok t trace
  | _ => prop_ok1 case trace
  end.

(* F-C15a was repaired in the code (fix commit), so there is no known-finding class. *)
Definition known_class (case trace : list N) : N := 0.
