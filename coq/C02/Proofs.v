(* C02 — lemmas about the Noise transport framing model. *)
From Coq Require Import List Arith NArith Bool Lia.
From Coq Require Import ZifyBool ZifyNat ZifyN.
From V.gen Require Import Consts.
From V.C02 Require Import Model.
Import ListNotations.
Open Scope N_scope.

Arguments N.add : simpl never.
Arguments N.sub : simpl never.
Arguments N.mul : simpl never.
Arguments N.eqb : simpl never.
Arguments N.ltb : simpl never.
Arguments N.leb : simpl never.
Arguments N.min : simpl never.
Arguments N.of_nat : simpl never.

Ltac consts := unfold SNOW_MAX, TAG, MSG, NOISE_EXTRA_ENCRYPT_SPACE, MAX_NOISE_MSG_LEN in *.

(* ------------------------------------------------------------------ the wire, by item index *)

Fixpoint nthI (l : list item) (n : N) : option item :=
  match l with
  | [] => None
  | it :: t => if n =? 0 then Some it else nthI t (n - 1)
  end.

Fixpoint istart (l : list item) (n : N) : N :=
  match l with
  | [] => 0
  | it :: t => if n =? 0 then 0 else item_len it + istart t (n - 1)
  end.

Fixpoint nthP (l : list N) (n : N) : option N :=
  match l with
  | [] => None
  | x :: t => if n =? 0 then Some x else nthP t (n - 1)
  end.

Definition auth_is (it : item) (k : N) : bool :=
  match i_auth it with Some j => j =? k | None => false end.

(* item it, found where the reader's counter is k, is the genuine next frame and acceptable *)
Definition item_good (c : cfg) (it : item) (k : N) : bool :=
  (i_hdr it =? i_blen it) && auth_is it k && (TAG <? i_hdr it) && (i_hdr it - TAG <=? c_mfl c).

Lemma nthI_in l : forall n it, nthI l n = Some it -> In it l.
Proof.
  induction l as [|h t IH]; cbn [nthI]; [discriminate|].
  intros n it. destruct (n =? 0); [intros [= <-]; now left | intro H; right; eauto].
Qed.

Lemma istart_le l : forall n, istart l n <= wire_len l.
Proof.
  induction l as [|h t IH]; cbn [istart wire_len]; intro n; [lia|].
  destruct (n =? 0); [lia | specialize (IH (n - 1)); lia].
Qed.

Lemma istart_none l : forall n, nthI l n = None -> istart l n = wire_len l.
Proof.
  induction l as [|h t IH]; cbn [istart wire_len nthI]; intro n; [reflexivity|].
  destruct (n =? 0); [discriminate | intro H; rewrite (IH _ H); reflexivity].
Qed.

Lemma istart_some l : forall n it, nthI l n = Some it -> istart l n + item_len it <= wire_len l.
Proof.
  induction l as [|h t IH]; cbn [istart wire_len nthI]; intros n it; [discriminate|].
  destruct (n =? 0); [intros [= <-]; lia | intro H; specialize (IH _ _ H); lia].
Qed.

Lemma istart_succ l : forall n it, nthI l n = Some it -> istart l (n + 1) = istart l n + item_len it.
Proof.
  induction l as [|h t IH]; cbn [istart nthI]; intros n it; [discriminate|].
  destruct (n + 1 =? 0) eqn:E1; [lia|].
  destruct (n =? 0) eqn:E0.
  - intros [= <-]. replace (n + 1 - 1) with 0 by lia.
    destruct t; cbn [istart]; [lia|]. replace (0 =? 0) with true by lia. lia.
  - intro H. replace (n + 1 - 1) with (n - 1 + 1) by lia. rewrite (IH _ _ H). lia.
Qed.

Lemma hdr_at_istart l : forall n it, nthI l n = Some it -> hdr_at l (istart l n) = Some (i_hdr it).
Proof.
  induction l as [|h t IH]; cbn [istart nthI hdr_at]; intros n it; [discriminate|].
  destruct (n =? 0) eqn:E0.
  - intros [= <-]. replace (0 =? 0) with true by lia. reflexivity.
  - intro H. assert (HL : 2 <= item_len h) by (unfold item_len; lia).
    destruct (item_len h + istart t (n - 1) =? 0) eqn:E1; [lia|].
    destruct (item_len h + istart t (n - 1) <? item_len h) eqn:E2; [lia|].
    replace (item_len h + istart t (n - 1) - item_len h) with (istart t (n - 1)) by lia.
    exact (IH _ _ H).
Qed.

Lemma body_ok_istart l : forall n it k fs, nthI l n = Some it ->
  body_ok l k (istart l n + 2) fs = (i_blen it =? fs) && auth_is it k.
Proof.
  induction l as [|h t IH]; cbn [istart nthI body_ok]; intros n it k fs; [discriminate|].
  destruct (n =? 0) eqn:E0.
  - intros [= <-]. replace (0 + 2 =? 2) with true by lia. reflexivity.
  - intro H. assert (HL : 2 <= item_len h) by (unfold item_len; lia).
    destruct (item_len h + istart t (n - 1) + 2 =? 2) eqn:E1; [lia|].
    destruct (item_len h + istart t (n - 1) + 2 <? item_len h) eqn:E2; [lia|].
    replace (item_len h + istart t (n - 1) + 2 - item_len h) with (istart t (n - 1) + 2) by lia.
    exact (IH _ _ _ _ H).
Qed.

Lemma pstart_succ l : forall n p, nthP l n = Some p -> pstart l (n + 1) = pstart l n + p.
Proof.
  induction l as [|h t IH]; cbn [pstart nthP]; intros n p; [discriminate|].
  destruct (n + 1 =? 0) eqn:E1; [lia|].
  destruct (n =? 0) eqn:E0.
  - intros [= <-]. replace (n + 1 - 1) with 0 by lia.
    destruct t; cbn [pstart]; [lia|]. replace (0 =? 0) with true by lia. lia.
  - intro H. replace (n + 1 - 1) with (n - 1 + 1) by lia. rewrite (IH _ _ H). lia.
Qed.

Lemma pstart_none l : forall n, nthP l n = None -> pstart l n = sum l.
Proof.
  induction l as [|h t IH]; cbn [pstart nthP sum]; intro n; [reflexivity|].
  destruct (n =? 0); [discriminate | intro H; rewrite (IH _ H); reflexivity].
Qed.

(* ------------------------------------------------------------------ reader invariant *)

(* what is assumed of the wire: headers are 16-bit values; an item marked as the k-th genuine
   ciphertext has the length of the k-th genuine ciphertext; the carrier delivers at most the wire *)
Record wf_env (e : renv) : Prop := {
  wf_factor : 1 <= c_factor (e_cfg e);
  wf_hdr : forall it, In it (e_items e) -> i_hdr it < 65536;
  wf_auth : forall it k, In it (e_items e) -> i_auth it = Some k ->
            exists p, nthP (e_plains e) k = Some p /\ i_blen it = p + TAG;
  wf_avail : e_avail e <= wire_len (e_items e)
}.

Definition hdr_is (e : renv) (k fs : N) : Prop :=
  exists it, nthI (e_items e) k = Some it /\ i_hdr it = fs.

(* the item at the reader's counter k is not the acceptable next frame *)
Definition bad_at (e : renv) (k : N) : Prop :=
  exists it, nthI (e_items e) k = Some it /\ item_good (e_cfg e) it k = false.

(* D = number of plaintext bytes delivered so far = stream position of the next byte owed *)
Definition Inv (e : renv) (D : N) (r : reader) : Prop :=
  let M := cmax (e_cfg e) in
  let cur := r_wbase r + r_offset r in
  let S := istart (e_items e) (r_ctr r) in
  let P := pstart (e_plains e) (r_ctr r) in
  r_wbase r + r_nread r <= e_avail e /\
  match r_state r, r_cfs r with
  | ReadData mr, None =>
      mr = M /\ r_offset r = 0 /\ r_nread r < 2 /\ cur = S /\ D = P
  | ReadData mr, Some fs =>
      cur = S + 2 /\ hdr_is e (r_ctr r) fs /\ D = P /\
      r_offset r <= r_nread r /\ r_nread r < mr /\ r_offset r <= M /\
      (mr = M \/ mr = r_offset r + fs) /\
      (r_nread r - r_offset r < fs \/ r_nread r - r_offset r < 2)
  | ReadFrameLen, None =>
      cur = S /\ D = P /\ r_offset r <= r_nread r /\ (r_nread r <= M \/ r_offset r = r_nread r)
  | ReadFrameLen, Some fs =>
      cur = S + 2 /\ hdr_is e (r_ctr r) fs /\ D = P /\
      r_offset r <= r_nread r /\ r_offset r <= M /\ (r_nread r <= M \/ r_nread r <= r_offset r + fs)
  | ProcNone, Some fs =>
      cur = S + 2 /\ hdr_is e (r_ctr r) fs /\ D = P /\ TAG < fs /\
      r_offset r + fs <= r_nread r /\ r_offset r <= M /\
      (r_nread r <= M \/ r_nread r <= r_offset r + fs)
  | ProcNone, None => False
  | ProcPend poff psize pfs, None =>
      cur + pfs = S /\ r_offset r + pfs <= r_nread r /\ r_offset r <= M /\
      (r_nread r <= M \/ r_nread r <= r_offset r + pfs) /\
      poff < psize /\ D = r_pbase r + poff /\ r_pbase r + psize = P
  | ProcPend _ _ _, Some _ => False
  | Failed, _ => bad_at e (r_ctr r) /\ D = P /\ S <= e_avail e
  end.

(* an error that comes from the carrier: its end of stream (or a zero-length read), or the I/O
   error of a scripted entry, passed through unchanged *)
Definition scripted (sc : list N) (err : N) : Prop :=
  exists x, In x sc /\ SPECIAL < x /\ err = ecode (x - SPECIAL).
Definition carrier_err (sc : list N) (err : N) : Prop := err = E_EOF \/ scripted sc err.

Lemma scripted_incl sc sc' err : incl sc' sc -> scripted sc' err -> scripted sc err.
Proof. intros Hi (x & Hx & H). exists x. split; [apply Hi; exact Hx | exact H]. Qed.
Lemma carrier_err_incl sc sc' err : incl sc' sc -> carrier_err sc' err -> carrier_err sc err.
Proof. intros Hi [H|H]; [left; exact H | right; eapply scripted_incl; eassumption]. Qed.

Definition res_ok (e : renv) (b D : N) (sc : list N) (x : rres) (r' : reader) : Prop :=
  match x with
  | RReady n pos => pos = D /\ n <= b /\ (1 <= b -> 1 <= n) /\ Inv e (D + n) r'
  | RPending => Inv e D r'
  | RErr err =>
      Inv e D r' /\
      ((carrier_err sc err /\ exists mr, r_state r' = ReadData mr) \/
       (err = E_INVALID /\ r_state r' = Failed))
  | RPanic => False
  end.

Lemma res_ok_incl e b D sc sc' x r' : incl sc' sc -> res_ok e b D sc' x r' -> res_ok e b D sc x r'.
Proof.
  intro Hi. destruct x as [n pos| |err|]; cbn [res_ok]; try tauto.
  intros [H1 [[H2 H3]|H2]]; (split; [exact H1|]); [left; split; [eapply carrier_err_incl; eassumption|exact H3] | right; exact H2].
Qed.

Lemma cmax_ge e : wf_env e -> 65536 <= cmax (e_cfg e).
Proof. intros [Hf _ _ _]. unfold cmax. consts. nia. Qed.

Lemma rbuf_eq c : rbuf_len c = cmax c + 65538.
Proof. unfold rbuf_len, cmax. consts. lia. Qed.

Lemma init_inv e : wf_env e -> Inv e 0 (reader_init (e_cfg e)).
Proof.
  intro W. unfold Inv, reader_init. cbn [r_state r_cfs r_wbase r_nread r_offset r_ctr].
  assert (H0 : forall l, istart l 0 = 0) by (destruct l; cbn [istart]; [|replace (0 =? 0) with true by lia]; reflexivity).
  assert (H1 : forall l, pstart l 0 = 0) by (destruct l; cbn [pstart]; [|replace (0 =? 0) with true by lia]; reflexivity).
  rewrite H0, H1. repeat split; lia.
Qed.

Ltac rfields := cbn [r_state r_nread r_offset r_cfs r_wbase r_ctr r_pbase r_lp set_lp] in *.

Lemma good_false_hdr c it k : i_hdr it <= TAG -> item_good c it k = false.
Proof. unfold item_good. intro H. destruct (TAG <? i_hdr it) eqn:E; [lia|]. now rewrite !andb_false_r. Qed.

Lemma step_len_inv e D r r1 res : wf_env e -> Inv e D r -> r_state r = ReadFrameLen ->
  step_len e r = (r1, res) ->
  match res with
  | None => Inv e D r1 /\ (r_state r1 = ProcNone \/ exists mr, r_state r1 = ReadData mr)
  | Some x => x = RErr E_INVALID /\ r_state r1 = Failed /\ Inv e D r1
  end.
Proof.
  intros W HI Hs. pose proof (cmax_ge e W) as HM.
  destruct r as [st nread offset cfs wbase ctr pbase lp]. cbn [r_state] in Hs. subst st.
  unfold step_len, Inv in *. rfields.
  set (M := cmax (e_cfg e)) in *.
  destruct cfs as [fs|].
  - destruct HI as (Hp & Hcur & Hhd & HD & Hon & HoM & Hnr).
    destruct Hhd as (it & Hit & Hh).
    assert (Hhd : hdr_is e ctr fs) by (exists it; split; assumption).
    pose proof (wf_hdr e W it (nthI_in _ _ _ Hit)) as Hfs. rewrite Hh in Hfs.
    destruct (nread <? offset) eqn:E1; [lia|].
    destruct (nread - offset <? 2) eqn:E2.
    + intros [= <- <-]. unfold reset_read. rfields. fold M.
      split; [|right; eauto]. repeat split; try assumption; try lia.
    + cbv beta iota zeta.
      destruct (nread - offset <? fs) eqn:E3.
      * destruct (nread + fs <? M) eqn:E4; intros [= <- <-]; rfields; fold M;
          (split; [|right; eauto]); repeat split; try assumption; try lia.
      * destruct (fs <=? TAG) eqn:E5; intros [= <- <-]; rfields; fold M.
        -- split; [reflexivity|]. split; [reflexivity|]. split; [lia|]. split; [|split; [assumption|lia]].
           exists it. split; [assumption|]. apply good_false_hdr. lia.
        -- split; [|left; reflexivity]. repeat split; try assumption; try lia.
  - destruct HI as (Hp & Hcur & HD & Hon & Hnr).
    destruct (nread <? offset) eqn:E1; [lia|].
    destruct (nread - offset <? 2) eqn:E2.
    + intros [= <- <-]. unfold reset_read. rfields. fold M.
      split; [|right; eauto]. repeat split; try assumption; try lia.
    + rewrite Hcur.
      destruct (nthI (e_items e) ctr) as [it|] eqn:Hit.
      2:{ pose proof (istart_none _ _ Hit). pose proof (wf_avail e W). lia. }
      rewrite (hdr_at_istart _ _ _ Hit). cbv beta iota zeta.
      set (fs := i_hdr it).
      assert (Hhd : hdr_is e ctr fs) by (exists it; split; [assumption|reflexivity]).
      pose proof (wf_hdr e W it (nthI_in _ _ _ Hit)) as Hfs. fold fs in Hfs.
      destruct (nread - offset - 2 <? fs) eqn:E3.
      * destruct (nread + fs <? M) eqn:E4; intros [= <- <-]; rfields; fold M;
          (split; [|right; eauto]); repeat split; try assumption; try lia.
      * destruct (fs <=? TAG) eqn:E5; intros [= <- <-]; rfields; fold M.
        -- split; [reflexivity|]. split; [reflexivity|]. split; [lia|]. split; [|split; [assumption|lia]].
           exists it. split; [assumption|]. apply good_false_hdr. fold fs. lia.
        -- split; [|left; reflexivity]. repeat split; try assumption; try lia.
Qed.

Lemma good_false_body c it k fs : i_hdr it = fs ->
  (i_blen it =? fs) && auth_is it k = false -> item_good c it k = false.
Proof.
  unfold item_good. intros <- H.
  replace (i_hdr it =? i_blen it) with (i_blen it =? i_hdr it) by lia.
  rewrite H. reflexivity.
Qed.

Lemma good_false_mfl c it k : c_mfl c < i_hdr it - TAG -> item_good c it k = false.
Proof.
  unfold item_good. intro H. destruct (i_hdr it - TAG <=? c_mfl c) eqn:E; [lia|].
  now rewrite !andb_false_r.
Qed.

Lemma proc_inv e D b sc r r2 x : wf_env e -> Inv e D r ->
  (r_state r = ProcNone \/ exists a b c, r_state r = ProcPend a b c) ->
  proc e b r = (r2, x) -> res_ok e b D sc x r2.
Proof.
  intros W HI Hs. pose proof (cmax_ge e W) as HM. pose proof (rbuf_eq (e_cfg e)) as HB.
  destruct r as [st nread offset cfs wbase ctr pbase lp]. cbn [r_state] in Hs.
  unfold proc, Inv in *. rfields.
  set (M := cmax (e_cfg e)) in *.
  destruct Hs as [-> | (poff & psize & pfs & ->)].
  - destruct cfs as [fs|]; [|tauto].
    destruct HI as (Hp & Hcur & Hhd & HD & Htag & Hfit & HoM & Hnr).
    destruct Hhd as (it & Hit & Hh).
    pose proof (wf_hdr e W it (nthI_in _ _ _ Hit)) as Hfs. rewrite Hh in Hfs.
    assert (HF : item_good (e_cfg e) it ctr = false ->
              res_ok e b D sc (RErr E_INVALID) (mkR Failed nread offset None wbase ctr pbase lp)).
    { intro Hb. unfold res_ok, Inv. rfields.
      split; [|right; split; reflexivity]. split; [assumption|]. split; [|split; [assumption|lia]].
      exists it. split; assumption. }
    destruct (fs <? TAG) eqn:E1; [lia|].
    destruct (rbuf_len (e_cfg e) <? offset + fs) eqn:E2; [lia|].
    destruct (nread <? offset + fs) eqn:E3; [lia|].
    destruct (SNOW_MAX <? fs) eqn:E4; [consts; lia|].
    rewrite Hcur, (body_ok_istart _ _ _ _ fs Hit).
    destruct ((i_blen it =? fs) && auth_is it ctr) eqn:Eok.
    + apply andb_true_iff in Eok. destruct Eok as [Ebl Eau].
      unfold auth_is in Eau. destruct (i_auth it) as [j|] eqn:Ej; [|discriminate].
      assert (j = ctr) by lia. subst j.
      destruct (wf_auth e W it ctr (nthI_in _ _ _ Hit) Ej) as (p & Hp1 & Hp2).
      pose proof (pstart_succ _ _ _ Hp1) as Hps.
      pose proof (istart_succ _ _ _ Hit) as Hiss. unfold item_len in Hiss.
      destruct (fs - TAG <=? b) eqn:E5.
      * intros [= <- <-]. unfold res_ok, Inv. rfields. fold M.
        repeat split; try lia.
      * destruct (c_mfl (e_cfg e) <? fs - TAG) eqn:E6.
        -- intros [= <- <-]. apply HF. apply good_false_mfl. lia.
        -- intros [= <- <-]. unfold res_ok, Inv. rfields. fold M.
           repeat split; try lia.
    + assert (Hbad : item_good (e_cfg e) it ctr = false) by (eapply good_false_body; eassumption).
      destruct (fs - TAG <=? b) eqn:E5.
      * intros [= <- <-]. apply HF. assumption.
      * destruct (c_mfl (e_cfg e) <? fs - TAG) eqn:E6; intros [= <- <-]; apply HF; assumption.
  - destruct cfs as [fs|]; [tauto|].
    destruct HI as (Hp & Hcur & Hfit & HoM & Hnr & Hpo & HD & HP).
    destruct (psize <? poff) eqn:E1; [lia|].
    destruct (psize - poff <=? b) eqn:E2; intros [= <- <-]; unfold res_ok, Inv; rfields; fold M;
      repeat split; try lia.
Qed.

Lemma readdata_bounds e D r mr : wf_env e -> Inv e D r -> r_state r = ReadData mr ->
  r_nread r < mr /\ mr <= rbuf_len (e_cfg e).
Proof.
  intros W HI Hs. pose proof (cmax_ge e W) as HM. pose proof (rbuf_eq (e_cfg e)) as HB.
  destruct r as [st nread offset cfs wbase ctr pbase lp]. cbn [r_state] in Hs. subst st.
  unfold Inv in HI. rfields. set (M := cmax (e_cfg e)) in *.
  destruct cfs as [fs|].
  - destruct HI as (Hp & Hcur & (it & Hit & Hh) & HD & Hon & Hlt & HoM & Hmr & Hins).
    pose proof (wf_hdr e W it (nthI_in _ _ _ Hit)) as Hfs. rewrite Hh in Hfs. lia.
  - lia.
Qed.

Lemma read_inv e D r mr k l : wf_env e -> Inv e D r -> r_state r = ReadData mr ->
  k <= mr - r_nread r -> k <= e_avail e - (r_wbase r + r_nread r) ->
  Inv e D (mkR ReadFrameLen (r_nread r + k) (r_offset r) (r_cfs r) (r_wbase r) (r_ctr r) (r_pbase r) l).
Proof.
  intros W HI Hs Hk1 Hk2. pose proof (cmax_ge e W) as HM.
  destruct r as [st nread offset cfs wbase ctr pbase lp]. cbn [r_state] in Hs. subst st.
  unfold Inv in *. rfields. set (M := cmax (e_cfg e)) in *.
  destruct cfs as [fs|].
  - destruct HI as (Hp & Hcur & Hhd & HD & Hon & Hlt & HoM & Hmr & Hins).
    repeat split; try assumption; try lia.
  - repeat split; try lia.
Qed.

Lemma inv_set_lp e D r l : Inv e D r -> Inv e D (set_lp r l).
Proof. destruct r. unfold Inv, set_lp. rfields. trivial. Qed.

Lemma poll_go_inv e b : wf_env e -> forall sc D r x r' sc',
  Inv e D r -> poll_go e b sc r = (x, r', sc') -> res_ok e b D sc x r'.
Proof.
  intros W.
  assert (Hpre : forall D r r1 res, Inv e D r ->
            match r_state r with ReadFrameLen => step_len e r | _ => (r, None) end = (r1, res) ->
            match res with
            | None => Inv e D r1 /\ r_state r1 <> ReadFrameLen
            | Some y => y = RErr E_INVALID /\ r_state r1 = Failed /\ Inv e D r1
            end).
  { intros D r r1 res HI Epre. destruct (r_state r) eqn:Es.
    2:{ pose proof (step_len_inv e D r r1 res W HI Es Epre) as H.
        destruct res; [exact H|]. destruct H as [H1 [H2|[mr H2]]]; split; congruence. }
    all: injection Epre as <- <-; split; congruence. }
  assert (Hfin : forall D r1 (sc : list N) x r' (sc' : list N), Inv e D r1 ->
            (r_state r1 = ProcNone \/ (exists a b c, r_state r1 = ProcPend a b c) \/ r_state r1 = Failed) ->
            (match r_state r1 with
             | Failed => (RErr E_INVALID, r1, sc)
             | _ => let '(r2, y) := proc e b r1 in (y, r2, sc)
             end) = (x, r', sc') -> res_ok e b D sc x r').
  { intros D r1 sc x r' sc' HI1 [Hs|[Hs|Hs]].
    - rewrite Hs. destruct (proc e b r1) as [r2 y] eqn:Ep. intros [= <- <- <-].
      eapply proc_inv; try eassumption. left; assumption.
    - destruct Hs as (a & b0 & c0 & Hs). rewrite Hs.
      destruct (proc e b r1) as [r2 y] eqn:Ep. intros [= <- <- <-].
      eapply proc_inv; try eassumption. right; eauto.
    - rewrite Hs. intros [= <- <- <-]. unfold res_ok. split; [assumption|]. right. split; [reflexivity|assumption]. }
  induction sc as [|s t IH]; intros D r x r' sc' HI; cbn [poll_go];
    destruct (match r_state r with ReadFrameLen => step_len e r | _ => (r, None) end)
      as [r1 res] eqn:Epre;
    pose proof (Hpre D r r1 res HI Epre) as Hp;
    (destruct res as [y|];
     [intros [= <- <- <-]; destruct Hp as (-> & Hf & Hi); unfold res_ok;
      split; [assumption|]; right; split; [reflexivity|assumption]|]);
    destruct Hp as [HI1 Hns].
  - destruct (r_state r1) eqn:Es1.
    + destruct (readdata_bounds e D r1 _ W HI1 Es1) as [Hb1 Hb2].
      destruct ((max_read <? r_nread r1) || (rbuf_len (e_cfg e) <? max_read)) eqn:Ep; [lia|].
      intros [= <- <- <-]. unfold res_ok. split; [apply inv_set_lp; assumption|].
      left. split; [left; reflexivity|]. destruct r1; rfields. eauto.
    + congruence.
    + intro H. eapply (Hfin D r1 [] x r' sc' HI1); [left; assumption|]. rewrite Es1. exact H.
    + intro H. eapply (Hfin D r1 [] x r' sc' HI1); [right; left; eauto|]. rewrite Es1. exact H.
    + intro H. eapply (Hfin D r1 [] x r' sc' HI1); [right; right; assumption|]. rewrite Es1. exact H.
  - destruct (r_state r1) eqn:Es1.
    + destruct (readdata_bounds e D r1 _ W HI1 Es1) as [Hb1 Hb2].
      destruct ((max_read <? r_nread r1) || (rbuf_len (e_cfg e) <? max_read)) eqn:Ep; [lia|].
      assert (Hrd : exists mr, r_state (set_lp r1 false) = ReadData mr)
        by (destruct r1; rfields; eauto).
      destruct (s =? 0) eqn:E0.
      { intros [= <- <- <-]. unfold res_ok. apply inv_set_lp; assumption. }
      destruct (s =? SPECIAL) eqn:E1.
      { intros [= <- <- <-]. unfold res_ok. split; [apply inv_set_lp; assumption|].
        left. split; [left; reflexivity|assumption]. }
      destruct (SPECIAL <? s) eqn:E2.
      { intros [= <- <- <-]. unfold res_ok. split; [apply inv_set_lp; assumption|].
        left. split; [right; exists s; split; [left; reflexivity|split; [lia|reflexivity]]|assumption]. }
      set (k := N.min s (N.min (max_read - r_nread r1) (e_avail e - (r_wbase r1 + r_nread r1)))).
      destruct (k =? 0) eqn:Ek.
      { intros [= <- <- <-]. unfold res_ok. split; [apply inv_set_lp; assumption|].
        left. split; [left; reflexivity|assumption]. }
      intro Hrec. eapply res_ok_incl; [apply incl_tl, incl_refl|]. eapply IH; [|exact Hrec].
      eapply read_inv; try eassumption; unfold k; lia.
    + congruence.
    + intro H. eapply (Hfin D r1 (s :: t) x r' sc' HI1); [left; assumption|]. rewrite Es1. exact H.
    + intro H. eapply (Hfin D r1 (s :: t) x r' sc' HI1); [right; left; eauto|]. rewrite Es1. exact H.
    + intro H. eapply (Hfin D r1 (s :: t) x r' sc' HI1); [right; right; assumption|]. rewrite Es1. exact H.
Qed.

Lemma poll_inv e b : wf_env e -> forall sc D r x r' sc',
  Inv e D r -> poll_read e b sc r = (x, r', sc') -> res_ok e b D sc x r'.
Proof.
  intros W sc D r x r' sc' HI H. unfold poll_read in H.
  eapply poll_go_inv; [exact W | apply inv_set_lp; exact HI | exact H].
Qed.

(* ------------------------------------------------------------------ whole reader runs *)

(* a poll consumes a prefix of the carrier script *)
Lemma poll_go_incl e b : forall sc r x r' sc', poll_go e b sc r = (x, r', sc') -> incl sc' sc.
Proof.
  induction sc as [|s t IH]; intros r x r' sc'; cbn [poll_go];
    destruct (match r_state r with ReadFrameLen => step_len e r | _ => (r, None) end) as [r1 res];
    (destruct res as [y|]; [intros [= <- <- <-]; apply incl_refl|]).
  - destruct (r_state r1).
    + destruct ((max_read <? r_nread r1) || (rbuf_len (e_cfg e) <? max_read));
        intros [= <- <- <-]; apply incl_refl.
    + intros [= <- <- <-]; apply incl_refl.
    + destruct (proc e b r1); intros [= <- <- <-]; apply incl_refl.
    + destruct (proc e b r1); intros [= <- <- <-]; apply incl_refl.
    + intros [= <- <- <-]; apply incl_refl.
  - destruct (r_state r1).
    + destruct ((max_read <? r_nread r1) || (rbuf_len (e_cfg e) <? max_read));
        [intros [= <- <- <-]; apply incl_refl|].
      destruct (s =? 0); [intros [= <- <- <-]; apply incl_tl, incl_refl|].
      destruct (s =? SPECIAL); [intros [= <- <- <-]; apply incl_tl, incl_refl|].
      destruct (SPECIAL <? s); [intros [= <- <- <-]; apply incl_tl, incl_refl|].
      destruct (N.min s (N.min (max_read - r_nread r1) (e_avail e - (r_wbase r1 + r_nread r1))) =? 0);
        [intros [= <- <- <-]; apply incl_tl, incl_refl|].
      intro H. apply incl_tl. eapply IH; exact H.
    + intros [= <- <- <-]; apply incl_refl.
    + destruct (proc e b r1); intros [= <- <- <-]; apply incl_refl.
    + destruct (proc e b r1); intros [= <- <- <-]; apply incl_refl.
    + intros [= <- <- <-]; apply incl_refl.
Qed.

Lemma poll_read_incl e b sc r x r' sc' : poll_read e b sc r = (x, r', sc') -> incl sc' sc.
Proof. unfold poll_read. apply poll_go_incl. Qed.

(* judgement on the trace of a reader run that starts with D bytes delivered, against the carrier
   script sc; the socket is polled on after errors *)
Fixpoint run_ok (e : renv) (D : N) (bufs sc : list N) (tr : list (rres * reader)) {struct tr} : Prop :=
  match tr, bufs with
  | [], _ => True
  | (x, r') :: t, b :: bt =>
      match x with
      | RReady n pos =>
          pos = D /\ n <= b /\ (1 <= b -> 1 <= n) /\ Inv e (D + n) r' /\ run_ok e (D + n) bt sc t
      | RPending => Inv e D r' /\ run_ok e D bt sc t
      | RErr err =>
          Inv e D r' /\
          ((carrier_err sc err /\ exists mr, r_state r' = ReadData mr) \/
           (err = E_INVALID /\ r_state r' = Failed)) /\
          run_ok e D bt sc t
      | RPanic => False
      end
  | _ :: _, [] => False
  end.

Lemma run_ok_incl e sc sc' : incl sc' sc -> forall tr D bufs,
  run_ok e D bufs sc' tr -> run_ok e D bufs sc tr.
Proof.
  intro Hi. induction tr as [|[x r'] t IH]; intros D bufs; cbn [run_ok]; [trivial|].
  destruct bufs as [|b bt]; [trivial|].
  destruct x as [n pos| |err|]; try tauto.
  - intros (H1 & H2 & H3 & H4 & H5).
    split; [exact H1|]. split; [exact H2|]. split; [exact H3|]. split; [exact H4|]. apply IH; exact H5.
  - intros [H1 H2]. split; [exact H1 | apply IH; exact H2].
  - intros (H1 & H2 & H3). split; [exact H1|]. split; [|apply IH; exact H3].
    destruct H2 as [[H2 H4]|H2]; [left; split; [eapply carrier_err_incl; eassumption|exact H4] | right; exact H2].
Qed.

Lemma run_ok_holds e : wf_env e -> forall bufs sc D r,
  Inv e D r -> run_ok e D bufs sc (run_reader e bufs sc r).
Proof.
  intro W. induction bufs as [|b bt IH]; intros sc D r HI; cbn [run_reader run_ok]; [exact I|].
  destruct (poll_read e b sc r) as [[x r'] sc'] eqn:Ep.
  pose proof (poll_inv e b W sc D r x r' sc' HI Ep) as H.
  pose proof (poll_read_incl e b sc r x r' sc' Ep) as Hi.
  cbn [run_ok]. destruct x as [n pos| |err|]; cbn [is_final res_ok] in *.
  - destruct H as (H1 & H2 & H3 & H4).
    split; [exact H1|]. split; [exact H2|]. split; [exact H3|]. split; [exact H4|].
    eapply run_ok_incl; [exact Hi|]. apply IH. exact H4.
  - split; [exact H|]. eapply run_ok_incl; [exact Hi|]. apply IH. exact H.
  - destruct H as [H1 H2]. split; [exact H1|]. split; [exact H2|].
    eapply run_ok_incl; [exact Hi|]. apply IH. exact H1.
  - exact H.
Qed.

(* the part of the judgement that speaks about delivered bytes and reported errors only: chunks
   are consecutive; an error is the carrier's (and leaves the reader ready to go on) or it is the
   socket's InvalidData and the reader has failed for good *)
Fixpoint pieces_ok (D : N) (bufs sc : list N) (tr : list (rres * reader)) {struct tr} : Prop :=
  match tr, bufs with
  | [], _ => True
  | (x, r') :: t, b :: bt =>
      match x with
      | RReady n pos => pos = D /\ n <= b /\ (1 <= b -> 1 <= n) /\ pieces_ok (D + n) bt sc t
      | RPending => pieces_ok D bt sc t
      | RErr err =>
          ((carrier_err sc err /\ exists mr, r_state r' = ReadData mr) \/
           (err = E_INVALID /\ r_state r' = Failed)) /\ pieces_ok D bt sc t
      | RPanic => False
      end
  | _ :: _, [] => False
  end.

Lemma run_ok_pieces e sc : forall tr D bufs, run_ok e D bufs sc tr -> pieces_ok D bufs sc tr.
Proof.
  induction tr as [|[x r'] t IH]; intros D bufs; cbn [run_ok pieces_ok]; [trivial|].
  destruct bufs as [|b bt]; [trivial|].
  destruct x as [n pos| |err|]; try tauto.
  - intros (H1 & H2 & H3 & _ & H4). repeat split; auto.
  - intros [_ H]. apply IH. exact H.
  - intros (H1 & H2 & H3). split; [exact H2 | apply IH; exact H3].
Qed.

Theorem read_exact e : wf_env e -> forall bufs sc,
  pieces_ok 0 bufs sc (run_reader e bufs sc (reader_init (e_cfg e))).
Proof.
  intros W bufs sc. eapply run_ok_pieces, run_ok_holds; [exact W|]. apply init_inv, W.
Qed.

(* ------------------------------------------------------------------ fail-stop *)

Definition is_failed (r : reader) : bool :=
  match r_state r with Failed => true | _ => false end.

(* once the reader has failed (it reported its own InvalidData), every later poll reports
   InvalidData, delivers nothing and leaves it failed *)
Fixpoint fail_stop (failed : bool) (tr : list (rres * reader)) : Prop :=
  match tr with
  | [] => True
  | (x, r') :: t =>
      (failed = true -> x = RErr E_INVALID /\ is_failed r' = true) /\ fail_stop (failed || is_failed r') t
  end.

Lemma poll_failed e b sc r : r_state r = Failed ->
  poll_read e b sc r = (RErr E_INVALID, set_lp r false, sc).
Proof.
  intro Hs. unfold poll_read.
  assert (Hs' : r_state (set_lp r false) = Failed) by (destruct r; exact Hs).
  destruct sc; cbn [poll_go]; rewrite Hs'; cbn beta iota; rewrite Hs'; reflexivity.
Qed.

Theorem reader_fail_stop e : forall bufs sc r,
  fail_stop (is_failed r) (run_reader e bufs sc r).
Proof.
  induction bufs as [|b bt IH]; intros sc r; cbn [run_reader fail_stop]; [exact I|].
  destruct (poll_read e b sc r) as [[x r'] sc'] eqn:Ep. cbn [fail_stop].
  destruct (is_failed r) eqn:Ef.
  - assert (Es : r_state r = Failed) by (unfold is_failed in Ef; destruct (r_state r); try discriminate; reflexivity).
    rewrite (poll_failed e b sc r Es) in Ep. injection Ep as <- <- <-.
    assert (Hf : is_failed (set_lp r false) = true)
      by (unfold is_failed; destruct r; unfold set_lp; rfields; rewrite Es; reflexivity).
    split; [intros _; split; [reflexivity|exact Hf]|]. cbn [is_final orb].
    specialize (IH sc (set_lp r false)). rewrite Hf in IH. exact IH.
  - split; [discriminate|]. cbn [orb].
    destruct (is_final x); [exact I|]. exact (IH sc' r').
Qed.

(* ------------------------------------------------------------------ the honest wire *)

Definition plains_ok (c : cfg) (plains : list N) : Prop :=
  Forall (fun p => 1 <= p /\ p <= c_mfl c) plains.

Lemma honest_nthI plains : forall k0 n it, nthI (honest_from k0 plains) n = Some it ->
  exists p, nthP plains n = Some p /\ it = mkItem (p + TAG) (p + TAG) (Some (k0 + n)).
Proof.
  induction plains as [|x t IH]; cbn [honest_from nthI nthP]; intros k0 n it; [discriminate|].
  destruct (n =? 0) eqn:E0.
  - intros [= <-]. exists x. split; [reflexivity|]. f_equal. f_equal. lia.
  - intro H. destruct (IH _ _ _ H) as (p & Hp & ->). exists p. split; [assumption|].
    f_equal. f_equal. lia.
Qed.

Lemma honest_nthI_none plains : forall k0 n, nthI (honest_from k0 plains) n = None -> nthP plains n = None.
Proof.
  induction plains as [|x t IH]; cbn [honest_from nthI nthP]; intros k0 n; [reflexivity|].
  destruct (n =? 0); [discriminate | apply IH].
Qed.

Lemma honest_in plains : forall k0 it, In it (honest_from k0 plains) ->
  exists n p, nthP plains n = Some p /\ it = mkItem (p + TAG) (p + TAG) (Some (k0 + n)).
Proof.
  induction plains as [|x t IH]; cbn [honest_from In]; intros k0 it; [intros []|].
  intros [<- | H].
  - exists 0, x. cbn [nthP]. replace (0 =? 0) with true by lia. split; [reflexivity|].
    f_equal. f_equal. lia.
  - destruct (IH _ _ H) as (n & p & Hp & ->). exists (n + 1), p. cbn [nthP].
    destruct (n + 1 =? 0) eqn:E; [lia|]. replace (n + 1 - 1) with n by lia.
    split; [assumption|]. f_equal. f_equal. lia.
Qed.

Lemma nthP_in l : forall n p, nthP l n = Some p -> In p l.
Proof.
  induction l as [|h t IH]; cbn [nthP]; [discriminate|].
  intros n p. destruct (n =? 0); [intros [= <-]; now left | intro H; right; eauto].
Qed.

Definition honest_env (c : cfg) (plains : list N) : renv :=
  mkEnv c (honest plains) plains (wire_len (honest plains)).

Lemma honest_wf c plains : 1 <= c_factor c -> c_mfl c + TAG <= SNOW_MAX -> plains_ok c plains ->
  wf_env (honest_env c plains).
Proof.
  intros Hf Hm Hp. unfold plains_ok in Hp. rewrite Forall_forall in Hp.
  constructor; cbn [e_cfg e_items e_plains e_avail honest_env]; try lia; try assumption.
  - intros it Hin. destruct (honest_in _ _ _ Hin) as (n & p & Hn & ->). cbn [i_hdr].
    specialize (Hp p (nthP_in _ _ _ Hn)). consts. lia.
  - intros it k Hin Hk. destruct (honest_in _ _ _ Hin) as (n & p & Hn & ->).
    cbn [i_auth i_blen] in *. injection Hk as <-. exists p. replace (0 + n) with n by lia. auto.
Qed.

Lemma honest_good c plains n it : plains_ok c plains ->
  nthI (honest plains) n = Some it -> item_good c it n = true.
Proof.
  intros Hp H. unfold plains_ok in Hp. rewrite Forall_forall in Hp.
  destruct (honest_nthI _ _ _ _ H) as (p & Hn & ->).
  specialize (Hp p (nthP_in _ _ _ Hn)).
  unfold item_good, auth_is. cbn [i_hdr i_blen i_auth]. consts. lia.
Qed.

(* at the carrier's EOF after the whole honest wire, every plaintext byte has been delivered *)
Lemma eof_complete c plains D r mr : 1 <= c_factor c -> c_mfl c + TAG <= SNOW_MAX -> plains_ok c plains ->
  Inv (honest_env c plains) D r -> r_state r = ReadData mr ->
  r_wbase r + r_nread r = wire_len (honest plains) -> D = sum plains.
Proof.
  intros Hf Hm Hp HI Hs Hall.
  destruct r as [st nread offset cfs wbase ctr pbase lp]. cbn [r_state] in Hs. subst st.
  unfold Inv in HI. rfields. cbn [e_cfg e_items e_plains e_avail honest_env] in HI.
  destruct cfs as [fs|].
  - destruct HI as (_ & Hcur & (it & Hit & Hh) & HD & Hon & Hlt & HoM & Hmr & Hins).
    pose proof (istart_some _ _ _ Hit) as Hs.
    destruct (honest_nthI _ _ _ _ Hit) as (p & Hn & ->).
    unfold plains_ok in Hp. rewrite Forall_forall in Hp. specialize (Hp p (nthP_in _ _ _ Hn)).
    unfold item_len in Hs. cbn [e_cfg e_items e_plains e_avail honest_env i_hdr i_blen] in *.
    consts. lia.
  - destruct HI as (_ & Hmr & Ho & Hn & Hcur & HD).
    destruct (nthI (honest plains) ctr) as [it|] eqn:Hit.
    + pose proof (istart_some _ _ _ Hit) as Hs. unfold item_len in Hs. lia.
    + rewrite HD. apply pstart_none. eapply honest_nthI_none. exact Hit.
Qed.

Fixpoint delivered (tr : list (rres * reader)) : N :=
  match tr with
  | [] => 0
  | (RReady n _, _) :: t => n + delivered t
  | _ :: t => delivered t
  end.

Lemma pstart_le_sum l : forall k, pstart l k <= sum l.
Proof.
  induction l as [|x t IH]; cbn [pstart sum]; intro k; [lia|].
  destruct (k =? 0); [lia | specialize (IH (k - 1)); lia].
Qed.

Lemma inv_D_le e D r : Inv e D r -> D <= pstart (e_plains e) (r_ctr r).
Proof.
  destruct r as [st nread offset cfs wbase ctr pbase lp]. unfold Inv. rfields.
  destruct st, cfs; intros H; try tauto; decompose [and] H; lia.
Qed.

(* judgement on a run over the untampered wire of W bytes carrying `total` plaintext bytes, D
   delivered so far: the reader never fails (an InvalidData can only be the carrier's own error,
   passed through); never more than was written; whenever the carrier reports
   EOF after the whole wire was pulled, everything has been delivered *)
Fixpoint honest_ok (W total D : N) (tr : list (rres * reader)) : Prop :=
  match tr with
  | [] => True
  | (x, r') :: t =>
      match x with
      | RReady n _ => D + n <= total /\ honest_ok W total (D + n) t
      | RErr err =>
          r_state r' <> Failed /\
          (err = E_EOF -> r_wbase r' + r_nread r' = W -> D = total) /\
          honest_ok W total D t
      | _ => honest_ok W total D t
      end
  end.

Lemma run_ok_honest c plains : 1 <= c_factor c -> c_mfl c + TAG <= SNOW_MAX -> plains_ok c plains ->
  forall sc tr D bufs, run_ok (honest_env c plains) D bufs sc tr ->
  honest_ok (wire_len (honest plains)) (sum plains) D tr.
Proof.
  intros Hf Hm Hp sc. induction tr as [|[x r1] t IH]; intros D bufs H; [exact I|].
  cbn [run_ok] in H. destruct bufs as [|b bt]; [contradiction|]. cbn [honest_ok].
  destruct x as [n pos| |err|]; try contradiction.
  - destruct H as (_ & _ & _ & HI & H). split; [|eapply IH; exact H].
    pose proof (inv_D_le _ _ _ HI) as H1. cbn [e_plains honest_env] in H1.
    pose proof (pstart_le_sum plains (r_ctr r1)). lia.
  - destruct H as [_ H]. eapply IH; exact H.
  - destruct H as (HI & Hc & H). split; [|split; [|eapply IH; exact H]].
    + destruct Hc as [[_ [mr Hs]]|[-> Hs]].
      * congruence.
      * exfalso. unfold Inv in HI. rewrite Hs in HI. destruct HI as (_ & (it & Hit & Hbad) & _).
        cbn [e_items e_cfg honest_env] in *. rewrite (honest_good c plains _ _ Hp Hit) in Hbad. discriminate.
    + intros -> Hall. destruct Hc as [[_ [mr Hs]]|[Hc _]]; [|discriminate].
      exact (eof_complete c plains D r1 mr Hf Hm Hp HI Hs Hall).
Qed.

Theorem read_honest c plains : 1 <= c_factor c -> c_mfl c + TAG <= SNOW_MAX -> plains_ok c plains ->
  forall bufs sc,
  let tr := run_reader (honest_env c plains) bufs sc (reader_init c) in
  pieces_ok 0 bufs sc tr /\ honest_ok (wire_len (honest plains)) (sum plains) 0 tr.
Proof.
  intros Hf Hm Hp bufs sc tr.
  pose proof (honest_wf c plains Hf Hm Hp) as W.
  assert (H : run_ok (honest_env c plains) 0 bufs sc tr).
  { apply run_ok_holds; [exact W|]. apply (init_inv (honest_env c plains) W). }
  split; [eapply run_ok_pieces; exact H|]. eapply run_ok_honest; eassumption.
Qed.

(* ------------------------------------------------------------------ writer *)

Definition frame_ok (c : cfg) (x : N) : Prop := 1 <= x /\ x <= c_mfl c.

Definition WInv (c : cfg) (w : writer) : Prop :=
  Forall (frame_ok c) (w_frames w) /\
  match w_state w with
  | WIdle => frames_wire (w_frames w) = w_sent w
  | Writing off elen =>
      off < elen /\ elen <= ebuf_len c /\ frames_wire (w_frames w) = w_sent w + (elen - off)
  end.

Ltac wfields := cbn [w_state w_frames w_sent w_cclosed w_lp] in *.

Lemma sum_app a b : sum (a ++ b) = sum a + sum b.
Proof. induction a as [|x t IH]; cbn [app sum]; [lia | rewrite IH; lia]. Qed.

Lemma frames_wire_app a b : frames_wire (a ++ b) = frames_wire a + frames_wire b.
Proof. induction a as [|x t IH]; cbn [app frames_wire]; [lia | rewrite IH; lia]. Qed.

Lemma frames_wire_ge l : sum l <= frames_wire l.
Proof. induction l as [|x t IH]; cbn [sum frames_wire]; lia. Qed.

(* where an error reported by a writer-side call comes from: the carrier was closed by the
   caller (BrokenPipe), the carrier accepted zero bytes (WriteZero), or the carrier's own I/O
   error, passed through unchanged.  The socket never fails by itself. *)
Definition wsrc (sc : list N) (closed : bool) (e : N) : Prop :=
  (closed = true /\ e = E_BROKENPIPE) \/ (In SPECIAL sc /\ e = E_WRITEZERO) \/ scripted sc e.

Lemma wsrc_incl sc sc' closed e : incl sc' sc -> wsrc sc' closed e -> wsrc sc closed e.
Proof.
  intros Hi [H|[[H1 H2]|H]]; [left; exact H | right; left; split; [apply Hi; exact H1|exact H2] |
                              right; right; eapply scripted_incl; eassumption].
Qed.

Definition derr_ok (sc : list N) (closed : bool) (res : drain_res) : Prop :=
  match res with DErr e => wsrc sc closed e | _ => True end.

Lemma derr_ok_incl sc sc' closed res : incl sc' sc -> derr_ok sc' closed res -> derr_ok sc closed res.
Proof. intro Hi. destruct res; cbn [derr_ok]; try tauto. apply wsrc_incl; exact Hi. Qed.

Lemma drain_spec eb closed : forall sc off elen sent res off' sent' sc', off < elen -> elen <= eb ->
  drain eb closed sc off elen sent = (res, off', sent', sc') ->
  res <> DPanic /\ off <= off' /\ sent' = sent + (off' - off) /\
  (res = DDone -> off' = elen) /\ (res <> DDone -> off' < elen) /\ derr_ok sc closed res /\
  (closed = true -> sent' = sent /\ res = DErr E_BROKENPIPE) /\ incl sc' sc.
Proof.
  induction sc as [|x t IH]; intros off elen sent res off' sent' sc' H1 H2; cbn [drain];
    (destruct ((elen <? off) || (eb <? elen)) eqn:Ep; [lia|]);
    (destruct closed;
     [intros [= <- <- <- <-]; cbn [derr_ok];
      (split; [congruence|]); (split; [lia|]); (split; [lia|]); (split; [congruence|]);
      (split; [intros _; lia|]); (split; [left; split; reflexivity|]);
      (split; [intros _; split; reflexivity | apply incl_refl])|]).
  - intros [= <- <- <- <-]. cbn [derr_ok].
    split; [congruence|]. split; [lia|]. split; [lia|]. split; [reflexivity|].
    split; [congruence|]. split; [exact I|]. split; [discriminate | apply incl_refl].
  - destruct (x =? 0) eqn:E0.
    { intros [= <- <- <- <-]. cbn [derr_ok].
      split; [congruence|]. split; [lia|]. split; [lia|]. split; [congruence|].
      split; [intros _; lia|]. split; [exact I|]. split; [discriminate | apply incl_tl, incl_refl]. }
    destruct (x =? SPECIAL) eqn:E1.
    { intros [= <- <- <- <-]. cbn [derr_ok].
      split; [congruence|]. split; [lia|]. split; [lia|]. split; [congruence|].
      split; [intros _; lia|]. split; [right; left; split; [left; lia|reflexivity]|].
      split; [discriminate | apply incl_tl, incl_refl]. }
    destruct (SPECIAL <? x) eqn:E2.
    { intros [= <- <- <- <-]. cbn [derr_ok].
      split; [congruence|]. split; [lia|]. split; [lia|]. split; [congruence|].
      split; [intros _; lia|].
      split; [right; right; exists x; split; [left; reflexivity|split; [lia|reflexivity]]|].
      split; [discriminate | apply incl_tl, incl_refl]. }
    destruct (off + N.min x (elen - off) =? elen) eqn:E3.
    + intros [= <- <- <- <-]. cbn [derr_ok].
      split; [congruence|]. split; [lia|]. split; [lia|]. split; [reflexivity|].
      split; [congruence|]. split; [exact I|]. split; [discriminate | apply incl_tl, incl_refl].
    + intro H. apply IH in H; try lia. destruct H as (A & B & C & D1 & D2 & D3 & D4 & D5).
      split; [exact A|]. split; [lia|]. split; [lia|]. split; [exact D1|]. split; [exact D2|].
      split; [eapply derr_ok_incl; [apply incl_tl, incl_refl | exact D3]|].
      split; [discriminate | apply incl_tl; exact D5].
Qed.

(* the shared first step: drain what is buffered *)
Lemma wpre_spec c sc w dres st1 sent1 sc1 : WInv c w -> wpre c sc w = (dres, st1, sent1, sc1) ->
  dres <> DPanic /\ derr_ok sc (w_cclosed w) dres /\ incl sc1 sc /\
  (forall cl l, WInv c (mkW st1 (w_frames w) sent1 cl l)) /\
  (dres = DDone -> st1 = WIdle) /\
  (dres <> DDone -> exists off elen, st1 = Writing off elen) /\
  (w_cclosed w = true -> sent1 = w_sent w) /\
  (w_cclosed w = true -> (exists off elen, w_state w = Writing off elen) -> dres = DErr E_BROKENPIPE) /\
  (w_state w = WIdle -> dres = DDone).
Proof.
  intros [HF HS]. unfold wpre. destruct (w_state w) as [|off elen] eqn:Es.
  - intros [= <- <- <- <-]. cbn [derr_ok].
    split; [congruence|]. split; [exact I|]. split; [apply incl_refl|].
    repeat split; try congruence; try assumption.
    + intros _ (o & l & H). discriminate.
  - destruct HS as (A & B & C).
    destruct (drain (ebuf_len c) (w_cclosed w) sc off elen (w_sent w)) as [[[res off'] s] sc0] eqn:Ed.
    destruct (drain_spec _ _ _ _ _ _ _ _ _ _ A B Ed) as (P1 & P2 & P3 & P4 & P5 & P6 & P7 & P8).
    assert (Hne : res <> DDone -> off' < elen) by exact P5.
    destruct res as [| |e|]; intros [= <- <- <- <-]; try congruence;
      [specialize (P4 eq_refl) | specialize (Hne ltac:(congruence)) | specialize (Hne ltac:(congruence))];
      (split; [congruence|]); (split; [exact P6 || exact I|]); (split; [exact P8|]);
      (repeat split; try congruence; try assumption; wfields; try lia;
       try (intros _; eauto; fail);
       try (intro Hc; destruct (P7 Hc); lia);
       try (intros Hc _; destruct (P7 Hc); congruence)).
Qed.

Lemma pack_spec c : 1 <= c_mfl c -> c_mfl c + TAG <= SNOW_MAX -> forall fuel rest bo,
  exists bo' tot fr, pack c fuel rest bo = Some (bo', tot, fr) /\
    bo' = bo + frames_wire fr /\ tot = sum fr /\ tot <= rest /\ Forall (frame_ok c) fr /\
    (bo <= ebuf_len c -> bo' <= ebuf_len c).
Proof.
  intros H1 H2. induction fuel as [|f IH]; intros rest bo; cbn [pack].
  - exists bo, 0, []. cbn [frames_wire sum]. repeat split; try lia. constructor.
  - destruct (rest =? 0) eqn:E0.
    { exists bo, 0, []. cbn [frames_wire sum]. repeat split; try lia. constructor. }
    destruct (ebuf_len c <? bo + N.min rest (c_mfl c) + (2 + TAG)) eqn:E1.
    { exists bo, 0, []. cbn [frames_wire sum]. repeat split; try lia. constructor. }
    destruct (SNOW_MAX <? N.min rest (c_mfl c) + TAG) eqn:E2; [lia|].
    destruct (IH (rest - N.min rest (c_mfl c)) (bo + (N.min rest (c_mfl c) + TAG) + 2))
      as (bo' & tot & fr & -> & Hb & Ht & Hle & Hfr & Hfit).
    exists bo', (N.min rest (c_mfl c) + tot), (N.min rest (c_mfl c) :: fr).
    cbn [frames_wire sum]. repeat split; try lia.
    constructor; [unfold frame_ok; lia | assumption].
Qed.

Lemma pack_progress c f rest : 1 <= c_mfl c -> c_mfl c + TAG <= SNOW_MAX -> 1 <= c_wbuf c -> 1 <= rest ->
  forall bo' tot fr, pack c (S f) rest 0 = Some (bo', tot, fr) -> 1 <= tot.
Proof.
  intros H1 H2 H3 H4 bo' tot fr. cbn [pack].
  destruct (rest =? 0) eqn:E0; [lia|].
  assert (65538 <= ebuf_len c) by (unfold ebuf_len; consts; nia).
  destruct (ebuf_len c <? 0 + N.min rest (c_mfl c) + (2 + TAG)) eqn:E1; [consts; lia|].
  destruct (SNOW_MAX <? N.min rest (c_mfl c) + TAG) eqn:E2; [lia|].
  destruct (pack_spec c H1 H2 f (rest - N.min rest (c_mfl c)) (0 + (N.min rest (c_mfl c) + TAG) + 2))
    as (b & t & r & -> & _).
  intros [= <- <- <-]. lia.
Qed.

(* what one writer call guarantees, whatever the carrier does:
   the invariant; the carrier's closed flag only changes by a completed close; nothing reaches a
   closed carrier; Ready n: n bytes (at most len) were framed; Pending: nothing was accepted and the
   last carrier call returned Pending (waker registered); an error: nothing was accepted and the
   error is the carrier's (the socket never fails by itself); never a panic *)
Definition wres_ok (c : cfg) (len : N) (sc : list N) (w : writer) (x : wres) (w' : writer) : Prop :=
  WInv c w' /\
  (w_cclosed w = true -> w_sent w' = w_sent w) /\
  match x with
  | WReady n => n <= len /\ sum (w_frames w') = sum (w_frames w) + n
  | WPending => w_frames w' = w_frames w /\ w_lp w' = true
  | WErr e => w_frames w' = w_frames w /\ wsrc sc (w_cclosed w) e
  | WPanic => False
  end.

Lemma poll_write_ok c len sc w x w' sc' :
  1 <= c_mfl c -> c_mfl c + TAG <= SNOW_MAX -> 1 <= c_wbuf c ->
  WInv c w -> poll_write c len sc w = (x, w', sc') ->
  wres_ok c len sc w x w' /\ w_cclosed w' = w_cclosed w /\ incl sc' sc.
Proof.
  intros H1 H2 H3 HI. unfold poll_write.
  destruct (wpre c sc w) as [[[dres st1] sent1] sc1] eqn:Ed.
  destruct (wpre_spec c sc w dres st1 sent1 sc1 HI Ed) as (P1 & P2 & Pi & P3 & P4 & P5 & P6 & P7 & P8).
  unfold wres_ok.
  destruct dres as [| |e|]; try congruence.
  - (* drained *)
    specialize (P4 eq_refl). subst st1.
    destruct (len =? 0) eqn:E0.
    { intros [= <- <- <-]. wfields. split; [split; [apply P3|split; [exact P6|split; lia]]|split; [reflexivity|exact Pi]]. }
    destruct (c_mfl c =? 0) eqn:Em; [lia|].
    destruct (pack c (chunk_count c len) len 0) as [[[bo' tot] fr]|] eqn:Ep.
    2:{ destruct (pack_spec c H1 H2 (chunk_count c len) len 0) as (a & b & d & He & _). congruence. }
    pose proof (pack_progress c _ len H1 H2 H3 ltac:(lia) _ _ _ Ep) as Hprog.
    destruct (pack_spec c H1 H2 (chunk_count c len) len 0) as (a & b & d & He & Hb & Ht & Hle & Hfr & Hfit).
    rewrite Ep in He. injection He as <- <- <-.
    destruct (tot =? 0) eqn:Et; [lia|].
    intros [= <- <- <-]. wfields.
    destruct (P3 false false) as [HF HS]. wfields.
    pose proof (frames_wire_ge fr).
    split; [|split; [reflexivity|exact Pi]]. split; [split|split].
    + wfields. apply Forall_app; split; assumption.
    + wfields. rewrite frames_wire_app. assert (0 <= ebuf_len c) by lia. lia.
    + assumption.
    + rewrite sum_app. lia.
  - (* carrier busy *)
    destruct (P5 ltac:(congruence)) as (off & elen & ->).
    destruct (len =? 0) eqn:E0.
    { intros [= <- <- <-]. wfields. split; [split; [apply P3|split; [exact P6|split; lia]]|split; [reflexivity|exact Pi]]. }
    destruct (c_mfl c =? 0) eqn:Em; [lia|].
    destruct (pack_spec c H1 H2 (chunk_count c len) len elen) as (bo' & tot & fr & -> & Hb & Ht & Hle & Hfr & Hfit).
    destruct (P3 false false) as [HF HS]. wfields. destruct HS as (A & B & C).
    destruct (tot =? 0) eqn:Et.
    { intros [= <- <- <-]. wfields. split; [split; [apply P3|split; [exact P6|split; reflexivity]]|split; [reflexivity|exact Pi]]. }
    intros [= <- <- <-]. wfields. pose proof (frames_wire_ge fr).
    split; [|split; [reflexivity|exact Pi]]. split; [split|split].
    + wfields. apply Forall_app; split; assumption.
    + wfields. rewrite frames_wire_app. specialize (Hfit B). lia.
    + assumption.
    + rewrite sum_app. lia.
  - (* carrier error *)
    intros [= <- <- <-]. wfields. cbn [derr_ok] in P2.
    split; [split; [apply P3|split; [exact P6|split; [reflexivity|assumption]]]|split; [reflexivity|exact Pi]].
Qed.

Lemma poll_write_progress c len sc w x w' sc' :
  1 <= c_mfl c -> c_mfl c + TAG <= SNOW_MAX -> 1 <= c_wbuf c -> 1 <= len ->
  w_state w = WIdle -> poll_write c len sc w = (x, w', sc') -> exists n, x = WReady n /\ 1 <= n.
Proof.
  intros H1 H2 H3 H4 Hs. unfold poll_write, wpre. rewrite Hs.
  destruct (len =? 0) eqn:E0; [lia|].
  destruct (c_mfl c =? 0) eqn:Em; [lia|].
  unfold chunk_count.
  destruct (pack c (S (N.to_nat (len / N.max 1 (c_mfl c)))) len 0) as [[[bo' tot] fr]|] eqn:Ep.
  - pose proof (pack_progress c _ len H1 H2 H3 H4 _ _ _ Ep) as Ht.
    destruct (tot =? 0) eqn:Et; [lia|]. intros [= <- <- <-]. eauto.
  - destruct (pack_spec c H1 H2 (S (N.to_nat (len / N.max 1 (c_mfl c)))) len 0) as (a & b & d & He & _).
    congruence.
Qed.

Lemma carrier_ctl_spec closed sc r sc2 : carrier_ctl closed sc = (r, sc2) ->
  match r with CErr e => scripted sc e | _ => True end /\ incl sc2 sc.
Proof.
  unfold carrier_ctl. destruct closed; [intros [= <- <-]; split; [exact I|apply incl_refl]|].
  destruct sc as [|x t]; [intros [= <- <-]; split; [exact I|apply incl_refl]|].
  destruct (x =? 0); [intros [= <- <-]; split; [exact I|apply incl_tl, incl_refl]|].
  destruct (SPECIAL <? x) eqn:E; intros [= <- <-]; (split; [|apply incl_tl, incl_refl]); [|exact I].
  exists x. split; [left; reflexivity|]. split; [lia|reflexivity].
Qed.

(* poll_flush: Ready means the encrypt buffer is empty and every frame is with the carrier *)
Lemma poll_flush_ok c sc w x w' sc' : WInv c w -> poll_flush c sc w = (x, w', sc') ->
  wres_ok c 0 sc w x w' /\ w_frames w' = w_frames w /\ w_cclosed w' = w_cclosed w /\
  (forall n, x = WReady n -> n = 0 /\ w_state w' = WIdle /\ w_sent w' = frames_wire (w_frames w')) /\
  incl sc' sc.
Proof.
  intros HI. unfold poll_flush.
  destruct (wpre c sc w) as [[[dres st1] sent1] sc1] eqn:Ed.
  destruct (wpre_spec c sc w dres st1 sent1 sc1 HI Ed) as (P1 & P2 & Pi & P3 & P4 & P5 & P6 & P7 & P8).
  unfold wres_ok.
  destruct dres as [| |e|]; try congruence.
  - specialize (P4 eq_refl). subst st1.
    destruct (carrier_ctl (w_cclosed w) sc1) as [r sc2] eqn:Ec.
    destruct (carrier_ctl_spec _ _ _ _ Ec) as [Hc Hi2].
    assert (Hi : incl sc2 sc) by (eapply incl_tran; eassumption).
    destruct (P3 (w_cclosed w) false) as [HF HS]. wfields.
    destruct r as [| |e]; intros [= <- <- <-]; wfields.
    + split; [|split; [reflexivity|split; [reflexivity|split; [|exact Hi]]]].
      * split; [apply P3|]. split; [assumption|]. lia.
      * intros n [= <-]. repeat split. lia.
    + split; [|split; [reflexivity|split; [reflexivity|split; [|exact Hi]]]].
      * split; [apply P3|]. split; [assumption|]. split; reflexivity.
      * intros n [=].
    + split; [|split; [reflexivity|split; [reflexivity|split; [|exact Hi]]]].
      * split; [apply P3|]. split; [assumption|]. split; [reflexivity|].
        right; right. exact (scripted_incl _ _ _ Pi Hc).
      * intros n [=].
  - intros [= <- <- <-]. wfields. split; [|split; [reflexivity|split; [reflexivity|split; [|exact Pi]]]].
    + split; [apply P3|]. split; [assumption|]. split; reflexivity.
    + intros n [=].
  - intros [= <- <- <-]. wfields. cbn [derr_ok] in P2.
    split; [|split; [reflexivity|split; [reflexivity|split; [|exact Pi]]]].
    + split; [apply P3|]. split; [assumption|]. split; [reflexivity|assumption].
    + intros n [=].
Qed.

(* poll_close: Ready means everything was flushed first and then the carrier was closed *)
Lemma poll_close_ok c sc w x w' sc' : WInv c w -> poll_close c sc w = (x, w', sc') ->
  wres_ok c 0 sc w x w' /\ w_frames w' = w_frames w /\
  (w_cclosed w = true -> w_cclosed w' = true) /\
  (forall n, x = WReady n ->
     n = 0 /\ w_state w' = WIdle /\ w_sent w' = frames_wire (w_frames w') /\ w_cclosed w' = true) /\
  (w_cclosed w' = true -> w_cclosed w = false -> exists n, x = WReady n) /\
  incl sc' sc.
Proof.
  intros HI. unfold poll_close.
  destruct (poll_flush c sc w) as [[y w1] sc1] eqn:Ef.
  destruct (poll_flush_ok c sc w y w1 sc1 HI Ef) as ((HW & Hcs & Hy) & Hfr & Hcl & Hrd & Hi1).
  destruct y as [n| |e|].
  - destruct (Hrd n eq_refl) as (-> & Hst & Hsent).
    destruct (carrier_ctl (w_cclosed w1) sc1) as [r sc2] eqn:Ec.
    destruct (carrier_ctl_spec _ _ _ _ Ec) as [Hc Hi2].
    assert (Hi : incl sc2 sc) by (eapply incl_tran; eassumption).
    assert (HW' : forall cl l, WInv c (mkW (w_state w1) (w_frames w1) (w_sent w1) cl l))
      by (intros cl l; exact HW).
    unfold wres_ok.
    destruct r as [| |e]; intros [= <- <- <-]; wfields.
    + split; [split; [apply HW'|split; [assumption|lia]]|].
      split; [assumption|]. split; [reflexivity|]. split; [|split; [eauto|exact Hi]].
      intros m [= <-]. repeat split; assumption.
    + split; [split; [apply HW'|split; [assumption|split; [assumption|reflexivity]]]|].
      split; [assumption|]. split; [congruence|]. split; [intros m [=]|]. split; [|exact Hi].
      intros Ha Hb. congruence.
    + split; [split; [apply HW'|split; [assumption|split; [assumption|]]]|].
      { right; right. exact (scripted_incl _ _ _ Hi1 Hc). }
      split; [assumption|]. split; [congruence|]. split; [intros m [=]|]. split; [|exact Hi].
      intros Ha Hb. congruence.
  - intros [= <- <- <-]. split; [split; [assumption|split; assumption]|].
    split; [assumption|]. split; [congruence|]. split; [intros m [=]|]. split; [|exact Hi1]. intros Ha Hb. congruence.
  - intros [= <- <- <-]. split; [split; [assumption|split; assumption]|].
    split; [assumption|]. split; [congruence|]. split; [intros m [=]|]. split; [|exact Hi1]. intros Ha Hb. congruence.
  - contradiction.
Qed.

(* judgement on one call of a writer run *)
Definition op_len (o : wop) : N :=
  match o with OWrite len => len | OWriteV lens => first_nonempty lens | _ => 0 end.

Lemma wstep_ok c o sc w x w' sc' :
  1 <= c_mfl c -> c_mfl c + TAG <= SNOW_MAX -> 1 <= c_wbuf c ->
  WInv c w -> wstep c o sc w = (x, w', sc') ->
  wres_ok c (op_len o) sc w x w' /\
  (is_write o = false -> w_frames w' = w_frames w) /\
  (w_cclosed w = true -> w_cclosed w' = true) /\
  (w_cclosed w' = true -> w_cclosed w = false ->
     o = OClose /\ x = WReady 0 /\ w_state w' = WIdle /\ w_sent w' = frames_wire (w_frames w')) /\
  incl sc' sc.
Proof.
  intros H1 H2 H3 HI. destruct o as [len| | |lens]; cbn [wstep op_len is_write].
  - intro H. destruct (poll_write_ok c len sc w x w' sc' H1 H2 H3 HI H) as (A & B & Hi).
    split; [exact A|]. split; [discriminate|]. split; [congruence|]. split; [|exact Hi]. intros Ha Hb. congruence.
  - intro H. destruct (poll_flush_ok c sc w x w' sc' HI H) as (A & B & C & D & Hi).
    split; [exact A|]. split; [intros _; exact B|]. split; [congruence|]. split; [|exact Hi]. intros Ha Hb. congruence.
  - intro H. destruct (poll_close_ok c sc w x w' sc' HI H) as (A & B & C & D & E & Hi).
    split; [exact A|]. split; [intros _; exact B|]. split; [exact C|]. split; [|exact Hi].
    intros Ha Hb. destruct (E Ha Hb) as [n ->]. destruct (D n eq_refl) as (-> & D2 & D3 & D4).
    repeat split; assumption.
  - intro H. destruct (poll_write_ok c _ sc w x w' sc' H1 H2 H3 HI H) as (A & B & Hi).
    split; [exact A|]. split; [discriminate|]. split; [congruence|]. split; [|exact Hi]. intros Ha Hb. congruence.
Qed.

(* whole writer runs against the carrier script sc, starting with the carrier open or closed:
   never a panic; an error is always the carrier's (BrokenPipe only once the carrier was closed
   by the caller, WriteZero only for a zero-length acceptance, otherwise the scripted I/O error,
   unchanged) — the socket never fails by itself; the frames' plaintext is exactly what the
   write calls reported as accepted; Pending only with a registered waker; once the carrier is
   closed nothing more reaches it *)
Fixpoint wrun_ok (ops : list wop) (sc : list N) (closed : bool) (tr : list (wres * writer)) : Prop :=
  match ops, tr with
  | [], [] => True
  | o :: ot, (x, w') :: t =>
      match x with
      | WReady n => n <= op_len o
      | WPending => w_lp w' = true
      | WErr e => wsrc sc closed e
      | WPanic => False
      end /\ wrun_ok ot sc (w_cclosed w') t
  | _, _ => False
  end.

Lemma wrun_ok_incl sc sc' : incl sc' sc -> forall ops closed tr,
  wrun_ok ops sc' closed tr -> wrun_ok ops sc closed tr.
Proof.
  intro Hi. induction ops as [|o ot IH]; intros closed tr; destruct tr as [|[x w'] t]; cbn [wrun_ok]; try tauto.
  intros [H1 H2]. split; [|apply IH; exact H2].
  destruct x; try assumption. eapply wsrc_incl; eassumption.
Qed.

Theorem run_writer_ok c : 1 <= c_mfl c -> c_mfl c + TAG <= SNOW_MAX -> 1 <= c_wbuf c ->
  forall ops sc w tr wf ok, WInv c w -> run_writer c ops sc w = (tr, wf, ok) ->
  ok = true /\ WInv c wf /\ sum (w_frames wf) = sum (w_frames w) + accepted ops tr /\
  wrun_ok ops sc (w_cclosed w) tr /\ (w_cclosed w = true -> w_cclosed wf = true /\ w_sent wf = w_sent w).
Proof.
  intros H1 H2 H3. induction ops as [|o t IH]; intros sc w tr wf ok HI; cbn [run_writer].
  - intros [= <- <- <-]. cbn [accepted wrun_ok]. split; [reflexivity|]. split; [assumption|].
    split; [lia|]. split; [exact I|]. intros Hc. split; [assumption|reflexivity].
  - destruct (wstep c o sc w) as [[x w'] sc'] eqn:Es.
    destruct (wstep_ok c o sc w x w' sc' H1 H2 H3 HI Es) as ((A & Acs & Ax) & B & C & _ & Hi).
    assert (Hfin : w_is_final x = false) by (destruct x; try reflexivity; contradiction).
    rewrite Hfin.
    destruct (run_writer c t sc' w') as [[l wf'] ok'] eqn:Er.
    intros [= <- <- <-]. destruct (IH _ _ _ _ _ A Er) as (I1 & I2 & I3 & I4 & I5).
    split; [assumption|]. split; [assumption|]. split; [|split].
    + rewrite I3. cbn [accepted].
      destruct x as [n| |e|]; try contradiction.
      * destruct Ax as [_ Ax]. destruct (is_write o) eqn:Ew; [lia|].
        rewrite (B eq_refl). lia.
      * destruct Ax as [Ax _]. rewrite Ax. lia.
      * destruct Ax as [Ax _]. rewrite Ax. lia.
    + cbn [wrun_ok]. split; [|eapply wrun_ok_incl; eassumption].
      destruct x as [n| |e|]; try contradiction; tauto.
    + intro Hc. destruct (I5 (C Hc)) as [J1 J2]. split; [assumption|]. rewrite J2. apply Acs, Hc.
Qed.

(* a completed close inside a run: at that moment nothing accepted so far is missing from the
   carrier, and nothing is handed to the carrier afterwards *)
Theorem close_flushes c : 1 <= c_mfl c -> c_mfl c + TAG <= SNOW_MAX -> 1 <= c_wbuf c ->
  forall sc w x w' sc', WInv c w -> poll_close c sc w = (x, w', sc') ->
  forall n, x = WReady n ->
  w_state w' = WIdle /\ w_frames w' = w_frames w /\ w_sent w' = frames_wire (w_frames w) /\
  w_cclosed w' = true /\
  forall ops sc2 tr wf ok, run_writer c ops sc2 w' = (tr, wf, ok) ->
    w_sent wf = frames_wire (w_frames w) /\ w_cclosed wf = true.
Proof.
  intros H1 H2 H3 sc w x w' sc' HI Hc n Hx.
  destruct (poll_close_ok c sc w x w' sc' HI Hc) as ((A & _) & B & C & D & E).
  destruct (D n Hx) as (_ & D2 & D3 & D4). rewrite B in D3.
  split; [assumption|]. split; [assumption|]. split; [assumption|]. split; [assumption|].
  intros ops sc2 tr wf ok Hr.
  destruct (run_writer_ok c H1 H2 H3 ops sc2 w' tr wf ok A Hr) as (_ & _ & _ & _ & I5).
  destruct (I5 D4) as [J1 J2]. split; [lia|assumption].
Qed.

Lemma sent_frames_all l : sent_frames l (frames_wire l) = l.
Proof.
  induction l as [|x t IH]; cbn [sent_frames frames_wire]; [reflexivity|].
  destruct (2 + (x + TAG) <=? 2 + (x + TAG) + frames_wire t) eqn:E; [|lia].
  replace (2 + (x + TAG) + frames_wire t - (2 + (x + TAG))) with (frames_wire t) by lia.
  rewrite IH. reflexivity.
Qed.

(* ------------------------------------------------------------------ tampered wires *)

(* the j-th item of the wire is not the authentic j-th frame (or the wire has fewer items) *)
Definition not_auth (e : renv) (j : N) : Prop :=
  forall it, nthI (e_items e) j = Some it -> (i_hdr it =? i_blen it) && auth_is it j = false.

Lemma pstart_mono l : forall k j, k <= j -> pstart l k <= pstart l j.
Proof.
  induction l as [|x t IH]; cbn [pstart]; intros k j H; [lia|].
  destruct (k =? 0) eqn:Ek; [lia|]. destruct (j =? 0) eqn:Ej; [lia|].
  specialize (IH (k - 1) (j - 1)). lia.
Qed.

Lemma step_len_ctr e r r1 res : step_len e r = (r1, res) -> r_ctr r1 = r_ctr r.
Proof.
  unfold step_len.
  destruct (r_nread r <? r_offset r); [intros [= <- <-]; reflexivity|].
  destruct (r_nread r - r_offset r <? 2); [intros [= <- <-]; reflexivity|].
  destruct (r_cfs r) as [fs|].
  - cbv beta iota zeta.
    destruct (r_nread r - r_offset r <? fs).
    + destruct (r_nread r + fs <? cmax (e_cfg e)); intros [= <- <-]; reflexivity.
    + destruct (fs <=? TAG); intros [= <- <-]; reflexivity.
  - destruct (hdr_at (e_items e) (r_wbase r + r_offset r)) as [fs|]; cbv beta iota zeta.
    + destruct (r_nread r - r_offset r - 2 <? fs).
      * destruct (r_nread r + fs <? cmax (e_cfg e)); intros [= <- <-]; reflexivity.
      * destruct (fs <=? TAG); intros [= <- <-]; reflexivity.
    + intros [= <- <-]; reflexivity.
Qed.

Lemma proc_ctr e D b j r r2 x : Inv e D r -> r_ctr r <= j -> not_auth e j ->
  proc e b r = (r2, x) -> r_ctr r2 <= j.
Proof.
  intros HI Hj Hna.
  destruct r as [st nread offset cfs wbase ctr pbase lp]. unfold proc, Inv in *. rfields.
  destruct st as [mr| | |poff psize pfs|]; try (intros [= <- <-]; rfields; assumption).
  - destruct cfs as [fs|]; [|tauto].
    destruct HI as (Hp & Hcur & (it & Hit & Hh) & _).
    destruct (fs <? TAG); [intros [= <- <-]; rfields; assumption|].
    destruct (rbuf_len (e_cfg e) <? offset + fs); [intros [= <- <-]; rfields; assumption|].
    destruct (nread <? offset + fs); [intros [= <- <-]; rfields; assumption|].
    destruct (SNOW_MAX <? fs); [intros [= <- <-]; rfields; assumption|].
    rewrite Hcur, (body_ok_istart _ _ _ _ fs Hit).
    destruct ((i_blen it =? fs) && auth_is it ctr) eqn:Eok.
    + assert (ctr <> j).
      { intros ->. specialize (Hna it Hit). rewrite Hh in Hna.
        replace (fs =? i_blen it) with (i_blen it =? fs) in Hna by lia. congruence. }
      destruct (fs - TAG <=? b); [intros [= <- <-]; rfields; lia|].
      destruct (c_mfl (e_cfg e) <? fs - TAG); intros [= <- <-]; rfields; lia.
    + destruct (fs - TAG <=? b); [intros [= <- <-]; rfields; assumption|].
      destruct (c_mfl (e_cfg e) <? fs - TAG); intros [= <- <-]; rfields; assumption.
  - destruct (psize <? poff); [intros [= <- <-]; rfields; assumption|].
    destruct (psize - poff <=? b); intros [= <- <-]; rfields; assumption.
Qed.

Lemma set_lp_ctr r l : r_ctr (set_lp r l) = r_ctr r.
Proof. destruct r; reflexivity. Qed.

Lemma poll_go_ctr e b j : wf_env e -> not_auth e j -> forall sc D r x r' sc',
  Inv e D r -> r_ctr r <= j -> poll_go e b sc r = (x, r', sc') -> r_ctr r' <= j.
Proof.
  intros W Hna. induction sc as [|s t IH]; intros D r x r' sc' HI Hj; cbn [poll_go];
    destruct (match r_state r with ReadFrameLen => step_len e r | _ => (r, None) end)
      as [r1 res] eqn:Epre;
    (assert (Hc : r_ctr r1 = r_ctr r)
      by (destruct (r_state r); try (injection Epre as <- <-; reflexivity);
          eapply step_len_ctr; eassumption));
    (assert (HI1 : res = None -> Inv e D r1)
      by (intros ->; destruct (r_state r) eqn:Es; try (injection Epre as <-; assumption);
          exact (proj1 (step_len_inv e D r r1 None W HI Es Epre))));
    (destruct res as [y|]; [intros [= <- <- <-]; lia|]); specialize (HI1 eq_refl).
  - destruct (r_state r1) eqn:Es1.
    + destruct ((max_read <? r_nread r1) || (rbuf_len (e_cfg e) <? max_read));
        intros [= <- <- <-]; rewrite ?set_lp_ctr; lia.
    + intros [= <- <- <-]; lia.
    + destruct (proc e b r1) as [r2 y] eqn:Ep. intros [= <- <- <-].
      eapply proc_ctr; try eassumption. lia.
    + destruct (proc e b r1) as [r2 y] eqn:Ep. intros [= <- <- <-].
      eapply proc_ctr; try eassumption. lia.
    + intros [= <- <- <-]; lia.
  - destruct (r_state r1) eqn:Es1.
    + destruct (readdata_bounds e D r1 _ W HI1 Es1) as [Hb1 Hb2].
      destruct ((max_read <? r_nread r1) || (rbuf_len (e_cfg e) <? max_read)) eqn:Ep; [lia|].
      destruct (s =? 0); [intros [= <- <- <-]; rewrite set_lp_ctr; lia|].
      destruct (s =? SPECIAL); [intros [= <- <- <-]; rewrite set_lp_ctr; lia|].
      destruct (SPECIAL <? s); [intros [= <- <- <-]; rewrite set_lp_ctr; lia|].
      set (k := N.min s (N.min (max_read - r_nread r1) (e_avail e - (r_wbase r1 + r_nread r1)))).
      destruct (k =? 0) eqn:Ek; [intros [= <- <- <-]; rewrite set_lp_ctr; lia|].
      intro Hrec. eapply IH; [| |exact Hrec].
      * eapply read_inv; try eassumption; unfold k; lia.
      * rfields. lia.
    + intros [= <- <- <-]; lia.
    + destruct (proc e b r1) as [r2 y] eqn:Ep. intros [= <- <- <-].
      eapply proc_ctr; try eassumption. lia.
    + destruct (proc e b r1) as [r2 y] eqn:Ep. intros [= <- <- <-].
      eapply proc_ctr; try eassumption. lia.
    + intros [= <- <- <-]; lia.
Qed.

Lemma poll_ctr e b j : wf_env e -> not_auth e j -> forall sc D r x r' sc',
  Inv e D r -> r_ctr r <= j -> poll_read e b sc r = (x, r', sc') -> r_ctr r' <= j.
Proof.
  intros W Hna sc D r x r' sc' HI Hj H. unfold poll_read in H.
  eapply (poll_go_ctr e b j W Hna sc D (set_lp r false)); [apply inv_set_lp; exact HI | rewrite set_lp_ctr; exact Hj | exact H].
Qed.

Lemma run_bound e j : wf_env e -> not_auth e j -> forall bufs sc D r,
  Inv e D r -> r_ctr r <= j ->
  D + delivered (run_reader e bufs sc r) <= pstart (e_plains e) j.
Proof.
  intros W Hna. induction bufs as [|b bt IH]; intros sc D r HI Hj; cbn [run_reader delivered].
  - pose proof (inv_D_le e D r HI). pose proof (pstart_mono (e_plains e) _ _ Hj). lia.
  - destruct (poll_read e b sc r) as [[x r'] sc'] eqn:Ep.
    pose proof (poll_inv e b W sc D r x r' sc' HI Ep) as H.
    pose proof (poll_ctr e b j W Hna sc D r x r' sc' HI Hj Ep) as Hj'.
    pose proof (inv_D_le e D r HI). pose proof (pstart_mono (e_plains e) _ _ Hj).
    destruct x as [n pos| |err|]; cbn [is_final res_ok delivered] in *.
    + destruct H as (_ & _ & _ & H). specialize (IH sc' _ _ H Hj'). lia.
    + specialize (IH sc' _ _ H Hj'). lia.
    + destruct H as [H _]. specialize (IH sc' _ _ H Hj'). lia.
    + lia.
Qed.

Theorem read_tamper e j : wf_env e -> not_auth e j -> forall bufs sc,
  delivered (run_reader e bufs sc (reader_init (e_cfg e))) <= pstart (e_plains e) j.
Proof.
  intros W Hna bufs sc.
  pose proof (run_bound e j W Hna bufs sc 0 (reader_init (e_cfg e)) (init_inv e W)) as H.
  cbn [reader_init r_ctr] in H. specialize (H ltac:(lia)). lia.
Qed.

(* ------------------------------------------------------------------ end to end, constants *)

Lemma writer_init_inv c : WInv c writer_init.
Proof. split; [constructor | reflexivity]. Qed.

Theorem end_to_end c :
  1 <= c_factor c -> 1 <= c_mfl c -> c_mfl c + TAG <= SNOW_MAX -> 1 <= c_wbuf c ->
  forall ops wsc tr w ok, run_writer c ops wsc writer_init = (tr, w, ok) ->
  forall bufs rsc,
  let plains := w_frames w in
  let rt := run_reader (honest_env c plains) bufs rsc (reader_init c) in
  ok = true /\ sum plains = accepted ops tr /\
  (w_state w = WIdle -> sent_frames plains (w_sent w) = plains) /\
  pieces_ok 0 bufs rsc rt /\
  honest_ok (wire_len (honest plains)) (accepted ops tr) 0 rt.
Proof.
  intros Hf H1 H2 H3 ops wsc tr w ok Hr bufs rsc plains rt.
  destruct (run_writer_ok c H1 H2 H3 ops wsc writer_init tr w ok (writer_init_inv c) Hr)
    as (-> & [HF HS] & Hs & _).
  cbn [writer_init w_frames sum] in Hs.
  destruct (read_honest c plains Hf H2 HF bufs rsc) as (A & B).
  split; [reflexivity|]. split; [unfold plains; lia|]. split; [|split; [exact A|]].
  - intro Hi. rewrite Hi in HS. unfold plains. rewrite <- HS. apply sent_frames_all.
  - replace (accepted ops tr) with (sum plains) by (unfold plains; lia). exact B.
Qed.

(* ------------------------------------------------------------------ wake-ups, empty buffers *)

Lemma step_len_not_pending e r r1 : step_len e r <> (r1, Some RPending).
Proof.
  unfold step_len.
  destruct (r_nread r <? r_offset r); [discriminate|].
  destruct (r_nread r - r_offset r <? 2); [discriminate|].
  destruct (r_cfs r) as [fs|].
  - cbv beta iota zeta.
    destruct (r_nread r - r_offset r <? fs).
    + destruct (r_nread r + fs <? cmax (e_cfg e)); discriminate.
    + destruct (fs <=? TAG); discriminate.
  - destruct (hdr_at (e_items e) (r_wbase r + r_offset r)) as [fs|]; cbv beta iota zeta.
    + destruct (r_nread r - r_offset r - 2 <? fs).
      * destruct (r_nread r + fs <? cmax (e_cfg e)); discriminate.
      * destruct (fs <=? TAG); discriminate.
    + discriminate.
Qed.

Lemma proc_not_pending e b r r2 : proc e b r <> (r2, RPending).
Proof.
  unfold proc. destruct (r_state r) as [mr| | |poff psize pfs|]; try discriminate.
  - destruct (r_cfs r) as [fs|]; [|discriminate].
    destruct (fs <? TAG); [discriminate|].
    destruct (rbuf_len (e_cfg e) <? r_offset r + fs); [discriminate|].
    destruct (r_nread r <? r_offset r + fs); [discriminate|].
    destruct (SNOW_MAX <? fs); [discriminate|].
    destruct (body_ok (e_items e) (r_ctr r) (r_wbase r + r_offset r) fs).
    + destruct (fs - TAG <=? b); [discriminate|].
      destruct (c_mfl (e_cfg e) <? fs - TAG); discriminate.
    + destruct (fs - TAG <=? b); [discriminate|].
      destruct (c_mfl (e_cfg e) <? fs - TAG); discriminate.
  - destruct (psize <? poff); [discriminate|].
    destruct (psize - poff <=? b); discriminate.
Qed.

(* poll_read = Pending only when the last carrier call of this poll returned Pending, i.e. the
   carrier holds the waker: no lost wake-up *)
Lemma poll_go_pending e b : forall sc r r' sc',
  poll_go e b sc r = (RPending, r', sc') -> r_lp r' = true.
Proof.
  induction sc as [|s t IH]; intros r r' sc'; cbn [poll_go];
    destruct (match r_state r with ReadFrameLen => step_len e r | _ => (r, None) end)
      as [r1 res] eqn:Epre;
    (destruct res as [y|];
     [intros [= -> <- <-]; destruct (r_state r); try discriminate;
      exfalso; exact (step_len_not_pending e r r1 Epre)|]).
  - destruct (r_state r1) eqn:Es1.
    + destruct ((max_read <? r_nread r1) || (rbuf_len (e_cfg e) <? max_read)); discriminate.
    + discriminate.
    + destruct (proc e b r1) as [r2 y] eqn:Ep. intros [= -> <- <-].
      exfalso; exact (proc_not_pending e b r1 r2 Ep).
    + destruct (proc e b r1) as [r2 y] eqn:Ep. intros [= -> <- <-].
      exfalso; exact (proc_not_pending e b r1 r2 Ep).
    + discriminate.
  - destruct (r_state r1) eqn:Es1.
    + destruct ((max_read <? r_nread r1) || (rbuf_len (e_cfg e) <? max_read)); [discriminate|].
      destruct (s =? 0); [intros [= <- <-]; destruct r1; reflexivity|].
      destruct (s =? SPECIAL); [discriminate|].
      destruct (SPECIAL <? s); [discriminate|].
      destruct (N.min s (N.min (max_read - r_nread r1) (e_avail e - (r_wbase r1 + r_nread r1))) =? 0);
        [discriminate|]. apply IH.
    + discriminate.
    + destruct (proc e b r1) as [r2 y] eqn:Ep. intros [= -> <- <-].
      exfalso; exact (proc_not_pending e b r1 r2 Ep).
    + destruct (proc e b r1) as [r2 y] eqn:Ep. intros [= -> <- <-].
      exfalso; exact (proc_not_pending e b r1 r2 Ep).
    + discriminate.
Qed.

Theorem read_pending_has_waker e b sc r r' sc' :
  poll_read e b sc r = (RPending, r', sc') -> r_lp r' = true.
Proof. unfold poll_read. apply poll_go_pending. Qed.

(* an empty write never blocks and accepts nothing *)
Lemma poll_write_empty c sc w x w' sc' : poll_write c 0 sc w = (x, w', sc') ->
  x = WReady 0 \/ (exists e, x = WErr e) \/ x = WPanic.
Proof.
  unfold poll_write. destruct (wpre c sc w) as [[[dres st1] sent1] sc1].
  replace (0 =? 0) with true by reflexivity.
  destruct dres; intros [= <- <- <-]; eauto.
Qed.

Lemma consts_ok :
  1 <= MAX_FRAME_LEN /\ MAX_FRAME_LEN + TAG <= SNOW_MAX /\
  1 <= MAX_READ_AHEAD_FACTOR /\ 1 <= MAX_WRITE_BUFFER_SIZE /\
  (* the Default impls of the TCP and WebSocket transport configurations *)
  1 <= TCP_NOISE_READ_AHEAD_DEFAULT /\ 1 <= TCP_NOISE_WRITE_BUFFER_DEFAULT /\
  1 <= WS_NOISE_READ_AHEAD_DEFAULT /\ 1 <= WS_NOISE_WRITE_BUFFER_DEFAULT.
Proof. vm_compute. repeat split; discriminate. Qed.

(* with the limit the code had before the fix (65520) a single maximal chunk is refused by snow *)
Lemma unfixed_refuted :
  exists len sc, fst (fst (poll_write (mkCfg 5 2 65520) len sc writer_init)) = WErr E_INVALID.
Proof. exists 65520, []. vm_compute. reflexivity. Qed.
