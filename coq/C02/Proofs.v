(* C02 — lemmas about the Noise transport framing model. *)
From Coq Require Import List Arith NArith Bool Lia.
From Coq Require Import ZifyBool ZifyNat ZifyN.
From V.gen Require Import Consts.
From V.C02 Require Import Model.
Import ListNotations.
Open Scope N_scope.

Arguments N.add : simpl never.
Arguments N.sub : simpl never.
Arguments N.mul : simpl never.
Arguments N.eqb : simpl never.
Arguments N.ltb : simpl never.
Arguments N.leb : simpl never.
Arguments N.min : simpl never.
Arguments N.of_nat : simpl never.

Ltac consts := unfold SNOW_MAX, TAG, MSG, NOISE_EXTRA_ENCRYPT_SPACE, MAX_NOISE_MSG_LEN in *.

(* ------------------------------------------------------------------ the wire, by item index *)

Fixpoint nthI (l : list item) (n : N) : option item :=
  match l with
  | [] => None
  | it :: t => if n =? 0 then Some it else nthI t (n - 1)
  end.

Fixpoint istart (l : list item) (n : N) : N :=
  match l with
  | [] => 0
  | it :: t => if n =? 0 then 0 else item_len it + istart t (n - 1)
  end.

Fixpoint nthP (l : list N) (n : N) : option N :=
  match l with
  | [] => None
  | x :: t => if n =? 0 then Some x else nthP t (n - 1)
  end.

Definition auth_is (it : item) (k : N) : bool :=
  match i_auth it with Some j => j =? k | None => false end.

(* item it, found where the reader's counter is k, is the genuine next frame and acceptable *)
Definition item_good (c : cfg) (it : item) (k : N) : bool :=
  (i_hdr it =? i_blen it) && auth_is it k && (TAG <? i_hdr it) && (i_hdr it - TAG <=? c_mfl c).

Lemma nthI_in l : forall n it, nthI l n = Some it -> In it l.
Proof.
  induction l as [|h t IH]; cbn [nthI]; [discriminate|].
  intros n it. destruct (n =? 0); [intros [= <-]; now left | intro H; right; eauto].
Qed.

Lemma istart_le l : forall n, istart l n <= wire_len l.
Proof.
  induction l as [|h t IH]; cbn [istart wire_len]; intro n; [lia|].
  destruct (n =? 0); [lia | specialize (IH (n - 1)); lia].
Qed.

Lemma istart_none l : forall n, nthI l n = None -> istart l n = wire_len l.
Proof.
  induction l as [|h t IH]; cbn [istart wire_len nthI]; intro n; [reflexivity|].
  destruct (n =? 0); [discriminate | intro H; rewrite (IH _ H); reflexivity].
Qed.

Lemma istart_some l : forall n it, nthI l n = Some it -> istart l n + item_len it <= wire_len l.
Proof.
  induction l as [|h t IH]; cbn [istart wire_len nthI]; intros n it; [discriminate|].
  destruct (n =? 0); [intros [= <-]; lia | intro H; specialize (IH _ _ H); lia].
Qed.

Lemma istart_succ l : forall n it, nthI l n = Some it -> istart l (n + 1) = istart l n + item_len it.
Proof.
  induction l as [|h t IH]; cbn [istart nthI]; intros n it; [discriminate|].
  destruct (n + 1 =? 0) eqn:E1; [lia|].
  destruct (n =? 0) eqn:E0.
  - intros [= <-]. replace (n + 1 - 1) with 0 by lia.
    destruct t; cbn [istart]; [lia|]. replace (0 =? 0) with true by lia. lia.
  - intro H. replace (n + 1 - 1) with (n - 1 + 1) by lia. rewrite (IH _ _ H). lia.
Qed.

Lemma hdr_at_istart l : forall n it, nthI l n = Some it -> hdr_at l (istart l n) = Some (i_hdr it).
Proof.
  induction l as [|h t IH]; cbn [istart nthI hdr_at]; intros n it; [discriminate|].
  destruct (n =? 0) eqn:E0.
  - intros [= <-]. replace (0 =? 0) with true by lia. reflexivity.
  - intro H. assert (HL : 2 <= item_len h) by (unfold item_len; lia).
    destruct (item_len h + istart t (n - 1) =? 0) eqn:E1; [lia|].
    destruct (item_len h + istart t (n - 1) <? item_len h) eqn:E2; [lia|].
    replace (item_len h + istart t (n - 1) - item_len h) with (istart t (n - 1)) by lia.
    exact (IH _ _ H).
Qed.

Lemma body_ok_istart l : forall n it k fs, nthI l n = Some it ->
  body_ok l k (istart l n + 2) fs = (i_blen it =? fs) && auth_is it k.
Proof.
  induction l as [|h t IH]; cbn [istart nthI body_ok]; intros n it k fs; [discriminate|].
  destruct (n =? 0) eqn:E0.
  - intros [= <-]. replace (0 + 2 =? 2) with true by lia. reflexivity.
  - intro H. assert (HL : 2 <= item_len h) by (unfold item_len; lia).
    destruct (item_len h + istart t (n - 1) + 2 =? 2) eqn:E1; [lia|].
    destruct (item_len h + istart t (n - 1) + 2 <? item_len h) eqn:E2; [lia|].
    replace (item_len h + istart t (n - 1) + 2 - item_len h) with (istart t (n - 1) + 2) by lia.
    exact (IH _ _ _ _ H).
Qed.

Lemma pstart_succ l : forall n p, nthP l n = Some p -> pstart l (n + 1) = pstart l n + p.
Proof.
  induction l as [|h t IH]; cbn [pstart nthP]; intros n p; [discriminate|].
  destruct (n + 1 =? 0) eqn:E1; [lia|].
  destruct (n =? 0) eqn:E0.
  - intros [= <-]. replace (n + 1 - 1) with 0 by lia.
    destruct t; cbn [pstart]; [lia|]. replace (0 =? 0) with true by lia. lia.
  - intro H. replace (n + 1 - 1) with (n - 1 + 1) by lia. rewrite (IH _ _ H). lia.
Qed.

Lemma pstart_none l : forall n, nthP l n = None -> pstart l n = sum l.
Proof.
  induction l as [|h t IH]; cbn [pstart nthP sum]; intro n; [reflexivity|].
  destruct (n =? 0); [discriminate | intro H; rewrite (IH _ H); reflexivity].
Qed.

(* ------------------------------------------------------------------ reader invariant *)

(* what is assumed of the wire: headers are 16-bit values; an item marked as the k-th genuine
   ciphertext has the length of the k-th genuine ciphertext; the carrier delivers at most the wire *)
Record wf_env (e : renv) : Prop := {
  wf_factor : 1 <= c_factor (e_cfg e);
  wf_hdr : forall it, In it (e_items e) -> i_hdr it < 65536;
  wf_auth : forall it k, In it (e_items e) -> i_auth it = Some k ->
            exists p, nthP (e_plains e) k = Some p /\ i_blen it = p + TAG;
  wf_avail : e_avail e <= wire_len (e_items e)
}.

Definition hdr_is (e : renv) (k fs : N) : Prop :=
  exists it, nthI (e_items e) k = Some it /\ i_hdr it = fs.

(* D = number of plaintext bytes delivered so far = stream position of the next byte owed *)
Definition Inv (e : renv) (D : N) (r : reader) : Prop :=
  let M := cmax (e_cfg e) in
  let cur := r_wbase r + r_offset r in
  let S := istart (e_items e) (r_ctr r) in
  let P := pstart (e_plains e) (r_ctr r) in
  r_wbase r + r_nread r <= e_avail e /\
  match r_state r, r_cfs r with
  | ReadData mr, None =>
      mr = M /\ r_offset r = 0 /\ r_nread r < 2 /\ cur = S /\ D = P
  | ReadData mr, Some fs =>
      cur = S + 2 /\ hdr_is e (r_ctr r) fs /\ D = P /\
      r_offset r <= r_nread r /\ r_nread r < mr /\ r_offset r <= M /\
      (mr = M \/ mr = r_offset r + fs) /\
      (r_nread r - r_offset r < fs \/ r_nread r - r_offset r < 2)
  | ReadFrameLen, None =>
      cur = S /\ D = P /\ r_offset r <= r_nread r /\ (r_nread r <= M \/ r_offset r = r_nread r)
  | ReadFrameLen, Some fs =>
      cur = S + 2 /\ hdr_is e (r_ctr r) fs /\ D = P /\
      r_offset r <= r_nread r /\ r_offset r <= M /\ (r_nread r <= M \/ r_nread r <= r_offset r + fs)
  | ProcNone, Some fs =>
      cur = S + 2 /\ hdr_is e (r_ctr r) fs /\ D = P /\ TAG < fs /\
      r_offset r + fs <= r_nread r /\ r_offset r <= M /\
      (r_nread r <= M \/ r_nread r <= r_offset r + fs)
  | ProcNone, None => False
  | ProcPend poff psize pfs, None =>
      cur + pfs = S /\ r_offset r + pfs <= r_nread r /\ r_offset r <= M /\
      (r_nread r <= M \/ r_nread r <= r_offset r + pfs) /\
      poff < psize /\ D = r_pbase r + poff /\ r_pbase r + psize = P
  | ProcPend _ _ _, Some _ => False
  end.

Definition res_ok (e : renv) (b D : N) (x : rres) (r' : reader) : Prop :=
  match x with
  | RReady n pos => pos = D /\ n <= b /\ (1 <= b -> 1 <= n) /\ Inv e (D + n) r'
  | RPending => Inv e D r'
  | RErr err =>
      (err = E_EOF /\ Inv e D r' /\ exists mr, r_state r' = ReadData mr) \/
      (err = E_INVALID /\ exists it, nthI (e_items e) (r_ctr r') = Some it /\
                                     item_good (e_cfg e) it (r_ctr r') = false)
  | RPanic => False
  end.

Lemma cmax_ge e : wf_env e -> 65536 <= cmax (e_cfg e).
Proof. intros [Hf _ _ _]. unfold cmax. consts. nia. Qed.

Lemma rbuf_eq c : rbuf_len c = cmax c + 65538.
Proof. unfold rbuf_len, cmax. consts. lia. Qed.

Lemma init_inv e : wf_env e -> Inv e 0 (reader_init (e_cfg e)).
Proof.
  intro W. unfold Inv, reader_init. cbn [r_state r_cfs r_wbase r_nread r_offset r_ctr].
  assert (H0 : forall l, istart l 0 = 0) by (destruct l; cbn [istart]; [|replace (0 =? 0) with true by lia]; reflexivity).
  assert (H1 : forall l, pstart l 0 = 0) by (destruct l; cbn [pstart]; [|replace (0 =? 0) with true by lia]; reflexivity).
  rewrite H0, H1. repeat split; lia.
Qed.

Ltac rfields := cbn [r_state r_nread r_offset r_cfs r_wbase r_ctr r_pbase] in *.

Lemma good_false_hdr c it k : i_hdr it <= TAG -> item_good c it k = false.
Proof. unfold item_good. intro H. destruct (TAG <? i_hdr it) eqn:E; [lia|]. now rewrite !andb_false_r. Qed.

Lemma step_len_inv e D r r1 res : wf_env e -> Inv e D r -> r_state r = ReadFrameLen ->
  step_len e r = (r1, res) ->
  match res with
  | None => Inv e D r1 /\ (r_state r1 = ProcNone \/ exists mr, r_state r1 = ReadData mr)
  | Some x => x = RErr E_INVALID /\
              exists it, nthI (e_items e) (r_ctr r1) = Some it /\
                         item_good (e_cfg e) it (r_ctr r1) = false
  end.
Proof.
  intros W HI Hs. pose proof (cmax_ge e W) as HM.
  destruct r as [st nread offset cfs wbase ctr pbase]. cbn [r_state] in Hs. subst st.
  unfold step_len, Inv in *. rfields.
  set (M := cmax (e_cfg e)) in *.
  destruct cfs as [fs|].
  - destruct HI as (Hp & Hcur & Hhd & HD & Hon & HoM & Hnr).
    destruct Hhd as (it & Hit & Hh).
    assert (Hhd : hdr_is e ctr fs) by (exists it; split; assumption).
    pose proof (wf_hdr e W it (nthI_in _ _ _ Hit)) as Hfs. rewrite Hh in Hfs.
    destruct (nread <? offset) eqn:E1; [lia|].
    destruct (nread - offset <? 2) eqn:E2.
    + intros [= <- <-]. unfold reset_read. rfields. fold M.
      split; [|right; eauto]. repeat split; try assumption; try lia.
    + cbv beta iota zeta.
      destruct (nread - offset <? fs) eqn:E3.
      * destruct (nread + fs <? M) eqn:E4; intros [= <- <-]; rfields; fold M;
          (split; [|right; eauto]); repeat split; try assumption; try lia.
      * destruct (fs <=? TAG) eqn:E5; intros [= <- <-]; rfields; fold M.
        -- split; [reflexivity|]. exists it. split; [assumption|].
           apply good_false_hdr. lia.
        -- split; [|left; reflexivity]. repeat split; try assumption; try lia.
  - destruct HI as (Hp & Hcur & HD & Hon & Hnr).
    destruct (nread <? offset) eqn:E1; [lia|].
    destruct (nread - offset <? 2) eqn:E2.
    + intros [= <- <-]. unfold reset_read. rfields. fold M.
      split; [|right; eauto]. repeat split; try assumption; try lia.
    + rewrite Hcur.
      destruct (nthI (e_items e) ctr) as [it|] eqn:Hit.
      2:{ pose proof (istart_none _ _ Hit). pose proof (wf_avail e W). lia. }
      rewrite (hdr_at_istart _ _ _ Hit). cbv beta iota zeta.
      set (fs := i_hdr it).
      assert (Hhd : hdr_is e ctr fs) by (exists it; split; [assumption|reflexivity]).
      pose proof (wf_hdr e W it (nthI_in _ _ _ Hit)) as Hfs. fold fs in Hfs.
      destruct (nread - offset - 2 <? fs) eqn:E3.
      * destruct (nread + fs <? M) eqn:E4; intros [= <- <-]; rfields; fold M;
          (split; [|right; eauto]); repeat split; try assumption; try lia.
      * destruct (fs <=? TAG) eqn:E5; intros [= <- <-]; rfields; fold M.
        -- split; [reflexivity|]. exists it. split; [assumption|].
           apply good_false_hdr. fold fs. lia.
        -- split; [|left; reflexivity]. repeat split; try assumption; try lia.
Qed.

Lemma good_false_body c it k fs : i_hdr it = fs ->
  (i_blen it =? fs) && auth_is it k = false -> item_good c it k = false.
Proof.
  unfold item_good. intros <- H.
  replace (i_hdr it =? i_blen it) with (i_blen it =? i_hdr it) by lia.
  rewrite H. reflexivity.
Qed.

Lemma good_false_mfl c it k : c_mfl c < i_hdr it - TAG -> item_good c it k = false.
Proof.
  unfold item_good. intro H. destruct (i_hdr it - TAG <=? c_mfl c) eqn:E; [lia|].
  now rewrite !andb_false_r.
Qed.

Lemma proc_inv e D b r r2 x : wf_env e -> Inv e D r ->
  (r_state r = ProcNone \/ exists a b c, r_state r = ProcPend a b c) ->
  proc e b r = (r2, x) -> res_ok e b D x r2.
Proof.
  intros W HI Hs. pose proof (cmax_ge e W) as HM. pose proof (rbuf_eq (e_cfg e)) as HB.
  destruct r as [st nread offset cfs wbase ctr pbase]. cbn [r_state] in Hs.
  unfold proc, Inv in *. rfields.
  set (M := cmax (e_cfg e)) in *.
  destruct Hs as [-> | (poff & psize & pfs & ->)].
  - destruct cfs as [fs|]; [|tauto].
    destruct HI as (Hp & Hcur & Hhd & HD & Htag & Hfit & HoM & Hnr).
    destruct Hhd as (it & Hit & Hh).
    pose proof (wf_hdr e W it (nthI_in _ _ _ Hit)) as Hfs. rewrite Hh in Hfs.
    destruct (fs <? TAG) eqn:E1; [lia|].
    destruct (rbuf_len (e_cfg e) <? offset + fs) eqn:E2; [lia|].
    destruct (nread <? offset + fs) eqn:E3; [lia|].
    destruct (SNOW_MAX <? fs) eqn:E4; [consts; lia|].
    rewrite Hcur, (body_ok_istart _ _ _ _ fs Hit).
    destruct ((i_blen it =? fs) && auth_is it ctr) eqn:Eok.
    + apply andb_true_iff in Eok. destruct Eok as [Ebl Eau].
      unfold auth_is in Eau. destruct (i_auth it) as [j|] eqn:Ej; [|discriminate].
      assert (j = ctr) by lia. subst j.
      destruct (wf_auth e W it ctr (nthI_in _ _ _ Hit) Ej) as (p & Hp1 & Hp2).
      pose proof (pstart_succ _ _ _ Hp1) as Hps.
      pose proof (istart_succ _ _ _ Hit) as Hiss. unfold item_len in Hiss.
      destruct (fs - TAG <=? b) eqn:E5.
      * intros [= <- <-]. unfold res_ok, Inv. rfields. fold M.
        repeat split; try lia.
      * destruct (c_mfl (e_cfg e) <? fs - TAG) eqn:E6.
        -- intros [= <- <-]. unfold res_ok. rfields. right. split; [reflexivity|].
           exists it. split; [assumption|]. apply good_false_mfl. lia.
        -- intros [= <- <-]. unfold res_ok, Inv. rfields. fold M.
           repeat split; try lia.
    + assert (Hbad : item_good (e_cfg e) it ctr = false) by (eapply good_false_body; eassumption).
      destruct (fs - TAG <=? b) eqn:E5.
      * intros [= <- <-]. unfold res_ok. rfields. right. split; [reflexivity|]. eauto.
      * destruct (c_mfl (e_cfg e) <? fs - TAG) eqn:E6;
          intros [= <- <-]; unfold res_ok; rfields; right; (split; [reflexivity|]); eauto.
  - destruct cfs as [fs|]; [tauto|].
    destruct HI as (Hp & Hcur & Hfit & HoM & Hnr & Hpo & HD & HP).
    destruct (psize <? poff) eqn:E1; [lia|].
    destruct (psize - poff <=? b) eqn:E2; intros [= <- <-]; unfold res_ok, Inv; rfields; fold M;
      repeat split; try lia.
Qed.

Lemma readdata_bounds e D r mr : wf_env e -> Inv e D r -> r_state r = ReadData mr ->
  r_nread r < mr /\ mr <= rbuf_len (e_cfg e).
Proof.
  intros W HI Hs. pose proof (cmax_ge e W) as HM. pose proof (rbuf_eq (e_cfg e)) as HB.
  destruct r as [st nread offset cfs wbase ctr pbase]. cbn [r_state] in Hs. subst st.
  unfold Inv in HI. rfields. set (M := cmax (e_cfg e)) in *.
  destruct cfs as [fs|].
  - destruct HI as (Hp & Hcur & (it & Hit & Hh) & HD & Hon & Hlt & HoM & Hmr & Hins).
    pose proof (wf_hdr e W it (nthI_in _ _ _ Hit)) as Hfs. rewrite Hh in Hfs. lia.
  - lia.
Qed.

Lemma read_inv e D r mr k : wf_env e -> Inv e D r -> r_state r = ReadData mr ->
  k <= mr - r_nread r -> k <= e_avail e - (r_wbase r + r_nread r) ->
  Inv e D (mkR ReadFrameLen (r_nread r + k) (r_offset r) (r_cfs r) (r_wbase r) (r_ctr r) (r_pbase r)).
Proof.
  intros W HI Hs Hk1 Hk2. pose proof (cmax_ge e W) as HM.
  destruct r as [st nread offset cfs wbase ctr pbase]. cbn [r_state] in Hs. subst st.
  unfold Inv in *. rfields. set (M := cmax (e_cfg e)) in *.
  destruct cfs as [fs|].
  - destruct HI as (Hp & Hcur & Hhd & HD & Hon & Hlt & HoM & Hmr & Hins).
    repeat split; try assumption; try lia.
  - repeat split; try lia.
Qed.

Lemma poll_inv e b : wf_env e -> forall sc D r x r' sc',
  Inv e D r -> poll_read e b sc r = (x, r', sc') -> res_ok e b D x r'.
Proof.
  intros W. induction sc as [|s t IH]; intros D r x r' sc' HI.
  - cbn [poll_read].
    destruct (match r_state r with ReadFrameLen => step_len e r | _ => (r, None) end)
      as [r1 res] eqn:Epre.
    assert (Hpre : match res with
                   | None => Inv e D r1 /\ r_state r1 <> ReadFrameLen
                   | Some y => y = RErr E_INVALID /\
                       exists it, nthI (e_items e) (r_ctr r1) = Some it /\
                                  item_good (e_cfg e) it (r_ctr r1) = false
                   end).
    { destruct (r_state r) eqn:Es.
      2:{ pose proof (step_len_inv e D r r1 res W HI Es Epre) as H.
          destruct res; [exact H|]. destruct H as [H1 [H2|[mr H2]]]; split; congruence. }
      all: injection Epre as <- <-; split; congruence. }
    destruct res as [y|].
    + intros [= <- <- <-]. destruct Hpre as [-> Hbad]. unfold res_ok. right. split; [reflexivity|exact Hbad].
    + destruct Hpre as [HI1 Hns].
      destruct (r_state r1) eqn:Es1.
      * destruct (readdata_bounds e D r1 _ W HI1 Es1) as [Hb1 Hb2].
        destruct ((max_read <? r_nread r1) || (rbuf_len (e_cfg e) <? max_read)) eqn:Ep; [lia|].
        intros [= <- <- <-]. unfold res_ok. left. split; [reflexivity|]. split; [assumption|eauto].
      * congruence.
      * destruct (proc e b r1) as [r2 y] eqn:Ep. intros [= <- <- <-].
        eapply proc_inv; try eassumption. left; assumption.
      * destruct (proc e b r1) as [r2 y] eqn:Ep. intros [= <- <- <-].
        eapply proc_inv; try eassumption. right; eauto.
  - cbn [poll_read].
    destruct (match r_state r with ReadFrameLen => step_len e r | _ => (r, None) end)
      as [r1 res] eqn:Epre.
    assert (Hpre : match res with
                   | None => Inv e D r1 /\ r_state r1 <> ReadFrameLen
                   | Some y => y = RErr E_INVALID /\
                       exists it, nthI (e_items e) (r_ctr r1) = Some it /\
                                  item_good (e_cfg e) it (r_ctr r1) = false
                   end).
    { destruct (r_state r) eqn:Es.
      2:{ pose proof (step_len_inv e D r r1 res W HI Es Epre) as H.
          destruct res; [exact H|]. destruct H as [H1 [H2|[mr H2]]]; split; congruence. }
      all: injection Epre as <- <-; split; congruence. }
    destruct res as [y|].
    + intros [= <- <- <-]. destruct Hpre as [-> Hbad]. unfold res_ok. right. split; [reflexivity|exact Hbad].
    + destruct Hpre as [HI1 Hns].
      destruct (r_state r1) eqn:Es1.
      * destruct (readdata_bounds e D r1 _ W HI1 Es1) as [Hb1 Hb2].
        destruct ((max_read <? r_nread r1) || (rbuf_len (e_cfg e) <? max_read)) eqn:Ep; [lia|].
        destruct (s =? 0) eqn:E0.
        -- intros [= <- <- <-]. unfold res_ok. assumption.
        -- set (k := N.min s (N.min (max_read - r_nread r1) (e_avail e - (r_wbase r1 + r_nread r1)))).
           destruct (k =? 0) eqn:Ek.
           ++ intros [= <- <- <-]. unfold res_ok. left. split; [reflexivity|]. split; [assumption|eauto].
           ++ intro Hrec. eapply IH; [|exact Hrec].
              eapply read_inv; try eassumption; unfold k; lia.
      * congruence.
      * destruct (proc e b r1) as [r2 y] eqn:Ep. intros [= <- <- <-].
        eapply proc_inv; try eassumption. left; assumption.
      * destruct (proc e b r1) as [r2 y] eqn:Ep. intros [= <- <- <-].
        eapply proc_inv; try eassumption. right; eauto.
Qed.

(* ------------------------------------------------------------------ whole reader runs *)

Definition bad_at (e : renv) (k : N) : Prop :=
  exists it, nthI (e_items e) k = Some it /\ item_good (e_cfg e) it k = false.

(* judgement on the trace of a reader run that starts with D bytes delivered *)
Fixpoint run_ok (e : renv) (D : N) (bufs : list N) (tr : list (rres * reader)) {struct tr} : Prop :=
  match tr, bufs with
  | [], _ => True
  | (x, r') :: t, b :: bt =>
      match x with
      | RReady n pos => pos = D /\ n <= b /\ (1 <= b -> 1 <= n) /\ run_ok e (D + n) bt t
      | RPending => run_ok e D bt t
      | RErr err =>
          t = [] /\
          ((err = E_EOF /\ Inv e D r' /\ exists mr, r_state r' = ReadData mr) \/
           (err = E_INVALID /\ bad_at e (r_ctr r')))
      | RPanic => False
      end
  | _ :: _, [] => False
  end.

Lemma run_ok_holds e : wf_env e -> forall bufs sc D r,
  Inv e D r -> run_ok e D bufs (run_reader e bufs sc r).
Proof.
  intro W. induction bufs as [|b bt IH]; intros sc D r HI; cbn [run_reader run_ok]; [exact I|].
  destruct (poll_read e b sc r) as [[x r'] sc'] eqn:Ep.
  pose proof (poll_inv e b W sc D r x r' sc' HI Ep) as H.
  cbn [run_ok]. destruct x as [n pos| |err|]; cbn [is_final res_ok] in *.
  - destruct H as (H1 & H2 & H3 & H4). repeat split; try assumption. apply IH. exact H4.
  - apply IH. exact H.
  - split; [reflexivity|]. exact H.
  - exact H.
Qed.

(* the part of the judgement that speaks about delivered bytes only *)
Fixpoint pieces_ok (D : N) (bufs : list N) (tr : list (rres * reader)) {struct tr} : Prop :=
  match tr, bufs with
  | [], _ => True
  | (x, _) :: t, b :: bt =>
      match x with
      | RReady n pos => pos = D /\ n <= b /\ (1 <= b -> 1 <= n) /\ pieces_ok (D + n) bt t
      | RPending => pieces_ok D bt t
      | RErr err => t = [] /\ (err = E_EOF \/ err = E_INVALID)
      | RPanic => False
      end
  | _ :: _, [] => False
  end.

Lemma run_ok_pieces e : forall tr D bufs, run_ok e D bufs tr -> pieces_ok D bufs tr.
Proof.
  induction tr as [|[x r'] t IH]; intros D bufs; cbn [run_ok pieces_ok]; [trivial|].
  destruct bufs as [|b bt]; [trivial|].
  destruct x as [n pos| |err|]; try tauto.
  - intros (H1 & H2 & H3 & H4). repeat split; auto.
  - apply IH.
Qed.

Theorem read_exact e : wf_env e -> forall bufs sc,
  pieces_ok 0 bufs (run_reader e bufs sc (reader_init (e_cfg e))).
Proof.
  intros W bufs sc. eapply run_ok_pieces, run_ok_holds; [exact W|]. apply init_inv, W.
Qed.

(* ------------------------------------------------------------------ the honest wire *)

Definition plains_ok (c : cfg) (plains : list N) : Prop :=
  Forall (fun p => 1 <= p /\ p <= c_mfl c) plains.

Lemma honest_nthI plains : forall k0 n it, nthI (honest_from k0 plains) n = Some it ->
  exists p, nthP plains n = Some p /\ it = mkItem (p + TAG) (p + TAG) (Some (k0 + n)).
Proof.
  induction plains as [|x t IH]; cbn [honest_from nthI nthP]; intros k0 n it; [discriminate|].
  destruct (n =? 0) eqn:E0.
  - intros [= <-]. exists x. split; [reflexivity|]. f_equal. f_equal. lia.
  - intro H. destruct (IH _ _ _ H) as (p & Hp & ->). exists p. split; [assumption|].
    f_equal. f_equal. lia.
Qed.

Lemma honest_nthI_none plains : forall k0 n, nthI (honest_from k0 plains) n = None -> nthP plains n = None.
Proof.
  induction plains as [|x t IH]; cbn [honest_from nthI nthP]; intros k0 n; [reflexivity|].
  destruct (n =? 0); [discriminate | apply IH].
Qed.

Lemma honest_in plains : forall k0 it, In it (honest_from k0 plains) ->
  exists n p, nthP plains n = Some p /\ it = mkItem (p + TAG) (p + TAG) (Some (k0 + n)).
Proof.
  induction plains as [|x t IH]; cbn [honest_from In]; intros k0 it; [intros []|].
  intros [<- | H].
  - exists 0, x. cbn [nthP]. replace (0 =? 0) with true by lia. split; [reflexivity|].
    f_equal. f_equal. lia.
  - destruct (IH _ _ H) as (n & p & Hp & ->). exists (n + 1), p. cbn [nthP].
    destruct (n + 1 =? 0) eqn:E; [lia|]. replace (n + 1 - 1) with n by lia.
    split; [assumption|]. f_equal. f_equal. lia.
Qed.

Lemma nthP_in l : forall n p, nthP l n = Some p -> In p l.
Proof.
  induction l as [|h t IH]; cbn [nthP]; [discriminate|].
  intros n p. destruct (n =? 0); [intros [= <-]; now left | intro H; right; eauto].
Qed.

Definition honest_env (c : cfg) (plains : list N) : renv :=
  mkEnv c (honest plains) plains (wire_len (honest plains)).

Lemma honest_wf c plains : 1 <= c_factor c -> c_mfl c + TAG <= SNOW_MAX -> plains_ok c plains ->
  wf_env (honest_env c plains).
Proof.
  intros Hf Hm Hp. unfold plains_ok in Hp. rewrite Forall_forall in Hp.
  constructor; cbn [e_cfg e_items e_plains e_avail honest_env]; try lia; try assumption.
  - intros it Hin. destruct (honest_in _ _ _ Hin) as (n & p & Hn & ->). cbn [i_hdr].
    specialize (Hp p (nthP_in _ _ _ Hn)). consts. lia.
  - intros it k Hin Hk. destruct (honest_in _ _ _ Hin) as (n & p & Hn & ->).
    cbn [i_auth i_blen] in *. injection Hk as <-. exists p. replace (0 + n) with n by lia. auto.
Qed.

Lemma honest_good c plains n it : plains_ok c plains ->
  nthI (honest plains) n = Some it -> item_good c it n = true.
Proof.
  intros Hp H. unfold plains_ok in Hp. rewrite Forall_forall in Hp.
  destruct (honest_nthI _ _ _ _ H) as (p & Hn & ->).
  specialize (Hp p (nthP_in _ _ _ Hn)).
  unfold item_good, auth_is. cbn [i_hdr i_blen i_auth]. consts. lia.
Qed.

(* at the carrier's EOF after the whole honest wire, every plaintext byte has been delivered *)
Lemma eof_complete c plains D r mr : 1 <= c_factor c -> c_mfl c + TAG <= SNOW_MAX -> plains_ok c plains ->
  Inv (honest_env c plains) D r -> r_state r = ReadData mr ->
  r_wbase r + r_nread r = wire_len (honest plains) -> D = sum plains.
Proof.
  intros Hf Hm Hp HI Hs Hall.
  destruct r as [st nread offset cfs wbase ctr pbase]. cbn [r_state] in Hs. subst st.
  unfold Inv in HI. rfields. cbn [e_cfg e_items e_plains e_avail honest_env] in HI.
  destruct cfs as [fs|].
  - destruct HI as (_ & Hcur & (it & Hit & Hh) & HD & Hon & Hlt & HoM & Hmr & Hins).
    pose proof (istart_some _ _ _ Hit) as Hs.
    destruct (honest_nthI _ _ _ _ Hit) as (p & Hn & ->).
    unfold plains_ok in Hp. rewrite Forall_forall in Hp. specialize (Hp p (nthP_in _ _ _ Hn)).
    unfold item_len in Hs. cbn [e_cfg e_items e_plains e_avail honest_env i_hdr i_blen] in *.
    consts. lia.
  - destruct HI as (_ & Hmr & Ho & Hn & Hcur & HD).
    destruct (nthI (honest plains) ctr) as [it|] eqn:Hit.
    + pose proof (istart_some _ _ _ Hit) as Hs. unfold item_len in Hs. lia.
    + rewrite HD. apply pstart_none. eapply honest_nthI_none. exact Hit.
Qed.

Fixpoint delivered (tr : list (rres * reader)) : N :=
  match tr with
  | [] => 0
  | (RReady n _, _) :: t => n + delivered t
  | _ :: t => delivered t
  end.

Lemma run_ok_honest c plains : 1 <= c_factor c -> c_mfl c + TAG <= SNOW_MAX -> plains_ok c plains ->
  forall tr D bufs, run_ok (honest_env c plains) D bufs tr ->
  (forall x r', In (x, r') tr -> x <> RErr E_INVALID) /\
  (forall r', In (RErr E_EOF, r') tr -> r_wbase r' + r_nread r' = wire_len (honest plains) ->
              D + delivered tr = sum plains).
Proof.
  intros Hf Hm Hp. induction tr as [|[x r1] t IH]; intros D bufs H.
  - split; intros; contradiction.
  - cbn [run_ok] in H. destruct bufs as [|b bt]; [contradiction|].
    destruct x as [n pos| |err|]; try contradiction.
    + destruct H as (_ & _ & _ & H). destruct (IH _ _ H) as [I1 I2]. split.
      * intros x r' [[= <- <-]|Hin]; [discriminate | eauto].
      * intros r' [[=]|Hin] Hall. cbn [delivered]. specialize (I2 _ Hin Hall). lia.
    + destruct (IH _ _ H) as [I1 I2]. split.
      * intros x r' [[= <- <-]|Hin]; [discriminate | eauto].
      * intros r' [[=]|Hin] Hall. cbn [delivered]. eauto.
    + destruct H as [-> [(-> & HI & mr & Hs)|(-> & it & Hit & Hbad)]].
      * split.
        -- intros x r' [[= <- <-]|[]]. discriminate.
        -- intros r' [[= <-]|[]] Hall. cbn [delivered].
           rewrite (eof_complete c plains D r1 mr Hf Hm Hp HI Hs Hall). lia.
      * cbn [e_items e_cfg honest_env] in *. rewrite (honest_good c plains _ _ Hp Hit) in Hbad. discriminate.
Qed.

Theorem read_honest c plains : 1 <= c_factor c -> c_mfl c + TAG <= SNOW_MAX -> plains_ok c plains ->
  forall bufs sc,
  let tr := run_reader (honest_env c plains) bufs sc (reader_init c) in
  pieces_ok 0 bufs tr /\
  (forall x r', In (x, r') tr -> x <> RErr E_INVALID) /\
  (forall r', In (RErr E_EOF, r') tr -> r_wbase r' + r_nread r' = wire_len (honest plains) ->
              delivered tr = sum plains).
Proof.
  intros Hf Hm Hp bufs sc tr.
  pose proof (honest_wf c plains Hf Hm Hp) as W.
  assert (H : run_ok (honest_env c plains) 0 bufs tr).
  { apply run_ok_holds; [exact W|]. apply (init_inv (honest_env c plains) W). }
  destruct (run_ok_honest c plains Hf Hm Hp tr 0 bufs H) as [I1 I2].
  split; [eapply run_ok_pieces; exact H|]. split; [exact I1|].
  intros r' Hin Hall. specialize (I2 r' Hin Hall). lia.
Qed.

(* ------------------------------------------------------------------ writer *)

Definition frame_ok (c : cfg) (x : N) : Prop := 1 <= x /\ x <= c_mfl c.

Definition WInv (c : cfg) (w : writer) : Prop :=
  Forall (frame_ok c) (w_frames w) /\
  match w_state w with
  | WIdle => frames_wire (w_frames w) = w_sent w
  | Writing off elen =>
      off < elen /\ elen <= ebuf_len c /\ frames_wire (w_frames w) = w_sent w + (elen - off)
  end.

Lemma sum_app a b : sum (a ++ b) = sum a + sum b.
Proof. induction a as [|x t IH]; cbn [app sum]; [lia | rewrite IH; lia]. Qed.

Lemma frames_wire_app a b : frames_wire (a ++ b) = frames_wire a + frames_wire b.
Proof. induction a as [|x t IH]; cbn [app frames_wire]; [lia | rewrite IH; lia]. Qed.

Lemma frames_wire_ge l : sum l <= frames_wire l.
Proof. induction l as [|x t IH]; cbn [sum frames_wire]; lia. Qed.

Lemma drain_spec eb : forall sc off elen sent res off' sent' sc', off < elen -> elen <= eb ->
  drain eb sc off elen sent = (res, off', sent', sc') ->
  res <> DPanic /\ off <= off' /\ sent' = sent + (off' - off) /\
  (res = DDone -> off' = elen) /\ (res = DPend -> off' < elen).
Proof.
  induction sc as [|x t IH]; intros off elen sent res off' sent' sc' H1 H2; cbn [drain];
    (destruct ((elen <? off) || (eb <? elen)) eqn:Ep; [lia|]).
  - intros [= <- <- <- <-]. repeat split; try lia; congruence.
  - destruct (x =? 0) eqn:E0.
    + intros [= <- <- <- <-]. repeat split; try lia; congruence.
    + destruct (off + N.min x (elen - off) =? elen) eqn:E1.
      * intros [= <- <- <- <-]. repeat split; try lia; congruence.
      * intro H. apply IH in H; try lia. destruct H as (A & B & C & D1 & D2).
        repeat split; try assumption; try lia.
Qed.

Lemma pack_spec c : 1 <= c_mfl c -> c_mfl c + TAG <= SNOW_MAX -> forall fuel rest bo,
  exists bo' tot fr, pack c fuel rest bo = Some (bo', tot, fr) /\
    bo' = bo + frames_wire fr /\ tot = sum fr /\ tot <= rest /\ Forall (frame_ok c) fr /\
    (bo <= ebuf_len c -> bo' <= ebuf_len c).
Proof.
  intros H1 H2. induction fuel as [|f IH]; intros rest bo; cbn [pack].
  - exists bo, 0, []. cbn [frames_wire sum]. repeat split; try lia. constructor.
  - destruct (rest =? 0) eqn:E0.
    { exists bo, 0, []. cbn [frames_wire sum]. repeat split; try lia. constructor. }
    destruct (ebuf_len c <? bo + N.min rest (c_mfl c) + (2 + TAG)) eqn:E1.
    { exists bo, 0, []. cbn [frames_wire sum]. repeat split; try lia. constructor. }
    destruct (SNOW_MAX <? N.min rest (c_mfl c) + TAG) eqn:E2; [lia|].
    destruct (IH (rest - N.min rest (c_mfl c)) (bo + (N.min rest (c_mfl c) + TAG) + 2))
      as (bo' & tot & fr & -> & Hb & Ht & Hle & Hfr & Hfit).
    exists bo', (N.min rest (c_mfl c) + tot), (N.min rest (c_mfl c) :: fr).
    cbn [frames_wire sum]. repeat split; try lia.
    constructor; [unfold frame_ok; lia | assumption].
Qed.

Lemma pack_progress c f rest : 1 <= c_mfl c -> c_mfl c + TAG <= SNOW_MAX -> 1 <= c_wbuf c -> 1 <= rest ->
  forall bo' tot fr, pack c (S f) rest 0 = Some (bo', tot, fr) -> 1 <= tot.
Proof.
  intros H1 H2 H3 H4 bo' tot fr. cbn [pack].
  destruct (rest =? 0) eqn:E0; [lia|].
  assert (65538 <= ebuf_len c) by (unfold ebuf_len; consts; nia).
  destruct (ebuf_len c <? 0 + N.min rest (c_mfl c) + (2 + TAG)) eqn:E1; [consts; lia|].
  destruct (SNOW_MAX <? N.min rest (c_mfl c) + TAG) eqn:E2; [lia|].
  destruct (pack_spec c H1 H2 f (rest - N.min rest (c_mfl c)) (0 + (N.min rest (c_mfl c) + TAG) + 2))
    as (b & t & r & -> & _).
  intros [= <- <- <-]. lia.
Qed.

Definition wres_ok (c : cfg) (len : N) (w : writer) (x : wres) (w' : writer) : Prop :=
  WInv c w' /\
  match x with
  | WReady n => n <= len /\ sum (w_frames w') = sum (w_frames w) + n
  | WPending => w_frames w' = w_frames w
  | _ => False
  end.

Lemma poll_write_ok c len sc w x w' sc' : 1 <= c_mfl c -> c_mfl c + TAG <= SNOW_MAX ->
  WInv c w -> poll_write c len sc w = (x, w', sc') -> wres_ok c len w x w'.
Proof.
  intros H1 H2 [HF HS]. unfold poll_write.
  set (d := match w_state w with
            | WIdle => (DDone, WIdle, w_sent w, sc)
            | Writing off elen =>
                match drain (ebuf_len c) sc off elen (w_sent w) with
                | (DDone, _, s, sc'0) => (DDone, WIdle, s, sc'0)
                | (DPend, off', s, sc'0) => (DPend, Writing off' elen, s, sc'0)
                | (DPanic, off', s, sc'0) => (DPanic, Writing off' elen, s, sc'0)
                end
            end).
  assert (Hd : exists dres st1 sent1 sc1, d = (dres, st1, sent1, sc1) /\ dres <> DPanic /\
               WInv c (mkW st1 (w_frames w) sent1)).
  { subst d. destruct (w_state w) as [|off elen] eqn:Es.
    - exists DDone, WIdle, (w_sent w), sc. split; [reflexivity|]. split; [discriminate|].
      split; assumption.
    - destruct HS as (A & B & C).
      destruct (drain (ebuf_len c) sc off elen (w_sent w)) as [[[res off'] s] sc0] eqn:Ed.
      destruct (drain_spec _ _ _ _ _ _ _ _ _ A B Ed) as (P1 & P2 & P3 & P4 & P5).
      destruct res; [| |congruence].
      + exists DDone, WIdle, s, sc0. split; [reflexivity|]. split; [discriminate|].
        split; [assumption|]. cbn [w_state w_frames w_sent]. specialize (P4 eq_refl). lia.
      + exists DPend, (Writing off' elen), s, sc0. split; [reflexivity|]. split; [discriminate|].
        split; [assumption|]. cbn [w_state w_frames w_sent]. specialize (P5 eq_refl). lia. }
  destruct Hd as (dres & st1 & sent1 & sc1 & -> & Hnp & [HF1 HS1]).
  cbn [w_frames w_state w_sent] in HF1, HS1.
  destruct dres; [| |congruence].
  all: destruct (len =? 0) eqn:E0;
    [intros [= <- <- <-]; split; [split; assumption|]; cbn [w_frames]; lia|].
  all: destruct (c_mfl c =? 0) eqn:Em; [lia|].
  all: destruct (pack_spec c H1 H2 (chunk_count c len) len
                   match st1 with WIdle => 0 | Writing _ elen => elen end)
         as (bo' & tot & fr & -> & Hb & Ht & Hle & Hfr & Hfit).
  all: destruct (tot =? 0) eqn:Et;
    [intros [= <- <- <-]; split; [split; assumption|]; reflexivity|].
  all: intros [= <- <- <-]; split;
    [split; cbn [w_frames w_state w_sent];
       [apply Forall_app; split; assumption|]
    | cbn [w_frames]; rewrite sum_app; lia].
  all: pose proof (frames_wire_ge fr) as Hge.
  all: rewrite frames_wire_app; destruct st1 as [|off elen].
  all: try (destruct HS1 as (A & B & C); specialize (Hfit B); lia).
  all: assert (0 <= ebuf_len c) as B by lia; specialize (Hfit B); lia.
Qed.

Lemma poll_write_progress c len sc w x w' sc' :
  1 <= c_mfl c -> c_mfl c + TAG <= SNOW_MAX -> 1 <= c_wbuf c -> 1 <= len ->
  w_state w = WIdle -> poll_write c len sc w = (x, w', sc') -> exists n, x = WReady n /\ 1 <= n.
Proof.
  intros H1 H2 H3 H4 Hs. unfold poll_write. rewrite Hs.
  destruct (len =? 0) eqn:E0; [lia|].
  destruct (c_mfl c =? 0) eqn:Em; [lia|].
  unfold chunk_count.
  destruct (pack c (S (N.to_nat (len / N.max 1 (c_mfl c)))) len 0) as [[[bo' tot] fr]|] eqn:Ep.
  - pose proof (pack_progress c _ len H1 H2 H3 H4 _ _ _ Ep) as Ht.
    destruct (tot =? 0) eqn:Et; [lia|]. intros [= <- <- <-]. eauto.
  - destruct (pack_spec c H1 H2 (S (N.to_nat (len / N.max 1 (c_mfl c)))) len 0) as (a & b & d & He & _).
    congruence.
Qed.

Lemma poll_flush_ok c sc w x w' sc' : WInv c w -> poll_flush c sc w = (x, w', sc') ->
  WInv c w' /\ w_frames w' = w_frames w /\
  ((x = WReady 0 /\ w_state w' = WIdle /\ w_sent w' = frames_wire (w_frames w')) \/ x = WPending).
Proof.
  intros [HF HS]. unfold poll_flush. destruct (w_state w) as [|off elen] eqn:Es.
  - intros [= <- <- <-]. split; [split; [assumption|rewrite Es; assumption]|].
    split; [reflexivity|]. left. repeat split; [assumption | lia].
  - destruct HS as (A & B & C).
    destruct (drain (ebuf_len c) sc off elen (w_sent w)) as [[[res off'] s] sc0] eqn:Ed.
    destruct (drain_spec _ _ _ _ _ _ _ _ _ A B Ed) as (P1 & P2 & P3 & P4 & P5).
    destruct res; [| |congruence]; intros [= <- <- <-]; cbn [w_frames w_state w_sent].
    + specialize (P4 eq_refl). split; [split; [assumption|cbn [w_state w_frames w_sent]; lia]|].
      split; [reflexivity|]. left. repeat split. lia.
    + specialize (P5 eq_refl). split; [split; [assumption|cbn [w_state w_frames w_sent]; lia]|].
      split; [reflexivity|]. right. reflexivity.
Qed.

Theorem run_writer_ok c : 1 <= c_mfl c -> c_mfl c + TAG <= SNOW_MAX ->
  forall ops sc w tr wf ok, WInv c w -> run_writer c ops sc w = (tr, wf, ok) ->
  ok = true /\ WInv c wf /\ sum (w_frames wf) = sum (w_frames w) + accepted ops tr /\
  Forall (fun xw => w_is_final (fst xw) = false) tr.
Proof.
  intros H1 H2. induction ops as [|o t IH]; intros sc w tr wf ok HI; cbn [run_writer].
  - intros [= <- <- <-]. cbn [accepted]. split; [reflexivity|]. split; [assumption|].
    split; [lia|constructor].
  - destruct (wstep c o sc w) as [[x w'] sc'] eqn:Es.
    assert (Hx : WInv c w' /\ w_is_final x = false /\
                 sum (w_frames w') = sum (w_frames w) +
                   match o, x with OWrite _, WReady n => n | _, _ => 0 end).
    { destruct o as [len|]; cbn [wstep] in Es.
      - destruct (poll_write_ok c len sc w x w' sc' H1 H2 HI Es) as [A B].
        destruct x; try contradiction; cbn [w_is_final].
        + split; [exact A|]. split; [reflexivity|]. lia.
        + split; [exact A|]. split; [reflexivity|]. rewrite B. lia.
      - destruct (poll_flush_ok c sc w x w' sc' HI Es) as (A & B & [(-> & _)| ->]);
          cbn [w_is_final]; rewrite B; (split; [exact A|]); (split; [reflexivity|]); lia. }
    destruct Hx as (A & B & C). rewrite B.
    destruct (run_writer c t sc' w') as [[l wf'] ok'] eqn:Er.
    intros [= <- <- <-]. destruct (IH _ _ _ _ _ A Er) as (I1 & I2 & I3 & I4).
    split; [assumption|]. split; [assumption|]. split.
    + rewrite I3, C. destruct o as [len|]; cbn [accepted]; destruct x; try lia; discriminate.
    + constructor; assumption.
Qed.

(* ------------------------------------------------------------------ tampered wires *)

(* the j-th item of the wire is not the authentic j-th frame (or the wire has fewer items) *)
Definition not_auth (e : renv) (j : N) : Prop :=
  forall it, nthI (e_items e) j = Some it -> (i_hdr it =? i_blen it) && auth_is it j = false.

Lemma pstart_mono l : forall k j, k <= j -> pstart l k <= pstart l j.
Proof.
  induction l as [|x t IH]; cbn [pstart]; intros k j H; [lia|].
  destruct (k =? 0) eqn:Ek; [lia|]. destruct (j =? 0) eqn:Ej; [lia|].
  specialize (IH (k - 1) (j - 1)). lia.
Qed.

Lemma inv_D_le e D r : Inv e D r -> D <= pstart (e_plains e) (r_ctr r).
Proof.
  destruct r as [st nread offset cfs wbase ctr pbase]. unfold Inv. rfields.
  destruct st, cfs; intros H; try tauto; decompose [and] H; lia.
Qed.

Lemma step_len_ctr e r r1 res : step_len e r = (r1, res) -> r_ctr r1 = r_ctr r.
Proof.
  unfold step_len.
  destruct (r_nread r <? r_offset r); [intros [= <- <-]; reflexivity|].
  destruct (r_nread r - r_offset r <? 2); [intros [= <- <-]; reflexivity|].
  destruct (r_cfs r) as [fs|].
  - cbv beta iota zeta.
    destruct (r_nread r - r_offset r <? fs).
    + destruct (r_nread r + fs <? cmax (e_cfg e)); intros [= <- <-]; reflexivity.
    + destruct (fs <=? TAG); intros [= <- <-]; reflexivity.
  - destruct (hdr_at (e_items e) (r_wbase r + r_offset r)) as [fs|]; cbv beta iota zeta.
    + destruct (r_nread r - r_offset r - 2 <? fs).
      * destruct (r_nread r + fs <? cmax (e_cfg e)); intros [= <- <-]; reflexivity.
      * destruct (fs <=? TAG); intros [= <- <-]; reflexivity.
    + intros [= <- <-]; reflexivity.
Qed.

Lemma proc_ctr e D b j r r2 x : Inv e D r -> r_ctr r <= j -> not_auth e j ->
  proc e b r = (r2, x) -> r_ctr r2 <= j.
Proof.
  intros HI Hj Hna.
  destruct r as [st nread offset cfs wbase ctr pbase]. unfold proc, Inv in *. rfields.
  destruct st as [mr| | |poff psize pfs]; try (intros [= <- <-]; rfields; assumption).
  - destruct cfs as [fs|]; [|tauto].
    destruct HI as (Hp & Hcur & (it & Hit & Hh) & _).
    destruct (fs <? TAG); [intros [= <- <-]; rfields; assumption|].
    destruct (rbuf_len (e_cfg e) <? offset + fs); [intros [= <- <-]; rfields; assumption|].
    destruct (nread <? offset + fs); [intros [= <- <-]; rfields; assumption|].
    destruct (SNOW_MAX <? fs); [intros [= <- <-]; rfields; assumption|].
    rewrite Hcur, (body_ok_istart _ _ _ _ fs Hit).
    destruct ((i_blen it =? fs) && auth_is it ctr) eqn:Eok.
    + assert (ctr <> j).
      { intros ->. specialize (Hna it Hit). rewrite Hh in Hna.
        replace (fs =? i_blen it) with (i_blen it =? fs) in Hna by lia. congruence. }
      destruct (fs - TAG <=? b); [intros [= <- <-]; rfields; lia|].
      destruct (c_mfl (e_cfg e) <? fs - TAG); intros [= <- <-]; rfields; lia.
    + destruct (fs - TAG <=? b); [intros [= <- <-]; rfields; assumption|].
      destruct (c_mfl (e_cfg e) <? fs - TAG); intros [= <- <-]; rfields; assumption.
  - destruct (psize <? poff); [intros [= <- <-]; rfields; assumption|].
    destruct (psize - poff <=? b); intros [= <- <-]; rfields; assumption.
Qed.

Lemma poll_ctr e b j : wf_env e -> not_auth e j -> forall sc D r x r' sc',
  Inv e D r -> r_ctr r <= j -> poll_read e b sc r = (x, r', sc') -> r_ctr r' <= j.
Proof.
  intros W Hna. induction sc as [|s t IH]; intros D r x r' sc' HI Hj; cbn [poll_read];
    destruct (match r_state r with ReadFrameLen => step_len e r | _ => (r, None) end)
      as [r1 res] eqn:Epre;
    (assert (Hc : r_ctr r1 = r_ctr r)
      by (destruct (r_state r); try (injection Epre as <- <-; reflexivity);
          eapply step_len_ctr; eassumption));
    (assert (HI1 : res = None -> Inv e D r1)
      by (intros ->; destruct (r_state r) eqn:Es; try (injection Epre as <-; assumption);
          exact (proj1 (step_len_inv e D r r1 None W HI Es Epre))));
    (destruct res as [y|]; [intros [= <- <- <-]; lia|]); specialize (HI1 eq_refl).
  - destruct (r_state r1) eqn:Es1.
    + destruct ((max_read <? r_nread r1) || (rbuf_len (e_cfg e) <? max_read));
        intros [= <- <- <-]; lia.
    + intros [= <- <- <-]; lia.
    + destruct (proc e b r1) as [r2 y] eqn:Ep. intros [= <- <- <-].
      eapply proc_ctr; try eassumption. lia.
    + destruct (proc e b r1) as [r2 y] eqn:Ep. intros [= <- <- <-].
      eapply proc_ctr; try eassumption. lia.
  - destruct (r_state r1) eqn:Es1.
    + destruct (readdata_bounds e D r1 _ W HI1 Es1) as [Hb1 Hb2].
      destruct ((max_read <? r_nread r1) || (rbuf_len (e_cfg e) <? max_read)) eqn:Ep; [lia|].
      destruct (s =? 0); [intros [= <- <- <-]; lia|].
      set (k := N.min s (N.min (max_read - r_nread r1) (e_avail e - (r_wbase r1 + r_nread r1)))).
      destruct (k =? 0) eqn:Ek; [intros [= <- <- <-]; lia|].
      intro Hrec. eapply IH; [| |exact Hrec].
      * eapply read_inv; try eassumption; unfold k; lia.
      * rfields. lia.
    + intros [= <- <- <-]; lia.
    + destruct (proc e b r1) as [r2 y] eqn:Ep. intros [= <- <- <-].
      eapply proc_ctr; try eassumption. lia.
    + destruct (proc e b r1) as [r2 y] eqn:Ep. intros [= <- <- <-].
      eapply proc_ctr; try eassumption. lia.
Qed.

Lemma run_bound e j : wf_env e -> not_auth e j -> forall bufs sc D r,
  Inv e D r -> r_ctr r <= j ->
  D + delivered (run_reader e bufs sc r) <= pstart (e_plains e) j.
Proof.
  intros W Hna. induction bufs as [|b bt IH]; intros sc D r HI Hj; cbn [run_reader delivered].
  - pose proof (inv_D_le e D r HI). pose proof (pstart_mono (e_plains e) _ _ Hj). lia.
  - destruct (poll_read e b sc r) as [[x r'] sc'] eqn:Ep.
    pose proof (poll_inv e b W sc D r x r' sc' HI Ep) as H.
    pose proof (poll_ctr e b j W Hna sc D r x r' sc' HI Hj Ep) as Hj'.
    pose proof (inv_D_le e D r HI). pose proof (pstart_mono (e_plains e) _ _ Hj).
    destruct x as [n pos| |err|]; cbn [is_final res_ok delivered] in *.
    + destruct H as (_ & _ & _ & H). specialize (IH sc' _ _ H Hj'). lia.
    + specialize (IH sc' _ _ H Hj'). lia.
    + lia.
    + lia.
Qed.

Theorem read_tamper e j : wf_env e -> not_auth e j -> forall bufs sc,
  delivered (run_reader e bufs sc (reader_init (e_cfg e))) <= pstart (e_plains e) j.
Proof.
  intros W Hna bufs sc.
  pose proof (run_bound e j W Hna bufs sc 0 (reader_init (e_cfg e)) (init_inv e W)) as H.
  cbn [reader_init r_ctr] in H. specialize (H ltac:(lia)). lia.
Qed.

(* ------------------------------------------------------------------ end to end, constants *)

Lemma writer_init_inv c : WInv c writer_init.
Proof. split; [constructor | reflexivity]. Qed.

Theorem end_to_end c : 1 <= c_factor c -> 1 <= c_mfl c -> c_mfl c + TAG <= SNOW_MAX ->
  forall ops wsc tr w ok, run_writer c ops wsc writer_init = (tr, w, ok) ->
  forall bufs rsc,
  let plains := w_frames w in
  let rt := run_reader (honest_env c plains) bufs rsc (reader_init c) in
  ok = true /\ sum plains = accepted ops tr /\
  pieces_ok 0 bufs rt /\
  (forall x r', In (x, r') rt -> x <> RErr E_INVALID) /\
  (forall r', In (RErr E_EOF, r') rt -> r_wbase r' + r_nread r' = wire_len (honest plains) ->
              delivered rt = accepted ops tr).
Proof.
  intros Hf H1 H2 ops wsc tr w ok Hr bufs rsc plains rt.
  destruct (run_writer_ok c H1 H2 ops wsc writer_init tr w ok (writer_init_inv c) Hr)
    as (-> & [HF _] & Hs & _).
  cbn [writer_init w_frames sum] in Hs.
  destruct (read_honest c plains Hf H2 HF bufs rsc) as (A & B & C).
  split; [reflexivity|]. split; [unfold plains; lia|]. split; [exact A|]. split; [exact B|].
  intros r' Hin Hall. specialize (C r' Hin Hall). unfold rt, plains in *. lia.
Qed.

Lemma consts_ok :
  1 <= MAX_FRAME_LEN /\ MAX_FRAME_LEN + TAG <= SNOW_MAX /\
  1 <= MAX_READ_AHEAD_FACTOR /\ 1 <= MAX_WRITE_BUFFER_SIZE.
Proof. vm_compute. repeat split; discriminate. Qed.

(* with the limit the code had before the fix (65520) a single maximal chunk is refused by snow *)
Lemma unfixed_refuted :
  exists len sc, fst (fst (poll_write (mkCfg 5 2 65520) len sc writer_init)) = WErr E_INVALID.
Proof. exists 65520, []. vm_compute. reflexivity. Qed.
