(* C02 — pinned property theorems. This file contains statements, `exact`, and
   Print Assumptions only. The pins in tools/pins/C02.v re-check the statements. *)
From Coq Require Import List NArith Bool.
From V.gen Require Consts.
From V.C02 Require Import Model Proofs.
Import ListNotations.
Open Scope N_scope.

(* Reader, any wire (any tampering, truncation, garbage) and any carrier behaviour (chunking,
   Pending, zero-length reads, I/O errors, EOF at any point — mid-header, mid-frame), the socket
   being polled on after errors and EOF: for every read-ahead factor >= 1 and every sequence of
   caller buffer sizes (including empty buffers) the reader never panics (all slice indices in
   bounds, no `expect` on a missing value), never reports an internal-state error, and the chunks it
   delivers are consecutive pieces of the writer's byte stream starting at 0 — no loss,
   duplication, reordering or foreign bytes; a chunk fits the buffer and is non-empty for a
   non-empty buffer; every error is the carrier's (EOF / I/O error) or InvalidData. *)
Theorem C02_read_exact :
  forall e, wf_env e -> forall bufs sc,
  pieces_ok 0 bufs (run_reader e bufs sc (reader_init (e_cfg e))).
Proof. exact read_exact. Qed.
Print Assumptions C02_read_exact.

(* The same run with the full per-call judgement: after every call the invariant holds (buffer
   window, cursor on a frame boundary, index bounds); a carrier error or EOF leaves the reader in
   ReadData with nothing lost (a later poll resumes exactly where the stream stopped); InvalidData
   is only ever reported at an item that is not the acceptable next frame and leaves the reader in
   the Failed state. *)
Theorem C02_read_invariant :
  forall e, wf_env e -> forall bufs sc D r, Inv e D r -> run_ok e D bufs (run_reader e bufs sc r).
Proof. exact run_ok_holds. Qed.
Print Assumptions C02_read_invariant.

(* One poll_read call preserves the invariant, from any state satisfying it. *)
Theorem C02_poll_read_step :
  forall e b, wf_env e -> forall sc D r x r' sc',
  Inv e D r -> poll_read e b sc r = (x, r', sc') -> res_ok e b D x r'.
Proof. exact poll_inv. Qed.
Print Assumptions C02_poll_read_step.

(* Fail-stop: from any state whatsoever, once a poll has reported InvalidData every later poll
   reports InvalidData — nothing is ever delivered after a protocol failure, and re-polling a
   failed socket is answered without touching the buffers. *)
Theorem C02_fail_stop :
  forall e bufs sc r,
  fail_stop (match r_state r with Failed => true | _ => false end) (run_reader e bufs sc r).
Proof. exact reader_fail_stop. Qed.
Print Assumptions C02_fail_stop.

Theorem C02_failed_repoll :
  forall e b sc r, r_state r = Failed -> poll_read e b sc r = (RErr E_INVALID, set_lp r false, sc).
Proof. exact poll_failed. Qed.
Print Assumptions C02_failed_repoll.

(* Untampered wire of frames with 1..MAX_FRAME_LEN plaintext bytes, any carrier behaviour:
   InvalidData never; never more than was written; whenever the carrier reports EOF after the
   whole wire was pulled, every byte has been delivered. *)
Theorem C02_read_honest :
  forall c plains, 1 <= c_factor c -> c_mfl c + TAG <= SNOW_MAX -> plains_ok c plains ->
  forall bufs sc,
  let tr := run_reader (honest_env c plains) bufs sc (reader_init c) in
  pieces_ok 0 bufs tr /\ honest_ok (wire_len (honest plains)) (sum plains) 0 tr.
Proof. exact read_honest. Qed.
Print Assumptions C02_read_honest.

(* Tampering: if the j-th item on the wire is not the authentic j-th frame with a truthful header
   (modified body or header, dropped, replayed, reordered — or absent), no byte of frame j or of
   any later frame is ever delivered, whatever follows on the wire and however often the socket
   is polled. *)
Theorem C02_read_tamper :
  forall e j, wf_env e -> not_auth e j -> forall bufs sc,
  delivered (run_reader e bufs sc (reader_init (e_cfg e))) <= pstart (e_plains e) j.
Proof. exact read_tamper. Qed.
Print Assumptions C02_read_tamper.

(* No lost wake-up on the read side: poll_read = Pending only if the last carrier call of that poll
   returned Pending (the carrier then holds the waker). *)
Theorem C02_read_pending_has_waker :
  forall e b sc r r' sc', poll_read e b sc r = (RPending, r', sc') -> r_lp r' = true.
Proof. exact read_pending_has_waker. Qed.
Print Assumptions C02_read_pending_has_waker.

(* Writer: for any sequence of poll_write / vectored poll_write / poll_flush / poll_close calls
   and any behaviour of the carrier (partial acceptance, Pending, Ok(0), I/O errors, closed), the
   socket being used on after errors: no call panics or fails with InvalidData, every frame carries
   1..MAX_FRAME_LEN plaintext bytes, the frames' plaintext adds up to exactly the bytes the write
   calls reported as accepted (an error or Pending accepts nothing), the bytes handed to the
   carrier plus the bytes still buffered are exactly the frames' wire bytes, Pending is only
   returned after the carrier returned Pending, and nothing reaches a closed carrier. *)
Theorem C02_write_frames :
  forall c, 1 <= c_mfl c -> c_mfl c + TAG <= SNOW_MAX -> 1 <= c_wbuf c ->
  forall ops sc w tr wf ok, WInv c w -> run_writer c ops sc w = (tr, wf, ok) ->
  ok = true /\ WInv c wf /\ sum (w_frames wf) = sum (w_frames w) + accepted ops tr /\
  wrun_ok ops tr /\ (w_cclosed w = true -> w_cclosed wf = true /\ w_sent wf = w_sent w).
Proof. exact run_writer_ok. Qed.
Print Assumptions C02_write_frames.

(* a single poll_write: accepts at most len bytes and frames exactly what it accepts; Pending
   implies a registered waker; an error accepts nothing *)
Theorem C02_poll_write_step :
  forall c len sc w x w' sc',
  1 <= c_mfl c -> c_mfl c + TAG <= SNOW_MAX -> 1 <= c_wbuf c ->
  WInv c w -> poll_write c len sc w = (x, w', sc') ->
  wres_ok c len w x w' /\ w_cclosed w' = w_cclosed w.
Proof. exact poll_write_ok. Qed.
Print Assumptions C02_poll_write_step.

(* with a write buffer of at least one frame an idle socket always accepts at least one byte *)
Theorem C02_write_progress :
  forall c len sc w x w' sc',
  1 <= c_mfl c -> c_mfl c + TAG <= SNOW_MAX -> 1 <= c_wbuf c -> 1 <= len ->
  w_state w = WIdle -> poll_write c len sc w = (x, w', sc') -> exists n, x = WReady n /\ 1 <= n.
Proof. exact poll_write_progress. Qed.
Print Assumptions C02_write_progress.

(* an empty write never blocks and accepts nothing *)
Theorem C02_write_empty :
  forall c sc w x w' sc', poll_write c 0 sc w = (x, w', sc') ->
  x = WReady 0 \/ (exists e, x = WErr e) \/ x = WPanic.
Proof. exact poll_write_empty. Qed.
Print Assumptions C02_write_empty.

(* poll_flush = Ready: nothing is left in the encrypt buffer, every frame is with the carrier;
   Pending / error: frames unchanged, Pending has a waker *)
Theorem C02_flush_complete :
  forall c sc w x w' sc', WInv c w -> poll_flush c sc w = (x, w', sc') ->
  wres_ok c 0 w x w' /\ w_frames w' = w_frames w /\ w_cclosed w' = w_cclosed w /\
  (forall n, x = WReady n -> n = 0 /\ w_state w' = WIdle /\ w_sent w' = frames_wire (w_frames w')).
Proof. exact poll_flush_ok. Qed.
Print Assumptions C02_flush_complete.

(* poll_close = Ready: everything accepted so far was encrypted, completely handed to the carrier
   and only then the carrier was closed; for every continuation of the run nothing more reaches
   the carrier (bytes accepted after a close are never sent; calls that try to send them fail) *)
Theorem C02_close_flushes :
  forall c, 1 <= c_mfl c -> c_mfl c + TAG <= SNOW_MAX -> 1 <= c_wbuf c ->
  forall sc w x w' sc', WInv c w -> poll_close c sc w = (x, w', sc') ->
  forall n, x = WReady n ->
  w_state w' = WIdle /\ w_frames w' = w_frames w /\ w_sent w' = frames_wire (w_frames w) /\
  w_cclosed w' = true /\
  forall ops sc2 tr wf ok, run_writer c ops sc2 w' = (tr, wf, ok) ->
    w_sent wf = frames_wire (w_frames w) /\ w_cclosed wf = true.
Proof. exact close_flushes. Qed.
Print Assumptions C02_close_flushes.

(* poll_close in general: the carrier is closed only by a call that returns Ready, and only after
   a complete flush *)
Theorem C02_close_step :
  forall c sc w x w' sc', WInv c w -> poll_close c sc w = (x, w', sc') ->
  wres_ok c 0 w x w' /\ w_frames w' = w_frames w /\
  (w_cclosed w = true -> w_cclosed w' = true) /\
  (forall n, x = WReady n ->
     n = 0 /\ w_state w' = WIdle /\ w_sent w' = frames_wire (w_frames w') /\ w_cclosed w' = true) /\
  (w_cclosed w' = true -> w_cclosed w = false -> exists n, x = WReady n).
Proof. exact poll_close_ok. Qed.
Print Assumptions C02_close_step.

(* writer -> wire -> reader: whatever was accepted by the writer comes out of the reader in order,
   for all write sizes, carrier behaviours on both sides, reader buffer sizes and configurations *)
Theorem C02_end_to_end :
  forall c, 1 <= c_factor c -> 1 <= c_mfl c -> c_mfl c + TAG <= SNOW_MAX -> 1 <= c_wbuf c ->
  forall ops wsc tr w ok, run_writer c ops wsc writer_init = (tr, w, ok) ->
  forall bufs rsc,
  let plains := w_frames w in
  let rt := run_reader (honest_env c plains) bufs rsc (reader_init c) in
  ok = true /\ sum plains = accepted ops tr /\
  (w_state w = WIdle -> sent_frames plains (w_sent w) = plains) /\
  pieces_ok 0 bufs rt /\
  honest_ok (wire_len (honest plains)) (accepted ops tr) 0 rt.
Proof. exact end_to_end. Qed.
Print Assumptions C02_end_to_end.

(* The constants of the source tree (regenerated on every run) satisfy the side conditions. *)
Theorem C02_constants :
  1 <= V.gen.Consts.MAX_FRAME_LEN /\ V.gen.Consts.MAX_FRAME_LEN + TAG <= SNOW_MAX /\
  1 <= V.gen.Consts.MAX_READ_AHEAD_FACTOR /\ 1 <= V.gen.Consts.MAX_WRITE_BUFFER_SIZE.
Proof. exact consts_ok. Qed.
Print Assumptions C02_constants.

(* The first defect that was repaired: with MAX_FRAME_LEN = 65520 a poll_write of one maximal
   chunk fails with InvalidData (snow refuses 65520 + 16 > 65535). Witness: corpus/C02/w01_*.case.
   (The second one — a panic when the socket was polled again after a decryption failure — is
   excluded by C02_read_invariant / C02_fail_stop on the repaired state machine; witness
   corpus/C02/w03_*.case.) *)
Theorem C02_unfixed_refuted :
  exists len sc, fst (fst (poll_write (mkCfg 5 2 65520) len sc writer_init)) = WErr E_INVALID.
Proof. exact unfixed_refuted. Qed.
Print Assumptions C02_unfixed_refuted.

(* non-vacuity: a 3-frame transfer through a stuttering carrier (Pending, I/O error, zero-length
   read) with a 1-byte carry-over; a body flip of frame 1 that stops the reader after frame 0 and
   keeps it failed; a close that flushes a partially written buffer *)
Example C02_nonvacuous :
  let c := mkCfg 1 1 V.gen.Consts.MAX_FRAME_LEN in
  let plains := [5; 70000 - 65519; 1] in
  let tr := run_reader (honest_env c plains) [100; 100; 100; 100; 2; 100000; 7; 7; 7]
                       [3; 4; 0; SPECIAL + 6; 1; SPECIAL; 1; 1; 1000000; 1000000; 1000000] (reader_init c) in
  map fst tr = [RPending; RErr 6; RErr E_EOF; RReady 5 0; RReady 2 5; RReady 4479 7; RReady 1 4486;
                RErr E_EOF; RErr E_EOF] /\
  let e := env_of c plains (TFlip 1 9 255) in
  not_auth e 1 /\
  map fst (run_reader e [100; 100; 100; 100] [1000000; 1000000] (reader_init c)) =
    [RReady 5 0; RErr E_INVALID; RErr E_INVALID; RErr E_INVALID] /\
  let '(tr, w, _) := run_writer c [OWrite 10; OWriteV [0; 7; 3]; OClose; OClose; OWrite 4; OFlush]
                                [0; 5; 0; 1000; 1000] writer_init in
  map fst tr = [WReady 10; WReady 7; WPending; WReady 0; WReady 4; WErr E_BROKENPIPE] /\
  w_sent w = frames_wire [10; 7] /\ w_cclosed w = true.
Proof.
  vm_compute. split; [reflexivity|]. split; [|split; [reflexivity|]].
  - intros it [= <-]. reflexivity.
  - repeat split.
Qed.
