(* C02 — pinned property theorems. This file contains statements, `exact`, and
   Print Assumptions only. The pins in tools/pins/C02.v re-check the statements. *)
From Coq Require Import List NArith Bool.
From V.gen Require Consts.
From V.C02 Require Import Model Proofs.
Import ListNotations.
Open Scope N_scope.

(* Reader, any wire (any tampering, truncation, garbage): for every read-ahead factor >= 1, every
   chunking / Pending pattern of the carrier and every sequence of caller buffer sizes, the
   reader never panics (all slice indices in bounds), never reports an internal-state error, and
   the chunks it delivers are consecutive pieces of the writer's byte stream starting at 0 —
   no loss, duplication, reordering or foreign bytes; a chunk fits the buffer and is non-empty
   for a non-empty buffer; the run ends at the first error, which is EOF or InvalidData. *)
Theorem C02_read_exact :
  forall e, wf_env e -> forall bufs sc,
  pieces_ok 0 bufs (run_reader e bufs sc (reader_init (e_cfg e))).
Proof. exact read_exact. Qed.
Print Assumptions C02_read_exact.

(* The same run with the full per-call judgement: every EOF leaves the reader in ReadData with
   the invariant intact (buffer window, cursor on a frame boundary, index bounds), and
   InvalidData is only ever reported at an item that is not the acceptable next frame. *)
Theorem C02_read_invariant :
  forall e, wf_env e -> forall bufs sc D r, Inv e D r -> run_ok e D bufs (run_reader e bufs sc r).
Proof. exact run_ok_holds. Qed.
Print Assumptions C02_read_invariant.

(* One poll_read call preserves the invariant, from any state satisfying it. *)
Theorem C02_poll_read_step :
  forall e b, wf_env e -> forall sc D r x r' sc',
  Inv e D r -> poll_read e b sc r = (x, r', sc') -> res_ok e b D x r'.
Proof. exact poll_inv. Qed.
Print Assumptions C02_poll_read_step.

(* Untampered wire of frames with 1..MAX_FRAME_LEN plaintext bytes: no InvalidData ever; and when
   the carrier reports EOF after the whole wire was pulled, every byte has been delivered. *)
Theorem C02_read_honest :
  forall c plains, 1 <= c_factor c -> c_mfl c + TAG <= SNOW_MAX -> plains_ok c plains ->
  forall bufs sc,
  let tr := run_reader (honest_env c plains) bufs sc (reader_init c) in
  pieces_ok 0 bufs tr /\
  (forall x r', In (x, r') tr -> x <> RErr E_INVALID) /\
  (forall r', In (RErr E_EOF, r') tr -> r_wbase r' + r_nread r' = wire_len (honest plains) ->
              delivered tr = sum plains).
Proof. exact read_honest. Qed.
Print Assumptions C02_read_honest.

(* Tampering: if the j-th item on the wire is not the authentic j-th frame with a truthful header
   (modified body or header, dropped, replayed, reordered — or absent), no byte of frame j or of
   any later frame is ever delivered, whatever follows on the wire. *)
Theorem C02_read_tamper :
  forall e j, wf_env e -> not_auth e j -> forall bufs sc,
  delivered (run_reader e bufs sc (reader_init (e_cfg e))) <= pstart (e_plains e) j.
Proof. exact read_tamper. Qed.
Print Assumptions C02_read_tamper.

(* Writer: for any sequence of poll_write / poll_flush calls and any acceptance / Pending script of
   the carrier, no call fails or panics, every frame carries 1..MAX_FRAME_LEN plaintext bytes, the
   frames' plaintext adds up to exactly the bytes the write calls reported as accepted, and the
   bytes handed to the carrier plus the bytes still buffered are exactly the frames' wire bytes. *)
Theorem C02_write_frames :
  forall c, 1 <= c_mfl c -> c_mfl c + TAG <= SNOW_MAX ->
  forall ops sc w tr wf ok, WInv c w -> run_writer c ops sc w = (tr, wf, ok) ->
  ok = true /\ WInv c wf /\ sum (w_frames wf) = sum (w_frames w) + accepted ops tr /\
  Forall (fun xw => w_is_final (fst xw) = false) tr.
Proof. exact run_writer_ok. Qed.
Print Assumptions C02_write_frames.

(* a single poll_write: accepts at most len bytes and frames exactly what it accepts *)
Theorem C02_poll_write_step :
  forall c len sc w x w' sc', 1 <= c_mfl c -> c_mfl c + TAG <= SNOW_MAX ->
  WInv c w -> poll_write c len sc w = (x, w', sc') -> wres_ok c len w x w'.
Proof. exact poll_write_ok. Qed.
Print Assumptions C02_poll_write_step.

(* with a write buffer of at least one frame an idle socket always accepts at least one byte *)
Theorem C02_write_progress :
  forall c len sc w x w' sc',
  1 <= c_mfl c -> c_mfl c + TAG <= SNOW_MAX -> 1 <= c_wbuf c -> 1 <= len ->
  w_state w = WIdle -> poll_write c len sc w = (x, w', sc') -> exists n, x = WReady n /\ 1 <= n.
Proof. exact poll_write_progress. Qed.
Print Assumptions C02_write_progress.

(* poll_flush = Ready: nothing is left in the encrypt buffer, every frame is with the carrier *)
Theorem C02_flush_complete :
  forall c sc w x w' sc', WInv c w -> poll_flush c sc w = (x, w', sc') ->
  WInv c w' /\ w_frames w' = w_frames w /\
  ((x = WReady 0 /\ w_state w' = WIdle /\ w_sent w' = frames_wire (w_frames w')) \/ x = WPending).
Proof. exact poll_flush_ok. Qed.
Print Assumptions C02_flush_complete.

(* writer -> wire -> reader: whatever was accepted by the writer comes out of the reader in order,
   for all write sizes, carrier scripts on both sides, reader buffer sizes and configurations *)
Theorem C02_end_to_end :
  forall c, 1 <= c_factor c -> 1 <= c_mfl c -> c_mfl c + TAG <= SNOW_MAX ->
  forall ops wsc tr w ok, run_writer c ops wsc writer_init = (tr, w, ok) ->
  forall bufs rsc,
  let plains := w_frames w in
  let rt := run_reader (honest_env c plains) bufs rsc (reader_init c) in
  ok = true /\ sum plains = accepted ops tr /\
  pieces_ok 0 bufs rt /\
  (forall x r', In (x, r') rt -> x <> RErr E_INVALID) /\
  (forall r', In (RErr E_EOF, r') rt -> r_wbase r' + r_nread r' = wire_len (honest plains) ->
              delivered rt = accepted ops tr).
Proof. exact end_to_end. Qed.
Print Assumptions C02_end_to_end.

(* The constants of the source tree (regenerated on every run) satisfy the side conditions. *)
Theorem C02_constants :
  1 <= V.gen.Consts.MAX_FRAME_LEN /\ V.gen.Consts.MAX_FRAME_LEN + TAG <= SNOW_MAX /\
  1 <= V.gen.Consts.MAX_READ_AHEAD_FACTOR /\ 1 <= V.gen.Consts.MAX_WRITE_BUFFER_SIZE.
Proof. exact consts_ok. Qed.
Print Assumptions C02_constants.

(* The defect that was repaired: with MAX_FRAME_LEN = 65520 a poll_write of one maximal chunk
   fails with InvalidData (snow refuses 65520 + 16 > 65535). Witness: corpus/C02/w01_*.case. *)
Theorem C02_unfixed_refuted :
  exists len sc, fst (fst (poll_write (mkCfg 5 2 65520) len sc writer_init)) = WErr E_INVALID.
Proof. exact unfixed_refuted. Qed.
Print Assumptions C02_unfixed_refuted.

(* non-vacuity: a 3-frame transfer through a 1-byte-at-a-time carrier with a 1-byte carry-over,
   and a body flip of frame 1 that stops the reader after frame 0 *)
Example C02_nonvacuous :
  let c := mkCfg 1 1 V.gen.Consts.MAX_FRAME_LEN in
  let plains := [5; 70000 - 65519; 1] in
  let tr := run_reader (honest_env c plains) [100; 100; 2; 100000; 7; 7]
                       [3; 4; 0; 1; 1; 1; 1000000; 1000000; 1000000] (reader_init c) in
  map fst tr = [RPending; RReady 5 0; RReady 2 5; RReady 4479 7; RReady 1 4486; RErr E_EOF] /\
  let e := env_of c plains (TFlip 1 9 255) in
  not_auth e 1 /\ delivered (run_reader e [100; 100; 100] [1000000; 1000000] (reader_init c)) = 5.
Proof. vm_compute. split; [reflexivity|]. split; [|reflexivity]. intros it [= <-]. reflexivity. Qed.
