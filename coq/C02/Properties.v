(* C02 — pinned property theorems. This file contains statements, `exact`, and
   Print Assumptions only. The pins in tools/pins/C02.v re-check the statements. *)
From Coq Require Import List NArith Bool.
From V.gen Require Consts.
From V.gen Require NoiseKinds.
From V.C02 Require Import Model Proofs Tamper Duplex Buffer Kinds.
Import ListNotations.
Open Scope N_scope.

(* Reader, any wire (any tampering, truncation, garbage) and any carrier behaviour (chunking,
   Pending, zero-length reads, I/O errors of any kind, EOF at any point — mid-header, mid-frame),
   the socket being polled on after errors and EOF: for every read-ahead factor >= 1 and every
   sequence of caller buffer sizes (including empty buffers) the reader never panics (all slice
   indices in bounds, no `expect` on a missing value), never reports an internal-state error, and
   the chunks it delivers are consecutive pieces of the writer's byte stream starting at 0 — no
   loss, duplication, reordering or foreign bytes; a chunk fits the buffer and is non-empty for a
   non-empty buffer; every error is either the carrier's (its end of stream, or the I/O error of a
   script entry passed through unchanged — the reader is then in ReadData and goes on where it
   was) or the socket's own InvalidData, and then the reader has failed for good. *)
Theorem C02_read_exact :
  forall e, wf_env e -> forall bufs sc,
  pieces_ok 0 bufs sc (run_reader e bufs sc (reader_init (e_cfg e))).
Proof. exact read_exact. Qed.
Print Assumptions C02_read_exact.

(* The same run with the full per-call judgement: after every call the invariant holds (buffer
   window, cursor on a frame boundary, index bounds); a carrier error or EOF leaves the reader in
   ReadData with nothing lost (a later poll resumes exactly where the stream stopped); the socket's
   InvalidData is only ever reported at an item that is not the acceptable next frame and leaves
   the reader in the Failed state. *)
Theorem C02_read_invariant :
  forall e, wf_env e -> forall bufs sc D r, Inv e D r -> run_ok e D bufs sc (run_reader e bufs sc r).
Proof. exact run_ok_holds. Qed.
Print Assumptions C02_read_invariant.

(* One poll_read call preserves the invariant, from any state satisfying it. *)
Theorem C02_poll_read_step :
  forall e b, wf_env e -> forall sc D r x r' sc',
  Inv e D r -> poll_read e b sc r = (x, r', sc') -> res_ok e b D sc x r'.
Proof. exact poll_inv. Qed.
Print Assumptions C02_poll_read_step.

(* Fail-stop: from any state whatsoever, once the reader has failed every later poll reports
   InvalidData and leaves it failed — nothing is ever delivered after a protocol failure, and
   re-polling a failed socket is answered without touching the buffers. *)
Theorem C02_fail_stop :
  forall e bufs sc r, fail_stop (is_failed r) (run_reader e bufs sc r).
Proof. exact reader_fail_stop. Qed.
Print Assumptions C02_fail_stop.

Theorem C02_failed_repoll :
  forall e b sc r, r_state r = Failed -> poll_read e b sc r = (RErr E_INVALID, set_lp r false, sc).
Proof. exact poll_failed. Qed.
Print Assumptions C02_failed_repoll.

(* Untampered wire of frames with 1..MAX_FRAME_LEN plaintext bytes, any carrier behaviour: the
   reader never fails (an InvalidData can only be the carrier's own error); never more than was
   written; whenever the carrier reports EOF after the whole wire was pulled, every byte has been
   delivered. *)
Theorem C02_read_honest :
  forall c plains, 1 <= c_factor c -> c_mfl c + TAG <= SNOW_MAX -> plains_ok c plains ->
  forall bufs sc,
  let tr := run_reader (honest_env c plains) bufs sc (reader_init c) in
  pieces_ok 0 bufs sc tr /\ honest_ok (wire_len (honest plains)) (sum plains) 0 tr.
Proof. exact read_honest. Qed.
Print Assumptions C02_read_honest.

(* Tampering: if the j-th item on the wire is not the authentic j-th frame with a truthful header
   (modified body or header, dropped, replayed, reordered — or absent), no byte of frame j or of
   any later frame is ever delivered, whatever follows on the wire and however often the socket
   is polled. *)
Theorem C02_read_tamper :
  forall e j, wf_env e -> not_auth e j -> forall bufs sc,
  delivered (run_reader e bufs sc (reader_init (e_cfg e))) <= pstart (e_plains e) j.
Proof. exact read_tamper. Qed.
Print Assumptions C02_read_tamper.

(* The same as a bound that needs no witness: whatever the wire, the plaintext delivered by any
   run is at most the clean prefix of the wire — the frames of the longest prefix of items that
   are, in order, the unmodified ciphertexts 0,1,2,.. with truthful headers and that the carrier
   delivers completely (this is the bound the trace oracle applies). *)
Theorem C02_read_clean_prefix :
  forall e, wf_env e -> forall bufs sc,
  delivered (run_reader e bufs sc (reader_init (e_cfg e))) <=
  clean_prefix (e_items e) (e_plains e) 0 (e_avail e).
Proof. exact read_clean_prefix. Qed.
Print Assumptions C02_read_clean_prefix.

(* Every LIST of manipulations of an honest wire (byte flips in header or body, drop, adjacent
   and distant replay, adjacent and distant reordering, forged frames, bytes inserted into or
   removed from a body, a frame of another session, truncation) gives an environment the reader
   theorems speak about: their hypothesis wf_env is discharged. *)
Theorem C02_tamper_wf :
  forall c plains ts, 1 <= c_factor c -> c_mfl c + TAG <= SNOW_MAX -> plains_ok c plains ->
  wf_env (env_of c plains ts).
Proof. exact tamper_wf. Qed.
Print Assumptions C02_tamper_wf.

(* The receive nonce (r_ctr) only ever passes items that are the authentic frame of their index:
   with the invariant, every item below the counter is genuine, truthfully framed and in place. *)
Theorem C02_nonce_discipline :
  forall e D r, wf_env e -> Inv2 e D r -> forall j, j < r_ctr r ->
  exists it p, nthI (e_items e) j = Some it /\ nthP (e_plains e) j = Some p /\
               i_hdr it = i_blen it /\ i_blen it = p + TAG /\ i_auth it = Some j.
Proof. exact below_ctr. Qed.
Print Assumptions C02_nonce_discipline.

(* How the receive nonce advances: a poll_read decrypts at most one frame; the counter moves, by
   exactly one, only in a call that returns bytes (errors, Pending and failed decryptions leave it
   alone) — from any state. *)
Theorem C02_nonce_step :
  forall e b sc r x r' sc', poll_read e b sc r = (x, r', sc') ->
  r_ctr r' = r_ctr r \/ (r_ctr r' = r_ctr r + 1 /\ exists n pos, x = RReady n pos).
Proof. exact poll_ctr_step. Qed.
Print Assumptions C02_nonce_step.

(* A reader state that is in order stays in order when the network appends to the wire (data
   arriving in several deliveries). *)
Theorem C02_wire_grows :
  forall e e' D r, wf_env e -> ext e e' -> Inv2 e D r -> Inv2 e' D r.
Proof. exact inv2_ext. Qed.
Print Assumptions C02_wire_grows.

(* No lost wake-up on the read side: poll_read = Pending only if the last carrier call of that poll
   returned Pending (the carrier then holds the waker). *)
Theorem C02_read_pending_has_waker :
  forall e b sc r r' sc', poll_read e b sc r = (RPending, r', sc') -> r_lp r' = true.
Proof. exact read_pending_has_waker. Qed.
Print Assumptions C02_read_pending_has_waker.

(* The read buffer at byte level: read_buffer[0 .. nread) holds the wire bytes from position
   r_wbase on after every poll_read, whatever the carrier does (including the one-byte copy of
   reset_read_state); hence the header bytes and the slice handed to the AEAD are the wire bytes
   the model's oracle is asked about. *)
Theorem C02_buffer_window :
  forall e bufs sc r bf r' bf', Win bf r -> run_buf e bufs sc r bf = (r', bf') -> Win bf' r'.
Proof. exact run_win. Qed.
Print Assumptions C02_buffer_window.

Theorem C02_buffer_window_step :
  forall e b sc r bf x r' sc',
  Win bf r -> poll_read e b sc r = (x, r', sc') -> Win (poll_read_buf e b sc r bf) r'.
Proof. exact poll_read_win. Qed.
Print Assumptions C02_buffer_window_step.

Theorem C02_buffer_slice :
  forall bf r fs, Win bf r -> r_offset r + fs <= r_nread r ->
  forall i, i < fs -> bf (r_offset r + i) = Some (r_wbase r + r_offset r + i).
Proof. exact window_slice. Qed.
Print Assumptions C02_buffer_slice.

(* Writer: for any sequence of poll_write / vectored poll_write / poll_flush / poll_close calls
   and any behaviour of the carrier (partial acceptance, Pending, Ok(0), I/O errors of any kind,
   closed), the socket being used on after errors: no call panics; an error is always the
   carrier's (BrokenPipe only once the caller closed it, WriteZero only for a zero-length
   acceptance, otherwise the scripted kind unchanged) — the socket never fails by itself; every
   frame carries 1..MAX_FRAME_LEN plaintext bytes, the frames' plaintext adds up to exactly the
   bytes the write calls reported as accepted (an error or Pending accepts nothing), the bytes
   handed to the carrier plus the bytes still buffered are exactly the frames' wire bytes, Pending
   is only returned after the carrier returned Pending, and nothing reaches a closed carrier. *)
Theorem C02_write_frames :
  forall c, 1 <= c_mfl c -> c_mfl c + TAG <= SNOW_MAX -> 1 <= c_wbuf c ->
  forall ops sc w tr wf ok, WInv c w -> run_writer c ops sc w = (tr, wf, ok) ->
  ok = true /\ WInv c wf /\ sum (w_frames wf) = sum (w_frames w) + accepted ops tr /\
  wrun_ok ops sc (w_cclosed w) tr /\ (w_cclosed w = true -> w_cclosed wf = true /\ w_sent wf = w_sent w).
Proof. exact run_writer_ok. Qed.
Print Assumptions C02_write_frames.

(* a single poll_write: accepts at most len bytes and frames exactly what it accepts; Pending
   implies a registered waker; an error accepts nothing and is the carrier's *)
Theorem C02_poll_write_step :
  forall c len sc w x w' sc',
  1 <= c_mfl c -> c_mfl c + TAG <= SNOW_MAX -> 1 <= c_wbuf c ->
  WInv c w -> poll_write c len sc w = (x, w', sc') ->
  wres_ok c len sc w x w' /\ w_cclosed w' = w_cclosed w /\ incl sc' sc.
Proof. exact poll_write_ok. Qed.
Print Assumptions C02_poll_write_step.

(* with a write buffer of at least one frame an idle socket always accepts at least one byte *)
Theorem C02_write_progress :
  forall c len sc w x w' sc',
  1 <= c_mfl c -> c_mfl c + TAG <= SNOW_MAX -> 1 <= c_wbuf c -> 1 <= len ->
  w_state w = WIdle -> poll_write c len sc w = (x, w', sc') -> exists n, x = WReady n /\ 1 <= n.
Proof. exact poll_write_progress. Qed.
Print Assumptions C02_write_progress.

(* an empty write never blocks and accepts nothing *)
Theorem C02_write_empty :
  forall c sc w x w' sc', poll_write c 0 sc w = (x, w', sc') ->
  x = WReady 0 \/ (exists e, x = WErr e) \/ x = WPanic.
Proof. exact poll_write_empty. Qed.
Print Assumptions C02_write_empty.

(* the writer only ever appends frames and hands more bytes to the carrier (the sending nonce =
   number of frames never goes back) *)
Theorem C02_writer_monotone :
  forall c ops sc w tr wf ok, run_writer c ops sc w = (tr, wf, ok) -> wmono w wf.
Proof. exact run_writer_mono. Qed.
Print Assumptions C02_writer_monotone.

(* poll_flush = Ready: nothing is left in the encrypt buffer, every frame is with the carrier;
   Pending / error: frames unchanged, Pending has a waker *)
Theorem C02_flush_complete :
  forall c sc w x w' sc', WInv c w -> poll_flush c sc w = (x, w', sc') ->
  wres_ok c 0 sc w x w' /\ w_frames w' = w_frames w /\ w_cclosed w' = w_cclosed w /\
  (forall n, x = WReady n -> n = 0 /\ w_state w' = WIdle /\ w_sent w' = frames_wire (w_frames w')) /\
  incl sc' sc.
Proof. exact poll_flush_ok. Qed.
Print Assumptions C02_flush_complete.

(* poll_close = Ready: everything accepted so far was encrypted, completely handed to the carrier
   and only then the carrier was closed; for every continuation of the run nothing more reaches
   the carrier (bytes accepted after a close are never sent; calls that try to send them fail) *)
Theorem C02_close_flushes :
  forall c, 1 <= c_mfl c -> c_mfl c + TAG <= SNOW_MAX -> 1 <= c_wbuf c ->
  forall sc w x w' sc', WInv c w -> poll_close c sc w = (x, w', sc') ->
  forall n, x = WReady n ->
  w_state w' = WIdle /\ w_frames w' = w_frames w /\ w_sent w' = frames_wire (w_frames w) /\
  w_cclosed w' = true /\
  forall ops sc2 tr wf ok, run_writer c ops sc2 w' = (tr, wf, ok) ->
    w_sent wf = frames_wire (w_frames w) /\ w_cclosed wf = true.
Proof. exact close_flushes. Qed.
Print Assumptions C02_close_flushes.

(* poll_close in general: the carrier is closed only by a call that returns Ready, and only after
   a complete flush *)
Theorem C02_close_step :
  forall c sc w x w' sc', WInv c w -> poll_close c sc w = (x, w', sc') ->
  wres_ok c 0 sc w x w' /\ w_frames w' = w_frames w /\
  (w_cclosed w = true -> w_cclosed w' = true) /\
  (forall n, x = WReady n ->
     n = 0 /\ w_state w' = WIdle /\ w_sent w' = frames_wire (w_frames w') /\ w_cclosed w' = true) /\
  (w_cclosed w' = true -> w_cclosed w = false -> exists n, x = WReady n) /\
  incl sc' sc.
Proof. exact poll_close_ok. Qed.
Print Assumptions C02_close_step.

(* writer -> wire -> reader: whatever was accepted by the writer comes out of the reader in order,
   for all write sizes, carrier behaviours on both sides, reader buffer sizes and configurations *)
Theorem C02_end_to_end :
  forall c, 1 <= c_factor c -> 1 <= c_mfl c -> c_mfl c + TAG <= SNOW_MAX -> 1 <= c_wbuf c ->
  forall ops wsc tr w ok, run_writer c ops wsc writer_init = (tr, w, ok) ->
  forall bufs rsc,
  let plains := w_frames w in
  let rt := run_reader (honest_env c plains) bufs rsc (reader_init c) in
  ok = true /\ sum plains = accepted ops tr /\
  (w_state w = WIdle -> sent_frames plains (w_sent w) = plains) /\
  pieces_ok 0 bufs rsc rt /\
  honest_ok (wire_len (honest plains)) (accepted ops tr) 0 rt.
Proof. exact end_to_end. Qed.
Print Assumptions C02_end_to_end.

(* One socket, both halves: a run that alternates between poll_read and the writer calls in any
   order gives, half by half, exactly the results of running each half alone. *)
Theorem C02_halves_independent :
  forall c e ops rsc wsc r w recs r' w',
  run_mixed c e ops rsc wsc r w = (recs, r', w', true) ->
  rrecs_of recs = run_reader e (reads_of ops) rsc r /\
  wrecs_of recs = fst (fst (run_writer c (wops_of ops) wsc w)) /\
  w' = snd (fst (run_writer c (wops_of ops) wsc w)).
Proof. exact mixed_split. Qed.
Print Assumptions C02_halves_independent.

(* One round of a connection (one side writes, the network delivers — possibly manipulated —
   what reached the carrier, the other side reads while also using its own writer half), from any
   state in which both directions are in order: no call panics, both directions are in order
   again, the writer calls and the final flush are judged, what the network took over is exactly
   the frames that reached the carrier completely (all frames, when the flush completed), the
   records of the read phase are judged (consecutive chunks; in an untouched direction: the reader
   never fails, never more than written, everything delivered by the time the carrier's end
   follows the whole wire), and an untouched direction stays untouched. *)
Theorem C02_duplex_round :
  forall c rd F G tr F' G' ok,
  1 <= c_factor c -> 1 <= c_mfl c -> c_mfl c + TAG <= SNOW_MAX -> 1 <= c_wbuf c ->
  FInv c F -> FInv c G -> run_round c rd F G = (tr, F', G', ok) ->
  ok = true /\ FInv c F' /\ FInv c G' /\ round_ok c rd F tr /\
  f_D F' = f_D F + mdelivered (rt_mixed tr) /\ f_D G' = f_D G /\
  f_plains F' = f_plains F ++ rt_new tr /\
  (forall n, fst (rt_flush tr) = WReady n -> f_plains F' = w_frames (snd (rt_flush tr))) /\
  (forall hon : bool, (hon = true -> Clean F /\ no_tamper (rd_tampers rd)) ->
     mixed_ok hon (wire_len (f_items F')) (sum (f_plains F')) (f_D F) (rt_mixed tr)) /\
  (Clean F -> no_tamper (rd_tampers rd) -> Clean F') /\ (Clean G -> Clean G').
Proof. exact round_inv. Qed.
Print Assumptions C02_duplex_round.

(* A whole connection: any number of rounds in any directions with any calls, carrier
   behaviours, manipulations and interleavings — no call on either socket ever panics and both
   directions stay in order (so C02_duplex_round applies to every single round, by
   C02_rounds_compose). *)
Theorem C02_duplex_rounds :
  forall c, 1 <= c_factor c -> 1 <= c_mfl c -> c_mfl c + TAG <= SNOW_MAX -> 1 <= c_wbuf c ->
  forall rds F0 F1 trs A B ok, GInv c F0 F1 -> run_rounds c rds F0 F1 = (trs, A, B, ok) ->
  ok = true /\ GInv c A B /\ length trs = length rds.
Proof. exact rounds_inv. Qed.
Print Assumptions C02_duplex_rounds.

Theorem C02_rounds_compose :
  forall c pre post F0 F1,
  run_rounds c (pre ++ post) F0 F1 =
  let '(t1, A, B, ok1) := run_rounds c pre F0 F1 in
  if ok1 then let '(t2, A', B', ok2) := run_rounds c post A B in (t1 ++ t2, A', B', ok2)
  else (t1, A, B, false).
Proof. exact rounds_app. Qed.
Print Assumptions C02_rounds_compose.

(* From the start of a connection, in both directions: the plaintext delivered never exceeds the
   clean prefix of what the network delivered. *)
Theorem C02_connection :
  forall c, 1 <= c_factor c -> 1 <= c_mfl c -> c_mfl c + TAG <= SNOW_MAX -> 1 <= c_wbuf c ->
  forall rds trs A B ok, run_rounds c rds (flow_init c) (flow_init c) = (trs, A, B, ok) ->
  ok = true /\ GInv c A B /\
  f_D A <= clean_prefix (f_items A) (f_plains A) 0 (f_avail A) /\
  f_D B <= clean_prefix (f_items B) (f_plains B) 0 (f_avail B).
Proof. exact connection_bound. Qed.
Print Assumptions C02_connection.

(* The error-kind tables (regenerated on every run): the table of io::ErrorKinds the harness's
   carrier draws from is the one the model passes through unchanged, and the kinds the source's
   poll_read / poll_write / poll_flush produce themselves are exactly the model's. *)
Theorem C02_error_kinds :
  (V.gen.NoiseKinds.noise_kind_codes = table_codes /\
   forallb (fun k => ecode k =? k) V.gen.NoiseKinds.noise_kind_codes = true) /\
  V.gen.NoiseKinds.noise_read_kinds = [E_EOF; E_INVALID; E_PERM] /\
  V.gen.NoiseKinds.noise_write_kinds = [E_INVALID; E_WRITEZERO].
Proof. exact (conj kinds_table (conj own_read_kinds own_write_kinds)). Qed.
Print Assumptions C02_error_kinds.

(* The constants of the source tree (regenerated on every run) satisfy the side conditions, and
   so do the defaults of the two transport configurations. *)
Theorem C02_constants :
  1 <= V.gen.Consts.MAX_FRAME_LEN /\ V.gen.Consts.MAX_FRAME_LEN + TAG <= SNOW_MAX /\
  1 <= V.gen.Consts.MAX_READ_AHEAD_FACTOR /\ 1 <= V.gen.Consts.MAX_WRITE_BUFFER_SIZE /\
  1 <= V.gen.Consts.TCP_NOISE_READ_AHEAD_DEFAULT /\ 1 <= V.gen.Consts.TCP_NOISE_WRITE_BUFFER_DEFAULT /\
  1 <= V.gen.Consts.WS_NOISE_READ_AHEAD_DEFAULT /\ 1 <= V.gen.Consts.WS_NOISE_WRITE_BUFFER_DEFAULT.
Proof. exact consts_ok. Qed.
Print Assumptions C02_constants.

(* The first defect that was repaired: with MAX_FRAME_LEN = 65520 a poll_write of one maximal
   chunk fails with InvalidData (snow refuses 65520 + 16 > 65535). Witness: corpus/C02/w01_*.case.
   (The second one — a panic when the socket was polled again after a decryption failure — is
   excluded by C02_read_invariant / C02_fail_stop on the repaired state machine; witness
   corpus/C02/w03_*.case.) *)
Theorem C02_unfixed_refuted :
  exists len sc, fst (fst (poll_write (mkCfg 5 2 65520) len sc writer_init)) = WErr E_INVALID.
Proof. exact unfixed_refuted. Qed.
Print Assumptions C02_unfixed_refuted.

(* non-vacuity: a 3-frame transfer through a stuttering carrier (Pending, I/O error, zero-length
   read) with a 1-byte carry-over; a body flip of frame 1 that stops the reader after frame 0 and
   keeps it failed; a carrier that itself reports InvalidData does not make the reader fail; a
   close that flushes a partially written buffer; a two-round duplex connection whose second
   delivery replays the first frame at a distance *)
Example C02_nonvacuous :
  let c := mkCfg 1 1 V.gen.Consts.MAX_FRAME_LEN in
  let plains := [5; 70000 - 65519; 1] in
  let tr := run_reader (honest_env c plains) [100; 100; 100; 100; 2; 100000; 7; 7; 7]
                       [3; 4; 0; SPECIAL + 6; 1; SPECIAL; 1; 1; 1000000; 1000000; 1000000] (reader_init c) in
  map fst tr = [RPending; RErr 6; RErr E_EOF; RReady 5 0; RReady 2 5; RReady 4479 7; RReady 1 4486;
                RErr E_EOF; RErr E_EOF] /\
  let e := env_of c plains [TFlip 1 9 255] in
  not_auth e 1 /\
  map fst (run_reader e [100; 100; 100; 100] [1000000; 1000000] (reader_init c)) =
    [RReady 5 0; RErr E_INVALID; RErr E_INVALID; RErr E_INVALID] /\
  map fst (run_reader (honest_env c plains) [100; 100; 100] [SPECIAL + 2; 1000000] (reader_init c)) =
    [RErr E_INVALID; RReady 5 0; RReady 100 5] /\
  (let '(tr, w, _) := run_writer c [OWrite 10; OWriteV [0; 7; 3]; OClose; OClose; OWrite 4; OFlush]
                                [0; 5; 0; 1000; 1000] writer_init in
   map fst tr = [WReady 10; WReady 7; WPending; WReady 0; WReady 4; WErr E_BROKENPIPE] /\
   w_sent w = frames_wire [10; 7] /\ w_cclosed w = true) /\
  let '(trs, A, B, ok) :=
    run_rounds c [mkRound false [OWrite 3; OWrite 4] [] [] [SR 100; SW (OWrite 9); SR 100; SR 100] [1000000] [];
                  mkRound true [] [] [] [SR 100; SR 100] [1000000] [];
                  mkRound false [OWrite 2] [] [TCopy 0 1] [SR 100; SR 100; SR 100] [1000000] []]
               (flow_init c) (flow_init c) in
  ok = true /\ f_D A = 9 /\ f_D B = 9 /\ is_failed (f_r A) = true /\ is_failed (f_r B) = false /\
  clean_prefix (f_items A) (f_plains A) 0 (f_avail A) = 9.
Proof.
  vm_compute. split; [reflexivity|]. split; [|split; [reflexivity|split; [reflexivity|]]].
  - intros it [= <-]. reflexivity.
  - split; [repeat split|]. repeat split.
Qed.
