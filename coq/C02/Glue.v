(* C02 — wire format, model runner and the trace oracle prop_ok. Definitions only.

   case  = F WB  <writer ops>  <writer carrier script>  tamper(4 numbers)  <reads>  <reader carrier script>
             (one round, the dialer writes, one manipulation; still produced by C19 and the stored corpus)
         | 9002 F WB early  <rounds>
           round = dir <writer ops> <writer carrier script> <tampers> <schedule> <reader carrier script>
                   <carrier script for the writer calls of the schedule>
           writer op: 0 len (poll_write of len bytes) | 1 (poll_flush) | 2 (poll_close) | 3 <lens>
           (poll_write_vectored); tamper: 4 numbers (tag a b c); schedule item: 0 buflen repetitions
           (poll_read calls) | 1 <writer op> (a call on the writer half of the READING socket);
           lists are count-prefixed.  `early` (only with a first round of direction 0): the first
           round's ciphertext is put behind handshake message 3 in the listener's carrier before the
           listener's handshake() has read it — the model is the same, the handshake must not take
           a byte too many.
   trace = 1  MSG TAG MFL read_buffer.len encrypt_buffer.len SNOW_MAX decrypt_buffer.len
           per round: <writer records>  ok  final-flush record  <headers of the frames that reached the
           carrier completely since the last delivery>  bytes-the-reader's-carrier-will-deliver
           <records of the schedule: 0 reader-record | 1 writer-record>  ok2
           writer record = result(2) state(3) bytes-handed-to-carrier last-carrier-call-pending
                           carrier-closed sending-nonce
           reader record = result(3) state(7) bytes-pulled last-carrier-call-pending receiving-nonce
                           read_buffer[..nread]-is-the-wire-window                                  *)
From Coq Require Import List NArith Bool.
From V.common Require Import Wire.
From V.gen Require Import Consts.
From V.C02 Require Import Model.
Import ListNotations.
Open Scope N_scope.

Definition REP_MAX : N := 20000.
Definition IDX_MAX : N := 100000.
Definition FORGE_MAX : N := 70000.
Definition EXT_TAG : N := 9002.

Definition p_wop : parser wop :=
  let* tag := pN in
  match tag with
  | 0 => let* len := pN in pret (OWrite len)
  | 1 => pret OFlush
  | 2 => pret OClose
  | 3 => let* lens := plist pN in pret (OWriteV lens)
  | _ => pfail
  end.

Definition p_tamper : parser tamper :=
  let* tag := pN in let* a := pN in let* b := pN in let* c := pN in
  let i := N.min a IDX_MAX in     (* an index beyond any wire is a no-op either way *)
  let j := N.min b IDX_MAX in
  match tag with
  | 0 => pret TNone
  | 1 => pret (TFlip i b c)
  | 2 => pret (TDrop i)
  | 3 => pret (TDup i)
  | 4 => pret (TSwap i)
  | 5 => pret (TTrunc a)
  | 6 => pret (TMove i j)
  | 7 => pret (TCopy i j)
  | 8 => pret (TForge i b (N.min c FORGE_MAX))
  | 9 => pret (TGrow i)
  | 10 => pret (TShrink i)
  | 11 => pret (TForeign i)
  | _ => pfail
  end.

Record case := mkCase { k_cfg : cfg; k_early : bool; k_rounds : list round }.

Definition expand1 (b r : N) : list sop := repeat (SR b) (N.to_nat (N.min r REP_MAX)).

Definition p_sitem : parser (list sop) :=
  let* tag := pN in
  match tag with
  | 0 => let* b := pN in let* r := pN in pret (expand1 b r)
  | 1 => let* o := p_wop in pret [SW o]
  | _ => pfail
  end.

Definition p_round : parser round :=
  let* d := pN in
  let* wops := plist p_wop in
  let* wsc := plist pN in
  let* ts := plist p_tamper in
  let* sched := plist p_sitem in
  let* rsc := plist pN in
  let* xsc := plist pN in
  if 1 <? d then pfail else pret (mkRound (negb (d =? 0)) wops wsc ts (concat sched) rsc xsc).

Definition p_case_old : parser case :=
  let* f := pN in let* wb := pN in
  let* wops := plist p_wop in
  let* wsc := plist pN in
  let* t := p_tamper in
  let* reads := plist (let* b := pN in let* r := pN in pret (expand1 b r)) in
  let* rsc := plist pN in
  pret (mkCase (mkCfg f wb MAX_FRAME_LEN) false [mkRound false wops wsc [t] (concat reads) rsc []]).

Definition p_case_ext : parser case :=
  let* f := pN in let* wb := pN in let* early := pN in
  let* rds := plist p_round in
  if 1 <? early then pfail else pret (mkCase (mkCfg f wb MAX_FRAME_LEN) (negb (early =? 0)) rds).

Definition decode_case (l : list N) : option case :=
  match l with
  | x :: t => if x =? EXT_TAG then pall p_case_ext t else pall p_case_old l
  | [] => None
  end.

(* ---- encoders ---- *)
Definition enc_wres (x : wres) : list N :=
  match x with WReady n => [0; n] | WPending => [1; 0] | WErr e => [2; e] | WPanic => [3; 0] end.
Definition enc_wstate (s : wstate) : list N :=
  match s with WIdle => [0; 0; 0] | Writing off elen => [1; off; elen] end.
Definition enc_wrec (xr : wres * writer) : list N :=
  let '(x, w) := xr in
  match x with
  | WPanic => [3; 0; 0; 0; 0; 0; 0; 0; 0]
  | _ => enc_wres x ++ enc_wstate (w_state w) ++ [w_sent w; b2n (w_lp w); b2n (w_cclosed w); nlen (w_frames w)]
  end.

Definition enc_rres (x : rres) : list N :=
  match x with
  | RReady n pos => [0; n; pos] | RPending => [1; 0; 0] | RErr e => [2; e; 0] | RPanic => [3; 0; 0]
  end.
Definition enc_rstate (r : reader) : list N :=
  match r_state r with
  | ReadData mr => [0; mr; 0; 0]
  | ReadFrameLen => [1; 0; 0; 0]
  | ProcNone => [2; 0; 0; 0]
  | ProcPend a b c => [3; a; b; c]
  | Failed => [4; 0; 0; 0]
  end ++ [r_nread r; r_offset r; enc_opt (r_cfs r)].
(* the last number: read_buffer[..nread] equals the wire at [pulled - nread, pulled) — an invariant
   of the model (Buffer.poll_read_win), so the model always says 1 *)
Definition enc_rrec (xr : rres * reader) : list N :=
  let '(x, r) := xr in
  match x with
  | RPanic => [3; 0; 0; 0; 0; 0; 0; 0; 0; 0; 0; 0; 0; 0]
  | _ => enc_rres x ++ enc_rstate r ++ [r_wbase r + r_nread r; b2n (r_lp r); r_ctr r; 1]
  end.
Definition enc_srec (q : srec) : list N :=
  match q with QR x r => 0 :: enc_rrec (x, r) | QW x w => 1 :: enc_wrec (x, w) end.

Definition header (c : cfg) : list N := [MSG; TAG; c_mfl c; rbuf_len c; ebuf_len c; SNOW_MAX; c_mfl c].

Definition enc_round (tr : rtrace) : list N :=
  enc_list enc_wrec (rt_wrecs tr) ++ [b2n (rt_ok tr)] ++
  (if rt_ok tr then
     enc_wrec (rt_flush tr) ++
     (if w_is_final (fst (rt_flush tr)) then []
      else
        let w := snd (rt_flush tr) in
        let whole := frames_wire (sent_frames (w_frames w) (w_sent w)) =? w_sent w in
        enc_list (fun x => [x]) (map (fun x => x + TAG) (rt_new tr) ++ (if whole then [] else [0])) ++
        [rt_avail tr] ++ enc_list enc_srec (rt_mixed tr) ++ [b2n (rt_ok2 tr)])
   else []).

Definition run_case (l : list N) : list N :=
  match decode_case l with
  | None => [0]
  | Some k =>
      let c := k_cfg k in
      let '(trs, _, _, _) := run_rounds c (k_rounds k) (flow_init c) (flow_init c) in
      1 :: header c ++ flat_map enc_round trs
  end.

(* ---- decoding a trace ---- *)
Record wrec := mkWQ { wq_res : wres; wq_st : wstate; wq_sent : N; wq_lp : bool; wq_closed : bool; wq_nf : N }.
Definition p_wrec : parser wrec :=
  let* tag := pN in let* a := pN in
  let* st := pN in let* off := pN in let* elen := pN in let* sent := pN in
  let* lp := pBool in let* cl := pBool in let* nf := pN in
  let x := match tag with 0 => WReady a | 1 => WPending | 2 => WErr a | _ => WPanic end in
  pret (mkWQ x (if st =? 0 then WIdle else Writing off elen) sent lp cl nf).

Record rrec := mkRR { q_res : rres; q_tag : N; q_nread : N; q_offset : N; q_pulled : N; q_lp : bool;
                      q_ctr : N; q_win : bool }.
Definition p_rrec : parser rrec :=
  let* tag := pN in let* a := pN in let* b := pN in
  let* st := pN in let* _ := pN in let* _ := pN in let* _ := pN in
  let* nread := pN in let* offset := pN in let* _ := pN in let* pulled := pN in let* lp := pBool in
  let* ctr := pN in let* win := pN in
  let x := match tag with 0 => RReady a b | 1 => RPending | 2 => RErr a | _ => RPanic end in
  pret (mkRR x st nread offset pulled lp ctr (win =? 1)).

Inductive mrec := MR (q : rrec) | MW (q : wrec).
Definition p_mrec : parser mrec :=
  let* tag := pN in
  match tag with
  | 0 => let* q := p_rrec in pret (MR q)
  | 1 => let* q := p_wrec in pret (MW q)
  | _ => pfail
  end.

Record tround := mkTR {
  tr_wrecs : list wrec; tr_flush : wrec; tr_hdrs : list N; tr_avail : N; tr_mixed : list mrec
}.

(* a round that was cut short by a panic does not parse *)
Definition p_tround : parser tround :=
  let* wr := plist p_wrec in
  let* ok := pBool in
  if ok then
    let* fl := p_wrec in
    match wq_res fl with
    | WPanic => pfail
    | _ =>
        let* hdrs := plist pN in
        let* avail := pN in
        let* mx := plist p_mrec in
        let* ok2 := pBool in
        if ok2 then pret (mkTR wr fl hdrs avail mx) else pfail
    end
  else pfail.

(* ---- the oracle: what the property text demands of an observed run ---- *)

Definition is_close (o : wop) : bool := match o with OClose => true | _ => false end.
Definition op_len (o : wop) : N :=
  match o with OWrite len => len | OWriteV lens => first_nonempty lens | _ => 0 end.
Definition st_idle (s : wstate) : bool := match s with WIdle => true | _ => false end.

(* an error kind the script makes the carrier return *)
Definition scripted_b (sc : list N) (e : N) : bool :=
  existsb (fun x => (SPECIAL <? x) && (ecode (x - SPECIAL) =? e)) sc.

(* an error of a writer-side call is always the carrier's: BrokenPipe once the caller has closed
   the carrier, WriteZero for a zero-length acceptance, or the scripted I/O error unchanged; the
   socket never fails by itself *)
Definition werr_ok (sc : list N) (closed : bool) (e : N) : bool :=
  (closed && (e =? E_BROKENPIPE)) || (existsb (N.eqb SPECIAL) sc && (e =? E_WRITEZERO)) || scripted_b sc e.

(* the writer half of one socket, as seen so far *)
Record wst := mkWS { ws_closed : bool; ws_acc : N; ws_sent : N; ws_nf : N }.
Definition wst_init : wst := mkWS false 0 0 0.

(* writer calls, one record per call: never a panic; an error only as werr_ok allows; a write of
   len bytes accepts between 1 and len bytes (0 for an empty buffer) and encrypts them in frames of
   1..MAX_FRAME_LEN bytes (the sending nonce advances once per frame, and only then);
   poll_flush / poll_close = Ready leave nothing buffered and a completed close has closed the
   carrier; Pending only after the carrier returned Pending (so a waker is registered); a closed
   carrier stays closed and receives nothing more.  Returns the state after the calls (None: a
   violation); ws_acc sums the plaintext accepted while the carrier was open. *)
Fixpoint wcalls (mfl : N) (sc : list N) (ops : list wop) (recs : list wrec) (s : wst) : option wst :=
  match ops, recs with
  | [], [] => Some s
  | o :: ot, q :: rt =>
      let dnf := wq_nf q - ws_nf s in
      let same_nf := wq_nf q =? ws_nf s in
      let good :=
        match wq_res q with
        | WReady n =>
            if is_write o then
              (n <=? op_len o) && ((op_len o =? 0) || (1 <=? n)) &&
              (ws_nf s <=? wq_nf q) && (dnf <=? n) && (n <=? dnf * mfl)
            else st_idle (wq_st q) && (negb (is_close o) || wq_closed q) && same_nf
        | WPending => wq_lp q && (negb (is_write o) || (1 <=? op_len o)) && same_nf
        | WErr e => werr_ok sc (ws_closed s) e && same_nf
        | WPanic => false
        end in
      let closed_ok :=
        (negb (ws_closed s) || (wq_closed q && (wq_sent q =? ws_sent s))) &&
        (negb (wq_closed q) || ws_closed s || is_close o) && (ws_sent s <=? wq_sent q) in
      if good && closed_ok then
        let acc := if wq_closed q then ws_acc s
                   else ws_acc s + (if is_write o then match wq_res q with WReady n => n | _ => 0 end else 0) in
        wcalls mfl sc ot rt (mkWS (wq_closed q) acc (wq_sent q) (wq_nf q))
      else None
  | _, _ => None
  end.

(* frames on the wire: each carries 1..MAX_FRAME_LEN plaintext bytes in a Noise message of at
   most 65535 bytes *)
Definition hdr_ok (mfl h : N) : bool := (TAG + 1 <=? h) && (h <=? SNOW_MAX) && (h - TAG <=? mfl).

Definition is_none (t : tamper) : bool := match t with TNone => true | _ => false end.

(* one direction of the connection, as seen so far *)
Record ost := mkO {
  o_items : list item; o_plains : list N; o_avail : N; o_cut : bool; o_clean : bool;
  o_deliv : N; o_failed : bool; o_ctr : N
}.
Definition ost_init : ost := mkO [] [] 0 false true 0 false 0.

(* one reader call (the socket is polled on after errors): never a panic, never an internal-state
   error; a delivered chunk is the next chunk of the stream (no loss, duplication, reordering or
   alteration), fits the caller's buffer and is non-empty for a non-empty buffer; nothing beyond the
   clean prefix of a tampered wire is ever delivered; once the reader has failed (its own
   InvalidData) every later call reports InvalidData and delivers nothing (fail-stop); on an
   untampered wire it never fails; other errors are the carrier's (end of stream / zero-length
   read, or the scripted I/O error unchanged); when the end of stream comes after the whole
   untampered wire was pulled, everything has been delivered; Pending only after the carrier returned
   Pending; the receiving nonce advances by one exactly with a decrypted frame; the read buffer is
   a window of the wire *)
Definition rcall (rsc : list N) (limit total : N) (b : N) (q : rrec) (o : ost) : option ost :=
  let isf := q_tag q =? 4 in
  let step := (q_ctr q =? o_ctr o) || (q_ctr q =? o_ctr o + 1) in
  let upd d f := mkO (o_items o) (o_plains o) (o_avail o) (o_cut o) (o_clean o) d f (q_ctr q) in
  if negb (q_win q && step) then None else
  match q_res q with
  | RReady n pos =>
      if negb (o_failed o) && negb isf && (pos =? o_deliv o) && (n <=? b) && ((b =? 0) || (1 <=? n)) &&
         (o_deliv o + n <=? limit)
      then Some (upd (o_deliv o + n) false) else None
  | RPending =>
      if negb (o_failed o) && negb isf && q_lp q && (q_ctr q =? o_ctr o) then Some (upd (o_deliv o) false) else None
  | RErr e =>
      if isf then
        if (e =? E_INVALID) && negb (o_clean o) && (q_ctr q =? o_ctr o) then Some (upd (o_deliv o) true) else None
      else
        if negb (o_failed o) && (q_ctr q =? o_ctr o) &&
           ((e =? E_EOF) || scripted_b rsc e) &&
           (negb (o_clean o) || negb ((e =? E_EOF) && (q_pulled q =? o_avail o)) || (o_deliv o =? total))
        then Some (upd (o_deliv o) false) else None
  | RPanic => None
  end.

(* the records of a read phase against its schedule: reader calls of direction d, writer calls of
   the reading socket (direction 1-d) *)
Fixpoint mcalls (mfl : N) (rsc xsc : list N) (limit total : N) (sched : list sop) (recs : list mrec)
                (o : ost) (w : wst) : option (ost * wst) :=
  match sched, recs with
  | [], [] => Some (o, w)
  | SR b :: st, MR q :: rt =>
      match rcall rsc limit total b q o with
      | Some o' => mcalls mfl rsc xsc limit total st rt o' w
      | None => None
      end
  | SW op :: st, MW q :: rt =>
      match wcalls mfl xsc [op] [q] w with
      | Some w' => mcalls mfl rsc xsc limit total st rt o w'
      | None => None
      end
  | _, _ => None
  end.

(* one round of direction d: (o, w) = that direction's reader and writer state, x = the writer
   state of the opposite direction *)
Definition round_ok (c : cfg) (rd : round) (t : tround) (o : ost) (w x : wst) : option (ost * wst * wst) :=
  match wcalls (c_mfl c) (rd_wsc rd) (rd_wops rd) (tr_wrecs t) w with
  | None => None
  | Some w1 =>
      let fq := tr_flush t in
      (* the final flush (carrier accepting everything): completes unless the carrier was closed by
         the caller; what reached the carrier is whole frames, and their plaintext is exactly what
         was accepted while the carrier was open *)
      match wcalls (c_mfl c) [] [OFlush] [fq] w1 with
      | None => None
      | Some w2 =>
          let new := map (fun h => h - TAG) (tr_hdrs t) in
          let plains := o_plains o ++ new in
          let total := sum plains in
          let flush_ok :=
            match wq_res fq with
            | WReady _ => true
            | WErr e => wq_closed fq
            | _ => false
            end in
          let fresh := apply_tampers (rd_tampers rd) (honest_from (nlen (o_plains o)) new) in
          let base := wire_len (o_items o) in
          let o1 :=
            if o_cut o then mkO (o_items o) plains (o_avail o) true false (o_deliv o) (o_failed o) (o_ctr o)
            else match trunc_of (rd_tampers rd) with
                 | Some pos => mkO (o_items o ++ fresh) plains (base + N.min pos (wire_len fresh)) true false
                                   (o_deliv o) (o_failed o) (o_ctr o)
                 | None => mkO (o_items o ++ fresh) plains (base + wire_len fresh) false
                               (o_clean o && forallb is_none (rd_tampers rd))
                               (o_deliv o) (o_failed o) (o_ctr o)
                 end in
          if flush_ok && forallb (hdr_ok (c_mfl c)) (tr_hdrs t) &&
             (wq_sent fq =? frames_wire plains) && (total =? ws_acc w2) &&
             (nlen plains <=? ws_nf w2) && (ws_closed w2 || (nlen plains =? ws_nf w2)) &&
             (tr_avail t =? o_avail o1)
          then
            match mcalls (c_mfl c) (rd_rsc rd) (rd_xsc rd)
                         (clean_prefix (o_items o1) plains 0 (o_avail o1)) total
                         (rd_sched rd) (tr_mixed t) o1 x with
            | Some (o2, x2) => Some (o2, w2, x2)
            | None => None
            end
          else None
      end
  end.

(* all rounds; state: direction 0 (reader, writer), direction 1 (reader, writer) *)
Fixpoint rounds_ok (c : cfg) (rds : list round) (ts : list tround) (o0 : ost) (w0 : wst) (o1 : ost) (w1 : wst) : bool :=
  match rds, ts with
  | [], [] => true
  | rd :: rt, t :: tl =>
      if rd_dir rd then
        match round_ok c rd t o1 w1 w0 with
        | Some (o1', w1', w0') => rounds_ok c rt tl o0 w0' o1' w1'
        | None => false
        end
      else
        match round_ok c rd t o0 w0 w1 with
        | Some (o0', w0', w1') => rounds_ok c rt tl o0' w0' o1 w1'
        | None => false
        end
  | _, _ => false
  end.

Definition prop_ok (case trace : list N) : bool :=
  match decode_case case, trace with
  | None, [0] => true
  | Some k, 1 :: body =>
      let c := k_cfg k in
      if (1 <=? c_factor c) && (1 <=? c_wbuf c) then
        match pall (let* h := prep 7 pN in
                    let* ts := prep (length (k_rounds k)) p_tround in pret (h, ts)) body with
        | None => false
        | Some (h, ts) =>
            nlist_eqb h (header c) &&
            rounds_ok c (k_rounds k) ts ost_init wst_init ost_init wst_init
        end
      else true    (* a zero read-ahead factor or write-buffer size is outside the property *)
  | _, _ => false
  end.

(* No known-finding classes for C02: the defects found (see KNOWN_FINDINGS.txt `fixed:`) are
   repaired in the code; every failing case is a violation. *)
Definition known_class (case trace : list N) : N := 0.
